//go:build verif || !verif

package combinator

import (
	"encoding/binary"
	"time"

	"github.com/scionproto/scion/zz_verif/verif"
)

// vCheckC28 states the clauses of C28 on the result of the real Combine for one shape.
func vCheckC28(paths []Path, refs []vRef, findAllIdentical bool, observeOrdered bool) {
	verif.Observe("npaths", len(paths))
	var sumMTU, sumW uint64
	var sumExp int64
	for k := range paths {
		p := &paths[k]
		raw := p.SCIONPath.Raw
		intfs := p.Metadata.Interfaces

		// -- consistent segment lengths (scion-header.rst: PathMeta, offsets)
		verif.Assert("raw-has-meta-header", len(raw) >= 4)
		meta := binary.BigEndian.Uint32(raw[0:4])
		s0 := int(verif.Concrete(uint64(meta >> 12 & 63)))
		s1 := int(verif.Concrete(uint64(meta >> 6 & 63)))
		s2 := int(verif.Concrete(uint64(meta & 63)))
		nseg := 1
		if s1 > 0 {
			nseg = 2
		}
		if s2 > 0 {
			nseg = 3
		}
		verif.Assert("pointers-at-start", meta>>24 == 0)
		verif.Assert("at-most-three-contiguous-nonempty-segments", s0 > 0 && (s2 == 0 || s1 > 0))
		verif.Assert("length-matches-seglens", len(raw) == 4+8*nseg+12*(s0+s1+s2))

		// -- no AS more than twice
		verif.Assert("no-as-more-than-twice", !vVisitsMoreThanTwice(intfs))

		// -- the path is one of the combinations of at most one up, one core, one down segment (in
		//    that order) with info and hop fields taken from the input; interfaces, expiry and MTU
		//    agree with that combination
		exp := p.Metadata.Expiry
		var okRaw, okIntf, okMTU, okWeight uint8
		for ri := range refs {
			r := &refs[ri]
			m := vB2U(r.valid) & vSameBytes(raw, r.raw())
			okRaw |= m
			m &= vSameIntfs(intfs, r.interfaces())
			okIntf |= m
			// minimum of the listed MTUs: not above any of them, equal to one of them
			var mtuLE, mtuEQ uint8 = 1, 0
			for _, v := range r.mtus() {
				mtuLE &= vB2U(p.Metadata.MTU <= v)
				mtuEQ |= vB2U(p.Metadata.MTU == v)
			}
			okMTU |= m & mtuLE & mtuEQ
			okWeight |= m & vB2U(p.Weight == r.links())
			// earliest hop-field expiry: not later than any hop field used, equal to one of them.
			// Every combination with these path bytes has the same hop-field expiries (timestamps
			// and ExpTime are part of the bytes), so the clause is stated for each matching
			// combination, one obligation per hop field (small queries).
			var expEQ uint8
			for _, v := range r.expiries() {
				verif.Assert("expiry-not-after-any-hop-field-expiry", m&vB2U(v.Before(exp)) == 0)
				expEQ |= vB2U(exp.Equal(v))
			}
			verif.Assert("expiry-is-a-hop-field-expiry", m&(1-expEQ) == 0)
		}
		verif.Assert("fields-taken-from-one-up-core-down-combination", okRaw == 1)
		verif.Assert("interfaces-are-those-the-hop-fields-traverse", okIntf == 1)
		verif.Assert("mtu-is-minimum-of-internal-and-link-mtus", okMTU == 1)
		verif.Assert("weight-is-number-of-links", okWeight == 1)

		// -- ordered by non-decreasing weight
		if k > 0 {
			verif.Assert("ordered-by-non-decreasing-weight", paths[k-1].Weight <= p.Weight)
			verif.Assert("ordered-by-non-decreasing-length", len(paths[k-1].Metadata.Interfaces) <= len(intfs))
		}

		if !findAllIdentical {
			// -- no two results share an interface sequence
			for k2 := 0; k2 < k; k2++ {
				verif.Assert("no-two-paths-share-interface-sequence",
					vSameIntfs(paths[k2].Metadata.Interfaces, intfs) == 0)
			}
			// -- the one kept has the latest expiry among the combinations with that sequence
			for ri := range refs {
				r := &refs[ri]
				same := vB2U(r.valid) & vSameIntfs(intfs, r.interfaces())
				// the combination r expires no later than the path kept: some hop field of r expires
				// at or before p.Expiry
				var notLater uint8
				for _, v := range r.expiries() {
					notLater |= 1 - vB2U(exp.Before(v))
				}
				verif.Assert("kept-duplicate-has-latest-expiry", same&(1-notLater) == 0)
			}
		}
		sumMTU += uint64(p.Metadata.MTU)
		sumW += uint64(p.Weight)
		sumExp += p.Metadata.Expiry.Unix()
		if observeOrdered {
			verif.Observe("path", k, p.Weight, p.Metadata.MTU, p.Metadata.Expiry.Unix(), raw, string(p.Fingerprint))
			for _, it := range intfs {
				verif.Observe("intf", uint64(it.IA), uint64(it.ID))
			}
		}
	}
	verif.Observe("sums", sumMTU, sumW, sumExp)
}

// VerifC28Shape: real Combine on the segment sets of one shape, all attributes symbolic.
func VerifC28Shape() {
	shape := verif.Param("shape")
	vExpBits = verif.Param("expbits")
	src, dst, ups, cores, downs := vShape(shape)
	verif.AssumeInjective("sha256", 0)
	all := verif.NondetBool("findAllIdentical")
	refs := vEnumerate(src, dst, ups, cores, downs)
	vExpiryLemmas(ups, cores, downs)
	paths := Combine(src, dst, ups, cores, downs, all)
	verif.Cover("combined")
	if len(paths) > 0 {
		verif.Cover("some-path")
	}
	if len(paths) > 1 {
		verif.Cover("several-paths")
	}
	for k := range paths {
		raw := paths[k].SCIONPath.Raw
		if len(raw) >= 4+8 {
			if raw[4]&2 != 0 {
				verif.Cover("peering-path")
			}
			if raw[3]&63 != 0 {
				verif.Cover("three-segments")
			}
		}
	}
	if len(paths) < len(refs) {
		verif.Cover("fewer-paths-than-combinations")
	}
	// natively the order of equal-cost solutions built from segments with equal ids depends on map
	// iteration order; per-path observations are made only where segment ids cannot coincide
	ordered := shape != 3 && shape != 12
	vCheckC28(paths, refs, all, ordered)
}

// VerifC28Twin is the reachability twin: the assertion must be violated (the MTU is not always the
// internal MTU of the source AS).
func VerifC28Twin() {
	src, dst, ups, cores, downs := vShape(0)
	paths := Combine(src, dst, ups, cores, downs, false)
	verif.Assume(len(paths) == 1)
	verif.Assert("twin", paths[0].Metadata.MTU == uint16(ups[0].ASEntries[1].MTU))
}

// VerifC28TwinExpiry must fail: the expiry is not always that of the first hop field of the path (the
// earliest one may be any of them).
func VerifC28TwinExpiry() {
	src, dst, ups, cores, downs := vShape(0)
	paths := Combine(src, dst, ups, cores, downs, false)
	verif.Assume(len(paths) == 1)
	e := ups[0].ASEntries[1].HopEntry.HopField.ExpTime
	verif.Assert("twin-expiry", paths[0].Metadata.Expiry.Equal(vHopExpiry(vTS(ups[0]), e)))
}

var _ = time.Second
