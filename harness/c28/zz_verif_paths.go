//go:build verif || !verif

package combinator

// Shared harness for C28 / C29: symbolic-attribute path segments over concrete AS-level shapes, and a
// brute-force reference enumeration of segment combinations written from the property statements,
// doc/control-plane.rst (path combinations, peering links) and doc/protocols/scion-header.rst (path
// layout, SegID initialisation, expiry formula). It never calls the code under test.

import (
	"bytes"
	"encoding/binary"
	"strconv"
	"time"

	"github.com/scionproto/scion/pkg/addr"
	seg "github.com/scionproto/scion/pkg/segment"
	"github.com/scionproto/scion/pkg/segment/iface"
	"github.com/scionproto/scion/pkg/snet"
	"github.com/scionproto/scion/zz_verif/verif"
)

// ---- topology constants (concrete per shape; DESIGN 7/C28) -------------------------------------

func vIA(isd uint64, as uint64) addr.IA { return addr.IA(isd<<48 | as) }

var (
	vC1 = vIA(1, 0xff0000000110) // core
	vC2 = vIA(1, 0xff0000000120) // core
	vC3 = vIA(2, 0xff0000000210) // core, other ISD
	vX  = vIA(1, 0xff0000000111) // child of C1
	vA  = vIA(1, 0xff0000000112) // leaf
	vB  = vIA(1, 0xff0000000122) // leaf
	vY  = vIA(1, 0xff0000000121) // child of C2
)

type vEntry struct {
	ia    addr.IA
	peers []addr.IA // remote IA of each announced peering link
}

func vE(ia addr.IA, peers ...addr.IA) vEntry { return vEntry{ia: ia, peers: peers} }

// Interface ids of one AS that belong to links of different kind (to the parent, to a child, core
// link, peering link) are different interfaces: assumed distinct (generated topologies give every
// interface one link type). Ids of the same kind announced in different segments may coincide
// (the same link) or differ (parallel links); the solver explores both.
const (
	vKindParent = iota
	vKindChild
	vKindCore
	vKindPeer
)

const vTSBase = uint32(1700000000)

// vExpBits is the number of free low bits of every hop field's ExpTime (the others are zero). 8 = all
// values. C28 sets it from the instance parameter "expbits": the queries about the earliest expiry
// of a path are solver-hard with six or more full 8-bit ExpTime values (bound, named in the spec).
var vExpBits = 8

func vExpTime(name string) uint8 {
	return verif.NondetU8(name) & uint8(1<<uint(vExpBits)-1)
}

type vIfRec struct {
	ia   addr.IA
	id   uint16
	kind int
}

var vIfs []vIfRec

func vRegIf(ia addr.IA, id uint16, kind int) {
	for _, r := range vIfs {
		if r.ia == ia && r.kind != kind {
			verif.Assume(r.id != id)
		}
	}
	vIfs = append(vIfs, vIfRec{ia, id, kind})
}

// vMkSeg builds a path segment in construction order over the given ASes. Everything that is not
// AS-level structure is a solver variable: timestamp, SegID, interface ids, ExpTime, MACs, MTUs.
// Well-formedness (stated in the spec as assumptions): the first entry has no ingress interface and
// ingress MTU 0, the last entry has no egress interface, all other interface ids are non-zero, the
// interface ids used inside one AS entry are pairwise distinct, link MTUs of existing links are set
// (non-zero), a peer entry carries the egress interface of its hop entry (seg.Validate requires it).
func vMkSeg(tag string, ents []vEntry) *seg.PathSegment {
	n := len(ents)
	// timestamps: an 18 h window (comparable to the 24 h maximum hop-field lifetime, so every relative
	// order of hop-field expiries within and across segments is reachable); full 32-bit timestamps
	// make the solver's expiry queries an order of magnitude slower (64-bit adder comparisons)
	ts := vTSBase + uint32(verif.NondetU16(tag+".ts"))
	ps := &seg.PathSegment{Info: seg.Info{
		Timestamp: time.Unix(int64(ts), 0),
		SegmentID: verif.NondetU16(tag + ".segid"),
	}}
	for i, e := range ents {
		p := tag + ".e" + strconv.Itoa(i)
		var in, eg uint16
		var inMTU int
		if i > 0 {
			in = verif.NondetU16(p + ".in")
			verif.Assume(in != 0)
			inMTU = int(verif.NondetU16(p + ".inmtu"))
			verif.Assume(inMTU != 0)
		}
		if i < n-1 {
			eg = verif.NondetU16(p + ".eg")
			verif.Assume(eg != 0)
		}
		if i > 0 && i < n-1 {
			verif.Assume(in != eg)
		}
		core := tag[0] == 'c'
		if i > 0 {
			kind := vKindParent
			if core {
				kind = vKindCore
			}
			vRegIf(e.ia, in, kind)
		}
		if i < n-1 {
			kind := vKindChild
			if core {
				kind = vKindCore
			}
			vRegIf(e.ia, eg, kind)
		}
		var next addr.IA
		if i < n-1 {
			next = ents[i+1].ia
		}
		var mac [6]byte
		copy(mac[:], verif.NondetBytes(p+".mac", 6))
		ase := seg.ASEntry{
			Local: e.ia,
			Next:  next,
			MTU:   int(verif.NondetU16(p + ".mtu")),
			HopEntry: seg.HopEntry{
				HopField: seg.HopField{
					ExpTime:     vExpTime(p + ".exp"),
					ConsIngress: in,
					ConsEgress:  eg,
					MAC:         mac,
				},
				IngressMTU: inMTU,
			},
		}
		for k, pia := range e.peers {
			q := p + ".p" + strconv.Itoa(k)
			pin := verif.NondetU16(q + ".in")
			verif.Assume(pin != 0)
			verif.Assume(pin != in)
			verif.Assume(pin != eg)
			for _, other := range ase.PeerEntries {
				verif.Assume(pin != other.HopField.ConsIngress)
			}
			vRegIf(e.ia, pin, vKindPeer)
			var pmac [6]byte
			copy(pmac[:], verif.NondetBytes(q+".mac", 6))
			ase.PeerEntries = append(ase.PeerEntries, seg.PeerEntry{
				Peer:          pia,
				PeerInterface: verif.NondetU16(q + ".rem"),
				PeerMTU:       int(verif.NondetU16(q + ".mtu")),
				HopField: seg.HopField{
					ExpTime:     vExpTime(q + ".exp"),
					ConsIngress: pin,
					ConsEgress:  eg,
					MAC:         pmac,
				},
			})
		}
		ps.ASEntries = append(ps.ASEntries, ase)
	}
	return ps
}

// vShape returns the segment sets and the (src, dst) pair of a named shape.
func vShape(shape int) (src, dst addr.IA, ups, cores, downs []*seg.PathSegment) {
	vIfs = nil
	switch shape {
	case 0: // one up, one core, one down; joined at the cores
		ups = append(ups, vMkSeg("u0", []vEntry{vE(vC1), vE(vA)}))
		cores = append(cores, vMkSeg("c0", []vEntry{vE(vC2), vE(vC1)}))
		downs = append(downs, vMkSeg("d0", []vEntry{vE(vC2), vE(vB)}))
		return vA, vB, ups, cores, downs
	case 1: // shortcut: common non-core AS X on the up and the down segment
		ups = append(ups, vMkSeg("u0", []vEntry{vE(vC1), vE(vX), vE(vA)}))
		downs = append(downs, vMkSeg("d0", []vEntry{vE(vC1), vE(vX), vE(vB)}))
		return vA, vB, ups, cores, downs
	case 2: // peering link A~B announced (or not) by both sides, plus the way over the cores
		ups = append(ups, vMkSeg("u0", []vEntry{vE(vC1), vE(vA, vB)}))
		cores = append(cores, vMkSeg("c0", []vEntry{vE(vC2), vE(vC1)}))
		downs = append(downs, vMkSeg("d0", []vEntry{vE(vC2), vE(vB, vA)}))
		return vA, vB, ups, cores, downs
	case 3: // duplicates: two up segments over the same ASes (interface ids may or may not coincide)
		ups = append(ups, vMkSeg("u0", []vEntry{vE(vC1), vE(vA)}), vMkSeg("u1", []vEntry{vE(vC1), vE(vA)}))
		cores = append(cores, vMkSeg("c0", []vEntry{vE(vC2), vE(vC1)}))
		downs = append(downs, vMkSeg("d0", []vEntry{vE(vC2), vE(vB)}))
		return vA, vB, ups, cores, downs
	case 4: // destination on the up segment (up only)
		ups = append(ups, vMkSeg("u0", []vEntry{vE(vC1), vE(vX), vE(vA)}))
		return vA, vX, ups, cores, downs
	case 5: // source on the down segment (down only)
		downs = append(downs, vMkSeg("d0", []vEntry{vE(vC1), vE(vX), vE(vB)}))
		return vX, vB, ups, cores, downs
	case 6: // core to core over a 3-AS core segment, plus a direct one
		cores = append(cores, vMkSeg("c0", []vEntry{vE(vC2), vE(vC3), vE(vC1)}), vMkSeg("c1", []vEntry{vE(vC2), vE(vC1)}))
		return vC1, vC2, ups, cores, downs
	case 7: // up + core (core destination) and core + down (core source) share the segments of shape 0
		ups = append(ups, vMkSeg("u0", []vEntry{vE(vC1), vE(vA)}))
		cores = append(cores, vMkSeg("c0", []vEntry{vE(vC2), vE(vC1)}))
		return vA, vC2, ups, cores, downs
	case 8:
		cores = append(cores, vMkSeg("c0", []vEntry{vE(vC2), vE(vC1)}))
		downs = append(downs, vMkSeg("d0", []vEntry{vE(vC2), vE(vB)}))
		return vC1, vB, ups, cores, downs
	case 9: // peering between intermediate ASes X~Y, shortcut-free, 3-entry segments, with core alternative
		ups = append(ups, vMkSeg("u0", []vEntry{vE(vC1), vE(vX, vY), vE(vA)}))
		cores = append(cores, vMkSeg("c0", []vEntry{vE(vC2), vE(vC1)}))
		downs = append(downs, vMkSeg("d0", []vEntry{vE(vC2), vE(vY, vX), vE(vB)}))
		return vA, vB, ups, cores, downs
	case 10: // shortcut and peering alternatives together; two down segments (one direct from C1)
		ups = append(ups, vMkSeg("u0", []vEntry{vE(vC1), vE(vX, vB), vE(vA)}))
		downs = append(downs, vMkSeg("d0", []vEntry{vE(vC1), vE(vX), vE(vB, vX)}), vMkSeg("d1", []vEntry{vE(vC1), vE(vB)}))
		return vA, vB, ups, cores, downs
	case 11: // two parallel peering links between A and B
		ups = append(ups, vMkSeg("u0", []vEntry{vE(vC1), vE(vA, vB, vB)}))
		downs = append(downs, vMkSeg("d0", []vEntry{vE(vC1), vE(vB, vA, vA)}))
		return vA, vB, ups, cores, downs
	case 12: // duplicates on the down side and on the core
		ups = append(ups, vMkSeg("u0", []vEntry{vE(vC1), vE(vA)}))
		cores = append(cores, vMkSeg("c0", []vEntry{vE(vC2), vE(vC1)}), vMkSeg("c1", []vEntry{vE(vC2), vE(vC1)}))
		downs = append(downs, vMkSeg("d0", []vEntry{vE(vC2), vE(vB)}), vMkSeg("d1", []vEntry{vE(vC2), vE(vB)}))
		return vA, vB, ups, cores, downs
	}
	panic("unknown shape")
}

// VerifShape exports the shapes to the path-lookup harness (C30, package segfetcher).
func VerifShape(shape int) (src, dst addr.IA, ups, cores, downs []*seg.PathSegment) {
	return vShape(shape)
}

// VerifCoreASes lists the core ASes of the shapes' topology per ISD.
func VerifCoreASes(isd addr.ISD) []addr.IA {
	switch isd {
	case 1:
		return []addr.IA{vC1, vC2}
	case 2:
		return []addr.IA{vC3}
	}
	return nil
}

// ---- reference combinations ---------------------------------------------------------------------

type vHop struct {
	exp    uint8
	in, eg uint16
	mac    [6]byte
}

// vPart is the used portion of one segment, in forwarding order.
type vPart struct {
	ts      uint32
	segID   uint16
	consDir bool
	peer    bool
	hops    []vHop
	intfs   []snet.PathInterface
	exps    []time.Time // absolute expiry of every hop field used
	mtus    []uint16 // the internal and link MTUs along the part
	links   int       // inter-AS links traversed (a peering link is counted on the down side)
	cut     int       // index of the AS entry at which the segment is left / entered (0 = whole segment)
}

type vRef struct {
	valid bool // symbolic for peering (link announced by both sides), else true
	parts []vPart
}

const vExpUnit = 24 * time.Hour / 256 // scion-header.rst: (1 + ExpTime) * 24*60*60/256 s

// vHopExpiry is the absolute expiry of a hop field (scion-header.rst): Timestamp + (1 + ExpTime) * unit.
func vHopExpiry(ts uint32, exp uint8) time.Time {
	return time.Unix(int64(ts), 0).Add(time.Duration(uint64(exp)+1) * vExpUnit)
}

// vExpiryLemmas states, and hands to the solver as a proved fact, that within one segment (common
// timestamp) a hop field with a smaller ExpTime expires no later than one with a larger ExpTime.
// Each instance is a small query of its own (two 8-bit ExpTime values, one timestamp); having the
// facts in the path condition keeps the multiplication (1 + ExpTime) * 337.5 s out of the queries
// about the earliest expiry of a whole path.
func vExpiryLemmas(lists ...[]*seg.PathSegment) {
	for _, list := range lists {
		for _, s := range list {
			var hfs []seg.HopField
			for _, e := range s.ASEntries {
				hfs = append(hfs, e.HopEntry.HopField)
				for _, pe := range e.PeerEntries {
					hfs = append(hfs, pe.HopField)
				}
			}
			ts := vTS(s)
			for i := range hfs {
				for j := i + 1; j < len(hfs); j++ {
					a, b := vHopExpiry(ts, hfs[i].ExpTime), vHopExpiry(ts, hfs[j].ExpTime)
					fact := (hfs[i].ExpTime <= hfs[j].ExpTime) == !b.Before(a)
					verif.Assert("lemma-expiry-monotone-in-exptime", fact)
					verif.Assume(fact)
				}
			}
		}
	}
}

func vTS(s *seg.PathSegment) uint32 { return uint32(s.Info.Timestamp.Unix()) }

func vHopOf(h seg.HopField) vHop {
	return vHop{exp: h.ExpTime, in: h.ConsIngress, eg: h.ConsEgress, mac: h.MAC}
}

// vBeta is beta_k of the segment: SegID xor the first two MAC bytes of hop entries 0..k-1.
func vBeta(s *seg.PathSegment, k int) uint16 {
	b := s.Info.SegmentID
	for t := 0; t < k; t++ {
		m := s.ASEntries[t].HopEntry.HopField.MAC
		b ^= uint16(m[0])<<8 | uint16(m[1])
	}
	return b
}

// vAgainst is a segment used against construction direction (up or core): from its last entry back
// to entry i; pk >= 0 selects the peer entry of entry i the path leaves over.
func vAgainst(s *seg.PathSegment, i, pk int) vPart {
	n := len(s.ASEntries)
	ts := vTS(s)
	p := vPart{ts: ts, consDir: false, peer: pk >= 0, cut: i}
	// SegID: the first hop processed is entry n-1, which is verified with beta_{n-1}; if that hop
	// is itself the peering hop, with beta_n (scion-header.rst, "Peering Links").
	k := n - 1
	if pk >= 0 && i == n-1 {
		k = n
	}
	p.segID = vBeta(s, k)
	for idx := n - 1; idx >= i; idx-- {
		e := s.ASEntries[idx]
		hf := e.HopEntry.HopField
		usePeer := idx == i && pk >= 0
		if usePeer {
			hf = e.PeerEntries[pk].HopField
		}
		p.hops = append(p.hops, vHopOf(hf))
		// against construction direction the AS is entered over ConsEgress and left over ConsIngress
		if idx != n-1 {
			p.intfs = append(p.intfs, snet.PathInterface{IA: e.Local, ID: iface.ID(hf.ConsEgress)})
		}
		leaves := idx > i || usePeer // at the join AS the segment is left without crossing its ingress link
		if leaves && (idx != 0 || usePeer) {
			p.intfs = append(p.intfs, snet.PathInterface{IA: e.Local, ID: iface.ID(hf.ConsIngress)})
			p.links++
		}
		p.mtus = append(p.mtus, uint16(e.MTU))
		if usePeer {
			p.mtus = append(p.mtus, uint16(e.PeerEntries[pk].PeerMTU))
		} else if leaves && idx != 0 {
			p.mtus = append(p.mtus, uint16(e.HopEntry.IngressMTU))
		}
		p.exps = append(p.exps, vHopExpiry(ts, hf.ExpTime))
	}
	if pk >= 0 {
		p.links-- // the peering link is counted once, on the down side
	}
	return p
}

// vAlong is a down segment used in construction direction from entry j to its last entry; qk >= 0
// selects the peer entry of entry j the path enters over.
func vAlong(s *seg.PathSegment, j, qk int) vPart {
	m := len(s.ASEntries)
	ts := vTS(s)
	p := vPart{ts: ts, consDir: true, peer: qk >= 0, cut: j}
	k := j
	if qk >= 0 {
		k = j + 1
	}
	p.segID = vBeta(s, k)
	for idx := j; idx < m; idx++ {
		e := s.ASEntries[idx]
		hf := e.HopEntry.HopField
		usePeer := idx == j && qk >= 0
		if usePeer {
			hf = e.PeerEntries[qk].HopField
		}
		p.hops = append(p.hops, vHopOf(hf))
		enters := idx > j || usePeer
		if enters && (idx != 0 || usePeer) {
			p.intfs = append(p.intfs, snet.PathInterface{IA: e.Local, ID: iface.ID(hf.ConsIngress)})
			p.links++
		}
		if idx != m-1 {
			p.intfs = append(p.intfs, snet.PathInterface{IA: e.Local, ID: iface.ID(hf.ConsEgress)})
		}
		p.mtus = append(p.mtus, uint16(e.MTU))
		if usePeer {
			p.mtus = append(p.mtus, uint16(e.PeerEntries[qk].PeerMTU))
		} else if enters && idx != 0 {
			p.mtus = append(p.mtus, uint16(e.HopEntry.IngressMTU))
		}
		p.exps = append(p.exps, vHopExpiry(ts, hf.ExpTime))
	}
	return p
}

func vLast(s *seg.PathSegment) addr.IA  { return s.ASEntries[len(s.ASEntries)-1].Local }
func vFirst(s *seg.PathSegment) addr.IA { return s.ASEntries[0].Local }

// vEnumerate lists every way of joining at most one up, one core and one down segment, in that
// order, into a path from src to dst (C29 statement): joins at a common AS; shortcuts where the
// common AS lies inside the up and the down segment; peering links announced by both segments.
func vEnumerate(src, dst addr.IA, ups, cores, downs []*seg.PathSegment) []vRef {
	var refs []vRef
	add := func(valid bool, parts ...vPart) { refs = append(refs, vRef{valid: valid, parts: parts}) }
	// single segments
	for _, u := range ups {
		if vLast(u) != src {
			continue
		}
		for i := 0; i < len(u.ASEntries)-1; i++ {
			if u.ASEntries[i].Local == dst {
				add(true, vAgainst(u, i, -1))
			}
		}
	}
	for _, c := range cores {
		if vLast(c) == src && vFirst(c) == dst {
			add(true, vAgainst(c, 0, -1))
		}
	}
	for _, d := range downs {
		if vLast(d) != dst {
			continue
		}
		for j := 0; j < len(d.ASEntries)-1; j++ {
			if d.ASEntries[j].Local == src {
				add(true, vAlong(d, j, -1))
			}
		}
	}
	// up + core, core + down, up + core + down: whole segments joined at their first (core) AS
	for _, u := range ups {
		if vLast(u) != src {
			continue
		}
		for _, c := range cores {
			if vLast(c) != vFirst(u) {
				continue
			}
			if vFirst(c) == dst {
				add(true, vAgainst(u, 0, -1), vAgainst(c, 0, -1))
			}
			for _, d := range downs {
				if vLast(d) == dst && vFirst(d) == vFirst(c) {
					add(true, vAgainst(u, 0, -1), vAgainst(c, 0, -1), vAlong(d, 0, -1))
				}
			}
		}
	}
	for _, c := range cores {
		if vLast(c) != src {
			continue
		}
		for _, d := range downs {
			if vLast(d) == dst && vFirst(d) == vFirst(c) {
				add(true, vAgainst(c, 0, -1), vAlong(d, 0, -1))
			}
		}
	}
	// up + down: common AS (at the core or as a shortcut), peering links
	for _, u := range ups {
		if vLast(u) != src {
			continue
		}
		for _, d := range downs {
			if vLast(d) != dst {
				continue
			}
			n, m := len(u.ASEntries), len(d.ASEntries)
			for i := 0; i < n-1; i++ {
				for j := 0; j < m-1; j++ {
					if u.ASEntries[i].Local == d.ASEntries[j].Local {
						add(true, vAgainst(u, i, -1), vAlong(d, j, -1))
					}
				}
			}
			for i := 0; i < n; i++ {
				for j := 0; j < m; j++ {
					ue, de := u.ASEntries[i], d.ASEntries[j]
					for pk, p := range ue.PeerEntries {
						for qk, q := range de.PeerEntries {
							if p.Peer != de.Local || q.Peer != ue.Local {
								continue
							}
							both := vB2U(p.PeerInterface == q.HopField.ConsIngress) &
								vB2U(q.PeerInterface == p.HopField.ConsIngress)
							add(both == 1, vAgainst(u, i, pk), vAlong(d, j, qk))
						}
					}
				}
			}
		}
	}
	return refs
}

// ---- reference view of a combination ------------------------------------------------------------

func vB2U(b bool) uint8 {
	var r uint8
	if b {
		r = 1
	}
	return r
}

func (r *vRef) interfaces() []snet.PathInterface {
	var out []snet.PathInterface
	for _, p := range r.parts {
		out = append(out, p.intfs...)
	}
	return out
}

func (r *vRef) numHops() int {
	k := 0
	for _, p := range r.parts {
		k += len(p.hops)
	}
	return k
}

func (r *vRef) links() int {
	k := 0
	for _, p := range r.parts {
		k += p.links
	}
	return k
}

// expiries lists the absolute expiry of every hop field of the combination.
func (r *vRef) expiries() []time.Time {
	var out []time.Time
	for _, p := range r.parts {
		out = append(out, p.exps...)
	}
	return out
}

// mtus lists the MTUs the property names: the internal MTU of every AS on the traversed part and the
// MTU of every inter-AS link traversed.
func (r *vRef) mtus() []uint16 {
	var out []uint16
	for _, p := range r.parts {
		out = append(out, p.mtus...)
	}
	return out
}

// raw renders the combination as a SCION path (scion-header.rst): PathMeta with CurrINF = CurrHF = 0,
// info fields, hop fields.
func (r *vRef) raw() []byte {
	out := make([]byte, 4+8*len(r.parts)+12*r.numHops())
	var meta uint32
	for i, p := range r.parts {
		meta |= uint32(len(p.hops)) << uint(12-6*i)
	}
	binary.BigEndian.PutUint32(out[0:4], meta)
	off := 4
	for _, p := range r.parts {
		var fl uint8
		if p.consDir {
			fl |= 1
		}
		if p.peer {
			fl |= 2
		}
		out[off] = fl
		out[off+1] = 0
		binary.BigEndian.PutUint16(out[off+2:], p.segID)
		binary.BigEndian.PutUint32(out[off+4:], p.ts)
		off += 8
	}
	for _, p := range r.parts {
		for _, h := range p.hops {
			out[off] = 0
			out[off+1] = h.exp
			binary.BigEndian.PutUint16(out[off+2:], h.in)
			binary.BigEndian.PutUint16(out[off+4:], h.eg)
			copy(out[off+6:off+12], h.mac[:])
			off += 12
		}
	}
	return out
}

// vVisitsMoreThanTwice: some AS occurs in more than two interface entries of the sequence.
func vVisitsMoreThanTwice(intfs []snet.PathInterface) bool {
	for i := range intfs {
		c := 0
		for j := range intfs {
			if intfs[j].IA == intfs[i].IA {
				c++
			}
		}
		if c > 2 {
			return true
		}
	}
	return false
}

// vSameIntfs compares two interface sequences; 1 = equal. IAs are concrete, ids symbolic.
func vSameIntfs(a, b []snet.PathInterface) uint8 {
	if len(a) != len(b) {
		return 0
	}
	var diff uint64
	for i := range a {
		if a[i].IA != b[i].IA {
			return 0
		}
		diff |= uint64(a[i].ID) ^ uint64(b[i].ID)
	}
	return vB2U(diff == 0)
}

func vSameBytes(a, b []byte) uint8 {
	if len(a) != len(b) {
		return 0
	}
	return vB2U(bytes.Equal(a, b))
}
