//go:build verif || !verif

package epic

// Harness-level stand-in for initEpicMac (AES-CBC with a zero IV under the hop's 16-byte full MAC),
// routed here by the spec's source_rewrite of pkg/experimental/epic/epic.go
// ("initEpicMac(auth)" -> "verifInitEpicMac(auth)"). The rest of CalcMac / VerifyHVF /
// prepareMacInput is the tree's real code.
//
// Contract: the last 16-byte block written by CryptBlocks is the uninterpreted function
// epic(key, whole input) -> 16 bytes (functional; the solver picks its values; collision-freeness
// only where a clause asks for it through verif.AssumeInjective). Earlier blocks are left as they
// are (CalcMac only reads the first four bytes of the last block). The key is copied when the stub
// is created, exactly as aes.NewCipher expands it at that moment (CalcMac's caller passes a key
// that aliases the buffer the input is then written into).

import (
	"crypto/cipher"

	"github.com/scionproto/scion/pkg/private/serrors"
	"github.com/scionproto/scion/zz_verif/verif"
)

type vCBC struct{ key []byte }

var _ cipher.BlockMode = (*vCBC)(nil)

func verifInitEpicMac(key []byte) (cipher.BlockMode, error) {
	// aes.NewCipher accepts 16, 24 and 32 byte keys
	if len(key) != 16 && len(key) != 24 && len(key) != 32 {
		return nil, serrors.New("Unable to initialize AES cipher")
	}
	k := make([]byte, len(key))
	copy(k, key)
	return &vCBC{key: k}, nil
}

func (c *vCBC) BlockSize() int { return 16 }

func (c *vCBC) CryptBlocks(dst, src []byte) {
	if len(src)%16 != 0 {
		panic("crypto/cipher: input not full blocks")
	}
	if len(dst) < len(src) {
		panic("crypto/cipher: output smaller than input")
	}
	if len(src) == 0 {
		return
	}
	in := make([]byte, len(src))
	copy(in, src)
	out := verif.UF("epic", 16, c.key, in)
	copy(dst[len(src)-16:len(src)], out)
}
