package pathpol

import (
	"net"
	"strconv"

	"github.com/scionproto/scion/pkg/addr"
	"github.com/scionproto/scion/pkg/segment/iface"
	"github.com/scionproto/scion/pkg/snet"
	"github.com/scionproto/scion/zz_verif/verif"
)

// C47 (claimed part): hop predicates, ACL and Policy.Filter. The Sequence language (ANTLR +
// regexp) is not applicable to this technique (DESIGN 7/C47).
//
// Reference semantics (property statement + doc/dev/design/PathPolicy.md):
//   - a hop predicate ISD-AS#IF[,IF] matches a path interface (IA, ID, direction) iff
//     ISD is 0 or equal, AS is 0 or equal, and the interface element is 0 or equal, where the
//     interface element is the single IF for either direction, or IN for an ingress interface and
//     OUT for an egress interface when two are given; all comparisons are numeric;
//   - ACL: for every interface of the path the first matching entry decides ("the first matched
//     entry wins ... if an interface is denied by the first entry but allowed by the second entry it
//     is still denied"); a path is accepted iff none of its interfaces is denied;
//   - ACL.Eval / Policy.Filter return exactly the accepted input paths, in input order.

// c47Path is a harness-level snet.Path: only the metadata (interface list) matters to the filters.
type c47Path struct {
	idx      int
	md       *snet.PathMetadata
	src, dst addr.IA
}

func (p *c47Path) UnderlayNextHop() *net.UDPAddr  { return nil }
func (p *c47Path) Dataplane() snet.DataplanePath  { return nil }
func (p *c47Path) Source() addr.IA                { return p.src }
func (p *c47Path) Destination() addr.IA           { return p.dst }
func (p *c47Path) Metadata() *snet.PathMetadata   { return p.md }

// c47Pred is the reference view of a hop predicate: plain numbers.
type c47Pred struct {
	isd      uint64
	as       uint64
	if0, if1 uint64
	two      bool // two interface elements (IN,OUT)
}

// c47NondetPred draws an arbitrary well-formed hop predicate (as HopPredicateFromString can
// produce them: AS wildcard implies interface wildcards; one or two interface elements).
func c47NondetPred(name string, two bool) (*HopPredicate, c47Pred) {
	r := c47Pred{
		isd: uint64(verif.NondetU16(name + ".isd")),
		as:  verif.NondetU64(name + ".as"),
		if0: verif.NondetU64(name + ".if0"),
		two: two,
	}
	verif.Assume(r.as <= uint64(addr.MaxAS))
	ifs := []iface.ID{iface.ID(r.if0)}
	if two {
		r.if1 = verif.NondetU64(name + ".if1")
		ifs = append(ifs, iface.ID(r.if1))
	}
	wellFormed := r.as != 0
	if r.if0|r.if1 == 0 {
		wellFormed = true
	}
	verif.Assume(wellFormed)
	return &HopPredicate{ISD: addr.ISD(r.isd), AS: addr.AS(r.as), IfIDs: ifs}, r
}

// c47RefMatch: reference matching of one path interface; written without short-circuit
// operators so that it does not multiply paths.
func c47RefMatch(r c47Pred, ia addr.IA, id uint64, ingress bool) bool {
	isd := uint64(ia) >> 48
	as := uint64(ia) & 0xffffffffffff
	mISD := r.isd == 0
	if isd == r.isd {
		mISD = true
	}
	mAS := r.as == 0
	if as == r.as {
		mAS = true
	}
	el := r.if0
	if r.two {
		if !ingress {
			el = r.if1
		}
	}
	mIF := el == 0
	if el == id {
		mIF = true
	}
	m := mISD
	if !mAS {
		m = false
	}
	if !mIF {
		m = false
	}
	return m
}

// VerifC47Pred: HopPredicate.pathIFMatch against the reference, all fields symbolic.
func VerifC47Pred() {
	two := verif.Param("two") == 1
	hp, r := c47NondetPred("hp", two)
	pi := snet.PathInterface{ID: iface.ID(verif.NondetU64("id")), IA: addr.IA(verif.NondetU64("ia"))}
	ingress := verif.NondetBool("ingress")
	got := hp.pathIFMatch(pi, ingress)
	want := c47RefMatch(r, pi.IA, uint64(pi.ID), ingress)
	verif.Observe("match", got)
	verif.Assert("hop-predicate-match", got == want)
	if got {
		verif.Cover("pred-match")
	} else {
		verif.Cover("pred-nomatch")
	}
}

// VerifC47PredText: a hop predicate given as text (ISD | ISD-AS | ISD-AS#IF | ISD-AS#IN,OUT,
// parameter form 0..3) is parsed by HopPredicateFromString into the numbers it denotes, and matches
// by numeric comparison of those numbers. Bound: ISD and interface numbers < 256 (1..3 digits),
// AS in the decimal class (bgp=1) or the hex class (bgp=0).
func VerifC47PredText() {
	form := verif.Param("form")
	r := c47Pred{isd: uint64(verif.NondetU8("isd"))}
	s := strconv.FormatUint(r.isd, 10)
	if form >= 1 {
		var as addr.AS
		if verif.Param("bgp") == 1 {
			as = addr.AS(verif.NondetU32("as"))
		} else {
			as = addr.AS(verif.NondetU64("as"))
			verif.Assume(as > addr.MaxBGPAS)
			verif.Assume(as <= addr.MaxAS)
		}
		r.as = uint64(as)
		s += "-" + as.String()
	}
	if form >= 2 {
		r.if0 = uint64(verif.NondetU8("if0"))
		s += "#" + strconv.FormatUint(r.if0, 10)
	}
	if form >= 3 {
		r.if1 = uint64(verif.NondetU8("if1"))
		r.two = true
		s += "," + strconv.FormatUint(r.if1, 10)
	}
	// "IfID cannot be set when the AS is a wildcard" (documented restriction of the text form)
	wellFormed := r.as != 0
	if r.if0|r.if1 == 0 {
		wellFormed = true
	}
	verif.Assume(wellFormed)
	hp, err := HopPredicateFromString(s)
	verif.Observe("parse", s, err == nil)
	verif.Assert("predicate-text-accepted", err == nil)
	nIf := 1
	if r.two {
		nIf = 2
	}
	verif.Assert("predicate-text-denotes-numbers", uint64(hp.ISD) == r.isd && uint64(hp.AS) == r.as &&
		len(hp.IfIDs) == nIf && uint64(hp.IfIDs[0]) == r.if0 && (!r.two || uint64(hp.IfIDs[1]) == r.if1))
	pi := snet.PathInterface{ID: iface.ID(verif.NondetU64("id")), IA: addr.IA(verif.NondetU64("ia"))}
	ingress := verif.NondetBool("ingress")
	got := hp.pathIFMatch(pi, ingress)
	want := c47RefMatch(r, pi.IA, uint64(pi.ID), ingress)
	verif.Assert("predicate-text-match", got == want)
	verif.Cover("pred-text")
}

// c47Entry: one ACL entry in reference form.
type c47Entry struct {
	allow bool
	all   bool // no rule: matches everything
	pred  c47Pred
}

// c47NondetACL builds an ACL with n symbolic entries followed by a default entry, through the real
// constructor (so only ACLs that validateACL accepts are considered).
func c47NondetACL(n int) (*ACL, []c47Entry) {
	var entries []*ACLEntry
	var ref []c47Entry
	for i := 0; i < n; i++ {
		two := verif.Param("two") == 1 && i%2 == 0
		hp, r := c47NondetPred("e"+strconv.Itoa(i), two)
		// not a catch-all: validateACL rejects entries after a default
		verif.Assume(r.isd|r.as != 0)
		allow := verif.NondetBool("e" + strconv.Itoa(i) + ".allow")
		entries = append(entries, &ACLEntry{Action: ACLAction(allow), Rule: hp})
		ref = append(ref, c47Entry{allow: allow, pred: r})
	}
	defAllow := verif.NondetBool("default.allow")
	if verif.Param("defrule") == 1 {
		// explicit catch-all predicate "0-0#0"
		entries = append(entries, &ACLEntry{Action: ACLAction(defAllow), Rule: &HopPredicate{IfIDs: make([]iface.ID, 1)}})
	} else {
		entries = append(entries, &ACLEntry{Action: ACLAction(defAllow)})
	}
	ref = append(ref, c47Entry{allow: defAllow, all: true})
	acl, err := NewACL(entries...)
	verif.Assume(err == nil)
	return acl, ref
}

// c47NondetPaths builds paths with the interface counts given by parameters p0,p1,p2 (0 = absent
// for p1,p2; counts are the enumerated bound), all interface contents symbolic.
func c47NondetPaths() []snet.Path {
	var paths []snet.Path
	for k, pn := range []string{"p0", "p1", "p2"} {
		cnt := verif.Param(pn)
		if cnt < 0 {
			continue
		}
		ifs := make([]snet.PathInterface, cnt)
		for i := range ifs {
			ifs[i] = snet.PathInterface{
				ID: iface.ID(verif.NondetU64(pn + ".id" + strconv.Itoa(i))),
				IA: addr.IA(verif.NondetU64(pn + ".ia" + strconv.Itoa(i))),
			}
		}
		var src, dst addr.IA
		if cnt > 0 {
			src, dst = ifs[0].IA, ifs[cnt-1].IA
		}
		paths = append(paths, &c47Path{idx: k, md: &snet.PathMetadata{Interfaces: ifs}, src: src, dst: dst})
	}
	return paths
}

// c47RefAccept: reference ACL decision for one path (interfaces at odd positions are ingress
// interfaces: the list is egress of AS 1, ingress of AS 2, egress of AS 2, ...).
func c47RefAccept(ref []c47Entry, ifs []snet.PathInterface) bool {
	acc := true
	for i, pi := range ifs {
		decided := false
		allow := false
		for _, e := range ref {
			m := e.all
			if !e.all {
				m = c47RefMatch(e.pred, pi.IA, uint64(pi.ID), i%2 == 1)
			}
			take := m
			if decided {
				take = false
			}
			if take {
				allow = e.allow
			}
			if take {
				decided = true
			}
		}
		if !allow {
			acc = false
		}
	}
	return acc
}

// c47CheckResult asserts that res is exactly the accepted paths, in input order.
func c47CheckResult(paths, res []snet.Path, want []bool) {
	in := make([]bool, len(paths))
	prev := -1
	for _, p := range res {
		cp, ok := p.(*c47Path)
		verif.Assert("result-holds-input-paths", ok && cp.idx >= 0 && cp.idx < len(paths) && paths[cp.idx] == p)
		verif.Assert("result-in-input-order", cp.idx > prev)
		prev = cp.idx
		in[cp.idx] = true
	}
	verif.Observe("result", len(res))
	for j := range paths {
		verif.Assert("result-is-exactly-the-accepted-paths", in[j] == want[j])
	}
	if len(res) > 0 && len(res) < len(paths) {
		verif.Cover("some-filtered")
	}
	if len(res) == len(paths) {
		verif.Cover("all-kept")
	}
	if len(res) == 0 {
		verif.Cover("none-kept")
	}
}

// VerifC47ACL: ACL.Eval.
func VerifC47ACL() {
	acl, ref := c47NondetACL(verif.Param("entries"))
	paths := c47NondetPaths()
	want := make([]bool, len(paths))
	for j, p := range paths {
		want[j] = c47RefAccept(ref, p.Metadata().Interfaces)
	}
	res := acl.Eval(paths)
	c47CheckResult(paths, res, want)
}

// VerifC47Policy: Policy.Filter of a policy with an ACL (no sequence, no options).
func VerifC47Policy() {
	acl, ref := c47NondetACL(verif.Param("entries"))
	paths := c47NondetPaths()
	want := make([]bool, len(paths))
	for j, p := range paths {
		want[j] = c47RefAccept(ref, p.Metadata().Interfaces)
	}
	pol := NewPolicy("p", acl, nil, nil)
	res := pol.Filter(paths)
	c47CheckResult(paths, res, want)
}

// VerifC47NoACL: no acl attribute (or a nil policy): everything is whitelisted.
func VerifC47NoACL() {
	paths := c47NondetPaths()
	want := make([]bool, len(paths))
	for j := range want {
		want[j] = true
	}
	var pol *Policy
	switch verif.Param("kind") {
	case 1:
		pol = &Policy{Name: "empty"}
	case 2:
		pol = &Policy{Name: "empty-acl", ACL: &ACL{}}
	}
	res := pol.Filter(paths)
	c47CheckResult(paths, res, want)
}

// ---- reachability twins (assertions that must be violated) -----------------------------------------

func VerifC47TwinPred() {
	hp, _ := c47NondetPred("hp", true)
	pi := snet.PathInterface{ID: iface.ID(verif.NondetU64("id")), IA: addr.IA(verif.NondetU64("ia"))}
	verif.Assert("twin-pred", !hp.pathIFMatch(pi, verif.NondetBool("ingress")))
}

func VerifC47TwinACL() {
	acl, _ := c47NondetACL(verif.Param("entries"))
	paths := c47NondetPaths()
	res := acl.Eval(paths)
	verif.Assert("twin-acl", len(res) == len(paths))
}
