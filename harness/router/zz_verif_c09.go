//go:build verif || !verif

package router

import (
	"github.com/gopacket/gopacket"

	"github.com/scionproto/scion/pkg/slayers"
	"github.com/scionproto/scion/zz_verif/verif"
)

// checksumOK: the checksum field of the emitted SCMP message equals the checksum that the real
// slayers code (whose arithmetic is the subject of C20) computes over the emitted bytes with the
// pseudo header taken from the emitted SCION header. What C09 decides here is that the router
// checksums the final message with the final addresses; a direct one's-complement re-summation of
// ~150 symbolic bytes against the real adder chain is beyond the solvers (unknown at 300 s).
func checksumOK(out []byte, l4Off int) bool {
	var sc slayers.SCION
	sc.RecyclePaths()
	if err := sc.DecodeFromBytes(out, gopacket.NilDecodeFeedback); err != nil {
		return false
	}
	var m slayers.SCMP
	if err := m.DecodeFromBytes(sc.Payload, gopacket.NilDecodeFeedback); err != nil {
		return false
	}
	m.SetNetworkLayerForChecksum(&sc)
	buf := gopacket.NewSerializeBuffer()
	pb, _ := buf.PrependBytes(len(m.Payload))
	copy(pb, m.Payload)
	if err := m.SerializeTo(buf, gopacket.SerializeOptions{ComputeChecksums: true}); err != nil {
		return false
	}
	got := buf.Bytes()
	return got[2] == out[l4Off+2] && got[3] == out[l4Off+3]
}

// c09Step: fast path, then the real slow path for every SCMP error request; checks the emitted
// SCMP error message.
func c09Step(twin bool) {
	u := vrStep()
	if u.disp != pSlowPath {
		return
	}
	req := u.pkt.slowPathRequest
	if req.spType < 0 {
		return // router alert (traceroute): not an error message
	}
	c := u.c
	rf := &u.rf
	pre := make([]byte, len(u.pkt.RawPacket))
	copy(pre, u.pkt.RawPacket)
	sp := newSlowPathProcessor(u.r.d)
	err := sp.processPacket(u.pkt)
	out := u.pkt.RawPacket
	verif.Observe("slow", err == nil, len(out), out)
	// offender's L4: SCMP error messages (type < 128) must never be answered
	offenderIsSCMPError := verif.Param("nh") == int(slayers.L4SCMP) && c.pld >= 4 && u.orig[c.hdrLen] < 128
	if err != nil {
		verif.Cover("no-reply")
		return
	}
	verif.Cover("scmp-emitted")
	if twin {
		verif.Assert("twin", req.code != slayers.SCMPCodeInvalidHopFieldMAC)
		return
	}
	verif.Assert("never-answer-an-scmp-error", !offenderIsSCMPError)
	// ---- layout of the reply
	dl, sl := c.sl, 0 // DstHost of the reply = offender's SrcHost; SrcHost = router address
	lh6 := vrParamOr("lh6", 0) == 1
	if lh6 {
		sl = 3
	}
	addrLen := 16 + 4*(dl+1) + 4*(sl+1)
	pathLen := c.hdrLen - c.pathOff
	if c.pathType == 3 {
		pathLen -= 16 // replies to EPIC packets use the embedded SCION path
	}
	hdrLen := 12 + addrLen + pathLen
	var infoLen int
	switch slayers.SCMPType(req.spType) {
	case slayers.SCMPTypeParameterProblem, slayers.SCMPTypeDestinationUnreachable:
		infoLen = 4
	case slayers.SCMPTypeExternalInterfaceDown:
		infoLen = 16
	case slayers.SCMPTypeInternalConnectivityDown:
		infoLen = 24
	}
	l4Off := hdrLen
	quoteOff := l4Off + 4 + infoLen
	wantQuote := len(u.orig)
	if wantQuote > slayers.MaxSCMPPacketLen-quoteOff {
		wantQuote = slayers.MaxSCMPPacketLen - quoteOff
	}
	verif.Assert("total-length-at-most-1232", len(out) <= 1232)
	verif.Assert("length-is-headers-plus-maximal-quote", len(out) == quoteOff+wantQuote)
	if len(out) != quoteOff+wantQuote {
		return
	}
	// ---- common header
	verif.Assert("version-0", out[0]>>4 == 0)
	verif.Assert("next-header-is-scmp", out[4] == byte(slayers.L4SCMP))
	verif.Assert("hdrlen-consistent", int(out[5])*4 == hdrLen)
	verif.Assert("payloadlen-consistent", int(be16(out, 6)) == len(out)-hdrLen)
	verif.Assert("path-type-scion", out[8] == 1)
	verif.Assert("address-types-swapped", (out[9]>>4)&0xf == u.orig[9]&0xf && int(out[9]&0xf) == sl)
	// ---- addressing
	verif.Assert("dst-ia-is-offender-source", be64(out, 12) == rf.srcIA)
	verif.Assert("src-ia-is-local", be64(out, 20) == uint64(u.r.d.localIA))
	srcHostOff := 12 + 16 + 4*(c.dl+1) // offender's SrcHost
	same := true
	for k := 0; k < 4*(c.sl+1); k++ {
		same = same && out[28+k] == u.orig[srcHostOff+k]
	}
	verif.Assert("dst-host-is-offender-source-host", same)
	o := 28 + 4*(c.sl+1)
	if lh6 {
		verif.Assert("src-host-is-router-address", out[o] == 0xfd && out[o+12] == 10 && out[o+13] == 1 && out[o+14] == 2 && out[o+15] == 3)
	} else {
		verif.Assert("src-host-is-router-address", out[o] == 10 && out[o+1] == 1 && out[o+2] == 2 && out[o+3] == 3)
	}
	// ---- SCMP header
	verif.Assert("scmp-type", out[l4Off] == byte(req.spType))
	verif.Assert("scmp-code", out[l4Off+1] == byte(req.code))
	switch slayers.SCMPType(req.spType) {
	case slayers.SCMPTypeParameterProblem:
		verif.Cover("parameter-problem")
		verif.Assert("pointer", be16(out, l4Off+6) == req.pointer)
	case slayers.SCMPTypeExternalInterfaceDown:
		verif.Cover("external-interface-down")
		verif.Assert("ifdown-ia-local", be64(out, l4Off+4) == uint64(u.r.d.localIA))
		verif.Assert("ifdown-interface-is-egress", be64(out, l4Off+12) == uint64(u.pkt.egress))
	case slayers.SCMPTypeInternalConnectivityDown:
		verif.Cover("internal-connectivity-down")
		verif.Assert("connectivity-ia-local", be64(out, l4Off+4) == uint64(u.r.d.localIA))
		verif.Assert("connectivity-ingress", be64(out, l4Off+12) == uint64(u.r.links[u.ing].ifID))
		verif.Assert("connectivity-egress", be64(out, l4Off+20) == uint64(u.pkt.egress))
	case slayers.SCMPTypeDestinationUnreachable:
		verif.Cover("destination-unreachable")
	}
	// ---- quote: prefix of the offending packet (bytes the fast path may have updated in place —
	// pointer byte, SegIDs, hop flag bytes — are compared against the packet as handed to the slow path)
	q := true
	for k := 0; k < wantQuote; k++ {
		q = q && out[quoteOff+k] == pre[k]
	}
	verif.Assert("quote-is-prefix-of-offender", q)
	im := true
	for k := 0; k < wantQuote; k++ {
		mutable := k == c.metaOff
		for i := 0; i < c.nInf; i++ {
			mutable = mutable || k == c.infoOff+8*i+2 || k == c.infoOff+8*i+3
		}
		for h := 0; h < c.nHop; h++ {
			mutable = mutable || k == c.hopOff+12*h
		}
		if c.pathType == 2 || !mutable {
			im = im && out[quoteOff+k] == u.orig[k]
		}
	}
	verif.Assert("quote-matches-received-bytes", im)
	verif.Assert("checksum-valid", checksumOK(out, l4Off))
}

func VerifC09() { c09Step(false) }

// VerifC09Twin: an invalid-MAC SCMP is emitted.
func VerifC09Twin() { c09Step(true) }
