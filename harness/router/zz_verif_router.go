//go:build verif || !verif

package router

// Shared router-step harness (DESIGN.md 6.1): builds a data plane directly (no sockets, no
// goroutines), a symbolic packet of a concrete layout class, and runs the real fast path (and the
// real slow path when requested). Everything here is harness scaffolding; the code under test is
// scionPacketProcessor.processPkt / slowPathPacketProcessor.processPacket and what they call.

import (
	"hash"
	"net/netip"

	"github.com/scionproto/scion/pkg/addr"
	"github.com/scionproto/scion/private/topology"
	"github.com/scionproto/scion/router/bfd"
	"github.com/scionproto/scion/zz_verif/verif"
)

// ---- links ------------------------------------------------------------------------------------

type vLink struct {
	ifID  uint16
	scope LinkScope
	up    bool
	// svcMissing: resolving a service address finds no registered instance
	svcMissing bool
	// recorded
	resolved int
	resHost  addr.Host
	resPort  uint16
	sent     int
}

func (l *vLink) IsUp() bool                 { return l.up }
func (l *vLink) IfID() uint16               { return l.ifID }
func (l *vLink) Metrics() *InterfaceMetrics { return nil }
func (l *vLink) Scope() LinkScope           { return l.scope }
func (l *vLink) BFDSession() *bfd.Session   { return nil }
func (l *vLink) Resolve(p *Packet, dst addr.Host, port uint16) error {
	if l.svcMissing && dst.Type() == addr.HostTypeSVC {
		return ErrNoSVCBackend
	}
	l.resolved++
	l.resHost = dst
	l.resPort = port
	return nil
}
func (l *vLink) Send(p *Packet) bool    { l.sent++; return true }
func (l *vLink) SendBlocking(p *Packet) { l.sent++ }

// ---- idealised hop-field MAC ------------------------------------------------------------------

// vMAC stands for AES-CMAC under the AS forwarding key: an uninterpreted function of the input.
type vMAC struct{ buf []byte }

func (m *vMAC) Write(b []byte) (int, error) { m.buf = append(m.buf, b...); return len(b), nil }
func (m *vMAC) Sum(b []byte) []byte         { return append(b, verif.UF("hfmac", 16, m.buf)...) }
func (m *vMAC) Reset()                      { m.buf = m.buf[:0] }
func (m *vMAC) Size() int                   { return 16 }
func (m *vMAC) BlockSize() int              { return 16 }

var _ hash.Hash = (*vMAC)(nil)

// ---- topology ---------------------------------------------------------------------------------

// Interface table of the harness router (concrete identifiers, everything else symbolic):
//
//	1, 2     external links of this router
//	3, 258   owned by sibling router A (one shared sibling link)
//	65535    owned by sibling router B
//	0        internal link
const (
	vrIf1   = 1
	vrIf2   = 2
	vrIfSA1 = 3
	vrIfSA2 = 258
	vrIfSB  = 65535
)

type vRouter struct {
	d        *dataPlane
	internal *vLink
	ext1     *vLink
	ext2     *vLink
	sibA     *vLink
	sibB     *vLink
	links    [5]*vLink // internal, ext1, ext2, sibA, sibB
}

func vrLinkType(name string) topology.LinkType {
	t := verif.NondetU8(name)
	verif.Assume(t <= 4)
	return topology.LinkType(t)
}

// vrSetup builds the data plane. Link types, neighbour ISD-ASes, up/down state and the local
// ISD-AS are symbolic.
func vrSetup() *vRouter {
	r := &vRouter{}
	r.internal = &vLink{ifID: 0, scope: Internal, up: true, svcMissing: verif.NondetBool("svc.missing")}
	r.ext1 = &vLink{ifID: vrIf1, scope: External, up: verif.NondetBool("up.1")}
	r.ext2 = &vLink{ifID: vrIf2, scope: External, up: verif.NondetBool("up.2")}
	r.sibA = &vLink{ifID: 0, scope: Sibling, up: verif.NondetBool("up.sibA")}
	r.sibB = &vLink{ifID: 0, scope: Sibling, up: verif.NondetBool("up.sibB")}
	r.links = [5]*vLink{r.internal, r.ext1, r.ext2, r.sibA, r.sibB}
	d := &dataPlane{}
	d.localIA = addr.IA(verif.NondetU64("localIA"))
	verif.Assume(d.localIA != 0)
	d.macFactory = func() hash.Hash { return &vMAC{} }
	d.interfaces[0] = r.internal
	d.interfaces[vrIf1] = r.ext1
	d.interfaces[vrIf2] = r.ext2
	d.interfaces[vrIfSA1] = r.sibA
	d.interfaces[vrIfSA2] = r.sibA
	d.interfaces[vrIfSB] = r.sibB
	d.linkTypes[vrIf1] = vrLinkType("lt.1")
	d.linkTypes[vrIf2] = vrLinkType("lt.2")
	d.linkTypes[vrIfSA1] = vrLinkType("lt.3")
	d.linkTypes[vrIfSA2] = vrLinkType("lt.258")
	d.linkTypes[vrIfSB] = vrLinkType("lt.65535")
	d.neighborIAs[vrIf1] = addr.IA(verif.NondetU64("nb.1"))
	d.neighborIAs[vrIf2] = addr.IA(verif.NondetU64("nb.2"))
	d.neighborIAs[vrIfSA1] = addr.IA(verif.NondetU64("nb.3"))
	d.neighborIAs[vrIfSA2] = addr.IA(verif.NondetU64("nb.258"))
	d.neighborIAs[vrIfSB] = addr.IA(verif.NondetU64("nb.65535"))
	d.localHost = addr.HostIP(netip.AddrFrom4([4]byte{10, 1, 2, 3}))
	if vrParamOr("lh6", 0) == 1 {
		d.localHost = addr.HostIP(netip.AddrFrom16([16]byte{0xfd, 0, 0, 0, 0, 0, 0, 0, 0, 0, 0, 0, 10, 1, 2, 3}))
	}
	d.numInterfaces = 6
	d.ExperimentalSCMPAuthentication = false
	r.d = d
	return r
}

// ---- packet layout classes --------------------------------------------------------------------

// vrClass is a concrete packet layout: the fields that steer parsing are fixed, every other bit
// of the packet is symbolic.
type vrClass struct {
	pathType   int // 1 SCION, 2 one-hop, 3 EPIC
	dl, sl     int // DstHost/SrcHost length codes (0: 4 bytes … 3: 16 bytes)
	seg        [3]int
	pld        int // number of bytes after the SCION header (extensions + L4)
	addrLen    int
	pathOff    int // offset of the path meta header (SCION) / of the path (other types)
	metaOff    int
	infoOff    int
	hopOff     int
	nInf, nHop int
	hdrLen     int
	total      int
}

func vrClassFromParams() vrClass {
	c := vrClass{pathType: verif.Param("ptype"), dl: verif.Param("dl"), sl: verif.Param("sl"), pld: verif.Param("pld")}
	c.seg = [3]int{verif.Param("s0"), verif.Param("s1"), verif.Param("s2")}
	c.addrLen = 16 + 4*(c.dl+1) + 4*(c.sl+1)
	c.pathOff = 12 + c.addrLen
	for _, s := range c.seg {
		if s > 0 {
			c.nInf++
		}
		c.nHop += s
	}
	switch c.pathType {
	case 1:
		c.metaOff = c.pathOff
	case 3:
		c.metaOff = c.pathOff + 16 // PktID (8) + PHVF (4) + LHVF (4)
	case 2:
		// one-hop: info field + two hop fields, no meta header
		c.nInf, c.nHop = 1, 2
		c.seg = [3]int{2, 0, 0}
		c.infoOff = c.pathOff
		c.hopOff = c.pathOff + 8
		c.hdrLen = c.hopOff + 24
		c.total = c.hdrLen + c.pld
		return c
	}
	c.infoOff = c.metaOff + 4
	c.hopOff = c.infoOff + 8*c.nInf
	c.hdrLen = c.hopOff + 12*c.nHop
	c.total = c.hdrLen + c.pld
	return c
}

// vrParamOr: optional instance parameter (absent = def). Parameters are concrete bounds.
func vrParamOr(name string, def int) int {
	if !verif.HasParam(name) {
		return def
	}
	return verif.Param(name)
}

// vrPacket creates the symbolic packet of class c and states the class assumptions. With the
// parameter "big" = n the packet carries n further payload bytes that are concrete zeros (the
// checked decisions do not depend on payload content; only lengths matter).
func vrPacket(r *vRouter, c vrClass) (*Packet, []byte) {
	raw := verif.NondetBytes("pkt", c.total)
	if big := vrParamOr("big", 0); big > 0 {
		raw = append(raw, make([]byte, big)...)
	}
	// the steering fields of the class are constants (the corresponding nondet bits are unused)
	raw[5] = byte(c.hdrLen / 4)
	raw[8] = byte(c.pathType)
	raw[9] = raw[9]&0xCC | byte(c.dl<<4|c.sl)
	if nh := verif.Param("nh"); nh >= 0 {
		raw[4] = byte(nh)
	}
	if vrParamOr("ext", 0) == 1 {
		// one extension header of 8 bytes (ExtLen = 1) followed by UDP; its kind is the class's nh
		raw[c.hdrLen] = 17
		raw[c.hdrLen+1] = 1
	}
	if c.pathType != 2 {
		m := c.metaOff
		raw[m+1] = raw[m+1]&0xFC | byte(c.seg[0]>>4)
		raw[m+2] = byte(c.seg[0]&15)<<4 | byte(c.seg[1]>>2)
		raw[m+3] = byte(c.seg[1]&3)<<6 | byte(c.seg[2])
	}
	if verif.Param("rsv0") == 1 {
		// reserved bits as a conforming sender sets them (zero)
		raw[10], raw[11] = 0, 0
		if c.pathType != 2 {
			raw[c.metaOff+1] &= 0x03
		}
		for i := 0; i < c.nInf; i++ {
			raw[c.infoOff+8*i] &= 0x03
			raw[c.infoOff+8*i+1] = 0
		}
		for h := 0; h < c.nHop; h++ {
			raw[c.hopOff+12*h] &= 0x03
		}
	}
	buf := new([bufSize]byte)
	headroom := verif.Param("headroom")
	copy(buf[headroom:], raw)
	pkt := &Packet{buffer: buf}
	pkt.RawPacket = buf[headroom : headroom+len(raw)]
	orig := make([]byte, len(raw))
	copy(orig, raw)
	return pkt, orig
}

// vrIngress picks the ingress link: parameter "ingress" 0..4 = internal, ext1, ext2, sibA, sibB;
// -1 = all of them (forked).
func vrIngress(r *vRouter) int {
	k := verif.Param("ingress")
	if k < 0 {
		k = verif.Choose("ingress", 5)
	}
	return k
}

// ---- reference parser (from doc/protocols/scion-header.rst, fixed offsets of the class) ---------

type vrRef struct {
	c       vrClass
	b       []byte
	currINF int
	currHF  uint32
	dstIA   uint64
	srcIA   uint64
}

func be16(b []byte, o int) uint16 { return uint16(b[o])<<8 | uint16(b[o+1]) }
func be32(b []byte, o int) uint32 {
	return uint32(b[o])<<24 | uint32(b[o+1])<<16 | uint32(b[o+2])<<8 | uint32(b[o+3])
}
func be64(b []byte, o int) uint64 { return uint64(be32(b, o))<<32 | uint64(be32(b, o+4)) }

func vrParse(c vrClass, b []byte) vrRef {
	rf := vrRef{c: c, b: b}
	rf.dstIA = be64(b, 12)
	rf.srcIA = be64(b, 20)
	if c.pathType != 2 {
		rf.currHF = uint32(b[c.metaOff]) & 63
	}
	return rf
}

// segment index of hop h
func (rf *vrRef) infOf(h int) int {
	if h < rf.c.seg[0] {
		return 0
	}
	if h < rf.c.seg[0]+rf.c.seg[1] {
		return 1
	}
	return 2
}

func (rf *vrRef) infoFlags(i int) byte  { return rf.b[rf.c.infoOff+8*i] }
func (rf *vrRef) consDir(i int) bool    { return rf.infoFlags(i)&1 != 0 }
func (rf *vrRef) peer(i int) bool       { return rf.infoFlags(i)&2 != 0 }
func (rf *vrRef) segID(i int) uint16    { return be16(rf.b, rf.c.infoOff+8*i+2) }
func (rf *vrRef) timestamp(i int) uint32 { return be32(rf.b, rf.c.infoOff+8*i+4) }
func (rf *vrRef) hopFlags(h int) byte   { return rf.b[rf.c.hopOff+12*h] }
func (rf *vrRef) expTime(h int) uint8   { return rf.b[rf.c.hopOff+12*h+1] }
func (rf *vrRef) consIngress(h int) uint16 { return be16(rf.b, rf.c.hopOff+12*h+2) }
func (rf *vrRef) consEgress(h int) uint16  { return be16(rf.b, rf.c.hopOff+12*h+4) }
func (rf *vrRef) mac(h int) []byte      { return rf.b[rf.c.hopOff+12*h+6 : rf.c.hopOff+12*h+12] }
func (rf *vrRef) sigma(h int) uint16    { return be16(rf.b, rf.c.hopOff+12*h+6) }

// refMACInput is the 16-byte MAC input block of scion-header.rst for hop h with accumulator beta.
func (rf *vrRef) macInput(h int, beta uint16) []byte {
	i := rf.infOf(h)
	ts := rf.timestamp(i)
	in := make([]byte, 16)
	in[2], in[3] = byte(beta>>8), byte(beta)
	in[4], in[5], in[6], in[7] = byte(ts>>24), byte(ts>>16), byte(ts>>8), byte(ts)
	in[9] = rf.expTime(h)
	ci, ce := rf.consIngress(h), rf.consEgress(h)
	in[10], in[11] = byte(ci>>8), byte(ci)
	in[12], in[13] = byte(ce>>8), byte(ce)
	return in
}

// macValid: the hop field's 6 MAC bytes equal the truncated ideal MAC of the reference input.
func (rf *vrRef) macValid(h int, beta uint16) bool {
	full := verif.UF("hfmac", 16, rf.macInput(h, beta))
	m := rf.mac(h)
	var diff byte
	for k := 0; k < 6; k++ {
		diff |= m[k] ^ full[k]
	}
	return diff == 0
}

// notExpired: Timestamp + (1+ExpTime)*(86400/256) s >= now. 337.5 s per unit = 337 s + half a
// second for every second unit; the two ExpTime-dependent summands are lookup tables for the solver.
func (rf *vrRef) notExpired(h int, nowSec, nowNsec uint64) bool {
	i := rf.infOf(h)
	e1 := uint64(rf.expTime(h)) + 1
	addSec := verif.Tabulate(e1*337 + e1/2)
	expNsec := verif.Tabulate((e1 % 2) * 500000000)
	expSec := uint64(rf.timestamp(i)) + addSec
	// expired iff expiry instant < now (two-operand boolean steps keep the harness branch-free)
	sameSecLater := expSec == nowSec && expNsec < nowNsec
	expired := expSec < nowSec || sameSecLater
	return !expired
}

// ---- one router step -----------------------------------------------------------------------------

type vrRun struct {
	r     *vRouter
	c     vrClass
	pkt   *Packet
	orig  []byte // received bytes
	ing   int    // 0 internal, 1 ext1, 2 ext2, 3 sibA, 4 sibB
	disp  disposition
	sec0  uint64 // clock before processing
	nsec0 uint64
	sec1  uint64 // clock after processing
	nsec1 uint64
	rf    vrRef
	h     int  // received CurrHF (concrete on every path)
	hOK   bool // h < number of hop fields
}

// vrStep builds router, packet (class from the instance parameters) and runs the real fast path.
func vrStep() *vrRun {
	u := &vrRun{}
	u.r = vrSetup()
	u.c = vrClassFromParams()
	u.pkt, u.orig = vrPacket(u.r, u.c)
	u.ing = vrIngress(u.r)
	u.pkt.Link = u.r.links[u.ing]
	t0 := verif.Now()
	p := newPacketProcessor(u.r.d)
	u.disp = p.processPkt(u.pkt)
	t1 := verif.Now()
	u.sec0, u.nsec0 = uint64(t0.Unix()), uint64(t0.Nanosecond())
	u.sec1, u.nsec1 = uint64(t1.Unix()), uint64(t1.Nanosecond())
	verif.Observe("disp", int(u.disp), u.pkt.egress, int(u.pkt.slowPathRequest.spType), int(u.pkt.slowPathRequest.code),
		u.pkt.slowPathRequest.pointer, u.pkt.RawPacket)
	u.rf = vrParse(u.c, u.orig)
	u.h = int(verif.Concrete(uint64(u.rf.currHF)))
	u.hOK = u.h < u.c.nHop
	return u
}

func (u *vrRun) external() bool { return u.ing == 1 || u.ing == 2 }

// peerHop: hop k is one of the two peering hop fields of a peering path (scion-header.rst:
// exactly two segments, Peer flag set on the segment, last hop of the first / first hop of the
// second segment).
func (u *vrRun) peerHop(k int) bool {
	c := u.c
	return c.seg[0] > 0 && c.seg[1] > 0 && c.seg[2] == 0 && (k == c.seg[0]-1 || k == c.seg[0]) && u.rf.peer(u.rf.infOf(k))
}

// xoverPos: hop k is the last hop of its segment, another segment follows and k is not a peering hop.
func (u *vrRun) xoverPos(k int) bool {
	return k+1 < u.c.nHop && u.rf.infOf(k+1) != u.rf.infOf(k) && !u.peerHop(k)
}

func (u *vrRun) hopPtr(k int) uint16 { return uint16(u.c.hopOff + 12*k) }
func (u *vrRun) infPtr(i int) uint16 { return uint16(u.c.infoOff + 8*i) }

// localDelivery: the packet goes to the internal link with an end-host address resolved for it.
func (u *vrRun) localDelivery() bool {
	return u.disp == pForward && u.pkt.egress == 0 && u.r.internal.resolved > 0
}
