//go:build verif || !verif

package router

import (
	"github.com/scionproto/scion/pkg/slayers"
	"github.com/scionproto/scion/zz_verif/verif"
)

// cameViaOwner: the packet arrived over the harness topology's link to the sibling router that owns
// interface id (a table of the harness topology, independent of dataPlane.interfaces).
func (u *vrRun) cameViaOwner(id uint16) bool {
	ownsA := id == vrIfSA1 || id == vrIfSA2
	ownsB := id == vrIfSB
	return (u.ing == 3 && ownsA) || (u.ing == 4 && ownsB)
}

// asIngressIf: the interface through which the packet entered this AS according to the path: the
// ingress side (in travel direction) of the hop field at which the AS was entered. When the
// current hop is the first of a new segment reached by a cross-over inside this AS, that is the
// previous hop field (both hop fields of a cross-over belong to the same AS).
func (u *vrRun) asIngressIf() uint16 {
	rf := &u.rf
	k := u.h
	if k > 0 && rf.infOf(k-1) != rf.infOf(k) && !u.peerHop(k) {
		k--
	}
	if rf.consDir(rf.infOf(k)) {
		return rf.consIngress(k)
	}
	return rf.consEgress(k)
}

// VerifC05: source / destination ISD-AS plausibility and transit spoofing (Appendix C table).
func c05Step(twin bool) {
	u := vrStep()
	rf := &u.rf
	if !u.hOK {
		return
	}
	local := uint64(u.r.d.localIA)
	srcLocal := rf.srcIA == local
	dstLocal := rf.dstIA == local
	first := u.h == 0
	last := u.h == u.c.nHop-1
	fwd := u.disp == pForward
	req := u.pkt.slowPathRequest
	if twin {
		if fwd && u.external() {
			verif.Assert("twin", !u.localDelivery())
		}
		return
	}
	if u.external() {
		if fwd {
			verif.Cover("fwd-external")
			verif.Assert("external-src-local-never-forwarded", !srcLocal)
			verif.Assert("external-local-delivery-iff-last-hop-and-dst-local", u.localDelivery() == (last && dstLocal))
			verif.Assert("external-forwarded-needs-last-eq-dstlocal", last == dstLocal)
		}
		if u.localDelivery() {
			verif.Cover("delivered")
		}
	} else {
		if fwd {
			verif.Cover("fwd-internal")
			if first {
				verif.Assert("internal-first-hop-needs-local-src", srcLocal)
			}
			verif.Assert("internal-dst-local-never-forwarded", !dstLocal)
			if !first {
				verif.Cover("fwd-transit-out")
				// must have come over the link to the sibling router owning the AS-ingress interface
				verif.Assert("transit-needs-owning-sibling-link", u.cameViaOwner(u.asIngressIf()))
			}
		}
	}
	// the SCMP answers named by the property
	if u.disp == pSlowPath && req.spType == slowPathType(slayers.SCMPTypeParameterProblem) {
		switch req.code {
		case slayers.SCMPCodeInvalidSourceAddress:
			verif.Cover("scmp-invalid-src")
		case slayers.SCMPCodeInvalidDestinationAddress:
			verif.Cover("scmp-invalid-dst")
		}
	}
}

func VerifC05() { c05Step(false) }

// VerifC05Twin: a locally delivered packet from an external link exists.
func VerifC05Twin() { c05Step(true) }
