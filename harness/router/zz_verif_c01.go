//go:build verif || !verif

package router

import (
	"github.com/scionproto/scion/pkg/slayers"
	"github.com/scionproto/scion/zz_verif/verif"
)

// c01Step runs the real fast path on a symbolic packet of the instance's layout class and checks
// C01: forwarded/delivered => current hop field (and at an effective cross-over the first hop
// field of the next segment) carries a valid MAC for the accumulator of scion-header.rst and is
// not expired; a MAC/expiry SCMP points at a hop field that really fails.
func c01Step(twin bool) {
	u := vrStep()
	rf := &u.rf
	if u.disp != pForward && u.disp != pSlowPath {
		verif.Cover("dropped")
		return
	}
	if u.disp == pForward {
		verif.Assert("forwarded-currhf-in-range", u.hOK)
	}
	if !u.hOK {
		return
	}
	h := u.h
	i := rf.infOf(h)
	beta := rf.segID(i)
	if u.external() && !rf.consDir(i) && !u.peerHop(h) {
		// against construction direction the ingress router first folds its own MAC into SegID
		beta ^= rf.sigma(h)
	}
	macOK := rf.macValid(h, beta)
	fresh0 := rf.notExpired(h, u.sec0, u.nsec0)
	xoverPos := u.xoverPos(h)
	mac2OK, fresh2 := true, true
	if xoverPos {
		mac2OK = rf.macValid(h+1, rf.segID(i+1))
		fresh2 = rf.notExpired(h+1, u.sec0, u.nsec0)
	}

	if u.disp == pForward {
		verif.Cover("forwarded")
		if twin {
			verif.Assert("twin", !macOK)
			return
		}
		verif.Assert("forward-needs-valid-current-mac", macOK)
		verif.Assert("forward-needs-unexpired-current-hop", fresh0)
		if xoverPos && rf.dstIA != uint64(u.r.d.localIA) {
			verif.Cover("forwarded-xover")
			verif.Assert("forward-at-xover-needs-valid-next-mac", mac2OK)
			verif.Assert("forward-at-xover-needs-unexpired-next-hop", fresh2)
		}
		return
	}
	// slow path: MAC / expiry complaints must designate a hop field that really fails
	req := u.pkt.slowPathRequest
	if req.spType != slowPathType(slayers.SCMPTypeParameterProblem) {
		return
	}
	switch req.code {
	case slayers.SCMPCodeInvalidHopFieldMAC:
		verif.Cover("scmp-bad-mac")
		cur := req.pointer == u.hopPtr(h) && !macOK
		next := xoverPos && req.pointer == u.hopPtr(h+1) && !mac2OK
		verif.Assert("mac-scmp-points-at-failing-hop", cur || next)
	case slayers.SCMPCodePathExpired:
		verif.Cover("scmp-expired")
		cur := req.pointer == u.hopPtr(h) && !rf.notExpired(h, u.sec1, u.nsec1)
		next := xoverPos && req.pointer == u.hopPtr(h+1) && !rf.notExpired(h+1, u.sec1, u.nsec1)
		verif.Assert("expiry-scmp-points-at-expired-hop", cur || next)
	}
}

// VerifC01Scion: SCION path type, layout class from the instance parameters.
func VerifC01Scion() { c01Step(false) }

// VerifC01Twin is the reachability twin: a forwarded packet with a valid MAC exists.
func VerifC01Twin() { c01Step(true) }
