//go:build verif || !verif

package router

import (
	"github.com/scionproto/scion/zz_verif/verif"
)

// c07Step: a forwarded packet equals the received one except for the path's mutable state
// (CurrINF/CurrHF byte, SegID of the segments the router is entitled to update, consumed
// router-alert flags); length unchanged. SCION and EPIC path types.
func c07Step(twin bool) {
	u := vrStep()
	if u.disp != pForward || !u.hOK {
		return
	}
	verif.Cover("forwarded")
	c := u.c
	rf := &u.rf
	out := u.pkt.RawPacket
	verif.Assert("length-unchanged", len(out) == len(u.orig))
	if len(out) != len(u.orig) {
		return
	}
	h := u.h
	i := rf.infOf(h)
	// bytes the router may change
	mutable := map[int]bool{}
	mutable[c.metaOff] = true // CurrINF | CurrHF
	// SegID of the current segment; at an effective cross-over also of the next one is NOT updated
	// by this router unless it is also the egress router of the new segment's first hop
	mutable[c.infoOff+8*i+2] = true
	mutable[c.infoOff+8*i+3] = true
	if u.xoverPos(h) {
		mutable[c.infoOff+8*(i+1)+2] = true
		mutable[c.infoOff+8*(i+1)+3] = true
	}
	diff := false
	for k := 0; k < len(out); k++ {
		if mutable[k] {
			continue
		}
		if k == c.hopOff+12*h || (u.xoverPos(h) && k == c.hopOff+12*(h+1)) {
			// hop-field flag byte: only the two router-alert bits may be cleared
			changed := out[k] ^ u.orig[k]
			verif.Assert("hop-flags-only-router-alert-cleared", changed&^3 == 0 && out[k]&changed == 0)
			continue
		}
		if out[k] != u.orig[k] {
			diff = true
		}
	}
	if twin {
		verif.Assert("twin", out[c.metaOff] == u.orig[c.metaOff])
		return
	}
	verif.Assert("immutable-bytes-unchanged", !diff)
	// exact mutable state (scion-header.rst "AS Traversal Operations"; this is also the router
	// transfer lemma C22(c)): SegID of the segment the packet arrived on is updated at ingress
	// against construction direction; after an effective cross-over the new segment is current; the
	// router that owns the egress interface updates the current SegID in construction direction
	// and advances the pointer; peering hops never update.
	// The exact rule is stated for well-formed paths: in a two-segment path the Peer flag is set on
	// both info fields or on neither (a peering path has exactly two segments, both flagged).
	if c.nInf == 2 && rf.peer(0) != rf.peer(1) {
		verif.Cover("mixed-peer-flags")
		return
	}
	k := h
	seg := [3]uint16{rf.segID(0), 0, 0}
	if c.nInf > 1 {
		seg[1] = rf.segID(1)
	}
	if c.nInf > 2 {
		seg[2] = rf.segID(2)
	}
	if u.external() && !rf.consDir(i) && !u.peerHop(h) {
		seg[i] ^= rf.sigma(h)
	}
	local := u.localDelivery()
	wantHF := h
	if !local && u.xoverPos(h) {
		k = h + 1
		wantHF++
	}
	ownEgress := !local && (u.pkt.egress == vrIf1 || u.pkt.egress == vrIf2)
	if ownEgress {
		ik := rf.infOf(k)
		if rf.consDir(ik) && !u.peerHop(k) {
			seg[ik] ^= rf.sigma(k)
		}
		wantHF++
	}
	okSeg := true
	for j := 0; j < c.nInf; j++ {
		okSeg = okSeg && be16(out, c.infoOff+8*j+2) == seg[j]
	}
	verif.Assert("segids-exactly-as-specified", okSeg)
	if wantHF < c.nHop {
		wantINF := rf.infOf(wantHF)
		verif.Assert("pointers-exactly-as-specified", out[c.metaOff] == byte(wantINF<<6|wantHF))
	}
	verif.Observe("ptr", out[c.metaOff])
}

func VerifC07() { c07Step(false) }

// VerifC07Twin: some forwarded packet has its pointer byte changed.
func VerifC07Twin() { c07Step(true) }
