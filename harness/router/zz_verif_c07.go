//go:build verif || !verif

package router

import (
	"github.com/scionproto/scion/zz_verif/verif"
)

// c07Step: a forwarded packet equals the received one except for the path's mutable state
// (CurrINF/CurrHF byte, SegID of the segments the router is entitled to update, consumed
// router-alert flags); length unchanged. SCION and EPIC path types.
func c07Step(twin bool) {
	u := vrStep()
	if u.disp != pForward || !u.hOK {
		return
	}
	verif.Cover("forwarded")
	c := u.c
	rf := &u.rf
	out := u.pkt.RawPacket
	verif.Assert("length-unchanged", len(out) == len(u.orig))
	if len(out) != len(u.orig) {
		return
	}
	h := u.h
	i := rf.infOf(h)
	// bytes the router may change
	mutable := map[int]bool{}
	mutable[c.metaOff] = true // CurrINF | CurrHF
	// SegID of the current segment; at an effective cross-over also of the next one is NOT updated
	// by this router unless it is also the egress router of the new segment's first hop
	mutable[c.infoOff+8*i+2] = true
	mutable[c.infoOff+8*i+3] = true
	if u.xoverPos(h) {
		mutable[c.infoOff+8*(i+1)+2] = true
		mutable[c.infoOff+8*(i+1)+3] = true
	}
	diff := false
	for k := 0; k < len(out); k++ {
		if mutable[k] {
			continue
		}
		if k == c.hopOff+12*h || (u.xoverPos(h) && k == c.hopOff+12*(h+1)) {
			// hop-field flag byte: only the two router-alert bits may be cleared
			changed := out[k] ^ u.orig[k]
			verif.Assert("hop-flags-only-router-alert-cleared", changed&^3 == 0 && out[k]&changed == 0)
			continue
		}
		if out[k] != u.orig[k] {
			diff = true
		}
	}
	if twin {
		verif.Assert("twin", out[c.metaOff] == u.orig[c.metaOff])
		return
	}
	verif.Assert("immutable-bytes-unchanged", !diff)
	// pointer update is consistent: either unchanged (local delivery / hand-over to sibling before
	// egress processing) or advanced
	newHF := int(verif.Concrete(uint64(out[c.metaOff] & 63)))
	verif.Assert("currhf-never-decreases", newHF >= h && newHF <= h+2)
	verif.Observe("ptr", newHF)
}

func VerifC07() { c07Step(false) }

// VerifC07Twin: some forwarded packet has its pointer byte changed.
func VerifC07Twin() { c07Step(true) }
