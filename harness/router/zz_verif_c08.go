//go:build verif || !verif

package router

import (
	"github.com/gopacket/gopacket"

	"github.com/scionproto/scion/pkg/slayers"
	"github.com/scionproto/scion/pkg/slayers/path/scion"
	"github.com/scionproto/scion/zz_verif/verif"
)

// c08Consistent: the emitted bytes decode as a SCION packet whose header length, payload length
// and path pointers are consistent (reference conditions on the raw bytes + the real decoder).
func c08Consistent(tag string, out []byte) {
	var s slayers.SCION
	s.RecyclePaths()
	err := s.DecodeFromBytes(out, gopacket.NilDecodeFeedback)
	verif.Assert(tag+"-decodes", err == nil)
	if err != nil {
		return
	}
	hdr := int(out[5]) * 4
	verif.Assert(tag+"-hdrlen-within-packet", hdr >= 12 && hdr <= len(out))
	verif.Assert(tag+"-payloadlen-consistent", int(be16(out, 6)) == len(out)-hdr)
	if raw, ok := s.Path.(*scion.Raw); ok {
		m := raw.PathMeta
		n := int(m.SegLen[0]) + int(m.SegLen[1]) + int(m.SegLen[2])
		verif.Assert(tag+"-currhf-in-range", int(m.CurrHF) < n)
		inf := 0
		if int(m.CurrHF) >= int(m.SegLen[0]) {
			inf = 1
		}
		if int(m.CurrHF) >= int(m.SegLen[0])+int(m.SegLen[1]) {
			inf = 2
		}
		verif.Assert(tag+"-currinf-matches-currhf", int(m.CurrINF) == inf)
	}
}

// VerifC08: arbitrary byte strings of length Param("len") on every ingress link kind: the fast
// path and (when requested) the slow path terminate without panic (panics are reported by the
// engine as violations of the implicit clause no-panic), and whatever is forwarded or emitted is
// consistent.
func c08Step(twin bool) {
	r := vrSetup()
	n := verif.Param("len")
	raw := verif.NondetBytes("pkt", n)
	buf := new([bufSize]byte)
	headroom := verif.Param("headroom")
	copy(buf[headroom:], raw)
	pkt := &Packet{buffer: buf}
	pkt.RawPacket = buf[headroom : headroom+n]
	ing := vrIngress(r)
	pkt.Link = r.links[ing]
	p := newPacketProcessor(r.d)
	disp := p.processPkt(pkt)
	verif.Observe("disp", int(disp), pkt.egress, pkt.RawPacket)
	verif.Cover("processed")
	switch disp {
	case pForward:
		verif.Cover("forwarded")
		if twin {
			verif.Unreachable("twin")
		}
		c08Consistent("forwarded", pkt.RawPacket)
	case pSlowPath:
		sp := newSlowPathProcessor(r.d)
		err := sp.processPacket(pkt)
		verif.Observe("slow", err == nil, pkt.RawPacket)
		if err == nil {
			verif.Cover("emitted")
			c08Consistent("emitted", pkt.RawPacket)
		}
	}
	// reaching this point means neither processor panicked on this path (a feasible panic is
	// reported by the engine as a violation of the implicit clause no-panic)
	verif.Assert("processing-terminated", true)
}

func VerifC08() { c08Step(false) }

// VerifC08TwinDrop: reachability twin for the short lengths (nothing can be forwarded there): the
// claim "the packet is never discarded" must be violated.
func VerifC08TwinDrop() {
	r := vrSetup()
	n := verif.Param("len")
	raw := verif.NondetBytes("pkt", n)
	buf := new([bufSize]byte)
	headroom := verif.Param("headroom")
	copy(buf[headroom:], raw)
	pkt := &Packet{buffer: buf}
	pkt.RawPacket = buf[headroom : headroom+n]
	pkt.Link = r.links[vrIngress(r)]
	disp := newPacketProcessor(r.d).processPkt(pkt)
	verif.Assert("twin", disp != pDiscard)
}

// VerifC08Twin: a forwarded packet exists among the byte strings of this length.
func VerifC08Twin() { c08Step(true) }
