//go:build verif || !verif

package router

import (
	"encoding/binary"

	"github.com/scionproto/scion/zz_verif/verif"
)

// C13 — EPIC packets need fresh timestamps and valid hop validation fields.
//
// Layout of the EPIC path type (scion-header.rst "Path Type: EPIC-HP"): PktID (EpicTS u32, Counter
// u32), PHVF (4), LHVF (4), then the complete SCION path type header. vrClassFromParams with
// ptype=3 places the meta header 16 bytes after the start of the path.
//
// Reference quantities (from the property text and scion-header.rst, integer nanoseconds):
//
//	packet timestamp  Ts  = Timestamp(first info field) * 1e9 + (1 + EpicTS) * 21000
//	fresh             <=> |Ts - now| <= MaxPacketLifetime (2 s) + MaxClockSkew (1 s)
//	HVF input             = Flags(1: source host length code) | Timestamp(4) | PktID(8) | SrcIA(8) |
//	                        SrcHost(4..16) | PayloadLen(2) | zero padding to a multiple of 16
//	PHVF / LHVF           = epic(sigma_hop, input)[0:4], sigma_hop = the hop's full 16-byte MAC

const (
	c13WindowSec = 3     // MaxPacketLifetime (2 s) + MaxClockSkew (1 s)
	c13Quantum   = 21000 // EpicTS resolution in ns
)

// c13Pos: where the received packet stands. 0 = neither, 1 = penultimate hop field, 2 = last.
func (u *vrRun) c13Pos() int {
	switch u.h {
	case u.c.nHop - 2:
		return 1
	case u.c.nHop - 1:
		return 2
	}
	return 0
}

func (u *vrRun) epicTS() uint32 {
	return binary.BigEndian.Uint32(u.orig[u.c.pathOff : u.c.pathOff+4])
}

func (u *vrRun) epicPktID() []byte { return u.orig[u.c.pathOff : u.c.pathOff+8] }

func (u *vrRun) epicHVF(pos int) []byte {
	o := u.c.pathOff + 8
	if pos == 2 {
		o += 4
	}
	return u.orig[o : o+4]
}

// epicInput is the reference MAC input block of the hop validation fields.
func (u *vrRun) epicInput() []byte {
	c := u.c
	srcLen := 4 * (c.sl + 1)
	dstLen := 4 * (c.dl + 1)
	n := (1 + 4 + 8 + 8 + srcLen + 2 + 15) / 16 * 16
	in := make([]byte, n)
	in[0] = byte(c.sl)
	ts := u.rf.timestamp(0)
	in[1], in[2], in[3], in[4] = byte(ts>>24), byte(ts>>16), byte(ts>>8), byte(ts)
	copy(in[5:13], u.epicPktID())
	copy(in[13:21], u.orig[20:28])
	srcOff := 12 + 16 + dstLen
	copy(in[21:21+srcLen], u.orig[srcOff:srcOff+srcLen])
	in[21+srcLen], in[22+srcLen] = u.orig[6], u.orig[7]
	return in
}

// hvfValid: the hop validation field of position pos equals the first four bytes of the ideal
// EPIC MAC keyed with the full hop-field MAC of hop h (accumulator beta as in C01).
func (u *vrRun) hvfValid(pos int, beta uint16) bool { return u.hvfValidAt(u.h, pos, beta) }

func (u *vrRun) hvfValidAt(hop, pos int, beta uint16) bool {
	sigma := verif.UF("hfmac", 16, u.rf.macInput(hop, beta))
	full := verif.UF("epic", 16, sigma, u.epicInput())
	hvf := u.epicHVF(pos)
	var diff byte
	for k := 0; k < 4; k++ {
		diff |= hvf[k] ^ full[k]
	}
	return diff == 0
}

// c13Sender is the packet timestamp Ts as (whole seconds since the epoch, nanoseconds < 1e9):
// exact integer arithmetic, Ts = sec*1e9 + nsec ns.
func (u *vrRun) c13Sender() (sec, nsec uint64) {
	off := (uint64(u.epicTS()) + 1) * c13Quantum // < 2^32 * 21000 ns
	return uint64(u.rf.timestamp(0)) + off/1000000000, off % 1000000000
}

// c13NotAfter: instant a = (as, an) is not later than instant b = (bs, bn) + c13WindowSec seconds.
func c13NotAfter(as, an, bs, bn uint64) bool {
	bs += c13WindowSec
	sameSecNotLater := as == bs && an <= bn
	return as < bs || sameSecNotLater
}

// c13Run is vrStep with the received CurrHF restricted before the packet is processed:
// want 1 = penultimate or last hop field, 0 = any other position, -1 = no restriction.
func c13Run(want int) *vrRun {
	u := &vrRun{}
	u.r = vrSetup()
	u.c = vrClassFromParams()
	u.pkt, u.orig = vrPacket(u.r, u.c)
	cur := int(u.orig[u.c.metaOff] & 63)
	atEnd := cur == u.c.nHop-2 || cur == u.c.nHop-1
	switch want {
	case 1:
		verif.Assume(atEnd)
	case 0:
		verif.Assume(!atEnd)
	case 2:
		verif.Assume(cur == u.c.nHop-1) // twins: last hop field only
	}
	u.ing = vrIngress(u.r)
	u.pkt.Link = u.r.links[u.ing]
	t0 := verif.Now()
	p := newPacketProcessor(u.r.d)
	u.disp = p.processPkt(u.pkt)
	t1 := verif.Now()
	u.sec0, u.nsec0 = uint64(t0.Unix()), uint64(t0.Nanosecond())
	u.sec1, u.nsec1 = uint64(t1.Unix()), uint64(t1.Nanosecond())
	verif.Observe("disp", int(u.disp), u.pkt.egress, int(u.pkt.slowPathRequest.spType), int(u.pkt.slowPathRequest.code),
		u.pkt.slowPathRequest.pointer, u.pkt.RawPacket)
	u.rf = vrParse(u.c, u.orig)
	u.h = int(verif.Concrete(uint64(u.rf.currHF)))
	u.hOK = u.h < u.c.nHop
	return u
}

// c13End: clauses for a packet received at its penultimate / last hop field.
func c13End(twin bool) {
	want := 1
	if twin {
		want = 2
	}
	u := c13Run(want)
	rf := &u.rf
	pos := u.c13Pos()
	if u.disp != pForward {
		verif.Cover("not-accepted")
		return
	}
	h := u.h
	i := rf.infOf(h)
	beta := rf.segID(i)
	if u.external() && !rf.consDir(i) && !u.peerHop(h) {
		beta ^= rf.sigma(h)
	}
	hvfOK := u.hvfValid(pos, beta)
	tsSec, tsNsec := u.c13Sender()
	// the router reads the clock somewhere between the two readings of the harness
	notTooOld := c13NotAfter(u.sec0, u.nsec0, tsSec, tsNsec) // now <= Ts + 3 s
	notTooNew := c13NotAfter(tsSec, tsNsec, u.sec1, u.nsec1) // Ts <= now + 3 s
	if pos == 1 {
		verif.Cover("accepted-penultimate")
	} else {
		verif.Cover("accepted-last")
	}
	if twin {
		verif.Assert("twin", !(hvfOK && notTooOld && notTooNew))
		return
	}
	verif.Assert("accepted-needs-valid-hvf", hvfOK)
	verif.Assert("accepted-needs-timestamp-not-older-than-lifetime-plus-skew", notTooOld)
	verif.Assert("accepted-needs-timestamp-not-beyond-lifetime-plus-skew-ahead", notTooNew)
}

// c13Diff: the same bytes presented with path type SCION (the 16 EPIC bytes removed, HdrLen
// adjusted) on the same router, same ingress link, same clock. At a hop field that is neither
// penultimate nor last the two runs must agree in everything observable; at the penultimate / last
// hop field EPIC may only be stricter (discard where SCION forwards).
func c13Diff(twin bool) {
	want := -1
	if twin {
		want = 2
	}
	u := c13Run(want)
	c := u.c
	pos := u.c13Pos()
	egE, reqE := u.pkt.egress, u.pkt.slowPathRequest
	outE := u.pkt.RawPacket
	resE, portE := u.r.internal.resolved, u.r.internal.resPort
	u.r.internal.resolved, u.r.internal.resPort = 0, 0

	raw := make([]byte, 0, len(u.orig)-16)
	raw = append(raw, u.orig[:c.pathOff]...)
	raw = append(raw, u.orig[c.pathOff+16:]...)
	raw[5] = byte((c.hdrLen - 16) / 4)
	raw[8] = 1
	buf := new([bufSize]byte)
	headroom := verif.Param("headroom")
	copy(buf[headroom:], raw)
	pkt := &Packet{buffer: buf}
	pkt.RawPacket = buf[headroom : headroom+len(raw)]
	pkt.Link = u.r.links[u.ing]
	p := newPacketProcessor(u.r.d)
	dispS := p.processPkt(pkt)
	t2 := verif.Now()
	// same clock for both runs (the clock is non-decreasing: all readings in between are equal too)
	verif.Assume(uint64(t2.Unix()) == u.sec0 && uint64(t2.Nanosecond()) == u.nsec0)
	verif.Observe("scion", int(dispS), pkt.egress, int(pkt.slowPathRequest.spType), int(pkt.slowPathRequest.code),
		pkt.slowPathRequest.pointer, pkt.RawPacket)
	egS, reqS := pkt.egress, pkt.slowPathRequest
	outS := pkt.RawPacket
	resS, portS := u.r.internal.resolved, u.r.internal.resPort

	sameDisp := u.disp == dispS
	// disposition-specific observables
	sameOut := true
	if sameDisp && (dispS == pForward || dispS == pSlowPath) {
		sameOut = egE == egS && resE == resS && portE == portS &&
			reqE.spType == reqS.spType && reqE.code == reqS.code && reqE.pointer == reqS.pointer
	}
	// bytes: common and address header apart from HdrLen / PathType; EPIC fields untouched; the
	// embedded SCION path equal to the SCION run's path; payload equal
	sameBytes := len(outE) == len(outS)+16
	if sameBytes && sameDisp {
		var diff byte
		for k := 0; k < c.pathOff; k++ {
			if k == 5 || k == 8 {
				continue
			}
			diff |= outE[k] ^ outS[k]
		}
		diff |= outE[5] ^ byte(c.hdrLen/4)
		diff |= outE[8] ^ 3
		for k := 0; k < 16; k++ {
			diff |= outE[c.pathOff+k] ^ u.orig[c.pathOff+k]
		}
		for k := c.pathOff; k < len(outS); k++ {
			diff |= outE[k+16] ^ outS[k]
		}
		sameBytes = diff == 0
	}
	if twin {
		verif.Assume(pos != 0)
		verif.Assert("twin", sameDisp)
		return
	}
	if pos == 0 {
		if u.disp == pForward {
			verif.Cover("other-hop-forwarded")
		}
		if u.disp == pSlowPath {
			verif.Cover("other-hop-slowpath")
		}
		verif.Assert("other-hop-same-disposition-as-scion", sameDisp)
		verif.Assert("other-hop-same-egress-and-scmp-request-as-scion", sameOut)
		verif.Assert("other-hop-same-bytes-as-scion", !sameDisp || sameBytes)
		return
	}
	// penultimate / last hop field: EPIC accepts only what SCION accepts, with the same result
	if u.disp == pForward {
		verif.Cover("end-hop-forwarded")
	}
	if !sameDisp {
		verif.Cover("end-hop-epic-stricter")
	}
	verif.Assert("end-hop-differs-from-scion-only-by-discarding", sameDisp || (dispS == pForward && u.disp == pDiscard))
	verif.Assert("end-hop-same-egress-and-scmp-request-as-scion", sameOut)
	verif.Assert("end-hop-same-bytes-as-scion", !sameDisp || sameBytes)
}

// VerifC13XoverProbe is NOT part of the registered claim (tier "probe" only, see notes/C13.md,
// observation 1). Two-segment class whose last segment has two hop fields; the packet is received
// with CurrHF = NumHops-3 (last hop field of the first segment), this router performs the
// cross-over onto the penultimate hop field and the egress processing of that hop field. Reading
// "at its penultimate hop" per AS rather than per received pointer, the PHVF would have to be
// valid for that hop field.
func VerifC13XoverProbe() {
	u := c13Run(0)
	c := u.c
	if u.disp != pForward || u.h != c.nHop-3 || !u.xoverPos(u.h) {
		return
	}
	newHF := int(verif.Concrete(uint64(u.pkt.RawPacket[c.metaOff] & 63)))
	if newHF != c.nHop-1 {
		return
	}
	verif.Cover("xover-onto-penultimate-forwarded")
	i := u.rf.infOf(u.h + 1)
	verif.Assert("xover-onto-penultimate-needs-valid-phvf", u.hvfValidAt(u.h+1, 1, u.rf.segID(i)))
}

// VerifC13Diff: differential against the embedded SCION path, all positions.
func VerifC13Diff() { c13Diff(false) }

// VerifC13DiffTwin: at the penultimate / last hop field EPIC and SCION dispositions can differ.
func VerifC13DiffTwin() { c13Diff(true) }

// VerifC13End: penultimate and last hop.
func VerifC13End() { c13End(false) }

// VerifC13Twin: reachability twin — an accepted EPIC packet that is fresh and has a valid HVF exists.
func VerifC13Twin() { c13End(true) }
