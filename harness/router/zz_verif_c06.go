//go:build verif || !verif

package router

import (
	"github.com/scionproto/scion/pkg/slayers"
	"github.com/scionproto/scion/private/topology"
	"github.com/scionproto/scion/zz_verif/verif"
)

// refLinkType: link type of interface id in the harness topology (Unset for unknown ids).
func (u *vrRun) refLinkType(id uint16) topology.LinkType {
	d := u.r.d
	var t topology.LinkType
	if id == vrIf1 {
		t = d.linkTypes[vrIf1]
	}
	if id == vrIf2 {
		t = d.linkTypes[vrIf2]
	}
	if id == vrIfSA1 {
		t = d.linkTypes[vrIfSA1]
	}
	if id == vrIfSA2 {
		t = d.linkTypes[vrIfSA2]
	}
	if id == vrIfSB {
		t = d.linkTypes[vrIfSB]
	}
	return t
}

func allowedWithinSegment(in, eg topology.LinkType) bool {
	return (in == topology.Core && eg == topology.Core) ||
		(in == topology.Child && eg == topology.Parent) ||
		(in == topology.Parent && eg == topology.Child) ||
		(in == topology.Child && eg == topology.Peer) ||
		(in == topology.Peer && eg == topology.Child)
}

func allowedAtSegmentChange(in, eg topology.LinkType) bool {
	return (in == topology.Core && eg == topology.Child) ||
		(in == topology.Child && eg == topology.Core) ||
		(in == topology.Child && eg == topology.Child)
}

// c06Step: link-type rules of the property (Appendix C table).
func c06Step(twin bool) {
	u := vrStep()
	rf := &u.rf
	if !u.hOK {
		return
	}
	h := u.h
	fwdOut := u.disp == pForward && !u.localDelivery()
	// hop field that determines the egress: the current one, or after an effective cross-over the
	// first hop field of the next segment
	xover := u.xoverPos(h) && rf.dstIA != uint64(u.r.d.localIA)
	k := h
	if xover {
		k = h + 1
	}
	var egIf uint16
	if rf.consDir(rf.infOf(k)) {
		egIf = rf.consEgress(k)
	} else {
		egIf = rf.consIngress(k)
	}
	egLT := u.refLinkType(egIf)
	egKnown := egIf == vrIf1 || egIf == vrIf2 || egIf == vrIfSA1 || egIf == vrIfSA2 || egIf == vrIfSB
	egOwn := egIf == vrIf1 || egIf == vrIf2
	if twin {
		if fwdOut && u.external() {
			verif.Assert("twin", xover)
		}
		return
	}
	if fwdOut {
		verif.Cover("forwarded-out")
		verif.Assert("egress-is-path-egress", u.pkt.egress == egIf)
		verif.Assert("egress-interface-known", egKnown)
		if u.external() {
			var inIf uint16 = vrIf1
			if u.ing == 2 {
				inIf = vrIf2
			}
			inLT := u.refLinkType(inIf)
			if xover {
				verif.Cover("forwarded-segment-change")
				verif.Assert("segment-change-pair-allowed", allowedAtSegmentChange(inLT, egLT))
			} else {
				verif.Cover("forwarded-within-segment")
				verif.Assert("within-segment-pair-allowed", allowedWithinSegment(inLT, egLT))
			}
		} else {
			verif.Cover("forwarded-from-inside")
			verif.Assert("from-inside-leaves-through-own-external-interface", egOwn)
		}
	}
	req := u.pkt.slowPathRequest
	if u.disp == pSlowPath && req.spType == slowPathType(slayers.SCMPTypeParameterProblem) {
		switch req.code {
		case slayers.SCMPCodeInvalidPath:
			verif.Cover("scmp-invalid-path")
			verif.Assert("invalid-path-only-within-segment", !xover)
		case slayers.SCMPCodeInvalidSegmentChange:
			verif.Cover("scmp-invalid-segment-change")
			verif.Assert("invalid-segment-change-only-at-change", xover)
		}
	}
}

func VerifC06() { c06Step(false) }

// VerifC06Twin: a packet forwarded without segment change exists (twin asserts the opposite).
func VerifC06Twin() { c06Step(true) }
