//go:build verif || !verif

package router

import (
	"github.com/scionproto/scion/zz_verif/verif"
)

// refNeighbor: neighbour ISD-AS configured behind interface id in the harness topology (0: none).
func (u *vrRun) refNeighbor(id uint16) uint64 {
	d := u.r.d
	var nb uint64
	if id == vrIf1 {
		nb = uint64(d.neighborIAs[vrIf1])
	}
	if id == vrIf2 {
		nb = uint64(d.neighborIAs[vrIf2])
	}
	if id == vrIfSA1 {
		nb = uint64(d.neighborIAs[vrIfSA1])
	}
	if id == vrIfSA2 {
		nb = uint64(d.neighborIAs[vrIfSA2])
	}
	if id == vrIfSB {
		nb = uint64(d.neighborIAs[vrIfSB])
	}
	return nb
}

// c12Step: one-hop paths (path type 2) on internal and external ingress.
func c12Step(twin bool) {
	u := vrStep()
	rf := &u.rf
	c := u.c
	if u.disp != pForward {
		return
	}
	verif.Cover("ohp-forwarded")
	local := uint64(u.r.d.localIA)
	out := u.pkt.RawPacket
	segID := rf.segID(0)
	verif.Assert("length-unchanged", len(out) == len(u.orig))
	if len(out) != len(u.orig) {
		return
	}
	verif.Assert("ohp-needs-construction-direction", rf.consDir(0))
	// expected output bytes
	exp := make([]byte, len(u.orig))
	copy(exp, u.orig)
	if !u.external() {
		verif.Cover("ohp-out")
		if twin {
			verif.Assert("twin", rf.srcIA != local)
			return
		}
		egIf := rf.consEgress(0)
		nb := u.refNeighbor(egIf)
		verif.Assert("out-needs-local-source", rf.srcIA == local)
		verif.Assert("out-needs-valid-first-hop-mac", rf.macValid(0, segID))
		verif.Assert("out-destination-is-neighbour-behind-egress", nb != 0 && rf.dstIA == nb)
		verif.Assert("out-egress-is-first-hop-egress", u.pkt.egress == egIf)
		ns := segID ^ rf.sigma(0)
		exp[c.infoOff+2], exp[c.infoOff+3] = byte(ns>>8), byte(ns)
	} else {
		verif.Cover("ohp-in")
		var inIf uint16 = vrIf1
		if u.ing == 2 {
			inIf = vrIf2
		}
		verif.Assert("in-needs-local-destination", rf.dstIA == local)
		verif.Assert("in-source-is-neighbour-on-receiving-interface", rf.srcIA == u.refNeighbor(inIf))
		verif.Assert("in-delivered-locally", u.localDelivery())
		// completed second hop field: ingress = receiving interface, egress 0, same expiry, valid MAC
		o := c.hopOff + 12
		exp[o] = 0
		exp[o+1] = rf.expTime(0)
		exp[o+2], exp[o+3] = byte(inIf>>8), byte(inIf)
		exp[o+4], exp[o+5] = 0, 0
		in := make([]byte, 16)
		ts := rf.timestamp(0)
		in[2], in[3] = byte(segID>>8), byte(segID)
		in[4], in[5], in[6], in[7] = byte(ts>>24), byte(ts>>16), byte(ts>>8), byte(ts)
		in[9] = rf.expTime(0)
		in[10], in[11] = byte(inIf>>8), byte(inIf)
		full := verif.UF("hfmac", 16, in)
		copy(exp[o+6:o+12], full[:6])
	}
	same := true
	for k := range exp {
		if out[k] != exp[k] {
			same = false
		}
	}
	verif.Assert("only-second-hop-and-segid-change", same)
	verif.Observe("out", out)
}

func VerifC12() { c12Step(false) }

// VerifC12Twin: an outgoing one-hop packet with local source is forwarded.
func VerifC12Twin() { c12Step(true) }
