//go:build verif || !verif

package grpc

import (
	"context"
	"crypto/tls"
	"crypto/x509"
	"net"
	"net/netip"

	"google.golang.org/grpc/credentials"
	"google.golang.org/grpc/peer"
	"google.golang.org/protobuf/types/known/timestamppb"

	"github.com/scionproto/scion/control/config"
	"github.com/scionproto/scion/pkg/addr"
	"github.com/scionproto/scion/pkg/drkey"
	cppb "github.com/scionproto/scion/pkg/proto/control_plane"
	dkpb "github.com/scionproto/scion/pkg/proto/drkey"
	"github.com/scionproto/scion/zz_verif/verif"
)

// C40 — the DRKey gRPC service hands keys only to the entities they are bound to.
//
// The real Server RPC handlers and validate* functions run against a recording stub Engine (it
// "derives" whatever it is asked for) and a stub client-certificate verifier. Symbolic: local
// ISD-AS, request ISD-ASes, protocol id, the bytes of the peer's IP address (4 or 16 bytes), the
// certificate's ISD-AS, the entries of the allowed (host, protocol) set. Host texts in requests
// come from the concrete table c40Hosts. The oracle is the allow condition of the property text.

func c40All(bs ...bool) bool {
	ok := true
	for _, b := range bs {
		ok = ok && b
	}
	return ok
}

func c40Or(a, b bool) bool { return a || b }

func c40EqBytes(a, b []byte) bool {
	if len(a) != len(b) {
		return false
	}
	ok := true
	for i := range a {
		ok = ok && a[i] == b[i]
	}
	return ok
}

// ---- stub engine ---------------------------------------------------------------------------------

type c40Calls struct {
	sv, getL1, deriveL1, asHost, hostAS, hostHost int
	svMeta                                        drkey.SecretValueMeta
	l1Meta                                        drkey.Level1Meta
	asHostMeta                                    drkey.ASHostMeta
	hostASMeta                                    drkey.HostASMeta
	hostHostMeta                                  drkey.HostHostMeta
}

type c40Engine struct{ c *c40Calls }

var c40Epoch = drkey.NewEpoch(1700000000, 1700086400)

func (e c40Engine) GetSecretValue(_ context.Context, m drkey.SecretValueMeta) (drkey.SecretValue, error) {
	e.c.sv++
	e.c.svMeta = m
	return drkey.SecretValue{Epoch: c40Epoch, ProtoId: m.ProtoId, Key: drkey.Key{1}}, nil
}

func (e c40Engine) GetLevel1Key(_ context.Context, m drkey.Level1Meta) (drkey.Level1Key, error) {
	e.c.getL1++
	e.c.l1Meta = m
	return drkey.Level1Key{Epoch: c40Epoch, ProtoId: m.ProtoId, SrcIA: m.SrcIA, DstIA: m.DstIA, Key: drkey.Key{2}}, nil
}

func (e c40Engine) DeriveLevel1(_ context.Context, m drkey.Level1Meta) (drkey.Level1Key, error) {
	e.c.deriveL1++
	e.c.l1Meta = m
	return drkey.Level1Key{Epoch: c40Epoch, ProtoId: m.ProtoId, SrcIA: m.SrcIA, DstIA: m.DstIA, Key: drkey.Key{3}}, nil
}

func (e c40Engine) DeriveASHost(_ context.Context, m drkey.ASHostMeta) (drkey.ASHostKey, error) {
	e.c.asHost++
	e.c.asHostMeta = m
	return drkey.ASHostKey{Epoch: c40Epoch, ProtoId: m.ProtoId, SrcIA: m.SrcIA, DstIA: m.DstIA, DstHost: m.DstHost, Key: drkey.Key{4}}, nil
}

func (e c40Engine) DeriveHostAS(_ context.Context, m drkey.HostASMeta) (drkey.HostASKey, error) {
	e.c.hostAS++
	e.c.hostASMeta = m
	return drkey.HostASKey{Epoch: c40Epoch, ProtoId: m.ProtoId, SrcIA: m.SrcIA, DstIA: m.DstIA, SrcHost: m.SrcHost, Key: drkey.Key{5}}, nil
}

func (e c40Engine) DeriveHostHost(_ context.Context, m drkey.HostHostMeta) (drkey.HostHostKey, error) {
	e.c.hostHost++
	e.c.hostHostMeta = m
	return drkey.HostHostKey{Epoch: c40Epoch, ProtoId: m.ProtoId, SrcIA: m.SrcIA, DstIA: m.DstIA, SrcHost: m.SrcHost, DstHost: m.DstHost, Key: drkey.Key{6}}, nil
}

// ---- hosts and peers -----------------------------------------------------------------------------

// c40Hosts: host texts of requests with the address they name (reference, written by hand).
var c40Hosts = []struct {
	text string
	v4   []byte // the IPv4 host named, if any
	v6   []byte // the IPv6 host named, if any
}{
	{"10.1.2.3", []byte{10, 1, 2, 3}, nil},
	{"2001:db8::7", nil, []byte{0x20, 0x01, 0x0d, 0xb8, 0, 0, 0, 0, 0, 0, 0, 0, 0, 0, 0, 7}},
	{"::ffff:10.1.2.3", []byte{10, 1, 2, 3}, nil}, // the IPv4-mapped form names the IPv4 host
	{"192.0.2.77", []byte{192, 0, 2, 77}, nil},
	{"no-such-host", nil, nil},
	{"", nil, nil},
}

// c40HostPairs: (source host, destination host) index pairs of host-host requests. Set 0 is a
// selection (quick tier), set 1 is every pair.
func c40HostPairs(set int) [][2]int {
	if set == 0 {
		return [][2]int{{0, 1}, {0, 0}, {1, 0}, {2, 3}, {4, 0}, {0, 5}, {3, 2}, {1, 1}}
	}
	var out [][2]int
	for i := range c40Hosts {
		for j := range c40Hosts {
			out = append(out, [2]int{i, j})
		}
	}
	return out
}

type c40Peer struct {
	ip []byte // 4 or 16 symbolic bytes
}

// v4 returns the IPv4 host the peer address denotes (4-byte form or IPv4-mapped 16-byte form).
func (p c40Peer) isV4(want []byte) bool {
	if len(p.ip) == 4 {
		return c40EqBytes(p.ip, want)
	}
	pre := true
	for i := 0; i < 10; i++ {
		pre = pre && p.ip[i] == 0
	}
	return c40All(pre, p.ip[10] == 0xff, p.ip[11] == 0xff, c40EqBytes(p.ip[12:], want))
}

func (p c40Peer) isV6(want []byte) bool {
	if len(p.ip) == 4 {
		return false
	}
	return c40EqBytes(p.ip, want)
}

// is: the peer is the host named by entry k of c40Hosts.
func (p c40Peer) is(k int) bool {
	h := c40Hosts[k]
	switch {
	case h.v4 != nil:
		return p.isV4(h.v4)
	case h.v6 != nil:
		return p.isV6(h.v6)
	}
	return false
}

func c40NewPeer() c40Peer {
	n := 4
	if verif.Choose("peer-ip-len", 2) == 1 {
		n = 16
	}
	return c40Peer{ip: verif.NondetBytes("peer", n)}
}

func c40Ctx(p c40Peer, auth credentials.AuthInfo) context.Context {
	return peer.NewContext(context.Background(), &peer.Peer{
		Addr:     &net.TCPAddr{IP: net.IP(append([]byte(nil), p.ip...)), Port: 31000},
		AuthInfo: auth,
	})
}

var c40ValTime = &timestamppb.Timestamp{Seconds: 1700000123}

// ---- level 2 / 3 keys ----------------------------------------------------------------------------

// VerifC40Level2: AS-host, host-AS and host-host requests.
func VerifC40Level2() {
	local := addr.IA(verif.NondetU64("local"))
	src, dst := verif.NondetU64("src"), verif.NondetU64("dst")
	protoID := dkpb.Protocol(verif.NondetU32("proto"))
	proto := uint16(protoID) // the protocol identifier is a 16-bit number (drkey.rst)
	generic := proto == 0
	p := c40NewPeer()
	calls := &c40Calls{}
	srv := &Server{LocalIA: local, Engine: c40Engine{calls}}
	ctx := c40Ctx(p, nil)
	srcLocal, dstLocal := addr.IA(src) == local, addr.IA(dst) == local
	rpc := verif.Choose("rpc", 3)
	sk, dk := 0, 0
	switch rpc {
	case 0:
		dk = verif.Choose("dst-host", len(c40Hosts))
	case 1:
		sk = verif.Choose("src-host", len(c40Hosts))
	default:
		pairs := c40HostPairs(verif.Param("pairs"))
		pr := pairs[verif.Choose("host-pair", len(pairs))]
		sk, dk = pr[0], pr[1]
	}
	srcHost, dstHost := c40Hosts[sk].text, c40Hosts[dk].text

	switch rpc {
	case 0:
		resp, err := srv.DRKeyASHost(ctx, &cppb.DRKeyASHostRequest{ValTime: c40ValTime, ProtocolId: protoID,
			SrcIa: src, DstIa: dst, DstHost: dstHost})
		returned := err == nil && resp != nil
		verif.Observe("as-host", returned)
		if returned {
			verif.Cover("as-host-key-returned")
			verif.Assert("as-host-key-only-to-named-destination-host-in-local-as", c40All(dstLocal, p.is(dk)))
			verif.Assert("as-host-key-never-for-generic-protocol", !generic)
			m := calls.asHostMeta
			verif.Assert("as-host-key-derived-for-the-request", c40All(calls.asHost == 1, uint64(m.SrcIA) == src,
				uint64(m.DstIA) == dst, m.DstHost == dstHost, uint16(m.ProtoId) == proto))
		} else {
			verif.Cover("as-host-request-refused")
		}
	case 1:
		resp, err := srv.DRKeyHostAS(ctx, &cppb.DRKeyHostASRequest{ValTime: c40ValTime, ProtocolId: protoID,
			SrcIa: src, DstIa: dst, SrcHost: srcHost})
		returned := err == nil && resp != nil
		verif.Observe("host-as", returned)
		if returned {
			verif.Cover("host-as-key-returned")
			verif.Assert("host-as-key-only-to-named-source-host-in-local-as", c40All(srcLocal, p.is(sk)))
			verif.Assert("host-as-key-never-for-generic-protocol", !generic)
			m := calls.hostASMeta
			verif.Assert("host-as-key-derived-for-the-request", c40All(calls.hostAS == 1, uint64(m.SrcIA) == src,
				uint64(m.DstIA) == dst, m.SrcHost == srcHost, uint16(m.ProtoId) == proto))
		} else {
			verif.Cover("host-as-request-refused")
		}
	default:
		resp, err := srv.DRKeyHostHost(ctx, &cppb.DRKeyHostHostRequest{ValTime: c40ValTime, ProtocolId: protoID,
			SrcIa: src, DstIa: dst, SrcHost: srcHost, DstHost: dstHost})
		returned := err == nil && resp != nil
		verif.Observe("host-host", returned)
		if returned {
			verif.Cover("host-host-key-returned")
			verif.Assert("host-host-key-only-to-a-named-host-on-the-local-side",
				c40Or(c40All(srcLocal, p.is(sk)), c40All(dstLocal, p.is(dk))))
			verif.Assert("host-host-key-never-for-generic-protocol", !generic)
			m := calls.hostHostMeta
			verif.Assert("host-host-key-derived-for-the-request", c40All(calls.hostHost == 1, uint64(m.SrcIA) == src,
				uint64(m.DstIA) == dst, m.SrcHost == srcHost, m.DstHost == dstHost, uint16(m.ProtoId) == proto))
		} else {
			verif.Cover("host-host-request-refused")
		}
	}
}

// VerifC40Level2Twin: must be violated - a key *is* handed out for some request.
func VerifC40Level2Twin() {
	local := addr.IA(verif.NondetU64("local"))
	p := c40Peer{ip: verif.NondetBytes("peer", 4)}
	calls := &c40Calls{}
	srv := &Server{LocalIA: local, Engine: c40Engine{calls}}
	resp, err := srv.DRKeyASHost(c40Ctx(p, nil), &cppb.DRKeyASHostRequest{ValTime: c40ValTime,
		ProtocolId: dkpb.Protocol(verif.NondetU32("proto")), SrcIa: verif.NondetU64("src"), DstIa: verif.NondetU64("dst"),
		DstHost: "10.1.2.3"})
	verif.Assert("twin", err != nil || resp == nil)
}

// ---- level 1 keys for remote ASes ------------------------------------------------------------------

type c40Verifier struct {
	ia    addr.IA
	fail  bool
	calls *int
	chain *[]*x509.Certificate
}

func (v c40Verifier) VerifyParsedClientCertificate(chain []*x509.Certificate) (addr.IA, error) {
	*v.calls++
	*v.chain = chain
	if v.fail {
		return 0, drkey.ErrKeyNotFound // any error
	}
	return v.ia, nil
}

type c40OtherAuth struct{}

func (c40OtherAuth) AuthType() string { return "other" }

// VerifC40Level1: a level-1 key is derived only for the AS authenticated by the client certificate.
func VerifC40Level1() {
	local := addr.IA(verif.NondetU64("local"))
	certIA := addr.IA(verif.NondetU64("cert-ia"))
	protoID := dkpb.Protocol(verif.NondetU32("proto"))
	p := c40NewPeer()
	calls := &c40Calls{}
	vcalls := 0
	var seenChain []*x509.Certificate
	fail := verif.Choose("verify-fails", 2) == 1
	srv := &Server{LocalIA: local, Engine: c40Engine{calls},
		ClientCertificateVerifier: c40Verifier{certIA, fail, &vcalls, &seenChain}}
	cert := &x509.Certificate{}
	var auth credentials.AuthInfo
	authKind := verif.Choose("auth", 4)
	switch authKind {
	case 0: // no transport security
	case 1:
		auth = c40OtherAuth{}
	case 2:
		auth = credentials.TLSInfo{State: tls.ConnectionState{}}
	case 3:
		auth = credentials.TLSInfo{State: tls.ConnectionState{PeerCertificates: []*x509.Certificate{cert}}}
	}
	resp, err := srv.DRKeyLevel1(c40Ctx(p, auth), &cppb.DRKeyLevel1Request{ValTime: c40ValTime, ProtocolId: protoID})
	returned := err == nil && resp != nil
	verif.Observe("level1", returned, calls.deriveL1)
	authenticated := authKind == 3 && !fail
	if calls.deriveL1 > 0 || returned {
		verif.Cover("level1-key-derived")
		verif.Assert("level1-key-only-with-verified-client-certificate", c40All(authenticated, vcalls == 1,
			len(seenChain) == 1 && seenChain[0] == cert))
		m := calls.l1Meta
		verif.Assert("level1-key-derived-for-the-certified-as", c40All(calls.deriveL1 == 1, m.DstIA == certIA, m.SrcIA == local))
	} else {
		verif.Cover("level1-request-refused")
	}
	if authenticated {
		verif.Cover("level1-client-authenticated")
	}
}

// ---- secret values and intra-AS level-1 keys ----------------------------------------------------------

// VerifC40Allowed: secret values and intra-AS level-1 keys go only to hosts configured for the
// protocol; level-1 keys only when the local AS is an endpoint.
func VerifC40Allowed() {
	local := addr.IA(verif.NondetU64("local"))
	src, dst := verif.NondetU64("src"), verif.NondetU64("dst")
	protoID := dkpb.Protocol(verif.NondetU32("proto"))
	proto := uint16(protoID)
	p := c40NewPeer()

	// allowed set: one IPv4 and one IPv6 host, each for one protocol
	a4 := verif.NondetBytes("allowed4", 4)
	a6 := verif.NondetBytes("allowed6", 16)
	p4, p6 := verif.NondetU16("allowed4.proto"), verif.NondetU16("allowed6.proto")
	pre := true
	for i := 0; i < 10; i++ {
		pre = pre && a6[i] == 0
	}
	// a configured IPv6 address is a true IPv6 address (an IPv4 host is configured in IPv4 form)
	verif.Assume(!c40All(pre, a6[10] == 0xff, a6[11] == 0xff))
	var arr4 [4]byte
	var arr6 [16]byte
	copy(arr4[:], a4)
	copy(arr6[:], a6)
	allowed := map[config.HostProto]struct{}{}
	allowed[config.HostProto{Host: netip.AddrFrom4(arr4), Proto: drkey.Protocol(p4)}] = struct{}{}
	allowed[config.HostProto{Host: netip.AddrFrom16(arr6), Proto: drkey.Protocol(p6)}] = struct{}{}
	configured := c40Or(c40All(p.isV4(a4), proto == p4), c40All(p.isV6(a6), proto == p6))

	calls := &c40Calls{}
	srv := &Server{LocalIA: local, Engine: c40Engine{calls}, AllowedSVHostProto: allowed}
	ctx := c40Ctx(p, nil)
	if verif.Choose("rpc", 2) == 0 {
		resp, err := srv.DRKeySecretValue(ctx, &cppb.DRKeySecretValueRequest{ValTime: c40ValTime, ProtocolId: protoID})
		returned := err == nil && resp != nil
		verif.Observe("sv", returned)
		if returned {
			verif.Cover("secret-value-returned")
			verif.Assert("secret-value-only-to-host-configured-for-the-protocol", configured)
			verif.Assert("secret-value-for-the-requested-protocol", c40All(calls.sv == 1, uint16(calls.svMeta.ProtoId) == proto))
		} else {
			verif.Cover("secret-value-refused")
		}
		return
	}
	resp, err := srv.DRKeyIntraLevel1(ctx, &cppb.DRKeyIntraLevel1Request{ValTime: c40ValTime, ProtocolId: protoID, SrcIa: src, DstIa: dst})
	returned := err == nil && resp != nil
	verif.Observe("intra-level1", returned)
	if returned {
		verif.Cover("intra-level1-key-returned")
		verif.Assert("intra-level1-key-only-to-host-configured-for-the-protocol", configured)
		verif.Assert("intra-level1-key-only-when-local-as-is-an-endpoint", c40Or(addr.IA(src) == local, addr.IA(dst) == local))
		m := calls.l1Meta
		verif.Assert("intra-level1-key-for-the-request", c40All(calls.getL1 == 1, uint64(m.SrcIA) == src, uint64(m.DstIA) == dst,
			uint16(m.ProtoId) == proto))
	} else {
		verif.Cover("intra-level1-refused")
	}
}
