package slayers

import (
	"github.com/gopacket/gopacket"

	"github.com/scionproto/scion/pkg/addr"
	"github.com/scionproto/scion/zz_verif/verif"
)

// ---- reference (scion-header.rst "Pseudo Header for Upper-Layer Checksum", scmp.rst "Checksum
// Calculation", RFC 1071) ---------------------------------------------------------------------------

// c20Pseudo lays out the pseudo header: DstIA(8) SrcIA(8) DstHost SrcHost Len(4) zero(3) NextHdr(1).
func c20Pseudo(dstIA, srcIA uint64, dst, src []byte, length uint32, proto uint8) []byte {
	p := make([]byte, 0, 24+len(dst)+len(src))
	for i := 7; i >= 0; i-- {
		p = append(p, uint8(dstIA>>(8*uint(i))))
	}
	for i := 7; i >= 0; i-- {
		p = append(p, uint8(srcIA>>(8*uint(i))))
	}
	p = append(p, dst...)
	p = append(p, src...)
	p = append(p, uint8(length>>24), uint8(length>>16), uint8(length>>8), uint8(length))
	p = append(p, 0, 0, 0, proto)
	return p
}

// c20Sum is the 16-bit one's-complement sum of the big-endian 16-bit words of the pseudo header
// followed by the upper-layer bytes (an odd trailing byte is padded with a zero byte). The words are
// added in a 64-bit accumulator (cannot overflow for any length considered) and the carries are
// folded back at the end (RFC 1071 section 2(C): deferred carries).
func c20Sum(pseudo, upper []byte) uint16 {
	return c20Fold(c20Acc(pseudo, upper))
}

// c20Acc is the plain (unfolded) sum of the 16-bit words, word = 256*first byte + second byte.
func c20Acc(pseudo, upper []byte) uint64 {
	var acc uint64
	for i := 0; i+1 < len(pseudo); i += 2 {
		acc += 256*uint64(pseudo[i]) + uint64(pseudo[i+1])
	}
	for i := 0; i+1 < len(upper); i += 2 {
		acc += 256*uint64(upper[i]) + uint64(upper[i+1])
	}
	if len(upper)%2 == 1 {
		acc += 256 * uint64(upper[len(upper)-1])
	}
	return acc
}

// c20Fold adds the carries back in (end-around carry) until the value fits in 16 bits. The
// accumulators handled here are below 2^48, so three rounds always suffice; a fourth is harmless.
func c20Fold(acc uint64) uint16 {
	acc = (acc & 0xffff) + (acc >> 16)
	acc = (acc & 0xffff) + (acc >> 16)
	acc = (acc & 0xffff) + (acc >> 16)
	acc = (acc & 0xffff) + (acc >> 16)
	return uint16(acc)
}

// ---- symbolic SCION address header --------------------------------------------------------------

var c20AddrLens = [4]int{4, 16, 8, 12}

// c20Scion returns a SCION layer whose address header is symbolic; the host address lengths are
// enumerated (Choose) among the first Param("alens") entries of {4,16,8,12}.
func c20Scion() *SCION {
	k := verif.Param("alens")
	dl := c20AddrLens[verif.Choose("dstlen", k)]
	sl := c20AddrLens[verif.Choose("srclen", k)]
	s := &SCION{}
	s.DstIA = addr.IA(verif.NondetU64("dstIA"))
	s.SrcIA = addr.IA(verif.NondetU64("srcIA"))
	s.RawDstAddr = verif.NondetBytes("dst", dl)
	s.RawSrcAddr = verif.NondetBytes("src", sl)
	// type nibble: length code from the length, sub-type free
	s.DstAddrType = AddrType(verif.NondetU8("dstT")&3<<2 | uint8(dl/4-1))
	s.SrcAddrType = AddrType(verif.NondetU8("srcT")&3<<2 | uint8(sl/4-1))
	return s
}

func c20RefPseudo(s *SCION, length int, proto uint8) []byte {
	return c20Pseudo(uint64(s.DstIA), uint64(s.SrcIA), s.RawDstAddr, s.RawSrcAddr, uint32(length), proto)
}

// c20Serialize serialises the L4 header selected by Param("proto") (0 = UDP, 1 = SCMP) followed by
// n symbolic payload bytes through the real SerializeTo code with ComputeChecksums, and returns the
// upper-layer bytes and the protocol number of the pseudo header.
func c20Serialize(s *SCION, payload []byte) (ul []byte, proto uint8, hdr int) {
	n := len(payload)
	buf := gopacket.NewSerializeBuffer()
	opts := gopacket.SerializeOptions{FixLengths: true, ComputeChecksums: true}
	var err error
	if verif.Param("proto") == 0 {
		u := &UDP{SrcPort: verif.NondetU16("sport"), DstPort: verif.NondetU16("dport")}
		u.SetNetworkLayerForChecksum(s)
		err = gopacket.SerializeLayers(buf, opts, u, gopacket.Payload(payload))
		proto, hdr = 17, 8
		verif.Cover("udp")
	} else {
		m := &SCMP{TypeCode: CreateSCMPTypeCode(SCMPType(verif.NondetU8("type")), SCMPCode(verif.NondetU8("code")))}
		m.SetNetworkLayerForChecksum(s)
		err = gopacket.SerializeLayers(buf, opts, m, gopacket.Payload(payload))
		proto, hdr = 202, 4
		verif.Cover("scmp")
	}
	verif.Assert("serialize-ok", err == nil)
	if err != nil {
		return nil, 0, 0
	}
	ul = buf.Bytes()
	verif.Assert("upper-layer-length", len(ul) == hdr+n)
	return ul, proto, hdr
}

// VerifC20Sum: for every upper-layer length 0..Param("maxlen") (payload bytes after the L4 header),
// odd included, the checksum written by UDP/SCMP SerializeTo makes the one's-complement sum over
// pseudo header and upper-layer bytes 0xFFFF.
func VerifC20Sum() {
	s := c20Scion()
	n := verif.Param("minlen") + verif.Choose("paylen", verif.Param("maxlen")-verif.Param("minlen")+1)
	ul, proto, _ := c20Serialize(s, verif.NondetBytes("pl", n))
	if ul == nil {
		return
	}
	if len(ul)%2 == 1 {
		verif.Cover("odd-length")
	} else {
		verif.Cover("even-length")
	}
	ps := c20RefPseudo(s, len(ul), proto)
	sum := c20Sum(ps, ul)
	verif.Observe("ul", ul)
	verif.Observe("sum", sum)
	verif.Assert("sum-over-pseudo-header-and-upper-layer-is-ffff", sum == 0xffff)
}

// VerifC20SumVacuity: must-fail twin (the sum is not constant, e.g. not always 0).
func VerifC20SumVacuity() {
	s := c20Scion()
	n := verif.Param("minlen") + verif.Choose("paylen", verif.Param("maxlen")-verif.Param("minlen")+1)
	ul, proto, _ := c20Serialize(s, verif.NondetBytes("pl", n))
	if ul == nil {
		return
	}
	ps := c20RefPseudo(s, len(ul), proto)
	ul[len(ul)-1] ^= 1
	verif.Assert("twin", c20Sum(ps, ul) == 0xffff)
}

// c20Proto returns pseudo-header protocol number and L4 header length for Param("proto").
func c20Proto() (uint8, int) {
	if verif.Param("proto") == 0 {
		return 17, 8
	}
	return 202, 4
}

// VerifC20Flip: after serialisation, flipping any single bit of the covered data (ISD-ASes, host
// addresses, upper-layer length, upper-layer bytes including the checksum field) makes the sum
// differ from 0xFFFF. The byte position is enumerated (Choose), the bit within the byte and all
// data are symbolic.
func VerifC20Flip() {
	s := c20Scion()
	n := verif.Param("minlen") + verif.Choose("paylen", verif.Param("maxlen")-verif.Param("minlen")+1)
	payload := verif.NondetBytes("pl", n)
	proto, hdr := c20Proto()
	ps := c20RefPseudo(s, hdr+n, proto)
	np := len(ps) - 4 // the zero/next-header line is not in the listed data
	j := verif.Choose("pos", np+hdr+n)
	m := verif.NondetU8("bit")
	verif.Assume(m != 0 && m&(m-1) == 0)

	// Performance device only (no influence on what is asserted): the words of all other bytes
	// are summed once before the code under test runs. The engine keeps sums in a normal form
	// ordered by term creation, so the byte under consideration ends up as the last addend of
	// the sums below and the flipped sum differs from the original in its last addends only.
	psw := append([]byte(nil), ps...)
	plw := append([]byte(nil), payload...)
	if j < np {
		psw[j] = 0
	} else if j >= np+hdr {
		plw[j-np-hdr] = 0
	}
	verif.Observe("rest", c20Acc(psw, plw))

	ul, _, _ := c20Serialize(s, payload)
	if ul == nil {
		return
	}
	ps2 := append([]byte(nil), ps...)
	ul2 := append([]byte(nil), ul...)
	if j < np {
		ps2[j] ^= m
	} else {
		ul2[j-np] ^= m
	}
	sum2 := c20Sum(ps2, ul2)
	verif.Observe("sum2", sum2)
	switch {
	case j < 16:
		verif.Cover("flip-isd-as")
	case j < np-4:
		verif.Cover("flip-host")
	case j < np:
		verif.Cover("flip-length")
	case j < np+hdr:
		verif.Cover("flip-l4-header")
	default:
		verif.Cover("flip-payload")
	}
	verif.Assert("single-bit-flip-changes-sum", sum2 != 0xffff)
}

// VerifC20FlipVacuity: must-fail twin: flipping two bits (of different words) can go unnoticed.
func VerifC20FlipVacuity() {
	s := c20Scion()
	payload := verif.NondetBytes("pl", 4)
	ul, proto, hdr := c20Serialize(s, payload)
	if ul == nil {
		return
	}
	ps := c20RefPseudo(s, len(ul), proto)
	ul[hdr] ^= 0x10
	ul[hdr+2] ^= 0x10
	verif.Assert("twin", c20Sum(ps, ul) != 0xffff)
}

// c20MaxAcc bounds every partial sum met while summing a 9000-byte upper layer with the largest
// pseudo header: (9000+16+32+4+4)/2 words of at most 0xFFFF each.
const c20MaxAcc = 4528 * 0xffff

// VerifC20FoldLemma: the real foldChecksum on an arbitrary 32-bit accumulator S within the bound:
// the returned checksum c makes S + c fold to 0xFFFF (c is one of the summed words when the
// receiver verifies), and changing any one word by +-2^k (a single-bit flip) changes the folded
// total. Together with VerifC20Step this carries both clauses to every length up to 9000 bytes.
func VerifC20FoldLemma() {
	S := verif.NondetU32("S")
	verif.Assume(S <= c20MaxAcc)
	var s SCION
	c := s.foldChecksum(S)
	verif.Observe("c", c)
	T := uint64(S) + uint64(c)
	verif.Assert("sum-plus-checksum-folds-to-ffff", c20Fold(T) == 0xffff)
	k := verif.NondetU8("k")
	verif.Assume(k < 16)
	d := uint64(1) << k
	verif.Assert("bit-set-changes-folded-sum", c20Fold(T+d) != 0xffff)
	verif.Assume(T >= d) // a cleared bit was part of the sum
	verif.Assert("bit-cleared-changes-folded-sum", c20Fold(T-d) != 0xffff)
	verif.Cover("fold-lemma")
}

// VerifC20FoldLemmaVacuity: must-fail twin: a flip of weight 0xFFFF (not a single bit) is invisible.
func VerifC20FoldLemmaVacuity() {
	S := verif.NondetU32("S")
	verif.Assume(S <= c20MaxAcc)
	var s SCION
	c := s.foldChecksum(S)
	verif.Assert("twin", c20Fold(uint64(S)+uint64(c)+0xffff) != 0xffff)
}

// VerifC20Step: the summation loop is uniform: for an arbitrary accumulator c0 within the bound and
// n <= 5 symbolic bytes, upperLayerChecksum adds exactly the big-endian words (odd tail padded
// with zero) without 32-bit overflow, and summing a prefix of even length first gives the same
// result as summing the whole.
func VerifC20Step() {
	c0 := verif.NondetU32("c0")
	verif.Assume(c0 <= c20MaxAcc)
	n := verif.Choose("n", 6)
	u := verif.NondetBytes("u", n)
	var s SCION
	got := s.upperLayerChecksum(u, c0)
	want := uint64(c0) + c20Acc(nil, u)
	verif.Observe("got", got)
	verif.Assert("step-adds-words-without-overflow", uint64(got) == want)
	if n >= 2 {
		verif.Assert("even-prefix-then-rest", s.upperLayerChecksum(u[2:], s.upperLayerChecksum(u[:2], c0)) == got)
		verif.Cover("step-split")
	}
	if n%2 == 1 {
		verif.Cover("step-odd")
	}
}
