//go:build verif || !verif

package trust

// C35 — the trust store only advances along verified TRC successions.
//
// Real code: FetchingProvider.NotifyTRC, SignedTRC.Verify / verifyUpdate, TRC.ValidateUpdate (ID succession,
// votes, classifyCerts / ValidateCert on struct-literal certificates).
// Stubs (harness level): DB, Fetcher, Recurser, Router; call-site stubs: verifyAll (signatures, ideal),
// TRC.Validate inside ValidateUpdate (payload rules, property C33).

import (
	"context"
	"crypto/x509"
	"encoding/asn1"
	"errors"
	"math/big"
	"net"

	"github.com/scionproto/scion/pkg/addr"
	"github.com/scionproto/scion/pkg/scrypto"
	"github.com/scionproto/scion/pkg/scrypto/cppki"
	"github.com/scionproto/scion/zz_verif/verif"
)

const c35MaxTags = 8

const (
	c35FetchOK = iota
	c35FetchFail
	c35InsertOK
	c35InsertFail
)

type c35Event struct {
	kind int
	id   cppki.TRCID // requested id (fetch) / id of the TRC handed to InsertTRC
	tag  int         // which fetched TRC (fetch ok, insert)
	got  cppki.TRCID // fetch ok: the ID of the TRC the remote answered with
}

type c35Env struct {
	isd0      addr.ISD
	hasTRC    bool
	latest    cppki.SignedTRC
	stored    []cppki.SignedTRC
	events    []c35Event
	nFetched  int
	maxFetch  int
	payloadOK [c35MaxTags]bool
	votesOK   [c35MaxTags]bool
	sigFailed [c35MaxTags]bool
	recursed  bool
	routed    bool
}

var (
	errC35DB      = errors.New("verif: db failure")
	errC35Fetch   = errors.New("verif: fetch failure")
	errC35Payload = errors.New("verif: payload invalid")
	errC35Sig     = errors.New("verif: signature missing")
	errC35Recurse = errors.New("verif: recursion denied")
	errC35Route   = errors.New("verif: no route")
)

// c35SensCert is a struct-literal sensitive voting certificate that passes the real ValidateCert.
func c35SensCert() *x509.Certificate {
	return &x509.Certificate{
		Version:            3,
		SerialNumber:       new(big.Int),
		SignatureAlgorithm: x509.ECDSAWithSHA256,
		SubjectKeyId:       []byte{1},
		ExtKeyUsage:        []x509.ExtKeyUsage{x509.ExtKeyUsageTimeStamping},
		UnknownExtKeyUsage: []asn1.ObjectIdentifier{cppki.OIDExtKeyUsageSensitive},
	}
}

func c35TRC(tag int, id cppki.TRCID, voter *x509.Certificate) cppki.SignedTRC {
	return cppki.SignedTRC{
		Raw: []byte{byte(tag)},
		TRC: cppki.TRC{
			Raw:          []byte{byte(tag)},
			Version:      1,
			ID:           id,
			Votes:        []int{0},
			Quorum:       1,
			Certificates: []*x509.Certificate{voter},
		},
	}
}

func c35Newer(a, b cppki.TRCID) bool {
	// ORDER BY base DESC, serial DESC (private/storage/trust/sqlite)
	return a.Base > b.Base || (a.Base == b.Base && a.Serial > b.Serial)
}

type c35DB struct{ env *c35Env }

func (d c35DB) Chains(context.Context, ChainQuery) ([][]*x509.Certificate, error) {
	panic("not used")
}

func (d c35DB) InsertChain(context.Context, []*x509.Certificate) (bool, error) {
	panic("not used")
}

func (d c35DB) SignedTRC(_ context.Context, id cppki.TRCID) (cppki.SignedTRC, error) {
	e := d.env
	if verif.NondetBool("db.read-fails") {
		return cppki.SignedTRC{}, errC35DB
	}
	if !e.hasTRC || id.ISD != e.isd0 {
		return cppki.SignedTRC{}, nil
	}
	if id.Base.IsLatest() && id.Serial.IsLatest() {
		return e.latest, nil
	}
	for _, t := range e.stored {
		if t.TRC.ID == id {
			return t, nil
		}
	}
	return cppki.SignedTRC{}, nil
}

func (d c35DB) InsertTRC(_ context.Context, trc cppki.SignedTRC) (bool, error) {
	e := d.env
	tag := int(trc.Raw[0])
	if verif.NondetBool("db.insert-fails") {
		e.events = append(e.events, c35Event{kind: c35InsertFail, id: trc.TRC.ID, tag: tag})
		return false, errC35DB
	}
	e.events = append(e.events, c35Event{kind: c35InsertOK, id: trc.TRC.ID, tag: tag})
	e.stored = append(e.stored, trc)
	if trc.TRC.ID.ISD == e.isd0 && (!e.hasTRC || c35Newer(trc.TRC.ID, e.latest.TRC.ID)) {
		e.latest = trc
		e.hasTRC = true
	}
	return true, nil
}

type c35Fetcher struct{ env *c35Env }

func (f c35Fetcher) Chains(context.Context, ChainQuery, net.Addr) ([][]*x509.Certificate, error) {
	panic("not used")
}

// TRC answers with a failure or with a TRC whose ID is whatever the remote chooses to send.
func (f c35Fetcher) TRC(_ context.Context, id cppki.TRCID, _ net.Addr) (cppki.SignedTRC, error) {
	e := f.env
	if e.nFetched >= e.maxFetch || verif.NondetBool("fetch.fails") {
		e.events = append(e.events, c35Event{kind: c35FetchFail, id: id})
		return cppki.SignedTRC{}, errC35Fetch
	}
	tag := e.nFetched
	e.nFetched++
	got := cppki.TRCID{
		ISD:    addr.ISD(verif.NondetU16("fetched.isd")),
		Base:   scrypto.Version(verif.NondetU64("fetched.base")),
		Serial: scrypto.Version(verif.NondetU64("fetched.serial")),
	}
	e.events = append(e.events, c35Event{kind: c35FetchOK, id: id, tag: tag, got: got})
	e.payloadOK[tag] = verif.NondetBool("fetched.payload-valid")
	return c35TRC(tag, got, e.latest.TRC.Certificates[0]), nil
}

type c35Recurser struct{ env *c35Env }

func (r c35Recurser) AllowRecursion(net.Addr) error {
	r.env.recursed = true
	if verif.NondetBool("recursion.denied") {
		return errC35Recurse
	}
	return nil
}

type c35Router struct{ env *c35Env }

func (r c35Router) ChooseServer(context.Context, addr.ISD) (net.Addr, error) {
	r.env.routed = true
	if verif.NondetBool("route.fails") {
		return nil, errC35Route
	}
	return &net.TCPAddr{}, nil
}

func c35Setup(maxFetch int) (*c35Env, FetchingProvider) {
	e := &c35Env{maxFetch: maxFetch}
	cppki.VerifHookValidatePayload = func(trc *cppki.TRC) error {
		// contract of TRC.Validate: the real ID rules (ISD != 0, 1 <= base <= serial) and the rest of the
		// payload rules (property C33) as one symbolic outcome per fetched TRC
		if err := trc.ID.Validate(); err != nil {
			e.payloadOK[int(trc.Raw[0])] = false
			return err
		}
		if !e.payloadOK[int(trc.Raw[0])] {
			return errC35Payload
		}
		return nil
	}
	// ideal signatures: an empty certificate set needs no signature; otherwise the remote either
	// supplied all of them or not (one symbolic outcome per call).
	cppki.VerifHookVerifyAll = func(s *cppki.SignedTRC, certs []*x509.Certificate) error {
		if len(certs) == 0 {
			return nil
		}
		tag := int(s.Raw[0])
		if !verif.NondetBool("fetched.signed-by-all") {
			e.sigFailed[tag] = true
			return errC35Sig
		}
		// the votes are cast with the predecessor's certificate 0
		if len(certs) == 1 && certs[0] == e.latest.TRC.Certificates[0] {
			e.votesOK[tag] = true
		}
		return nil
	}
	e.isd0 = addr.ISD(verif.NondetU16("db.isd"))
	e.hasTRC = verif.NondetBool("db.has-trc")
	p := FetchingProvider{DB: c35DB{e}, Fetcher: c35Fetcher{e}, Recurser: c35Recurser{e}, Router: c35Router{e}}
	return e, p
}

// VerifC35Notify: one notification against an arbitrary stored latest TRC, with failures and
// arbitrary remote answers at every step.
func VerifC35Notify() {
	e, p := c35Setup(verif.Param("maxfetch"))
	base := scrypto.Version(verif.NondetU64("db.base"))
	serial := scrypto.Version(verif.NondetU64("db.serial"))
	// stored TRCs have valid IDs (they were validated when they entered the store)
	verif.Assume(e.isd0 != 0 && base >= 1 && serial >= base)
	voter := c35SensCert()
	if e.hasTRC {
		e.latest = c35TRC(c35MaxTags-1, cppki.TRCID{ISD: e.isd0, Base: base, Serial: serial}, voter)
		e.stored = append(e.stored, e.latest)
	}
	id := cppki.TRCID{
		ISD:    addr.ISD(verif.NondetU16("notify.isd")),
		Base:   scrypto.Version(verif.NondetU64("notify.base")),
		Serial: scrypto.Version(verif.NondetU64("notify.serial")),
	}

	err := p.NotifyTRC(context.Background(), id)
	verif.Observe("notify", err == nil, len(e.events))

	known := e.hasTRC && id.ISD == e.isd0
	n := len(e.events)
	if !known {
		// nothing known about this ISD (or the DB failed): nothing may be accepted "this way"
		verif.Assert("unknown-isd-nothing-stored", n == 0)
		return
	}
	if id.Base != base {
		verif.Cover("other-base")
		verif.Assert("other-base-never-accepted", n == 0 && err != nil)
		return
	}
	if id.Serial <= serial {
		verif.Cover("stale-or-current")
		verif.Assert("stale-or-current-nothing-fetched", n == 0)
		return
	}

	// walk the log: fetch(S+1) insert(S+1) fetch(S+2) insert(S+2) ... ; any failure is the last event
	next := serial + 1
	inserted := 0
	stopped := false
	for i := 0; i < n; i++ {
		ev := e.events[i]
		verif.Assert("stops-at-first-failure", !stopped)
		switch ev.kind {
		case c35FetchOK, c35FetchFail:
			verif.Assert("fetch-only-after-previous-step-stored", i == 0 || e.events[i-1].kind == c35InsertOK)
			verif.Assert("fetches-next-missing-serial-in-order",
				ev.id == cppki.TRCID{ISD: e.isd0, Base: base, Serial: next})
			verif.Assert("fetches-only-missing", next <= id.Serial)
			if ev.kind == c35FetchFail {
				stopped = true
			} else if i+1 >= n || e.events[i+1].kind == c35FetchOK || e.events[i+1].kind == c35FetchFail {
				// fetched but not handed to the DB: the update was rejected; that must end the run, and
				// only a TRC that cannot be verified as successor of the previous latest may be rejected
				stopped = true
				idOK := ev.got == cppki.TRCID{ISD: e.isd0, Base: base, Serial: next}
				verifiable := idOK && e.payloadOK[ev.tag] && !e.sigFailed[ev.tag]
				verif.Assert("rejects-only-what-cannot-be-verified", !verifiable)
			}
		case c35InsertOK, c35InsertFail:
			verif.Assert("insert-follows-its-fetch", i > 0 && e.events[i-1].kind == c35FetchOK && e.events[i-1].tag == ev.tag)
			verif.Assert("stored-is-successor-of-previous-latest",
				ev.id == cppki.TRCID{ISD: e.isd0, Base: base, Serial: next})
			verif.Assert("stored-was-verified", e.payloadOK[ev.tag] && e.votesOK[ev.tag] && !e.sigFailed[ev.tag])
			if ev.kind == c35InsertFail {
				stopped = true
			} else {
				inserted++
				next++
			}
		}
	}
	if inserted >= 2 {
		verif.Cover("multi-step")
	}
	if stopped && inserted >= 1 {
		verif.Cover("failure-in-the-middle")
	}
	// the latest stored TRC never regresses and advances exactly by what was stored
	verif.Assert("latest-advances-by-stored", e.latest.TRC.ID == cppki.TRCID{ISD: e.isd0, Base: base, Serial: serial + scrypto.Version(inserted)})
	if err == nil {
		verif.Cover("caught-up")
		verif.Assert("all-missing-stored", e.latest.TRC.ID.Serial == id.Serial)
	}
	verif.Observe("end", inserted, stopped)
}

// VerifC35NotifyTwin is the reachability twin: a store advance by two TRCs is possible.
func VerifC35NotifyTwin() {
	e, p := c35Setup(3)
	verif.Assume(e.isd0 == 1 && e.hasTRC)
	e.latest = c35TRC(c35MaxTags-1, cppki.TRCID{ISD: 1, Base: 1, Serial: 5}, c35SensCert())
	e.stored = append(e.stored, e.latest)
	err := p.NotifyTRC(context.Background(), cppki.TRCID{ISD: 1, Base: 1, Serial: 7})
	verif.Assert("twin", err != nil || e.latest.TRC.ID.Serial != 7)
}
