// Package pem replaces encoding/pem in private/trust/store.go for check C35 (import swapped by the
// spec's src_rewrite): the TRC files of the harness are never PEM-armoured.
package pem

import (
	real "encoding/pem"
)

type Block = real.Block

func Decode(data []byte) (*Block, []byte) { return nil, data }
