//go:build verif || !verif

package trust

// C36 — signers are backed by a currently verifiable chain and expire in time (partial).
//
// Real code: SignerGen.Generate / bestForKey / bestChain / minTime, activeTRCs, cppki.VerifyChain
// (ValidateChain, RootPool), TRC.InGracePeriod / GracePeriodEnd, Signer.Sign (up to validate) / validate.
// Stubs: key ring, DB, abstract keys (SubjectKeyID and SelectSignatureAlgorithm answered by the harness),
// ideal X.509 path building.

import (
	"bytes"
	"context"
	"crypto"
	"crypto/x509"
	"errors"
	"io"
	"time"

	"github.com/scionproto/scion/pkg/addr"
	"github.com/scionproto/scion/pkg/scrypto/cppki"
	realsigned "github.com/scionproto/scion/pkg/scrypto/signed"
	c36signed "github.com/scionproto/scion/zz_verif/c36signed"
	"github.com/scionproto/scion/zz_verif/verif"
)

type c36Pub struct{ tag byte }

type c36Key struct {
	tag byte
	bad bool // the subject key id cannot be computed for this key
}

func (k *c36Key) Public() crypto.PublicKey { return c36Pub{k.tag} }
func (k *c36Key) Sign(io.Reader, []byte, crypto.SignerOpts) ([]byte, error) {
	panic("not used")
}

var c36Keys []*c36Key

var errC36Key = errors.New("verif: key failure")

// verifSubjectKeyID replaces cppki.SubjectKeyID (SHA-1 over the marshalled curve point) in signer_gen.go.
func verifSubjectKeyID(pub crypto.PublicKey) ([]byte, error) {
	p := pub.(c36Pub)
	for _, k := range c36Keys {
		if k.tag == p.tag && k.bad {
			return nil, errC36Key
		}
	}
	return []byte{p.tag}, nil
}

type c36Ring struct{ keys []crypto.Signer }

func (r c36Ring) PrivateKeys(context.Context) ([]crypto.Signer, error) {
	if verif.NondetBool("keyring.fails") {
		return nil, errC36Key
	}
	return r.keys, nil
}

func c36MinTime(a, b time.Time) time.Time {
	if b.Before(a) {
		return b
	}
	return a
}

// VerifC36Generate: key ring of `keys` keys with `chains` chains each (symbolic expiry), symbolic
// verification relation against latest / predecessor TRC, symbolic TRC timeline and clock.
func VerifC36Generate() {
	x := vInstallX509()
	nKeys, nChains, grace := verif.Param("keys"), verif.Param("chains"), verif.Param("grace")
	db := &vDB{isd: 1, failReads: verif.Param("dbfail") != 0}
	latest, pred, rootL, rootP := c34Timeline(db, grace)
	ia := addr.MustParseIA(vIA)

	c36signed.VerifSelect = func(crypto.PublicKey) (realsigned.SignatureAlgorithm, error) {
		return realsigned.ECDSAWithSHA256, nil
	}
	c36Keys = nil
	var ring c36Ring
	chains := make([][][]*x509.Certificate, nKeys)
	for i := 0; i < nKeys; i++ {
		k := &c36Key{tag: byte(i + 1), bad: verif.NondetBool("key.unusable")}
		c36Keys = append(c36Keys, k)
		ring.keys = append(ring.keys, k)
		for j := 0; j < nChains; j++ {
			tag := byte(16*(i+1) + j)
			as := vASCert(tag, vTime(0), vTime(verif.NondetU32("chain.not-after")))
			as.SubjectKeyId = []byte{k.tag}
			chains[i] = append(chains[i], []*x509.Certificate{as, vCACert(tag+0x80, vTime(0), vTime(0xffffffff))})
		}
	}
	var badQuery bool
	db.chainsFor = func(q ChainQuery) [][]*x509.Certificate {
		if q.IA != ia || len(q.SubjectKeyID) != 1 || int(q.SubjectKeyID[0]) < 1 || int(q.SubjectKeyID[0]) > nKeys {
			badQuery = true
			return nil
		}
		return chains[int(q.SubjectKeyID[0])-1]
	}
	gen := SignerGen{IA: ia, KeyRing: ring, DB: db}

	t0 := verif.Now()
	signers, err := gen.Generate(context.Background())
	t1 := verif.Now()
	// bound: the clock does not advance during one Generate call (every clock read equals t0)
	verif.Assume(t1.Equal(t0))
	verif.Observe("generate", err == nil, len(signers))
	if err != nil {
		verif.Assert("no-signers-on-error", len(signers) == 0)
		return
	}
	verif.Cover("generated")
	verif.Assert("chains-looked-up-for-own-isd-as-and-key", !badQuery)

	now := t0
	v := latest.TRC.Validity
	active := !now.Before(v.NotBefore) && !now.After(v.NotAfter)
	graceEnd := v.NotBefore.Add(time.Duration(grace) * time.Second)
	isUpdate := latest.TRC.ID.Serial != latest.TRC.ID.Base
	inGrace := isUpdate && !now.Before(v.NotBefore) && !now.After(graceEnd)
	verif.Assert("generated-only-while-latest-trc-valid", active)
	verif.Assert("grace-period-needs-stored-predecessor", !inGrace || pred != nil)

	used := 0
	for i := 0; i < nKeys; i++ {
		var s *Signer
		for si := range signers {
			if signers[si].PrivateKey == crypto.Signer(c36Keys[i]) {
				verif.Assert("one-signer-per-key", s == nil)
				s = &signers[si]
			}
		}
		if s == nil {
			continue
		}
		used++
		verif.Assert("key-usable", !c36Keys[i].bad)
		anyActive := false
		for j := range chains[i] {
			a := x.verifies(chains[i][j][0], rootL)
			anyActive = anyActive || a
		}
		useGrace := !anyActive && inGrace
		sel := -1
		for j := range chains[i] {
			if len(s.Chain) == 2 && s.Chain[0] == chains[i][j][0] && s.Chain[1] == chains[i][j][1] {
				sel = j
			}
		}
		verif.Assert("signer-chain-authenticates-the-key", sel >= 0 && bytes.Equal(s.Chain[0].SubjectKeyId, []byte{c36Keys[i].tag}))
		if sel < 0 {
			continue
		}
		eligible := func(j int) bool {
			if useGrace {
				return x.verifies(chains[i][j][0], rootP)
			}
			return x.verifies(chains[i][j][0], rootL)
		}
		if useGrace {
			verif.Cover("signer-from-grace-period")
			verif.Assert("signer-chain-verifies-against-predecessor-in-grace-only-if-none-active", eligible(sel))
		} else {
			verif.Assert("signer-chain-verifies-against-active-trc", eligible(sel))
		}
		selNA := chains[i][sel][0].NotAfter
		for j := range chains[i] {
			later := chains[i][j][0].NotAfter.After(selNA)
			verif.Assert("signer-chain-is-latest-expiring", !eligible(j) || !later)
		}
		want := c36MinTime(selNA, v.NotAfter)
		if useGrace {
			// expiry = earliest of chain expiry, latest TRC validity, grace-period end, predecessor validity;
			// stated as two clauses: "one of the four bounds and not after chain / grace end / predecessor"
			// and "not after the latest TRC's validity"
			exp, predNA := s.Expiration, pred.TRC.Validity.NotAfter
			e1, e2, e3, e4 := exp.Equal(selNA), exp.Equal(graceEnd), exp.Equal(predNA), exp.Equal(v.NotAfter)
			isBound := e1 || e2 || e3 || e4
			l1, l2, l3 := !exp.After(selNA), !exp.After(graceEnd), !exp.After(predNA)
			capped := l1 && l2 && l3
			verif.Assert("signer-expiry-in-grace-is-a-bound-not-after-chain-grace-end-predecessor", isBound && capped)
			verif.Assert("signer-expiry-in-grace-not-after-latest-trc-validity", !exp.After(v.NotAfter))
		} else {
			verif.Assert("signer-expiry-is-earliest-of-chain-and-trc-validity", s.Expiration.Equal(want))
		}
		verif.Assert("signer-bound-to-isd-as-and-latest-trc", s.IA == ia && s.TRCID == latest.TRC.ID &&
			bytes.Equal(s.SubjectKeyID, []byte{c36Keys[i].tag}))
		verif.Observe("signer", i, sel, s.InGrace)
	}
	verif.Assert("every-signer-belongs-to-a-ring-key", used == len(signers))
}

// VerifC36GenerateTwin: reachability twin — a signer can come out of the grace period.
func VerifC36GenerateTwin() {
	vInstallX509()
	db := &vDB{isd: 1}
	c34Timeline(db, 3600)
	ia := addr.MustParseIA(vIA)
	c36signed.VerifSelect = func(crypto.PublicKey) (realsigned.SignatureAlgorithm, error) {
		return realsigned.ECDSAWithSHA256, nil
	}
	k := &c36Key{tag: 1}
	c36Keys = []*c36Key{k}
	as := vASCert(0x10, vTime(0), vTime(0xffffffff))
	as.SubjectKeyId = []byte{1}
	db.chains = [][]*x509.Certificate{{as, vCACert(0x90, vTime(0), vTime(0xffffffff))}}
	gen := SignerGen{IA: ia, KeyRing: c36Ring{keys: []crypto.Signer{k}}, DB: db}
	signers, err := gen.Generate(context.Background())
	verif.Assert("twin", err != nil || len(signers) != 1 || !signers[0].InGrace)
}

// VerifC36Expired: signing fails once the signer has expired.
func VerifC36Expired() {
	exp := vTime(verif.NondetU32("signer.expiration"))
	s := Signer{
		PrivateKey: &c36Key{tag: 1}, Algorithm: realsigned.ECDSAWithSHA256, IA: addr.MustParseIA(vIA),
		SubjectKeyID: []byte{1}, Expiration: exp, TRCID: cppki.TRCID{ISD: 1, Base: 1, Serial: 1},
	}
	// the validity gate itself, at an arbitrary instant
	at := verif.Now()
	verr := s.validate(context.Background(), at)
	verif.Observe("validate", verr == nil)
	if at.After(exp) {
		verif.Cover("expired")
		verif.Assert("validate-fails-once-expired", verr != nil)
	} else if verr == nil {
		verif.Cover("not-expired-accepted")
	}
	verif.Assert("signer-validity-ends-at-expiration", s.Validity().NotAfter.Equal(exp))
	// Sign consults the gate with the current time before anything else
	verif.Assume(at.After(exp))
	_, err := s.Sign(context.Background(), []byte{1, 2, 3})
	verif.Assert("sign-fails-once-expired", err != nil)
}
