//go:build verif || !verif

package cppki

// Call-site stubs for the trust checks (C34, C35, C36). The spec's src_rewrite entries redirect
// exactly these calls of the real code to the hooks below; everything else in cppki runs for real.
//
//	signed_trc.go  s.verifyAll(certs)          -> verifVerifyAll(s, certs)      (CMS signatures: ideal relation)
//	trc.go         trc.Validate() (in ValidateUpdate) -> verifValidatePayload(trc) (payload rules: property C33)
//	certs.go       certs[0].Verify(x509.VerifyOptions{..}) -> verifX509Verify(certs[0], ..) (X.509 path building)
//	certs.go/trc.go x509.NewCertPool() -> verifNewCertPool(), pool.AddCert(c) -> verifAddCert(pool, c)
//	               (x509.CertPool is opaque and hashes Raw with SHA-224; the registry records its members)

import (
	"crypto/x509"
)

var (
	// VerifHookVerifyAll decides whether all of certs have a valid signer info on s.
	VerifHookVerifyAll func(s *SignedTRC, certs []*x509.Certificate) error
	// VerifHookValidatePayload decides whether the TRC payload passes TRC.Validate.
	VerifHookValidatePayload func(trc *TRC) error
	// VerifHookX509Verify is the ideal "chains to one of the roots at the given time" relation.
	VerifHookX509Verify func(c *x509.Certificate, opts x509.VerifyOptions) error
)

func verifVerifyAll(s *SignedTRC, certs []*x509.Certificate) error {
	return VerifHookVerifyAll(s, certs)
}

func verifValidatePayload(trc *TRC) error {
	return VerifHookValidatePayload(trc)
}

func verifX509Verify(c *x509.Certificate, opts x509.VerifyOptions) ([][]*x509.Certificate, error) {
	return nil, VerifHookX509Verify(c, opts)
}

// VerifPools records the members of every certificate pool built by the real code.
var VerifPools = map[*x509.CertPool][]*x509.Certificate{}

func verifNewCertPool() *x509.CertPool {
	p := new(x509.CertPool)
	VerifPools[p] = nil
	return p
}

func verifAddCert(p *x509.CertPool, c *x509.Certificate) {
	if c == nil {
		panic("adding nil Certificate to CertPool")
	}
	VerifPools[p] = append(VerifPools[p], c)
}
