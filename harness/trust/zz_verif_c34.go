//go:build verif || !verif

package trust

// C34 — only properly formed chains rooted in an active TRC are trusted.
//
// Part 1 (VerifC34Chain): real cppki.VerifyChain / verifyChain / ValidateChain / ValidateCert /
// TRC.RootPool / classifyCerts on struct-literal certificates; X.509 path building is the ideal relation
// of zz_verif_trustlib.go. One field group of one certificate is symbolic per instance (bound), both
// validity periods and the verification time are always symbolic.
// Part 2 (VerifC34GetChains): real FetchingProvider.GetChains / activeTRCs / filterVerifiableChains with
// a DB stub, fetcher stub, symbolic clock, symbolic TRC validity and a grace period.

import (
	"context"
	"crypto/x509"
	"encoding/asn1"
	"net"
	"time"

	"github.com/scionproto/scion/pkg/addr"
	"github.com/scionproto/scion/pkg/scrypto"
	"github.com/scionproto/scion/pkg/scrypto/cppki"
	"github.com/scionproto/scion/zz_verif/verif"
)

// field groups of part 1
const (
	c34KeyUsage = iota
	c34ExtKeyUsage
	c34Constraints
	c34IAAttr
	c34General
	c34Nothing
)

func c34PickIA(name string) string {
	switch verif.Choose(name, 4) {
	case 0:
		return ""
	case 1:
		return "1-0" // wildcard AS
	case 2:
		return "1-ff00:0:0110" // not canonical
	}
	return vIA
}

// c34Mutate makes one field group of c symbolic.
func c34Mutate(c *x509.Certificate, group int) {
	switch group {
	case c34KeyUsage:
		c.KeyUsage = x509.KeyUsage(verif.NondetU16("cert.key-usage") & 0x1ff)
	case c34ExtKeyUsage:
		n := verif.Choose("cert.eku-len", 3)
		c.ExtKeyUsage = nil
		for i := 0; i < n; i++ {
			c.ExtKeyUsage = append(c.ExtKeyUsage, x509.ExtKeyUsage(verif.NondetInt("cert.eku", 0, 13)))
		}
		switch verif.Choose("cert.unknown-eku", 4) {
		case 1:
			c.UnknownExtKeyUsage = []asn1.ObjectIdentifier{cppki.OIDExtKeyUsageSensitive}
		case 2:
			c.UnknownExtKeyUsage = []asn1.ObjectIdentifier{cppki.OIDExtKeyUsageRegular}
		case 3:
			c.UnknownExtKeyUsage = []asn1.ObjectIdentifier{cppki.OIDExtKeyUsageRoot}
		}
	case c34Constraints:
		c.BasicConstraintsValid = verif.NondetBool("cert.bc-present")
		c.IsCA = verif.NondetBool("cert.bc-ca")
		c.MaxPathLen = verif.NondetInt("cert.bc-pathlen", -1, 2)
		c.MaxPathLenZero = c.MaxPathLen == 0
	case c34IAAttr:
		c.Subject = vName(c34PickIA("cert.subject-ia"))
		c.Issuer = vName(c34PickIA("cert.issuer-ia"))
	case c34General:
		c.Version = verif.NondetInt("cert.version", 0, 4)
		if verif.NondetBool("cert.no-serial") {
			c.SerialNumber = nil
		}
		c.SignatureAlgorithm = x509.SignatureAlgorithm(verif.NondetInt("cert.sigalg", 0, 16))
		if verif.NondetBool("cert.no-skid") {
			c.SubjectKeyId = nil
		}
		if verif.NondetBool("cert.no-akid") {
			c.AuthorityKeyId = nil
		}
	}
}

// reference predicates, from doc/cryptography/certificates.rst ------------------------------------

func c34HasEKU(c *x509.Certificate, u x509.ExtKeyUsage) bool {
	has := false
	for _, e := range c.ExtKeyUsage {
		is := e == u
		has = has || is
	}
	return has
}

func c34IASet(c *x509.Certificate) bool {
	ok := true
	for _, n := range []string{vNameIA(c.Subject), vNameIA(c.Issuer)} {
		// present, not a wildcard, canonical: of the strings the harness uses only vIA / vCAIA qualify
		ok = ok && (n == vIA || n == vCAIA)
	}
	return ok
}

// VerifC34Chain: a chain is accepted against a TRC only if it is a proper AS + CA chain rooted in it.
func VerifC34Chain() {
	x := vInstallX509()
	group, which, chainLen := verif.Param("group"), verif.Param("cert"), verif.Param("len")
	asNB, asNA := vTime(verif.NondetU32("as.not-before")), vTime(verif.NondetU32("as.not-after"))
	caNB, caNA := vTime(verif.NondetU32("ca.not-before")), vTime(verif.NondetU32("ca.not-after"))
	as, ca := vASCert(1, asNB, asNA), vCACert(2, caNB, caNA)
	if which == 0 {
		c34Mutate(as, group)
	} else {
		c34Mutate(ca, group)
	}
	long0, long1 := vTime(0), vTime(0xffffffff)
	root1, root2 := vRootCert(0x11, long0, long1), vRootCert(0x12, long0, long1)
	sens, reg := vVotingCert(0x13, 0, long0, long1), vVotingCert(0x14, 1, long0, long1)
	trc := cppki.TRC{
		Raw:          []byte{1},
		Version:      1,
		ID:           cppki.TRCID{ISD: 1, Base: 1, Serial: 1},
		Quorum:       1,
		Certificates: []*x509.Certificate{sens, root1, reg, root2},
	}
	now := vTime(verif.NondetU32("verify.at"))
	chain := []*x509.Certificate{as, ca, ca}[:chainLen]

	err := cppki.VerifyChain(chain, cppki.VerifyOptions{TRC: []*cppki.TRC{&trc}, CurrentTime: now})
	verif.Observe("verify-chain", err == nil)
	if err != nil {
		verif.Cover("chain-rejected")
		return
	}
	verif.Cover("chain-accepted")
	verif.Assert("chain-is-as-cert-then-ca-cert", chainLen == 2)
	// AS certificate
	verif.Assert("as-key-usage", as.KeyUsage&x509.KeyUsageDigitalSignature != 0 && as.KeyUsage&x509.KeyUsageCertSign == 0)
	verif.Assert("as-ext-key-usage-timestamping", c34HasEKU(as, x509.ExtKeyUsageTimeStamping))
	verif.Assert("as-not-a-ca", !(as.BasicConstraintsValid && as.IsCA))
	verif.Assert("as-isd-as-attributes", c34IASet(as))
	// CA certificate
	verif.Assert("ca-key-usage", ca.KeyUsage&x509.KeyUsageCertSign != 0 && ca.KeyUsage&x509.KeyUsageDigitalSignature == 0)
	verif.Assert("ca-ext-key-usage-no-tls", !c34HasEKU(ca, x509.ExtKeyUsageServerAuth) && !c34HasEKU(ca, x509.ExtKeyUsageClientAuth))
	verif.Assert("ca-basic-constraints-ca", ca.BasicConstraintsValid && ca.IsCA)
	verif.Assert("ca-isd-as-attributes", c34IASet(ca))
	// validity
	verif.Assert("ca-validity-covers-as-validity", !asNB.Before(caNB) && !asNA.After(caNA))
	// rooted in that TRC at the verification time (ideal X.509 relation, asked the right question)
	verif.Assert("x509-asked-once", len(x.calls) == 1)
	call := x.calls[0]
	verif.Assert("x509-leaf-is-as-cert", call.leaf == as)
	verif.Assert("x509-intermediate-is-the-ca-cert", len(call.intermediates) == 1 && call.intermediates[0] == ca)
	rootsOK := len(call.roots) == 2 &&
		((call.roots[0] == root1 && call.roots[1] == root2) || (call.roots[0] == root2 && call.roots[1] == root1))
	verif.Assert("x509-roots-are-the-trc-root-certs", rootsOK)
	verif.Assert("x509-at-verification-time", call.at.Equal(now))
	verif.Assert("x509-chains-to-root", call.ok)
}

// VerifC34ChainTwin: reachability twin — a well-formed chain is accepted.
func VerifC34ChainTwin() {
	vInstallX509()
	as, ca := vASCert(1, vTime(10), vTime(20)), vCACert(2, vTime(5), vTime(30))
	trc := cppki.TRC{Raw: []byte{1}, Version: 1, ID: cppki.TRCID{ISD: 1, Base: 1, Serial: 1}, Quorum: 1,
		Certificates: []*x509.Certificate{vRootCert(0x11, vTime(0), vTime(100))}}
	err := cppki.VerifyChain([]*x509.Certificate{as, ca}, cppki.VerifyOptions{TRC: []*cppki.TRC{&trc}, CurrentTime: vTime(15)})
	verif.Assert("twin", err != nil)
}

// ---- part 2 --------------------------------------------------------------------------------------

type c34Fetcher struct {
	chains [][]*x509.Certificate
	called bool
}

func (f *c34Fetcher) Chains(context.Context, ChainQuery, net.Addr) ([][]*x509.Certificate, error) {
	f.called = true
	if verif.NondetBool("fetch.fails") {
		return nil, errVFetch
	}
	return f.chains, nil
}

func (f *c34Fetcher) TRC(context.Context, cppki.TRCID, net.Addr) (cppki.SignedTRC, error) {
	panic("not used")
}

type c34Recurser struct{}

func (c34Recurser) AllowRecursion(net.Addr) error {
	if verif.NondetBool("recursion.denied") {
		return errVDenied
	}
	return nil
}

type c34Router struct{}

func (c34Router) ChooseServer(context.Context, addr.ISD) (net.Addr, error) {
	if verif.NondetBool("route.fails") {
		return nil, errVRoute
	}
	return &net.TCPAddr{}, nil
}

// c34Timeline builds the TRC history of ISD 1: a latest TRC (base or update, symbolic validity, grace
// period of `grace` seconds) and, for an update, optionally its predecessor.
func c34Timeline(db *vDB, grace int) (latest, pred *cppki.SignedTRC, rootL, rootP *x509.Certificate) {
	long0, long1 := vTime(0), vTime(0xffffffff)
	rootL, rootP = vRootCert(0x21, long0, long1), vRootCert(0x22, long0, long1)
	isBase := verif.NondetBool("trc.latest-is-base")
	serial := scrypto.Version(2)
	if isBase {
		serial = 1
		grace = 0
	}
	nb, na := vTime(verif.NondetU32("trc.not-before")), vTime(verif.NondetU32("trc.not-after"))
	l := cppki.SignedTRC{Raw: []byte{2}, TRC: cppki.TRC{
		Raw: []byte{2}, Version: 1, ID: cppki.TRCID{ISD: 1, Base: 1, Serial: serial},
		Validity: cppki.Validity{NotBefore: nb, NotAfter: na}, GracePeriod: time.Duration(grace) * time.Second,
		Quorum: 1, Certificates: []*x509.Certificate{rootL},
	}}
	if !isBase && verif.NondetBool("trc.predecessor-stored") {
		p := cppki.SignedTRC{Raw: []byte{1}, TRC: cppki.TRC{
			Raw: []byte{1}, Version: 1, ID: cppki.TRCID{ISD: 1, Base: 1, Serial: 1},
			Validity: cppki.Validity{NotBefore: vTime(verif.NondetU32("pred.not-before")), NotAfter: vTime(verif.NondetU32("pred.not-after"))},
			Quorum:   1, Certificates: []*x509.Certificate{rootP},
		}}
		db.trcs = append(db.trcs, p)
		pred = &db.trcs[0]
	}
	db.trcs = append(db.trcs, l)
	latest = &db.trcs[len(db.trcs)-1]
	return
}

// VerifC34GetChains: the provider hands out a chain only if it verifies against the latest TRC while
// that TRC is valid, or against the predecessor during the latest TRC's grace period.
func VerifC34GetChains() {
	x := vInstallX509()
	nLocal, nRemote, grace := verif.Param("local"), verif.Param("remote"), verif.Param("grace")
	db := &vDB{isd: 1, failReads: true}
	latest, pred, rootL, rootP := c34Timeline(db, grace)
	var all [][]*x509.Certificate
	mk := func(tag byte) []*x509.Certificate {
		c := []*x509.Certificate{vASCert(tag, vTime(0), vTime(0xffffffff)), vCACert(tag+0x40, vTime(0), vTime(0xffffffff))}
		all = append(all, c)
		return c
	}
	for i := 0; i < nLocal; i++ {
		db.chains = append(db.chains, mk(byte(1+i)))
	}
	f := &c34Fetcher{}
	for i := 0; i < nRemote; i++ {
		f.chains = append(f.chains, mk(byte(0x31+i)))
	}
	p := FetchingProvider{DB: db, Fetcher: f, Recurser: c34Recurser{}, Router: c34Router{}}
	ia := addr.MustParseIA(vIA)

	t0 := verif.Now()
	got, err := p.GetChains(context.Background(), ChainQuery{IA: ia, SubjectKeyID: []byte{1}})
	t1 := verif.Now()
	verif.Observe("get-chains", err == nil, len(got))

	// some instant of the call lies in the validity / grace window (inclusive bounds: the most
	// permissive reading of "while valid" / "during the grace period")
	v := latest.TRC.Validity
	validSometime := !t1.Before(v.NotBefore) && !t0.After(v.NotAfter)
	graceEnd := v.NotBefore.Add(time.Duration(grace) * time.Second)
	graceSometime := latest.TRC.ID.Serial != latest.TRC.ID.Base && !t1.Before(v.NotBefore) && !t0.After(graceEnd)
	if len(got) > 0 {
		verif.Cover("handed-out")
		verif.Assert("handed-out-only-while-latest-trc-valid", validSometime)
	}
	for _, c := range got {
		known := false
		for _, k := range all {
			if len(c) == 2 && c[0] == k[0] && c[1] == k[1] {
				known = true
			}
		}
		verif.Assert("handed-out-chain-is-a-stored-or-fetched-chain", known)
		viaLatest := x.verifies(c[0], rootL)
		viaPred := pred != nil && graceSometime && x.verifies(c[0], rootP)
		if !viaLatest && viaPred {
			verif.Cover("handed-out-via-grace-period")
		}
		verif.Assert("verifies-against-latest-or-predecessor-in-grace", viaLatest || viaPred)
	}
	for _, c := range db.inserted {
		viaLatest := x.verifies(c[0], rootL)
		viaPred := pred != nil && graceSometime && x.verifies(c[0], rootP)
		verif.Cover("fetched-chain-stored")
		verif.Assert("stored-only-if-verifiable", validSometime && (viaLatest || viaPred))
	}
}

// VerifC34GetChainsTwin: reachability twin — a chain can be handed out through the grace period.
func VerifC34GetChainsTwin() {
	x := vInstallX509()
	db := &vDB{isd: 1}
	_, pred, rootL, rootP := c34Timeline(db, 3600)
	verif.Assume(pred != nil)
	chain := []*x509.Certificate{vASCert(1, vTime(0), vTime(0xffffffff)), vCACert(0x41, vTime(0), vTime(0xffffffff))}
	db.chains = [][]*x509.Certificate{chain}
	p := FetchingProvider{DB: db, Fetcher: &c34Fetcher{}, Recurser: c34Recurser{}, Router: c34Router{}}
	got, _ := p.GetChains(context.Background(), ChainQuery{IA: addr.MustParseIA(vIA), SubjectKeyID: []byte{1}})
	verif.Assert("twin", len(got) == 0 || x.verifies(chain[0], rootL) || !x.verifies(chain[0], rootP))
}
