//go:build verif || !verif

package trust

// C35, last clause: TRCs loaded from disk whose validity starts in the future are ignored.
//
// Real code: loadTRCs (private/trust/store.go). The file system and the decoder are call-site stubs
// (src_rewrite): os.Stat / filepath.Glob("*.trc") / os.ReadFile / pem.Decode / cppki.DecodeSignedTRC are
// answered from the harness' list of files; the DB is the C35 DB stub; the clock is symbolic.

import (
	"context"
	"io/fs"
	"time"

	"github.com/scionproto/scion/pkg/scrypto"
	"github.com/scionproto/scion/pkg/scrypto/cppki"
	"github.com/scionproto/scion/zz_verif/verif"
)

type c35File struct {
	name string
	trc  cppki.SignedTRC
}

var c35Files []c35File

func verifStat(string) (fs.FileInfo, error) { return nil, nil }

func verifGlob(string) ([]string, error) {
	var names []string
	for _, f := range c35Files {
		names = append(names, f.name)
	}
	return names, nil
}

func verifReadFile(name string) ([]byte, error) {
	for i, f := range c35Files {
		if f.name == name {
			return []byte{byte(i)}, nil
		}
	}
	return nil, errC35DB
}

func verifDecodeTRC(raw []byte) (cppki.SignedTRC, error) {
	return c35Files[int(raw[0])].trc, nil
}

func c35Time(sec uint32) time.Time { return time.Unix(int64(sec), 0).UTC() }

func c35LoadSetup(n int) *c35Env {
	e := &c35Env{isd0: 1}
	c35Files = nil
	names := []string{"dir/a.trc", "dir/b.trc", "dir/c.trc", "dir/d.trc"}
	for i := 0; i < n; i++ {
		t := c35TRC(i, cppki.TRCID{ISD: 1, Base: 1, Serial: scrypto.Version(i + 1)}, c35SensCert())
		t.TRC.Validity = cppki.Validity{
			NotBefore: c35Time(verif.NondetU32("file.not-before")),
			NotAfter:  c35Time(0xffffffff),
		}
		c35Files = append(c35Files, c35File{name: names[i], trc: t})
	}
	return e
}

// VerifC35Load: `files` TRC files with arbitrary validity starts, arbitrary (non-decreasing) clock.
func VerifC35Load() {
	n := verif.Param("files")
	e := c35LoadSetup(n)
	t0 := verif.Now()
	res, err := loadTRCs(context.Background(), "dir", c35DB{e}, nil)
	t1 := verif.Now()
	verif.Observe("load", err == nil, len(res.Loaded), len(res.Ignored))
	_ = t0
	for i, f := range c35Files {
		handed := false
		for _, ev := range e.events {
			if (ev.kind == c35InsertOK || ev.kind == c35InsertFail) && ev.tag == i {
				handed = true
			}
		}
		reported := false
		for _, l := range res.Loaded {
			if l == f.name {
				reported = true
			}
		}
		// in the future with respect to every instant of the call
		if f.trc.TRC.Validity.NotBefore.After(t1) {
			verif.Cover("future-dated-file")
			verif.Assert("future-dated-trc-not-handed-to-the-store", !handed)
			verif.Assert("future-dated-trc-not-reported-loaded", !reported)
		} else if handed {
			verif.Cover("current-file-stored")
		}
		verif.Assert("reported-loaded-only-if-stored", !reported || handed)
	}
}

// VerifC35LoadTwin: reachability twin — a file does get stored.
func VerifC35LoadTwin() {
	e := c35LoadSetup(1)
	_, err := loadTRCs(context.Background(), "dir", c35DB{e}, nil)
	verif.Assert("twin", err != nil || len(e.events) == 0)
}
