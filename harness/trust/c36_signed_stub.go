// Package signed replaces pkg/scrypto/signed in private/trust/signer_gen.go for check C36 (import
// swapped by the spec's src_rewrite): SelectSignatureAlgorithm looks at elliptic-curve parameters of a
// real key; the harness keys are abstract, so the choice is delegated to the harness.
package signed

import (
	"crypto"

	real "github.com/scionproto/scion/pkg/scrypto/signed"
)

// VerifSelect is set by the harness.
var VerifSelect func(pub crypto.PublicKey) (real.SignatureAlgorithm, error)

func SelectSignatureAlgorithm(pub crypto.PublicKey) (real.SignatureAlgorithm, error) {
	return VerifSelect(pub)
}
