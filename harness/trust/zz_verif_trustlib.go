//go:build verif || !verif

package trust

// Shared pieces of the C34 / C36 harnesses: struct-literal SCION certificates that satisfy the
// certificate specification (doc/cryptography/certificates.rst), the ideal X.509 path-building
// relation behind cppki.verifX509Verify, and an in-memory trust DB.

import (
	"context"
	"crypto/x509"
	"crypto/x509/pkix"
	"encoding/asn1"
	"errors"
	"math/big"
	"time"

	"github.com/scionproto/scion/pkg/addr"
	"github.com/scionproto/scion/pkg/scrypto/cppki"
	"github.com/scionproto/scion/zz_verif/verif"
)

const (
	vIA   = "1-ff00:0:110"
	vCAIA = "1-ff00:0:120"
)

var (
	errVDB     = errors.New("verif: db failure")
	errVX509   = errors.New("verif: x509: certificate signed by unknown authority")
	errVFetch  = errors.New("verif: fetch failure")
	errVDenied = errors.New("verif: recursion denied")
	errVRoute  = errors.New("verif: no route")
)

func vName(ia string) pkix.Name {
	if ia == "" {
		return pkix.Name{}
	}
	return pkix.Name{Names: []pkix.AttributeTypeAndValue{{Type: cppki.OIDNameIA, Value: ia}}}
}

// vNameIA returns the ISD-AS attribute string of a name built by vName ("" if absent).
func vNameIA(n pkix.Name) string {
	for _, a := range n.Names {
		if a.Type.Equal(cppki.OIDNameIA) {
			s, _ := a.Value.(string)
			return s
		}
	}
	return ""
}

func vTime(sec uint32) time.Time { return time.Unix(int64(sec), 0).UTC() }

func vGeneral(tag byte, nb, na time.Time) x509.Certificate {
	return x509.Certificate{
		Raw:                []byte{tag},
		Version:            3,
		SerialNumber:       new(big.Int),
		SignatureAlgorithm: x509.ECDSAWithSHA256,
		SubjectKeyId:       []byte{tag},
		NotBefore:          nb,
		NotAfter:           na,
	}
}

// vASCert: CP AS certificate (digitalSignature, no keyCertSign, timeStamping, no basic constraints).
func vASCert(tag byte, nb, na time.Time) *x509.Certificate {
	c := vGeneral(tag, nb, na)
	c.AuthorityKeyId = []byte{0xca}
	c.KeyUsage = x509.KeyUsageDigitalSignature
	c.ExtKeyUsage = []x509.ExtKeyUsage{x509.ExtKeyUsageTimeStamping}
	c.Subject, c.Issuer = vName(vIA), vName(vCAIA)
	return &c
}

// vCACert: CP CA certificate (keyCertSign, no digitalSignature, cA TRUE, pathLen 0).
func vCACert(tag byte, nb, na time.Time) *x509.Certificate {
	c := vGeneral(tag, nb, na)
	c.AuthorityKeyId = []byte{0xc0}
	c.KeyUsage = x509.KeyUsageCertSign
	c.BasicConstraintsValid, c.IsCA, c.MaxPathLen, c.MaxPathLenZero = true, true, 0, true
	c.Subject, c.Issuer = vName(vCAIA), vName(vCAIA)
	return &c
}

// vRootCert: CP root certificate (keyCertSign, cA TRUE, pathLen 1, id-kp-root + timeStamping).
func vRootCert(tag byte, nb, na time.Time) *x509.Certificate {
	c := vGeneral(tag, nb, na)
	c.KeyUsage = x509.KeyUsageCertSign
	c.BasicConstraintsValid, c.IsCA, c.MaxPathLen = true, true, 1
	c.ExtKeyUsage = []x509.ExtKeyUsage{x509.ExtKeyUsageTimeStamping}
	c.UnknownExtKeyUsage = []asn1.ObjectIdentifier{cppki.OIDExtKeyUsageRoot}
	c.Subject, c.Issuer = vName(vCAIA), vName(vCAIA)
	return &c
}

// vVotingCert: sensitive (kind 0) or regular (kind 1) voting certificate.
func vVotingCert(tag byte, kind int, nb, na time.Time) *x509.Certificate {
	c := vGeneral(tag, nb, na)
	c.ExtKeyUsage = []x509.ExtKeyUsage{x509.ExtKeyUsageTimeStamping}
	oid := cppki.OIDExtKeyUsageSensitive
	if kind == 1 {
		oid = cppki.OIDExtKeyUsageRegular
	}
	c.UnknownExtKeyUsage = []asn1.ObjectIdentifier{oid}
	return &c
}

// ---- ideal X.509 path building ------------------------------------------------------------------

type vX509Call struct {
	leaf          *x509.Certificate
	intermediates []*x509.Certificate
	roots         []*x509.Certificate
	at            time.Time
	usages        []x509.ExtKeyUsage
	ok            bool
}

type vX509 struct {
	calls []vX509Call
	// rel[leafTag][rootTag]: outcome already drawn for "leaf chains to root"
	rel map[int]bool
}

// vInstallX509 installs the ideal relation: whether the leaf chains (through the given intermediates)
// to the given root set at the given time is one symbolic outcome per (leaf, first root) pair, drawn
// on first use; every call is recorded.
func vInstallX509() *vX509 {
	v := &vX509{rel: map[int]bool{}}
	cppki.VerifPools = map[*x509.CertPool][]*x509.Certificate{}
	cppki.VerifHookX509Verify = func(c *x509.Certificate, opts x509.VerifyOptions) error {
		call := vX509Call{
			leaf:          c,
			intermediates: cppki.VerifPools[opts.Intermediates],
			roots:         cppki.VerifPools[opts.Roots],
			at:            opts.CurrentTime,
			usages:        opts.KeyUsages,
		}
		if len(call.roots) > 0 {
			key := vRelKey(c, call.roots)
			ok, drawn := v.rel[key]
			if !drawn {
				ok = verif.NondetBool("x509.chains-to-root")
				v.rel[key] = ok
			}
			call.ok = ok
		}
		v.calls = append(v.calls, call)
		if !call.ok {
			return errVX509
		}
		return nil
	}
	return v
}

// vRelKey identifies (leaf, root set): the root set of a TRC is identified by its smallest tag (the
// order in which the real code lists the roots comes from a map iteration).
func vRelKey(leaf *x509.Certificate, roots []*x509.Certificate) int {
	m := int(roots[0].Raw[0])
	for _, r := range roots {
		if int(r.Raw[0]) < m {
			m = int(r.Raw[0])
		}
	}
	return int(leaf.Raw[0])<<8 | m
}

func (v *vX509) verifies(leaf *x509.Certificate, roots ...*x509.Certificate) bool {
	return v.rel[vRelKey(leaf, roots)]
}

// ---- in-memory trust DB --------------------------------------------------------------------------

type vDB struct {
	isd       addr.ISD
	trcs      []cppki.SignedTRC // ascending serial; last = latest
	chains    [][]*x509.Certificate
	inserted  [][]*x509.Certificate
	failReads bool // reads may fail (one symbolic outcome per call)
	queries   []ChainQuery
	chainsFor func(q ChainQuery) [][]*x509.Certificate // if set: answers Chains
}

func (d *vDB) Chains(_ context.Context, q ChainQuery) ([][]*x509.Certificate, error) {
	d.queries = append(d.queries, q)
	if d.failReads && verif.NondetBool("db.chains-fails") {
		return nil, errVDB
	}
	if d.chainsFor != nil {
		return d.chainsFor(q), nil
	}
	return d.chains, nil
}

func (d *vDB) InsertChain(_ context.Context, chain []*x509.Certificate) (bool, error) {
	d.inserted = append(d.inserted, chain)
	return true, nil
}

func (d *vDB) SignedTRC(_ context.Context, id cppki.TRCID) (cppki.SignedTRC, error) {
	if d.failReads && verif.NondetBool("db.trc-fails") {
		return cppki.SignedTRC{}, errVDB
	}
	if id.ISD != d.isd || len(d.trcs) == 0 {
		return cppki.SignedTRC{}, nil
	}
	if id.Base.IsLatest() && id.Serial.IsLatest() {
		return d.trcs[len(d.trcs)-1], nil
	}
	for _, t := range d.trcs {
		if t.TRC.ID == id {
			return t, nil
		}
	}
	return cppki.SignedTRC{}, nil
}

func (d *vDB) InsertTRC(context.Context, cppki.SignedTRC) (bool, error) {
	panic("not used")
}
