//go:build verif || !verif

package beacon

import (
	"context"

	"github.com/scionproto/scion/pkg/addr"
	seg "github.com/scionproto/scion/pkg/segment"
	"github.com/scionproto/scion/zz_verif/verif"
)

// C26 — beacon selection. The candidate list has n beacons whose lengths (number of AS entries) are
// the instance parameters l0..l4 (non-decreasing: "candidates ordered by length"); every link
// identity (ISD-AS of the AS entry, construction-egress interface) is symbolic, so every pattern of
// shared links between the candidates arises from equalities chosen by the solver.

type c26Link struct {
	ia uint64
	eg uint16
}

func c26Name(prefix string, i, j int) string {
	return prefix + string([]byte{'0' + byte(i), '_', '0' + byte(j)})
}

// c26Build returns the candidates and, separately, the link identities the oracle works on.
func c26Build(n int, lens [5]int) ([]Beacon, [][]c26Link) {
	cands := make([]Beacon, n)
	links := make([][]c26Link, n)
	// iamode 0: every AS entry has its own symbolic ISD-AS; iamode 1 (larger shapes): all entries share
	// one symbolic ISD-AS, links differ in the interface id only (a stated bound).
	shared := verif.Param("iamode") == 1
	var sharedIA uint64
	if shared {
		sharedIA = verif.NondetU64("ia")
	}
	for i := 0; i < n; i++ {
		entries := make([]seg.ASEntry, lens[i])
		links[i] = make([]c26Link, lens[i])
		for j := 0; j < lens[i]; j++ {
			ia := sharedIA
			if !shared {
				ia = verif.NondetU64(c26Name("ia", i, j))
			}
			eg := verif.NondetU16(c26Name("eg", i, j))
			entries[j] = seg.ASEntry{
				Local:    addr.IA(ia),
				HopEntry: seg.HopEntry{HopField: seg.HopField{ConsEgress: eg}},
			}
			links[i][j] = c26Link{ia: ia, eg: eg}
		}
		cands[i] = Beacon{Segment: &seg.PathSegment{ASEntries: entries}, InIfID: uint16(i + 1)}
	}
	return cands, links
}

func c26Params() (n, k int, lens [5]int) {
	n, k = verif.Param("n"), verif.Param("k")
	lens = [5]int{verif.Param("l0"), verif.Param("l1"), verif.Param("l2"), verif.Param("l3"), verif.Param("l4")}
	// the stated bound: 1 <= n <= 5, k >= 1, candidates ordered by length, every beacon has >= 1 AS entry
	verif.Assume(n >= 1 && n <= 5 && k >= 1)
	for i := 0; i < n; i++ {
		verif.Assume(lens[i] >= 1)
		if i > 0 {
			verif.Assume(lens[i-1] <= lens[i])
		}
	}
	return
}

// c26Est bounds the number of link-equality patterns (= explored paths) of a shape: per link of the
// first beacon and per candidate c the real Diversity loop forks per compared link of c into
// (IA differs | IA equal, interface differs | equal -> found); with a shared IA only the interface
// comparison forks. It only serves to state the bound; it is computed on concrete values.
func c26Est(n int, lens [5]int, iamode int) int {
	f := lens[0]
	p := 1
	for i := 0; i < f; i++ {
		if iamode == 0 {
			p *= (2 << uint(i)) - 1
		} else {
			p *= i + 1
		}
	}
	for c := 1; c < n; c++ {
		per := lens[c] + 1
		if iamode == 0 {
			per = (2 << uint(lens[c])) - 1
		}
		for i := 0; i < f; i++ {
			p *= per
			if p > 1<<30 {
				return 1 << 30
			}
		}
	}
	return p
}

// c26Shape enumerates the shapes of the bound as environment choices (so that one instance keeps all
// workers busy): n in 1..nmax, k in 1..kmax, non-decreasing lengths in 1..lmax, restricted to the
// shapes with at most `budget` link-equality patterns; with iamode 1 only shapes that are over the
// `over` threshold under iamode 0 (the others are run with fully symbolic ISD-AS values).
func c26Shape() (n, k int, lens [5]int) {
	nmax, kmax, lmax := verif.Param("nmax"), verif.Param("kmax"), verif.Param("lmax")
	iamode := verif.Param("iamode")
	n = 1 + verif.Choose("n", nmax)
	k = 1 + verif.Choose("k", kmax)
	// n <= k is a single code path: n = k and n = k-1 are kept as representatives
	verif.Assume(n >= k-1)
	prev := 1
	for i := 0; i < n; i++ {
		lens[i] = prev + verif.Choose("len", lmax-prev+1)
		prev = lens[i]
	}
	if n > k && k > 1 {
		verif.Assume(c26Est(n, lens, iamode) <= verif.Param("budget"))
		if iamode == 1 {
			verif.Assume(c26Est(n, lens, 0) > verif.Param("over"))
		}
	} else {
		verif.Assume(iamode == 0)
	}
	return
}

func c26EqLink(a, b c26Link) bool { return a.ia == b.ia && a.eg == b.eg }

// c26Div is the reference link diversity of candidate c with respect to the first beacon f: the
// number of links of f that do not appear in c (the documented, asymmetric notion of
// Beacon.Diversity: "links in this beacon that do not appear in the other beacon").
func c26Div(f, c []c26Link) int {
	d := 0
	for _, l := range f {
		found := false
		for _, m := range c {
			e := c26EqLink(l, m)
			if e {
				found = true
			}
		}
		if !found {
			d++
		}
	}
	return d
}

// c26Index identifies a returned beacon with a candidate (segment pointer and ingress interface).
func c26Index(cands []Beacon, b Beacon) int {
	for i := range cands {
		if cands[i].Segment == b.Segment && cands[i].InIfID == b.InIfID {
			return i
		}
	}
	return -1
}

func VerifC26Select() {
	n, k, lens := c26Shape()
	verif.Observe("shape", n, k, lens[0], lens[1], lens[2], lens[3], lens[4])
	cands, links := c26Build(n, lens)
	in := append([]Beacon(nil), cands...)
	if k == 1 && n > 1 {
		verif.Cover("k=1")
	}

	res := baseAlgo{}.SelectBeacons(context.Background(), in, k)

	verif.Observe("len", len(res))
	if n <= k {
		verif.Cover("all-returned")
		verif.Assert("n<=k-returns-all", len(res) == n)
		for i := 0; i < n; i++ {
			verif.Assert("n<=k-returns-all-in-order", c26Index(cands, res[i]) == i)
		}
		return
	}
	verif.Assert("returns-exactly-k", len(res) == k)
	if k == 1 {
		// "with respect to the first" is under-determined for k = 1 (there are no k-1 first ones):
		// only "exactly one of the candidates, no crash" is claimed.
		verif.Assert("k=1-returns-a-candidate", c26Index(cands, res[0]) >= 0)
		return
	}
	for j := 0; j < k-1; j++ {
		verif.Assert("k-1-first-ones-in-order", c26Index(cands, res[j]) == j)
	}
	r := c26Index(cands, res[k-1])
	verif.Observe("pick", r)
	verif.Assert("last-is-a-remaining-candidate", r >= k-1)

	// reference, literally from the statement
	div := make([]int, n)
	for i := 0; i < n; i++ {
		div[i] = c26Div(links[0], links[i])
	}
	bestServed := div[0]
	for i := 1; i < k-1; i++ {
		if div[i] > bestServed {
			bestServed = div[i]
		}
	}
	maxRest := div[k-1]
	for i := k; i < n; i++ {
		if div[i] > maxRest {
			maxRest = div[i]
		}
	}
	diverse := maxRest > bestServed
	// r is the most diverse remaining one and no equally diverse remaining one is shorter
	pickOK := div[r] == maxRest
	tie := false
	for i := k - 1; i < n; i++ {
		if i == r {
			continue
		}
		same := div[i] == maxRest
		if lens[i] < lens[r] {
			if same {
				pickOK = false
			}
		}
		if lens[i] > lens[r] {
			if same {
				tie = true
			}
		}
	}
	ok := r == k-1
	if diverse {
		ok = pickOK
	}
	verif.Assert("last-is-most-diverse-shortest-if-it-exceeds-served-else-first-remaining", ok)
	if diverse {
		verif.Cover("diverse-pick")
		if r != k-1 {
			verif.Cover("diverse-pick-not-first-remaining")
		}
		if tie {
			verif.Cover("tie-broken-by-length")
		}
	} else {
		verif.Cover("fallback-first-remaining")
		if maxRest == bestServed {
			if maxRest > 0 {
				verif.Cover("equal-diversity-does-not-exceed")
			}
		}
	}
}

// VerifC26Twin is the reachability twin: "the last pick is always the first remaining candidate" must
// be violated (a strictly more diverse later candidate exists for some link assignment).
func VerifC26Twin() {
	n, k, lens := c26Params()
	verif.Assume(n > k && k >= 2)
	cands, _ := c26Build(n, lens)
	res := baseAlgo{}.SelectBeacons(context.Background(), cands, k)
	verif.Assert("twin", c26Index(cands, res[k-1]) == k-1)
}
