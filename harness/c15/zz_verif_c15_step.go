//go:build verif || !verif

package router

import (
	"github.com/scionproto/scion/pkg/slayers"
	"github.com/scionproto/scion/zz_verif/verif"
)

// egressLinkUp: state of the harness link that owns interface id (known=false for unknown ids);
// written with symbolic conditions so that a symbolic interface id needs no case split.
func (u *vrRun) egressLinkUp(id uint16) (up bool, external bool, known bool) {
	is1, is2 := id == vrIf1, id == vrIf2
	isA := id == vrIfSA1 || id == vrIfSA2
	isB := id == vrIfSB
	external = is1 || is2
	known = external || isA || isB
	up = (is1 && u.r.ext1.up) || (is2 && u.r.ext2.up) || (isA && u.r.sibA.up) || (isB && u.r.sibB.up)
	return
}

// VerifC15Step: the whole fast path (router-step harness, SCION path type) with every link's
// up/down state symbolic: a packet is handed to an egress link only while that link is up, and the
// down answers are external-interface-down for this router's external links and
// internal-connectivity-down for sibling links.
func VerifC15Step() {
	u := vrStep()
	if !u.hOK {
		return
	}
	up, external, known := u.egressLinkUp(u.pkt.egress)
	if u.disp == pForward && !u.localDelivery() && known {
		verif.Cover("forwarded-over-link")
		verif.Assert("forwarded-only-over-a-link-that-is-up", up)
	}
	req := u.pkt.slowPathRequest
	if u.disp == pSlowPath && req.spType == slowPathType(slayers.SCMPTypeExternalInterfaceDown) {
		verif.Cover("external-interface-down")
		verif.Assert("external-interface-down-names-a-down-external-link", known && external && !up)
	}
	if u.disp == pSlowPath && req.spType == slowPathType(slayers.SCMPTypeInternalConnectivityDown) {
		verif.Cover("internal-connectivity-down")
		verif.Assert("internal-connectivity-down-names-a-down-sibling-link", known && !external && !up)
	}
}
