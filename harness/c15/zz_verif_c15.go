//go:build verif || !verif

package udpip

import (
	"github.com/scionproto/scion/router"
	"github.com/scionproto/scion/router/bfd"
	"github.com/scionproto/scion/zz_verif/verif"
)

// C15 (link-level part): "While the BFD session of a link is not up, the router forwards no packet
// over that link; packets that would use it are answered with an SCMP external-interface-down
// message (external links) or internal-connectivity-down message (sibling links) [...]. Forwarding
// resumes once the session is up, and links without BFD are always usable."
//
// What is decided here: the real udpip link objects (connectedLink as external and as sibling link,
// detachedLink, internalLink), created through the real provider API with a real *bfd.Session in an
// arbitrary local state (or without one), answer IsUp()/Scope()/BFDSession() as the statement needs,
// and the router's only consultation point on the forwarding path (validateEgressUp) turns that into
// the right disposition and SCMP type - as a function of the session state *at that moment* only.
// The whole-packet part (every forwarded packet passes that point; contents of the SCMP message)
// belongs to the router packet-step harness.

const (
	vKindExternal        = 0
	vKindSiblingConn     = 1 // sibling link with its own connected socket
	vKindSiblingDetached = 2 // sibling link sharing the internal socket
	vKindInternal        = 3
)

// vBFDState draws a BFD state (the 2-bit state field of RFC 5880).
func vBFDState(name string) uint8 {
	st := verif.NondetU8(name)
	verif.Assume(st <= 3)
	return st
}

// vMakeLink creates the link of the given kind through the provider API.
func vMakeLink(kind int, sess *bfd.Session, ifID uint16) router.Link {
	p := newProvider(8, 0, 0).(*provider)
	p.SetConnOpener(&vRecOpener{reuse: kind != vKindSiblingDetached})
	var m router.InterfaceMetrics
	il, err := p.NewInternalLink("10.0.0.1:30042", 8, &m)
	if err != nil {
		verif.Unreachable("setup-internal")
	}
	var lk router.Link
	switch kind {
	case vKindExternal:
		lk, err = p.NewExternalLink(8, sess, "10.1.0.1:50000", "10.1.0.2:50000", ifID, &m)
	case vKindSiblingConn, vKindSiblingDetached:
		lk, err = p.NewSiblingLink(8, sess, "10.0.0.1:30042", "10.0.0.2:30042", &m)
	default:
		lk = il
	}
	if err != nil {
		verif.Unreachable("setup-link")
	}
	return lk
}

// vJudgeStep: one forwarding decision for a packet that would leave through lk.
func vJudgeStep(tag string, kind int, lk router.Link, ifID uint16, sessionUp bool) {
	up := lk.IsUp()
	disp, scmpType, scmpCode := router.VerifEgressUpStep(lk, ifID)
	verif.Observe(tag, up, disp, scmpType, scmpCode)
	verif.Assert(tag+"-link-up-iff-no-session-or-session-up", up == sessionUp)
	if sessionUp {
		verif.Cover(tag + "-usable")
		verif.Assert(tag+"-usable-link-passes-the-egress-check", disp == router.VerifPForward)
		return
	}
	verif.Cover(tag + "-down")
	verif.Assert(tag+"-down-link-is-not-forwarded-on", disp != router.VerifPForward)
	want := router.VerifSCMPInternalConnectivityDown
	if kind == vKindExternal {
		want = router.VerifSCMPExternalInterfaceDown
	}
	verif.Assert(tag+"-down-link-answered-with-matching-scmp-type",
		disp == router.VerifPSlowPath && scmpType == want && scmpCode == 0)
}

// VerifC15Link: kind = link kind (see constants), bfd = 1 with a BFD session, 0 without.
// Two consecutive decisions with independent session states: the second must depend on the second
// state only ("forwarding resumes once the session is up" / stops again when it goes down).
func VerifC15Link() {
	kind := verif.Param("kind")
	withBFD := verif.Param("bfd") == 1
	// the interface id under which the data plane files the link: the external interface itself, an
	// interface owned by the sibling router, or 0 for the internal link
	// (the interface table is indexed concretely per path: three representative ids, a bound)
	ifID := verif.NondetU16("ifid")
	if kind == vKindInternal {
		ifID = 0
	} else {
		verif.Assume(ifID == 1 || ifID == 5 || ifID == 65535)
	}
	st1, st2 := vBFDState("state1"), vBFDState("state2")
	var sess *bfd.Session
	if withBFD {
		sess = bfd.VerifSession(st1)
	}
	lk := vMakeLink(kind, sess, ifID)

	// what the link says about itself
	wantScope := router.Sibling
	switch kind {
	case vKindExternal:
		wantScope = router.External
	case vKindInternal:
		wantScope = router.Internal
	}
	verif.Assert("link-scope-is-the-kind-it-was-created-as", lk.Scope() == wantScope)
	if kind == vKindInternal {
		verif.Assert("internal-link-has-no-bfd-session", lk.BFDSession() == nil)
	} else {
		verif.Assert("link-keeps-the-session-it-was-given", lk.BFDSession() == sess)
	}
	hasSession := withBFD && kind != vKindInternal

	vJudgeStep("first", kind, lk, ifID, !hasSession || st1 == 3)
	if hasSession {
		bfd.VerifSetState(sess, st2)
		verif.Cover("state-changed")
	}
	vJudgeStep("second", kind, lk, ifID, !hasSession || st2 == 3)

	// The link's Send does not look at the BFD state (BFD's own packets must pass while the session
	// is down); recorded, not judged: the guard is validateEgressUp alone.
	verif.Observe("send-accepts", lk.Send(&router.Packet{}))
}

// VerifC15Vacuity is the reachability twin: must be violated (some state makes the link unusable).
func VerifC15Vacuity() {
	st := vBFDState("state1")
	lk := vMakeLink(vKindExternal, bfd.VerifSession(st), 5)
	verif.Assert("twin", lk.IsUp())
}
