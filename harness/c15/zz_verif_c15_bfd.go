//go:build verif || !verif

package bfd

// Constructors for the C15 harness (package udpip): a real Session object in a chosen local state.
// The session is never Run; only the state that IsUp() reads matters for C15 (how the state evolves
// is C16's subject).

// VerifSession returns a Session whose local state is st (RFC 5880 encoding: 0 AdminDown, 1 Down,
// 2 Init, 3 Up).
func VerifSession(st uint8) *Session {
	return &Session{ReceiveQueueSize: 10, localState: state(st)}
}

// VerifSetState moves the session to local state st through the session's own setter.
func VerifSetState(s *Session, st uint8) { s.setLocalState(state(st)) }
