//go:build verif || !verif

package udpip

import "github.com/scionproto/scion/router"

// Entry point of the router-step half of C15 (entries must live in the test package).
func VerifC15Step() { router.VerifC15Step() }
