//go:build verif || !verif

package router

import "github.com/scionproto/scion/pkg/slayers"

// Step helpers for the C15 harness in package udpip.

const (
	VerifPForward  = int(pForward)
	VerifPSlowPath = int(pSlowPath)
	VerifPDiscard  = int(pDiscard)

	VerifSCMPExternalInterfaceDown    = int(slayers.SCMPTypeExternalInterfaceDown)
	VerifSCMPInternalConnectivityDown = int(slayers.SCMPTypeInternalConnectivityDown)
)

// VerifEgressUpStep runs the real scionPacketProcessor.validateEgressUp - the one place where the
// forwarding path consults the state of the egress link - for a packet whose egress interface
// ifID is served by link lk. It returns the disposition and the slow-path (SCMP) request left in the
// packet.
func VerifEgressUpStep(lk Link, ifID uint16) (disp int, scmpType int, scmpCode int) {
	d := &dataPlane{}
	d.interfaces[ifID] = lk
	pkt := &Packet{egress: ifID}
	p := &scionPacketProcessor{d: d, pkt: pkt}
	r := p.validateEgressUp()
	return int(r), int(pkt.slowPathRequest.spType), int(pkt.slowPathRequest.code)
}

// VerifInterfaceState is what the management API reports for the interface (1 = up).
func VerifInterfaceUp(lk Link, ifID uint16) bool {
	d := &dataPlane{}
	d.interfaces[ifID] = lk
	return d.getInterfaceState(ifID) == "up"
}
