//go:build verif || !verif

package drkey

import (
	"context"
	"net/netip"
	"time"

	"github.com/scionproto/scion/pkg/addr"
	"github.com/scionproto/scion/pkg/drkey"
	"github.com/scionproto/scion/pkg/drkey/generic"
	"github.com/scionproto/scion/pkg/drkey/specific"
	"github.com/scionproto/scion/zz_verif/verif"
)

// C39 — DRKey derivation consistency and domain separation.
//
// AES-CBC-MAC is the uninterpreted function drkey_cbc(key, input) (harness/c39/zz_verif_drkey_stub.go),
// PBKDF2 is the uninterpreted function pbkdf2(password, salt). The reference input layouts are
// transcribed from doc/cryptography/drkey.rst ("PRF derivation specification"):
//
//	level 1:              type | ISD-AS (8)
//	level 2 specific:     type | host type/len (1) | host
//	level 2 generic:      type | protocol (2) | host type/len (1) | host
//	level 3 (both):       type | host type/len (1) | host
//
// each zero-padded to a whole number of AES blocks.

func c39All(bs ...bool) bool {
	ok := true
	for _, b := range bs {
		ok = ok && b
	}
	return ok
}

func c39Or(a, b bool) bool { return a || b }

func c39EqBytes(a, b []byte) bool {
	if len(a) != len(b) {
		return false
	}
	ok := true
	for i := range a {
		ok = ok && a[i] == b[i]
	}
	return ok
}

// ---- hosts -----------------------------------------------------------------------------------

const (
	c39HostV4 = iota
	c39HostV6
	c39HostV4in6
	c39HostSVC
	c39NumHostKinds
)

type c39Host struct {
	h      addr.Host
	typ    byte   // reference DT/DL nibble (scion-header.rst): IPv4 0b0000, IPv6 0b0011, SVC 0b0100
	packed []byte // reference address-header encoding
}

func c39NewHost(tag string, kind int) c39Host {
	switch kind {
	case c39HostV4:
		b := verif.NondetBytes(tag, 4)
		var a [4]byte
		copy(a[:], b)
		return c39Host{addr.HostIP(netip.AddrFrom4(a)), 0b0000, b}
	case c39HostV6:
		b := verif.NondetBytes(tag, 16)
		var a [16]byte
		copy(a[:], b)
		zero10 := true
		for i := 0; i < 10; i++ {
			zero10 = zero10 && b[i] == 0
		}
		mapped := c39All(zero10, b[10] == 0xff, b[11] == 0xff)
		verif.Assume(!mapped) // a true IPv6 address (the mapped form is kind c39HostV4in6)
		return c39Host{addr.HostIP(netip.AddrFrom16(a)), 0b0011, b}
	case c39HostV4in6:
		// ::ffff:a.b.c.d names the IPv4 host a.b.c.d
		b := verif.NondetBytes(tag, 4)
		var a [16]byte
		a[10], a[11] = 0xff, 0xff
		copy(a[12:], b)
		return c39Host{addr.HostIP(netip.AddrFrom16(a)), 0b0000, b}
	default:
		v := verif.NondetU16(tag)
		return c39Host{addr.HostSVC(addr.SVC(v)), 0b0100, []byte{byte(v >> 8), byte(v), 0, 0}}
	}
}

func c39SameHost(a, b c39Host) bool {
	return c39All(a.typ == b.typ, c39EqBytes(a.packed, b.packed))
}

// c39Pad: the fields followed by zero bytes up to the next multiple of the AES block size.
func c39Pad(fields ...[]byte) []byte {
	var out []byte
	for _, f := range fields {
		out = append(out, f...)
	}
	for len(out)%16 != 0 {
		out = append(out, 0)
	}
	return out
}

// ---- derivation inputs -------------------------------------------------------------------------

// VerifC39Inputs: the serialised derivation inputs follow the documented layout and coincide only
// for the same (derivation type, protocol, host).
func VerifC39Inputs() {
	schemeGeneric := verif.Choose("scheme", 2) == 1
	h1 := c39NewHost("h1", verif.Choose("host1", c39NumHostKinds))
	h2 := c39NewHost("h2", verif.Choose("host2", c39NumHostKinds))
	t1, t2 := drkey.KeyType(verif.NondetU8("t1")), drkey.KeyType(verif.NondetU8("t2"))
	verif.Assume(c39Or(t1 == drkey.AsHost, t1 == drkey.HostAS))
	verif.Assume(c39Or(t2 == drkey.AsHost, t2 == drkey.HostAS))
	p1, p2 := drkey.Protocol(verif.NondetU16("p1")), drkey.Protocol(verif.NondetU16("p2"))

	lvl2 := func(t drkey.KeyType, p drkey.Protocol, h c39Host) ([]byte, []byte, error) {
		if schemeGeneric {
			in, err := generic.VerifLevel2Input(t, p, h.h)
			return in, c39Pad([]byte{byte(t), byte(p >> 8), byte(p), h.typ}, h.packed), err
		}
		in, err := specific.VerifLevel2Input(t, h.h)
		return in, c39Pad([]byte{byte(t), h.typ}, h.packed), err
	}
	in1, ref1, err1 := lvl2(t1, p1, h1)
	in2, ref2, err2 := lvl2(t2, p2, h2)
	verif.Observe("lvl2", err1 == nil, err2 == nil, in1, in2)
	verif.Assert("level2-input-serializes", err1 == nil && err2 == nil)
	if err1 != nil || err2 != nil {
		return
	}
	verif.Cover("level2-inputs")
	verif.Assert("level2-input-has-documented-layout", c39All(c39EqBytes(in1, ref1), c39EqBytes(in2, ref2)))
	sameReq := c39All(t1 == t2, c39Or(!schemeGeneric, p1 == p2), c39SameHost(h1, h2))
	verif.Assert("level2-inputs-coincide-only-for-same-type-protocol-host", c39Or(!c39EqBytes(in1, in2), sameReq))

	// level 3 (host-host), derived under the host-AS key
	b1, b2 := make([]byte, 32), make([]byte, 32)
	n1, e1 := drkey.SerializeHostHostInput(b1, h1.h)
	n2, e2 := drkey.SerializeHostHostInput(b2, h2.h)
	verif.Assert("level3-input-serializes", e1 == nil && e2 == nil)
	if e1 != nil || e2 != nil {
		return
	}
	hh1, hh2 := b1[:n1], b2[:n2]
	verif.Observe("lvl3", hh1, hh2)
	verif.Assert("level3-input-has-documented-layout", c39All(
		c39EqBytes(hh1, c39Pad([]byte{byte(drkey.HostHost), h1.typ}, h1.packed)),
		c39EqBytes(hh2, c39Pad([]byte{byte(drkey.HostHost), h2.typ}, h2.packed))))
	verif.Assert("level3-inputs-coincide-only-for-same-host", c39Or(!c39EqBytes(hh1, hh2), c39SameHost(h1, h2)))

	// level 1
	ia1, ia2 := addr.IA(verif.NondetU64("ia1")), addr.IA(verif.NondetU64("ia2"))
	l1, l2 := specific.VerifLevel1Input(ia1), specific.VerifLevel1Input(ia2)
	verif.Observe("lvl1", l1, l2)
	iaBytes := func(ia addr.IA) []byte {
		v := uint64(ia)
		return []byte{byte(v >> 56), byte(v >> 48), byte(v >> 40), byte(v >> 32), byte(v >> 24), byte(v >> 16), byte(v >> 8), byte(v)}
	}
	verif.Assert("level1-input-has-documented-layout", c39All(
		c39EqBytes(l1, c39Pad([]byte{byte(drkey.AsAs)}, iaBytes(ia1))),
		c39EqBytes(l2, c39Pad([]byte{byte(drkey.AsAs)}, iaBytes(ia2)))))
	verif.Assert("level1-inputs-coincide-only-for-same-as", c39Or(!c39EqBytes(l1, l2), ia1 == ia2))

	// different derivation types never share an input, whatever the other fields
	verif.Assert("inputs-of-different-levels-never-coincide", c39All(
		!c39EqBytes(l1, in1), !c39EqBytes(l1, in2), !c39EqBytes(l1, hh1), !c39EqBytes(l1, hh2),
		!c39EqBytes(in1, hh1), !c39EqBytes(in1, hh2), !c39EqBytes(in2, hh1), !c39EqBytes(in2, hh2)))
}

// VerifC39InputsTwin: reachability twin - two requests can have the same input (must be violated).
func VerifC39InputsTwin() {
	h1 := c39NewHost("h1", verif.Choose("host1", c39NumHostKinds))
	h2 := c39NewHost("h2", verif.Choose("host2", c39NumHostKinds))
	t1, t2 := drkey.KeyType(verif.NondetU8("t1")), drkey.KeyType(verif.NondetU8("t2"))
	in1, err1 := specific.VerifLevel2Input(t1, h1.h)
	in2, err2 := specific.VerifLevel2Input(t2, h2.h)
	verif.Assume(err1 == nil && err2 == nil)
	verif.Assert("twin", !c39EqBytes(in1, in2))
}

// ---- service side vs host side -------------------------------------------------------------------

type c39SVDB struct{ inserted *int }

func (d c39SVDB) GetValue(context.Context, drkey.SecretValueMeta, []byte) (drkey.SecretValue, error) {
	return drkey.SecretValue{}, drkey.ErrKeyNotFound
}
func (d c39SVDB) InsertValue(context.Context, drkey.Protocol, drkey.Epoch) error {
	*d.inserted++
	return nil
}
func (d c39SVDB) DeleteExpiredValues(context.Context, time.Time) (int, error) { return 0, nil }
func (d c39SVDB) Close() error                                                  { return nil }

type c39L1DB struct {
	key  drkey.Level1Key
	seen *drkey.Level1Meta
	hits *int
}

func (d c39L1DB) GetLevel1Key(_ context.Context, meta drkey.Level1Meta) (drkey.Level1Key, error) {
	*d.seen = meta
	*d.hits++
	return d.key, nil
}
func (d c39L1DB) InsertLevel1Key(context.Context, drkey.Level1Key) error { return nil }
func (d c39L1DB) DeleteExpiredLevel1Keys(context.Context, time.Time) (int, error) {
	return 0, nil
}
func (d c39L1DB) Close() error { return nil }

type c39Keeper struct{}

func (c39Keeper) Update(Level1PrefetchInfo)  {}
func (c39Keeper) Info() []Level1PrefetchInfo { return nil }

// c39HostPairs: the concrete host texts (src, dst) of the service-level clauses.
var c39HostPairs = [][2]string{
	{"10.1.2.3", "192.0.2.255"},
	{"2001:db8::7", "10.1.2.3"},
	{"10.1.2.3", "10.1.2.3"},
	{"::ffff:10.1.2.3", "fd00::1:2"},
	{"CS", "2001:db8::7"},
}

// c39RefPredefined: the assigned protocol identifiers of drkey.rst (0 Generic, 1 SCMP) have a
// protocol-specific derivation, every other protocol uses the generic one.
func c39RefPredefined(p drkey.Protocol) bool { return c39Or(p == 0, p == 1) }

type c39Deriver interface {
	DeriveASHost(string, drkey.Key) (drkey.Key, error)
	DeriveHostAS(string, drkey.Key) (drkey.Key, error)
	DeriveHostHost(string, drkey.Key) (drkey.Key, error)
}

// VerifC39Service: the keys served by the ServiceEngine equal the keys a host derives itself with
// the documented chain from the matching secret value (local AS = source AS) or from the level-1
// key (local AS = destination AS).
func VerifC39Service() {
	ctx := context.Background()
	verif.AssumeInjective("drkey_cbc", 0)
	pair := c39HostPairs[verif.Choose("hosts", len(c39HostPairs))]
	srcHost, dstHost := pair[0], pair[1]
	localIsSrc := verif.Choose("local-side", 2) == 0
	proto := drkey.Protocol(verif.NondetU16("proto"))
	srcIA, dstIA := addr.IA(verif.NondetU64("src")), addr.IA(verif.NondetU64("dst"))
	verif.Assume(srcIA != dstIA)
	validity := time.Unix(int64(verif.NondetU32("validity")), 0)
	master := verif.NondetBytes("master", 16)
	epochSecs := verif.Param("epoch_s")

	var l1db drkey.Level1Key
	copy(l1db.Key[:], verif.NondetBytes("l1key", 16))
	l1db.Epoch = drkey.NewEpoch(verif.NondetU32("l1.begin"), verif.NondetU32("l1.end"))
	l1db.SrcIA, l1db.DstIA = srcIA, dstIA
	var seen drkey.Level1Meta
	inserted, hits := 0, 0
	local := dstIA
	if localIsSrc {
		local = srcIA
	}
	se := &ServiceEngine{
		SecretBackend:  NewSecretValueBackend(c39SVDB{&inserted}, master, time.Duration(epochSecs)*time.Second),
		LocalIA:        local,
		DB:             c39L1DB{l1db, &seen, &hits},
		PrefetchKeeper: c39Keeper{},
	}

	ah, errAH := se.DeriveASHost(ctx, drkey.ASHostMeta{ProtoId: proto, Validity: validity, SrcIA: srcIA, DstIA: dstIA, DstHost: dstHost})
	ha, errHA := se.DeriveHostAS(ctx, drkey.HostASMeta{ProtoId: proto, Validity: validity, SrcIA: srcIA, DstIA: dstIA, SrcHost: srcHost})
	hh, errHH := se.DeriveHostHost(ctx, drkey.HostHostMeta{ProtoId: proto, Validity: validity, SrcIA: srcIA, DstIA: dstIA, SrcHost: srcHost, DstHost: dstHost})
	verif.Observe("served", errAH == nil, errHA == nil, errHH == nil)
	verif.Assert("service-derives-keys", errAH == nil && errHA == nil && errHH == nil)
	if errAH != nil || errHA != nil || errHH != nil {
		return
	}

	// ---- host side, from the documentation
	predefined := c39RefPredefined(proto)
	lvl1Proto := drkey.Protocol(0) // generic hierarchy: level-1 key of protocol 0
	var deriver c39Deriver = generic.Deriver{Proto: proto}
	if predefined { // decided by the path condition (the service has branched on the protocol)
		lvl1Proto = proto
		deriver = specific.Deriver{}
		verif.Cover("protocol-specific-derivation")
	} else {
		verif.Cover("generic-derivation")
	}
	var lvl1 drkey.Key
	if localIsSrc {
		verif.Cover("local-as-is-source")
		// the matching secret value: same protocol hierarchy, the epoch of the served key
		sv, errSV := drkey.DeriveSV(lvl1Proto, ah.Epoch, master)
		verif.Assert("host-derives-sv", errSV == nil)
		served, errS := se.GetSecretValue(ctx, drkey.SecretValueMeta{ProtoId: lvl1Proto, Validity: validity})
		verif.Assert("served-secret-value-equals-kdf-of-documented-input", c39All(errS == nil, served.Key == sv.Key,
			served.ProtoId == lvl1Proto, served.Epoch.NotBefore.Equal(ah.Epoch.NotBefore), served.Epoch.NotAfter.Equal(ah.Epoch.NotAfter)))
		k, errL1 := specific.Deriver{}.DeriveLevel1(dstIA, sv.Key)
		verif.Assert("host-derives-level1", errL1 == nil)
		lvl1 = k
		servedL1, errD := se.DeriveLevel1(ctx, drkey.Level1Meta{ProtoId: lvl1Proto, Validity: validity, SrcIA: srcIA, DstIA: dstIA})
		verif.Assert("served-level1-equals-host-derivation", c39All(errD == nil, servedL1.Key == lvl1,
			servedL1.SrcIA == srcIA, servedL1.DstIA == dstIA, servedL1.ProtoId == lvl1Proto))
		verif.Assert("no-level1-db-lookup-for-own-keys", hits == 0)
	} else {
		verif.Cover("local-as-is-destination")
		lvl1 = l1db.Key
		verif.Assert("level1-key-requested-for-the-right-hierarchy", c39All(hits > 0, seen.ProtoId == lvl1Proto,
			seen.SrcIA == srcIA, seen.DstIA == dstIA, seen.Validity.Equal(validity)))
	}
	ahH, e1 := deriver.DeriveASHost(dstHost, lvl1)
	haH, e2 := deriver.DeriveHostAS(srcHost, lvl1)
	hhH, e3 := deriver.DeriveHostHost(dstHost, haH)
	verif.Assert("host-derives-keys", e1 == nil && e2 == nil && e3 == nil)
	verif.Assert("served-as-host-key-equals-host-derivation", ah.Key == ahH)
	verif.Assert("served-host-as-key-equals-host-derivation", ha.Key == haH)
	verif.Assert("served-host-host-key-equals-host-derivation", hh.Key == hhH)
	verif.Assert("served-key-metadata-echoes-request", c39All(
		ah.ProtoId == proto, ha.ProtoId == proto, hh.ProtoId == proto,
		ah.SrcIA == srcIA, ha.SrcIA == srcIA, hh.SrcIA == srcIA, ah.DstIA == dstIA, ha.DstIA == dstIA, hh.DstIA == dstIA,
		ah.DstHost == dstHost, ha.SrcHost == srcHost, hh.SrcHost == srcHost, hh.DstHost == dstHost))
	// domain separation at key level (collision-free PRF): keys of different types differ, also
	// for equal hosts (drkey.rst: K_{A:H,B} != K_{A,B:H})
	verif.Assert("keys-of-different-types-differ", c39All(ah.Key != ha.Key, ah.Key != hh.Key, ha.Key != hh.Key))
	if localIsSrc { // (a level-1 key handed in by the DB stub is a free value, not a PRF output)
		verif.Assert("level2-keys-differ-from-level1-key", c39All(ah.Key != lvl1, ha.Key != lvl1, hh.Key != lvl1))
	}
	verif.Observe("keys", ah.Key == ahH, ha.Key == haH, hh.Key == hhH, ah.Key != ha.Key)
}

// VerifC39ServiceTwin: must be violated - the AS-host and host-AS keys of *different* hosts are not
// forced to be equal.
func VerifC39ServiceTwin() {
	ctx := context.Background()
	verif.AssumeInjective("drkey_cbc", 0)
	inserted, hits := 0, 0
	var seen drkey.Level1Meta
	srcIA, dstIA := addr.IA(verif.NondetU64("src")), addr.IA(verif.NondetU64("dst"))
	verif.Assume(srcIA != dstIA)
	se := &ServiceEngine{
		SecretBackend:  NewSecretValueBackend(c39SVDB{&inserted}, verif.NondetBytes("master", 16), time.Hour),
		LocalIA:        srcIA,
		DB:             c39L1DB{drkey.Level1Key{}, &seen, &hits},
		PrefetchKeeper: c39Keeper{},
	}
	validity := time.Unix(int64(verif.NondetU32("validity")), 0)
	a, e1 := se.DeriveASHost(ctx, drkey.ASHostMeta{ProtoId: 1, Validity: validity, SrcIA: srcIA, DstIA: dstIA, DstHost: "10.1.2.3"})
	b, e2 := se.DeriveASHost(ctx, drkey.ASHostMeta{ProtoId: 1, Validity: validity, SrcIA: srcIA, DstIA: dstIA, DstHost: "10.1.2.4"})
	verif.Assume(e1 == nil && e2 == nil)
	verif.Assert("twin", a.Key == b.Key)
}
