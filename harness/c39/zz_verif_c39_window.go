//go:build verif || !verif

package drkey

import (
	"time"

	"github.com/scionproto/scion/pkg/addr"
	"github.com/scionproto/scion/private/drkey/drkeyutil"
	"github.com/scionproto/scion/zz_verif/verif"
)

// C39, third sentence: "A key selected for an authenticator timestamp inside the acceptance window
// belongs to an epoch whose validity (plus grace period) contains the timestamp's absolute time."
//
// Real code: drkeyutil.FakeProvider.GetKeyWithinAcceptanceWindow (with spao.AbsoluteTimestamp,
// cppki.Validity.Contains and the time package interpreted from source). Symbolic: the receiver's
// clock (seconds and nanoseconds) and the 48-bit relative timestamp. Parameters (concrete): epoch
// length and acceptance window in seconds. The oracle is plain integer arithmetic in nanoseconds
// since 1970: AbsTime = epoch begin + relative timestamp (authenticator-option.rst, "Absolute time
// and DRKey selection"), grace period 5 s (drkey.rst).

func VerifC39Window() {
	epochS, awS := int64(verif.Param("epoch_s")), int64(verif.Param("aw_s"))
	p := &drkeyutil.FakeProvider{
		EpochDuration:    time.Duration(epochS) * time.Second,
		AcceptanceWindow: time.Duration(awS) * time.Second,
	}
	sec, nsec := verif.NondetU32("now.s"), verif.NondetU32("now.ns")
	verif.Assume(nsec < 1000000000)
	// bound: previous, current and next epoch lie inside the 32-bit range of epoch timestamps
	verif.Assume(int64(sec) >= 2*epochS)
	verif.Assume(int64(sec) < (1<<32)-2*epochS)
	rel := verif.NondetU64("timestamp")
	verif.Assume(rel < 1<<48)
	now := time.Unix(int64(sec), int64(nsec))

	key, err := p.GetKeyWithinAcceptanceWindow(now, rel, addr.IA(verif.NondetU64("ia")), addr.Host{})
	verif.Observe("window", err == nil)
	if err != nil {
		verif.Cover("window-no-key")
		return
	}
	verif.Cover("window-key-selected")
	nb, na := key.Epoch.NotBefore.Unix(), key.Epoch.NotAfter.Unix()
	verif.Observe("epoch", nb, na)
	verif.Assert("selected-epoch-has-whole-seconds", c39All(key.Epoch.NotBefore.Nanosecond() == 0, key.Epoch.NotAfter.Nanosecond() == 0))
	// AbsTime = epoch begin + relative timestamp, as (seconds, nanoseconds < 10^9); the epoch
	// begins on a whole second. (Seconds and nanoseconds are kept apart so that the solver never
	// has to invert a 64-bit division by 10^9.)
	const s = int64(1000000000)
	absS, absN := nb+int64(rel)/s, int64(rel)%s
	// epoch validity plus grace period: [NotBefore, NotAfter + 5 s]
	inEpoch := c39All(absS >= nb, c39Or(absS < na+5, c39All(absS == na+5, absN == 0)))
	verif.Assert("selected-epoch-plus-grace-contains-absolute-time", inEpoch)
	// acceptance window [now - a/2, now + a/2], bounds as normalised (seconds, nanoseconds)
	halfS, halfN := awS/2, (awS%2)*(s/2)
	lS, lN := int64(sec)-halfS, int64(nsec)-halfN
	if lN < 0 {
		lS, lN = lS-1, lN+s
	}
	uS, uN := int64(sec)+halfS, int64(nsec)+halfN
	if uN >= s {
		uS, uN = uS+1, uN-s
	}
	geLower := c39Or(absS > lS, c39All(absS == lS, absN >= lN))
	leUpper := c39Or(absS < uS, c39All(absS == uS, absN <= uN))
	verif.Assert("absolute-time-inside-acceptance-window", c39All(geLower, leUpper))
	if nb > int64(sec) {
		verif.Cover("window-next-epoch")
	} else if na <= int64(sec) {
		verif.Cover("window-previous-epoch")
	} else {
		verif.Cover("window-current-epoch")
	}
}

// VerifC39WindowTwin: must be violated - a key is selected for some timestamp.
func VerifC39WindowTwin() {
	p := &drkeyutil.FakeProvider{EpochDuration: time.Hour, AcceptanceWindow: 5 * time.Minute}
	sec := verif.NondetU32("now.s")
	verif.Assume(sec >= 7200 && sec < 4000000000)
	rel := verif.NondetU64("timestamp")
	verif.Assume(rel < 1<<48)
	_, err := p.GetKeyWithinAcceptanceWindow(time.Unix(int64(sec), 0), rel, 0, addr.Host{})
	verif.Assert("twin", err != nil)
}
