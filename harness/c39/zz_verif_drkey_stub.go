//go:build verif || !verif

package drkey

import (
	"crypto/cipher"

	"github.com/scionproto/scion/zz_verif/verif"
)

// verifCBC idealises AES-CBC-MAC (zero IV) as an uninterpreted function of (key, whole input):
// the last output block - the only one cbcMac uses - is UF drkey_cbc(key || input). Under the
// symbolic engine initAESCBC is redirected to verifInitAESCBC (engine/natives_spaodrkey.go);
// natively the real AES code runs, so harnesses compare keys only for (in)equality.
type verifCBC struct{ key []byte }

func (v *verifCBC) BlockSize() int { return 16 }

func (v *verifCBC) CryptBlocks(dst, src []byte) {
	if len(src)%16 != 0 {
		panic("crypto/cipher: input not full blocks")
	}
	if len(dst) < len(src) {
		panic("crypto/cipher: output smaller than input")
	}
	if len(src) == 0 {
		return
	}
	out := verif.UF("drkey_cbc", 16, v.key, src)
	copy(dst[len(src)-16:len(src)], out)
}

func verifInitAESCBC(key []byte) (cipher.BlockMode, error) {
	return &verifCBC{key: append([]byte(nil), key...)}, nil
}
