//go:build verif || !verif

package specific

import (
	"github.com/scionproto/scion/pkg/addr"
	"github.com/scionproto/scion/pkg/drkey"
)

// Wrappers giving the C39 harness (package control/drkey) access to the unexported serialisers.

func VerifLevel1Input(dstIA addr.IA) []byte {
	buf := make([]byte, 32)
	n := serializeLevel1Input(buf, dstIA)
	return buf[:n]
}

func VerifLevel2Input(typ drkey.KeyType, host addr.Host) ([]byte, error) {
	buf := make([]byte, 32)
	n, err := Deriver{}.serializeLevel2Input(buf, typ, host)
	if err != nil {
		return nil, err
	}
	return buf[:n], nil
}
