//go:build verif || !verif

package generic

import (
	"github.com/scionproto/scion/pkg/addr"
	"github.com/scionproto/scion/pkg/drkey"
)

// Wrapper giving the C39 harness (package control/drkey) access to the unexported serialiser.

func VerifLevel2Input(typ drkey.KeyType, proto drkey.Protocol, host addr.Host) ([]byte, error) {
	buf := make([]byte, 32)
	n, err := Deriver{Proto: proto}.serializeLevel2Input(buf, typ, proto, host)
	if err != nil {
		return nil, err
	}
	return buf[:n], nil
}
