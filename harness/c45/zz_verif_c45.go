//go:build verif || !verif

package hiddenpath

import (
	"context"
	"database/sql"
	"errors"
	"net"
	"time"

	"github.com/scionproto/scion/pkg/addr"
	seg "github.com/scionproto/scion/pkg/segment"
	"github.com/scionproto/scion/pkg/snet"
	"github.com/scionproto/scion/private/pathdb"
	"github.com/scionproto/scion/private/pathdb/query"
	"github.com/scionproto/scion/zz_verif/verif"
)

// C45 — hidden segments are registered only by writers and served only to members.
//
// Real code: RegistryServer.Register, AuthoritativeServer.Segments, canRead, isAuthoritative,
// Storer.Get/Put, convert, GroupID.ToUint64. Stubs (harness level, part of the claim):
//   - c45Verifier: records its arguments, answers with a symbolic verdict;
//   - c45DB: an in-memory pathdb.DB written from the interface documentation of pathdb.ReadWrite
//     (Get returns the rows matching every non-empty criterion of query.Params;
//     InsertWithHPGroupIDs stores the segment under the given group ids). It records every call.
//
// The oracle below is written from the property statement only: membership is decided by plain
// equality tests over the harness' own lists of ISD-AS values, never through the code's maps.

var errC45 = errors.New("c45 stub failure")

// ---- stubs --------------------------------------------------------------------------------------

type c45Verifier struct {
	ok    bool
	calls int
	segs  []*seg.Meta
	peer  net.Addr
}

func (v *c45Verifier) Verify(_ context.Context, segs []*seg.Meta, server net.Addr) error {
	v.calls++
	v.segs = segs
	v.peer = server
	if !v.ok {
		return errC45
	}
	return nil
}

type c45Row struct {
	meta   *seg.Meta
	groups []uint64
}

type c45DB struct {
	rows       []c45Row
	inserts    int
	gets       int
	lastParams *query.Params
	other      int  // calls of any other pathdb method
	failInsert bool // environment: the store refuses the insertion
	failGet    bool
}

func (d *c45DB) Get(_ context.Context, p *query.Params) (query.Results, error) {
	d.gets++
	d.lastParams = p
	if d.failGet {
		return nil, errC45
	}
	var res query.Results
	for _, r := range d.rows {
		match := true
		if p != nil && len(p.EndsAt) > 0 {
			m := false
			for _, ia := range p.EndsAt {
				if r.meta.Segment.LastIA() == ia {
					m = true
				}
			}
			match = match && m
		}
		if p != nil && len(p.HPGroupIDs) > 0 {
			m := false
			for _, g := range p.HPGroupIDs {
				for _, rg := range r.groups {
					if rg == g {
						m = true
					}
				}
			}
			match = match && m
		}
		if p != nil && len(p.StartsAt) > 0 {
			m := false
			for _, ia := range p.StartsAt {
				if r.meta.Segment.FirstIA() == ia {
					m = true
				}
			}
			match = match && m
		}
		if p != nil && len(p.SegTypes) > 0 {
			m := false
			for _, t := range p.SegTypes {
				if r.meta.Type == t {
					m = true
				}
			}
			match = match && m
		}
		if match {
			res = append(res, &query.Result{Seg: r.meta.Segment, Type: r.meta.Type, HPGroupIDs: r.groups})
		}
	}
	return res, nil
}

func (d *c45DB) InsertWithHPGroupIDs(_ context.Context, m *seg.Meta,
	ids []uint64) (pathdb.InsertStats, error) {

	d.inserts++
	if d.failInsert {
		return pathdb.InsertStats{}, errC45
	}
	d.rows = append(d.rows, c45Row{meta: m, groups: append([]uint64(nil), ids...)})
	return pathdb.InsertStats{Inserted: 1}, nil
}

func (d *c45DB) GetAll(context.Context) (query.Results, error) { d.other++; return nil, errC45 }
func (d *c45DB) GetNextQuery(context.Context, addr.IA, addr.IA) (time.Time, error) {
	d.other++
	return time.Time{}, errC45
}
func (d *c45DB) Insert(context.Context, *seg.Meta) (pathdb.InsertStats, error) {
	d.other++
	return pathdb.InsertStats{}, errC45
}
func (d *c45DB) DeleteExpired(context.Context, time.Time) (int, error) { d.other++; return 0, errC45 }
func (d *c45DB) DeleteSegment(context.Context, string) error            { d.other++; return errC45 }
func (d *c45DB) InsertNextQuery(context.Context, addr.IA, addr.IA, time.Time) (bool, error) {
	d.other++
	return false, errC45
}
func (d *c45DB) BeginTransaction(context.Context, *sql.TxOptions) (pathdb.Transaction, error) {
	d.other++
	return nil, errC45
}

// ---- configuration ------------------------------------------------------------------------------

// c45Group is the harness' own (list-based) view of one group configuration.
type c45Group struct {
	id         GroupID
	owner      addr.IA
	writers    []addr.IA
	readers    []addr.IA
	registries []addr.IA
}

func c45In(ia addr.IA, set []addr.IA) bool {
	in := false
	for _, m := range set {
		in = in || m == ia
	}
	return in
}

func c45IAs(name string, n int) []addr.IA {
	out := make([]addr.IA, n)
	for i := range out {
		out[i] = addr.IA(verif.NondetU64(name))
	}
	return out
}

func c45Set(l []addr.IA) map[addr.IA]struct{} {
	m := map[addr.IA]struct{}{}
	for _, ia := range l {
		m[ia] = struct{}{}
	}
	return m
}

// c45Groups builds `ng` groups with pairwise distinct ids; the role sets have nw/nr/ng2 symbolic
// members each (members may coincide, so smaller sets are included).
func c45Groups() (map[GroupID]*Group, []c45Group) {
	ng, nw, nr, nreg := verif.Param("groups"), verif.Param("writers"), verif.Param("readers"),
		verif.Param("registries")
	ref := make([]c45Group, ng)
	cfg := map[GroupID]*Group{}
	for i := range ref {
		g := &ref[i]
		g.id = GroupID{OwnerAS: addr.AS(verif.NondetU64("g.as")), Suffix: verif.NondetU16("g.suffix")}
		verif.Assume(uint64(g.id.OwnerAS)>>48 == 0)
		for k := 0; k < i; k++ {
			verif.Assume(ref[k].id != g.id)
		}
		g.owner = addr.IA(verif.NondetU64("g.owner"))
		g.writers = c45IAs("g.writer", nw)
		g.readers = c45IAs("g.reader", nr)
		g.registries = c45IAs("g.registry", nreg)
		cfg[g.id] = &Group{
			ID:         g.id,
			Owner:      g.owner,
			Writers:    c45Set(g.writers),
			Readers:    c45Set(g.readers),
			Registries: c45Set(g.registries),
		}
	}
	return cfg, ref
}

func c45Find(ref []c45Group, id GroupID) (c45Group, bool) {
	var out c45Group
	found := false
	for _, g := range ref {
		if g.id == id {
			out, found = g, true
		}
	}
	return out, found
}

func c45Segs(name string, n int) []*seg.Meta {
	out := make([]*seg.Meta, n)
	for i := range out {
		out[i] = &seg.Meta{
			Type: seg.Type(verif.NondetU8(name + ".type")),
			Segment: &seg.PathSegment{ASEntries: []seg.ASEntry{
				{Local: addr.IA(verif.NondetU64(name + ".first"))},
				{Local: addr.IA(verif.NondetU64(name + ".last"))},
			}},
		}
	}
	return out
}

// c45MayRegister is the first sentence of the property.
func c45MayRegister(ref []c45Group, local addr.IA, id GroupID, peer addr.IA, segs []*seg.Meta,
	verifies bool) bool {

	g, exists := c45Find(ref, id)
	allDown := true
	for _, s := range segs {
		allDown = allDown && s.Type == seg.TypeDown
	}
	return exists && c45In(peer, g.writers) && c45In(local, g.registries) && allDown && verifies
}

// c45MayRead is the condition of the second sentence for one requested group.
func c45MayRead(ref []c45Group, local addr.IA, id GroupID, peer addr.IA) bool {
	g, exists := c45Find(ref, id)
	member := g.owner == peer || c45In(peer, g.writers) || c45In(peer, g.readers) ||
		c45In(peer, g.registries)
	return exists && member && c45In(local, g.registries)
}

// ---- entries ------------------------------------------------------------------------------------

// VerifC45Register: a registration is stored only if the group exists, the sender is a writer, the
// local AS is a registry, all segments are down segments and they verify; then every segment is
// inserted under exactly the registered group; otherwise nothing is inserted.
func VerifC45Register() {
	cfg, ref := c45Groups()
	local := addr.IA(verif.NondetU64("local"))
	peer := addr.IA(verif.NondetU64("peer"))
	id := GroupID{OwnerAS: addr.AS(verif.NondetU64("reg.as")), Suffix: verif.NondetU16("reg.suffix")}
	segs := c45Segs("seg", verif.Param("segs"))
	ver := &c45Verifier{ok: verif.NondetBool("verifies")}
	db := &c45DB{failInsert: verif.NondetBool("db.fail")}
	h := RegistryServer{Groups: cfg, DB: &Storer{DB: db}, Verifier: ver, LocalIA: local}
	peerAddr := &snet.SVCAddr{IA: peer, SVC: addr.SvcCS}

	err := h.Register(context.Background(), Registration{Segments: segs, GroupID: id, Peer: peerAddr})

	allowed := c45MayRegister(ref, local, id, peer, segs, ver.ok)
	verif.Observe("register", err == nil, allowed, db.inserts, ver.calls)
	verif.Assert("accepted-only-if-group-writer-registry-down-verified", err != nil || allowed)
	verif.Assert("nothing-stored-unless-allowed", allowed || (db.inserts == 0 && len(db.rows) == 0))
	// the verdict used is the verifier's verdict on exactly these segments from exactly this peer
	if ver.calls > 0 {
		same := ver.calls == 1 && len(ver.segs) == len(segs) && ver.peer == net.Addr(peerAddr)
		for i := range segs {
			same = same && i < len(ver.segs) && ver.segs[i] == segs[i]
		}
		verif.Assert("verifier-sees-the-registered-segments-and-peer", same)
	}
	if err == nil {
		verif.Cover("register-accepted")
		stored := len(db.rows) == len(segs) && db.inserts == len(segs)
		for i := range segs {
			stored = stored && i < len(db.rows) && db.rows[i].meta == segs[i] &&
				len(db.rows[i].groups) == 1 &&
				db.rows[i].groups[0] == uint64(id.OwnerAS)<<16|uint64(id.Suffix)
		}
		verif.Assert("stored-under-exactly-the-registered-group", stored)
		verif.Assert("verified-before-stored", ver.calls == 1 || len(segs) == 0 && ver.calls <= 1)
	} else {
		verif.Cover("register-rejected")
		if allowed {
			verif.Cover("register-store-failure")
			verif.Assert("allowed-registration-fails-only-on-store-error", db.failInsert && len(segs) > 0)
		}
	}
	verif.Assert("only-hidden-segment-store-methods-used", db.other == 0 && db.gets == 0)
}

// VerifC45RegisterVacuity must fail: registrations are accepted.
func VerifC45RegisterVacuity() {
	cfg, _ := c45Groups()
	local := addr.IA(verif.NondetU64("local"))
	peer := addr.IA(verif.NondetU64("peer"))
	id := GroupID{OwnerAS: addr.AS(verif.NondetU64("reg.as")), Suffix: verif.NondetU16("reg.suffix")}
	segs := c45Segs("seg", verif.Param("segs"))
	ver := &c45Verifier{ok: verif.NondetBool("verifies")}
	db := &c45DB{}
	h := RegistryServer{Groups: cfg, DB: &Storer{DB: db}, Verifier: ver, LocalIA: local}
	err := h.Register(context.Background(), Registration{Segments: segs, GroupID: id,
		Peer: &snet.SVCAddr{IA: peer, SVC: addr.SvcCS}})
	verif.Assert("twin", err != nil)
}

func c45Request() SegmentRequest {
	n := verif.Param("req")
	req := SegmentRequest{
		DstIA: addr.IA(verif.NondetU64("req.dst")),
		Peer:  addr.IA(verif.NondetU64("req.peer")),
	}
	for i := 0; i < n; i++ {
		req.GroupIDs = append(req.GroupIDs, GroupID{OwnerAS: addr.AS(verif.NondetU64("req.as")),
			Suffix: verif.NondetU16("req.suffix")})
	}
	return req
}

// VerifC45Segments: the server answers only if every requested group exists, the requester is
// owner/writer/reader/registry of it and the server is one of its registries; the store is then
// asked for exactly (ends at DstIA, the requested groups) and its answer is returned unchanged.
func VerifC45Segments() {
	cfg, ref := c45Groups()
	local := addr.IA(verif.NondetU64("local"))
	req := c45Request()
	db := &c45DB{failGet: verif.NondetBool("db.fail")}
	// arbitrary store content: segments under arbitrary groups
	pre := c45Segs("row", verif.Param("rows"))
	for _, m := range pre {
		db.rows = append(db.rows, c45Row{meta: m, groups: []uint64{verif.NondetU64("row.group")}})
	}
	s := AuthoritativeServer{Groups: cfg, DB: &Storer{DB: db}, LocalIA: local}

	got, err := s.Segments(context.Background(), req)

	allowed := true
	for _, id := range req.GroupIDs {
		allowed = allowed && c45MayRead(ref, local, id, req.Peer)
	}
	verif.Observe("segments", err == nil, allowed, len(got), db.gets)
	verif.Assert("answers-only-if-every-group-exists-member-and-authoritative", err != nil || allowed)
	verif.Assert("store-not-consulted-unless-allowed", allowed || db.gets == 0)
	verif.Assert("nothing-returned-with-an-error", err == nil || len(got) == 0)
	if err == nil {
		verif.Cover("segments-answered")
		p := db.lastParams
		exact := db.gets == 1 && p != nil && len(p.EndsAt) == 1 && len(p.HPGroupIDs) == len(req.GroupIDs) &&
			len(p.SegIDs) == 0 && len(p.SegTypes) == 0 && len(p.Intfs) == 0 && len(p.StartsAt) == 0
		if exact {
			exact = p.EndsAt[0] == req.DstIA
			for i, id := range req.GroupIDs {
				exact = exact && p.HPGroupIDs[i] == uint64(id.OwnerAS)<<16|uint64(id.Suffix)
			}
		}
		verif.Assert("store-query-is-exactly-destination-and-requested-groups", exact)
		// returned = rows under a requested group that end at the destination
		want := 0
		okAll := true
		for _, r := range db.rows {
			inGroup := false
			for _, id := range req.GroupIDs {
				inGroup = inGroup || r.groups[0] == uint64(id.OwnerAS)<<16|uint64(id.Suffix)
			}
			exp := inGroup && r.meta.Segment.ASEntries[1].Local == req.DstIA
			found := false
			sameType := true
			for _, g := range got {
				if g.Segment == r.meta.Segment {
					found = true
					sameType = sameType && g.Type == r.meta.Type
				}
			}
			okAll = okAll && exp == found && sameType
			if found {
				want++
			}
		}
		verif.Assert("returns-exactly-the-matching-stored-segments", okAll && want == len(got))
		if len(got) > 0 {
			verif.Cover("segments-nonempty")
		}
	} else if allowed {
		verif.Cover("segments-store-failure")
		verif.Assert("allowed-request-fails-only-on-store-error-or-empty-request",
			db.failGet || len(req.GroupIDs) == 0)
	} else {
		verif.Cover("segments-denied")
	}
	verif.Assert("only-hidden-segment-store-methods-used", db.other == 0 && db.inserts == 0)
}

// VerifC45SegmentsVacuity must fail: requests are answered.
func VerifC45SegmentsVacuity() {
	cfg, _ := c45Groups()
	local := addr.IA(verif.NondetU64("local"))
	req := c45Request()
	db := &c45DB{}
	s := AuthoritativeServer{Groups: cfg, DB: &Storer{DB: db}, LocalIA: local}
	_, err := s.Segments(context.Background(), req)
	verif.Assert("twin", err != nil)
}

// VerifC45History: a sequence of registrations followed by one request, through the real Storer
// on the model store: the answer is exactly the set of segments that were registered by an allowed
// registration under one of the requested groups and that end at the requested destination.
func VerifC45History() {
	cfg, ref := c45Groups()
	local := addr.IA(verif.NondetU64("local"))
	db := &c45DB{}
	store := &Storer{DB: db}
	nreg := verif.Param("regs")
	type ghost struct {
		meta *seg.Meta
		id   GroupID
	}
	var registered []ghost
	for i := 0; i < nreg; i++ {
		peer := addr.IA(verif.NondetU64("peer"))
		id := GroupID{OwnerAS: addr.AS(verif.NondetU64("reg.as")), Suffix: verif.NondetU16("reg.suffix")}
		segs := c45Segs("seg", verif.Param("segs"))
		ver := &c45Verifier{ok: verif.NondetBool("verifies")}
		h := RegistryServer{Groups: cfg, DB: store, Verifier: ver, LocalIA: local}
		err := h.Register(context.Background(), Registration{Segments: segs, GroupID: id,
			Peer: &snet.SVCAddr{IA: peer, SVC: addr.SvcCS}})
		allowed := c45MayRegister(ref, local, id, peer, segs, ver.ok)
		verif.Assert("accepted-only-if-group-writer-registry-down-verified", err != nil || allowed)
		verif.Assert("allowed-registration-accepted-by-working-store", err == nil || !allowed)
		if allowed {
			for _, m := range segs {
				registered = append(registered, ghost{m, id})
			}
		}
	}
	req := c45Request()
	s := AuthoritativeServer{Groups: cfg, DB: store, LocalIA: local}
	got, err := s.Segments(context.Background(), req)
	allowed := true
	for _, id := range req.GroupIDs {
		allowed = allowed && c45MayRead(ref, local, id, req.Peer)
	}
	verif.Observe("history", err == nil, allowed, len(got), len(registered))
	verif.Assert("answers-only-if-every-group-exists-member-and-authoritative", err != nil || allowed)
	if err != nil {
		return
	}
	verif.Cover("history-answered")
	// every returned segment was registered under a requested group and ends at the destination
	sound := true
	for _, g := range got {
		just := false
		for _, r := range registered {
			inReq := false
			for _, id := range req.GroupIDs {
				inReq = inReq || id == r.id
			}
			just = just || (g.Segment == r.meta.Segment && inReq)
		}
		sound = sound && just && g.Segment.ASEntries[1].Local == req.DstIA && g.Type == seg.TypeDown
	}
	verif.Assert("returned-segments-were-registered-under-a-requested-group-and-end-at-destination", sound)
	// and every such registered segment is returned
	complete := true
	for _, r := range registered {
		inReq := false
		for _, id := range req.GroupIDs {
			inReq = inReq || id == r.id
		}
		found := false
		for _, g := range got {
			found = found || g.Segment == r.meta.Segment
		}
		complete = complete && (!inReq || found == (r.meta.Segment.ASEntries[1].Local == req.DstIA))
	}
	verif.Assert("all-matching-registered-segments-returned", complete)
	if len(got) > 0 {
		verif.Cover("history-nonempty")
	}
}
