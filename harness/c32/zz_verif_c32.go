//go:build verif || !verif

package cppki

// C32 — TRC updates are accepted only with the required votes and signatures.
//
// The real SignedTRC.Verify / verifyBase / verifyUpdate / verifyAll, TRC.ValidateUpdate /
// validateSensitive / validateRegular / detectNewVoters, classifyCerts and
// protocol.SignerInfo.FindCertificate (subject-key-identifier SIDs) run on struct-literal TRCs.
// Only SignedTRC.verifySignerInfo (CMS attribute parsing, digest, ECDSA) is replaced by the ideal
// signature relation vStubVerifySignerInfo (spec: func_stubs).

import (
	"crypto/x509"
	"encoding/asn1"
	"errors"

	"github.com/scionproto/scion/pkg/addr"
	"github.com/scionproto/scion/pkg/scrypto/cms/protocol"
	"github.com/scionproto/scion/zz_verif/verif"
)

var errVerifBadSignature = errors.New("verif: signature does not verify")

// vStubVerifySignerInfo is the ideal signature check: a signature is the pair (key tag, message
// tag); it verifies under a certificate iff the key tag is the certificate's key (= its subject key
// id in the pool) and the message tag is the TRC payload's tag (second byte of TRC.Raw).
func vStubVerifySignerInfo(s *SignedTRC, cert *x509.Certificate, si protocol.SignerInfo) error {
	if len(si.Signature) != 2 || len(s.TRC.Raw) != 2 || len(cert.SubjectKeyId) != 1 {
		return errVerifBadSignature
	}
	if si.Signature[0] != cert.SubjectKeyId[0] {
		return errVerifBadSignature
	}
	if si.Signature[1] != s.TRC.Raw[1] {
		return errVerifBadSignature
	}
	return nil
}

// vSI is the harness view of one signer info.
type vSI struct{ sid, key, msg byte }

const vRawTag = 0x77 // vTRC sets Raw = {0x30, 0x77}

func vSignerInfos(n int) ([]protocol.SignerInfo, []vSI) {
	var out []protocol.SignerInfo
	var view []vSI
	for i := 0; i < n; i++ {
		m := vSI{sid: verif.NondetU8("sid"), key: verif.NondetU8("sigkey"), msg: verif.NondetU8("sigmsg")}
		view = append(view, m)
		out = append(out, protocol.SignerInfo{
			Version:   3,
			SID:       asn1.RawValue{Class: asn1.ClassContextSpecific, Tag: 0, Bytes: []byte{m.sid}},
			Signature: []byte{m.key, m.msg},
		})
	}
	return out, view
}

// refSignedBy: some signer info names the certificate and carries a valid signature of its key over
// this payload.
func refSignedBy(sis []vSI, id byte) bool {
	r := false
	for _, si := range sis {
		r = vOr(r, vAnd(si.sid == id, vAnd(si.key == id, si.msg == vRawTag)))
	}
	return r
}

func refVotedBy(votes []int, k int) bool {
	r := false
	for _, v := range votes {
		r = vOr(r, v == k)
	}
	return r
}

// structural changes between predecessor and successor certificate lists (param "chg"/"chg2")
const (
	vchNone   = iota
	vchRekey  // same class and subject, new key / new Raw
	vchRename // replaced by a certificate of the same class with another subject (removed + added)
	vchRemove // removed
	vchAdd    // a further certificate of the same class is appended
	vchClass  // replaced by a certificate with the same subject of another TRC class
)

func vApplyChange(n []vCertDesc, chg, which int) []vCertDesc {
	if which >= len(n) {
		verif.Assume(false)
	}
	switch chg {
	case vchNone:
	case vchRekey:
		n[which].id += 0x10
		n[which].serial += 50
	case vchRename:
		n[which].id += 0x20
		n[which].serial += 60
		n[which].cn = "renamed-" + n[which].cn
		n[which].issuer = n[which].cn
	case vchRemove:
		n = append(n[:which:which], n[which+1:]...)
	case vchAdd:
		d := n[which]
		d.id += 0x30
		d.serial += 70
		d.cn = "added-" + d.cn
		d.issuer = d.cn
		n = append(n, d)
	case vchClass:
		n[which].id += 0x40
		n[which].serial += 80
		n[which].class = (n[which].class + 1) % 3
		if n[which].class == vcRoot {
			n[which].isd = 1
		}
	default:
		panic("unknown change")
	}
	return n
}

func vFindSame(l []vCertDesc, class int, cn string) int {
	for i, d := range l {
		if d.class == class && d.cn == cn {
			return i
		}
	}
	return -1
}

func vHasID(l []vCertDesc, class int, id byte) bool {
	for _, d := range l {
		if d.class == class && d.id == id {
			return true
		}
	}
	return false
}

// vUpdateCase is one predecessor/successor pair with its signer infos.
type vUpdateCase struct {
	predDescs, nextDescs []vCertDesc
	pred                 *TRC
	predQuorum           int
	predBase, predSerial uint64
	predNTR              bool
	next                 vScalars
	signed               SignedTRC
	sis                  []vSI
}

var vCoreA, vCoreB = addr.AS(0xff0000000110), addr.AS(0xff0000000111)

func vBuildUpdate() vUpdateCase {
	var c vUpdateCase
	ns, nr, nt := verif.Param("ns"), verif.Param("nr"), verif.Param("nt")
	c.predDescs = vPool(ns, nr, nt, false)
	// predecessor: a valid TRC of ISD 1 (statement: "successor of a TRC"); quorum, ID numbers and
	// the trust-reset flag are symbolic inside the valid range.
	maxQ := ns
	if nr < maxQ {
		maxQ = nr
	}
	c.predQuorum = verif.NondetInt("pred_quorum", 1, maxQ)
	c.predBase = verif.NondetU64("pred_base")
	c.predSerial = verif.NondetU64("pred_serial")
	verif.Assume(1 <= c.predBase)
	verif.Assume(c.predBase <= c.predSerial)
	verif.Assume(c.predSerial < 1<<63)
	c.predNTR = verif.NondetBool("pred_no_trust_reset")
	ps := vScalars{version: 1, isd: 1, base: c.predBase, serial: c.predSerial, nb: 10, na: 1000,
		quorum: c.predQuorum, noTrustReset: c.predNTR,
		core: []addr.AS{vCoreA, vCoreB}, auth: []addr.AS{vCoreA}}
	c.pred = vTRC(ps, c.predDescs)

	// successor certificates: the predecessor's with up to two structural changes
	c.nextDescs = append([]vCertDesc(nil), c.predDescs...)
	c.nextDescs = vApplyChange(c.nextDescs, verif.Param("chg"), verif.Param("which"))
	c.nextDescs = vApplyChange(c.nextDescs, verif.Param("chg2"), verif.Param("which2"))

	// successor scalars
	s := vScalars{
		version:      1,
		isd:          verif.NondetU16("isd"),
		base:         verif.NondetU64("base"),
		serial:       verif.NondetU64("serial"),
		nb:           20,
		na:           2000,
		quorum:       int(verif.NondetU64("quorum")),
		noTrustReset: verif.NondetBool("no_trust_reset"),
	}
	// C33 finding (negative quorum accepted by TRC.Validate) is outside this property's harness
	verif.Assume(s.quorum >= 0)
	nv := verif.Param("nv")
	s.votes = make([]int, nv)
	for i := range s.votes {
		s.votes[i] = int(verif.NondetU64("vote"))
	}
	s.core = vASList("core", verif.Param("ncore"))
	s.auth = vASList("auth", 1)
	c.next = s
	next := vTRC(s, c.nextDescs)

	infos, view := vSignerInfos(verif.Param("nsi"))
	c.sis = view
	c.signed = SignedTRC{Raw: []byte{0x30, 0x01}, TRC: *next, SignerInfos: infos}
	return c
}

// refUpdate states the acceptance conditions of the property for an accepted successor.
func refUpdate(ok bool, c vUpdateCase) {
	p, n, s := c.predDescs, c.nextDescs, c.next

	verif.Assert("accepted-only-if-same-isd", !ok || s.isd == 1)
	verif.Assert("accepted-only-if-same-base", !ok || s.base == c.predBase)
	verif.Assert("accepted-only-if-next-serial", !ok || s.serial == c.predSerial+1)
	verif.Assert("accepted-only-if-same-trust-reset-flag", !ok || s.noTrustReset == c.predNTR)
	// valid payload (rule list of C33)
	refScalarRules(ok, s, n)
	refCertRules(ok, s, n)

	// votes by distinct voting certificates of the predecessor that signed
	cntS, cntR := 0, 0
	for k, d := range p {
		cast := vAnd(refVotedBy(s.votes, k), refSignedBy(c.sis, d.id))
		inc := 0
		if cast {
			inc = 1
		}
		if d.class == vcSensitive {
			cntS += inc
		}
		if d.class == vcRegular {
			cntR += inc
		}
	}
	sensitiveOK := cntS >= c.predQuorum

	// regular update conditions
	structOK := vCount(p, vcSensitive) == vCount(n, vcSensitive) &&
		vCount(p, vcRegular) == vCount(n, vcRegular) && vCount(p, vcRoot) == vCount(n, vcRoot)
	replacedOK := true // symbolic: every replaced regular voter voted, every replaced root acknowledged
	for _, d := range n {
		switch d.class {
		case vcSensitive:
			// sensitive voting certificates unchanged
			structOK = structOK && vHasID(p, vcSensitive, d.id)
		case vcRegular, vcRoot:
			k := vFindSame(p, d.class, d.cn)
			if k < 0 {
				structOK = false // added (and, the counts being equal, another one removed)
				continue
			}
			if p[k].id == d.id {
				continue
			}
			oldSigned := refSignedBy(c.sis, p[k].id)
			if d.class == vcRegular {
				oldSigned = vAnd(oldSigned, refVotedBy(s.votes, k))
			}
			replacedOK = vAnd(replacedOK, oldSigned)
		}
	}
	sameLists := len(s.core) == 2 && len(s.auth) == 1
	if sameLists {
		sameLists = vAnd(s.core[0] == vCoreA, vAnd(s.core[1] == vCoreB, s.auth[0] == vCoreA))
	}
	regularOK := vAnd(cntR >= c.predQuorum, vAnd(s.quorum == c.predQuorum, vAnd(sameLists, replacedOK)))
	if !structOK {
		regularOK = false
	}
	verif.Assert("accepted-only-if-quorum-of-distinct-voters-signed", !ok || vOr(sensitiveOK, regularOK))

	// every newly introduced voting certificate has signed
	newSigned := true
	for _, d := range n {
		if (d.class == vcSensitive || d.class == vcRegular) && !vHasID(p, d.class, d.id) {
			newSigned = vAnd(newSigned, refSignedBy(c.sis, d.id))
		}
	}
	verif.Assert("accepted-only-if-new-voters-signed", !ok || newSigned)
}

// VerifC32Update: one predecessor/successor pair; shape parameters: pool (ns, nr, nt), structural
// changes (chg/which, chg2/which2), number of votes nv, core list length ncore, signer infos nsi.
func VerifC32Update() {
	c := vBuildUpdate()
	err := c.signed.Verify(c.pred)
	ok := err == nil
	verif.Observe("verify", ok)
	refUpdate(ok, c)
	if !ok {
		verif.Cover("update-rejected")
		return
	}
	verif.Cover("update-accepted")
	// the vote values are concrete on an accepting path (the vote look-ups forked on them)
	if v0 := c.next.votes[0]; v0 >= 0 && v0 < len(c.predDescs) {
		if c.predDescs[v0].class == vcRegular {
			verif.Cover("update-accepted-regular")
			if verif.Param("chg") == vchRekey {
				verif.Cover("update-accepted-regular-with-replaced-certificate")
			}
		} else {
			verif.Cover("update-accepted-sensitive")
			if verif.Param("chg") != vchNone {
				verif.Cover("update-accepted-sensitive-with-changed-certificates")
			}
		}
	}
}

// VerifC32UpdateVacuity: must be violated (some successor is accepted).
func VerifC32UpdateVacuity() {
	c := vBuildUpdate()
	verif.Assert("vacuity-some-update-accepted", c.signed.Verify(c.pred) != nil)
}

// VerifC32Base: a base TRC is accepted only if it is valid and signed by all its voting certificates.
func VerifC32Base() {
	descs := vPool(verif.Param("ns"), verif.Param("nr"), verif.Param("nt"), false)
	s := vScalars{
		version:      int(verif.NondetU64("version")),
		isd:          verif.NondetU16("isd"),
		base:         verif.NondetU64("base"),
		serial:       verif.NondetU64("serial"),
		nb:           20,
		na:           2000,
		grace:        int64(verif.NondetU64("grace")),
		quorum:       int(verif.NondetU64("quorum")),
		noTrustReset: verif.NondetBool("no_trust_reset"),
		core:         []addr.AS{vCoreA, vCoreB},
		auth:         []addr.AS{vCoreA},
	}
	verif.Assume(s.quorum >= 0)
	verif.Assume(s.base == s.serial) // base TRC
	trc := vTRC(s, descs)
	infos, view := vSignerInfos(verif.Param("nsi"))
	signed := SignedTRC{Raw: []byte{0x30, 0x01}, TRC: *trc, SignerInfos: infos}
	err := signed.Verify(nil)
	ok := err == nil
	verif.Observe("verify-base", ok)
	refScalarRules(ok, s, descs)
	refCertRules(ok, s, descs)
	all := true
	for _, d := range descs {
		if d.class == vcSensitive || d.class == vcRegular {
			all = vAnd(all, refSignedBy(view, d.id))
		}
	}
	verif.Assert("base-accepted-only-if-all-voters-signed", !ok || all)
	if ok {
		verif.Cover("base-accepted")
	} else {
		verif.Cover("base-rejected")
	}
}

// VerifC32BaseVacuity: must be violated.
func VerifC32BaseVacuity() {
	descs := vPool(1, 1, 1, false)
	s := vScalars{version: 1, isd: 1, base: 1, serial: 1, nb: 20, na: 2000, quorum: 1,
		core: []addr.AS{vCoreA}, auth: []addr.AS{vCoreA}}
	trc := vTRC(s, descs)
	infos, _ := vSignerInfos(2)
	signed := SignedTRC{Raw: []byte{0x30, 0x01}, TRC: *trc, SignerInfos: infos}
	verif.Assert("vacuity-some-base-accepted", signed.Verify(nil) != nil)
}
