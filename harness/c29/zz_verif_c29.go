//go:build verif || !verif

package combinator

import (
	"github.com/scionproto/scion/zz_verif/verif"
)

// VerifC29Shape: completeness of the real Combine against the brute-force enumeration of segment
// joins (vEnumerate, written from the property statement): every interface sequence obtainable by
// joining at most one up, one core and one down segment (in that order) at common ASes, with
// shortcuts and with peering links announced by both sides, is returned unless some AS occurs in
// more than two of its interface entries.
func VerifC29Shape() {
	shape := verif.Param("shape")
	src, dst, ups, cores, downs := vShape(shape)
	verif.AssumeInjective("sha256", 0)
	all := verif.NondetBool("findAllIdentical")
	refs := vEnumerate(src, dst, ups, cores, downs)
	paths := Combine(src, dst, ups, cores, downs, all)
	verif.Observe("npaths", len(paths), len(refs))
	verif.Cover("combined")
	for ri := range refs {
		r := &refs[ri]
		want := r.interfaces()
		if vVisitsMoreThanTwice(want) {
			verif.Cover("loop-excluded")
			continue
		}
		if len(r.parts) == 2 && r.parts[0].peer {
			verif.Cover("peering-combination")
		}
		if len(r.parts) == 2 && !r.parts[0].peer && r.parts[1].consDir && r.parts[1].cut > 0 {
			verif.Cover("shortcut-combination")
		}
		var found uint8
		for k := range paths {
			found |= vSameIntfs(paths[k].Metadata.Interfaces, want)
		}
		// valid => found
		verif.Assert("every-valid-combination-is-returned", vB2U(r.valid)&(1-found) == 0)
		if all {
			// identical paths requested: the combination itself (same hop fields) is returned
			var exact uint8
			raw := r.raw()
			for k := range paths {
				exact |= vSameBytes(paths[k].SCIONPath.Raw, raw)
			}
			verif.Assert("every-valid-combination-is-returned-as-such", vB2U(r.valid)&(1-exact) == 0)
		}
	}
}

// VerifC29Twin must fail: the peering combination of shape 2 is not always present (only when both
// sides announce the link).
func VerifC29Twin() {
	src, dst, ups, cores, downs := vShape(2)
	verif.AssumeInjective("sha256", 0)
	paths := Combine(src, dst, ups, cores, downs, false)
	verif.Assert("twin", len(paths) == 2)
}
