//go:build verif || !verif

package udpip

import (
	"errors"

	"github.com/scionproto/scion/router"
	underlayconn "github.com/scionproto/scion/private/underlay/conn"
	"github.com/scionproto/scion/zz_verif/verif"
)

// C14 — every packet buffer has exactly one owner (per-stage linear ownership).
//
// Stage udpConnection.send: the harness owns a pool of n packets, takes all of them (as the
// processing stage would) and hands them to the connection's queue. The real send loop then runs
// against a BatchConn whose WriteBatch returns any count in [-1, len(msgs)] and during which the
// connection may be stopped (what udpConnection.stop does: running=false, close(queue)). When the
// loop has returned, a census of the pool says where every packet went.

var errC14 = errors.New("verif: injected socket error")

type c14SendConn struct {
	u        *udpConnection
	calls    int
	maxCalls int
	written  int // packets the socket accepted
}

func (c *c14SendConn) ReadBatch(underlayconn.Messages) (int, error) { return 0, errC14 }
func (c *c14SendConn) Close() error                                 { return nil }

func (c *c14SendConn) WriteBatch(msgs underlayconn.Messages, flags int) (int, error) {
	c.calls++
	n := len(msgs)
	w := verif.Choose("written", n+2) - 1 // -1 (error) .. n
	acc := w
	if acc < 0 {
		acc = 0
	}
	left := n - acc
	if acc < n {
		left-- // the send loop drops the first unsent packet and retries the rest
	}
	// Shutdown may arrive during any WriteBatch; it has to arrive when nothing is left to do
	// (the bounded scenario has no further traffic, the loop would wait for ever).
	stop := c.calls >= c.maxCalls || (left == 0 && len(c.u.queue) == 0)
	if !stop {
		stop = verif.Choose("stop", 2) == 1
	}
	if stop && c.u.running.Load() {
		c.u.running.Store(false)
		close(c.u.queue)
	}
	c.written += acc
	if w < 0 {
		return -1, errC14
	}
	return w, nil
}

// VerifC14Send params: n (packets queued), batch (batch size), calls (max WriteBatch calls)
func VerifC14Send() {
	n := verif.Param("n")
	batch := verif.Param("batch")
	pool, all := router.VerifC14NewPool(n)
	u := &udpConnection{
		name:      "verif",
		queue:     make(chan *router.Packet, n),
		metrics:   &router.InterfaceMetrics{},
		connected: verif.Choose("connected", 2) == 1,
	}
	c := &c14SendConn{u: u, maxCalls: verif.Param("calls")}
	u.conn = c
	u.running.Store(true)
	for i := 0; i < n; i++ {
		p := pool.Get()
		p.RawPacket = p.RawPacket[:100]
		u.queue <- p
	}

	u.send(batch, pool)

	times, foreign := router.VerifC14Census(pool, all)
	inQueue := len(u.queue)
	once, twice, lost := 0, 0, 0
	for _, t := range times {
		switch {
		case t == 1:
			once++
		case t > 1:
			twice++
		default:
			lost++
		}
	}
	verif.Observe("census", once, twice, lost, inQueue, foreign, c.written)
	verif.Assert("send-no-packet-returned-twice", twice == 0 && foreign == 0)
	// every packet the stage took from its queue is back in the pool when the stage has ended
	verif.Assert("send-stage-retains-no-packet-at-exit", lost == inQueue)
	// nothing is left behind in the queue of a stopped connection
	verif.Assert("send-queue-drained-at-shutdown", inQueue == 0)
	if c.written > 0 && c.written < n {
		verif.Cover("send-partial-writes")
	}
	if c.calls > 1 {
		verif.Cover("send-several-batches")
	}
}

// VerifC14SendTwin: reachability twin ("no packet ever returns to the pool" must be violated).
func VerifC14SendTwin() {
	n := verif.Param("n")
	pool, all := router.VerifC14NewPool(n)
	u := &udpConnection{name: "verif", queue: make(chan *router.Packet, n), metrics: &router.InterfaceMetrics{}}
	c := &c14SendConn{u: u, maxCalls: verif.Param("calls")}
	u.conn = c
	u.running.Store(true)
	for i := 0; i < n; i++ {
		p := pool.Get()
		p.RawPacket = p.RawPacket[:100]
		u.queue <- p
	}
	u.send(verif.Param("batch"), pool)
	times, _ := router.VerifC14Census(pool, all)
	back := 0
	for _, t := range times {
		back += t
	}
	verif.Assert("twin", back == 0)
}
