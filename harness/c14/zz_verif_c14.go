//go:build verif || !verif

package udpip

import (
	"errors"
	"net"

	"github.com/scionproto/scion/router"
	underlayconn "github.com/scionproto/scion/private/underlay/conn"
	"github.com/scionproto/scion/zz_verif/verif"
)

// C14 — every packet buffer has exactly one owner (per-stage linear ownership).
//
// Stage udpConnection.send: the harness owns a pool of n packets, takes all of them (as the
// processing stage would) and hands them to the connection's queue. The real send loop then runs
// against a BatchConn whose WriteBatch returns any count in [-1, len(msgs)] and during which the
// connection may be stopped (what udpConnection.stop does: running=false, close(queue)). When the
// loop has returned, a census of the pool says where every packet went.

var errC14 = errors.New("verif: injected socket error")

type c14SendConn struct {
	u        *udpConnection
	calls    int
	maxCalls int
	written  int // packets the socket accepted
	pending  bool // shutdown arrived while packets were still queued or held by the stage
}

func (c *c14SendConn) ReadBatch(underlayconn.Messages) (int, error) { return 0, errC14 }
func (c *c14SendConn) Close() error                                 { return nil }

func (c *c14SendConn) WriteBatch(msgs underlayconn.Messages, flags int) (int, error) {
	c.calls++
	n := len(msgs)
	w := int(verif.Concrete(uint64(verif.NondetInt("written", -1, n)))) // -1 (error) .. n, enumerated by the solver
	acc := w
	if acc < 0 {
		acc = 0
	}
	left := n - acc
	if acc < n {
		left-- // the send loop drops the first unsent packet and retries the rest
	}
	// Shutdown may arrive during any WriteBatch; it has to arrive when nothing is left to do
	// (the bounded scenario has no further traffic, the loop would wait for ever).
	stop := c.calls >= c.maxCalls || (left == 0 && len(c.u.queue) == 0)
	if !stop {
		stop = verif.Choose("stop", 2) == 1
	}
	if stop && c.u.running.Load() {
		c.pending = left > 0 || len(c.u.queue) > 0
		c.u.running.Store(false)
		close(c.u.queue)
	}
	c.written += acc
	if w < 0 {
		return -1, errC14
	}
	return w, nil
}

// VerifC14Send params: n (packets queued), batch (batch size), calls (max WriteBatch calls)
func VerifC14Send() {
	n := verif.Param("n")
	batch := verif.Param("batch")
	pool, all := router.VerifC14NewPool(n)
	u := &udpConnection{
		name:      "verif",
		queue:     make(chan *router.Packet, n),
		metrics:   router.VerifC14InterfaceMetrics(),
		connected: verif.Choose("connected", 2) == 1,
	}
	c := &c14SendConn{u: u, maxCalls: verif.Param("calls")}
	u.conn = c
	u.running.Store(true)
	for i := 0; i < n; i++ {
		p := pool.Get()
		p.RawPacket = p.RawPacket[:100]
		u.queue <- p
	}

	u.send(batch, pool)

	times, foreign := router.VerifC14Census(pool, all)
	inQueue := len(u.queue)
	once, twice, lost := 0, 0, 0
	for _, t := range times {
		switch {
		case t == 1:
			once++
		case t > 1:
			twice++
		default:
			lost++
		}
	}
	verif.Observe("census", once, twice, lost, inQueue, foreign, c.written)
	verif.Assert("send-no-packet-returned-twice", twice == 0 && foreign == 0)
	// shutdown arriving when all traffic has been handled: every packet is back in the pool
	if !c.pending {
		verif.Assert("send-every-packet-returned-once-when-stopped-idle", once == n)
		verif.Cover("send-stopped-idle")
	} else {
		verif.Cover("send-stopped-with-pending-packets")
	}
	// every packet the stage took from its queue is back in the pool when the stage has ended
	verif.Assert("send-stage-retains-no-packet-at-exit", lost == inQueue)
	// nothing is left behind in the queue of a stopped connection
	verif.Assert("send-queue-drained-at-shutdown", inQueue == 0)
	if c.written > 0 && c.written < n {
		verif.Cover("send-partial-writes")
	}
	if c.calls > 1 {
		verif.Cover("send-several-batches")
	}
}

// VerifC14SendTwin: reachability twin ("no packet ever returns to the pool" must be violated).
func VerifC14SendTwin() {
	n := verif.Param("n")
	pool, all := router.VerifC14NewPool(n)
	u := &udpConnection{name: "verif", queue: make(chan *router.Packet, n), metrics: router.VerifC14InterfaceMetrics()}
	c := &c14SendConn{u: u, maxCalls: verif.Param("calls")}
	u.conn = c
	u.running.Store(true)
	for i := 0; i < n; i++ {
		p := pool.Get()
		p.RawPacket = p.RawPacket[:100]
		u.queue <- p
	}
	u.send(verif.Param("batch"), pool)
	times, _ := router.VerifC14Census(pool, all)
	back := 0
	for _, t := range times {
		back += t
	}
	verif.Assert("twin", back == 0)
}

// Stage udpConnection.receive (with the real internalLink.receive as the distinguished link): the
// BatchConn's ReadBatch returns an error or any number of messages in [0, len(msgs)]; shutdown
// (running=false) may arrive during any ReadBatch; the processing queue has a small capacity, so
// hand-over succeeds or finds the queue full. At the end every packet of the pool is either back
// in the pool or in the processing queue, exactly once.

type c14RecvConn struct {
	u         *udpConnection
	calls     int
	maxCalls  int
	delivered int
	symhdr    int // number of messages (counted from the first) whose SCION header bytes are symbolic
	addr      *net.UDPAddr
}

func (c *c14RecvConn) WriteBatch(underlayconn.Messages, int) (int, error) { return 0, errC14 }
func (c *c14RecvConn) Close() error                                        { return nil }

func (c *c14RecvConn) ReadBatch(msgs underlayconn.Messages) (int, error) {
	c.calls++
	stop := c.calls >= c.maxCalls
	if !stop {
		stop = verif.Choose("stop", 2) == 1
	}
	if stop {
		c.u.running.Store(false)
	}
	k := int(verif.Concrete(uint64(verif.NondetInt("read", -1, len(msgs))))) // -1 = error
	if k < 0 {
		return 0, errC14
	}
	for i := 0; i < k; i++ {
		// the common header decides the processing queue (computeProcID): partly symbolic for the
		// first symhdr messages, a fixed UDP/IPv4 header otherwise
		b := msgs[i].Buffers[0]
		if c.delivered < c.symhdr {
			// symbolic flow id (queue selection by hash) and L4 type: UDP, or 0x21 (STUN overlap,
			// "not a SCION packet"); address types stay IPv4
			h := verif.NondetBytes("hdr", 4)
			verif.Assume(h[0] == 17 || h[0] == 0x21)
			b[4] = h[0]
			copy(b[1:4], h[1:4])
		} else {
			b[4] = 17
		}
		msgs[i].N = 100
		msgs[i].Addr = c.addr
		c.delivered++
	}
	return k, nil
}

// c14RecvSetup builds a connection whose distinguished link is of the requested kind
// (0 internalLink, 1 connectedLink, 2 detachedLink) with two processing queues of capacity qcap.
func c14RecvSetup(kind, qcap int, pool router.PacketPool) (*udpConnection, []chan *router.Packet) {
	qs := []chan *router.Packet{make(chan *router.Packet, qcap), make(chan *router.Packet, qcap)}
	m := router.VerifC14InterfaceMetrics()
	seed := verif.NondetU32("seed")
	var l udpLink
	switch kind {
	case 1:
		l = &connectedLink{procQs: qs, name: "verif", metrics: m, pool: pool, seed: seed, ifID: 1}
	case 2:
		l = &detachedLink{procQs: qs, name: "verif", metrics: m, pool: pool, seed: seed}
	default:
		pq := make(chan *router.Packet, qcap)
		l = &internalLink{procQ: pq, procQs: qs, metrics: m, pool: pool, seed: seed}
		qs = append(qs, pq)
	}
	return &udpConnection{name: "verif", link: l, metrics: m}, qs
}

// VerifC14Receive params: link, batch, calls (max ReadBatch calls), qcap, symhdr
func VerifC14Receive() {
	batch := verif.Param("batch")
	calls := verif.Param("calls")
	n := batch * (calls + 1)
	pool, all := router.VerifC14NewPool(n)
	u, qs := c14RecvSetup(verif.Param("link"), verif.Param("qcap"), pool)
	c := &c14RecvConn{u: u, maxCalls: calls, symhdr: verif.Param("symhdr"),
		addr: &net.UDPAddr{IP: net.IP{10, 0, 0, 1}, Port: 30042}}
	u.conn = c
	u.running.Store(true)

	u.receive(batch, pool)

	times, foreign := router.VerifC14Census(pool, all)
	queued := make([]int, n)
	nq := 0
	for _, q := range qs {
		k := len(q)
		nq += k
		for i := 0; i < k; i++ {
			p := <-q
			for j, r := range all {
				if p == r {
					queued[j]++
				}
			}
		}
	}
	ok, lost, dup := true, 0, 0
	for j := range all {
		owners := times[j] + queued[j]
		if owners == 0 {
			lost++
		}
		if owners > 1 {
			dup++
		}
		ok = ok && owners == 1
	}
	verif.Observe("census", nq, lost, dup, foreign, c.delivered)
	verif.Assert("receive-every-packet-has-exactly-one-owner-at-exit", ok && foreign == 0)
	verif.Assert("receive-handed-over-at-most-what-was-read", nq <= c.delivered)
	if nq > 0 && nq < c.delivered {
		verif.Cover("receive-drop")
	}
	if nq >= 2 {
		verif.Cover("receive-hand-over")
	}
	if c.calls > 1 {
		verif.Cover("receive-several-batches")
	}
}

// VerifC14ReceiveTwin: reachability twin ("nothing is ever handed to the processing queue").
func VerifC14ReceiveTwin() {
	batch := verif.Param("batch")
	calls := verif.Param("calls")
	pool, _ := router.VerifC14NewPool(batch * (calls + 1))
	u, qs := c14RecvSetup(0, 2, pool)
	c := &c14RecvConn{u: u, maxCalls: calls, addr: &net.UDPAddr{IP: net.IP{10, 0, 0, 1}, Port: 30042}}
	u.conn = c
	u.running.Store(true)
	u.receive(batch, pool)
	verif.Assert("twin", len(qs[0])+len(qs[1])+len(qs[2]) == 0)
}
