//go:build verif || !verif

package router

// Harness support for C14 (package router side): the packet pool is a concrete type with unexported
// state, so the pool used by the udpip stage harnesses is built and inspected here, with the real
// makePacketPool / Packet.init / PacketPool.Put code.

// VerifC14NewPool returns a pool holding n fresh packets (and the packets, for the census). The
// channel has room for 2n entries so that a double Put shows up in the census instead of blocking.
func VerifC14NewPool(n int) (PacketPool, []*Packet) {
	pool := makePacketPool(2*n, 0)
	all := make([]*Packet, n)
	for i := range all {
		all[i] = (&Packet{}).init(&[bufSize]byte{})
		pool.Put(all[i])
	}
	return pool, all
}

// VerifC14Census reports, for every packet of all, how many times it currently sits in the pool
// (the pool content is left unchanged), and how many pool entries are none of them.
func VerifC14Census(pool PacketPool, all []*Packet) (times []int, foreign int) {
	times = make([]int, len(all))
	k := len(pool.pool)
	for i := 0; i < k; i++ {
		p := <-pool.pool
		found := false
		for j, q := range all {
			if p == q {
				times[j]++
				found = true
			}
		}
		if !found {
			foreign++
		}
		pool.pool <- p
	}
	return
}

// VerifC14InterfaceMetrics returns real interface metrics built from the package's metrics
// registry (under the engine prometheus is a no-op package and all counters are inert).
func VerifC14InterfaceMetrics() *InterfaceMetrics {
	return newInterfaceMetrics(metrics, 1, 0, "", 0)
}
