//go:build verif || !verif

package udpip

import (
	"net/netip"

	"github.com/scionproto/scion/pkg/addr"
	"github.com/scionproto/scion/private/env"
	"github.com/scionproto/scion/private/topology"
	"github.com/scionproto/scion/router"
	"github.com/scionproto/scion/router/config"
	"github.com/scionproto/scion/router/control"
	"github.com/scionproto/scion/zz_verif/verif"
)

// C17: "the configured receive buffer size is requested as the receive buffer and the configured
// send buffer size as the send buffer of every underlay socket the router opens (internal, sibling
// and external links)".
//
// No socket is ever opened: the provider's connection opener (the ConnOpener seam that uo{} /
// conn.New normally fills) is replaced by vRecOpener (zz_verif_common.go), which records the
// *conn.Config it is handed.
// Everything between the public configuration API (router.NewConnector + Add*Interface) and that
// call is the real code.

var (
	vLocalIA  = addr.MustIAFrom(1, 0xff0000000110)
	vRemoteIA = addr.MustIAFrom(1, 0xff0000000111)
)

// vAddrs is the (concrete) address plan; index 1 is the IPv6 variant.
type vAddrPlan struct {
	internal, extLocal, extRemote, sibRemote, ext2Local, ext2Remote string
	host, extRemoteHost, sibHost, ext2RemoteHost                 string
}

var vAddrs = [2]vAddrPlan{
	{
		internal: "10.0.0.1:30042", extLocal: "10.1.0.1:50000", extRemote: "10.1.0.2:50000",
		sibRemote: "10.0.0.2:30042", ext2Local: "10.2.0.1:50001", ext2Remote: "10.2.0.2:50001",
		host: "10.0.0.1", extRemoteHost: "10.1.0.2", sibHost: "10.0.0.2", ext2RemoteHost: "10.2.0.2",
	},
	{
		internal: "[fd00::1]:30042", extLocal: "[fd00:1::1]:50000", extRemote: "[fd00:1::2]:50000",
		sibRemote: "[fd00::2]:30042", ext2Local: "[fd00:2::1]:50001", ext2Remote: "[fd00:2::2]:50001",
		host: "fd00::1", extRemoteHost: "fd00:1::2", sibHost: "fd00::2", ext2RemoteHost: "fd00:2::2",
	},
}

func vBufSizes() (int, int) {
	// RouterConfig.ReceiveBufferSize / SendBufferSize are plain ints: every 64-bit value is a
	// configuration (the toml layer does not restrict them).
	rcv := int(verif.NondetU64("rcv"))
	snd := int(verif.NondetU64("snd"))
	return rcv, snd
}

// vConnector builds a connector through the public API with the given buffer sizes.
func vConnector(rcv, snd int) *router.Connector {
	c := router.NewConnector(config.RouterConfig{
		ReceiveBufferSize: rcv,
		SendBufferSize:    snd,
		BatchSize:         8,
		BFD:               config.BFD{Disable: true},
	}, env.Features{})
	if err := c.CreateIACtx(vLocalIA); err != nil {
		verif.Unreachable("setup-create-ia")
	}
	return c
}

func vLink(provider string, local, remote string) control.LinkInfo {
	return control.LinkInfo{
		Provider: provider,
		Local:    control.LinkEnd{IA: vLocalIA, Addr: local, IfID: 0},
		Remote:   control.LinkEnd{IA: vRemoteIA, Addr: remote, IfID: 0},
		LinkTo:   topology.Core,
		MTU:      1400,
	}
}

func vHost(s string) addr.Host { return addr.HostIP(netip.MustParseAddr(s)) }

// vCheckOpen states the property for one recorded socket open.
func vCheckOpen(kind string, o vOpenRec, rcv, snd int) {
	gotR, gotS := o.cfg.ReceiveBufferSize, o.cfg.SendBufferSize
	verif.Observe(kind, gotR == rcv, gotS == snd)
	// what holds even with the two sizes exchanged: no size is invented, dropped or duplicated
	verif.Assert(kind+"-socket-buffer-sizes-are-the-configured-pair",
		(gotR == rcv && gotS == snd) || (gotR == snd && gotS == rcv))
	// the property
	verif.Assert(kind+"-socket-buffers-match-configured-receive-and-send-size", gotR == rcv && gotS == snd)
}

// VerifC17Connector: the router's public configuration API (NewConnector, CreateIACtx,
// AddInternalInterface, AddExternalInterface owned / not owned).
//
//	kind  = 0 internal link, 1 external link, 2 sibling link: the link whose socket is judged
//	        (the internal interface is always configured first, as ConfigDataplane does);
//	        3: internal, external, sibling and a second external link together, judged on the last
//	alt   = 0: all links use the eagerly instantiated "udpip" provider
//	        1: external / sibling links name a provider that the data plane instantiates on first use
//	           (AddExternalInterface for kind 1 and 3, AddNextHop for kind 2)
//	reuse = what ConnOpener.UDPCanReuseLocal answers: 1 sibling links get their own connected
//	        socket, 0 they are detached links sharing the internal socket
//	v6    = address family of the concrete address plan
func VerifC17Connector() {
	rcv, snd := vBufSizes()
	kind := verif.Param("kind")
	alt := verif.Param("alt") == 1
	ap := vAddrs[verif.Param("v6")]
	op := &vRecOpener{reuse: verif.Param("reuse") == 1}
	vInstall(op)
	defer vUninstall()

	c := vConnector(rcv, snd)
	host := vHost(ap.host)
	if err := c.AddInternalInterface(vLocalIA, host, "udpip", ap.internal); err != nil {
		verif.Unreachable("setup-internal")
	}
	verif.Assert("internal-link-opens-one-socket", len(op.opens) == 1)
	if kind == 0 {
		verif.Cover("internal-opened")
		vCheckOpen("internal", op.opens[0], rcv, snd)
		return
	}

	prov := "udpip"
	if alt {
		prov = vAltProvider
	}
	if kind == 1 || kind == 3 {
		// external (owned) interface 5
		n := len(op.opens)
		err := c.AddExternalInterface(5, vLink(prov, ap.extLocal, ap.extRemote), host, vHost(ap.extRemoteHost), true)
		if err != nil {
			verif.Unreachable("setup-external")
		}
		verif.Assert("external-link-opens-one-socket", len(op.opens) == n+1)
		if kind == 1 {
			verif.Cover("external-opened")
			vCheckOpen("external", op.opens[n], rcv, snd)
			return
		}
	}

	// sibling (not owned) interface 7, reached through a sibling router
	n := len(op.opens)
	err := c.AddExternalInterface(7, vLink(prov, ap.internal, ap.sibRemote), host, vHost(ap.sibHost), false)
	if err != nil {
		verif.Unreachable("setup-sibling")
	}
	if op.reuse {
		// connected sibling link: own socket
		verif.Assert("sibling-link-opens-one-socket", len(op.opens) == n+1)
		if kind == 2 {
			verif.Cover("sibling-opened")
			vCheckOpen("sibling", op.opens[n], rcv, snd)
		}
	} else {
		// detached sibling link: shares the internal socket (judged by kind 0)
		verif.Assert("detached-sibling-opens-no-socket", len(op.opens) == n)
		verif.Cover("sibling-detached")
	}
	if kind == 2 {
		return
	}

	// a second external interface, after everything else
	n = len(op.opens)
	err = c.AddExternalInterface(9, vLink(prov, ap.ext2Local, ap.ext2Remote), host, vHost(ap.ext2RemoteHost), true)
	if err != nil {
		verif.Unreachable("setup-external2")
	}
	verif.Assert("external-link-opens-one-socket", len(op.opens) == n+1)
	verif.Cover("all-links-opened")
	vCheckOpen("external2", op.opens[n], rcv, snd)
}

// VerifC17Provider: the udpip half alone — whatever (receive, send) pair the provider is created
// with reaches the opener of every link kind unswapped.
func VerifC17Provider() {
	rcv, snd := vBufSizes()
	ap := vAddrs[verif.Param("v6")]
	op := &vRecOpener{reuse: verif.Param("reuse") == 1}
	p := newProvider(8, rcv, snd)
	p.SetConnOpener(op)
	var m router.InterfaceMetrics

	if _, err := p.NewInternalLink(ap.internal, 8, &m); err != nil {
		verif.Unreachable("setup-internal")
	}
	verif.Assert("internal-link-opens-one-socket", len(op.opens) == 1)
	gotR, gotS := op.opens[0].cfg.ReceiveBufferSize, op.opens[0].cfg.SendBufferSize
	verif.Assert("provider-internal-socket-gets-provider-sizes", gotR == rcv && gotS == snd)

	if _, err := p.NewExternalLink(8, nil, ap.extLocal, ap.extRemote, 5, &m); err != nil {
		verif.Unreachable("setup-external")
	}
	verif.Assert("external-link-opens-one-socket", len(op.opens) == 2)
	gotR, gotS = op.opens[1].cfg.ReceiveBufferSize, op.opens[1].cfg.SendBufferSize
	verif.Assert("provider-external-socket-gets-provider-sizes", gotR == rcv && gotS == snd)

	if _, err := p.NewSiblingLink(8, nil, ap.internal, ap.sibRemote, &m); err != nil {
		verif.Unreachable("setup-sibling")
	}
	if op.reuse {
		verif.Assert("sibling-link-opens-one-socket", len(op.opens) == 3)
		gotR, gotS = op.opens[2].cfg.ReceiveBufferSize, op.opens[2].cfg.SendBufferSize
		verif.Assert("provider-sibling-socket-gets-provider-sizes", gotR == rcv && gotS == snd)
		verif.Cover("provider-sibling-opened")
	} else {
		verif.Assert("detached-sibling-opens-no-socket", len(op.opens) == 2)
	}
	verif.Observe("opens", len(op.opens))
	verif.Cover("provider-links-opened")
}

// VerifC17Vacuity is the reachability twin: its assertion must be violated (the recorded
// configuration is not constant).
func VerifC17Vacuity() {
	rcv, snd := vBufSizes()
	op := &vRecOpener{reuse: true}
	p := newProvider(8, rcv, snd)
	p.SetConnOpener(op)
	var m router.InterfaceMetrics
	if _, err := p.NewInternalLink("10.0.0.1:30042", 8, &m); err != nil {
		verif.Unreachable("setup-internal")
	}
	verif.Assert("twin", op.opens[0].cfg.ReceiveBufferSize != 4096)
}
