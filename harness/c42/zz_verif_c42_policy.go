//go:build verif || !verif

package dataplane

import (
	"net/netip"

	"github.com/scionproto/scion/gateway/routing"
	"github.com/scionproto/scion/pkg/addr"
	"github.com/scionproto/scion/zz_verif/verif"
)

// C42 (b): a routing policy accepts exactly the addresses of a prefix for which the first accept
// or reject rule matching the ISD-AS pair and the address accepts (or, if none matches, the
// default action is accept).
//
// The policy is kept twice: as specification data (c42rule) and as the real routing.Policy. The
// reference decision is computed per address on the specification data; the real decision is
// Policy.Match(from, to, prefix).Contains(address).

type c42ia struct {
	ia      uint64 // ISD (16 bit) | AS (48 bit); a zero part is a wildcard
	negated bool
}

type c42net struct {
	addr uint32
	bits int
}

type c42rule struct {
	action   int // routing.Action value
	from, to c42ia
	nets     []c42net
	negated  bool
}

// c42matchIA: a zero ISD / AS in the matcher is a wildcard; "!" negates.
func c42matchIA(m c42ia, ia uint64) bool {
	isdOK := m.ia>>48 == 0 || m.ia>>48 == ia>>48
	asOK := m.ia&0xffffffffffff == 0 || m.ia&0xffffffffffff == ia&0xffffffffffff
	return (isdOK && asOK) != m.negated
}

func c42inNet(n c42net, a uint32) bool {
	if n.bits == 0 {
		return true
	}
	return (a^n.addr)>>(32-uint(n.bits)) == 0
}

func c42matchNet(r *c42rule, a uint32) bool {
	in := false
	for _, n := range r.nets {
		c := c42inNet(n, a)
		in = in || c
	}
	return in != r.negated
}

// c42policyRef is the reference decision for one address.
func c42policyRef(rules []*c42rule, deflt int, from, to uint64, a uint32) bool {
	decided := false
	accept := false
	for _, r := range rules {
		isAR := r.action == int(routing.Accept) || r.action == int(routing.Reject)
		m := isAR && c42matchIA(r.from, from) && c42matchIA(r.to, to) && c42matchNet(r, a)
		first := m && !decided
		if first {
			accept = r.action == int(routing.Accept)
		}
		decided = decided || m
	}
	if !decided {
		return deflt == int(routing.Accept)
	}
	return accept
}

var c42lenPool = [4]int{8, 16, 24, 12}

// c42pool is the family of concrete prefixes the multi-rule policies are drawn from: nested,
// adjacent, disjoint, host route, default route.
var c42pool = [8]c42net{
	{addr: 10 << 24, bits: 8},                     // 10.0.0.0/8
	{addr: 10<<24 | 1<<16, bits: 16},              // 10.1.0.0/16
	{addr: 10<<24 | 1<<16 | 2<<8, bits: 24},       // 10.1.2.0/24
	{addr: 10<<24 | 1<<16 | 2<<8 | 3, bits: 32},   // 10.1.2.3/32
	{addr: 10<<24 | 128<<16, bits: 9},             // 10.128.0.0/9
	{addr: 192<<24 | 168<<16, bits: 16},           // 192.168.0.0/16
	{addr: 0, bits: 0},                            // 0.0.0.0/0
	{addr: 10<<24 | 1<<16 | 3<<8, bits: 24},       // 10.1.3.0/24
}

func c42prefixOf(n c42net) netip.Prefix {
	a := n.addr
	return netip.PrefixFrom(netip.AddrFrom4([4]byte{byte(a >> 24), byte(a >> 16), byte(a >> 8), byte(a)}), n.bits)
}

// c42iaMatcher builds an ISD-AS matcher. mode 0: the wildcard 0-0; mode 1: symbolic ISD and AS
// (the solver chooses which parts are zero = wildcards); negated as requested.
func c42iaMatcher(mode int, name string, negated bool) (c42ia, routing.IAMatcher) {
	if mode == 0 {
		return c42ia{}, routing.SingleIAMatcher{}
	}
	v := verif.NondetU64(name)
	s := c42ia{ia: v, negated: negated}
	var m routing.IAMatcher = routing.SingleIAMatcher{IA: addr.IA(v)}
	if negated {
		m = routing.NegatedIAMatcher{IAMatcher: m}
	}
	return s, m
}

// c42policy builds a policy with Param(rules) rules. Actions, default action and network negation
// flags are symbolic. symnet=1: the addresses of the rule prefixes are symbolic, their lengths come
// from c42lenPool rotated by rot (the set algebra then forks on every address comparison: one rule
// only). symnet=0: the prefixes are c42pool[(rot+3i+5k) mod 8] for the k-th prefix of rule i. Odd
// rules carry a list of two prefixes. iamode: see c42iaMatcher (the To matcher of even rules and
// the From matcher of odd rules stay wildcards to bound the fork count).
func c42policy(nr, rot, iamode, symnet int) ([]*c42rule, int, *routing.Policy) {
	deflt := verif.NondetInt("default", 0, 4)
	pol := &routing.Policy{DefaultAction: routing.Action(deflt)}
	var spec []*c42rule
	for i := 0; i < nr; i++ {
		r := &c42rule{action: verif.NondetInt("action", 0, 4)}
		if verif.Param("netneg") == 1 {
			r.negated = verif.NondetBool("netneg")
		}
		// Param(negmask) bit i: the ISD-AS matcher of rule i is negated
		neg := verif.Param("negmask")>>uint(i)&1 == 1
		var fm, tm routing.IAMatcher
		if i%2 == 0 {
			r.from, fm = c42iaMatcher(iamode, "from", neg)
			r.to, tm = c42iaMatcher(0, "to", false)
		} else {
			r.from, fm = c42iaMatcher(0, "from", false)
			r.to, tm = c42iaMatcher(iamode, "to", neg)
		}
		var allowed []netip.Prefix
		for k := 0; k < 1+i%2; k++ {
			if symnet == 0 {
				n := c42pool[(rot+3*i+5*k)%8]
				allowed = append(allowed, c42prefixOf(n))
				r.nets = append(r.nets, n)
				continue
			}
			bits := c42lenPool[(i+k+rot)%4]
			if k == 1 {
				bits = 32
			}
			b := verif.NondetBytes("net", 4)
			pfx := netip.PrefixFrom(netip.AddrFrom4([4]byte{b[0], b[1], b[2], b[3]}), bits).Masked()
			allowed = append(allowed, pfx)
			r.nets = append(r.nets, c42net{addr: c42u32(b), bits: bits})
		}
		spec = append(spec, r)
		pol.Rules = append(pol.Rules, routing.Rule{
			Action:  routing.Action(r.action),
			From:    fm,
			To:      tm,
			Network: routing.NetworkMatcher{Allowed: allowed, Negated: r.negated},
		})
	}
	return spec, deflt, pol
}

func c42policyMatch(twin bool) {
	nr, rot, symnet := verif.Param("rules"), verif.Param("rot"), verif.Param("symnet")
	spec, deflt, pol := c42policy(nr, rot, verif.Param("iamode"), symnet)
	from, to := verif.NondetU64("fromIA"), verif.NondetU64("toIA")

	// the prefix the policy is matched against: symbolic address of Param(qbits) bits, or (pool
	// policies) the pool entry 3*rot+1
	var qnet c42net
	var query netip.Prefix
	if symnet == 1 {
		qb := verif.NondetBytes("query", 4)
		qnet = c42net{addr: c42u32(qb), bits: verif.Param("qbits")}
		query = netip.PrefixFrom(netip.AddrFrom4([4]byte{qb[0], qb[1], qb[2], qb[3]}), qnet.bits).Masked()
	} else {
		qnet = c42pool[(3*rot+1)%8]
		query = c42prefixOf(qnet)
	}

	set, err := pol.Match(addr.IA(from), addr.IA(to), query)
	verif.Assert("match-no-error", err == nil)

	ab := verif.NondetBytes("addr", 4)
	a := c42u32(ab)
	got := set.Contains(netip.AddrFrom4([4]byte{ab[0], ab[1], ab[2], ab[3]}))
	verif.Observe("contains", got)
	want := c42inNet(qnet, a) && c42policyRef(spec, deflt, from, to, a)
	if twin {
		verif.Assert("twin", !got)
		return
	}
	verif.Assert("accepted-iff-in-prefix-and-first-matching-accept-reject-rule-accepts", got == want)
	if got {
		verif.Cover("policy-accepts")
	} else {
		verif.Cover("policy-rejects")
	}
}

// VerifC42PolicyMatch: Policy.Match against the per-address reference decision.
func VerifC42PolicyMatch() { c42policyMatch(false) }

// VerifC42PolicyMatchTwin: "no address is ever accepted" must be violated.
func VerifC42PolicyMatchTwin() { c42policyMatch(true) }
