//go:build verif || !verif

package dataplane

import (
	"net"
	"net/netip"

	"github.com/scionproto/scion/gateway/routing"
	"github.com/scionproto/scion/pkg/addr"
	"github.com/scionproto/scion/zz_verif/verif"
)

// C42 (c): serializing and re-parsing a policy preserves its decisions and its advertised
// prefixes; AdvertiseList returns the prefixes of the advertise rules matching the ISD-AS pair.
//
// Text is concrete (the policy is a member of an enumerated family: Param(rot) + verif.Choose on
// actions), the ISD-AS pair of the query and the tested address are symbolic.

// c42concreteIAs: matcher operands with and without wildcards.
var c42concreteIAs = [4]uint64{
	0,                        // 0-0
	1<<48 | 0xff0000000110,   // 1-ff00:0:110
	2 << 48,                  // 2-0
	0xff0000000111,           // 0-ff00:0:111
}

var c42actions = [4]routing.Action{routing.Accept, routing.Reject, routing.Advertise, routing.RedistributeBGP}

// c42textPolicy builds the concrete policy number (rot, choices) of the family.
func c42textPolicy(nr, rot int) ([]*c42rule, *routing.Policy) {
	pol := &routing.Policy{}
	var spec []*c42rule
	for i := 0; i < nr; i++ {
		act := c42actions[verif.Choose("action", 3)] // accept / reject / advertise
		r := &c42rule{action: int(act)}
		mk := func(sel int) (c42ia, routing.IAMatcher) {
			s := c42ia{ia: c42concreteIAs[sel%4], negated: sel%8 >= 4}
			var m routing.IAMatcher = routing.SingleIAMatcher{IA: addr.IA(s.ia)}
			if s.negated {
				m = routing.NegatedIAMatcher{IAMatcher: m}
			}
			return s, m
		}
		var fm, tm routing.IAMatcher
		r.from, fm = mk(rot + 3*i)
		r.to, tm = mk(rot + 5*i + 2)
		r.negated = (rot+i)%3 == 1
		var allowed []netip.Prefix
		for k := 0; k < 1+i%2; k++ {
			n := c42pool[(rot+3*i+5*k)%8]
			allowed = append(allowed, c42prefixOf(n))
			r.nets = append(r.nets, n)
		}
		rule := routing.Rule{
			Action:  act,
			From:    fm,
			To:      tm,
			Network: routing.NetworkMatcher{Allowed: allowed, Negated: r.negated},
		}
		if act == routing.Advertise && i%2 == 0 {
			rule.NextHop = net.IP{10, 0, 0, byte(1 + i)}
		}
		if (rot+i)%2 == 0 {
			rule.Comment = "rule # number one" // comments may contain '#' and blanks
		}
		spec = append(spec, r)
		pol.Rules = append(pol.Rules, rule)
	}
	return spec, pol
}

// c42advertiseRef: prefixes of the advertise rules that match the pair and are not negated, in
// rule order.
func c42advertiseRef(rules []*c42rule, from, to uint64) []c42net {
	var out []c42net
	for _, r := range rules {
		if r.action == int(routing.Advertise) && !r.negated &&
			c42matchIA(r.from, from) && c42matchIA(r.to, to) {
			out = append(out, r.nets...)
		}
	}
	return out
}

func c42samePrefixes(got []netip.Prefix, want []c42net) bool {
	if len(got) != len(want) {
		return false
	}
	for i := range got {
		if got[i] != c42prefixOf(want[i]) {
			return false
		}
	}
	return true
}

func c42roundTrip(twin bool) {
	nr, rot := verif.Param("rules"), verif.Param("rot")
	spec, pol := c42textPolicy(nr, rot)
	pol.DefaultAction = routing.Action(verif.NondetInt("default", 0, 4))

	raw, err := pol.MarshalText()
	verif.Assert("marshal-no-error", err == nil)
	verif.Observe("text", raw)
	back := &routing.Policy{DefaultAction: pol.DefaultAction}
	err = back.UnmarshalText(raw)
	verif.Assert("reparse-no-error", err == nil)
	verif.Assert("reparse-same-number-of-rules", len(back.Rules) == len(pol.Rules))

	from, to := verif.NondetU64("fromIA"), verif.NondetU64("toIA")
	query := c42pool[(3*rot+1)%8]
	ab := verif.NondetBytes("addr", 4)
	a := netip.AddrFrom4([4]byte{ab[0], ab[1], ab[2], ab[3]})

	set1, err1 := pol.Match(addr.IA(from), addr.IA(to), c42prefixOf(query))
	set2, err2 := back.Match(addr.IA(from), addr.IA(to), c42prefixOf(query))
	verif.Assert("match-no-error", err1 == nil && err2 == nil)
	d1, d2 := set1.Contains(a), set2.Contains(a)
	verif.Observe("decisions", d1, d2)
	if twin {
		verif.Assert("twin", !d2)
		return
	}
	verif.Assert("reparsed-policy-decides-the-same", d1 == d2)
	want := c42inNet(query, c42u32(ab)) && c42policyRef(spec, int(pol.DefaultAction), from, to, c42u32(ab))
	verif.Assert("reparsed-policy-decides-as-specified", d2 == want)

	adv1, e1 := routing.AdvertiseList(pol, addr.IA(from), addr.IA(to))
	adv2, e2 := routing.AdvertiseList(back, addr.IA(from), addr.IA(to))
	verif.Assert("advertise-no-error", e1 == nil && e2 == nil)
	verif.Observe("advertised", len(adv1), len(adv2))
	same := len(adv1) == len(adv2)
	if same {
		for i := range adv1 {
			same = same && adv1[i] == adv2[i]
		}
	}
	verif.Assert("reparsed-policy-advertises-the-same", same)
	// what a negated advertise rule advertises is not stated: the list itself is compared with
	// the reference only for policies without such a rule
	negAdv := false
	for _, r := range spec {
		negAdv = negAdv || (r.action == int(routing.Advertise) && r.negated)
	}
	if !negAdv {
		wantAdv := c42advertiseRef(spec, from, to)
		verif.Assert("advertise-list-as-specified", c42samePrefixes(adv1, wantAdv))
		if len(wantAdv) > 0 {
			verif.Cover("advertises")
		}
	}
	if d2 {
		verif.Cover("roundtrip-accepts")
	} else {
		verif.Cover("roundtrip-rejects")
	}
	// next hops and comments survive as well (not part of the statement's decisions, observed only)
	for i := range back.Rules {
		verif.Observe("rule", len(back.Rules[i].Comment), len(back.Rules[i].NextHop))
	}
}

// VerifC42RoundTrip: MarshalText -> UnmarshalText keeps Match decisions and AdvertiseList.
func VerifC42RoundTrip() { c42roundTrip(false) }

// VerifC42RoundTripTwin: "the re-parsed policy accepts nothing" must be violated.
func VerifC42RoundTripTwin() { c42roundTrip(true) }
