//go:build verif || !verif

package dataplane

import (
	"net"

	"github.com/gopacket/gopacket"
	"github.com/gopacket/gopacket/layers"

	"github.com/scionproto/scion/gateway/control"
	"github.com/scionproto/scion/gateway/pktcls"
	"github.com/scionproto/scion/zz_verif/verif"
)

// C42 (a): an IP packet is handed to the session of the first matching traffic class of the most
// specific configured prefix containing its destination; it is dropped if there is no such
// prefix, no matching class, or the class has no session.

// c42session is the harness PktWriter; it records what was written to it.
type c42session struct {
	id      int
	written int
}

func (s *c42session) Write(gopacket.Packet) { s.written++ }

type c42class struct {
	id      int
	kind    int // 0: constant with symbolic value, 1: ToS match, 2: DSCP match
	b       bool
	u8      uint8
	session bool
}

type c42prefix struct {
	addr    uint32 // masked network address
	mask    uint32
	plen    uint8
	classes []c42class
}

func c42u32(b []byte) uint32 {
	return uint32(b[0])<<24 | uint32(b[1])<<16 | uint32(b[2])<<8 | uint32(b[3])
}

// c42lenAllowed is the bound on the prefix lengths of an instance (Param "lens"):
// 0: every length 0..32; 4 / 8 / 16: multiples of 4 / 8 / 16.
func c42lenAllowed(n uint8, lens int) bool {
	switch lens {
	case 4:
		return n&3 == 0
	case 8:
		return n&7 == 0
	case 16:
		return n&15 == 0
	}
	return true
}

// c42table builds the specification of a routing table with np distinct prefixes and nc classes
// per prefix, and the control.RoutingChain list it is configured from.
//
// layout 0: one chain per prefix, every chain with its own traffic classes (distinct IDs).
// layout 1: a single chain holding all prefixes (they share the traffic-class list).
func c42table(np, nc, lens, layout int) ([]*c42prefix, []*control.RoutingChain) {
	var spec []*c42prefix
	var chains []*control.RoutingChain
	var shared []c42class
	var sharedTM []control.TrafficMatcher
	for i := 0; i < np; i++ {
		a := verif.NondetBytes("pfx", 4)
		n := verif.NondetU8("plen")
		verif.Assume(n <= 32 && c42lenAllowed(n, lens))
		m := uint32(0xffffffff) << (32 - uint32(n))
		av := c42u32(a) & m
		p := &c42prefix{addr: av, mask: m, plen: n}
		ipn := &net.IPNet{
			IP:   net.IP{byte(av >> 24), byte(av >> 16), byte(av >> 8), byte(av)},
			Mask: net.IPMask{byte(m >> 24), byte(m >> 16), byte(m >> 8), byte(m)},
		}
		// distinct prefixes
		for _, q := range spec {
			verif.Assume(q.plen != n || q.addr != av)
		}
		if layout == 1 && i > 0 {
			p.classes = shared
			chains[0].Prefixes = append(chains[0].Prefixes, ipn)
			spec = append(spec, p)
			continue
		}
		var tms []control.TrafficMatcher
		for j := 0; j < nc; j++ {
			c := c42class{id: 1 + i*nc + j, kind: (i + j) % 3}
			var cond pktcls.Cond
			switch c.kind {
			case 0:
				c.b = verif.NondetBool("cbool")
				cond = pktcls.CondBool(c.b)
			case 1:
				c.u8 = verif.NondetU8("ctos")
				cond = pktcls.NewCondIPv4(&pktcls.IPv4MatchToS{TOS: c.u8})
			default:
				c.u8 = verif.NondetU8("cdscp")
				cond = pktcls.NewCondIPv4(&pktcls.IPv4MatchDSCP{DSCP: c.u8})
			}
			p.classes = append(p.classes, c)
			tms = append(tms, control.TrafficMatcher{ID: c.id, Matcher: cond})
		}
		shared, sharedTM = p.classes, tms
		chains = append(chains, &control.RoutingChain{Prefixes: []*net.IPNet{ipn}, TrafficMatchers: sharedTM})
		spec = append(spec, p)
	}
	return spec, chains
}

// c42sessions installs sessions according to one of four patterns (verif.Choose, all explored):
// 0 every class has a session, 1 none has, 2 all but the first class of each prefix,
// 3 classes with even (prefix+class) index.
func c42sessions(rt *RoutingTable, spec []*c42prefix, layout int) map[int]*c42session {
	// Param(sess) >= 0 fixes the pattern (bound), -1 explores all four
	pat := verif.Param("sess")
	if pat < 0 {
		pat = verif.Choose("sessions", 4)
	}
	sess := map[int]*c42session{}
	for i, p := range spec {
		if layout == 1 && i > 0 {
			// shared class list: same backing array, already handled
			break
		}
		for j := range p.classes {
			has := false
			switch pat {
			case 0:
				has = true
			case 2:
				has = j != 0
			case 3:
				has = (i+j)%2 == 0
			}
			p.classes[j].session = has
			if has {
				s := &c42session{id: p.classes[j].id}
				sess[s.id] = s
				err := rt.SetSession(s.id, s)
				verif.Assert("set-session-accepted", err == nil)
			}
		}
	}
	return sess
}

// c42want is the reference decision: the ID of the class whose session gets the packet, 0 = drop.
func c42want(spec []*c42prefix, dst uint32, tos uint8) int {
	best := -1
	bestLen := uint8(0)
	for i, p := range spec {
		contains := (dst^p.addr)&p.mask == 0
		// distinct prefixes containing the same address have different lengths
		if contains && (best < 0 || p.plen > bestLen) {
			best = i
			bestLen = p.plen
		}
	}
	if best < 0 {
		return 0
	}
	for _, c := range spec[best].classes {
		match := false
		switch c.kind {
		case 0:
			match = c.b
		case 1:
			match = c.u8 == tos
		default:
			match = c.u8 == tos>>2
		}
		if match {
			if c.session {
				return c.id
			}
			return 0
		}
	}
	return 0
}

func c42ipv4(dst []byte, tos uint8) layers.IPv4 {
	return layers.IPv4{
		Version:  4,
		IHL:      5,
		TOS:      tos,
		Length:   20,
		TTL:      verif.NondetU8("ttl"),
		Protocol: layers.IPProtocol(verif.NondetU8("proto")),
		SrcIP:    net.IP(verif.NondetBytes("src", 4)),
		DstIP:    net.IP(dst),
	}
}

func c42route(twin bool) {
	np, nc := verif.Param("prefixes"), verif.Param("classes")
	layout := verif.Param("layout")
	spec, chains := c42table(np, nc, verif.Param("lens"), layout)
	rt := NewRoutingTable(chains)
	c42sessions(rt, spec, layout)

	dst := verif.NondetBytes("dst", 4)
	tos := verif.NondetU8("tos")
	got := rt.RouteIPv4(c42ipv4(dst, tos))
	gotID := 0
	if got != nil {
		gotID = got.(*c42session).id
	}
	verif.Observe("route", gotID)
	want := c42want(spec, c42u32(dst), tos)
	if twin {
		verif.Assert("twin", gotID == 0)
		return
	}
	verif.Assert("most-specific-prefix-first-matching-class-session-or-drop", gotID == want)
	if gotID != 0 {
		verif.Cover("routed")
		if np > 1 && gotID > nc {
			verif.Cover("routed-by-later-prefix")
		}
		if gotID > 1 && (gotID-1)%nc != 0 {
			verif.Cover("routed-by-later-class")
		}
	} else {
		verif.Cover("dropped")
	}
}

// VerifC42Route: RoutingTable.RouteIPv4 against the reference decision.
func VerifC42Route() { c42route(false) }

// VerifC42RouteTwin: "every packet is dropped" must be violated.
func VerifC42RouteTwin() { c42route(true) }
