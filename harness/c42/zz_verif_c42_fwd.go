//go:build verif || !verif

package dataplane

import (
	"context"
	"io"

	"github.com/gopacket/gopacket"

	"github.com/scionproto/scion/zz_verif/verif"
)

// C42 (a), forwarder part: IPForwarder.Run hands a packet read from the local network to the
// session the routing table selects, exactly once and unchanged, and drops it if the table
// selects none or if it is an IPv4 fragment.

// c42reader yields the given packets, one per Read, then io.EOF (which ends Run).
type c42reader struct {
	pkts [][]byte
	n    int
}

func (r *c42reader) Read(b []byte) (int, error) {
	if r.n >= len(r.pkts) {
		return 0, io.EOF
	}
	p := r.pkts[r.n]
	r.n++
	return copy(b, p), nil
}

// c42sink is a session that keeps what it was given.
type c42sink struct {
	id      int
	written int
	data    []byte
}

func (s *c42sink) Write(p gopacket.Packet) {
	s.written++
	s.data = append([]byte(nil), p.Data()...)
}

func c42forward(twin bool) {
	paylen := verif.Param("paylen")
	// one traffic class (constant with symbolic value) on one prefix, session present or not
	spec, chains := c42table(1, 1, verif.Param("lens"), 0)
	rt := NewRoutingTable(chains)
	sink := &c42sink{id: 1}
	hasSession := verif.Choose("session", 2) == 1
	spec[0].classes[0].session = hasSession
	if hasSession {
		err := rt.SetSession(1, sink)
		verif.Assert("set-session-accepted", err == nil)
	}

	// the packet: RFC 791 header without options, every other header bit symbolic
	pkt := verif.NondetBytes("ip", 20+paylen)
	ihl := pkt[0] & 0xf
	totalLen := uint16(pkt[2])<<8 | uint16(pkt[3])
	verif.Assume(ihl == 5)
	// a datagram whose total-length field is smaller than its header is not an IP packet
	verif.Assume(totalLen >= 20)
	if paylen > 0 || verif.Param("anyproto") == 0 {
		// bound: the payload is opaque (protocol 59, "no next header"); its decoding is
		// gopacket's business, not the forwarder's. With an empty payload and anyproto=1 the
		// protocol number is symbolic.
		verif.Assume(pkt[9] == 59)
	}
	orig := append([]byte(nil), pkt...)

	f := &IPForwarder{Reader: &c42reader{pkts: [][]byte{pkt}}, RoutingTable: rt}
	err := f.Run(context.Background())
	verif.Assert("run-ends-with-reader-error", err != nil)
	verif.Observe("written", sink.written)

	version := orig[0] >> 4
	flags := orig[6] >> 5         // 3 bits: reserved, DF, MF
	fragOff := uint16(orig[6]&0x1f)<<8 | uint16(orig[7])
	fragment := flags&1 != 0 || fragOff != 0
	dst := c42u32(orig[16:20])
	tos := orig[1]
	routeID := c42want(spec, dst, tos)
	want := version == 4 && !fragment && routeID == 1
	if twin {
		verif.Assert("twin", sink.written == 0)
		return
	}
	// IPv6 (and other versions) on this 20+n byte buffer: not the subject here
	verif.Assume(version == 4)
	if want {
		verif.Cover("forwarded")
		verif.Assert("forwarded-exactly-once-to-selected-session", sink.written == 1)
		same := len(sink.data) == len(orig)
		if same {
			for i := range orig {
				same = same && sink.data[i] == orig[i]
			}
		}
		verif.Assert("forwarded-packet-unchanged", same)
	} else {
		if fragment {
			verif.Cover("fragment-dropped")
		} else {
			verif.Cover("no-route-dropped")
		}
		verif.Assert("dropped-if-fragment-or-no-session-selected", sink.written == 0)
	}
}

// VerifC42Forward: one packet through the real IPForwarder.Run and the real RoutingTable.
func VerifC42Forward() { c42forward(false) }

// VerifC42ForwardTwin: "nothing is ever forwarded" must be violated.
func VerifC42ForwardTwin() { c42forward(true) }
