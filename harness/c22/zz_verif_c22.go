//go:build verif || !verif

package combinator

import (
	"github.com/scionproto/scion/control/beaconing"
	"github.com/scionproto/scion/pkg/private/ctrl/path_mgmt/proto"
	seg "github.com/scionproto/scion/pkg/segment"
	"github.com/scionproto/scion/zz_verif/verif"
)

// C22, parts (a) and (b): the SegID accumulator of beaconing (extractBeta / peer beta) and the
// initial SegID chosen by path combination (calculateBeta) agree, for every hop of every
// (direction, entry/exit point, peering) use of a segment, with the update rules of
// doc/protocols/scion-header.rst ("Path Calculation"):
//
//	beta_0 = SegID of the beacon, beta_{i+1} = beta_i xor sigma_i[:2]
//	hop i is created (MAC'ed) with beta_i, the peer hops of AS i with beta_{i+1}
//	construction direction: validate with SegID, then at egress SegID ^= sigma_i[:2]
//	against it:            at ingress SegID ^= sigma_i[:2], then validate with SegID
//	peering hop:           validate with SegID, never update
//
// The MAC bytes are free symbols (one solver variable per byte), so is the beacon's SegID.

type c22Seg struct {
	ps    *seg.PathSegment
	segID uint16
	sigma []uint16 // reference: first two MAC bytes of the hop entry of AS i, big endian
	beta  []uint16 // reference: beta_i (filled by refBeta)
}

func c22Segment(n int) c22Seg {
	r := c22Seg{segID: verif.NondetU16("segid")}
	r.ps = &seg.PathSegment{Info: seg.Info{SegmentID: r.segID}}
	for i := 0; i < n; i++ {
		m := verif.NondetBytes("mac", 6)
		pm := verif.NondetBytes("peermac", 6)
		var e seg.ASEntry
		copy(e.HopEntry.HopField.MAC[:], m)
		e.PeerEntries = make([]seg.PeerEntry, 1)
		copy(e.PeerEntries[0].HopField.MAC[:], pm)
		r.ps.ASEntries = append(r.ps.ASEntries, e)
		r.sigma = append(r.sigma, uint16(m[0])<<8|uint16(m[1]))
	}
	return r
}

// refBeta is beta_i of the documentation.
func (r *c22Seg) refBeta(i int) uint16 {
	if r.beta == nil { // beta_0 .. beta_n, computed once
		b := r.segID
		r.beta = append(r.beta, b)
		for k := 0; k < len(r.sigma); k++ {
			b ^= r.sigma[k]
			r.beta = append(r.beta, b)
		}
	}
	return r.beta[i]
}

// VerifC22Extract: clause (a), the beaconing side. extractBeta of a beacon that already carries i
// entries is beta_i, for every prefix of an n-entry segment.
func VerifC22Extract() {
	n := verif.Param("n")
	r := c22Segment(n)
	for i := 0; i <= n; i++ {
		prefix := &seg.PathSegment{Info: r.ps.Info, ASEntries: r.ps.ASEntries[:i]}
		got := beaconing.VerifExtractBeta(prefix)
		verif.Assert("extract-beta-is-segid-xor-all-earlier-sigmas", got == r.refBeta(i))
		if i == n {
			verif.Observe("beta", got)
		}
	}
	verif.Cover("extract")
}

// c22Walk runs the reference data-plane walk over the hops selected by (typ, shortcut, peer) starting
// from the initial SegID init, and asserts at every hop that the value used for validating the hop
// equals the value the hop was created with.
func c22Walk(r *c22Seg, n int, down bool, s int, peer bool, init uint16) {
	acc := init
	if down {
		// forwarding order = construction order, hops s .. n-1
		for k := s; k < n; k++ {
			peerHop := peer && k == s
			used := acc // no ingress update in construction direction
			if peerHop {
				verif.Assert("down-peer-hop-validated-with-its-construction-beta", used == r.refBeta(k+1))
				continue // peering hop: no update
			}
			verif.Assert("down-hop-validated-with-its-construction-beta", used == r.refBeta(k))
			acc ^= r.sigma[k] // egress update
		}
		return
	}
	// against construction direction: hops n-1 .. s
	for k := n - 1; k >= s; k-- {
		peerHop := peer && k == s
		first := k == n-1 // first AS of the segment on the path: it is not entered on this segment
		if !first && !peerHop {
			acc ^= r.sigma[k] // ingress update
		}
		used := acc
		if peerHop {
			verif.Assert("up-peer-hop-validated-with-its-construction-beta", used == r.refBeta(k+1))
		} else {
			verif.Assert("up-hop-validated-with-its-construction-beta", used == r.refBeta(k))
		}
	}
}

func c22Edge(r *c22Seg, typ, s, peer int) *solutionEdge {
	t := proto.PathSegType_up
	switch typ {
	case 1:
		t = proto.PathSegType_core
	case 2:
		t = proto.PathSegType_down
	}
	return &solutionEdge{
		edge:    &edge{Shortcut: s, Peer: peer},
		segment: &inputSegment{PathSegment: r.ps, Type: t},
	}
}

// VerifC22Combine: clause (b). For every segment type, shortcut index and peering flag the initial
// SegID chosen by the real calculateBeta makes every hop of the resulting path segment validate with
// its construction-time accumulator value. The (type, shortcut, peer) combinations of an n-entry
// segment are enumerated in one run; SegID and all MAC bytes are symbolic throughout.
func VerifC22Combine() {
	n := verif.Param("n")
	r := c22Segment(n)
	for typ := 0; typ < 3; typ++ { // 0 up, 1 core, 2 down
		for s := 0; s < n; s++ {
			for peer := 0; peer < 2; peer++ {
				if typ == 1 && peer != 0 {
					continue // peering links join an up and a down segment; core segments have no peering use
				}
				init := calculateBeta(c22Edge(&r, typ, s, peer))
				verif.Observe("init", typ, s, peer, init)
				c22Walk(&r, n, typ == 2, s, peer != 0, init)
				switch {
				case typ == 2 && peer != 0:
					verif.Cover("down-peer")
				case typ == 2 && s != 0:
					verif.Cover("down-shortcut")
				case typ == 2:
					verif.Cover("down-full")
				case typ == 1:
					verif.Cover("core")
				case peer != 0:
					verif.Cover("up-peer")
				case s != 0:
					verif.Cover("up-shortcut")
				default:
					verif.Cover("up-full")
				}
			}
		}
	}
}

// VerifC22CombineVacuity is the reachability twin: it claims that the initial SegID is always
// beta_shortcut, which is wrong for peering and for every use against construction direction.
func VerifC22CombineVacuity() {
	n := verif.Param("n")
	r := c22Segment(n)
	typ := verif.Choose("type", 3)
	s := verif.Choose("shortcut", n)
	peer := verif.Choose("peer", 2)
	verif.Assume(!(typ == 1 && peer != 0))
	init := calculateBeta(c22Edge(&r, typ, s, peer))
	verif.Assert("twin", init == r.refBeta(s))
}
