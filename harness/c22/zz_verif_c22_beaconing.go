//go:build verif || !verif

package beaconing

import (
	seg "github.com/scionproto/scion/pkg/segment"
)

// VerifExtractBeta exposes the real, unexported extractBeta to the C22 entries (which live in
// package combinator, next to calculateBeta).
func VerifExtractBeta(pseg *seg.PathSegment) uint16 { return extractBeta(pseg) }
