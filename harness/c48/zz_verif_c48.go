//go:build verif || !verif

package ringbuf

// C48 — the ring buffer is a linearizable bounded FIFO (DESIGN 7/C48).
//
// Shape of every entry: an *arbitrary valid pre-state* (capacity C concrete per instance; readIndex,
// writeIndex, readable, closed and every slot's payload symbolic, subject to the representation
// invariant) + ONE operation of the real code + the sequential FIFO specification stated on the
// abstraction "the `readable` payloads starting at readIndex, cyclically".
// Cond.Wait is an environment step (see zz_verif_c48_env.go and engine/natives_state1.go).

import (
	"github.com/prometheus/client_golang/prometheus"

	"github.com/scionproto/scion/private/ringbuf/internal/metrics"
	"github.com/scionproto/scion/zz_verif/verif"
)

const vMaxCap = 16

// ---- metrics stubs (the real ones are prometheus objects; their values are not part of the property)

type vCounter struct{ prometheus.Counter }

func (vCounter) Inc()        {}
func (vCounter) Add(float64) {}

type vGauge struct{ prometheus.Gauge }

func (vGauge) Set(float64) {}
func (vGauge) Inc()        {}
func (vGauge) Dec()        {}
func (vGauge) Add(float64) {}
func (vGauge) Sub(float64) {}

type vObserver struct{}

func (vObserver) Observe(float64) {}

func vMetrics() metrics.Ringbuf {
	return metrics.Ringbuf{
		WriteCalls: vCounter{}, ReadCalls: vCounter{}, WritesBlocked: vCounter{}, ReadsBlocked: vCounter{},
		WriteEntries: vObserver{}, ReadEntries: vObserver{}, MaxEntries: vGauge{}, UsedEntries: vGauge{},
	}
}

// ---- abstract view of a ring ------------------------------------------------------------------------

// vState is the harness' view of a ring: the five scalar fields and, per slot, whether it holds an
// entry and which payload. Payloads are uint32 values boxed as Entry.
type vState struct {
	c              int
	ri, wi, rd, wr int
	closed         bool
	pay            [vMaxCap]uint32
	empty          [vMaxCap]bool
}

// vAnd / vOr: two-operand forms (no short-circuit chains), which the engine if-converts instead of forking.
func vAnd(a, b bool) bool { return a && b }
func vOr(a, b bool) bool  { return a || b }

// vIdx is (base+i) mod c for 0 <= base <= c, 0 <= i <= c.
func vIdx(base, i, c int) int {
	k := base + i
	if k >= c {
		k -= c
	}
	if k >= c {
		k -= c
	}
	return k
}

// at is the payload of the i-th element of the abstract queue (i < rd).
// (the mask is the identity on 0..c-1; it lets the engine see that the index is in range)
func (s *vState) at(i int) uint32 { return s.pay[vIdx(s.ri, i, s.c)&(vMaxCap-1)] }

// emptyAt reports whether the slot of the i-th element holds no entry at all.
func (s *vState) emptyAt(i int) bool { return s.empty[vIdx(s.ri, i, s.c)&(vMaxCap-1)] }

// vHavoc returns an arbitrary state of capacity c that satisfies the representation invariant
//
//	0 <= readIndex, writeIndex <= c,  readable + writable = c,  writeIndex ≡ readIndex + readable (mod c)
//
// (an index equal to c is the not-yet-wrapped form of 0: write/read advance the index first and wrap
// lazily on the next call). Slots outside the readable window hold arbitrary stale entries.
func vHavoc(tag string, c int) vState {
	s := vState{c: c}
	s.ri = verif.NondetInt(tag+".ri", 0, c)
	s.rd = verif.NondetInt(tag+".rd", 0, c)
	s.wi = verif.NondetInt(tag+".wi", 0, c)
	s.wr = c - s.rd
	sum := s.ri + s.rd
	d := sum - s.wi
	congruent := vOr(d == 0, vOr(d == c, d == 2*c))
	verif.Assume(congruent)
	s.closed = verif.NondetBool(tag + ".closed")
	for k := 0; k < c; k++ {
		s.pay[k] = verif.NondetU32(tag + ".slot")
	}
	return s
}

// vApply writes state s into the ring r (fresh backing array).
func vApply(r *Ring, s *vState) {
	r.entries = make(EntryList, s.c)
	for k := 0; k < s.c; k++ {
		r.entries[k] = Entry(s.pay[k])
	}
	r.readIndex, r.writeIndex, r.readable, r.writable, r.closed = s.ri, s.wi, s.rd, s.wr, s.closed
}

func vNewRing(s *vState) *Ring {
	r := &Ring{metrics: vMetrics()}
	r.writableC = newCond(r)
	r.readableC = newCond(r)
	vApply(r, s)
	return r
}

// vSnapshot reads the ring's state back.
func vSnapshot(r *Ring, c int) vState {
	s := vState{c: c, ri: r.readIndex, wi: r.writeIndex, rd: r.readable, wr: r.writable, closed: r.closed}
	verif.Assert("capacity-never-changes", len(r.entries) == c)
	for k := 0; k < c; k++ {
		e := r.entries[k]
		if e == nil {
			s.empty[k] = true
		} else {
			s.pay[k] = e.(uint32)
		}
	}
	return s
}

// vCheckInv asserts the representation invariant on s.
func vCheckInv(s *vState) {
	c := s.c
	inRange := vAnd(vAnd(vAnd(s.ri >= 0, s.ri <= c), vAnd(s.wi >= 0, s.wi <= c)), vAnd(s.rd >= 0, s.wr >= 0))
	verif.Assert("inv-indices-in-range", inRange)
	verif.Assert("inv-readable-plus-writable-is-capacity", s.rd+s.wr == c)
	d := s.ri + s.rd - s.wi
	cong := vOr(d == 0, vOr(d == c, d == 2*c))
	verif.Assert("inv-write-index-follows-read-window", cong)
}

// vSameQueue: the first n elements of post (from offset po) are the elements pre[from .. from+n).
func vSameQueue(post *vState, po int, pre *vState, from int, n int) bool {
	ok := true
	for i := 0; i < pre.c; i++ {
		a := pre.at(vClamp(from+i, pre.c))
		b := post.at(vClamp(po+i, pre.c))
		e := post.emptyAt(vClamp(po+i, pre.c))
		bad := vAnd(i < n, vOr(e, a != b))
		if bad {
			ok = false
		}
	}
	return ok
}

// vClamp keeps an offset inside 0..c (offsets beyond the compared range are never looked at).
func vClamp(i, c int) int {
	k := i
	if k > c {
		k = c
	}
	if k < 0 {
		k = 0
	}
	return k
}

// vUnchanged: post is field-for-field and slot-for-slot the state pre.
func vUnchanged(post, pre *vState) bool {
	ok := vAnd(vAnd(post.ri == pre.ri, post.wi == pre.wi), vAnd(vAnd(post.rd == pre.rd, post.wr == pre.wr), post.closed == pre.closed))
	for k := 0; k < pre.c; k++ {
		same := vAnd(!post.empty[k], post.pay[k] == pre.pay[k])
		if !same {
			ok = false
		}
	}
	return ok
}

func vBatch(l int) (EntryList, [vMaxCap + 2]uint32) {
	var bp [vMaxCap + 2]uint32
	batch := make(EntryList, l)
	for j := 0; j < l; j++ {
		bp[j] = verif.NondetU32("batch")
		batch[j] = Entry(bp[j])
	}
	return batch, bp
}

// vCheckWrite states the FIFO specification of one completed Write of batch bp[:l] that started (was
// linearized) in state pre, returned n and left state post.
func vCheckWrite(pre, post *vState, bp *[vMaxCap + 2]uint32, l int, n int) {
	vCheckInv(post)
	verif.Assert("write-never-opens-or-closes", post.closed == pre.closed)
	if pre.closed {
		verif.Cover("write-after-close")
		verif.Assert("write-after-close-fails", n == -1)
		verif.Assert("write-after-close-changes-nothing", vUnchanged(post, pre))
		return
	}
	within := vAnd(n >= 0, vAnd(n <= l, n <= pre.wr))
	verif.Assert("write-count-within-space-and-batch", within)
	progress := vOr(l == 0, vOr(pre.wr == 0, n >= 1))
	verif.Assert("write-stores-something-when-there-is-space", progress)
	verif.Assert("write-accounting", post.rd == pre.rd+n)
	verif.Assert("write-keeps-stored-entries-in-order", vSameQueue(post, 0, pre, 0, pre.rd))
	ok := true
	for j := 0; j < l; j++ {
		b := post.at(vClamp(pre.rd+j, pre.c))
		e := post.emptyAt(vClamp(pre.rd+j, pre.c))
		bad := vAnd(j < n, vOr(e, b != bp[j]))
		if bad {
			ok = false
		}
	}
	verif.Assert("write-appends-batch-prefix-in-order", ok)
	if vAnd(n > 0, pre.wi+n > pre.c) {
		verif.Cover("write-wraps-around")
	}
	if n < l {
		verif.Cover("write-partial")
	}
}

// vCheckRead: same for a Read into a buffer of length l that returned n and out[:n].
func vCheckRead(pre, post *vState, out EntryList, l int, n int) {
	vCheckInv(post)
	verif.Assert("read-never-opens-or-closes", post.closed == pre.closed)
	if pre.closed && pre.rd == 0 {
		verif.Cover("read-reports-closure-when-drained")
		verif.Assert("read-closed-and-drained-reports-closure", n == -1)
		verif.Assert("read-closed-and-drained-changes-nothing", vUnchanged(post, pre))
		return
	}
	if pre.closed {
		verif.Cover("read-drains-after-close")
	}
	within := vAnd(n >= 0, vAnd(n <= l, n <= pre.rd))
	verif.Assert("read-count-within-stored-and-buffer", within)
	progress := vOr(l == 0, vOr(pre.rd == 0, n >= 1))
	verif.Assert("read-returns-something-when-there-is-data", progress)
	verif.Assert("read-accounting", post.rd == pre.rd-n)
	ok := true
	for j := 0; j < l; j++ {
		e := out[j]
		var v uint32
		if e != nil {
			v = e.(uint32)
		}
		bad := vAnd(j < n, vOr(e == nil, v != pre.at(vClamp(j, pre.c))))
		if bad {
			ok = false
		}
	}
	verif.Assert("read-returns-oldest-entries-in-write-order", ok)
	verif.Assert("read-keeps-the-rest-in-order", vSameQueue(post, 0, pre, n, pre.rd-n))
	if vAnd(n > 0, pre.ri+n > pre.c) {
		verif.Cover("read-wraps-around")
	}
	if n < l {
		verif.Cover("read-partial")
	}
}

// ---- entries: operations that do not have to wait -------------------------------------------------

// VerifC48Write: one Write (blocking flag symbolic) in any state in which it does not have to wait.
func VerifC48Write() {
	c := vCap()
	l := verif.Choose("len", c+1+verif.Param("over")) // batch / buffer length 0 .. c+over
	block := verif.NondetBool("block")
	pre := vHavoc("pre", c)
	mustWait := vAnd(vAnd(block, l > 0), vAnd(pre.wr == 0, !pre.closed))
	verif.Assume(!mustWait)
	r := vNewRing(&pre)
	batch, bp := vBatch(l)
	verifPark(r.readableC, 2)
	verifPark(r.writableC, 2)

	verifWatch(r, &r.mutex, true)
	n, blocked := r.Write(batch, block)
	verifWatch(r, &r.mutex, false)
	verif.Assert("lock-discipline-watch-saw-locked-accesses", verifWatchHits() > 0)

	post := vSnapshot(r, c)
	verif.Observe("write", n, blocked, post.ri, post.wi, post.rd, post.wr, post.closed)
	verif.Assert("call-that-did-not-wait-reports-not-blocked", !blocked)
	vCheckWrite(&pre, &post, &bp, l, n)
	woke := vOr(n <= 0, verifStillParked(r.readableC) == 0)
	verif.Assert("write-of-entries-releases-all-waiting-readers", woke)
	verifUnpark(r.readableC)
	verifUnpark(r.writableC)
}

// VerifC48Read: one Read in any state in which it does not have to wait.
func VerifC48Read() {
	c := vCap()
	l := verif.Choose("len", c+1+verif.Param("over")) // batch / buffer length 0 .. c+over
	block := verif.NondetBool("block")
	pre := vHavoc("pre", c)
	mustWait := vAnd(vAnd(block, l > 0), vAnd(pre.rd == 0, !pre.closed))
	verif.Assume(!mustWait)
	r := vNewRing(&pre)
	out := make(EntryList, l)
	verifPark(r.readableC, 2)
	verifPark(r.writableC, 2)

	verifWatch(r, &r.mutex, true)
	n, blocked := r.Read(out, block)
	verifWatch(r, &r.mutex, false)
	verif.Assert("lock-discipline-watch-saw-locked-accesses", verifWatchHits() > 0)

	post := vSnapshot(r, c)
	verif.Observe("read", n, blocked, post.ri, post.wi, post.rd, post.wr, post.closed)
	verif.Assert("call-that-did-not-wait-reports-not-blocked", !blocked)
	vCheckRead(&pre, &post, out, l, n)
	woke := vOr(n <= 0, verifStillParked(r.writableC) == 0)
	verif.Assert("read-of-entries-releases-all-waiting-writers", woke)
	verifUnpark(r.readableC)
	verifUnpark(r.writableC)
}

// VerifC48Close: Close in any state (including closed already).
func VerifC48Close() {
	c := vCap()
	pre := vHavoc("pre", c)
	r := vNewRing(&pre)
	verifPark(r.readableC, 2)
	verifPark(r.writableC, 2)

	verifWatch(r, &r.mutex, true)
	r.Close()
	verifWatch(r, &r.mutex, false)
	verif.Assert("lock-discipline-watch-saw-locked-accesses", verifWatchHits() > 0)

	post := vSnapshot(r, c)
	verif.Observe("close", post.ri, post.wi, post.rd, post.wr, post.closed)
	verif.Cover("close")
	vCheckInv(&post)
	verif.Assert("close-closes", post.closed)
	want := pre
	want.closed = true
	verif.Assert("close-keeps-stored-entries", vUnchanged(&post, &want))
	verif.Assert("close-releases-all-waiting-readers", verifStillParked(r.readableC) == 0)
	verif.Assert("close-releases-all-waiting-writers", verifStillParked(r.writableC) == 0)
	verifUnpark(r.readableC)
	verifUnpark(r.writableC)
}

// VerifC48WriteTwin is the reachability twin: a Write can change the number of stored entries.
func VerifC48WriteTwin() {
	c := vCap()
	l := verif.Choose("len", c+1+verif.Param("over")) // batch / buffer length 0 .. c+over
	pre := vHavoc("pre", c)
	r := vNewRing(&pre)
	batch, _ := vBatch(l)
	n, _ := r.Write(batch, false)
	post := vSnapshot(r, c)
	verif.Assert("twin", vAnd(post.rd == pre.rd, n <= 0))
}
