//go:build verif || !verif

package ringbuf

// Environment of the C48 harness: the functions below are INTRINSICS under the symbolic engine
// (engine/natives_state1.go; their bodies are never interpreted). The bodies are what the native replay
// and the differential self-check run: real goroutines on the real sync.Cond, made deterministic by
// looking at the condition variable's waiter tickets.
//
//	verifOnWait(r, hook)   every Cond.Wait of the operation under test = "release the lock, let the
//	                       environment run hook() under the lock, wake up, re-acquire"
//	verifWaitDone()        the operation returned
//	verifPark(c, k)        k other goroutines are blocked in c.Wait()
//	verifStillParked(c)    how many goroutines are (still) blocked in c.Wait()
//	verifUnpark(c)         release them (hygiene)

import (
	"reflect"
	"runtime"
	"sync"
	"sync/atomic"
	"time"
)

func newCond(r *Ring) *sync.Cond { return sync.NewCond(&r.mutex) }

// condWaiters is the number of goroutines that called c.Wait() and were not notified yet
// (sync.Cond's ticket counters: notify.wait - notify.notify).
func condWaiters(c *sync.Cond) int {
	nl := reflect.ValueOf(c).Elem().FieldByName("notify")
	return int(int32(uint32(nl.FieldByName("wait").Uint()) - uint32(nl.FieldByName("notify").Uint())))
}

var vEnv struct {
	stop atomic.Bool
	done chan struct{}
	pan  any
}

func verifOnWait(r *Ring, hook func()) {
	vEnv.stop.Store(false)
	vEnv.pan = nil
	vEnv.done = make(chan struct{})
	go func() {
		defer close(vEnv.done)
		deadline := time.Now().Add(20 * time.Second)
		for !vEnv.stop.Load() && time.Now().Before(deadline) {
			if condWaiters(r.writableC)+condWaiters(r.readableC) == 0 {
				runtime.Gosched()
				time.Sleep(10 * time.Microsecond)
				continue
			}
			// the caller is registered as a waiter and releases the lock
			r.mutex.Lock()
			func() {
				defer func() {
					if p := recover(); p != nil {
						vEnv.pan = p
						r.closed = true
					}
				}()
				hook()
			}()
			r.writableC.Broadcast()
			r.readableC.Broadcast()
			r.mutex.Unlock()
		}
	}()
}

func verifWaitDone() {
	vEnv.stop.Store(true)
	<-vEnv.done
	if vEnv.pan != nil {
		panic(vEnv.pan)
	}
}

func verifPark(c *sync.Cond, k int) {
	base := condWaiters(c)
	for i := 0; i < k; i++ {
		go func() {
			c.L.Lock()
			c.Wait()
			c.L.Unlock()
		}()
	}
	for condWaiters(c) < base+k {
		runtime.Gosched()
	}
}

// verifWatch / verifWatchHits: lock discipline, decided by the engine only (it sees every memory access):
// while watching, every read or write of a data field of *r must happen with r.mutex held. Natively no-ops.
func verifWatch(r *Ring, mu *sync.Mutex, on bool) {}
func verifWatchHits() int                        { return 1 }

func verifStillParked(c *sync.Cond) int { return condWaiters(c) }

func verifUnpark(c *sync.Cond) { c.Broadcast() }
