//go:build verif || !verif

package ringbuf

// C48, second part: callers that have to wait, and the initial states.
//
// A blocking Write on a full open ring (Read on an empty open ring) calls Cond.Wait. The harness registers
// an environment step for Wait (verifOnWait): "the lock is released, other goroutines run, the caller is
// woken up and re-acquires the lock". What the other goroutines did is a HAVOC of the ring subject to the
// representation invariant (any sequence of other operations leads to such a state); the first wake-up may
// be spurious (state still full/empty and open), the second one is assumed to come with space/data/closure.
// The operation is linearized at its last wake-up: the FIFO specification is checked against the state the
// environment left there.

import (
	"github.com/scionproto/scion/zz_verif/verif"
)

// vCap is the capacity of this path: mincap..maxcap (instance parameters), one alternative each.
func vCap() int {
	lo, hi := verif.Param("mincap"), verif.Param("maxcap")
	return lo + verif.Choose("cap", hi-lo+1)
}

type vWaiter struct {
	r     *Ring
	c     int
	write bool
	cur   vState // state at the (so far) last wake-up = linearization point
	calls int
}

func (w *vWaiter) canProceed(s *vState) bool {
	if w.write {
		return vOr(s.wr > 0, s.closed)
	}
	return vOr(s.rd > 0, s.closed)
}

// step is the environment step run by every Cond.Wait of the operation under test.
func (w *vWaiter) step() {
	w.calls++
	if w.calls > 2 {
		verif.Unreachable("caller-woken-with-space-data-or-closure-does-not-wait-again")
		return
	}
	// the caller went to sleep without touching the ring
	now := vSnapshot(w.r, w.c)
	verif.Assert("caller-changes-nothing-before-waiting", vUnchanged(&now, &w.cur))
	if w.calls == 2 {
		verif.Cover("spurious-wakeup-rechecked")
		verif.Assert("caller-waits-again-only-if-it-still-cannot-proceed", !w.canProceed(&w.cur))
	}
	h := vHavoc("env", w.c)
	if w.calls == 2 {
		verif.Assume(w.canProceed(&h))
	}
	vApply(w.r, &h)
	w.cur = h
}

// VerifC48WriteBlocking: Write(block=true) of a non-empty batch on a full, open ring.
func VerifC48WriteBlocking() {
	c := vCap()
	l := 1 + verif.Choose("len", c+verif.Param("over")) // 1 .. c+over
	pre := vHavoc("pre", c)
	verif.Assume(vAnd(pre.wr == 0, !pre.closed))
	r := vNewRing(&pre)
	batch, bp := vBatch(l)
	w := &vWaiter{r: r, c: c, write: true, cur: pre}
	verifOnWait(r, w.step)

	verifWatch(r, &r.mutex, true)
	n, blocked := r.Write(batch, true)
	verifWatch(r, &r.mutex, false)

	verifWaitDone()
	post := vSnapshot(r, c)
	verif.Observe("write-blocking", n, blocked, w.calls, post.ri, post.wi, post.rd, post.wr, post.closed)
	verif.Assert("full-open-ring-makes-blocking-write-wait", w.calls >= 1)
	verif.Assert("caller-that-waited-reports-blocked", blocked)
	verif.Assert("blocking-write-returns-with-entries-written-or-closure", vOr(n >= 1, n == -1))
	vCheckWrite(&w.cur, &post, &bp, l, n)
	if w.cur.closed {
		verif.Cover("blocked-writer-released-by-close")
	} else {
		verif.Cover("blocked-writer-released-by-space")
	}
}

// VerifC48ReadBlocking: Read(block=true) into a non-empty buffer on an empty, open ring.
func VerifC48ReadBlocking() {
	c := vCap()
	l := 1 + verif.Choose("len", c+verif.Param("over")) // 1 .. c+over
	pre := vHavoc("pre", c)
	verif.Assume(vAnd(pre.rd == 0, !pre.closed))
	r := vNewRing(&pre)
	out := make(EntryList, l)
	w := &vWaiter{r: r, c: c, write: false, cur: pre}
	verifOnWait(r, w.step)

	verifWatch(r, &r.mutex, true)
	n, blocked := r.Read(out, true)
	verifWatch(r, &r.mutex, false)

	verifWaitDone()
	post := vSnapshot(r, c)
	verif.Observe("read-blocking", n, blocked, w.calls, post.ri, post.wi, post.rd, post.wr, post.closed)
	verif.Assert("empty-open-ring-makes-blocking-read-wait", w.calls >= 1)
	verif.Assert("caller-that-waited-reports-blocked", blocked)
	verif.Assert("blocking-read-returns-with-entries-read-or-closure", vOr(n >= 1, n == -1))
	vCheckRead(&w.cur, &post, out, l, n)
	if vAnd(w.cur.closed, w.cur.rd == 0) {
		verif.Cover("blocked-reader-released-by-close")
	} else {
		verif.Cover("blocked-reader-released-by-data")
	}
}

// VerifC48Init: the two initial states produced by New satisfy the invariant; the pre-filled ring hands
// out its entries in creation order, the empty one holds nothing.
func VerifC48Init() {
	c := vCap()
	fill := verif.Choose("prefilled", 2) == 1
	var made [vMaxCap]uint32
	k := 0
	var newf NewEntryF
	if fill {
		newf = func() any {
			made[k] = verif.NondetU32("made")
			k++
			return made[k-1]
		}
	}
	r := New(c, newf, "verif")
	s := vSnapshot(r, c)
	verif.Observe("init", s.ri, s.wi, s.rd, s.wr, s.closed)
	vCheckInv(&s)
	verif.Assert("new-ring-is-open", !s.closed)
	if fill {
		verif.Cover("init-prefilled")
		verif.Assert("prefilled-ring-is-full", s.rd == c)
		ok := true
		for i := 0; i < c; i++ {
			bad := vOr(s.emptyAt(i), s.at(i) != made[i])
			if bad {
				ok = false
			}
		}
		verif.Assert("prefilled-ring-holds-the-created-entries-in-order", ok)
	} else {
		verif.Cover("init-empty")
		verif.Assert("fresh-ring-is-empty", s.rd == 0)
	}
}
