//go:build verif || !verif

package segverifier

// C24 — segment verification detects any alteration of signed content.
//
// Trusted (idealised) parts:
//   * signature scheme (harness level): sig = UF "sig"(key ‖ HeaderAndBody ‖ associated data...) —
//     the real scheme signs a hash of exactly this concatenation (signed.computeSignatureInput);
//     existential unforgeability becomes "signature bytes equal the UF value", collision-freeness
//     is verif.AssumeInjective("sig").
//   * protobuf framing of signed.Header / HeaderAndBody: a fixed layout built at harness level
//     (c24SignedInput); the protobuf wire format is not checked.
//   * certificate store (harness level): a pool of (IA, key id, key, NotBefore, NotAfter); the
//     verifier stub follows the contract of trust.Verifier.Verify / trust.ChainQuery (db.go: a
//     certificate fulfils the query if it is for the queried IA and key id and
//     c.not_before <= Validity.not_before and c.not_after >= Validity.not_after).
//
// Under test (real code): segverifier.VerifySegment (IA / validity binding, all entries),
// seg.PathSegment.VerifyASEntry / associatedData / AddASEntry, seg.CreateSegment/NewInfo,
// signed.ExtractUnverifiedHeader, path.ExpTimeToDuration.

import (
	"context"
	"encoding/binary"
	"errors"
	"net"
	"time"

	"github.com/scionproto/scion/pkg/addr"
	cryptopb "github.com/scionproto/scion/pkg/proto/crypto"
	"github.com/scionproto/scion/pkg/scrypto/cppki"
	"github.com/scionproto/scion/pkg/scrypto/signed"
	seg "github.com/scionproto/scion/pkg/segment"
	infra "github.com/scionproto/scion/private/segment/verifier"
	"github.com/scionproto/scion/zz_verif/verif"
)

const (
	c24HdrLen = 14
	c24SigLen = 8
	c24KeyLen = 2
)

var errC24 = errors.New("c24: verification failed")

// bi turns a condition into 0/1 without short-circuit control flow (keeps the harness fork-free).
func bi(b bool) (r uint8) {
	if b {
		r = 1
	}
	return
}

// c24Cert is one certificate of the idealised trust store.
type c24Cert struct {
	ia   addr.IA
	skid uint16
	key  []byte // names the private key
	nb   uint32 // NotBefore, unix seconds
	na   uint32 // NotAfter, unix seconds
}

func c24Wildcard(ia addr.IA) uint8 {
	return bi(uint64(ia)>>48 == 0) | bi(uint64(ia)&0xffffffffffff == 0)
}

func c24NewCert() c24Cert {
	c := c24Cert{
		ia:   addr.IA(verif.NondetU64("cert.ia")),
		skid: verif.NondetU16("cert.skid"),
		key:  verif.NondetBytes("cert.key", c24KeyLen),
		nb:   verif.NondetU32("cert.nb"),
		na:   verif.NondetU32("cert.na"),
	}
	// certificates are never issued for wildcard ISD-AS values
	verif.Assume(c24Wildcard(c.ia) == 0)
	return c
}

func c24Eq(a, b []byte) uint8 {
	if len(a) != len(b) {
		return 0
	}
	var d byte
	for i := range a {
		d |= a[i] ^ b[i]
	}
	return bi(d == 0)
}

func c24Sig(key, hb []byte, ad [][]byte) []byte {
	in := make([][]byte, 0, 2+len(ad))
	in = append(in, key, hb)
	in = append(in, ad...)
	return verif.UF("sig", c24SigLen, in...)
}

// c24SignedInput builds the signature input (HeaderAndBody): signer ISD-AS, key id and
// associated-data length (the fields of signed.Header that trust.Verifier uses) in a fixed
// layout, followed by the body. Stand-in for the protobuf encoding of cryptopb.Header /
// HeaderAndBody, which is trusted (idealised).
func c24SignedInput(ia addr.IA, skid uint16, adLen int32, body []byte) []byte {
	hb := make([]byte, c24HdrLen+len(body))
	binary.BigEndian.PutUint64(hb[0:8], uint64(ia))
	binary.BigEndian.PutUint16(hb[8:10], skid)
	binary.BigEndian.PutUint32(hb[10:14], uint32(adLen))
	copy(hb[c24HdrLen:], body)
	return hb
}

// c24Parse extracts (IA, key id, associated-data length) from a signed message.
func c24Parse(sm *cryptopb.SignedMessage) (ia addr.IA, skid uint16, adLen int, err error) {
	hb := sm.HeaderAndBody
	if len(hb) < c24HdrLen {
		return 0, 0, 0, errC24
	}
	ia = addr.IA(binary.BigEndian.Uint64(hb[0:8]))
	skid = binary.BigEndian.Uint16(hb[8:10])
	adLen = int(int32(binary.BigEndian.Uint32(hb[10:14])))
	return ia, skid, adLen, nil
}

// c24Verifier is the idealised trust.Verifier.
type c24Verifier struct {
	pool  []c24Cert
	ia    addr.IA
	val   cppki.Validity
	calls *int
}

var _ infra.Verifier = c24Verifier{}

func (v c24Verifier) WithServer(net.Addr) infra.Verifier { return v }

func (v c24Verifier) WithIA(ia addr.IA) infra.Verifier {
	v.ia = ia
	return v
}

func (v c24Verifier) WithValidity(val cppki.Validity) infra.Verifier {
	v.val = val
	return v
}

func (v c24Verifier) Verify(_ context.Context, sm *cryptopb.SignedMessage,
	ad ...[]byte,
) (*signed.Message, error) {
	if v.calls != nil {
		*v.calls++
	}
	if sm == nil || len(sm.Signature) != c24SigLen {
		return nil, errC24
	}
	ia, skid, adLen, err := c24Parse(sm)
	if err != nil {
		return nil, err
	}
	hb := sm.HeaderAndBody
	total := 0
	for _, d := range ad {
		total += len(d)
	}
	// requested validity as (seconds, nanoseconds); certificate times are whole seconds.
	// c covers val  <=>  c.nb <= val.NotBefore  and  val.NotAfter <= c.na   (trust.ChainQuery)
	nbS := v.val.NotBefore.Unix()
	naS, naN := v.val.NotAfter.Unix(), v.val.NotAfter.Nanosecond()
	var found uint8
	for i := range v.pool {
		c := &v.pool[i]
		m := bi(c.ia == ia) & bi(c.skid == skid)
		m &= bi(int64(c.nb) <= nbS)
		m &= bi(naS < int64(c.na)) | (bi(naS == int64(c.na)) & bi(naN == 0))
		m &= c24Eq(c24Sig(c.key, hb, ad), sm.Signature)
		found |= m
	}
	good := found & bi(adLen == total)
	good &= bi(v.ia == 0) | bi(v.ia == ia)
	if good == 0 {
		return nil, errC24
	}
	return &signed.Message{}, nil
}

// c24Signer is the idealised trust.Signer of one AS.
type c24Signer struct {
	ia   addr.IA
	skid uint16
	key  []byte
}

func (s c24Signer) Sign(_ context.Context, msg []byte, ad ...[]byte) (*cryptopb.SignedMessage, error) {
	total := 0
	for _, d := range ad {
		total += len(d)
	}
	hb := c24SignedInput(s.ia, s.skid, int32(total), msg)
	return &cryptopb.SignedMessage{HeaderAndBody: hb, Signature: c24Sig(s.key, hb, ad)}, nil
}

// ---- reference oracle (from the property statement) ----------------------------------------------

// c24Recv is what the oracle knows about one received AS entry.
type c24Recv struct {
	local addr.IA // the entry's ISD-AS
	exp   uint8   // expiry of the entry's hop field
	hdrIA addr.IA // signer identity claimed in the signature header
	skid  uint16
	adLen int32
	hb    []byte
	sig   []byte
}

// c24RefEntryOK: entry i "was signed, by a key certified for exactly that entry's ISD-AS with a
// certificate covering the hop field's lifetime, over the entry, the segment information and all
// earlier entries and signatures". Hop field lifetime: [ts, ts + (ExpTime+1)*24h/256]
// (scion-header.rst); 24h/256 = 337.5 s, computed in half seconds.
func c24RefEntryOK(pool []c24Cert, ts uint32, info []byte, es []c24Recv, i int) uint8 {
	ad := [][]byte{info}
	adTotal := len(info)
	for j := 0; j < i; j++ {
		ad = append(ad, es[j].hb, es[j].sig)
		adTotal += len(es[j].hb) + len(es[j].sig)
	}
	e := &es[i]
	start2 := 2 * uint64(ts)
	end2 := start2 + 675*(uint64(e.exp)+1)
	var ok uint8
	for c := range pool {
		ce := &pool[c]
		m := bi(ce.ia == e.local) & bi(e.hdrIA == e.local) & bi(ce.skid == e.skid)
		m &= bi(2*uint64(ce.nb) <= start2) & bi(end2 <= 2*uint64(ce.na))
		m &= c24Eq(c24Sig(ce.key, e.hb, ad), e.sig)
		ok |= m
	}
	return ok & bi(int64(e.adLen) == int64(adTotal))
}

var c24Exps = [4]uint8{0, 1, 62, 255}

// VerifC24Iff: an arbitrary received segment (arbitrary info bytes, entry ISD-ASes, hop expiry,
// signer identities, signed bodies and signature bytes) against an arbitrary certificate pool: the
// real VerifySegment succeeds iff the reference predicate holds for every entry.
func VerifC24Iff() {
	n := verif.Param("n")
	k := verif.Param("certs")
	bodyLen := verif.Param("body")
	allExp := verif.Param("allexp")
	pool := make([]c24Cert, k)
	for i := range pool {
		pool[i] = c24NewCert()
	}
	ts := verif.NondetU32("ts")
	info := verif.NondetBytes("info", 6)
	ps := &seg.PathSegment{Info: seg.Info{Raw: info, Timestamp: time.Unix(int64(ts), 0)}}
	es := make([]c24Recv, n)
	for i := 0; i < n; i++ {
		e := &es[i]
		e.local = addr.IA(verif.NondetU64("local"))
		if allExp == 1 {
			// every expiry value (the time arithmetic of time.Time.Add becomes symbolic)
			e.exp = verif.NondetU8("exp")
		} else {
			// enumerated bound: entry i carries expiry c24Exps[(i+shift) mod 4]
			e.exp = c24Exps[(i+verif.Param("shift"))%len(c24Exps)]
		}
		e.hdrIA = addr.IA(verif.NondetU64("hdr.ia"))
		e.skid = verif.NondetU16("hdr.skid")
		e.adLen = int32(verif.NondetU32("hdr.adlen"))
		e.hb = c24SignedInput(e.hdrIA, e.skid, e.adLen, verif.NondetBytes("body", bodyLen))
		e.sig = verif.NondetBytes("sig", c24SigLen)
		// entries with a wildcard ISD-AS never reach verification (ASEntryFromPB rejects them)
		verif.Assume(c24Wildcard(e.local) == 0)
		ps.ASEntries = append(ps.ASEntries, seg.ASEntry{
			Local:    e.local,
			HopEntry: seg.HopEntry{HopField: seg.HopField{ExpTime: e.exp}},
			Signed:   &cryptopb.SignedMessage{HeaderAndBody: e.hb, Signature: e.sig},
		})
	}
	calls := 0
	err := VerifySegment(context.Background(), c24Verifier{pool: pool, calls: &calls}, nil, ps)
	verif.Observe("verify", err == nil)

	want := uint8(1)
	for i := 0; i < n; i++ {
		want &= c24RefEntryOK(pool, ts, info, es, i)
	}
	verif.Assert("verifies-iff-every-entry-signed-by-certified-key-over-info-and-all-earlier-entries",
		(err == nil) == (want == 1))
	if err == nil {
		verif.Cover("iff-accepted")
		verif.Assert("every-entry-was-checked", calls == n)
	} else {
		verif.Cover("iff-rejected")
		if calls > 1 {
			verif.Cover("iff-rejected-at-later-entry")
		}
		verif.Assert("error-is-ErrSegment", errors.Is(err, ErrSegment))
	}
}

// VerifC24IffTwin must be violated: acceptance is reachable.
func VerifC24IffTwin() {
	n := verif.Param("n")
	pool := []c24Cert{c24NewCert()}
	ts := verif.NondetU32("ts")
	info := verif.NondetBytes("info", 6)
	ps := &seg.PathSegment{Info: seg.Info{Raw: info, Timestamp: time.Unix(int64(ts), 0)}}
	for i := 0; i < n; i++ {
		hb := c24SignedInput(addr.IA(verif.NondetU64("hdr.ia")), verif.NondetU16("hdr.skid"),
			int32(verif.NondetU32("hdr.adlen")), verif.NondetBytes("body", 2))
		ps.ASEntries = append(ps.ASEntries, seg.ASEntry{
			Local:    addr.IA(verif.NondetU64("local")),
			HopEntry: seg.HopEntry{HopField: seg.HopField{ExpTime: 63}},
			Signed: &cryptopb.SignedMessage{
				HeaderAndBody: hb,
				Signature:     verif.NondetBytes("sig", c24SigLen),
			},
		})
	}
	err := VerifySegment(context.Background(), c24Verifier{pool: pool}, nil, ps)
	verif.Assert("twin", err != nil)
}
