//go:build verif || !verif

package spao

import (
	"github.com/scionproto/scion/pkg/addr"
	"github.com/scionproto/scion/pkg/slayers"
	"github.com/scionproto/scion/pkg/slayers/path"
	"github.com/scionproto/scion/pkg/slayers/path/empty"
	"github.com/scionproto/scion/pkg/slayers/path/epic"
	"github.com/scionproto/scion/pkg/slayers/path/onehop"
	"github.com/scionproto/scion/pkg/slayers/path/scion"
	"github.com/scionproto/scion/zz_verif/verif"
)

// C21 — the SPAO MAC input covers exactly the immutable fields.
//
// Two independent symbolic packets P and Q of the same *shape* (path kind and segment lengths,
// host address lengths, payload length) and the same SPI kind are pushed through the real
// serializeAuthenticatedData. The MAC input of a packet is buf[:n] || payload. The reference
// oracle below is transcribed from doc/protocols/authenticator-option.rst ("Authenticated Data")
// and the property statement: for every field class it says whether P and Q agree on it; the
// clauses are
//
//	covered-<class>:   MAC inputs equal  =>  P and Q agree on <class>
//	excluded-<class>:  P and Q agree on everything except <class>  =>  MAC inputs equal
//	mutable-fields-excluded: P and Q agree on every covered class  =>  MAC inputs equal
//
// The SPI is a symbolic 32-bit word (all SPI kinds: non-DRKey, DRKey AS-host / host-host, sender /
// receiver side); shapes are enumerated (tables below, chosen with verif.Choose).

const (
	c21PathEmpty = iota
	c21PathOneHop
	c21PathRaw
	c21PathDecoded
	c21PathEpic
)

type c21Shape struct {
	kind   int
	seg    [3]int
	dl, sl int // host address lengths in bytes (4, 8, 12, 16)
	pldLen int
}

func (sh c21Shape) numINF() int {
	n := 1
	if sh.seg[1] > 0 {
		n = 2
	}
	if sh.seg[2] > 0 {
		n = 3
	}
	return n
}

func (sh c21Shape) total() int { return sh.seg[0] + sh.seg[1] + sh.seg[2] }

// scionStart: offset of the SCION path meta header inside the path bytes.
func (sh c21Shape) scionStart() int {
	if sh.kind == c21PathEpic {
		return epic.MetadataLen
	}
	return 0
}

func (sh c21Shape) pathLen() int {
	switch sh.kind {
	case c21PathEmpty:
		return 0
	case c21PathOneHop:
		return 32
	}
	return sh.scionStart() + 4 + 8*sh.numINF() + 12*sh.total()
}

// c21Shapes: the enumerated shape sets (parameter "set"). Set 0 is the quick tier.
func c21Shapes(set int) []c21Shape {
	switch set {
	case 0:
		return []c21Shape{
			{c21PathEmpty, [3]int{}, 4, 4, 0},
			{c21PathEmpty, [3]int{}, 16, 8, 3},
			{c21PathOneHop, [3]int{}, 4, 16, 2},
			{c21PathRaw, [3]int{1, 0, 0}, 4, 4, 2},
			{c21PathRaw, [3]int{2, 2, 0}, 16, 4, 1},
			{c21PathDecoded, [3]int{1, 1, 1}, 4, 12, 0},
			{c21PathDecoded, [3]int{2, 0, 0}, 8, 16, 4},
			{c21PathEpic, [3]int{1, 0, 0}, 4, 4, 1},
			{c21PathEpic, [3]int{2, 1, 0}, 16, 16, 2},
		}
	case 1: // every pair of host address lengths
		var out []c21Shape
		for dl := 4; dl <= 16; dl += 4 {
			for sl := 4; sl <= 16; sl += 4 {
				out = append(out, c21Shape{c21PathRaw, [3]int{1, 1, 0}, dl, sl, 1})
			}
		}
		return out
	case 2, 3, 4: // segment shapes, for the three SCION-path carrying kinds
		kind := []int{c21PathRaw, c21PathDecoded, c21PathEpic}[set-2]
		var out []c21Shape
		for _, s := range [][3]int{{1, 0, 0}, {3, 0, 0}, {1, 2, 0}, {2, 1, 3}, {3, 3, 3}, {5, 0, 0}, {2, 4, 0}, {1, 1, 1}} {
			out = append(out, c21Shape{kind, s, 4, 4, 2})
		}
		return out
	case 5: // payload lengths
		var out []c21Shape
		for n := 0; n <= 16; n++ {
			k := c21PathEmpty
			if n%2 == 1 {
				k = c21PathOneHop
			}
			out = append(out, c21Shape{k, [3]int{}, 4, 4, n})
		}
		return out
	case 9: // the reachability twins
		return []c21Shape{{c21PathRaw, [3]int{1, 1, 0}, 4, 16, 1}, {c21PathOneHop, [3]int{}, 4, 4, 0}}
	}
	return nil
}

type c21Pkt struct {
	s       *slayers.SCION
	opt     slayers.PacketAuthOption
	od      []byte // copy of the option data the reference reads
	spi     uint32
	pldType slayers.L4ProtocolType
	pld     []byte
	raw     []byte // reference copy of the path bytes as they were before decoding
}

// c21RefSeg: segment containing hop hf (scion-header.rst).
func c21RefSeg(hf, s0, s1 uint32) uint8 {
	seg := uint8(0)
	if hf >= s0 {
		seg = 1
	}
	if hf >= s0+s1 {
		seg = 2
	}
	return seg
}

// c21SpiIsDRKey: "SPI values in the range 1 ... 2^21-1 identify a DRKey".
func c21SpiIsDRKey(spi uint32) bool { return spi >= 1 && spi <= (1<<21)-1 }

// c21NewPacket builds a packet of the given shape whose every other bit is symbolic.
func c21NewPacket(tag string, sh c21Shape) *c21Pkt {
	p := &c21Pkt{}
	// --- path
	var pth path.Path
	n := sh.pathLen()
	raw := verif.NondetBytes(tag+".path", n)
	switch sh.kind {
	case c21PathEmpty:
		pth = empty.Path{}
	case c21PathOneHop:
		// reserved bits of the info field flags / RSV byte and of the hop field flags are zero
		// (one comparison per Assume: only two-operand && / || are if-converted by the engine)
		verif.Assume(raw[0]&0xfc == 0 && raw[1] == 0)
		verif.Assume(raw[8]&0xfc == 0 && raw[20]&0xfc == 0)
		o := &onehop.Path{}
		verif.Assume(o.DecodeFromBytes(append([]byte(nil), raw...)) == nil)
		pth = o
	default:
		m := raw[sh.scionStart():]
		numINF, total := sh.numINF(), sh.total()
		line := uint32(m[0])<<24 | uint32(m[1])<<16 | uint32(m[2])<<8 | uint32(m[3])
		verif.Assume(line&0x3ffff == uint32(sh.seg[0])<<12|uint32(sh.seg[1])<<6|uint32(sh.seg[2]))
		verif.Assume((line>>18)&63 == 0) // RSV
		currHF := (line >> 24) & 63
		verif.Assume(currHF < uint32(total))
		verif.Assume(uint8(line>>30) == c21RefSeg(currHF, uint32(sh.seg[0]), uint32(sh.seg[1])))
		for i := 0; i < numINF; i++ {
			o := 4 + 8*i
			verif.Assume(m[o]&0xfc == 0 && m[o+1] == 0)
		}
		for i := 0; i < total; i++ {
			o := 4 + 8*numINF + 12*i
			verif.Assume(m[o]&0xfc == 0)
		}
		cp := append([]byte(nil), raw...)
		switch sh.kind {
		case c21PathRaw:
			r := &scion.Raw{}
			verif.Assume(r.DecodeFromBytes(cp) == nil)
			pth = r
		case c21PathDecoded:
			d := &scion.Decoded{}
			verif.Assume(d.DecodeFromBytes(cp) == nil)
			pth = d
		case c21PathEpic:
			e := &epic.Path{}
			verif.Assume(e.DecodeFromBytes(cp) == nil)
			pth = e
		}
	}
	p.raw = raw

	// --- SCION common + address header
	dt, st := verif.NondetU8(tag+".dt"), verif.NondetU8(tag+".st")
	// the wire fields are 4 bits wide; the low two bits are the length (scion-header.rst)
	verif.Assume(dt < 16 && st < 16)
	verif.Assume(int(dt&3) == sh.dl/4-1 && int(st&3) == sh.sl/4-1)
	s := &slayers.SCION{
		Version:      verif.NondetU8(tag + ".version"),
		TrafficClass: verif.NondetU8(tag + ".tc"),
		FlowID:       verif.NondetU32(tag + ".flowid"),
		NextHdr:      slayers.L4ProtocolType(verif.NondetU8(tag + ".nexthdr")),
		HdrLen:       verif.NondetU8(tag + ".hdrlen"),
		PayloadLen:   verif.NondetU16(tag + ".payloadlen"),
		PathType:     path.Type(verif.NondetU8(tag + ".pathtype")),
		DstAddrType:  slayers.AddrType(dt),
		SrcAddrType:  slayers.AddrType(st),
		DstIA:        addr.IA(verif.NondetU64(tag + ".dstia")),
		SrcIA:        addr.IA(verif.NondetU64(tag + ".srcia")),
		RawDstAddr:   verif.NondetBytes(tag+".dsthost", sh.dl),
		RawSrcAddr:   verif.NondetBytes(tag+".srchost", sh.sl),
		Path:         pth,
	}
	verif.Assume(s.Version < 16 && s.FlowID < 1<<20) // wire field widths
	// HdrLen of a well-formed header is the actual header length in 4-byte units
	verif.Assume(int(s.HdrLen) == (12+16+sh.dl+sh.sl+n)/4)
	p.s = s

	// --- authenticator option: SPI(4) Algorithm(1) RSV(1) Timestamp(6) Authenticator(16)
	od := verif.NondetBytes(tag+".opt", 28)
	p.spi = uint32(od[0])<<24 | uint32(od[1])<<16 | uint32(od[2])<<8 | uint32(od[3])
	p.od = append([]byte(nil), od...)
	p.opt = slayers.PacketAuthOption{EndToEndOption: &slayers.EndToEndOption{
		OptType: slayers.OptTypeAuthenticator, OptDataLen: 28, ActualLength: 30, OptData: od,
	}}
	p.pldType = slayers.L4ProtocolType(verif.NondetU8(tag + ".pldtype"))
	p.pld = verif.NondetBytes(tag+".pld", sh.pldLen)
	return p
}

// c21SameSPIKind: both SPIs are non-DRKey, or both are DRKey SPIs with the same T and D bits.
func c21SameSPIKind(a, b uint32) bool {
	da, db := c21SpiIsDRKey(a), c21SpiIsDRKey(b)
	sameTD := (a>>16)&3 == (b>>16)&3
	return c21All(da == db, c21Or(!da, sameTD))
}

func c21EqBytes(a, b []byte) bool {
	if len(a) != len(b) {
		return false
	}
	ok := true
	for i := range a {
		ok = ok && a[i] == b[i]
	}
	return ok
}

// c21PathMasks returns, per path byte, the bits that are immutable (covered) and the bits of the
// three mutable classes, from authenticator-option.rst item 4 and scion-header.rst offsets.
func c21PathMasks(sh c21Shape) (cov, ptr, segid, alert []byte) {
	n := sh.pathLen()
	cov, ptr, segid, alert = make([]byte, n), make([]byte, n), make([]byte, n), make([]byte, n)
	for i := range cov {
		cov[i] = 0xff
	}
	switch sh.kind {
	case c21PathEmpty:
	case c21PathOneHop:
		// info field: flags, RSV, SegID(2), timestamp(4); first hop at 8, second hop at 20
		cov[2], cov[3], segid[2], segid[3] = 0, 0, 0xff, 0xff
		cov[8], alert[8] = 0xfc, 0x03
		for i := 20; i < 32; i++ {
			// "Second Hop Field" is mutable as a whole (filled in by the second router)
			cov[i], alert[i] = 0, 0xff
		}
	default:
		o := sh.scionStart()
		cov[o], ptr[o] = 0, 0xff // CurrINF(2) | CurrHF(6)
		for i := 0; i < sh.numINF(); i++ {
			k := o + 4 + 8*i
			cov[k+2], cov[k+3], segid[k+2], segid[k+3] = 0, 0, 0xff, 0xff
		}
		for i := 0; i < sh.total(); i++ {
			k := o + 4 + 8*sh.numINF() + 12*i
			cov[k], alert[k] = 0xfc, 0x03 // r r r r r r I E
		}
	}
	return
}

// c21Or / c21All combine (possibly symbolic) booleans without nested short-circuit control flow.
func c21Or(a, b bool) bool { return a || b }

func c21All(bs ...bool) bool {
	ok := true
	for _, b := range bs {
		ok = ok && b
	}
	return ok
}

func c21EqMasked(a, b, m []byte) bool {
	ok := true
	for i := range a {
		ok = ok && a[i]&m[i] == b[i]&m[i]
	}
	return ok
}

// c21MacInput runs the code under test; the MAC input is buf[:n] followed by the payload.
func c21MacInput(p *c21Pkt) ([]byte, error) {
	buf := make([]byte, MACBufferSize)
	n, err := serializeAuthenticatedData(buf, p.s, p.opt, p.pldType, p.pld)
	if err != nil {
		return nil, err
	}
	return append(buf[:n:n], p.pld...), nil
}

var c21KindName = []string{"path-empty", "path-onehop", "path-scion-raw", "path-scion-decoded", "path-epic"}

// c21Pair: two packets of one of the shapes of the set, same SPI kind.
func c21Pair() (c21Shape, *c21Pkt, *c21Pkt) {
	shapes := c21Shapes(verif.Param("set"))
	sh := shapes[verif.Choose("shape", len(shapes))]
	P, Q := c21NewPacket("p", sh), c21NewPacket("q", sh)
	verif.Assume(c21SameSPIKind(P.spi, Q.spi))
	return sh, P, Q
}

// VerifC21Fields: same shape, every field independent in P and Q.
func VerifC21Fields() {
	sh, P, Q := c21Pair()
	inP, errP := c21MacInput(P)
	inQ, errQ := c21MacInput(Q)
	verif.Observe("serialize", errP == nil, errQ == nil, inP, inQ)
	verif.Assert("well-formed-packet-serializes", errP == nil && errQ == nil)
	if errP != nil || errQ != nil {
		return
	}
	verif.Cover(c21KindName[sh.kind])
	eqIn := c21EqBytes(inP, inQ)

	// ---- reference: which addresses the SPI kind leaves to the key derivation
	// (authenticator-option.rst: T = bit 17, D = bit 16 of a DRKey SPI)
	drkey := c21SpiIsDRKey(P.spi)
	hostHost := (P.spi>>17)&1 == 1
	receiverSide := (P.spi>>16)&1 == 1
	iaCovered := !drkey
	// AS-host, receiver side (T=0, D=1): destination host is in the MAC input
	dstHostCovered := c21Or(!drkey, c21All(!hostHost, receiverSide))
	// AS-host, sender side (T=0, D=0): source host is in the MAC input
	srcHostCovered := c21Or(!drkey, c21All(!hostHost, !receiverSide))
	if drkey { // decided by the path condition: the code under test has branched on the SPI
		if hostHost {
			verif.Cover("spi-drkey-host-host")
		} else if receiverSide {
			verif.Cover("spi-drkey-as-host-receiver-side")
		} else {
			verif.Cover("spi-drkey-as-host-sender-side")
		}
	} else {
		verif.Cover("spi-non-drkey")
	}

	// ---- reference: agreement of P and Q per field class
	covMask, ptrMask, segMask, alertMask := c21PathMasks(sh)
	eqVersion := P.s.Version == Q.s.Version
	eqDSCP := P.s.TrafficClass&0xfc == Q.s.TrafficClass&0xfc
	eqECN := P.s.TrafficClass&0x03 == Q.s.TrafficClass&0x03
	eqFlow := P.s.FlowID == Q.s.FlowID
	eqPathType := P.s.PathType == Q.s.PathType
	eqAddrTypes := P.s.DstAddrType == Q.s.DstAddrType && P.s.SrcAddrType == Q.s.SrcAddrType
	eqIA := P.s.DstIA == Q.s.DstIA && P.s.SrcIA == Q.s.SrcIA
	eqDstHost := c21EqBytes(P.s.RawDstAddr, Q.s.RawDstAddr)
	eqSrcHost := c21EqBytes(P.s.RawSrcAddr, Q.s.RawSrcAddr)
	eqPathCov := c21EqMasked(P.raw, Q.raw, covMask)
	eqPathPtr := c21EqMasked(P.raw, Q.raw, ptrMask)
	eqPathSeg := c21EqMasked(P.raw, Q.raw, segMask)
	eqPathAlert := c21EqMasked(P.raw, Q.raw, alertMask)
	eqUpperType := P.pldType == Q.pldType
	eqPayload := c21EqBytes(P.pld, Q.pld)
	eqAlg := P.od[4] == Q.od[4]
	eqTS := c21EqBytes(P.od[6:12], Q.od[6:12])
	eqNextHdrLen := P.s.NextHdr == Q.s.NextHdr && P.s.PayloadLen == Q.s.PayloadLen
	// SPI, RSV byte and the authenticator field itself are not part of the MAC input
	eqOptRest := c21All(c21EqBytes(P.od[0:4], Q.od[0:4]), P.od[5] == Q.od[5], c21EqBytes(P.od[12:], Q.od[12:]))

	eqCovAddr := c21All(c21Or(!iaCovered, eqIA), c21Or(!dstHostCovered, eqDstHost), c21Or(!srcHostCovered, eqSrcHost))
	eqExclAddr := c21All(c21Or(iaCovered, eqIA), c21Or(dstHostCovered, eqDstHost), c21Or(srcHostCovered, eqSrcHost))

	coveredEq := c21All(eqVersion, eqDSCP, eqFlow, eqPathType, eqAddrTypes, eqCovAddr, eqPathCov,
		eqUpperType, eqPayload, eqAlg, eqTS)

	// ---- covered classes: a change is visible in the MAC input
	verif.Assert("covered-version", c21Or(!eqIn, eqVersion))
	verif.Assert("dscp-bits-covered", c21Or(!eqIn, eqDSCP))
	verif.Assert("covered-flow-id", c21Or(!eqIn, eqFlow))
	verif.Assert("covered-path-type", c21Or(!eqIn, eqPathType))
	verif.Assert("covered-address-types", c21Or(!eqIn, eqAddrTypes))
	verif.Assert("covered-addresses", c21Or(!eqIn, eqCovAddr))
	verif.Assert("covered-immutable-path-content", c21Or(!eqIn, eqPathCov))
	verif.Assert("covered-upper-layer-type", c21Or(!eqIn, eqUpperType))
	verif.Assert("covered-upper-layer-payload", c21Or(!eqIn, eqPayload))
	verif.Assert("covered-algorithm", c21Or(!eqIn, eqAlg))
	verif.Assert("covered-timestamp", c21Or(!eqIn, eqTS))

	// ---- excluded classes, one at a time: P and Q agree on everything else
	allBut := func(ecn, ptr, seg, alert, nh, ex, opt bool) bool {
		return c21All(coveredEq, c21Or(ecn, eqECN), c21Or(ptr, eqPathPtr), c21Or(seg, eqPathSeg),
			c21Or(alert, eqPathAlert), c21Or(nh, eqNextHdrLen), c21Or(ex, eqExclAddr), c21Or(opt, eqOptRest))
	}
	verif.Assert("ecn-bits-excluded", c21Or(!allBut(true, false, false, false, false, false, false), eqIn))
	verif.Assert("excluded-curr-pointers", c21Or(!allBut(false, true, false, false, false, false, false), eqIn))
	verif.Assert("excluded-segment-ids", c21Or(!allBut(false, false, true, false, false, false, false), eqIn))
	verif.Assert("excluded-router-alerts", c21Or(!allBut(false, false, false, true, false, false, false), eqIn))
	verif.Assert("excluded-nexthdr-payloadlen", c21Or(!allBut(false, false, false, false, true, false, false), eqIn))
	verif.Assert("excluded-drkey-bound-addresses", c21Or(!allBut(false, false, false, false, false, true, false), eqIn))
	verif.Assert("excluded-spi-and-authenticator", c21Or(!allBut(false, false, false, false, false, false, true), eqIn))
	// ---- all excluded classes at once (the ECN bits are claimed by their own clause above)
	verif.Assert("mutable-fields-excluded", c21Or(!c21All(coveredEq, eqECN), eqIn))
}

// VerifC21FieldsTwin is a reachability twin: two packets with equal MAC input need not be the
// same packet (the assertion must be violated).
func VerifC21FieldsTwin() {
	_, P, Q := c21Pair()
	inP, errP := c21MacInput(P)
	inQ, errQ := c21MacInput(Q)
	verif.Assume(errP == nil && errQ == nil)
	verif.Assert("twin", c21Or(!c21EqBytes(inP, inQ), P.s.NextHdr == Q.s.NextHdr))
}

// VerifC21FieldsTwin2: two packets that differ only in an excluded field can have different MAC
// inputs?  No - so the twin asserts the opposite of a covered clause: packets that agree on all
// excluded fields always have equal inputs (must be violated: a covered field may differ).
func VerifC21FieldsTwin2() {
	_, P, Q := c21Pair()
	inP, errP := c21MacInput(P)
	inQ, errQ := c21MacInput(Q)
	verif.Assume(errP == nil && errQ == nil)
	verif.Assume(P.s.NextHdr == Q.s.NextHdr && P.s.TrafficClass&3 == Q.s.TrafficClass&3)
	verif.Assert("twin2", c21EqBytes(inP, inQ))
}
