//go:build verif || !verif

package spao

import (
	"hash"

	"github.com/scionproto/scion/zz_verif/verif"
)

// verifCMAC idealises AES-CMAC as the uninterpreted function spao_cmac(key || data). Under the
// symbolic engine spao.initCMAC is redirected to verifInitCMAC (engine/natives_spaodrkey.go);
// natively the real AES-CMAC runs, so the harness compares MACs only for (in)equality.
type verifCMAC struct{ key, data []byte }

func (m *verifCMAC) Write(p []byte) (int, error) {
	m.data = append(m.data, p...)
	return len(p), nil
}
func (m *verifCMAC) Sum(b []byte) []byte { return append(b, verif.UF("spao_cmac", 16, m.key, m.data)...) }
func (m *verifCMAC) Reset()              { m.data = nil }
func (m *verifCMAC) Size() int           { return 16 }
func (m *verifCMAC) BlockSize() int      { return 16 }

func verifInitCMAC(key []byte) (hash.Hash, error) {
	return &verifCMAC{key: append([]byte(nil), key...)}, nil
}

// VerifC21CMAC: the authenticator computed by ComputeAuthCMAC is the MAC, under the given key, of
// exactly the serialised authenticated data followed by the payload: with a collision-free MAC two
// authenticators are equal iff keys and MAC inputs are equal. Together with VerifC21Fields this
// carries the covered / excluded clauses from the MAC input to the authenticator itself.
func VerifC21CMAC() {
	verif.AssumeInjective("spao_cmac", 0)
	_, P, Q := c21Pair()
	kP, kQ := verif.NondetBytes("p.key", 16), verif.NondetBytes("q.key", 16)
	inP, errP := c21MacInput(P)
	inQ, errQ := c21MacInput(Q)
	verif.Assume(errP == nil && errQ == nil)
	macP, e1 := ComputeAuthCMAC(MACInput{Key: kP, Header: P.opt, ScionLayer: P.s, PldType: P.pldType, Pld: P.pld},
		make([]byte, MACBufferSize), make([]byte, 16))
	macQ, e2 := ComputeAuthCMAC(MACInput{Key: kQ, Header: Q.opt, ScionLayer: Q.s, PldType: Q.pldType, Pld: Q.pld},
		make([]byte, MACBufferSize), make([]byte, 16))
	verif.Assert("cmac-computed", e1 == nil && e2 == nil)
	if e1 != nil || e2 != nil {
		return
	}
	verif.Cover("cmac-computed")
	verif.Assert("authenticator-is-16-bytes", len(macP) == 16 && len(macQ) == 16)
	same := c21All(c21EqBytes(kP, kQ), c21EqBytes(inP, inQ))
	eqMac := c21EqBytes(macP, macQ)
	verif.Observe("cmac", len(macP), len(macQ))
	verif.Assert("authenticators-equal-iff-key-and-authenticated-data-equal", eqMac == same)
}

// VerifC21CMACTwin: must be violated - authenticators of two packets can be equal.
func VerifC21CMACTwin() {
	verif.AssumeInjective("spao_cmac", 0)
	_, P, Q := c21Pair()
	k := verif.NondetBytes("key", 16)
	macP, e1 := ComputeAuthCMAC(MACInput{Key: k, Header: P.opt, ScionLayer: P.s, PldType: P.pldType, Pld: P.pld},
		make([]byte, MACBufferSize), make([]byte, 16))
	macQ, e2 := ComputeAuthCMAC(MACInput{Key: k, Header: Q.opt, ScionLayer: Q.s, PldType: Q.pldType, Pld: Q.pld},
		make([]byte, MACBufferSize), make([]byte, 16))
	verif.Assume(e1 == nil && e2 == nil)
	verif.Assert("twin-cmac", !c21EqBytes(macP, macQ))
}
