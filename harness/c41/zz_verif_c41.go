//go:build verif || !verif

package dataplane

import (
	"context"

	"github.com/scionproto/scion/private/ringbuf"
	"github.com/scionproto/scion/zz_verif/verif"
)

// C41 — gateway encapsulation reproduces the IP packet stream.
//
// Sending side: the real encoder (newEncoder / Write / Read / copyToFrame) on top of the real pktRing
// and ringbuf.Ring; the harness plays the writer goroutine (all packets written, then Close) and the
// sender goroutine (Read until nil, each frame copied as conn.WriteTo would put it on the wire).
// Receiving side: the real worker.processFrame -> reassemblyList.Insert -> frameBuf.ProcessCompletePkts /
// tryReassemble / collectAndWrite; worker.tunIO is a recording io.WriteCloser. Frame buffers are
// prepared the way IngressServer.read does (raw bytes, frameLen, sessId) with *stale symbolic bytes*
// behind frameLen (frame buffers are recycled through freeFrames in the real gateway).
//
// Oracle (property text + doc/sig.rst): a packet is a valid IPv4 packet iff its version nibble is 4,
// it has at least the 20-byte fixed header and its Total Length field equals its length; a valid IPv6
// packet iff version nibble 6, at least 40 bytes and 40 + Payload Length equals its length.

const c41StaleTail = 48

type c41Sink struct {
	pkts [][]byte
}

func (s *c41Sink) Write(b []byte) (int, error) {
	s.pkts = append(s.pkts, append([]byte(nil), b...))
	return len(b), nil
}

func (s *c41Sink) Close() error { return nil }

func c41Eq(a, b []byte) bool {
	if len(a) != len(b) {
		return false
	}
	ok := true
	for i := range a {
		ok = ok && a[i] == b[i]
	}
	return ok
}

// c41Valid is the reference validity predicate (written from the IPv4 / IPv6 header layouts).
func c41Valid(p []byte) bool {
	n := len(p)
	if n < 20 {
		return false
	}
	v := p[0] >> 4
	ok := v == 4 && int(p[2])<<8|int(p[3]) == n
	if n >= 40 {
		ok = ok || (v == 6 && (int(p[4])<<8|int(p[5]))+40 == n)
	}
	return ok
}

// c41Packet draws one packet. kind 0: every byte symbolic (validity decided by the solver),
// kind 4 / 6: version nibble and length field fixed to a valid IPv4 / IPv6 header, rest symbolic.
func c41Packet(name string, n int, kind int) []byte {
	p := verif.NondetBytes(name, n)
	switch kind {
	case 4:
		p[0] = 0x40 | p[0]&0x0f
		p[2], p[3] = byte(n>>8), byte(n)
	case 6:
		p[0] = 0x60 | p[0]&0x0f
		p[4], p[5] = byte((n-40)>>8), byte(n-40)
	}
	return p
}

// c41Len draws a packet length in [lo,hi]: an enumerated bound (every value is explored).
func c41Len(name string, lo, hi int) int {
	return lo + verif.Choose(name, hi-lo+1)
}

// c41StreamIDs: session id, stream id and first sequence number of the sending encoder. With
// parameter symids=1 all three are solver variables (any session, any stream, any point in the
// life of the stream); with symids=0 they are the values of a freshly created encoder (the bulk
// entries, where only lengths and payload vary).
func c41StreamIDs() (uint8, uint32, uint64) {
	if verif.Param("symids") == 0 {
		return 7, 0x1234, 0
	}
	sess := verif.NondetU8("sess")
	stream := verif.NondetU32("stream")
	seq0 := verif.NondetU64("seq0")
	verif.Assume(seq0 < 1<<62) // sequence-number wrap-around (2^64 frames) is outside the claim
	return sess, stream, seq0
}

// c41Encode runs the sending gateway: all packets are handed to the encoder, the encoder is closed,
// and frames are read until Read reports the end. Returns copies of the frames.
func c41Encode(e *encoder, pkts [][]byte) [][]byte {
	return c41EncodeSplit(e, pkts, 0)
}

// c41EncodeSplit: as c41Encode, but the writer has handed over only the first split packets when the
// sender goroutine starts reading: the sender then finds the ring empty in the middle of a frame
// and flushes a partly filled frame (the n == 0 exit of encoder.Read); the remaining packets arrive
// afterwards. The harness calls Read only when it cannot block for ever: at least one of the first
// split packets is valid, or a partly copied packet is pending.
func c41EncodeSplit(e *encoder, pkts [][]byte, split int) [][]byte {
	var frames [][]byte
	for _, p := range pkts[:split] {
		e.Write(p)
	}
	if split > 0 {
		some := false
		for _, p := range pkts[:split] {
			v := c41Valid(p)
			some = some || v
		}
		verif.Assume(some)
		frames = append(frames, append([]byte(nil), e.Read()...))
		for k := 0; k < 8 && len(e.pkt) > 0; k++ {
			frames = append(frames, append([]byte(nil), e.Read()...))
		}
		verif.Cover("early-flush")
	}
	for _, p := range pkts[split:] {
		e.Write(p)
	}
	e.Close()
	done := false
	for i := 0; i < 64 && !done; i++ {
		f := e.Read()
		if f == nil {
			done = true
		} else {
			frames = append(frames, append([]byte(nil), f...))
		}
	}
	verif.Assert("encoder-drains-after-close", done)
	return frames
}

// c41FrameBuf prepares a received frame like IngressServer.read: bytes in raw, frameLen, sessId.
func c41FrameBuf(f []byte, k int) *frameBuf {
	fb := &frameBuf{raw: make([]byte, len(f)+c41StaleTail)}
	fb.Reset()
	copy(fb.raw, f)
	copy(fb.raw[len(f):], verif.NondetBytes("stale", c41StaleTail))
	fb.frameLen = len(f)
	fb.sessId = fb.raw[1]
	return fb
}

func c41Worker(sess uint8) (*worker, *c41Sink) {
	sink := &c41Sink{}
	w := &worker{SessID: sess, rlists: make(map[int]*reassemblyList), tunIO: sink}
	// released frame buffers are parked here (real ring buffer, large enough never to block)
	freeFrames = ringbuf.New(64, nil, "verif_free")
	return w, sink
}

// VerifC41Stream: in-order lossless delivery.
//
//	params: mtu (frame capacity handed to newEncoder), n (packets), lo/hi (length range), kind
func VerifC41Stream() {
	mtu := verif.Param("mtu")
	n := verif.Param("n")
	lo, hi := verif.Param("lo"), verif.Param("hi")
	kind := verif.Param("kind")

	sess, stream, seq0 := c41StreamIDs()

	pkts, orig := c41DrawPackets(n, lo, hi, kind)

	e := newEncoder(sess, stream, uint16(mtu))
	e.seq = seq0
	frames := c41EncodeSplit(e, pkts, verif.Param("split"))

	// reference: the valid packets, in order
	var want [][]byte
	nInvalid := 0
	for i := 0; i < n; i++ {
		if c41Valid(orig[i]) {
			want = append(want, orig[i])
		} else {
			nInvalid++
		}
	}

	// sender-side clauses: frame sizes, and the frame payloads are exactly the valid packets
	sizesOK := true
	var payload []byte
	for _, f := range frames {
		sizesOK = sizesOK && len(f) >= hdrLen && len(f) <= mtu
		payload = append(payload, f[hdrLen:]...)
	}
	var wantCat []byte
	for _, p := range want {
		wantCat = append(wantCat, p...)
	}
	verif.Assert("frames-within-mtu", sizesOK)
	verif.Assert("frames-carry-exactly-the-valid-packets", c41Eq(payload, wantCat))
	verif.Observe("frames", len(frames), len(payload))

	// receiving gateway, frames in order and without loss
	w, sink := c41Worker(sess)
	ctx := context.Background()
	for k, f := range frames {
		verif.Assert("frame-version-zero", f[0] == 0)
		w.processFrame(ctx, c41FrameBuf(f, k))
	}

	verif.Assert("lossless-same-number-of-packets", len(sink.pkts) == len(want))
	same := len(sink.pkts) == len(want)
	if same {
		for i := range want {
			same = same && c41Eq(sink.pkts[i], want[i])
		}
	}
	verif.Assert("lossless-same-packet-sequence", same)
	verif.Observe("out", len(sink.pkts))
	for _, p := range sink.pkts {
		verif.Observe("pkt", p)
	}

	if nInvalid > 0 {
		verif.Cover("invalid-packet-dropped")
	}
	if len(frames) > len(want) && len(want) > 0 {
		verif.Cover("packet-split-across-frames")
	}
	if len(frames) > 0 && len(frames) < len(want) {
		verif.Cover("several-packets-in-one-frame")
	}
	if len(want) == 1 && len(frames) >= 3 {
		verif.Cover("packet-spans-three-frames")
	}
}

// c41DrawPackets draws n packets with forked lengths in [lo,hi] (see VerifC41Stream for kind).
func c41DrawPackets(n, lo, hi, kind int) (pkts, orig [][]byte) {
	pkts = make([][]byte, n)
	orig = make([][]byte, n)
	for i := 0; i < n; i++ {
		l := c41Len("len", lo, hi)
		k := kind
		if kind == 46 {
			k = 4
			if l >= 40 && verif.Choose("v6", 2) == 1 {
				k = 6
			}
		}
		pkts[i] = c41Packet("p", l, k)
		orig[i] = append([]byte(nil), pkts[i]...)
	}
	return
}

// VerifC41Faults: the frames of one stream reach the receiver under an arbitrary schedule of d
// deliveries (each delivery picks any of the produced frames: loss, duplication and reordering).
// Every packet the receiver emits must be byte-identical to one of the packets that were sent.
//
//	params: mtu, n, lo, hi, kind, d, symids
func VerifC41Faults() {
	mtu := verif.Param("mtu")
	n := verif.Param("n")
	d := verif.Param("d")
	sess, stream, seq0 := c41StreamIDs()
	pkts, orig := c41DrawPackets(n, verif.Param("lo"), verif.Param("hi"), verif.Param("kind"))

	e := newEncoder(sess, stream, uint16(mtu))
	e.seq = seq0
	frames := c41Encode(e, pkts)
	verif.Assume(len(frames) >= 2)

	w, sink := c41Worker(sess)
	ctx := context.Background()
	inOrder := true
	prev := -1
	for k := 0; k < d; k++ {
		i := verif.Choose("deliver", len(frames))
		inOrder = inOrder && i == prev+1
		prev = i
		w.processFrame(ctx, c41FrameBuf(frames[i], k))
	}
	verif.Observe("emitted", len(sink.pkts))
	for _, out := range sink.pkts {
		match := false
		for _, p := range orig {
			m := c41Eq(out, p)
			match = match || m
		}
		verif.Assert("faults-every-emitted-packet-was-sent", match)
		verif.Observe("pkt", out)
	}
	if !inOrder && len(sink.pkts) > 0 {
		verif.Cover("faulty-schedule-emits-packets")
	}
	if !inOrder && len(sink.pkts) == 0 {
		verif.Cover("faulty-schedule-emits-nothing")
	}
}

// VerifC41TwoStreams: two encoders of the same session with different stream ids (what Session.SetPaths
// creates when the path set changes) each send n packets; their frames reach the receiver in an
// arbitrary schedule of d deliveries. Every emitted packet must be one of the sent packets (frames
// of different streams must never be spliced together).
//
//	params: mtu, n, lo, hi, d
func VerifC41TwoStreams() {
	mtu := verif.Param("mtu")
	n := verif.Param("n")
	d := verif.Param("d")
	sess := verif.NondetU8("sess")
	s1, s2 := verif.NondetU32("stream1"), verif.NondetU32("stream2")
	verif.Assume((s1^s2)&0xfffff != 0) // the wire carries 20 bits of the stream id
	q1, q2 := verif.NondetU64("seq1"), verif.NondetU64("seq2")
	verif.Assume(q1 < 1<<62 && q2 < 1<<62)

	pk1, orig1 := c41DrawPackets(n, verif.Param("lo"), verif.Param("hi"), verif.Param("kind"))
	pk2, orig2 := c41DrawPackets(n, verif.Param("lo"), verif.Param("hi"), verif.Param("kind"))
	e1 := newEncoder(sess, s1, uint16(mtu))
	e1.seq = q1
	e2 := newEncoder(sess, s2, uint16(mtu))
	e2.seq = q2
	frames := append(c41Encode(e1, pk1), c41Encode(e2, pk2)...)
	orig := append(orig1, orig2...)

	w, sink := c41Worker(sess)
	ctx := context.Background()
	for k := 0; k < d; k++ {
		w.processFrame(ctx, c41FrameBuf(frames[verif.Choose("deliver", len(frames))], k))
	}
	verif.Observe("emitted", len(sink.pkts))
	for _, out := range sink.pkts {
		match := false
		for _, p := range orig {
			m := c41Eq(out, p)
			match = match || m
		}
		verif.Assert("two-streams-every-emitted-packet-was-sent", match)
		verif.Observe("pkt", out)
	}
	if len(sink.pkts) >= 2 {
		verif.Cover("two-streams-both-deliver")
	}
}

// VerifC41FaultsTwin: reachability twin of VerifC41Faults (a schedule under which something is
// emitted exists, so "nothing is ever emitted" must be violated).
func VerifC41FaultsTwin() {
	mtu := verif.Param("mtu")
	d := verif.Param("d")
	pkts, _ := c41DrawPackets(verif.Param("n"), verif.Param("lo"), verif.Param("hi"), 46)
	e := newEncoder(1, 2, uint16(mtu))
	frames := c41Encode(e, pkts)
	verif.Assume(len(frames) >= 2)
	w, sink := c41Worker(1)
	ctx := context.Background()
	for k := 0; k < d; k++ {
		w.processFrame(ctx, c41FrameBuf(frames[verif.Choose("deliver", len(frames))], k))
	}
	verif.Assert("twin", len(sink.pkts) == 0)
}

// VerifC41StreamTwin is the reachability twin: with at least one valid packet the receiver emits
// something, so the assertion must be violated.
func VerifC41StreamTwin() {
	mtu := verif.Param("mtu")
	l := c41Len("len", verif.Param("lo"), verif.Param("hi"))
	p := c41Packet("p", l, 0)
	e := newEncoder(verif.NondetU8("sess"), verif.NondetU32("stream"), uint16(mtu))
	frames := c41Encode(e, [][]byte{p})
	w, sink := c41Worker(0)
	ctx := context.Background()
	for k, f := range frames {
		w.processFrame(ctx, c41FrameBuf(f, k))
	}
	verif.Assert("twin", len(sink.pkts) == 0)
}
