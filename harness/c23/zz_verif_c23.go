//go:build verif || !verif

package beaconing

import (
	"bytes"
	"context"
	"hash"
	"time"

	"google.golang.org/protobuf/proto"

	"github.com/scionproto/scion/control/ifstate"
	"github.com/scionproto/scion/pkg/addr"
	cppb "github.com/scionproto/scion/pkg/proto/control_plane"
	cryptopb "github.com/scionproto/scion/pkg/proto/crypto"
	"github.com/scionproto/scion/pkg/scrypto/cppki"
	seg "github.com/scionproto/scion/pkg/segment"
	"github.com/scionproto/scion/pkg/segment/extensions/discovery"
	"github.com/scionproto/scion/zz_verif/verif"
)

// ---- stubs --------------------------------------------------------------------------------------

// c23MAC replaces the AES-CMAC instance returned by the MAC factory: an uninterpreted function
// "hfmac" of the bytes written (DESIGN 5.1). Every finished input block is logged.
type c23MAC struct {
	in  []byte
	log *[][]byte
}

func (m *c23MAC) Write(p []byte) (int, error) { m.in = append(m.in, p...); return len(p), nil }
func (m *c23MAC) Sum(b []byte) []byte {
	in := append([]byte(nil), m.in...)
	*m.log = append(*m.log, in)
	return append(b, verif.UF("hfmac", 16, in)...)
}
func (m *c23MAC) Reset()         { m.in = nil }
func (m *c23MAC) Size() int      { return 16 }
func (m *c23MAC) BlockSize() int { return 16 }

var _ hash.Hash = (*c23MAC)(nil)

// c23SignRec records what the signer stub was asked to sign.
type c23SignRec struct {
	calls int
	by    int
	msg   []byte
	assoc [][]byte
	out   *cryptopb.SignedMessage
}

// c23Signer is the ideal signer: the signature is an uninterpreted function "sig" of the signer,
// the message and the associated data; HeaderAndBody carries the message.
type c23Signer struct {
	id  int
	val cppki.Validity
	rec *c23SignRec
}

func (s c23Signer) Sign(_ context.Context, msg []byte, assoc ...[]byte) (*cryptopb.SignedMessage, error) {
	s.rec.calls++
	s.rec.by = s.id
	s.rec.msg = append([]byte(nil), msg...)
	s.rec.assoc = nil
	in := [][]byte{{byte(s.id)}, msg}
	for _, a := range assoc {
		s.rec.assoc = append(s.rec.assoc, append([]byte(nil), a...))
		in = append(in, a)
	}
	s.rec.out = &cryptopb.SignedMessage{
		HeaderAndBody: append([]byte(nil), msg...),
		Signature:     verif.UF("sig", 8, in...),
	}
	return s.rec.out, nil
}

func (s c23Signer) Validity() cppki.Validity { return s.val }

// ---- environment --------------------------------------------------------------------------------

type c23Topo struct {
	id  []uint16
	ia  []addr.IA
	rid []uint16
	mtu []uint16
}

// find returns the index of the configured interface with the given id, -1 if there is none.
func (t *c23Topo) find(id uint16) int {
	r := -1
	for i := range t.id {
		if t.id[i] == id {
			r = i
		}
	}
	return r
}

// c23Topology: n interfaces with symbolic, pairwise distinct, non-zero ids and symbolic remote
// ISD-AS, remote interface id and MTU, loaded through the real ifstate.NewInterfaces.
func c23Topology(n int) (*ifstate.Interfaces, *c23Topo) {
	t := &c23Topo{}
	m := map[uint16]ifstate.InterfaceInfo{}
	for i := 0; i < n; i++ {
		id := verif.NondetU16("if.id")
		verif.Assume(id != 0)
		for _, o := range t.id {
			verif.Assume(o != id)
		}
		ia := addr.IA(verif.NondetU64("if.ia"))
		rid := verif.NondetU16("if.remote")
		mtu := verif.NondetU16("if.mtu")
		t.id, t.ia, t.rid, t.mtu = append(t.id, id), append(t.ia, ia), append(t.rid, rid), append(t.mtu, mtu)
		m[id] = ifstate.InterfaceInfo{ID: id, IA: ia, RemoteID: rid, MTU: mtu}
	}
	return ifstate.NewInterfaces(m, ifstate.Config{}), t
}

type c23Env struct {
	ext     *DefaultExtender
	topo    *c23Topo
	local   addr.IA
	mtu     uint16
	maxExp  uint8
	macLog  [][]byte
	sign    c23SignRec
	notAftr []uint32 // signer i: NotAfter, unix seconds

	ps      *seg.PathSegment
	tsSec   uint32
	segID   uint16
	prior   int
	sigma   []uint16 // first two MAC bytes of the prior hop entries
	infoRaw []byte
}

// c23Setup builds the extender (nIf interfaces, nSig signers) and a beacon with `prior` entries
// whose ISD-AS chain is consistent and ends at the local AS.
func c23Setup(nIf, nSig, prior int) *c23Env {
	e := &c23Env{prior: prior}
	intfs, topo := c23Topology(nIf)
	e.topo = topo
	e.local = addr.IA(verif.NondetU64("local.ia"))
	e.mtu = verif.NondetU16("local.mtu")
	e.maxExp = verif.NondetU8("maxexp")

	e.tsSec = verif.NondetU32("ts")
	// the data plane carries 32-bit timestamps; keep the clock model's range (2017..2096)
	verif.Assume(e.tsSec >= 1500000000 && e.tsSec <= 4000000000)
	e.segID = verif.NondetU16("segid")
	e.infoRaw = verif.NondetBytes("info.raw", 4)

	var signers []Signer
	for i := 0; i < nSig; i++ {
		nb := verif.NondetU32("signer.notbefore")
		na := verif.NondetU32("signer.notafter")
		e.notAftr = append(e.notAftr, na)
		signers = append(signers, c23Signer{id: i, rec: &e.sign, val: cppki.Validity{
			NotBefore: time.Unix(int64(nb), 0),
			NotAfter:  time.Unix(int64(na), 0),
		}})
	}

	e.ps = &seg.PathSegment{Info: seg.Info{
		Raw:       e.infoRaw,
		Timestamp: time.Unix(int64(e.tsSec), 0),
		SegmentID: e.segID,
	}}
	var ias []addr.IA
	for i := 0; i < prior; i++ {
		ias = append(ias, addr.IA(verif.NondetU64("prior.ia")))
	}
	for i := 0; i < prior; i++ {
		var a seg.ASEntry
		a.Local = ias[i]
		if i+1 < prior {
			a.Next = ias[i+1]
		} else {
			a.Next = e.local
		}
		if i > 0 {
			a.HopEntry.HopField.ConsIngress = verif.NondetU16("prior.in")
		}
		a.HopEntry.HopField.ConsEgress = verif.NondetU16("prior.eg")
		m := verif.NondetBytes("prior.mac", 6)
		copy(a.HopEntry.HopField.MAC[:], m)
		e.sigma = append(e.sigma, uint16(m[0])<<8|uint16(m[1]))
		a.Signed = &cryptopb.SignedMessage{
			HeaderAndBody: verif.NondetBytes("prior.body", 3),
			Signature:     verif.NondetBytes("prior.sig", 2),
		}
		e.ps.ASEntries = append(e.ps.ASEntries, a)
	}

	e.ext = &DefaultExtender{
		IA:         e.local,
		SignerGen:  SignerGenFunc(func(context.Context) ([]Signer, error) { return signers, nil }),
		MAC:        func() hash.Hash { return &c23MAC{log: &e.macLog} },
		Intfs:      intfs,
		MTU:        e.mtu,
		MaxExpTime: func() uint8 { return e.maxExp },
		Task:       "verif",
		StaticInfo: func() *StaticInfoCfg { return nil },
		DiscoveryInformation: func() *discovery.Extension {
			return nil
		},
	}
	return e
}

// ---- reference (written from the property text and doc/protocols/scion-header.rst) ----------------

// refBeta: beta_0 = SegID, beta_{i+1} = beta_i xor sigma_i[:2]; the value for the next entry of a
// beacon with the given prior entries.
func (e *c23Env) refBeta() uint16 {
	b := e.segID
	for _, s := range e.sigma {
		b ^= s
	}
	return b
}

// refMACInput is the hop-field MAC input block of scion-header.rst ("Hop Field MAC Computation").
func refMACInput(beta uint16, ts uint32, exp uint8, in, eg uint16) []byte {
	return []byte{
		0, 0, byte(beta >> 8), byte(beta),
		byte(ts >> 24), byte(ts >> 16), byte(ts >> 8), byte(ts),
		0, exp, byte(in >> 8), byte(in),
		byte(eg >> 8), byte(eg), 0, 0,
	}
}

// refVerifies: the hop field verifies under the AS key (the "hfmac" function) with accumulator beta.
func refVerifies(hf seg.HopField, beta uint16, ts uint32) bool {
	want := verif.UF("hfmac", 16, refMACInput(beta, ts, hf.ExpTime, hf.ConsIngress, hf.ConsEgress))
	return bytes.Equal(hf.MAC[:], want[:6])
}

// refWithinLifetime: ts + (exp+1) * (24h/256) <= notAfter, in half seconds (24h/256 = 337.5 s).
func refWithinLifetime(ts uint32, exp uint8, notAfter uint32) bool {
	return 2*uint64(ts)+(uint64(exp)+1)*675 <= 2*uint64(notAfter)
}

// ---- entries ------------------------------------------------------------------------------------

// VerifC23Extend runs the real DefaultExtender.Extend on a beacon with `prior` entries.
func VerifC23Extend() {
	nIf, nSig, prior, nPeers := verif.Param("ifs"), verif.Param("signers"), verif.Param("prior"), verif.Param("peers")
	e := c23Setup(nIf, nSig, prior)
	ingress := verif.NondetU16("ingress")
	egress := verif.NondetU16("egress")
	var peers []uint16
	for i := 0; i < nPeers; i++ {
		peers = append(peers, verif.NondetU16("peer"))
	}

	err := e.ext.Extend(context.Background(), e.ps, ingress, egress, peers)
	verif.Observe("extend", err == nil, len(e.ps.ASEntries), e.sign.calls)

	// --- extension fails when ingress/egress are inconsistent with the entry's position
	inconsistent := (ingress == 0) != (prior == 0) || (ingress == 0 && egress == 0)
	if inconsistent {
		verif.Cover("inconsistent-position")
		verif.Assert("inconsistent-ingress-egress-is-refused", err != nil)
	}
	if err != nil {
		verif.Cover("refused")
		return
	}
	verif.Cover("extended")

	verif.Assert("exactly-one-entry-added", len(e.ps.ASEntries) == prior+1)
	a := e.ps.ASEntries[prior]
	hf := a.HopEntry.HopField
	verif.Observe("entry", uint64(a.Local), uint64(a.Next), a.MTU, a.HopEntry.IngressMTU,
		hf.ConsIngress, hf.ConsEgress, hf.ExpTime, hf.MAC[:], len(a.PeerEntries))

	// --- names the local AS and the neighbour behind the egress interface
	verif.Assert("entry-names-local-as", a.Local == e.local)
	if egress == 0 {
		verif.Cover("terminated")
		verif.Assert("terminating-entry-has-no-next-as", a.Next == 0)
	} else {
		k := e.topo.find(egress)
		verif.Assert("egress-interface-is-configured", k >= 0)
		if k >= 0 {
			verif.Assert("entry-names-neighbour-behind-egress", a.Next == e.topo.ia[k])
		}
	}
	verif.Assert("hop-field-carries-requested-interfaces", hf.ConsIngress == ingress && hf.ConsEgress == egress)

	// --- hop MAC verifies under the AS key with the accumulated segment identifier
	beta := e.refBeta()
	verif.Assert("hop-mac-verifies-with-accumulated-segid", refVerifies(hf, beta, e.tsSec))
	// --- peer hop MACs verify with the accumulator of the next hop (beta xor sigma of this hop)
	peerBeta := beta ^ (uint16(hf.MAC[0])<<8 | uint16(hf.MAC[1]))
	for _, p := range a.PeerEntries {
		verif.Cover("peer-entry")
		verif.Assert("peer-mac-verifies-with-accumulated-segid", refVerifies(p.HopField, peerBeta, e.tsSec))
		verif.Assert("peer-hop-leaves-through-egress", p.HopField.ConsEgress == egress)
		requested := false
		for _, q := range peers {
			requested = requested || q == p.HopField.ConsIngress
		}
		verif.Assert("peer-hop-enters-through-requested-peer-interface", requested)
		verif.Observe("peer", uint64(p.Peer), p.PeerInterface, p.PeerMTU, p.HopField.ConsIngress,
			p.HopField.ExpTime, p.HopField.MAC[:])
	}

	// --- signed over the segment information and all earlier entries and signatures
	verif.Assert("signed-exactly-once", e.sign.calls == 1)
	verif.Assert("entry-carries-the-signature", a.Signed == e.sign.out)
	wantAssoc := [][]byte{e.infoRaw}
	for i := 0; i < prior; i++ {
		wantAssoc = append(wantAssoc, e.ps.ASEntries[i].Signed.HeaderAndBody, e.ps.ASEntries[i].Signed.Signature)
	}
	okAssoc := len(e.sign.assoc) == len(wantAssoc)
	if okAssoc {
		for i := range wantAssoc {
			okAssoc = okAssoc && bytes.Equal(e.sign.assoc[i], wantAssoc[i])
		}
	}
	verif.Assert("signature-covers-info-and-all-earlier-entries-and-signatures", okAssoc)
	// the signed body is the encoding of exactly the entry that was added
	body := &cppb.ASEntrySignedBody{
		IsdAs:     uint64(a.Local),
		NextIsdAs: uint64(a.Next),
		Mtu:       uint32(a.MTU),
		HopEntry: &cppb.HopEntry{
			IngressMtu: uint32(a.HopEntry.IngressMTU),
			HopField: &cppb.HopField{
				Ingress: uint64(hf.ConsIngress), Egress: uint64(hf.ConsEgress),
				ExpTime: uint32(hf.ExpTime), Mac: hf.MAC[:],
			},
		},
	}
	for _, p := range a.PeerEntries {
		body.PeerEntries = append(body.PeerEntries, &cppb.PeerEntry{
			PeerIsdAs: uint64(p.Peer), PeerInterface: uint64(p.PeerInterface), PeerMtu: uint32(p.PeerMTU),
			HopField: &cppb.HopField{
				Ingress: uint64(p.HopField.ConsIngress), Egress: uint64(p.HopField.ConsEgress),
				ExpTime: uint32(p.HopField.ExpTime), Mac: p.HopField.MAC[:],
			},
		})
	}
	wantBody, _ := proto.Marshal(body)
	verif.Assert("signed-body-is-the-added-entry", bytes.Equal(e.sign.msg, wantBody))
	verif.Assert("entry-mtu-is-local-mtu", a.MTU == int(e.mtu))

	// --- hop expiry never exceeds the configured maximum or the expiry of the signer used
	na := e.notAftr[0]
	if e.sign.by == 1 {
		na = e.notAftr[1]
		verif.Cover("second-signer-used")
	}
	verif.Assert("hop-expiry-at-most-configured-maximum", hf.ExpTime <= e.maxExp)
	verif.Assert("hop-expiry-within-signer-lifetime", refWithinLifetime(e.tsSec, hf.ExpTime, na))
	if hf.ExpTime < e.maxExp {
		verif.Cover("expiry-shortened-by-signer")
	}
	for _, p := range a.PeerEntries {
		verif.Assert("peer-hop-expiry-at-most-configured-maximum", p.HopField.ExpTime <= e.maxExp)
		verif.Assert("peer-hop-expiry-within-signer-lifetime", refWithinLifetime(e.tsSec, p.HopField.ExpTime, na))
	}
}

// VerifC23ExtendVacuity is the reachability twin: it claims the hop expiry always equals the
// configured maximum, which is false whenever the signer expires earlier.
func VerifC23ExtendVacuity() {
	e := c23Setup(verif.Param("ifs"), verif.Param("signers"), verif.Param("prior"))
	ingress := verif.NondetU16("ingress")
	egress := verif.NondetU16("egress")
	err := e.ext.Extend(context.Background(), e.ps, ingress, egress, nil)
	verif.Assume(err == nil)
	verif.Assert("twin", e.ps.ASEntries[e.prior].HopEntry.HopField.ExpTime == e.maxExp)
}
