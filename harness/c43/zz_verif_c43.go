//go:build verif || !verif

package pktcls

import (
	"net"

	"github.com/gopacket/gopacket/layers"

	"github.com/scionproto/scion/zz_verif/verif"
)

// C43: a traffic-class expression evaluates on an IPv4 packet to the boolean value of the
// expression.
//
// The harness keeps two things side by side: a *specification tree* (c43node, plain data) and the
// real pktcls.Cond built from it. The reference value is computed structurally on the
// specification tree from the packet fields (RFC 791 / RFC 768 / RFC 793 field positions); the
// real value is Cond.Eval on a layers.IPv4.

// leaf kinds
const (
	c43Src = iota
	c43Dst
	c43ToS
	c43DSCP
	c43Proto
	c43SrcPort
	c43DstPort
	c43Bool
	c43NumLeaf
)

// node kinds
const (
	c43Leaf = iota
	c43Not
	c43All
	c43Any
)

type c43node struct {
	kind int
	kids []*c43node
	// leaf
	leaf   int
	net    uint32 // address of the prefix (not necessarily masked)
	mask   uint32 // contiguous network mask
	u8     uint8  // tos / dscp / protocol
	lo, hi uint16 // port range
	b      bool   // boolean constant
}

// c43pkt is the reference view of the packet: header fields as numbers.
type c43pkt struct {
	src, dst uint32
	tos      uint8
	proto    uint8
	flags    uint8  // 3 bits: 4=reserved 2=DF 1=MF
	frag     uint16 // 13 bits
	pay      []byte // IPv4 payload
}

func c43u32(b []byte) uint32 {
	return uint32(b[0])<<24 | uint32(b[1])<<16 | uint32(b[2])<<8 | uint32(b[3])
}

// c43mask returns a contiguous mask of symbolic length 0..32 (as 4 bytes and as a number).
func c43mask(name string) (net.IPMask, uint32) {
	n := verif.NondetU8(name)
	verif.Assume(n <= 32)
	m := uint32(0xffffffff) << (32 - uint32(n))
	return net.IPMask{byte(m >> 24), byte(m >> 16), byte(m >> 8), byte(m)}, m
}

// c43packet builds the symbolic IPv4 packet (decoded form, as gopacket would produce it) and its
// reference view.
func c43packet(paylen int) (*layers.IPv4, *c43pkt) {
	src := verif.NondetBytes("src", 4)
	dst := verif.NondetBytes("dst", 4)
	tos := verif.NondetU8("tos")
	proto := verif.NondetU8("proto")
	flags := verif.NondetU8("flags")
	frag := verif.NondetU16("fragoff")
	verif.Assume(flags < 8 && frag < 8192)
	pay := verif.NondetBytes("pay", paylen)
	ip := &layers.IPv4{
		BaseLayer:  layers.BaseLayer{Payload: pay},
		Version:    4,
		IHL:        5,
		TOS:        tos,
		Length:     uint16(20 + paylen),
		Id:         verif.NondetU16("id"),
		Flags:      layers.IPv4Flag(flags),
		FragOffset: frag,
		TTL:        verif.NondetU8("ttl"),
		Protocol:   layers.IPProtocol(proto),
		SrcIP:      net.IP(src),
		DstIP:      net.IP(dst),
	}
	ref := &c43pkt{src: c43u32(src), dst: c43u32(dst), tos: tos, proto: proto, flags: flags,
		frag: frag, pay: pay}
	return ip, ref
}

// ports is the reference extraction of the L4 ports: defined for unfragmented UDP (17) and TCP (6)
// packets whose L4 header is complete; source port = first two payload bytes, destination port =
// the next two (RFC 768, RFC 793), big endian.
func (p *c43pkt) ports() (ok bool, sp, dp uint16) {
	fragment := p.flags&1 != 0 || p.frag != 0
	if fragment {
		return false, 0, 0
	}
	need := 0
	switch p.proto {
	case 17:
		need = 8
	case 6:
		need = 20
	default:
		return false, 0, 0
	}
	if len(p.pay) < need {
		return false, 0, 0
	}
	return true, uint16(p.pay[0])<<8 | uint16(p.pay[1]), uint16(p.pay[2])<<8 | uint16(p.pay[3])
}

// c43ref is the structural boolean value of the specification tree on the packet.
func c43ref(n *c43node, p *c43pkt) bool {
	switch n.kind {
	case c43Not:
		return !c43ref(n.kids[0], p)
	case c43All:
		r := true
		for _, k := range n.kids {
			v := c43ref(k, p)
			r = r && v
		}
		return r
	case c43Any:
		r := false
		for _, k := range n.kids {
			v := c43ref(k, p)
			r = r || v
		}
		return r
	}
	switch n.leaf {
	case c43Src:
		return (p.src^n.net)&n.mask == 0
	case c43Dst:
		return (p.dst^n.net)&n.mask == 0
	case c43ToS:
		return p.tos == n.u8
	case c43DSCP:
		return p.tos>>2 == n.u8
	case c43Proto:
		return p.proto == n.u8
	case c43SrcPort:
		ok, sp, _ := p.ports()
		return ok && n.lo <= sp && sp <= n.hi
	case c43DstPort:
		ok, _, dp := p.ports()
		return ok && n.lo <= dp && dp <= n.hi
	}
	return n.b
}

type c43builder struct {
	ctr      int // leaves created so far
	rot      int // rotation of the leaf-kind assignment
	hasPorts bool
}

// leaf creates the next leaf: the kind is (index of the leaf + rot) mod 8, all parameters of the
// predicate are symbolic.
func (bd *c43builder) leaf() (*c43node, Cond) {
	kind := (bd.ctr + bd.rot) % c43NumLeaf
	bd.ctr++
	n := &c43node{kind: c43Leaf, leaf: kind}
	switch kind {
	case c43Src, c43Dst:
		a := verif.NondetBytes("net", 4)
		m, mv := c43mask("plen")
		n.net, n.mask = c43u32(a), mv
		ipn := &net.IPNet{IP: net.IP(a), Mask: m}
		if kind == c43Src {
			return n, NewCondIPv4(&IPv4MatchSource{Net: ipn})
		}
		return n, NewCondIPv4(&IPv4MatchDestination{Net: ipn})
	case c43ToS:
		n.u8 = verif.NondetU8("ptos")
		return n, NewCondIPv4(&IPv4MatchToS{TOS: n.u8})
	case c43DSCP:
		n.u8 = verif.NondetU8("pdscp")
		return n, NewCondIPv4(&IPv4MatchDSCP{DSCP: n.u8})
	case c43Proto:
		n.u8 = verif.NondetU8("pproto")
		return n, NewCondIPv4(&IPv4MatchProtocol{Protocol: n.u8})
	case c43SrcPort:
		bd.hasPorts = true
		n.lo, n.hi = verif.NondetU16("pmin"), verif.NondetU16("pmax")
		return n, NewCondPorts(&PortMatchSource{MinPort: n.lo, MaxPort: n.hi})
	case c43DstPort:
		bd.hasPorts = true
		n.lo, n.hi = verif.NondetU16("pmin"), verif.NondetU16("pmax")
		return n, NewCondPorts(&PortMatchDestination{MinPort: n.lo, MaxPort: n.hi})
	}
	n.b = verif.NondetBool("pbool")
	return n, CondBool(n.b)
}

// build enumerates (through verif.Choose: every alternative is explored) all trees of depth
// <= depth whose interior nodes are not / all / any with one or two operands (and the documented
// empty all()).
func (bd *c43builder) build(depth int) (*c43node, Cond) {
	if depth <= 1 {
		return bd.leaf()
	}
	switch verif.Choose("node", 7) {
	case 1:
		k, c := bd.build(depth - 1)
		return &c43node{kind: c43Not, kids: []*c43node{k}}, NewCondNot(c)
	case 2:
		k, c := bd.build(depth - 1)
		return &c43node{kind: c43All, kids: []*c43node{k}}, NewCondAllOf(c)
	case 3:
		k1, c1 := bd.build(depth - 1)
		k2, c2 := bd.build(depth - 1)
		return &c43node{kind: c43All, kids: []*c43node{k1, k2}}, NewCondAllOf(c1, c2)
	case 4:
		k, c := bd.build(depth - 1)
		return &c43node{kind: c43Any, kids: []*c43node{k}}, NewCondAnyOf(c)
	case 5:
		k1, c1 := bd.build(depth - 1)
		k2, c2 := bd.build(depth - 1)
		return &c43node{kind: c43Any, kids: []*c43node{k1, k2}}, NewCondAnyOf(c1, c2)
	case 6:
		// all() without operands: documented (doc.go) and conventional value true
		return &c43node{kind: c43All}, NewCondAllOf()
	}
	return bd.leaf()
}

// c43wellformedL4: the statement quantifies over addresses, TOS, protocol and ports; what a port
// predicate yields on a packet whose ports cannot be read cleanly is not stated. Excluded:
// fragments, TCP with options or an impossible data offset, UDP with an impossible length field.
//
// anyUDPLen: accept every possible UDP length field (>= 8, or 0 = jumbogram); otherwise the length
// field equals the IP payload length (saves a fork per length value in the UDP decoder).
func c43wellformedL4(p *c43pkt, anyUDPLen bool) bool {
	fragment := p.flags&1 != 0 || p.frag != 0
	ok := !fragment
	if len(p.pay) >= 20 {
		ok = ok && (p.proto != 6 || p.pay[12]>>4 == 5)
	} else {
		ok = ok && p.proto != 6
	}
	if len(p.pay) >= 8 {
		ulen := uint16(p.pay[4])<<8 | uint16(p.pay[5])
		if anyUDPLen {
			ok = ok && (p.proto != 17 || ulen >= 8 || ulen == 0)
		} else {
			ok = ok && (p.proto != 17 || int(ulen) == len(p.pay))
		}
	} else {
		ok = ok && p.proto != 17
	}
	return ok
}

func c43run(twin bool) {
	depth := verif.Param("depth")
	bd := &c43builder{rot: verif.Param("rot")}
	ip, ref := c43packet(verif.Param("paylen"))
	spec, cond := bd.build(depth)
	if bd.hasPorts {
		verif.Assume(c43wellformedL4(ref, depth == 1))
	}
	got := cond.Eval(ip)
	want := c43ref(spec, ref)
	verif.Observe("eval", got)
	if twin {
		verif.Assert("twin", !got)
		return
	}
	verif.Assert("eval-equals-boolean-value-of-expression", got == want)
	if got {
		verif.Cover("value-true")
	} else {
		verif.Cover("value-false")
	}
	switch spec.kind {
	case c43Not:
		verif.Cover("top-not")
	case c43All:
		verif.Cover("top-all")
	case c43Any:
		verif.Cover("top-any")
	}
	if bd.hasPorts && got {
		if ref.proto == 17 {
			verif.Cover("port-match-udp")
		}
		if ref.proto == 6 {
			verif.Cover("port-match-tcp")
		}
	}
}

// VerifC43Eval: all trees up to Param(depth), leaf kinds rotated by Param(rot).
func VerifC43Eval() { c43run(false) }

// VerifC43EvalTwin is the reachability twin: "every expression is false" must be violated.
func VerifC43EvalTwin() { c43run(true) }
