// Package verif is the harness support package of the /verif solver-based checker.
//
// Under the symbolic engine every exported function below is an intrinsic (the bodies are never
// interpreted). Compiled natively (go test -overlay) the same functions read their values from a
// case table, so that one harness source serves symbolic execution, counterexample replay and the
// differential self-check of the interpreter.
package verif

import (
	"crypto/sha256"
	"encoding/hex"
	"encoding/json"
	"fmt"
	"hash"
	"os"
	"reflect"
	"strconv"
	"strings"
	"time"
)

type ufPoint struct {
	Name string `json:"name"`
	In   string `json:"in"`
	Out  string `json:"out"`
}

// Case is one concrete run of an entry function.
type Case struct {
	Entry  string            `json:"entry"`
	Params map[string]int64  `json:"params"`
	Inputs map[string]string `json:"inputs"`
	UF     []ufPoint         `json:"uf"`
}

// Result is what the native run produced.
type Result struct {
	Observed []string `json:"observed"`
	End      string   `json:"end"` // done | assume-false | assert:<clause> | panic:<msg>
	UFMiss   int      `json:"uf_miss"`
	Missing  []string `json:"missing_inputs,omitempty"`
}

type skipT struct{}
type assertFail struct{ clause string }

var (
	cur   *Case
	res   *Result
	seq   map[string]int
	ufTab map[string]string
)

func nextName(name string) string {
	k := seq[name]
	seq[name] = k + 1
	if k > 0 {
		return name + "#" + strconv.Itoa(k)
	}
	return name
}

func input(name string) uint64 {
	full := nextName(name)
	s, ok := cur.Inputs[full]
	if !ok {
		res.Missing = append(res.Missing, full)
		return 0
	}
	v, err := strconv.ParseUint(s, 10, 64)
	if err != nil {
		panic("verif: bad input value for " + full + ": " + s)
	}
	return v
}

func NondetBool(name string) bool  { return input(name)&1 == 1 }
func NondetU8(name string) uint8   { return uint8(input(name)) }
func NondetU16(name string) uint16 { return uint16(input(name)) }
func NondetU32(name string) uint32 { return uint32(input(name)) }
func NondetU64(name string) uint64 { return input(name) }
func NondetInt(name string, lo, hi int) int {
	return int(int64(input(name)))
}

func NondetBytes(name string, n int) []byte {
	b := make([]byte, n)
	for i := range b {
		b[i] = uint8(input(name + "[" + strconv.Itoa(i) + "]"))
	}
	return b
}

// Choose is an n-ary environment choice (all alternatives are explored).
func Choose(name string, n int) int { return int(input("choose:" + name)) }

// Param returns a concrete parameter of the entry instance (part of the stated bound).
func Param(name string) int {
	v, ok := cur.Params[name]
	if !ok {
		panic("verif: parameter not set: " + name)
	}
	return int(v)
}

// HasParam reports whether the entry instance defines the parameter.
func HasParam(name string) bool {
	_, ok := cur.Params[name]
	return ok
}

// Concrete forces a case split over the feasible values of v (identity natively).
func Concrete(v uint64) uint64 { return v }

// Tabulate returns v. Under the engine the term is rewritten into an exact lookup table over the
// input bits it depends on when these are few (<= 9 bits); this keeps multiplications/divisions of
// small quantities away from the bit-blaster.
func Tabulate(v uint64) uint64 { return v }

func Assume(cond bool) {
	if !cond {
		panic(skipT{})
	}
}

func Assert(clause string, cond bool) {
	if !cond {
		panic(assertFail{clause})
	}
}

func Unreachable(clause string) { panic(assertFail{clause}) }

func Cover(label string) {}

func Observe(label string, vals ...any) {
	var sb strings.Builder
	sb.WriteString(label + ":")
	for _, v := range vals {
		sb.WriteString(" ")
		sb.WriteString(render(v))
	}
	res.Observed = append(res.Observed, sb.String())
}

func render(v any) string {
	if v == nil {
		return "nil"
	}
	rv := reflect.ValueOf(v)
	switch rv.Kind() {
	case reflect.Bool:
		return strconv.FormatBool(rv.Bool())
	case reflect.Int, reflect.Int8, reflect.Int16, reflect.Int32, reflect.Int64:
		return strconv.FormatInt(rv.Int(), 10)
	case reflect.Uint, reflect.Uint8, reflect.Uint16, reflect.Uint32, reflect.Uint64, reflect.Uintptr:
		return strconv.FormatUint(rv.Uint(), 10)
	case reflect.String:
		return "x" + hex.EncodeToString([]byte(rv.String()))
	case reflect.Slice, reflect.Array:
		if rv.Type().Elem().Kind() == reflect.Uint8 {
			b := make([]byte, rv.Len())
			for i := range b {
				b[i] = uint8(rv.Index(i).Uint())
			}
			return "x" + hex.EncodeToString(b)
		}
		if rv.Kind() == reflect.Slice && rv.IsNil() {
			return "nil"
		}
	case reflect.Ptr, reflect.Interface, reflect.Map, reflect.Func, reflect.Chan:
		if rv.IsNil() {
			return "nil"
		}
		return "nonnil"
	}
	if _, ok := v.(error); ok {
		return "nonnil"
	}
	panic(fmt.Sprintf("verif.Observe: unsupported type %T", v))
}

// UF is an uninterpreted function from byte strings to outBytes bytes. Natively the points of the
// solver's model are served from the case table; other points fall back to SHA-256.
func UF(name string, outBytes int, in ...[]byte) []byte {
	var all []byte
	for _, p := range in {
		all = append(all, p...)
	}
	key := name + "_len" + strconv.Itoa(len(all)) + ":" + hex.EncodeToString(all)
	if out, ok := ufTab[key]; ok {
		b, _ := hex.DecodeString(out)
		return b
	}
	res.UFMiss++
	h := sha256.Sum256(append([]byte(name+":"), all...))
	out := make([]byte, outBytes)
	for i := range out {
		out[i] = h[i%32] ^ byte(i/32)
	}
	return out
}

// UFHash is an idealised hash.Hash: Sum is the uninterpreted function name over the bytes written.
// The engine substitutes it for crypto/sha256.New(); native replays get it through the
// replay_rewrite of sha256.New() -> verif.NewSHA256() (so that both sides see the same function).
type UFHash struct {
	name string
	size int
	buf  []byte
}

func NewUFHash(name string, size int) *UFHash { return &UFHash{name: name, size: size} }

// NewSHA256 stands in for crypto/sha256.New.
func NewSHA256() hash.Hash { return &UFHash{name: "sha256", size: 32} }

func (h *UFHash) Write(p []byte) (int, error) {
	h.buf = append(h.buf, p...)
	return len(p), nil
}
func (h *UFHash) Sum(b []byte) []byte { return append(b, UF(h.name, h.size, h.buf)...) }
func (h *UFHash) Reset()              { h.buf = nil }
func (h *UFHash) Size() int           { return h.size }
func (h *UFHash) BlockSize() int      { return 64 }

// AssumeInjective declares the UF family collision-free on the first truncBytes bytes of its
// output (0 = whole output) for all applications occurring on the path.
func AssumeInjective(name string, truncBytes int) {}

// Now is the environment clock (what time.Now() is replaced by in native replays).
func Now() time.Time {
	sec := input("now.sec")
	nsec := input("now.nsec")
	return time.Unix(int64(sec), int64(nsec)).UTC()
}

type tester interface {
	Errorf(format string, args ...any)
	Logf(format string, args ...any)
}

// RunCases runs the cases of $VERIF_CASES and writes the results to $VERIF_OUT.
func RunCases(t tester, entries map[string]func()) {
	raw, err := os.ReadFile(os.Getenv("VERIF_CASES"))
	if err != nil {
		t.Errorf("verif: cannot read cases: %v", err)
		return
	}
	var cases []Case
	if err := json.Unmarshal(raw, &cases); err != nil {
		t.Errorf("verif: bad cases file: %v", err)
		return
	}
	results := make([]Result, len(cases))
	for i := range cases {
		results[i] = runCase(&cases[i], entries)
	}
	out, _ := json.Marshal(results)
	if err := os.WriteFile(os.Getenv("VERIF_OUT"), out, 0o644); err != nil {
		t.Errorf("verif: cannot write results: %v", err)
	}
}

func runCase(c *Case, entries map[string]func()) (r Result) {
	cur, res = c, &r
	seq = map[string]int{}
	ufTab = map[string]string{}
	for _, p := range c.UF {
		ufTab[p.Name+":"+p.In] = p.Out
	}
	f := entries[c.Entry]
	if f == nil {
		r.End = "panic:unknown entry " + c.Entry
		return
	}
	defer func() {
		if p := recover(); p != nil {
			switch v := p.(type) {
			case skipT:
				r.End = "assume-false"
			case assertFail:
				r.End = "assert:" + v.clause
			default:
				r.End = "panic:" + fmt.Sprint(p)
			}
		}
	}()
	f()
	r.End = "done"
	return
}
