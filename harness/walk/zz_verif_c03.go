//go:build verif || !verif

package router

import (
	"github.com/scionproto/scion/pkg/snet"
	"github.com/scionproto/scion/zz_verif/verif"
)

// vwReply builds the answer to a delivered request the way an snet end host does: the received raw
// path is handed to the real snet.DefaultReplyPather (-> scion.Decoded.Reverse), source and
// destination address (and ports) are swapped. Returns nil if the reply pather fails.
func vwReply(req []byte) []byte {
	hdrLen := int(req[5]) * 4
	rawPath := make([]byte, hdrLen-vwPathOff)
	copy(rawPath, req[vwPathOff:hdrLen])
	rp, err := snet.DefaultReplyPather{}.ReplyPath(snet.RawPath{PathType: 1, Raw: rawPath})
	verif.Observe("replypath", err)
	if err != nil {
		return nil
	}
	p := rp.(snet.RawReplyPath).Path
	out := make([]byte, p.Len())
	if err := p.SerializeTo(out); err != nil {
		return nil
	}
	d := vwPktDesc{path: out, word0: verif.NondetU32("word0")}
	d.dstIA, d.srcIA = be64w(req, 20), be64w(req, 12)
	copy(d.dstHost[:], req[32:36])
	copy(d.srcHost[:], req[28:32])
	u := req[hdrLen:]
	d.dstPort = uint16(u[0])<<8 | uint16(u[1])
	d.srcPort = uint16(u[2])<<8 | uint16(u[3])
	return vwSerialize(d)
}

// c03Run: request along the valid path, reply along the reversed path.
func c03Run(twin bool) {
	w, raw := vwRequest()
	last := len(w.nodes) - 1
	src, dst := w.nodes[0], w.nodes[last]
	fwd := w.vwWalk(raw, src.rOut.internal, "req")
	reqOK := vwDeliveredTo(fwd, last, dst)
	var back *vwTrace
	if fwd.delivered {
		reply := vwReply(fwd.bytes)
		if reply != nil {
			back = w.vwWalk(reply, dst.rIn.internal, "rep")
		}
	}
	// premise "valid path": no hop field expires before the round trip is over
	tEnd := verif.Now()
	verif.Assume(w.allFresh(uint64(tEnd.Unix()), uint64(tEnd.Nanosecond())))

	verif.Assert("request-delivered-to-destination-host", reqOK)
	verif.Cover("request-delivered")
	if back == nil {
		verif.Unreachable("reply-path-built")
		return
	}
	if twin {
		verif.Assert("twin", !back.delivered)
		return
	}
	verif.Assert("reply-accepted-by-every-router", !back.rejected && !back.loop)
	repOK := vwDeliveredTo(back, 0, src)
	verif.Assert("reply-delivered-to-source-host", repOK)
	verif.Cover("reply-delivered")
	// same inter-AS interfaces, reverse order
	same := len(back.cross) == len(fwd.cross)
	if same {
		for i := range back.cross {
			same = same && back.cross[i] == fwd.cross[len(fwd.cross)-1-i]
		}
	}
	verif.Assert("reply-crosses-request-interfaces-in-reverse-order", same)
	if len(fwd.cross) >= 4 {
		verif.Cover("transit-as-crossed")
	}
	if len(w.segs) > 1 {
		verif.Cover("cross-over-traversed")
	}
	for _, n := range w.nodes {
		if n.split {
			verif.Cover("two-router-as-traversed")
		}
	}
}

func VerifC03() { c03Run(false) }

// VerifC03Twin: a reply that reaches the source host exists.
func VerifC03Twin() { c03Run(true) }
