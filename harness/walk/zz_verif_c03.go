//go:build verif || !verif

package router

import (
	"github.com/scionproto/scion/pkg/slayers/path"
	"github.com/scionproto/scion/pkg/snet"
	"github.com/scionproto/scion/zz_verif/verif"
)

// vwReply builds the answer to a delivered request the way an snet end host does: the received raw
// path is handed to the real snet.DefaultReplyPather (-> scion.Decoded.Reverse), source and
// destination address (and ports) are swapped. Returns nil if the reply pather fails.
func vwReply(req []byte) []byte {
	hdrLen := int(req[5]) * 4
	rawPath := make([]byte, hdrLen-vwPathOff)
	copy(rawPath, req[vwPathOff:hdrLen])
	rp, err := snet.DefaultReplyPather{}.ReplyPath(snet.RawPath{PathType: path.Type(req[8]), Raw: rawPath})
	verif.Observe("replypath", err)
	if err != nil {
		return nil
	}
	p := rp.(snet.RawReplyPath).Path
	out := make([]byte, p.Len())
	if err := p.SerializeTo(out); err != nil {
		return nil
	}
	d := vwPktDesc{path: out, word0: verif.NondetU32("word0"), ptype: byte(p.Type())}
	d.dstIA, d.srcIA = be64w(req, 20), be64w(req, 12)
	copy(d.dstHost[:], req[32:36])
	copy(d.srcHost[:], req[28:32])
	u := req[hdrLen:]
	d.dstPort = uint16(u[0])<<8 | uint16(u[1])
	d.srcPort = uint16(u[2])<<8 | uint16(u[3])
	return vwSerialize(d)
}

// c03Run: request along the valid path, reply along the reversed path.
func c03Run(twin bool) {
	w, raw := vwRequest()
	c03RoundTrip(w, raw, twin)
}

// vwOneHopRequest: a one-hop path packet from AS 0 to its neighbour AS 1 (scion-header.rst, "Path
// Type: OneHopPath"): info field (ConsDir set), first hop field authenticated by AS 0 with
// ConsIngress 0 and ConsEgress = its interface towards AS 1, second hop field empty (to be filled
// in by the ingress router of AS 1).
func vwOneHopRequest() (*vwWorld, []byte) {
	w := vwBuild([]vwSegShape{{cons: true, core: verif.Param("core") == 1, n: 2}}, 0)
	w.hops = w.hops[:1] // the hop field of AS 1 is created by its router
	sg, h := w.segs[0], w.hops[0]
	p := make([]byte, 32)
	p[0] = 1
	p[2], p[3] = byte(sg.segID>>8), byte(sg.segID)
	p[4], p[5], p[6], p[7] = byte(sg.ts>>24), byte(sg.ts>>16), byte(sg.ts>>8), byte(sg.ts)
	p[9] = h.exp
	p[10], p[11] = byte(h.consIn>>8), byte(h.consIn)
	p[12], p[13] = byte(h.consEg>>8), byte(h.consEg)
	copy(p[14:20], h.mac)
	src, dst := w.nodes[0], w.nodes[1]
	raw := vwSerialize(vwPktDesc{
		dstIA: uint64(dst.ia), srcIA: uint64(src.ia), dstHost: dst.host, srcHost: src.host,
		dstPort: dst.port, srcPort: src.port, path: p, word0: verif.NondetU32("word0"), ptype: 2,
	})
	return w, raw
}

// VerifC03OneHop: a one-hop path is completed by the neighbour's router, reversed at the
// destination (onehop.Path.Reverse -> SCION path) and the reply walks back.
func VerifC03OneHop() {
	w, raw := vwOneHopRequest()
	verif.Cover("one-hop-request")
	c03RoundTrip(w, raw, false)
}

func c03RoundTrip(w *vwWorld, raw []byte, twin bool) {
	last := len(w.nodes) - 1
	src, dst := w.nodes[0], w.nodes[last]
	fwd := w.vwWalk(raw, src.rOut.internal, "req")
	reqOK := vwDeliveredTo(fwd, last, dst)
	var back *vwTrace
	if fwd.delivered {
		reply := vwReply(fwd.bytes)
		if reply != nil {
			back = w.vwWalk(reply, dst.rIn.internal, "rep")
		}
	}
	// premise "valid path": no hop field expires before the round trip is over
	tEnd := verif.Now()
	verif.Assume(w.allFresh(uint64(tEnd.Unix()), uint64(tEnd.Nanosecond())))

	verif.Assert("request-delivered-to-destination-host", reqOK)
	verif.Cover("request-delivered")
	if back == nil {
		verif.Unreachable("reply-path-built")
		return
	}
	if twin {
		verif.Assert("twin", !back.delivered)
		return
	}
	verif.Assert("reply-accepted-by-every-router", !back.rejected && !back.loop)
	repOK := vwDeliveredTo(back, 0, src)
	verif.Assert("reply-delivered-to-source-host", repOK)
	verif.Cover("reply-delivered")
	// same inter-AS interfaces, reverse order
	same := len(back.cross) == len(fwd.cross)
	if same {
		for i := range back.cross {
			same = same && back.cross[i] == fwd.cross[len(fwd.cross)-1-i]
		}
	}
	verif.Assert("reply-crosses-request-interfaces-in-reverse-order", same)
	if len(fwd.cross) >= 4 {
		verif.Cover("transit-as-crossed")
	}
	if len(w.segs) > 1 {
		verif.Cover("cross-over-traversed")
	}
	for _, n := range w.nodes {
		if n.split {
			verif.Cover("two-router-as-traversed")
		}
	}
}

func VerifC03() { c03Run(false) }

// VerifC03Twin: a reply that reaches the source host exists.
func VerifC03Twin() { c03Run(true) }
