//go:build verif || !verif

package router

// Network walk harness (DESIGN.md 6.2, reduced variant): a concrete path *shape* (number of
// segments, ASes per segment, construction directions, core / parent-child links, which ASes have
// two border routers) with symbolic SegIDs, timestamps, expiry values, MAC function values, clock,
// host addresses, ports and the remaining header bits. One data plane per border router, all
// configured from the same topology table. The hop-field MACs are made valid *by construction*,
// following doc/protocols/scion-header.rst ("Hop Field MAC Computation", "Path Calculation") — this
// is the reference construction, not the code under test. The code under test is the real
// scionPacketProcessor.processPkt of every router on the path, the real path reversal
// (snet.DefaultReplyPather -> scion.Decoded.Reverse) and, for C10, the real slow path.

import (
	"hash"
	"net/netip"

	"github.com/scionproto/scion/pkg/addr"
	"github.com/scionproto/scion/private/topology"
	"github.com/scionproto/scion/router/bfd"
	"github.com/scionproto/scion/zz_verif/verif"
)

// ---- links, MAC, routers ------------------------------------------------------------------------

type vwLink struct {
	ifID  uint16
	scope LinkScope
	up    bool
	rtr   *vwRouter // router this link object belongs to
	peer  *vwLink   // other end of the wire (nil for the internal link)
	// recorded
	resolved int
	resHost  addr.Host
	resPort  uint16
}

func (l *vwLink) IsUp() bool                 { return l.up }
func (l *vwLink) IfID() uint16               { return l.ifID }
func (l *vwLink) Metrics() *InterfaceMetrics { return nil }
func (l *vwLink) Scope() LinkScope           { return l.scope }
func (l *vwLink) BFDSession() *bfd.Session   { return nil }
func (l *vwLink) Resolve(p *Packet, dst addr.Host, port uint16) error {
	l.resolved++
	l.resHost = dst
	l.resPort = port
	return nil
}
func (l *vwLink) Send(p *Packet) bool    { return true }
func (l *vwLink) SendBlocking(p *Packet) {}

// vwMAC stands for AES-CMAC under the forwarding key of one AS: an uninterpreted function (one
// function family per AS, no relation between the families of different ASes).
type vwMAC struct {
	fam string
	buf []byte
}

func (m *vwMAC) Write(b []byte) (int, error) { m.buf = append(m.buf, b...); return len(b), nil }
func (m *vwMAC) Sum(b []byte) []byte         { return append(b, verif.UF(m.fam, 16, m.buf)...) }
func (m *vwMAC) Reset()                      { m.buf = m.buf[:0] }
func (m *vwMAC) Size() int                   { return 16 }
func (m *vwMAC) BlockSize() int              { return 16 }

var _ hash.Hash = (*vwMAC)(nil)

type vwRouter struct {
	node     int
	d        *dataPlane
	internal *vwLink
	proc     *scionPacketProcessor
}

// vwNode is one AS on the path. Travel direction of the request: enters through inIf (0 at the
// source AS), leaves through outIf (0 at the destination AS).
type vwNode struct {
	fam         string // MAC function family of this AS
	ia          addr.IA
	inIf, outIf uint16
	inLT, outLT topology.LinkType
	split       bool       // two border routers: rIn owns inIf, rOut owns outIf
	rIn, rOut   *vwRouter  // the same router when !split
	inL, outL   *vwLink    // the external links (nil when the interface is 0)
	host        [4]byte    // the end host of this AS taking part (symbolic IPv4 address)
	port        uint16     // and its UDP port
}

var vwFams = [...]string{"hfmacA", "hfmacB", "hfmacC", "hfmacD", "hfmacE"}

// concrete interface identifiers per AS position (bound of the harness; pairwise distinct inside an
// AS, both bytes used)
var vwInIfs = [...]uint16{0, 0x0101, 3, 0xFFFE, 0x0200}
var vwOutIfs = [...]uint16{2, 0x0203, 0x1001, 5, 0x00FF}

var vwIAs = [...]uint64{0x0001ff0000000110, 0x0001ff0000000111, 0x0002ff0000000210, 0x0002ff0000000211, 0x0003000000000001}

func vwNewRouter(n *vwNode, k int) *vwRouter {
	r := &vwRouter{node: k}
	d := &dataPlane{}
	d.localIA = n.ia
	fam := n.fam
	d.macFactory = func() hash.Hash { return &vwMAC{fam: fam} }
	r.internal = &vwLink{ifID: 0, scope: Internal, up: true, rtr: r}
	d.interfaces[0] = r.internal
	d.localHost = addr.HostIP(netip.AddrFrom4([4]byte{10, 1, 2, byte(3 + k)}))
	d.numInterfaces = 3
	r.d = d
	return r
}

// seg describes one path segment of the shape, in travel direction of the request.
type vwSegShape struct {
	cons bool // traversed in construction direction
	core bool // core segment (all links Core) / otherwise parent-child links
	n    int  // number of ASes (= hop fields) on it
}

type vwHop struct {
	node           int
	seg            int
	consIn, consEg uint16
	exp            uint8
	mac            []byte // 6 bytes
	beta           uint16 // accumulator value this hop field was authenticated with
}

type vwSeg struct {
	sh    vwSegShape
	first int // index of its first hop field (travel order)
	segID uint16
	ts    uint32
}

type vwWorld struct {
	segs  []vwSeg
	hops  []vwHop
	nodes []*vwNode
	// clock
	horizonSec uint64
}

// link type of the link between travel-consecutive ASes a -> b of a segment, seen from a and from b
func vwLinkTypes(sh vwSegShape) (atA, atB topology.LinkType) {
	if sh.core {
		return topology.Core, topology.Core
	}
	if sh.cons {
		// a is the parent of b
		return topology.Child, topology.Parent
	}
	return topology.Parent, topology.Child
}

// vwBuild creates the topology, routers and the valid path of the shape.
func vwBuild(shape []vwSegShape, splitMask int) *vwWorld {
	w := &vwWorld{}
	// nodes
	nNodes := 1
	for _, s := range shape {
		nNodes += s.n - 1
	}
	for k := 0; k < nNodes; k++ {
		n := &vwNode{fam: vwFams[k], ia: addr.IA(vwIAs[k])}
		if k > 0 {
			n.inIf = vwInIfs[k]
		}
		if k < nNodes-1 {
			n.outIf = vwOutIfs[k]
		}
		n.split = k > 0 && k < nNodes-1 && splitMask&(1<<k) != 0
		hb := verif.NondetBytes("host."+n.fam, 4)
		copy(n.host[:], hb)
		n.port = verif.NondetU16("port." + n.fam)
		w.nodes = append(w.nodes, n)
	}
	// link types along the segments
	k := 0
	for _, s := range shape {
		for i := 0; i < s.n-1; i++ {
			a, b := vwLinkTypes(s)
			w.nodes[k+i].outLT = a
			w.nodes[k+i+1].inLT = b
		}
		k += s.n - 1
	}
	// routers and links
	for k, n := range w.nodes {
		n.rIn = vwNewRouter(n, k)
		n.rOut = n.rIn
		if n.split {
			n.rOut = vwNewRouter(n, k)
			// one sibling link object per router, registered under the interface ids owned by the other
			sIn := &vwLink{scope: Sibling, up: true, rtr: n.rIn}
			sOut := &vwLink{scope: Sibling, up: true, rtr: n.rOut}
			sIn.peer, sOut.peer = sOut, sIn
			n.rIn.d.interfaces[n.outIf] = sIn
			n.rOut.d.interfaces[n.inIf] = sOut
		}
		if n.inIf != 0 {
			n.inL = &vwLink{ifID: n.inIf, scope: External, up: true, rtr: n.rIn}
			n.rIn.d.interfaces[n.inIf] = n.inL
		}
		if n.outIf != 0 {
			n.outL = &vwLink{ifID: n.outIf, scope: External, up: true, rtr: n.rOut}
			n.rOut.d.interfaces[n.outIf] = n.outL
		}
		for _, r := range []*vwRouter{n.rIn, n.rOut} {
			if n.inIf != 0 {
				r.d.linkTypes[n.inIf] = n.inLT
				r.d.neighborIAs[n.inIf] = w.nodes[k-1].ia
			}
			if n.outIf != 0 {
				r.d.linkTypes[n.outIf] = n.outLT
				r.d.neighborIAs[n.outIf] = addr.IA(vwIAs[k+1])
			}
		}
	}
	for k := 0; k+1 < len(w.nodes); k++ {
		a, b := w.nodes[k].outL, w.nodes[k+1].inL
		a.peer, b.peer = b, a
	}
	// segments and hop fields (travel order)
	k = 0
	for j, s := range shape {
		sg := vwSeg{sh: s, first: len(w.hops)}
		sg.ts = vwTS()
		for i := 0; i < s.n; i++ {
			n := w.nodes[k+i]
			tin, teg := n.inIf, n.outIf // travel ingress / egress of this hop field
			if i == 0 && j > 0 {
				// first hop field of a later segment: the AS was entered on the previous segment.
				// What the segment says here (0 at a segment end, the parent interface on a shortcut)
				// is not used for forwarding.
				tin = verif.NondetU16("unused")
			}
			if i == s.n-1 && j < len(shape)-1 {
				teg = verif.NondetU16("unused")
			}
			h := vwHop{node: k + i, seg: j, exp: vwExp(len(w.hops), k+i)}
			if s.cons {
				h.consIn, h.consEg = tin, teg
			} else {
				h.consIn, h.consEg = teg, tin
			}
			w.hops = append(w.hops, h)
		}
		// MAC chain in construction order (scion-header.rst): beta_0 arbitrary (for a shortcut the
		// chain starts in the middle of the beaconed segment with the accumulated value),
		// sigma_i = MAC_Ki(0, beta_i, TS, 0, ExpTime_i, ConsIngress_i, ConsEgress_i, 0),
		// beta_{i+1} = beta_i xor sigma_i[:2].
		beta := verif.NondetU16("beta0")
		for c := 0; c < s.n; c++ {
			t := sg.first + c
			if !s.cons {
				t = sg.first + s.n - 1 - c
			}
			h := &w.hops[t]
			h.beta = beta
			full := verif.UF(w.nodes[h.node].fam, 16, vwMACInput(beta, sg.ts, h.exp, h.consIn, h.consEg))
			h.mac = full[:6]
			beta ^= uint16(full[0])<<8 | uint16(full[1])
		}
		// initial SegID: the accumulator value of the first hop field the packet meets; its AS is
		// entered on this segment from the inside (source AS or cross-over), so no ingress update
		// precedes its verification.
		sg.segID = w.hops[sg.first].beta
		w.segs = append(w.segs, sg)
		k += s.n - 1
	}
	return w
}

// vwExp / vwTS: ExpTime of hop field number k and timestamp of a segment. Symbolic (8 bit / 32 bit)
// unless the instance sets the parameter cexp=1: then ExpTime values are concrete and pairwise
// different and the timestamp lies in an 18 h window (bound used by C10, whose solver queries
// otherwise take seconds each because of the expiry arithmetic accumulated in the path condition).
func vwExp(k, node int) uint8 {
	if verif.HasParam("cexp") && verif.Param("cexp") == 1 {
		if verif.HasParam("cause") && verif.Param("cause") == 3 && verif.Param("at") == node {
			// C10, expired-hop cause: the hop fields of that AS are the first to expire
			return 5
		}
		return uint8(40 + 23*k)
	}
	return verif.NondetU8("exp")
}

func vwTS() uint32 {
	if verif.HasParam("cexp") && verif.Param("cexp") == 1 {
		return 1700000000 + uint32(verif.NondetU16("ts"))
	}
	return verif.NondetU32("ts")
}

func be64w(b []byte, o int) uint64 {
	var v uint64
	for i := 0; i < 8; i++ {
		v = v<<8 | uint64(b[o+i])
	}
	return v
}

func vwMACInput(beta uint16, ts uint32, exp uint8, ci, ce uint16) []byte {
	in := make([]byte, 16)
	in[2], in[3] = byte(beta>>8), byte(beta)
	in[4], in[5], in[6], in[7] = byte(ts>>24), byte(ts>>16), byte(ts>>8), byte(ts)
	in[9] = exp
	in[10], in[11] = byte(ci>>8), byte(ci)
	in[12], in[13] = byte(ce>>8), byte(ce)
	return in
}

// ---- packets (reference serialisation, scion-header.rst; IPv4 hosts, SCION path type, UDP) --------

const (
	vwAddrLen = 24 // 2 x ISD-AS + 2 x IPv4
	vwPathOff = 12 + vwAddrLen
	vwPldLen  = 8 // UDP header, no data
)

type vwPktDesc struct {
	dstIA, srcIA     uint64
	dstHost, srcHost [4]byte
	dstPort, srcPort uint16
	path             []byte // serialised path (meta header, info fields, hop fields)
	word0            uint32 // version 0, traffic class, flow id
	l4               byte   // 0: UDP header built from the ports; otherwise next-header value of pld
	pld              []byte
	ptype            byte // path type; 0 stands for 1 (SCION)
}

func vwSerialize(p vwPktDesc) []byte {
	hdrLen := vwPathOff + len(p.path)
	if p.l4 != 0 {
		b := make([]byte, hdrLen+len(p.pld))
		vwSerializeHdr(p, b, hdrLen)
		b[4] = p.l4
		b[6], b[7] = byte(len(p.pld)>>8), byte(len(p.pld))
		copy(b[hdrLen:], p.pld)
		return b
	}
	b := make([]byte, hdrLen+vwPldLen)
	vwSerializeHdr(p, b, hdrLen)
	u := b[hdrLen:]
	u[0], u[1] = byte(p.srcPort>>8), byte(p.srcPort)
	u[2], u[3] = byte(p.dstPort>>8), byte(p.dstPort)
	u[4], u[5] = 0, 8
	// u[6:8] checksum: not inspected by routers
	return b
}

func vwSerializeHdr(p vwPktDesc, b []byte, hdrLen int) {
	b[0], b[1], b[2], b[3] = byte(p.word0>>24)&0x0f, byte(p.word0>>16), byte(p.word0>>8), byte(p.word0)
	b[4] = 17 // UDP
	b[5] = byte(hdrLen / 4)
	b[6], b[7] = 0, vwPldLen
	b[8] = 1 // SCION path
	if p.ptype != 0 {
		b[8] = p.ptype
	}
	b[9] = 0 // DT/DL/ST/SL: IPv4, IPv4
	for i := 0; i < 8; i++ {
		b[12+i] = byte(p.dstIA >> (56 - 8*i))
		b[20+i] = byte(p.srcIA >> (56 - 8*i))
	}
	copy(b[28:32], p.dstHost[:])
	copy(b[32:36], p.srcHost[:])
	copy(b[vwPathOff:], p.path)
}

// vwPathBytes serialises the world's path with CurrINF = CurrHF = 0.
func (w *vwWorld) vwPathBytes() []byte {
	nInf, nHop := len(w.segs), len(w.hops)
	b := make([]byte, 4+8*nInf+12*nHop)
	var sl [3]int
	for j, s := range w.segs {
		sl[j] = s.sh.n
	}
	b[1] = byte(sl[0] >> 4)
	b[2] = byte(sl[0]&15)<<4 | byte(sl[1]>>2)
	b[3] = byte(sl[1]&3)<<6 | byte(sl[2])
	for j, s := range w.segs {
		o := 4 + 8*j
		if s.sh.cons {
			b[o] = 1
		}
		b[o+2], b[o+3] = byte(s.segID>>8), byte(s.segID)
		b[o+4], b[o+5], b[o+6], b[o+7] = byte(s.ts>>24), byte(s.ts>>16), byte(s.ts>>8), byte(s.ts)
	}
	for t, h := range w.hops {
		o := 4 + 8*nInf + 12*t
		b[o+1] = h.exp
		b[o+2], b[o+3] = byte(h.consIn>>8), byte(h.consIn)
		b[o+4], b[o+5] = byte(h.consEg>>8), byte(h.consEg)
		copy(b[o+6:o+12], h.mac)
	}
	return b
}

func (w *vwWorld) infoOff(j int) int { return vwPathOff + 4 + 8*j }
func (w *vwWorld) hopOff(t int) int  { return vwPathOff + 4 + 8*len(w.segs) + 12*t }

// ---- expiry (reference, as in the router-step harness) -----------------------------------------------

// vwFresh: hop t is not expired at (sec, nsec): Timestamp + (1+ExpTime) * 337.5 s >= now.
func vwFresh(ts uint32, exp uint8, nowSec, nowNsec uint64) bool {
	e1 := uint64(exp) + 1
	addSec := verif.Tabulate(e1*337 + e1/2)
	expNsec := verif.Tabulate((e1 % 2) * 500000000)
	expSec := uint64(ts) + addSec
	sameSecLater := expSec == nowSec && expNsec < nowNsec
	expired := expSec < nowSec || sameSecLater
	return !expired
}

// allFresh: every hop field of the path is unexpired at the given instant.
func (w *vwWorld) allFresh(sec, nsec uint64) bool {
	ok := true
	for _, h := range w.hops {
		f := vwFresh(w.segs[h.seg].ts, h.exp, sec, nsec)
		ok = ok && f
	}
	return ok
}

// ---- the walk ------------------------------------------------------------------------------------------

type vwCross struct {
	node int
	ifID uint16
}

type vwTrace struct {
	steps     int
	lastDisp  disposition
	rejected  bool      // some router did not forward (or named no usable link)
	rejStep   int       // index of the router step that rejected
	rejRouter *vwRouter // the router that rejected
	rejPkt    *Packet   // its packet (carries the slow-path request)
	delivered bool      // handed to an internal link with a resolved end-host address
	delNode   int
	delHost   addr.Host
	delPort   uint16
	cross     []vwCross // inter-AS interfaces crossed, in order (egress side, then ingress side)
	bytes     []byte    // packet bytes as delivered / as last processed
	loop      bool
}

const vwHeadroom = 64
const vwMaxSteps = 12

// vwWalk injects the packet bytes at router r over link in (the internal link for a packet from an
// end host) and lets every router on the way run its real fast path.
func (w *vwWorld) vwWalk(raw []byte, in *vwLink, label string) *vwTrace {
	tr := &vwTrace{}
	cur := raw
	for {
		if tr.steps >= vwMaxSteps {
			tr.loop = true
			return tr
		}
		r := in.rtr
		buf := new([bufSize]byte)
		copy(buf[vwHeadroom:], cur)
		pkt := &Packet{buffer: buf}
		pkt.RawPacket = buf[vwHeadroom : vwHeadroom+len(cur)]
		pkt.Link = in
		if r.proc == nil {
			r.proc = newPacketProcessor(r.d)
		}
		disp := r.proc.processPkt(pkt)
		tr.lastDisp = disp
		tr.bytes = pkt.RawPacket
		verif.Observe(label, tr.steps, r.node, int(disp), pkt.egress, pkt.RawPacket)
		if disp != pForward {
			tr.rejected, tr.rejStep, tr.rejRouter, tr.rejPkt = true, tr.steps, r, pkt
			return tr
		}
		tr.steps++
		out, _ := r.d.interfaces[pkt.egress].(*vwLink)
		if out == nil {
			tr.rejected, tr.rejStep, tr.rejRouter, tr.rejPkt = true, tr.steps-1, r, pkt
			return tr
		}
		switch out.scope {
		case Internal:
			if out.resolved > 0 {
				tr.delivered, tr.delNode, tr.delHost, tr.delPort = true, r.node, out.resHost, out.resPort
				out.resolved = 0
			} else {
				tr.rejected, tr.rejStep, tr.rejRouter, tr.rejPkt = true, tr.steps-1, r, pkt
			}
			return tr
		case External:
			tr.cross = append(tr.cross, vwCross{r.node, out.ifID}, vwCross{out.peer.rtr.node, out.peer.ifID})
		}
		in = out.peer
		cur = pkt.RawPacket
	}
}

func vwHostIs(h addr.Host, want [4]byte) bool {
	if h.Type() != addr.HostTypeIP {
		return false
	}
	ip := h.IP()
	if !ip.Is4() {
		return false
	}
	got := ip.As4()
	var diff byte
	for i := 0; i < 4; i++ {
		diff |= got[i] ^ want[i]
	}
	return diff == 0
}

// vwDeliveredTo: the walk ended with the packet handed to the internal network of AS number node,
// addressed to that AS's participating end host (address and UDP port).
func vwDeliveredTo(tr *vwTrace, node int, n *vwNode) bool {
	if !tr.delivered || tr.delNode != node {
		return false
	}
	hostOK := vwHostIs(tr.delHost, n.host)
	portOK := tr.delPort == n.port
	return hostOK && portOK
}

// ---- shapes ---------------------------------------------------------------------------------------------

// vwShape returns the shape number k of the instance (bound: the listed shapes).
//
//	0: one segment, 3 ASes, against construction direction (up / core), reply in construction direction
//	1: one segment, 3 ASes, in construction direction (down / core)
//	2: up segment (2 ASes) + down segment (3 ASes), cross-over in the second AS (core AS or shortcut)
//	3: up (2) + core (2, against construction direction) + down (2)
//	4: up (3) + down (2)
//	5: up (3) + core (2, in construction direction) + down (2): 5 ASes
//	6: up (2) + down (2)
func vwShape(k int, core bool) []vwSegShape {
	switch k {
	case 0:
		return []vwSegShape{{cons: false, core: core, n: 3}}
	case 1:
		return []vwSegShape{{cons: true, core: core, n: 3}}
	case 2:
		return []vwSegShape{{cons: false, n: 2}, {cons: true, n: 3}}
	case 3:
		return []vwSegShape{{cons: false, n: 2}, {cons: false, core: true, n: 2}, {cons: true, n: 2}}
	case 4:
		return []vwSegShape{{cons: false, n: 3}, {cons: true, n: 2}}
	case 5:
		return []vwSegShape{{cons: false, n: 3}, {cons: true, core: true, n: 2}, {cons: true, n: 2}}
	case 6:
		return []vwSegShape{{cons: false, n: 2}, {cons: true, n: 2}}
	}
	panic("unknown shape")
}

// vwRequest builds the world of the instance and the valid request packet source host -> destination host.
func vwRequest() (*vwWorld, []byte) {
	shape := vwShape(verif.Param("shape"), verif.Param("core") == 1)
	w := vwBuild(shape, verif.Param("split"))
	src, dst := w.nodes[0], w.nodes[len(w.nodes)-1]
	raw := vwSerialize(vwPktDesc{
		dstIA: uint64(dst.ia), srcIA: uint64(src.ia), dstHost: dst.host, srcHost: src.host,
		dstPort: dst.port, srcPort: src.port, path: w.vwPathBytes(), word0: verif.NondetU32("word0"),
	})
	return w, raw
}
