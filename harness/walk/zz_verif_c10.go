//go:build verif || !verif

package router

import (
	"github.com/scionproto/scion/zz_verif/verif"
)

// Causes injected into the request walk (property C10).
const (
	vwCauseExtDown    = 0 // external egress link of AS `at` is down
	vwCauseSibDown    = 1 // AS `at` has two routers and the link between them is down
	vwCauseBadMAC     = 2 // the hop field of AS `at` carries a wrong MAC
	vwCauseExpired    = 3 // the hop field of AS `at` may be expired while all earlier ones are fresh
	vwCauseTraceIn    = 4 // traceroute request, router alert on the travel-ingress interface of AS `at`
	vwCauseTraceEg    = 5 // traceroute request, router alert on the travel-egress interface of AS `at`
	vwSCMPTraceReq    = 130
	vwSCMPTraceReply  = 131
	vwSCMPNextHdr     = 202
	vwTracePldLen     = 24
	vwSCMPExtIfDown   = 5
	vwSCMPIntConnDown = 6
	vwSCMPParamProb   = 4
)

// firstHopOfNode: index of the hop field with which the request enters AS k (travel order).
func (w *vwWorld) firstHopOfNode(k int) int {
	for t, h := range w.hops {
		if h.node == k {
			return t
		}
	}
	panic("no hop for node")
}

// lastHopOfNode: index of the hop field with which the request leaves AS k.
func (w *vwWorld) lastHopOfNode(k int) int {
	r := -1
	for t, h := range w.hops {
		if h.node == k {
			r = t
		}
	}
	return r
}

func c10Run(twin bool) {
	shape := vwShape(verif.Param("shape"), verif.Param("core") == 1)
	w := vwBuild(shape, verif.Param("split"))
	last := len(w.nodes) - 1
	src, dst := w.nodes[0], w.nodes[last]
	cause, at := verif.Param("cause"), verif.Param("at")
	if cause < 0 {
		// every applicable (cause, AS) combination of the shape, AS 1 .. destination
		var combos [][2]int
		for a := 1; a <= last; a++ {
			for c := vwCauseExtDown; c <= vwCauseTraceEg; c++ {
				needsEgress := c == vwCauseExtDown || c == vwCauseSibDown || c == vwCauseTraceEg
				if needsEgress && a == last || c == vwCauseSibDown && !w.nodes[a].split {
					continue
				}
				combos = append(combos, [2]int{c, a})
			}
		}
		k := verif.Choose("case", len(combos))
		cause, at = combos[k][0], combos[k][1]
	}
	n := w.nodes[at]
	path := w.vwPathBytes()
	pathOffInPkt := func(o int) int { return o - vwPathOff }
	d := vwPktDesc{dstIA: uint64(dst.ia), srcIA: uint64(src.ia), dstHost: dst.host, srcHost: src.host,
		dstPort: dst.port, srcPort: src.port, word0: verif.NondetU32("word0")}
	ident := verif.NondetU16("tr.id")
	seq := verif.NondetU16("tr.seq")
	var flagged uint16 // the interface whose router-alert flag is set
	var owner *vwRouter
	staleHop := -1
	switch cause {
	case vwCauseExtDown:
		n.outL.up = false
	case vwCauseSibDown:
		n.rIn.d.interfaces[n.outIf].(*vwLink).up = false
	case vwCauseBadMAC:
		t := w.firstHopOfNode(at)
		m := verif.NondetBytes("mask48", 6)
		verif.Assume(m[0]|m[1]|m[2]|m[3]|m[4]|m[5] != 0)
		// the wrong MAC is not by chance the valid MAC of the input the altered accumulator yields
		// (against construction direction the first two bytes are folded into the accumulator first)
		for i := 0; i < 6; i++ {
			path[pathOffInPkt(w.hopOff(t))+6+i] ^= m[i]
		}
		h := w.hops[t]
		sh := w.segs[h.seg].sh
		if !sh.cons && t != w.segs[h.seg].first {
			m2 := uint16(m[0])<<8 | uint16(m[1])
			tag := verif.UF(n.fam, 16, vwMACInput(h.beta^m2, w.segs[h.seg].ts, h.exp, h.consIn, h.consEg))
			var diff byte
			for i := 0; i < 6; i++ {
				diff |= tag[i] ^ path[pathOffInPkt(w.hopOff(t))+6+i]
			}
			forged := diff == 0
			verif.Assume(m2 == 0 || !forged)
		}
		verif.AssumeInjective(n.fam, 6)
	case vwCauseExpired:
		staleHop = w.firstHopOfNode(at)
	case vwCauseTraceIn, vwCauseTraceEg:
		// traceroute request (scmp.rst): type 130, code 0, identifier, sequence number, zero place holders
		pld := make([]byte, vwTracePldLen)
		pld[0] = vwSCMPTraceReq
		ck := verif.NondetU16("tr.cksum") // not inspected by routers
		pld[2], pld[3] = byte(ck>>8), byte(ck)
		pld[4], pld[5] = byte(ident>>8), byte(ident)
		pld[6], pld[7] = byte(seq>>8), byte(seq)
		d.l4, d.pld = vwSCMPNextHdr, pld
		var t int
		if cause == vwCauseTraceIn {
			t = w.firstHopOfNode(at)
			flagged, owner = n.inIf, n.rIn
		} else {
			t = w.lastHopOfNode(at)
			flagged, owner = n.outIf, n.rOut
		}
		// flag I (0x02) alerts the router of ConsIngress, flag E (0x01) the router of ConsEgress; the
		// travel-ingress interface is ConsIngress exactly when the segment is used in construction direction
		o := pathOffInPkt(w.hopOff(t))
		if w.segs[w.hops[t].seg].sh.cons == (cause == vwCauseTraceIn) {
			path[o] |= 0x02
		} else {
			path[o] |= 0x01
		}
	}
	d.path = path
	raw := vwSerialize(d)
	// a sender that wants error messages back uses a non-zero source port (the router treats a
	// quoted UDP source port 0 as a truncated header and drops the error message)
	verif.Assume(src.port != 0)

	fwd := w.vwWalk(raw, src.rOut.internal, "req")
	var back *vwTrace
	var answered bool
	var reply []byte
	var replyLink *vwLink
	if fwd.rejected && fwd.lastDisp == pSlowPath {
		sp := newSlowPathProcessor(fwd.rejRouter.d)
		err := sp.processPacket(fwd.rejPkt)
		verif.Observe("slowpath", err, fwd.rejPkt.RawPacket)
		if err == nil {
			answered = true
			reply = fwd.rejPkt.RawPacket
			replyLink, _ = fwd.rejPkt.Link.(*vwLink)
			// the slow path sends the answer back over the link the packet came from
			if replyLink.peer != nil {
				back = w.vwWalk(reply, replyLink.peer, "scmp")
			}
		}
	}
	// premise "valid path": hop fields do not expire before the answer is back (except the hop
	// field whose expiry is the injected cause)
	tEnd := verif.Now()
	sec, nsec := uint64(tEnd.Unix()), uint64(tEnd.Nanosecond())
	fresh := true
	for t, h := range w.hops {
		if t != staleHop {
			f := vwFresh(w.segs[h.seg].ts, h.exp, sec, nsec)
			fresh = fresh && f
		}
	}
	verif.Assume(fresh)

	if cause == vwCauseExpired && fwd.delivered {
		// the hop field was still valid: no error, nothing to answer
		verif.Cover("no-error-request-delivered")
		return
	}
	verif.Assert("router-answers-on-the-slow-path", fwd.rejected && fwd.lastDisp == pSlowPath && answered)
	if !answered {
		return
	}
	verif.Assert("answer-comes-from-the-as-of-the-cause", fwd.rejRouter.node == at)
	if back == nil {
		verif.Unreachable("answer-leaves-over-a-wired-link")
		return
	}
	if twin {
		verif.Assert("twin", !back.delivered)
		return
	}
	// one clause per kind of cause and per direction in which the request was using the segment of
	// the answering AS (so that a finding names the scenario it concerns)
	causeName := [...]string{"external-interface-down", "internal-connectivity-down", "invalid-mac", "path-expired",
		"traceroute-ingress", "traceroute-egress"}[cause]
	dirName := "against-construction-direction"
	if w.segs[w.hops[w.firstHopOfNode(at)].seg].sh.cons {
		dirName = "in-construction-direction"
	}
	verif.Assert(causeName+"-answer-accepted-by-every-router-on-the-way-back-request-segment-"+dirName, !back.rejected && !back.loop)
	wantPort := src.port
	if cause >= vwCauseTraceIn {
		wantPort = ident
	}
	okHost, okPort := false, false
	if back.delivered && back.delNode == 0 {
		okHost = vwHostIs(back.delHost, src.host)
		okPort = back.delPort == wantPort
	}
	verif.Assert("answer-delivered-to-original-source-host", okHost)
	verif.Assert("answer-delivered-to-the-senders-port", okPort)
	verif.Cover("answer-delivered")
	if !back.delivered {
		return
	}
	// what the source host receives (reference layout: scion-header.rst, scmp.rst)
	b := back.bytes
	hl := int(b[5]) * 4
	srcIA := be64w(b, 20)
	verif.Assert("answer-source-is-the-answering-as", srcIA == uint64(n.ia))
	verif.Assert("answer-is-scmp", b[4] == vwSCMPNextHdr)
	typ := b[hl]
	switch cause {
	case vwCauseExtDown:
		verif.Cover("external-interface-down")
		okIA := be64w(b, hl+4) == uint64(n.ia)
		okIf := be64w(b, hl+12) == uint64(n.outIf)
		okTyp := typ == vwSCMPExtIfDown
		verif.Assert("external-interface-down-names-as-and-interface", okTyp && okIA && okIf)
	case vwCauseSibDown:
		verif.Cover("internal-connectivity-down")
		okIA := be64w(b, hl+4) == uint64(n.ia)
		okIn := be64w(b, hl+12) == uint64(n.inIf)
		okEg := be64w(b, hl+20) == uint64(n.outIf)
		okTyp := typ == vwSCMPIntConnDown
		verif.Assert("internal-connectivity-down-names-as-and-interfaces", okTyp && okIA && okIn && okEg)
	case vwCauseBadMAC:
		verif.Cover("invalid-mac")
		okTyp, okCode := typ == vwSCMPParamProb, b[hl+1] == 51
		verif.Assert("parameter-problem-invalid-mac", okTyp && okCode)
	case vwCauseExpired:
		verif.Cover("path-expired")
		okTyp, okCode := typ == vwSCMPParamProb, b[hl+1] == 52
		verif.Assert("parameter-problem-path-expired", okTyp && okCode)
	case vwCauseTraceIn, vwCauseTraceEg:
		verif.Cover("traceroute-reply")
		if at == last {
			verif.Cover("traceroute-at-destination-as")
		}
		verif.Assert("traceroute-answered-by-router-owning-flagged-interface", fwd.rejRouter == owner)
		okID, okSeq := be16w(b, hl+4) == ident, be16w(b, hl+6) == seq
		okTyp, okCode := typ == vwSCMPTraceReply, b[hl+1] == 0
		verif.Assert("traceroute-reply-echoes-identifier-and-sequence", okTyp && okCode && okID && okSeq)
		okIA, okIf := be64w(b, hl+8) == uint64(n.ia), be64w(b, hl+16) == uint64(flagged)
		verif.Assert("traceroute-reply-reports-local-as-and-flagged-interface", okIA && okIf)
	}
	if fwd.rejRouter.node >= 2 {
		verif.Cover("answer-crosses-transit-as")
	}
	if replyLink.scope == Sibling {
		verif.Cover("answer-from-egress-router-of-two-router-as")
	}
	if len(w.segs) > 1 && fwd.rejRouter.node >= w.hops[w.segs[1].first].node {
		verif.Cover("answer-from-beyond-cross-over")
	}
}

func be16w(b []byte, o int) uint16 { return uint16(b[o])<<8 | uint16(b[o+1]) }

func VerifC10() { c10Run(false) }

// VerifC10Twin: an SCMP answer that reaches the source host exists.
func VerifC10Twin() { c10Run(true) }
