//go:build verif || !verif

package router

import (
	"github.com/scionproto/scion/pkg/slayers"
	"github.com/scionproto/scion/zz_verif/verif"
)

// Kinds of MAC-protected values (property C04).
const (
	vwMutSegID = iota
	vwMutTimestamp
	vwMutExpTime
	vwMutConsIngress
	vwMutConsEgress
	vwMutMAC
)

// firstStepOfNode: index of the first router step of the request walk that happens in AS number k
// (every earlier AS contributes one step, or two when it has two border routers on the path).
func (w *vwWorld) firstStepOfNode(k int) int {
	s := 0
	for i := 0; i < k; i++ {
		s++
		if w.nodes[i].split {
			s++
		}
	}
	return s
}

// c04Run: the valid request of the shape with exactly one MAC-protected value altered (symbolic
// non-zero XOR mask at a chosen position) is walked through the real routers.
func c04Run(twin bool) {
	w, raw := vwRequest()
	last := len(w.nodes) - 1
	nInf, nHop := len(w.segs), len(w.hops)
	pos := verif.Param("pos")
	if pos < 0 {
		pos = verif.Choose("mut", 2*nInf+4*nHop)
	}
	var kind, seg, hop int
	if pos < 2*nInf {
		seg, kind = pos/2, pos%2
		hop = w.segs[seg].first
	} else {
		q := pos - 2*nInf
		hop, kind = q/4, vwMutExpTime+q%4
		seg = w.hops[hop].seg
	}
	h := w.hops[hop]
	io, ho := w.infoOff(seg), w.hopOff(hop)
	switch kind {
	case vwMutSegID:
		m := verif.NondetU16("mask16")
		verif.Assume(m != 0)
		raw[io+2] ^= byte(m >> 8)
		raw[io+3] ^= byte(m)
	case vwMutTimestamp:
		m := verif.NondetU32("mask32")
		verif.Assume(m != 0)
		raw[io+4] ^= byte(m >> 24)
		raw[io+5] ^= byte(m >> 16)
		raw[io+6] ^= byte(m >> 8)
		raw[io+7] ^= byte(m)
	case vwMutExpTime:
		m := verif.NondetU8("mask8")
		verif.Assume(m != 0)
		raw[ho+1] ^= m
	case vwMutConsIngress, vwMutConsEgress:
		m := verif.NondetU16("mask16")
		verif.Assume(m != 0)
		o := ho + 2
		if kind == vwMutConsEgress {
			o = ho + 4
		}
		raw[o] ^= byte(m >> 8)
		raw[o+1] ^= byte(m)
	case vwMutMAC:
		m := verif.NondetBytes("mask48", 6)
		verif.Assume(m[0]|m[1]|m[2]|m[3]|m[4]|m[5] != 0)
		for i := 0; i < 6; i++ {
			raw[ho+6+i] ^= m[i]
		}
		// Unforgeability of the ideal MAC: against construction direction the first two bytes of the
		// altered MAC are folded into the accumulator before this hop is verified (scion-header.rst,
		// "AS Traversal Operations"), so the MAC input of the altered hop field becomes
		// (beta xor mask[:2], ...), an input the AS never authenticated. The altered tag is not the
		// valid tag of that new input (the tamperer cannot guess tags; probability 2^-48).
		sh := w.segs[seg].sh
		if !sh.cons && hop != w.segs[seg].first {
			m2 := uint16(m[0])<<8 | uint16(m[1])
			in2 := vwMACInput(h.beta^m2, w.segs[seg].ts, h.exp, h.consIn, h.consEg)
			tag := verif.UF(w.nodes[h.node].fam, 16, in2)
			var diff byte
			for i := 0; i < 6; i++ {
				diff |= tag[i] ^ raw[ho+6+i]
			}
			forged := diff == 0
			verif.Assume(m2 == 0 || !forged)
		}
	}
	if !twin {
		// ideal MAC: no two different inputs of one AS have the same (truncated, 6-byte) tag
		for _, n := range w.nodes {
			verif.AssumeInjective(n.fam, 6)
		}
	}
	limit := w.firstStepOfNode(h.node)

	tr := w.vwWalk(raw, w.nodes[0].rOut.internal, "req")
	reachedDst := tr.delivered && tr.delNode == last
	if twin {
		// without collision-freeness a tampered packet can be delivered
		verif.Assert("twin", !reachedDst)
		return
	}
	verif.Assert("tampered-packet-never-delivered-to-destination", !reachedDst)
	inTime := tr.rejected && tr.rejStep <= limit
	verif.Assert("rejected-no-later-than-first-router-validating-the-altered-value", inTime)
	if tr.rejected && tr.rejStep == limit {
		verif.Cover("rejected-at-validating-router")
		req := tr.rejPkt.slowPathRequest
		if tr.lastDisp == pSlowPath && req.spType == slowPathType(slayers.SCMPTypeParameterProblem) {
			switch req.code {
			case slayers.SCMPCodeInvalidHopFieldMAC:
				verif.Cover("scmp-invalid-mac")
				if limit > 0 {
					verif.Cover("scmp-invalid-mac-at-later-router")
				}
				if hop > 0 && hop == w.segs[seg].first {
					verif.Cover("scmp-invalid-mac-after-cross-over")
				}
			case slayers.SCMPCodePathExpired:
				verif.Cover("scmp-expired")
			case slayers.SCMPCodeUnknownHopFieldIngress, slayers.SCMPCodeUnknownHopFieldEgress:
				verif.Cover("scmp-unknown-interface")
			}
		}
	}
	switch kind {
	case vwMutSegID:
		verif.Cover("mut-segid")
	case vwMutTimestamp:
		verif.Cover("mut-timestamp")
	case vwMutExpTime:
		verif.Cover("mut-exptime")
	case vwMutConsIngress:
		verif.Cover("mut-consingress")
	case vwMutConsEgress:
		verif.Cover("mut-consegress")
	case vwMutMAC:
		verif.Cover("mut-mac")
	}
}

func VerifC04() { c04Run(false) }

// VerifC04Twin: without the collision-freeness assumption the solver delivers a tampered packet.
func VerifC04Twin() { c04Run(true) }
