//go:build verif || !verif

package router

// C02, reduced variant (DESIGN.md 6.2): the segments are beaconed segments in the form in which they
// are registered (seg.PathSegment with one AS entry per AS, hop entries and peer entries), their
// hop-field MACs computed per scion-header.rst with the AS's own (idealised) key - what the
// extender is checked to produce in C23 -, the forwarding paths are built by the *real*
// combinator.Combine (graph, pathSolution.Path, calculateBeta, segmentList.ScionPath, metadata),
// and every returned path is walked through the *real* routers of a topology that has exactly the
// links the segments were beaconed over.

import (
	"hash"
	"net/netip"
	"time"

	"github.com/scionproto/scion/pkg/addr"
	seg "github.com/scionproto/scion/pkg/segment"
	"github.com/scionproto/scion/private/path/combinator"
	"github.com/scionproto/scion/private/topology"
	"github.com/scionproto/scion/zz_verif/verif"
)

type vgAS struct {
	idx  int
	fam  string
	ia   addr.IA
	r    *vwRouter
	host [4]byte
	port uint16
}

type vgTopo struct {
	ases []*vgAS
}

func vgNewTopo(n int) *vgTopo {
	t := &vgTopo{}
	for k := 0; k < n; k++ {
		a := &vgAS{idx: k, fam: vwFams[k], ia: addr.IA(vwIAs[k])}
		copy(a.host[:], verif.NondetBytes("host."+a.fam, 4))
		a.port = verif.NondetU16("port." + a.fam)
		r := &vwRouter{node: k}
		d := &dataPlane{}
		d.localIA = a.ia
		fam := a.fam
		d.macFactory = func() hash.Hash { return &vwMAC{fam: fam} }
		r.internal = &vwLink{ifID: 0, scope: Internal, up: true, rtr: r}
		d.interfaces[0] = r.internal
		d.localHost = addr.HostIP(netip.AddrFrom4([4]byte{10, 1, 2, byte(3 + k)}))
		r.d = d
		a.r = r
		t.ases = append(t.ases, a)
	}
	return t
}

// link wires interface aIf of AS a (link type as seen from a) to interface bIf of AS b.
func (t *vgTopo) link(a int, aIf uint16, aLT topology.LinkType, b int, bIf uint16, bLT topology.LinkType) {
	ra, rb := t.ases[a].r, t.ases[b].r
	la := &vwLink{ifID: aIf, scope: External, up: true, rtr: ra}
	lb := &vwLink{ifID: bIf, scope: External, up: true, rtr: rb}
	la.peer, lb.peer = lb, la
	ra.d.interfaces[aIf], rb.d.interfaces[bIf] = la, lb
	ra.d.linkTypes[aIf], rb.d.linkTypes[bIf] = aLT, bLT
	ra.d.neighborIAs[aIf], rb.d.neighborIAs[bIf] = t.ases[b].ia, t.ases[a].ia
}

// parentChild: parent AS p (interface pIf) - child AS c (interface cIf).
func (t *vgTopo) parentChild(p int, pIf uint16, c int, cIf uint16) {
	t.link(p, pIf, topology.Child, c, cIf, topology.Parent)
}
func (t *vgTopo) coreLink(a int, aIf uint16, b int, bIf uint16) {
	t.link(a, aIf, topology.Core, b, bIf, topology.Core)
}
func (t *vgTopo) peerLink(a int, aIf uint16, b int, bIf uint16) {
	t.link(a, aIf, topology.Peer, b, bIf, topology.Peer)
}

type vgPeer struct {
	as     int    // the peering AS
	pin    uint16 // local interface of the peering link
	remote uint16 // interface of the peering link at the peering AS
}

type vgEntry struct {
	as     int
	in, eg uint16 // ConsIngress / ConsEgress (0 at the ends)
	peers  []vgPeer
}

// vgAllHops collects (timestamp, ExpTime) of every hop field created, for the freshness premise.
type vgHopLife struct {
	ts  uint32
	exp uint8
}

// segment builds the registered form of a beaconed segment over the given AS entries (construction
// order). MACs per scion-header.rst: sigma_i = MAC_Ki(beta_i, TS, ExpTime_i, in_i, eg_i),
// beta_0 = SegmentID, beta_{i+1} = beta_i xor sigma_i[:2]; peer hop field of AS i:
// MAC_Ki(beta_{i+1}, TS, ExpTime^P, peering interface, eg_i).
func (t *vgTopo) segment(tag string, ents []vgEntry, lives *[]vgHopLife) *seg.PathSegment {
	// timestamps in an 18 h window (bound; full 32-bit timestamps make the solver's work on the
	// expiry metadata computed by Combine an order of magnitude slower, cf. notes/C28.md)
	ts := 1700000000 + uint32(verif.NondetU16(tag+".ts"))
	segID := verif.NondetU16(tag + ".segid")
	ps := &seg.PathSegment{Info: seg.Info{Timestamp: time.Unix(int64(ts), 0), SegmentID: segID}}
	beta := segID
	for i, e := range ents {
		a := t.ases[e.as]
		// ExpTime: concrete, different per hop field (bound: Combine computes the path expiry as a
		// minimum over hop-field expiries; with symbolic ExpTime values those comparisons make every
		// later solver query 10-100 times slower - notes/C28.md - and expiry is not C02's subject)
		exp := uint8(40 + 23*len(*lives))
		full := verif.UF(a.fam, 16, vwMACInput(beta, ts, exp, e.in, e.eg))
		*lives = append(*lives, vgHopLife{ts, exp})
		var mac [6]byte
		copy(mac[:], full[:6])
		var next addr.IA
		if i < len(ents)-1 {
			next = t.ases[ents[i+1].as].ia
		}
		ase := seg.ASEntry{
			Local: a.ia,
			Next:  next,
			MTU:   1472,
			HopEntry: seg.HopEntry{
				HopField:   seg.HopField{ExpTime: exp, ConsIngress: e.in, ConsEgress: e.eg, MAC: mac},
				IngressMTU: 1472,
			},
		}
		if i == 0 {
			ase.HopEntry.IngressMTU = 0
		}
		betaNext := beta ^ (uint16(full[0])<<8 | uint16(full[1]))
		for _, p := range e.peers {
			pexp := uint8(40 + 23*len(*lives))
			pfull := verif.UF(a.fam, 16, vwMACInput(betaNext, ts, pexp, p.pin, e.eg))
			*lives = append(*lives, vgHopLife{ts, pexp})
			var pmac [6]byte
			copy(pmac[:], pfull[:6])
			ase.PeerEntries = append(ase.PeerEntries, seg.PeerEntry{
				Peer: t.ases[p.as].ia, PeerInterface: p.remote, PeerMTU: 1472,
				HopField: seg.HopField{ExpTime: pexp, ConsIngress: p.pin, ConsEgress: e.eg, MAC: pmac},
			})
		}
		ps.ASEntries = append(ps.ASEntries, ase)
		beta = betaNext
	}
	return ps
}

// vgScenario: topology + registered segments + source / destination AS of the instance.
//
//	0: S(0) - X(1) - C(2): one up segment C->X->S, destination the core AS C
//	1: up C->X->S and down C->X->D(3): shortcut at X (and whatever else Combine returns)
//	2: up C1(1)->S(0), core C2(2)->C1(1), down C2(2)->D(3)
//	3: up C(2)->X(1)->S(0) with a peering link X - Y(3), down C(2)->Y(3)->D(4) with the same peering link
//	4: down only: source the core AS C(0), down C->X(1)->D(2)
func vgScenario(k int) (t *vgTopo, src, dst int, ups, cores, downs []*seg.PathSegment, lives []vgHopLife) {
	switch k {
	case 0:
		t = vgNewTopo(3)
		t.parentChild(2, 0x0203, 1, 0x0101)
		t.parentChild(1, 7, 0, 2)
		ups = append(ups, t.segment("up", []vgEntry{{as: 2, eg: 0x0203}, {as: 1, in: 0x0101, eg: 7}, {as: 0, in: 2}}, &lives))
		return t, 0, 2, ups, nil, nil, lives
	case 1:
		t = vgNewTopo(4)
		t.parentChild(2, 0x0203, 1, 0x0101)
		t.parentChild(1, 7, 0, 2)
		t.parentChild(1, 0xFFFE, 3, 5)
		ups = append(ups, t.segment("up", []vgEntry{{as: 2, eg: 0x0203}, {as: 1, in: 0x0101, eg: 7}, {as: 0, in: 2}}, &lives))
		downs = append(downs, t.segment("down", []vgEntry{{as: 2, eg: 0x0203}, {as: 1, in: 0x0101, eg: 0xFFFE}, {as: 3, in: 5}}, &lives))
		return t, 0, 3, ups, nil, downs, lives
	case 2:
		t = vgNewTopo(4)
		t.parentChild(1, 0x0101, 0, 2)
		t.coreLink(2, 0x1001, 1, 3)
		t.parentChild(2, 0x0203, 3, 5)
		ups = append(ups, t.segment("up", []vgEntry{{as: 1, eg: 0x0101}, {as: 0, in: 2}}, &lives))
		cores = append(cores, t.segment("core", []vgEntry{{as: 2, eg: 0x1001}, {as: 1, in: 3}}, &lives))
		downs = append(downs, t.segment("down", []vgEntry{{as: 2, eg: 0x0203}, {as: 3, in: 5}}, &lives))
		return t, 0, 3, ups, cores, downs, lives
	case 3:
		t = vgNewTopo(5)
		t.parentChild(2, 0x0203, 1, 0x0101)
		t.parentChild(1, 7, 0, 2)
		t.parentChild(2, 0x0204, 3, 0x0301)
		t.parentChild(3, 9, 4, 5)
		t.peerLink(1, 0x00FF, 3, 0x0F00)
		ups = append(ups, t.segment("up", []vgEntry{{as: 2, eg: 0x0203},
			{as: 1, in: 0x0101, eg: 7, peers: []vgPeer{{as: 3, pin: 0x00FF, remote: 0x0F00}}}, {as: 0, in: 2}}, &lives))
		downs = append(downs, t.segment("down", []vgEntry{{as: 2, eg: 0x0204},
			{as: 3, in: 0x0301, eg: 9, peers: []vgPeer{{as: 1, pin: 0x0F00, remote: 0x00FF}}}, {as: 4, in: 5}}, &lives))
		return t, 0, 4, ups, nil, downs, lives
	case 4:
		t = vgNewTopo(3)
		t.parentChild(0, 0x0203, 1, 0x0101)
		t.parentChild(1, 7, 2, 2)
		downs = append(downs, t.segment("down", []vgEntry{{as: 0, eg: 0x0203}, {as: 1, in: 0x0101, eg: 7}, {as: 2, in: 2}}, &lives))
		return t, 0, 2, nil, nil, downs, lives
	case 5:
		// up C1(1)->S(0), core C3(3)->C2(2)->C1(1) (3 ASes), down C3(3)->D(4)
		t = vgNewTopo(5)
		t.parentChild(1, 0x0101, 0, 2)
		t.coreLink(2, 0x1001, 1, 3)
		t.coreLink(3, 0x00FF, 2, 0x0F00)
		t.parentChild(3, 0x0203, 4, 5)
		ups = append(ups, t.segment("up", []vgEntry{{as: 1, eg: 0x0101}, {as: 0, in: 2}}, &lives))
		cores = append(cores, t.segment("core", []vgEntry{{as: 3, eg: 0x00FF}, {as: 2, in: 0x0F00, eg: 0x1001}, {as: 1, in: 3}}, &lives))
		downs = append(downs, t.segment("down", []vgEntry{{as: 3, eg: 0x0203}, {as: 4, in: 5}}, &lives))
		return t, 0, 4, ups, cores, downs, lives
	case 6:
		// two up segments over different parents and one down segment: S(0) below X(1) and Y(3), both
		// below C(2); D(4) below Y(3): several combinations incl. a shortcut at Y
		t = vgNewTopo(5)
		t.parentChild(2, 0x0203, 1, 0x0101)
		t.parentChild(1, 7, 0, 2)
		t.parentChild(2, 0x0204, 3, 0x0301)
		t.parentChild(3, 9, 0, 0x0A00)
		t.parentChild(3, 11, 4, 5)
		ups = append(ups, t.segment("up", []vgEntry{{as: 2, eg: 0x0203}, {as: 1, in: 0x0101, eg: 7}, {as: 0, in: 2}}, &lives))
		ups = append(ups, t.segment("up2", []vgEntry{{as: 2, eg: 0x0204}, {as: 3, in: 0x0301, eg: 9}, {as: 0, in: 0x0A00}}, &lives))
		downs = append(downs, t.segment("down", []vgEntry{{as: 2, eg: 0x0204}, {as: 3, in: 0x0301, eg: 11}, {as: 4, in: 5}}, &lives))
		return t, 0, 4, ups, nil, downs, lives
	}
	panic("unknown scenario")
}

func c02Run(twin bool) {
	t, srcK, dstK, ups, cores, downs, lives := vgScenario(verif.Param("scenario"))
	src, dst := t.ases[srcK], t.ases[dstK]
	verif.AssumeInjective("sha256", 0)
	paths := combinator.Combine(src.ia, dst.ia, ups, cores, downs, false)
	verif.Observe("npaths", len(paths))
	w := &vwWorld{}
	type res struct {
		tr   *vwTrace
		ifs  int
		same bool
	}
	var results []res
	for _, p := range paths {
		raw := vwSerialize(vwPktDesc{
			dstIA: uint64(dst.ia), srcIA: uint64(src.ia), dstHost: dst.host, srcHost: src.host,
			dstPort: dst.port, srcPort: src.port, path: p.SCIONPath.Raw, word0: verif.NondetU32("word0"),
		})
		tr := w.vwWalk(raw, src.r.internal, "req")
		// interfaces of the metadata, in order, against the interfaces actually crossed
		md := p.Metadata.Interfaces
		same := len(md) == len(tr.cross)
		if same {
			for i := range md {
				same = same && md[i].IA == t.ases[tr.cross[i].node].ia && uint64(md[i].ID) == uint64(tr.cross[i].ifID)
			}
		}
		results = append(results, res{tr, len(md), same})
	}
	// premise: the segments' hop fields are unexpired while the packets travel
	tEnd := verif.Now()
	sec, nsec := uint64(tEnd.Unix()), uint64(tEnd.Nanosecond())
	fresh := true
	for _, l := range lives {
		f := vwFresh(l.ts, l.exp, sec, nsec)
		fresh = fresh && f
	}
	verif.Assume(fresh)

	verif.Assert("combination-finds-a-path", len(paths) > 0)
	for _, r := range results {
		if twin {
			verif.Assert("twin", !r.tr.delivered)
			continue
		}
		verif.Assert("accepted-by-every-border-router", !r.tr.rejected && !r.tr.loop)
		okDst := vwDeliveredToAS(r.tr, dstK, dst)
		verif.Assert("handed-to-destination-host", okDst)
		verif.Assert("crosses-exactly-the-metadata-interfaces-in-order", r.same)
		verif.Cover("path-delivered")
		if r.ifs >= 4 {
			verif.Cover("transit-as-on-path")
		}
	}
	switch verif.Param("scenario") {
	case 1:
		verif.Cover("shortcut-scenario")
	case 2:
		verif.Cover("three-segment-scenario")
	case 3:
		verif.Cover("peering-scenario")
	}
}

func vwDeliveredToAS(tr *vwTrace, node int, a *vgAS) bool {
	if !tr.delivered || tr.delNode != node {
		return false
	}
	hostOK := vwHostIs(tr.delHost, a.host)
	portOK := tr.delPort == a.port
	return hostOK && portOK
}

func VerifC02() { c02Run(false) }

// VerifC02Twin: a combined path that is delivered exists.
func VerifC02Twin() { c02Run(true) }
