//go:build verif || !verif

package cppki

// Certificate pool shared by the C32 and C33 harnesses: x509.Certificate values are built as struct
// literals the way x509.ParseCertificate fills them (Names carries every attribute, the well-known
// attributes are mirrored into the pkix.Name fields, ExtraNames stays empty). Nothing here calls the
// code under test.

import (
	"crypto/x509"
	"crypto/x509/pkix"
	"encoding/asn1"
	"math/big"
	"time"
)

// harness-level certificate classes
const (
	vcSensitive = iota // sensitive voting certificate
	vcRegular          // regular voting certificate
	vcRoot             // CP root certificate
	vcAS               // AS certificate: a SCION certificate type that must not appear in a TRC
	vcNone             // no recognised key usage at all
	vcBoth             // id-kp-sensitive together with id-kp-regular (forbidden combination)
)

// vCertDesc describes one pool certificate. nb/na (unix seconds) may be symbolic.
type vCertDesc struct {
	class  int
	cn     string // subject common name
	isd    int    // ISD of the ISD-AS attribute in subject and issuer (0 = attribute absent)
	issuer string // issuer common name
	serial int64
	id     byte // identity: Raw contents, subject key id and (C32) signing key
	nb, na int64
}

var vOIDCommonName = asn1.ObjectIdentifier{2, 5, 4, 3}

func vIAString(isd int) string {
	switch isd {
	case 0:
		return ""
	case 1:
		return "1-ff00:0:110"
	case 2:
		return "2-ff00:0:210"
	}
	panic("vIAString: unsupported ISD")
}

func vName(cn string, isd int) pkix.Name {
	n := pkix.Name{CommonName: cn}
	n.Names = []pkix.AttributeTypeAndValue{{Type: vOIDCommonName, Value: cn}}
	if isd != 0 {
		n.Names = append(n.Names, pkix.AttributeTypeAndValue{Type: OIDNameIA, Value: vIAString(isd)})
	}
	return n
}

func vCert(d vCertDesc) *x509.Certificate {
	c := &x509.Certificate{
		Raw:                []byte{0x30, d.id},
		Version:            3,
		SerialNumber:       big.NewInt(d.serial),
		SignatureAlgorithm: x509.ECDSAWithSHA256,
		Issuer:             vName(d.issuer, d.isd),
		Subject:            vName(d.cn, d.isd),
		NotBefore:          time.Unix(d.nb, 0).UTC(),
		NotAfter:           time.Unix(d.na, 0).UTC(),
		SubjectKeyId:       []byte{d.id},
		Extensions: []pkix.Extension{
			{Id: OIDExtensionSubjectKeyID, Value: []byte{d.id}},
		},
		ExtKeyUsage: []x509.ExtKeyUsage{x509.ExtKeyUsageTimeStamping},
	}
	switch d.class {
	case vcSensitive:
		c.UnknownExtKeyUsage = []asn1.ObjectIdentifier{OIDExtKeyUsageSensitive}
	case vcRegular:
		c.UnknownExtKeyUsage = []asn1.ObjectIdentifier{OIDExtKeyUsageRegular}
	case vcBoth:
		c.UnknownExtKeyUsage = []asn1.ObjectIdentifier{OIDExtKeyUsageSensitive, OIDExtKeyUsageRegular}
	case vcRoot:
		c.UnknownExtKeyUsage = []asn1.ObjectIdentifier{OIDExtKeyUsageRoot}
		c.KeyUsage = x509.KeyUsageCertSign
		c.BasicConstraintsValid = true
		c.IsCA = true
		c.MaxPathLen = 1
		c.Extensions = append(c.Extensions, pkix.Extension{Id: OIDExtensionBasicConstraints, Critical: true})
	case vcAS:
		c.KeyUsage = x509.KeyUsageDigitalSignature
		c.AuthorityKeyId = []byte{0xee}
	case vcNone:
	}
	return c
}

// vAnd / vOr combine already evaluated (possibly symbolic) booleans. Keeping the operands outside
// of short-circuit arms lets the engine turn the connective into an ite instead of a fork.
func vAnd(a, b bool) bool { return a && b }
func vOr(a, b bool) bool  { return a || b }

// vIsTRCClass: the three certificate classes a TRC may contain.
func vIsTRCClass(class int) bool {
	return class == vcSensitive || class == vcRegular || class == vcRoot
}

func vCount(descs []vCertDesc, class int) int {
	n := 0
	for _, d := range descs {
		if d.class == class {
			n++
		}
	}
	return n
}

func vCerts(descs []vCertDesc) []*x509.Certificate {
	out := make([]*x509.Certificate, 0, len(descs))
	for _, d := range descs {
		out = append(out, vCert(d))
	}
	return out
}
