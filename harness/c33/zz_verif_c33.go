//go:build verif || !verif

package cppki

import (
	"time"

	"github.com/scionproto/scion/pkg/addr"
	"github.com/scionproto/scion/pkg/scrypto"
	"github.com/scionproto/scion/zz_verif/verif"
)

// vSecMax bounds the symbolic unix seconds (year ~2242): far inside time.Time's range, so the
// reference comparison on raw seconds and time.Time's own comparison cannot differ by overflow.
const vSecMax = 1 << 33

// vPool builds a well-formed pool: ns sensitive, nr regular voting certificates and nt roots, all of
// ISD 1, distinct subjects / issuers / serials. Validity bounds are fresh symbolic values if
// symValidity is set, else the widest period [0, vSecMax].
func vPool(ns, nr, nt int, symValidity bool) []vCertDesc {
	var out []vCertDesc
	add := func(class int, prefix string, k int, isd int) {
		id := byte(len(out) + 1)
		cn := prefix + string(rune('0'+k))
		d := vCertDesc{class: class, cn: cn, isd: isd, issuer: cn, serial: int64(100 + len(out)), id: id, nb: 0, na: vSecMax}
		if symValidity {
			d.nb = int64(verif.NondetInt("cert_nb", 0, vSecMax))
			d.na = int64(verif.NondetInt("cert_na", 0, vSecMax))
		}
		out = append(out, d)
	}
	// voting certificates may omit the ISD-AS attribute: odd ones do
	for k := 0; k < ns; k++ {
		add(vcSensitive, "sensitive", k, 1-k%2)
	}
	for k := 0; k < nr; k++ {
		add(vcRegular, "regular", k, 1-k%2)
	}
	for k := 0; k < nt; k++ {
		add(vcRoot, "root", k, 1)
	}
	return out
}

func vASList(name string, n int) []addr.AS {
	out := make([]addr.AS, n)
	for i := range out {
		out[i] = addr.AS(verif.NondetU64(name))
	}
	return out
}

// refASList: non-empty, no wildcard (0), no duplicates.
func refASList(l []addr.AS) bool {
	ok := len(l) > 0
	for i := range l {
		ok = ok && l[i] != 0
		for j := i + 1; j < len(l); j++ {
			ok = ok && l[i] != l[j]
		}
	}
	return ok
}

// vScalars holds the symbolic scalar part of a payload.
type vScalars struct {
	version      int
	isd          uint16
	base, serial uint64
	nb, na       int64
	grace        int64
	quorum       int
	noTrustReset bool
	votes        []int
	core, auth   []addr.AS
}

// vNondetScalars draws every scalar field; the list lengths (votes, core, authoritative) are
// concrete shape parameters.
func vNondetScalars(nv, ncore, nauth int) vScalars {
	s := vScalars{
		version:      int(verif.NondetU64("version")),
		isd:          verif.NondetU16("isd"),
		base:         verif.NondetU64("base"),
		serial:       verif.NondetU64("serial"),
		nb:           int64(verif.NondetInt("trc_nb", 0, vSecMax)),
		na:           int64(verif.NondetInt("trc_na", 0, vSecMax)),
		grace:        int64(verif.NondetU64("grace")),
		quorum:       int(verif.NondetU64("quorum")),
		noTrustReset: verif.NondetBool("no_trust_reset"),
	}
	s.votes = make([]int, nv)
	for i := range s.votes {
		s.votes[i] = int(verif.NondetU64("vote"))
	}
	s.core = vASList("core", ncore)
	s.auth = vASList("auth", nauth)
	// witness class used by known_findings.json ("where"): is the quorum negative?
	verif.Assume(verif.NondetBool("quorum_negative") == (s.quorum < 0))
	return s
}

func vTRC(s vScalars, descs []vCertDesc) *TRC {
	return &TRC{
		Raw:     []byte{0x30, 0x77},
		Version: s.version,
		ID:      TRCID{ISD: addr.ISD(s.isd), Base: scrypto.Version(s.base), Serial: scrypto.Version(s.serial)},
		Validity: Validity{
			NotBefore: time.Unix(s.nb, 0).UTC(),
			NotAfter:  time.Unix(s.na, 0).UTC(),
		},
		GracePeriod:       time.Duration(s.grace),
		NoTrustReset:      s.noTrustReset,
		Votes:             s.votes,
		Quorum:            s.quorum,
		CoreASes:          s.core,
		AuthoritativeASes: s.auth,
		Description:       "verif",
		Certificates:      vCerts(descs),
	}
}

// refScalarRules asserts, for an accepted payload, every rule of the statement that speaks about the
// scalar fields and the pool as a whole. ok is the implementation's verdict (concrete per path).
func refScalarRules(ok bool, s vScalars, descs []vCertDesc) {
	verif.Assert("accepted-only-if-version-supported", !ok || s.version == 1)
	verif.Assert("accepted-only-if-isd-not-wildcard", !ok || s.isd != 0)
	verif.Assert("accepted-only-if-1<=base<=serial", !ok || (1 <= s.base && s.base <= s.serial))
	verif.Assert("accepted-only-if-validity-non-empty", !ok || s.na > s.nb)
	isBase := s.base == s.serial
	verif.Assert("accepted-only-if-base-has-no-grace-period", !ok || !isBase || s.grace == 0)
	verif.Assert("accepted-only-if-base-has-no-votes", !ok || !isBase || len(s.votes) == 0)
	verif.Assert("accepted-only-if-quorum>=1", !ok || 1 <= s.quorum)
	verif.Assert("accepted-only-if-quorum<=255", !ok || s.quorum <= 255)
	verif.Assert("accepted-only-if-quorum<=sensitive-voters", !ok || s.quorum <= vCount(descs, vcSensitive))
	verif.Assert("accepted-only-if-quorum<=regular-voters", !ok || s.quorum <= vCount(descs, vcRegular))
	verif.Assert("accepted-only-if-core-ases-well-formed", !ok || refASList(s.core))
	verif.Assert("accepted-only-if-authoritative-ases-well-formed", !ok || refASList(s.auth))
}

// refCertRules: per-certificate rules and uniqueness rules.
func refCertRules(ok bool, s vScalars, descs []vCertDesc) {
	classifiable, sameISD, covered := true, true, true
	for _, d := range descs {
		classifiable = classifiable && vIsTRCClass(d.class)
		if d.isd != 0 {
			sameISD = vAnd(sameISD, uint16(d.isd) == s.isd)
		}
		covered = vAnd(covered, vAnd(d.nb <= s.nb, s.na <= d.na))
	}
	uniqIssuerSerial, uniqSubject := true, true
	for i := range descs {
		for j := i + 1; j < len(descs); j++ {
			if descs[i].issuer == descs[j].issuer && descs[i].isd == descs[j].isd && descs[i].serial == descs[j].serial {
				uniqIssuerSerial = false
			}
			if descs[i].class == descs[j].class && descs[i].cn == descs[j].cn && descs[i].isd == descs[j].isd {
				uniqSubject = false
			}
		}
	}
	verif.Assert("accepted-only-if-all-certificates-classifiable", !ok || classifiable)
	verif.Assert("accepted-only-if-certificates-of-this-isd", !ok || sameISD)
	verif.Assert("accepted-only-if-certificates-cover-validity", !ok || covered)
	verif.Assert("accepted-only-if-issuer-serial-unique", !ok || uniqIssuerSerial)
	verif.Assert("accepted-only-if-subject-unique-in-class", !ok || uniqSubject)
}

// VerifC33Scalars: well-formed certificate pool (symbolic validity bounds), every scalar field of the
// payload symbolic.
func VerifC33Scalars() {
	descs := vPool(verif.Param("ns"), verif.Param("nr"), verif.Param("nt"), true)
	s := vNondetScalars(verif.Param("nv"), verif.Param("ncore"), verif.Param("nauth"))
	// "validity non-empty" is ambiguous for NotAfter == NotBefore (a one-instant closed interval):
	// outside the claim.
	verif.Assume(s.na != s.nb)
	trc := vTRC(s, descs)
	err := trc.Validate()
	ok := err == nil
	verif.Observe("validate", ok)
	refScalarRules(ok, s, descs)
	refCertRules(ok, s, descs)
	if ok {
		verif.Cover("scalars-accepted")
		if s.base != s.serial {
			verif.Cover("scalars-accepted-non-base")
		}
	} else {
		verif.Cover("scalars-rejected")
	}
}

// VerifC33ScalarsVacuity: must be violated (a payload is accepted at all).
func VerifC33ScalarsVacuity() {
	descs := vPool(1, 1, 1, true)
	s := vNondetScalars(0, 1, 1)
	trc := vTRC(s, descs)
	verif.Assert("vacuity-some-payload-accepted", trc.Validate() != nil)
}

// certificate-level single-rule violations injected by VerifC33Certs (param "defect")
const (
	vdNone         = iota
	vdClassAS      // a certificate of a SCION type that may not appear in a TRC
	vdClassNone    // no recognised key usage
	vdClassBoth    // sensitive and regular usage together
	vdOtherISD     // ISD-AS attribute of another ISD
	vdIssuerSerial // issuer and serial number of another certificate of the pool
	vdSubject      // subject of another certificate of the pool
)

// vNondetCertScalars: scalars for the certificate-rule harness. Lists are fixed and well-formed;
// ISD, serial/base, validity and quorum stay symbolic because the certificate rules refer to them.
func vNondetCertScalars() vScalars {
	s := vScalars{
		version:      1,
		isd:          verif.NondetU16("isd"),
		base:         1,
		serial:       2,
		nb:           int64(verif.NondetInt("trc_nb", 0, vSecMax)),
		na:           int64(verif.NondetInt("trc_na", 0, vSecMax)),
		quorum:       int(verif.NondetU64("quorum")),
		noTrustReset: verif.NondetBool("no_trust_reset"),
		core:         []addr.AS{0xff0000000110, 0xff0000000111},
		auth:         []addr.AS{0xff0000000110},
	}
	verif.Assume(verif.NondetBool("quorum_negative") == (s.quorum < 0))
	return s
}

// vInject applies one defect to certificate `which`, copying from certificate `other` where the
// defect is a clash between two certificates.
func vInject(descs []vCertDesc, defect, which, other int) {
	d := &descs[which]
	switch defect {
	case vdNone:
	case vdClassAS:
		d.class = vcAS
	case vdClassNone:
		d.class = vcNone
	case vdClassBoth:
		d.class = vcBoth
	case vdOtherISD:
		d.isd = 2
	case vdIssuerSerial:
		d.issuer, d.serial, d.isd = descs[other].issuer, descs[other].serial, descs[other].isd
	case vdSubject:
		d.cn, d.isd = descs[other].cn, descs[other].isd
	default:
		panic("unknown defect")
	}
}

// VerifC33Certs: pool with one injected certificate-level defect (which certificate: forked; which
// other certificate it clashes with: param "dist" = index distance), symbolic ISD, ID numbers,
// validity bounds (TRC and every certificate) and quorum.
func VerifC33Certs() {
	descs := vPool(verif.Param("ns"), verif.Param("nr"), verif.Param("nt"), false)
	s := vNondetCertScalars()
	verif.Assume(s.na != s.nb)
	defect := verif.Param("defect")
	which := verif.Choose("which", len(descs))
	// only the certificate under consideration has symbolic validity bounds
	descs[which].nb = int64(verif.NondetInt("cert_nb", 0, vSecMax))
	descs[which].na = int64(verif.NondetInt("cert_na", 0, vSecMax))
	other := (which + verif.Param("dist")) % len(descs)
	vInject(descs, defect, which, other)
	trc := vTRC(s, descs)
	err := trc.Validate()
	ok := err == nil
	verif.Observe("validate", ok)
	refScalarRules(ok, s, descs)
	refCertRules(ok, s, descs)
	if ok {
		verif.Cover("certs-accepted")
		if defect == vdSubject && descs[which].class != descs[other].class {
			verif.Cover("certs-accepted-same-subject-across-classes")
		}
	} else {
		verif.Cover("certs-rejected")
	}
}

// VerifC33CertsVacuity: must be violated (pools with a same-subject pair in one class are rejected,
// so "accepted" is reachable only through the other branches; here: the defect-free pool is accepted).
func VerifC33CertsVacuity() {
	descs := vPool(1, 1, 1, false)
	s := vNondetCertScalars()
	trc := vTRC(s, descs)
	verif.Assert("vacuity-defect-free-pool-accepted", trc.Validate() != nil)
}
