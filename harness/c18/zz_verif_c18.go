package slayers

import (
	"github.com/gopacket/gopacket"

	"github.com/scionproto/scion/pkg/addr"
	"github.com/scionproto/scion/pkg/slayers/path"
	"github.com/scionproto/scion/pkg/slayers/path/empty"
	"github.com/scionproto/scion/pkg/slayers/path/epic"
	"github.com/scionproto/scion/pkg/slayers/path/onehop"
	"github.com/scionproto/scion/pkg/slayers/path/scion"
	"github.com/scionproto/scion/zz_verif/verif"
)

// c18DF records the "truncated" feedback of a decoder.
type c18DF struct{ trunc bool }

func (d *c18DF) SetTruncated() { d.trunc = true }

func c18Eq(a, b []byte) bool {
	if len(a) != len(b) {
		return false
	}
	ok := true
	for i := range a {
		ok = ok && a[i] == b[i]
	}
	return ok
}

// ---- decoder direction: SCION header ---------------------------------------------------------------

// VerifC18ScionDecode: Param("len") arbitrary bytes. No panic; a header whose declared length
// (HdrLen*4) exceeds the data is rejected; an accepted header re-serialises to the same bytes on all
// non-reserved bits (reserved per scion-header.rst: common header bytes 10..11; path meta RSV
// (6 bits); for one-hop paths the r bits / RSV byte of the info field and the r bits of the hop
// fields, which are decoded into structs).
func VerifC18ScionDecode() {
	L := verif.Param("len")
	data := verif.NondetBytes("d", L)
	orig := append([]byte(nil), data...)
	var s SCION
	df := &c18DF{}
	err := s.DecodeFromBytes(data, df)
	verif.Observe("err", err != nil)
	if err != nil {
		verif.Cover("scion-rejected")
		return
	}
	hdrBytes := int(orig[5]) * 4
	verif.Assert("header-length-exceeding-data-rejected", hdrBytes <= L)
	pathOff := CmnHdrLen + s.AddrHdrLen()
	mask := make([]byte, L)
	for i := range mask {
		mask[i] = 0xff
	}
	mask[10], mask[11] = 0, 0
	switch s.Path.(type) {
	case empty.Path:
		verif.Cover("decoded-empty")
	case *scion.Raw:
		verif.Cover("decoded-scion")
		mask[pathOff+1] = 0x03
	case *epic.Path:
		verif.Cover("decoded-epic")
		mask[pathOff+epic.MetadataLen+1] = 0x03
	case *onehop.Path:
		verif.Cover("decoded-onehop")
		mask[pathOff] = 0x03
		mask[pathOff+1] = 0
		mask[pathOff+path.InfoLen] = 0x03
		mask[pathOff+path.InfoLen+path.HopLen] = 0x03
	default:
		verif.Cover("decoded-unknown-path-type")
	}
	buf := gopacket.NewSerializeBuffer()
	err2 := s.SerializeTo(buf, gopacket.SerializeOptions{})
	verif.Assert("accepted-header-reserializes", err2 == nil)
	if err2 != nil {
		return
	}
	out := buf.Bytes()
	verif.Observe("out", out)
	verif.Assert("reserialized-length-is-declared-header-length", len(out) == hdrBytes)
	same := true
	for i := 0; i < len(out) && i < L; i++ {
		same = same && out[i]&mask[i] == orig[i]&mask[i]
	}
	verif.Assert("reserialized-bytes-equal-input-on-non-reserved-bits", same)
}

// VerifC18ScionDecodeVacuity: must-fail twin: reserved bits are not reproduced.
func VerifC18ScionDecodeVacuity() {
	data := verif.NondetBytes("d", 36)
	orig := append([]byte(nil), data...)
	var s SCION
	if s.DecodeFromBytes(data, &c18DF{}) != nil {
		return
	}
	buf := gopacket.NewSerializeBuffer()
	if s.SerializeTo(buf, gopacket.SerializeOptions{}) != nil {
		return
	}
	verif.Assert("twin", c18Eq(buf.Bytes(), orig[:len(buf.Bytes())]))
}

// ---- encoder direction: SCION header ---------------------------------------------------------------

var c18AddrTypes = [3]AddrType{T4Ip, T16Ip, T4Svc}

func c18Hop(tag string) path.HopField {
	var h path.HopField
	h.IngressRouterAlert = verif.NondetBool(tag + ".ira")
	h.EgressRouterAlert = verif.NondetBool(tag + ".era")
	h.ExpTime = verif.NondetU8(tag + ".exp")
	h.ConsIngress = verif.NondetU16(tag + ".in")
	h.ConsEgress = verif.NondetU16(tag + ".eg")
	copy(h.Mac[:], verif.NondetBytes(tag+".mac", 6))
	return h
}

func c18Info(tag string) path.InfoField {
	return path.InfoField{Peer: verif.NondetBool(tag + ".p"), ConsDir: verif.NondetBool(tag + ".c"),
		SegID: verif.NondetU16(tag + ".seg"), Timestamp: verif.NondetU32(tag + ".ts")}
}

// c18ScionPath builds a decoded SCION path with segment lengths (Param s0,s1,s2), symbolic contents.
func c18ScionPath() *scion.Decoded {
	seg := [3]int{verif.Param("s0"), verif.Param("s1"), verif.Param("s2")}
	d := &scion.Decoded{}
	hops := 0
	for i, n := range seg {
		d.PathMeta.SegLen[i] = uint8(n)
		if n > 0 {
			d.NumINF++
			d.InfoFields = append(d.InfoFields, c18Info("i"+string(rune('0'+i))))
		}
		for k := 0; k < n; k++ {
			d.HopFields = append(d.HopFields, c18Hop("h"+string(rune('0'+hops))))
			hops++
		}
	}
	d.NumHops = hops
	chf := verif.NondetU8("currhf")
	verif.Assume(int(chf) < hops)
	d.PathMeta.CurrHF = chf
	cinf := verif.NondetU8("currinf")
	verif.Assume(int(cinf) < d.NumINF)
	d.PathMeta.CurrINF = cinf
	return d
}

func c18PathEq(d *scion.Decoded, r *scion.Raw) bool {
	got, err := r.ToDecoded()
	if err != nil {
		return false
	}
	ok := got.PathMeta == d.PathMeta && got.NumINF == d.NumINF && got.NumHops == d.NumHops &&
		len(got.InfoFields) == len(d.InfoFields) && len(got.HopFields) == len(d.HopFields)
	if !ok {
		return false
	}
	for i := range d.InfoFields {
		ok = ok && got.InfoFields[i] == d.InfoFields[i]
	}
	for i := range d.HopFields {
		ok = ok && got.HopFields[i] == d.HopFields[i]
	}
	return ok
}

// VerifC18ScionEncode: symbolic field values for the shape given by the parameters (path kind
// 0 empty, 1 one-hop, 2 SCION, 3 EPIC; address types enumerated): SerializeTo then DecodeFromBytes
// yields the same field values; HdrLen/PayloadLen fixed by FixLengths equal the reference values.
func VerifC18ScionEncode() {
	s := &SCION{}
	s.Version = verif.NondetU8("ver") & 0xf
	s.TrafficClass = verif.NondetU8("tc")
	s.FlowID = verif.NondetU32("flow") & 0xfffff
	s.NextHdr = L4ProtocolType(verif.NondetU8("nh"))
	s.DstAddrType = c18AddrTypes[verif.Choose("dt", 3)]
	s.SrcAddrType = c18AddrTypes[verif.Choose("st", 3)]
	s.DstIA = addr.IA(verif.NondetU64("dstIA"))
	s.SrcIA = addr.IA(verif.NondetU64("srcIA"))
	s.RawDstAddr = verif.NondetBytes("dst", s.DstAddrType.Length())
	s.RawSrcAddr = verif.NondetBytes("src", s.SrcAddrType.Length())
	var dec *scion.Decoded
	var ep *epic.Path
	var oh *onehop.Path
	pathLen := 0
	switch verif.Param("path") {
	case 0:
		s.PathType, s.Path = empty.PathType, empty.Path{}
	case 1:
		oh = &onehop.Path{Info: c18Info("oi"), FirstHop: c18Hop("o1"), SecondHop: c18Hop("o2")}
		s.PathType, s.Path = onehop.PathType, oh
		pathLen = 8 + 12 + 12
	case 2:
		dec = c18ScionPath()
		s.PathType, s.Path = scion.PathType, dec
		pathLen = 4 + 8*dec.NumINF + 12*dec.NumHops
	case 3:
		dec = c18ScionPath()
		raw := make([]byte, dec.Len())
		verif.Assume(dec.SerializeTo(raw) == nil)
		r := &scion.Raw{}
		verif.Assume(r.DecodeFromBytes(raw) == nil)
		ep = &epic.Path{PktID: epic.PktID{Timestamp: verif.NondetU32("ets"), Counter: verif.NondetU32("ectr")},
			PHVF: verif.NondetBytes("phvf", 4), LHVF: verif.NondetBytes("lhvf", 4), ScionPath: r}
		s.PathType, s.Path = epic.PathType, ep
		pathLen = 16 + 4 + 8*dec.NumINF + 12*dec.NumHops
	}
	pl := verif.Choose("paylen", 3)
	payload := verif.NondetBytes("pl", pl)
	buf := gopacket.NewSerializeBuffer()
	err := gopacket.SerializeLayers(buf, gopacket.SerializeOptions{FixLengths: true}, s, gopacket.Payload(payload))
	verif.Assert("serialize-ok", err == nil)
	if err != nil {
		return
	}
	wire := append([]byte(nil), buf.Bytes()...)
	refHdr := 12 + 16 + s.DstAddrType.Length() + s.SrcAddrType.Length() + pathLen
	verif.Assert("wire-length", len(wire) == refHdr+pl)
	verif.Observe("wire", wire)

	var g SCION
	derr := g.DecodeFromBytes(wire, &c18DF{})
	verif.Assert("decode-of-serialized-ok", derr == nil)
	if derr != nil {
		return
	}
	verif.Assert("common-header-fields", g.Version == s.Version && g.TrafficClass == s.TrafficClass &&
		g.FlowID == s.FlowID && g.NextHdr == s.NextHdr && g.PathType == s.PathType &&
		g.DstAddrType == s.DstAddrType && g.SrcAddrType == s.SrcAddrType)
	verif.Assert("lengths-fixed-to-reference", int(g.HdrLen)*4 == refHdr && int(g.PayloadLen) == pl)
	verif.Assert("address-header-fields", g.DstIA == s.DstIA && g.SrcIA == s.SrcIA &&
		c18Eq(g.RawDstAddr, s.RawDstAddr) && c18Eq(g.RawSrcAddr, s.RawSrcAddr))
	verif.Assert("payload", c18Eq(g.Payload, payload))
	switch verif.Param("path") {
	case 0:
		_, ok := g.Path.(empty.Path)
		verif.Assert("path-fields", ok)
		verif.Cover("encoded-empty")
	case 1:
		p, ok := g.Path.(*onehop.Path)
		verif.Assert("path-fields", ok && p.Info == oh.Info && p.FirstHop == oh.FirstHop && p.SecondHop == oh.SecondHop)
		verif.Cover("encoded-onehop")
	case 2:
		p, ok := g.Path.(*scion.Raw)
		verif.Assert("path-fields", ok && c18PathEq(dec, p))
		verif.Cover("encoded-scion")
	case 3:
		p, ok := g.Path.(*epic.Path)
		verif.Assert("path-fields", ok && p.PktID == ep.PktID && c18Eq(p.PHVF, ep.PHVF) && c18Eq(p.LHVF, ep.LHVF) &&
			p.ScionPath != nil && c18PathEq(dec, p.ScionPath))
		verif.Cover("encoded-epic")
	}
}

// ---- extensions ------------------------------------------------------------------------------------

// VerifC18ExtnDecode: Param("len") arbitrary bytes decoded as hop-by-hop (Param e2e=0) or end-to-end
// (1) extension: no panic, declared ExtLen / option lengths exceeding the data are rejected, an
// accepted extension re-serialises (lengths as decoded) to exactly the input bytes.
func VerifC18ExtnDecode() {
	L := verif.Param("len")
	data := verif.NondetBytes("d", L)
	orig := append([]byte(nil), data...)
	buf := gopacket.NewSerializeBuffer()
	var err, err2 error
	nopts := 0
	if verif.Param("e2e") == 0 {
		var h HopByHopExtn
		err = h.DecodeFromBytes(data, &c18DF{})
		if err == nil {
			err2 = h.SerializeTo(buf, gopacket.SerializeOptions{})
			nopts = len(h.Options)
		}
	} else {
		var e EndToEndExtn
		err = e.DecodeFromBytes(data, &c18DF{})
		if err == nil {
			err2 = e.SerializeTo(buf, gopacket.SerializeOptions{})
			nopts = len(e.Options)
		}
	}
	verif.Observe("err", err != nil)
	if err != nil {
		verif.Cover("extn-rejected")
		return
	}
	actual := (int(orig[1]) + 1) * 4
	verif.Assert("extension-length-exceeding-data-rejected", actual <= L)
	verif.Assert("accepted-extension-reserializes", err2 == nil)
	if err2 != nil {
		return
	}
	out := buf.Bytes()
	verif.Observe("out", out)
	verif.Assert("reserialized-extension-length", len(out) == actual)
	same := true
	for i := 0; i < len(out) && i < L; i++ {
		same = same && out[i] == orig[i]
	}
	verif.Assert("reserialized-extension-bytes-equal-input", same)
	if nopts >= 2 {
		verif.Cover("extn-two-options")
	}
}

// VerifC18ExtnEncode: up to Param("nopts") options with symbolic type and symbolic data of
// enumerated length <= 6, FixLengths: decoding returns the options in order (type, data), followed
// only by padding options; NextHdr survives.
func VerifC18ExtnEncode() {
	n := verif.Param("nopts")
	nh := L4ProtocolType(verif.NondetU8("nh"))
	verif.Assume(nh != HopByHopClass && nh != End2EndClass)
	var types []OptionType
	var datas [][]byte
	for i := 0; i < n; i++ {
		t := OptionType(verif.NondetU8("t" + string(rune('0'+i))))
		verif.Assume(t != OptTypePad1) // Pad1 carries no data; covered by the decode direction
		types = append(types, t)
		datas = append(datas, verif.NondetBytes("o"+string(rune('0'+i)), verif.Choose("l"+string(rune('0'+i)), 7)))
	}
	buf := gopacket.NewSerializeBuffer()
	var err error
	e2e := verif.Param("e2e") == 1
	if e2e {
		x := &EndToEndExtn{}
		x.NextHdr = nh
		for i := range types {
			x.Options = append(x.Options, &EndToEndOption{OptType: types[i], OptData: datas[i]})
		}
		err = x.SerializeTo(buf, gopacket.SerializeOptions{FixLengths: true})
	} else {
		x := &HopByHopExtn{}
		x.NextHdr = nh
		for i := range types {
			x.Options = append(x.Options, &HopByHopOption{OptType: types[i], OptData: datas[i]})
		}
		err = x.SerializeTo(buf, gopacket.SerializeOptions{FixLengths: true})
	}
	verif.Assert("extension-serialize-ok", err == nil)
	if err != nil {
		return
	}
	wire := append([]byte(nil), buf.Bytes()...)
	verif.Observe("wire", wire)
	verif.Assert("extension-wire-multiple-of-4", len(wire)%4 == 0 && len(wire) >= 4)
	var gotT []OptionType
	var gotD [][]byte
	var gnh L4ProtocolType
	var derr error
	if e2e {
		var g EndToEndExtn
		derr = g.DecodeFromBytes(wire, &c18DF{})
		gnh = g.NextHdr
		for _, o := range g.Options {
			gotT, gotD = append(gotT, o.OptType), append(gotD, o.OptData)
		}
	} else {
		var g HopByHopExtn
		derr = g.DecodeFromBytes(wire, &c18DF{})
		gnh = g.NextHdr
		for _, o := range g.Options {
			gotT, gotD = append(gotT, o.OptType), append(gotD, o.OptData)
		}
	}
	verif.Assert("decode-of-serialized-extension-ok", derr == nil)
	if derr != nil {
		return
	}
	ok := gnh == nh && len(gotT) >= n
	for i := 0; ok && i < n; i++ {
		ok = ok && gotT[i] == types[i] && c18Eq(gotD[i], datas[i])
	}
	for i := n; ok && i < len(gotT); i++ {
		ok = ok && (gotT[i] == OptTypePad1 || gotT[i] == OptTypePadN)
	}
	verif.Assert("options-round-trip", ok)
	verif.Cover("extn-encoded")
}

// ---- L4 -----------------------------------------------------------------------------------------------

// VerifC18UDPDecode: Param("len") arbitrary bytes as SCION/UDP: no panic; a Length field exceeding
// the data is rejected or flagged truncated; accepted headers re-serialise to the input bytes.
func VerifC18UDPDecode() {
	L := verif.Param("len")
	data := verif.NondetBytes("d", L)
	orig := append([]byte(nil), data...)
	var u UDP
	df := &c18DF{}
	err := u.DecodeFromBytes(data, df)
	verif.Observe("err", err != nil, df.trunc)
	if err != nil {
		verif.Cover("udp-rejected")
		return
	}
	length := int(orig[4])<<8 | int(orig[5])
	verif.Assert("udp-length-exceeding-data-rejected-or-flagged", length <= L || df.trunc)
	buf := gopacket.NewSerializeBuffer()
	err2 := gopacket.SerializeLayers(buf, gopacket.SerializeOptions{}, &u, gopacket.Payload(u.Payload))
	verif.Assert("accepted-udp-reserializes", err2 == nil)
	if err2 != nil {
		return
	}
	out := buf.Bytes()
	verif.Observe("out", out)
	verif.Assert("reserialized-udp-equals-input", c18Eq(out, orig[:len(out)]) && len(out) >= 8)
	verif.Cover("udp-accepted")
}

type c18Msg interface {
	gopacket.SerializableLayer
	DecodeFromBytes([]byte, gopacket.DecodeFeedback) error
	LayerPayload() []byte
}

func c18MsgFor(t SCMPType) c18Msg {
	switch t {
	case SCMPTypeDestinationUnreachable:
		return &SCMPDestinationUnreachable{}
	case SCMPTypePacketTooBig:
		return &SCMPPacketTooBig{}
	case SCMPTypeParameterProblem:
		return &SCMPParameterProblem{}
	case SCMPTypeExternalInterfaceDown:
		return &SCMPExternalInterfaceDown{}
	case SCMPTypeInternalConnectivityDown:
		return &SCMPInternalConnectivityDown{}
	case SCMPTypeEchoRequest, SCMPTypeEchoReply:
		return &SCMPEcho{}
	case SCMPTypeTracerouteRequest, SCMPTypeTracerouteReply:
		return &SCMPTraceroute{}
	}
	return nil
}

// VerifC18SCMPDecode: Param("len") arbitrary bytes as SCMP header + message of the type named in the
// header (all nine message types and "other"): no panic; messages shorter than their fixed part are
// rejected; accepted ones re-serialise to the input bytes (no reserved bits are defined as
// must-ignore for re-serialisation except the 2 "unused" bytes of DestinationUnreachable /
// PacketTooBig, which are masked).
func VerifC18SCMPDecode() {
	L := verif.Param("len")
	data := verif.NondetBytes("d", L)
	orig := append([]byte(nil), data...)
	var m SCMP
	err := m.DecodeFromBytes(data, &c18DF{})
	if err != nil {
		verif.Assert("scmp-header-rejected-only-when-short", L < 4)
		return
	}
	typ := SCMPType(verif.Concrete(uint64(m.TypeCode.Type())))
	msg := c18MsgFor(typ)
	buf := gopacket.NewSerializeBuffer()
	var err2 error
	if msg == nil {
		verif.Cover("scmp-other-type")
		err2 = gopacket.SerializeLayers(buf, gopacket.SerializeOptions{}, &m, gopacket.Payload(m.Payload))
	} else {
		if derr := msg.DecodeFromBytes(m.Payload, &c18DF{}); derr != nil {
			verif.Cover("scmp-message-rejected")
			return
		}
		verif.Cover("scmp-message-accepted")
		err2 = gopacket.SerializeLayers(buf, gopacket.SerializeOptions{}, &m, msg, gopacket.Payload(msg.LayerPayload()))
	}
	verif.Observe("type", uint8(typ))
	verif.Assert("accepted-scmp-reserializes", err2 == nil)
	if err2 != nil {
		return
	}
	out := buf.Bytes()
	verif.Observe("out", out)
	same := len(out) == L
	for i := 0; i < len(out) && i < L; i++ {
		if (typ == SCMPTypeDestinationUnreachable && i >= 4 && i < 8) ||
			((typ == SCMPTypePacketTooBig || typ == SCMPTypeParameterProblem) && i >= 4 && i < 6) {
			continue // "unused"/reserved field of the message
		}
		same = same && out[i] == orig[i]
	}
	verif.Assert("reserialized-scmp-equals-input", same)
}
