//go:build verif || !verif

package beaconing

// C25 — only valid, policy-conforming beacons are stored and propagated.
//
// Under test (real code): Handler.HandleBeacon / validateASEntry / verifySegment,
// segverifier.VerifySegment, beacon.NewBeaconStore / NewCoreBeaconStore, baseStore.PreFilter /
// InsertBeacon, Policies/CorePolicies.Filter / Usage, Filter.Apply, filterLoops, beacon.FilterLoop,
// Propagator.shouldIgnore, ifstate.Interfaces.
//
// Stubs (harness level): in-memory beacon.DB recording (beacon, usage) of every insert; verifier
// with a symbolic verdict per AS entry.

import (
	"context"
	"errors"
	"net"

	"github.com/scionproto/scion/control/beacon"
	"github.com/scionproto/scion/control/ifstate"
	"github.com/scionproto/scion/pkg/addr"
	cryptopb "github.com/scionproto/scion/pkg/proto/crypto"
	"github.com/scionproto/scion/pkg/scrypto/cppki"
	"github.com/scionproto/scion/pkg/scrypto/signed"
	seg "github.com/scionproto/scion/pkg/segment"
	"github.com/scionproto/scion/pkg/snet"
	infra "github.com/scionproto/scion/private/segment/verifier"
	"github.com/scionproto/scion/private/topology"
	"github.com/scionproto/scion/zz_verif/verif"
)

// bi turns a condition into 0/1 without short-circuit control flow (keeps the oracle fork-free).
func c25b(b bool) (r uint8) {
	if b {
		r = 1
	}
	return
}

// ---- stubs ---------------------------------------------------------------------------------------

type c25Insert struct {
	b     beacon.Beacon
	usage beacon.Usage
}

// c25DB is the in-memory beacon database: it records every insert.
type c25DB struct {
	inserts []c25Insert
}

func (d *c25DB) CandidateBeacons(context.Context, int, beacon.Usage, addr.IA) ([]beacon.Beacon, error) {
	return nil, nil
}

func (d *c25DB) BeaconSources(context.Context) ([]addr.IA, error) { return nil, nil }

func (d *c25DB) InsertBeacon(_ context.Context, b beacon.Beacon, u beacon.Usage) (beacon.InsertStats, error) {
	d.inserts = append(d.inserts, c25Insert{b, u})
	return beacon.InsertStats{Inserted: 1}, nil
}

var errC25 = errors.New("c25: signature does not verify")

// c25Verifier: the signature of the k-th verified AS entry is valid iff verdict[k].
type c25Verifier struct {
	verdict []bool
	next    *int
}

func (v c25Verifier) WithServer(net.Addr) infra.Verifier         { return v }
func (v c25Verifier) WithIA(addr.IA) infra.Verifier              { return v }
func (v c25Verifier) WithValidity(cppki.Validity) infra.Verifier { return v }

func (v c25Verifier) Verify(context.Context, *cryptopb.SignedMessage, ...[]byte) (*signed.Message, error) {
	k := *v.next
	*v.next = k + 1
	if !v.verdict[k] {
		return nil, errC25
	}
	return &signed.Message{}, nil
}

// ---- reference oracle (from the property statement and beacon-policy documentation) -------------

type c25Filter struct {
	maxHops  int
	asBlack  []addr.AS
	isdBlack []addr.ISD
	isdLoop  bool // AllowIsdLoop
}

func c25ISD(ia addr.IA) addr.ISD { return addr.ISD(uint64(ia) >> 48) }
func c25AS(ia addr.IA) addr.AS   { return addr.AS(uint64(ia) & 0xffffffffffff) }

// c25ASLoop: some ISD-AS occurs twice in the sequence.
func c25ASLoop(hops []addr.IA) uint8 {
	var loop uint8
	for i := range hops {
		for j := i + 1; j < len(hops); j++ {
			loop |= c25b(hops[i] == hops[j])
		}
	}
	return loop
}

// c25ISDLoop: the sequence leaves an ISD and enters it again later: there are i < k < j with
// isd(i) == isd(j) and isd(k) != isd(i).
func c25ISDLoop(hops []addr.IA) uint8 {
	var loop uint8
	for i := range hops {
		for j := i + 2; j < len(hops); j++ {
			var left uint8
			for k := i + 1; k < j; k++ {
				left |= c25b(c25ISD(hops[k]) != c25ISD(hops[i]))
			}
			loop |= c25b(c25ISD(hops[i]) == c25ISD(hops[j])) & left
		}
	}
	return loop
}

// c25Accepts: the policy accepts the beacon: not longer than the maximum length, no AS loop, no
// ISD loop unless allowed, no blocked AS, no blocked ISD.
func c25Accepts(f *c25Filter, hops []addr.IA) uint8 {
	ok := c25b(len(hops) <= f.maxHops)
	ok &= 1 - c25ASLoop(hops)
	ok &= c25b(f.isdLoop) | (1 - c25ISDLoop(hops))
	for _, ia := range hops {
		for _, as := range f.asBlack {
			ok &= c25b(c25AS(ia) != as)
		}
		for _, isd := range f.isdBlack {
			ok &= c25b(c25ISD(ia) != isd)
		}
	}
	return ok
}

// ---- construction --------------------------------------------------------------------------------

// c25NewFilter: kind 0 = the default filter (10 hops, nothing blocked, ISD loops allowed), concrete;
// kind 1 = symbolic maximum length and ISD-loop switch, nothing blocked; kind 2 = additionally
// nAS blocked ASes and nISD blocked ISDs, all symbolic.
func c25NewFilter(kind, nAS, nISD int) (*c25Filter, beacon.Filter) {
	if kind == 0 {
		allow := true
		return &c25Filter{maxHops: 10, isdLoop: true},
			beacon.Filter{MaxHopsLength: 10, AllowIsdLoop: &allow}
	}
	if kind == 1 {
		nAS, nISD = 0, 0
	}
	f := &c25Filter{
		maxHops: verif.NondetInt("maxhops", 1, 12),
		isdLoop: verif.NondetBool("allowisdloop"),
	}
	for i := 0; i < nAS; i++ {
		f.asBlack = append(f.asBlack, addr.AS(verif.NondetU64("blockas")&0xffffffffffff))
	}
	for i := 0; i < nISD; i++ {
		f.isdBlack = append(f.isdBlack, addr.ISD(verif.NondetU16("blockisd")))
	}
	allow := f.isdLoop
	return f, beacon.Filter{
		MaxHopsLength: f.maxHops,
		AsBlackList:   append([]addr.AS{}, f.asBlack...),
		IsdBlackList:  append([]addr.ISD{}, f.isdBlack...),
		AllowIsdLoop:  &allow,
	}
}

func c25Segment(n int) (*seg.PathSegment, []addr.IA) {
	ps := &seg.PathSegment{}
	hops := make([]addr.IA, n)
	for i := 0; i < n; i++ {
		hops[i] = addr.IA(verif.NondetU64("ia"))
		// AS entries with a wildcard ISD-AS are rejected when the beacon is parsed (ASEntryFromPB)
		verif.Assume(c25ISD(hops[i]) != 0)
		verif.Assume(c25AS(hops[i]) != 0)
	}
	for i := 0; i < n; i++ {
		next := addr.IA(verif.NondetU64("lastnext"))
		if i < n-1 {
			next = hops[i+1]
		}
		ps.ASEntries = append(ps.ASEntries, seg.ASEntry{
			Local:  hops[i],
			Next:   next,
			Signed: &cryptopb.SignedMessage{},
		})
	}
	return ps, hops
}

var c25LinkTypes = [5]topology.LinkType{topology.Unset, topology.Core, topology.Parent, topology.Child, topology.Peer}

// VerifC25Handle: one received beacon through the real handler into the real (core or non-core)
// store.
func VerifC25Handle() {
	n := verif.Param("n")
	core := verif.Param("core")
	nAS, nISD := verif.Param("blockas"), verif.Param("blockisd")
	// mode 0 ("gate"): default policies; ingress interface, link type, signature verdicts free.
	// mode 1 ("policy"): ingress on interface 1 over a parent (core store: core) link, signatures
	// valid; policy number `sym` has a fully symbolic filter, the others a symbolic maximum length
	// and ISD-loop switch.
	mode := verif.Param("mode")
	sym := verif.Param("sym")
	kinds := [3]int{0, 0, 0}
	if mode == 1 {
		kinds = [3]int{1, 1, 1}
		kinds[sym] = 2
	}

	localIA := addr.IA(verif.NondetU64("local"))
	// two configured interfaces with arbitrary neighbours
	nbr := [2]addr.IA{addr.IA(verif.NondetU64("nbr")), addr.IA(verif.NondetU64("nbr"))}
	lt := [2]topology.LinkType{topology.Parent, topology.Parent}
	if core == 1 {
		lt[0] = topology.Core
	}
	if mode == 0 {
		lt[0] = c25LinkTypes[verif.Choose("linktype", 5)]
	}
	intfs := ifstate.NewInterfaces(map[uint16]ifstate.InterfaceInfo{
		1: {ID: 1, IA: nbr[0], LinkType: lt[0]},
		2: {ID: 2, IA: nbr[1], LinkType: lt[1]},
	}, ifstate.Config{})

	db := &c25DB{}
	var inserter BeaconInserter
	var refs []*c25Filter
	var usages []beacon.Usage
	if core == 1 {
		fp, p := c25NewFilter(kinds[0], nAS, nISD)
		fc, c := c25NewFilter(kinds[1], nAS, nISD)
		store, err := beacon.NewCoreBeaconStore(beacon.CorePolicies{
			Prop:    beacon.Policy{Filter: p},
			CoreReg: beacon.Policy{Filter: c},
		}, db)
		verif.Assert("store-created", err == nil)
		inserter = store
		refs = []*c25Filter{fp, fc}
		usages = []beacon.Usage{beacon.UsageProp, beacon.UsageCoreReg}
	} else {
		fp, p := c25NewFilter(kinds[0], nAS, nISD)
		fu, u := c25NewFilter(kinds[1], nAS, nISD)
		fd, d := c25NewFilter(kinds[2], nAS, nISD)
		store, err := beacon.NewBeaconStore(beacon.Policies{
			Prop:    beacon.Policy{Filter: p},
			UpReg:   beacon.Policy{Filter: u},
			DownReg: beacon.Policy{Filter: d},
		}, db)
		verif.Assert("store-created", err == nil)
		inserter = store
		refs = []*c25Filter{fp, fu, fd}
		usages = []beacon.Usage{beacon.UsageProp, beacon.UsageUpReg, beacon.UsageDownReg}
	}

	ps, hops := c25Segment(n)
	verdict := make([]bool, n)
	for i := range verdict {
		verdict[i] = true
		if mode == 0 {
			verdict[i] = verif.NondetBool("sigok")
		}
	}
	calls := 0
	h := Handler{
		LocalIA:    localIA,
		Inserter:   inserter,
		Verifier:   c25Verifier{verdict: verdict, next: &calls},
		Interfaces: intfs,
	}
	// ingress interface id: 0 = not configured, 1, 2 (enumerated)
	inIf := uint16(1)
	if mode == 0 {
		inIf = uint16(verif.Choose("inif", 3))
	}
	b := beacon.Beacon{Segment: ps, InIfID: inIf}
	err := h.HandleBeacon(context.Background(), b, &snet.UDPAddr{IA: nbr[0]})
	verif.Observe("handled", err == nil, len(db.inserts))

	verif.Assert("at-most-one-insert", len(db.inserts) <= 1)
	// reference: the usages of the accepting policies
	var wantUsage, full beacon.Usage
	for i, f := range refs {
		wantUsage |= beacon.Usage(c25Accepts(f, hops)) * usages[i]
		full |= usages[i]
	}
	if len(db.inserts) == 1 {
		verif.Cover("stored")
		ins := db.inserts[0]
		verif.Observe("usage", int(ins.usage))
		// ingress interface exists and is a parent or core link
		verif.Assert("stored-only-from-configured-interface", inIf == 1 || inIf == 2)
		if inIf == 1 || inIf == 2 {
			k := int(inIf) - 1
			verif.Assert("stored-only-from-parent-or-core-link",
				lt[k] == topology.Parent || lt[k] == topology.Core)
			verif.Assert("stored-only-if-last-entry-is-the-neighbour", hops[n-1] == nbr[k])
		}
		verif.Assert("stored-only-if-last-entry-names-local-as-next",
			ps.ASEntries[n-1].Next == localIA)
		allOK := uint8(1)
		for _, v := range verdict {
			allOK &= c25b(v)
		}
		verif.Assert("stored-only-if-all-signatures-verify", allOK == 1)
		verif.Assert("stored-only-if-some-policy-accepts", wantUsage != 0)
		verif.Assert("stored-with-exactly-the-usages-of-accepting-policies", ins.usage == wantUsage)
		verif.Assert("stored-beacon-is-the-received-one", ins.b.Segment == ps && ins.b.InIfID == inIf)
		if ins.usage != full {
			verif.Cover("stored-with-partial-usage")
		}
	} else {
		verif.Cover("not-stored")
	}
}

// VerifC25HandleTwin must be violated: storing is reachable.
func VerifC25HandleTwin() {
	localIA := addr.IA(verif.NondetU64("local"))
	nbr := addr.IA(verif.NondetU64("nbr"))
	intfs := ifstate.NewInterfaces(map[uint16]ifstate.InterfaceInfo{
		1: {ID: 1, IA: nbr, LinkType: c25LinkTypes[verif.Choose("linktype", 5)]},
	}, ifstate.Config{})
	db := &c25DB{}
	_, p := c25NewFilter(1, 0, 0)
	_, u := c25NewFilter(0, 0, 0)
	_, d := c25NewFilter(0, 0, 0)
	store, err := beacon.NewBeaconStore(beacon.Policies{
		Prop:    beacon.Policy{Filter: p},
		UpReg:   beacon.Policy{Filter: u},
		DownReg: beacon.Policy{Filter: d},
	}, db)
	verif.Assume(err == nil)
	ps, _ := c25Segment(2)
	calls := 0
	h := Handler{
		LocalIA:    localIA,
		Inserter:   store,
		Verifier:   c25Verifier{verdict: []bool{verif.NondetBool("sigok"), verif.NondetBool("sigok")}, next: &calls},
		Interfaces: intfs,
	}
	_ = h.HandleBeacon(context.Background(), beacon.Beacon{Segment: ps, InIfID: 1}, &snet.UDPAddr{IA: nbr})
	verif.Assert("twin", len(db.inserts) == 0)
}

// VerifC25Propagate: the real Propagator.shouldIgnore on an arbitrary stored beacon and an
// arbitrary egress interface: a beacon that is not ignored does not close an AS loop (nor an ISD
// loop when those are disallowed) with the neighbour of that interface.
func VerifC25Propagate() {
	n := verif.Param("n")
	ps, hops := c25Segment(n)
	nbr := addr.IA(verif.NondetU64("nbr"))
	// the neighbour of a configured interface is a concrete (non-wildcard) AS
	verif.Assume(c25ISD(nbr) != 0)
	verif.Assume(c25AS(nbr) != 0)
	allow := verif.NondetBool("allowisdloop")
	intfs := ifstate.NewInterfaces(map[uint16]ifstate.InterfaceInfo{
		7: {ID: 7, IA: nbr, LinkType: topology.Child},
	}, ifstate.Config{})
	p := &Propagator{AllowIsdLoop: allow, AllInterfaces: intfs}
	ignore := p.shouldIgnore(beacon.Beacon{Segment: ps, InIfID: 1}, intfs.Get(7))
	verif.Observe("ignore", ignore)
	all := append(append([]addr.IA{}, hops...), nbr)
	asLoop := c25ASLoop(all)
	isdLoop := c25ISDLoop(all)
	if !ignore {
		verif.Cover("propagated")
		verif.Assert("propagated-only-without-as-loop", asLoop == 0)
		verif.Assert("propagated-only-without-isd-loop-when-disallowed", c25b(allow)|(1-isdLoop) == 1)
	} else {
		verif.Cover("ignored")
	}
}
