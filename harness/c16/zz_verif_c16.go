//go:build verif || !verif

package bfd

import (
	"context"
	"time"

	"github.com/gopacket/gopacket/layers"

	"github.com/scionproto/scion/zz_verif/verif"
)

// C16 — BFD sessions follow RFC 5880 and always recover.
//
// The real Session.Run is executed. Its two time.NewTimer call sites are redirected (source_rewrite in
// checks/C16.json) to verifNewTimer below; nothing else of session.go is touched. The harness is the
// environment of Run: it owns the two timers and the peer. At every loop iteration of Run exactly one
// of the three select cases is made ready, chosen by the environment script:
//   - a BFD control packet arrives (pushed through the real ReceiveMessage / shouldDiscard),
//   - the detection timer expires, - the send timer expires,
// so the native run is deterministic (a select with one ready case) and equals the symbolic one.
// A timer may expire whenever it is armed, whatever its duration (over-approximation of all schedules);
// the duration the real code arms the detection timer with is checked separately.

// ---- reference: RFC 5880 section 6.8.6 (received state) and 6.8.4 (detection time expiry) ------------

const (
	c16AdminDown = layers.BFDState(0)
	c16Down      = layers.BFDState(1)
	c16Init      = layers.BFDState(2)
	c16Up        = layers.BFDState(3)
)

// c16RefRecv is the state after receiving a control packet carrying state st in local state local
// (local is Down, Init or Up; the session never enters AdminDown by itself).
func c16RefRecv(local, st layers.BFDState) layers.BFDState {
	if st == c16AdminDown {
		// "If received state is AdminDown: if bfd.SessionState is not Down, set it to Down"
		return c16Down
	}
	switch local {
	case c16Down:
		if st == c16Down {
			return c16Init
		}
		if st == c16Init {
			return c16Up
		}
		return c16Down
	case c16Init:
		if st == c16Init || st == c16Up {
			return c16Up
		}
		return c16Init
	default: // Up
		if st == c16Down {
			return c16Down
		}
		return c16Up
	}
}

// ---- the environment --------------------------------------------------------------------------------

const (
	c16None  = -1
	c16Det   = 0 // index of the detection timer (Run creates it first)
	c16Send  = 1 // index of the send timer
	c16Msg   = 2
	c16Close = 3
)

// vTimer stands in for *time.Timer with the Go >= 1.23 semantics (go.mod: go 1.26): Stop and Reset
// discard a value that was sent but not yet received, and report whether the timer was active.
type vTimer struct {
	C     chan time.Time
	id    int
	armed bool
}

type c16Env struct {
	s       *Session
	timers  []*vTimer
	pending int // the event currently made ready for Run's select
	steps   int // free script steps left
	rounds  int // recovery rounds left (each: the peer's packet arrives, then our send timer expires)
	phase   int // 0 script; recovery: 1 peer packet next, 2 send timer next, 3 send timer made ready
	// awaitSend: the recovery send-timer event was consumed; c16Sender.Send continues the schedule
	awaitSend bool
	nmsg      int
	ref       layers.BFDState // reference machine
	peer      layers.BFDState // reference peer (recovery phase)
	lastEv    int
	lastSt    layers.BFDState
	cur       *layers.BFD // the packet behind the pending / last consumed message event
	events    int
	sent      int
	upRound   int // number of completed recovery rounds
}

var c16 *c16Env

func verifNewTimer(d time.Duration) *vTimer {
	e := c16
	t := &vTimer{C: make(chan time.Time, 1), id: len(e.timers), armed: true}
	e.timers = append(e.timers, t)
	if len(e.timers) == 2 {
		// both timers exist: Run enters its loop next
		e.schedule()
	}
	return t
}

func (t *vTimer) Stop() bool {
	e := c16
	e.sync()
	active := t.armed
	if len(t.C) > 0 {
		<-t.C
		active = true
		if e.pending == t.id {
			e.pending = c16None
		}
	}
	t.armed = false
	return active
}

func (t *vTimer) Reset(d time.Duration) bool {
	e := c16
	e.sync()
	active := t.armed
	if len(t.C) > 0 {
		<-t.C
		active = true
		if e.pending == t.id {
			e.pending = c16None
		}
	}
	t.armed = true
	if t.id == c16Det && e.lastEv == c16Msg && e.cur != nil {
		// RFC 5880 6.8.4: Detection Time = remote Detect Mult x max(local RequiredMinRxInterval,
		// remote Desired Min TX Interval), restarted on every accepted packet
		want := time.Duration(e.cur.DetectMultiplier) *
			max(e.s.RequiredMinRxInterval, time.Duration(e.cur.DesiredMinTxInterval)*time.Microsecond)
		verif.Assert("detection-time-is-remote-mult-times-max-of-intervals", d == want)
		verif.Cover("detection-timer-restarted-by-packet")
		e.cur = nil
	}
	if e.pending == c16None && !e.awaitSend {
		e.schedule()
	}
	return active
}

// sync notices that Run's select has consumed the pending event: the previous iteration is then
// complete (its resulting state is compared with the reference) and the reference takes the new event.
func (e *c16Env) sync() {
	switch e.pending {
	case c16Det, c16Send:
		if len(e.timers[e.pending].C) > 0 {
			return
		}
	case c16Msg:
		if len(e.s.messages) > 0 {
			return
		}
	default:
		return
	}
	e.checkState()
	ev := e.pending
	e.pending = c16None
	e.events++
	// timers that did not fire must still be running (periodic transmission and detection never stop)
	if ev != c16Det {
		verif.Assert("detection-timer-keeps-running", e.timers[c16Det].armed)
	}
	if ev != c16Send {
		verif.Assert("send-timer-keeps-running", e.timers[c16Send].armed)
	}
	e.lastEv = ev
	switch ev {
	case c16Msg:
		e.lastSt = e.cur.State
		e.ref = c16RefRecv(e.ref, e.cur.State)
	case c16Det:
		e.ref = c16Down
	case c16Send:
		if e.phase == 3 {
			e.awaitSend = true
		}
	}
	if e.ref == c16Init {
		verif.Cover("init-reached")
	}
	if e.ref == c16Up {
		verif.Cover("up-reached")
	}
}

// checkState compares the session state with the reference after the events consumed so far.
func (e *c16Env) checkState() {
	got := layers.BFDState(e.s.getLocalState())
	verif.Observe("state", uint8(got))
	switch e.lastEv {
	case c16None:
		verif.Assert("session-starts-down", got == e.ref)
	case c16Msg:
		if e.lastSt == c16AdminDown {
			verif.Assert("received-admindown-moves-to-down", got == e.ref)
		} else {
			verif.Assert("state-follows-rfc5880-6.8.6-on-received-state", got == e.ref)
		}
	case c16Det:
		verif.Assert("detection-timer-expiry-moves-to-down", got == e.ref)
	default:
		verif.Assert("sending-leaves-state-unchanged", got == e.ref)
	}
	verif.Assert("is-up-iff-state-up", e.s.IsUp() == (got == c16Up))
}

func (e *c16Env) fire(id int) bool {
	t := e.timers[id]
	if !t.armed {
		return false
	}
	t.armed = false
	t.C <- time.Time{}
	e.pending = id
	return true
}

func (e *c16Env) deliver(m *layers.BFD) bool {
	before := len(e.s.messages)
	e.s.ReceiveMessage(m)
	if len(e.s.messages) == before {
		return false
	}
	e.cur = m
	e.pending = c16Msg
	return true
}

// schedule makes the next event ready.
func (e *c16Env) schedule() {
	for e.steps > 0 {
		e.steps--
		switch verif.Choose("event", 3) {
		case 0:
			if e.fire(c16Det) {
				verif.Cover("detection-timer-expires")
				return
			}
		case 1:
			if e.fire(c16Send) {
				return
			}
		default:
			m := c16ScriptPacket(e.nmsg)
			e.nmsg++
			ok := e.deliver(m)
			verif.Assert("rfc-acceptable-packet-is-accepted", ok)
			if ok {
				return
			}
		}
	}
	if e.rounds > 0 {
		if e.phase == 0 {
			// the peer starts behaving: an RFC 5880 machine in an arbitrary state
			e.phase = 1
			e.peer = layers.BFDState(1 + verif.Choose("peer", 3))
		}
		if e.phase == 1 {
			// the peer's periodic packet arrives
			ok := e.deliver(c16PeerPacket(e))
			verif.Assert("well-behaved-peer-packet-is-accepted", ok)
			e.phase = 2
			if ok {
				return
			}
		} else {
			// our send timer expires; the packet reaches the peer in c16Sender.Send, which steps the
			// peer and continues the schedule
			ok := e.fire(c16Send)
			verif.Assert("send-timer-keeps-running", ok)
			e.phase = 3
			if ok {
				return
			}
		}
	}
	e.s.Close()
	e.pending = c16Close
}

type c16Sender struct{ e *c16Env }

func (x c16Sender) Send(p *layers.BFD) error {
	e := x.e
	e.sent++
	verif.Observe("sent", uint8(p.State))
	verif.Assert("sent-packet-carries-session-state", p.State == e.ref)
	wellFormed := p.Version == 1 && p.MyDiscriminator == e.s.LocalDiscriminator &&
		p.DetectMultiplier == e.s.DetectMult && !p.Poll && !p.Final && !p.Demand && !p.AuthPresent &&
		!p.Multipoint && p.RequiredMinEchoRxInterval == 0
	verif.Assert("sent-packet-well-formed", wellFormed)
	// the send timer was re-armed before sending (periodic transmission never stops); it may already
	// have been made to expire again by the script
	verif.Assert("send-timer-keeps-running", e.timers[c16Send].armed || len(e.timers[c16Send].C) > 0)
	if e.awaitSend {
		// recovery phase: the packet reaches the well-behaved peer, which follows the RFC table
		e.awaitSend = false
		e.peer = c16RefRecv(e.peer, p.State)
		e.rounds--
		e.upRound++
		if e.upRound >= 3 {
			// after three loss-free exchanges both ends are Up and stay Up
			verif.Assert("comes-up-once-peer-behaves-and-stays-up", e.s.IsUp() && e.peer == c16Up)
			verif.Cover("recovered")
		}
		e.phase = 1
		e.schedule()
	}
	return nil
}

// c16ScriptPacket is a received control packet of the free script: every field symbolic, restricted to
// packets that RFC 5880 6.8.6 accepts for a session without authentication and that use none of the
// features this implementation documents as unsupported (poll/final, demand, echo, authentication);
// the acceptance logic itself is the subject of VerifC16Receive.
func c16ScriptPacket(i int) *layers.BFD {
	sfx := string([]byte{'0' + byte(i)})
	m := &layers.BFD{
		Version:                 1,
		Diagnostic:              layers.BFDDiagnostic(verif.NondetU8("diag" + sfx)),
		State:                   layers.BFDState(verif.Choose("state", 4)), // 2-bit field: all values
		ControlPlaneIndependent: verif.NondetBool("cpi" + sfx),
		DetectMultiplier:        layers.BFDDetectMultiplier(verif.NondetU8("mult" + sfx)),
		MyDiscriminator:         layers.BFDDiscriminator(verif.NondetU32("my" + sfx)),
		YourDiscriminator:       layers.BFDDiscriminator(verif.NondetU32("your" + sfx)),
		DesiredMinTxInterval:    layers.BFDTimeInterval(verif.NondetU32("tx" + sfx)),
		RequiredMinRxInterval:   layers.BFDTimeInterval(verif.NondetU32("rx" + sfx)),
	}
	verif.Assume(m.Diagnostic < 32)
	verif.Assume(m.DetectMultiplier != 0)
	verif.Assume(m.MyDiscriminator != 0)
	if m.State != c16Down && m.State != c16AdminDown {
		verif.Assume(m.YourDiscriminator != 0)
	}
	return m
}

// c16PeerPacket is what a well-behaved peer in state e.peer sends to this session.
func c16PeerPacket(e *c16Env) *layers.BFD {
	return &layers.BFD{
		Version:               1,
		State:                 e.peer,
		DetectMultiplier:      3,
		MyDiscriminator:       0x5eed,
		YourDiscriminator:     e.s.LocalDiscriminator,
		DesiredMinTxInterval:  200000,
		RequiredMinRxInterval: 200000,
	}
}

func c16Session(e *c16Env) *Session {
	s := &Session{
		Sender:                c16Sender{e},
		LocalDiscriminator:    layers.BFDDiscriminator(verif.NondetU32("local_disc")),
		DetectMult:            layers.BFDDetectMultiplier(verif.NondetU8("local_mult")),
		DesiredMinTxInterval:  200 * time.Millisecond,
		RequiredMinRxInterval: 200 * time.Millisecond,
		ReceiveQueueSize:      1,
	}
	if verif.Param("symcfg") == 1 {
		// any configuration validateParameters admits: whole microseconds in [1, 2^32-1]
		tx, rx := verif.NondetU32("local_tx_us"), verif.NondetU32("local_rx_us")
		verif.Assume(tx != 0 && rx != 0)
		s.DesiredMinTxInterval = time.Duration(tx) * time.Microsecond
		s.RequiredMinRxInterval = time.Duration(rx) * time.Microsecond
	}
	return s
}

// VerifC16Run: a free script of `steps` events followed (if rounds > 0) by a loss-free exchange with a
// reference peer; the session state is compared with the RFC machine after every event.
func VerifC16Run() {
	e := &c16Env{pending: c16None, lastEv: c16None, ref: c16Down,
		steps: verif.Param("steps"), rounds: verif.Param("rounds")}
	c16 = e
	e.s = c16Session(e)
	verif.Assume(e.s.LocalDiscriminator != 0 && e.s.DetectMult != 0)
	err := e.s.Run(context.Background())
	verif.Assert("run-returns-nil-after-close", err == nil)
	e.checkState()
	verif.Observe("end", e.events, e.sent, uint8(e.ref))
}

// VerifC16RunTwin is the reachability twin: "the session is never Up at the end" must be violated.
func VerifC16RunTwin() {
	e := &c16Env{pending: c16None, lastEv: c16None, ref: c16Down, steps: 2, rounds: 0}
	c16 = e
	e.s = c16Session(e)
	verif.Assume(e.s.LocalDiscriminator != 0 && e.s.DetectMult != 0)
	_ = e.s.Run(context.Background())
	verif.Assert("twin", !e.s.IsUp())
}

// ---- message acceptance (ReceiveMessage / shouldDiscard), every field symbolic --------------------------

func VerifC16Receive() {
	s := &Session{ReceiveQueueSize: 1}
	m := &layers.BFD{
		Version:                   layers.BFDVersion(verif.NondetU8("version")),
		Diagnostic:                layers.BFDDiagnostic(verif.NondetU8("diag")),
		State:                     layers.BFDState(verif.NondetU8("state")),
		Poll:                      verif.NondetBool("poll"),
		Final:                     verif.NondetBool("final"),
		ControlPlaneIndependent:   verif.NondetBool("cpi"),
		AuthPresent:               verif.NondetBool("auth"),
		Demand:                    verif.NondetBool("demand"),
		Multipoint:                verif.NondetBool("multipoint"),
		DetectMultiplier:          layers.BFDDetectMultiplier(verif.NondetU8("mult")),
		MyDiscriminator:           layers.BFDDiscriminator(verif.NondetU32("my")),
		YourDiscriminator:         layers.BFDDiscriminator(verif.NondetU32("your")),
		DesiredMinTxInterval:      layers.BFDTimeInterval(verif.NondetU32("tx")),
		RequiredMinRxInterval:     layers.BFDTimeInterval(verif.NondetU32("rx")),
		RequiredMinEchoRxInterval: layers.BFDTimeInterval(verif.NondetU32("echo")),
	}
	// wire format: 3-bit version, 5-bit diagnostic, 2-bit state
	verif.Assume(m.Version < 8 && m.Diagnostic < 32 && m.State < 4)
	hasAuthHdr := verif.Choose("authhdr", 2) == 1
	if hasAuthHdr {
		m.AuthHeader = &layers.BFDAuthHeader{
			AuthType: layers.BFDAuthType(verif.NondetU8("authtype")),
			KeyID:    layers.BFDAuthKeyID(verif.NondetU8("keyid")),
			Data:     verif.NondetBytes("authdata", verif.Param("authlen")),
		}
	}
	copyOf := *m

	s.ReceiveMessage(m)
	queued := len(s.messages) == 1
	verif.Observe("queued", queued)

	// RFC 5880 6.8.6, session without authentication: these packets MUST be discarded
	mustDiscard := m.Version != 1 || m.DetectMultiplier == 0 || m.Multipoint || m.MyDiscriminator == 0 ||
		(m.YourDiscriminator == 0 && m.State != c16Down && m.State != c16AdminDown) || m.AuthPresent
	// packets the RFC accepts that use none of the documented-unsupported features must be accepted
	plain := !m.Poll && !m.Final && !m.Demand && m.RequiredMinEchoRxInterval == 0 && !hasAuthHdr
	if mustDiscard {
		verif.Cover("rfc-discard")
		verif.Assert("rfc-mandated-discard", !queued)
	} else if plain {
		verif.Cover("accepted")
		verif.Assert("rfc-acceptable-packet-is-accepted", queued)
	}
	verif.Assert("packet-not-modified", m.State == copyOf.State && m.MyDiscriminator == copyOf.MyDiscriminator &&
		m.YourDiscriminator == copyOf.YourDiscriminator && m.DetectMultiplier == copyOf.DetectMultiplier)
	if queued {
		q := <-s.messages
		same := q.State == m.State && q.DetectMultiplier == m.DetectMultiplier &&
			q.MyDiscriminator == m.MyDiscriminator && q.YourDiscriminator == m.YourDiscriminator &&
			q.DesiredMinTxInterval == m.DesiredMinTxInterval && q.RequiredMinRxInterval == m.RequiredMinRxInterval
		verif.Assert("queued-message-carries-the-packet-fields", same)
	}
}

// VerifC16ReceiveTwin: "no packet is ever queued" must be violated.
func VerifC16ReceiveTwin() {
	s := &Session{ReceiveQueueSize: 1}
	m := &layers.BFD{
		Version:           layers.BFDVersion(verif.NondetU8("version")),
		State:             layers.BFDState(verif.NondetU8("state")),
		DetectMultiplier:  layers.BFDDetectMultiplier(verif.NondetU8("mult")),
		MyDiscriminator:   layers.BFDDiscriminator(verif.NondetU32("my")),
		YourDiscriminator: layers.BFDDiscriminator(verif.NondetU32("your")),
	}
	verif.Assume(m.State < 4)
	s.ReceiveMessage(m)
	verif.Assert("twin", len(s.messages) == 0)
}

// ---- the transition table, columns received Down / Init / Up and detection timer -----------------------
// (the received-AdminDown column is asserted on Run only, where the received state is mapped to an
// event: a repair may remap it there without touching the table, which fsm_test.go pins)

func VerifC16Table() {
	local := layers.BFDState(verif.NondetU8("local"))
	ev := verif.NondetU8("event") // 1..3: received state, 4: detection timer
	verif.Assume(local == c16Down || local == c16Init || local == c16Up)
	verif.Assume(ev >= 1 && ev <= 4)
	got := layers.BFDState(transition(state(local), event(ev)))
	verif.Observe("next", uint8(got))
	if ev == 4 {
		verif.Cover("table-timer")
		verif.Assert("table-detection-timer-expiry-moves-to-down", got == c16Down)
		return
	}
	verif.Cover("table-received")
	verif.Assert("table-follows-rfc5880-6.8.6", got == c16RefRecv(local, layers.BFDState(ev)))
	verif.Assert("table-never-enters-admindown", got != c16AdminDown)
}

func VerifC16TableTwin() {
	local := layers.BFDState(verif.NondetU8("local"))
	ev := verif.NondetU8("event")
	verif.Assume(local == c16Down || local == c16Init || local == c16Up)
	verif.Assume(ev >= 1 && ev <= 4)
	verif.Assert("twin", transition(state(local), event(ev)) != stateUp)
}
