//go:build verif || !verif

package segfetcher

// C30: paths handed to applications are live, unrevoked and end at the destination; the segment
// requests issued for a lookup are the ones required for the kinds of source and destination.
//
// (a) VerifC30Split: real MultiSegmentSplitter.Split with symbolic AS numbers, against the request
//     table of DESIGN Appendix C (written from the property statement).
// (b) VerifC30Paths: real Pather.GetPaths (real Split, real Fetcher.Fetch with a Resolver stub that
//     answers from the shape's segment set, real buildAllPaths / findDestinations / filterRevoked /
//     translatePaths, real combinator.Combine) with a revocation-cache stub and the symbolic clock.

import (
	"context"
	"net"
	"time"

	"github.com/scionproto/scion/pkg/addr"
	"github.com/scionproto/scion/pkg/private/ctrl/path_mgmt"
	seg "github.com/scionproto/scion/pkg/segment"
	"github.com/scionproto/scion/pkg/segment/iface"
	"github.com/scionproto/scion/pkg/snet"
	"github.com/scionproto/scion/private/path/combinator"
	"github.com/scionproto/scion/private/revcache"
	"github.com/scionproto/scion/private/trust"
	"github.com/scionproto/scion/zz_verif/verif"
)

// ---- stubs --------------------------------------------------------------------------------------

// vInspector answers core-AS questions from a fixed truth (TRC contents are not the subject here).
type vInspector struct {
	cores map[addr.ISD][]addr.IA
}

func (v *vInspector) ByAttributes(ctx context.Context, isd addr.ISD, attrs trust.Attribute) ([]addr.IA, error) {
	return append([]addr.IA(nil), v.cores[isd]...), nil
}

func (v *vInspector) HasAttributes(ctx context.Context, ia addr.IA, attrs trust.Attribute) (bool, error) {
	var hit uint8
	for _, c := range v.cores[ia.ISD()] {
		if c == ia {
			hit = 1
		}
	}
	return hit == 1, nil
}

// vResolver is the fetcher contract: every segment it hands back answers one of the requests
// (type, first and last AS match, wildcards match any AS of the ISD); nothing is left to fetch.
type vResolver struct {
	all  Segments
	seen Requests
}

func vIAMatch(pattern, ia addr.IA) bool {
	return pattern.ISD() == ia.ISD() && (pattern.AS() == 0 || pattern.AS() == ia.AS())
}

func vAnswers(req Request, m *seg.Meta) bool {
	if m.Type != req.SegType {
		return false
	}
	first, last := m.Segment.FirstIA(), m.Segment.LastIA()
	if m.Type == seg.TypeDown {
		return vIAMatch(req.Src, first) && vIAMatch(req.Dst, last)
	}
	// up and core segments are requested from their last AS towards their first (origin) AS
	return vIAMatch(req.Dst, first) && vIAMatch(req.Src, last)
}

func (v *vResolver) Resolve(ctx context.Context, reqs Requests, refresh bool) (Segments, Requests, error) {
	v.seen = reqs
	var out Segments
	for _, m := range v.all {
		for _, r := range reqs {
			if vAnswers(r, m) {
				out = append(out, m)
				break
			}
		}
	}
	return out, nil, nil
}

// vRevCache holds symbolic active revocations; a hit means the revocation is active (revcache
// contract, C31 checks the cache itself).
type vRev struct {
	ia     addr.IA
	id     iface.ID
	active bool
}

type vRevCache struct {
	revs []vRev
}

func (v *vRevCache) Get(ctx context.Context, key revcache.Key) (*path_mgmt.RevInfo, error) {
	for i := range v.revs {
		r := &v.revs[i]
		if vBit(r.active)&vBit(r.ia == key.IA)&vBit(r.id == key.IfID) == 1 {
			return &path_mgmt.RevInfo{IfID: r.id, RawIsdas: r.ia}, nil
		}
	}
	return nil, nil
}
func (v *vRevCache) GetAll(ctx context.Context) (revcache.ResultChan, error) { return nil, nil }
func (v *vRevCache) Insert(ctx context.Context, rev *path_mgmt.RevInfo) (bool, error) {
	return false, nil
}
func (v *vRevCache) DeleteExpired(ctx context.Context) (int64, error) { return 0, nil }
func (v *vRevCache) Close() error                                       { return nil }

type vNextHopper struct{}

func (vNextHopper) UnderlayNextHop(id uint16) *net.UDPAddr { return &net.UDPAddr{Port: 30042} }

// ---- (a) segment requests -------------------------------------------------------------------------

func vWild(isd addr.ISD) addr.IA { return addr.IA(isd) << 48 }

// VerifC30Split: src in ISD 1, dst in ISD `disd` (param); AS numbers, the core flag and the core AS
// numbers (ncore cores in the source ISD, 1 in the other) are symbolic.
func VerifC30Split() {
	disd := addr.ISD(verif.Param("disd"))
	ncore := verif.Param("ncore")
	asMask := uint64(1)<<48 - 1
	src := addr.IA(1)<<48 | addr.IA(verif.NondetU64("src.as")&asMask)
	dst := addr.IA(disd)<<48 | addr.IA(verif.NondetU64("dst.as")&asMask)
	verif.Assume(src.AS() != 0) // the local AS is a concrete AS
	verif.Assume(dst != src)    // GetPaths answers lookups for the local AS itself
	cores := map[addr.ISD][]addr.IA{}
	for k := 0; k < ncore; k++ {
		c := addr.IA(1)<<48 | addr.IA(verif.NondetU64("core1.as")&asMask)
		verif.Assume(c.AS() != 0)
		for _, o := range cores[1] {
			verif.Assume(o != c)
		}
		cores[1] = append(cores[1], c)
	}
	if disd != 1 {
		c := addr.IA(disd)<<48 | addr.IA(verif.NondetU64("core2.as")&asMask)
		verif.Assume(c.AS() != 0)
		cores[disd] = append(cores[disd], c)
	}
	isCore := func(ia addr.IA) bool {
		var hit uint8
		for _, c := range cores[ia.ISD()] {
			if c == ia {
				hit = 1
			}
		}
		return hit == 1
	}
	srcCore := verif.NondetBool("src.core")
	// the configured Core flag agrees with the TRC
	verif.Assume(srcCore == isCore(src))

	s := &MultiSegmentSplitter{LocalIA: src, Core: srcCore, Inspector: &vInspector{cores: cores}}
	reqs, err := s.Split(context.Background(), dst)
	verif.Observe("split", err == nil, len(reqs))
	verif.Assert("split-succeeds", err == nil)

	// reference table (DESIGN Appendix C / property statement)
	dstWild := dst.AS() == 0
	dstCore := dstWild || isCore(dst)
	sameISD := disd == 1
	var single addr.IA
	haveSingle := sameISD && len(cores[1]) == 1
	if haveSingle {
		single = cores[1][0]
	}
	var want Requests
	switch {
	case !srcCore && !dstCore:
		verif.Cover("noncore-to-noncore")
		if haveSingle {
			want = Requests{{Src: src, Dst: single, SegType: seg.TypeUp}, {Src: single, Dst: dst, SegType: seg.TypeDown}}
		} else {
			want = Requests{{Src: src, Dst: vWild(1), SegType: seg.TypeUp},
				{Src: vWild(1), Dst: vWild(disd), SegType: seg.TypeCore},
				{Src: vWild(disd), Dst: dst, SegType: seg.TypeDown}}
		}
	case !srcCore && dstCore:
		verif.Cover("noncore-to-core")
		if (sameISD && dstWild) || (haveSingle && dst == single) {
			want = Requests{{Src: src, Dst: dst, SegType: seg.TypeUp}}
		} else {
			want = Requests{{Src: src, Dst: vWild(1), SegType: seg.TypeUp}, {Src: vWild(1), Dst: dst, SegType: seg.TypeCore}}
		}
	case srcCore && !dstCore:
		verif.Cover("core-to-noncore")
		if haveSingle && src == single {
			want = Requests{{Src: src, Dst: dst, SegType: seg.TypeDown}}
		} else {
			want = Requests{{Src: src, Dst: vWild(disd), SegType: seg.TypeCore}, {Src: vWild(disd), Dst: dst, SegType: seg.TypeDown}}
		}
	default:
		verif.Cover("core-to-core")
		want = Requests{{Src: src, Dst: dst, SegType: seg.TypeCore}}
	}
	verif.Assert("number-of-requests", len(reqs) == len(want))
	for i := range want {
		verif.Assert("request-type", reqs[i].SegType == want[i].SegType)
		verif.Assert("request-src", reqs[i].Src == want[i].Src)
		verif.Assert("request-dst", reqs[i].Dst == want[i].Dst)
		verif.Observe("req", int(reqs[i].SegType), uint64(reqs[i].Src), uint64(reqs[i].Dst))
	}
}

// VerifC30SplitTwin must fail: a lookup is not always answered with a single request.
func VerifC30SplitTwin() {
	asMask := uint64(1)<<48 - 1
	src := addr.IA(1)<<48 | addr.IA(verif.NondetU64("src.as")&asMask)
	dst := addr.IA(1)<<48 | addr.IA(verif.NondetU64("dst.as")&asMask)
	verif.Assume(src.AS() != 0)
	verif.Assume(dst != src)
	c := addr.IA(1)<<48 | addr.IA(verif.NondetU64("core1.as")&asMask)
	verif.Assume(c.AS() != 0)
	verif.Assume(c != src)
	s := &MultiSegmentSplitter{LocalIA: src, Core: false,
		Inspector: &vInspector{cores: map[addr.ISD][]addr.IA{1: {c}}}}
	reqs, err := s.Split(context.Background(), dst)
	verif.Assume(err == nil)
	verif.Assert("twin", len(reqs) == 1)
}

// ---- (b) path lookup --------------------------------------------------------------------------------

func vIsCoreAS(ia addr.IA) bool {
	for _, c := range combinator.VerifCoreASes(ia.ISD()) {
		if c == ia {
			return true
		}
	}
	return false
}

func vPather(shape int, nrev int) (p *Pather, dst addr.IA, rc *vRevCache, res *vResolver) {
	src, dst, ups, cores, downs := combinator.VerifShape(shape)
	var all Segments
	for _, s := range ups {
		all = append(all, &seg.Meta{Segment: s, Type: seg.TypeUp})
	}
	for _, s := range cores {
		all = append(all, &seg.Meta{Segment: s, Type: seg.TypeCore})
	}
	for _, s := range downs {
		all = append(all, &seg.Meta{Segment: s, Type: seg.TypeDown})
	}
	rc = &vRevCache{}
	for k := 0; k < nrev; k++ {
		rc.revs = append(rc.revs, vRev{
			ia:     addr.IA(verif.NondetU64("rev.ia")),
			id:     iface.ID(verif.NondetU16("rev.id")),
			active: verif.NondetBool("rev.active"),
		})
	}
	res = &vResolver{all: all}
	truth := map[addr.ISD][]addr.IA{1: combinator.VerifCoreASes(1), 2: combinator.VerifCoreASes(2)}
	p = &Pather{
		IA:         src,
		MTU:        verif.NondetU16("local.mtu"),
		NextHopper: vNextHopper{},
		RevCache:   rc,
		Fetcher:    &Fetcher{Resolver: res},
		Splitter:   &MultiSegmentSplitter{LocalIA: src, Core: vIsCoreAS(src), Inspector: &vInspector{cores: truth}},
	}
	return p, dst, rc, res
}

// VerifC30Paths: lookup from the shape's source to (kind 0) the shape's destination AS or (kind 1)
// the wildcard of the destination's ISD.
func VerifC30Paths() {
	shape := verif.Param("shape")
	kind := verif.Param("kind")
	nrev := verif.Param("nrev")
	p, dst, rc, _ := vPather(shape, nrev)
	if kind == 1 {
		dst = vWild(dst.ISD())
	}
	t0 := verif.Now()
	paths, err := p.GetPaths(context.Background(), dst, false)
	verif.Observe("lookup", err == nil, len(paths))
	verif.Cover("lookup-done")
	if len(paths) == 0 {
		verif.Cover("no-path-left")
	}
	var sumMTU, sumIfs uint64
	var sumExp int64
	for _, sp := range paths {
		verif.Cover("path-returned")
		md := sp.Metadata()
		ifs := md.Interfaces
		verif.Assert("path-has-interfaces", len(ifs) >= 2)
		verif.Assert("starts-at-local-as", sp.Source() == p.IA && ifs[0].IA == p.IA)
		if kind == 0 {
			verif.Assert("ends-at-destination", sp.Destination() == dst && ifs[len(ifs)-1].IA == dst)
		} else {
			d := sp.Destination()
			verif.Assert("ends-at-core-of-requested-isd",
				d.ISD() == dst.ISD() && vIsCoreAS(d) && ifs[len(ifs)-1].IA == d)
		}
		verif.Assert("not-expired", md.Expiry.After(t0))
		for _, it := range ifs {
			for _, r := range rc.revs {
				hit := vBit(r.active) & vBit(r.ia == it.IA) & vBit(r.id == it.ID)
				verif.Assert("no-actively-revoked-interface", hit == 0)
			}
		}
		verif.Assert("has-dataplane-path", sp.Dataplane() != nil)
		verif.Assert("has-next-hop", sp.UnderlayNextHop() != nil)
		sumMTU += uint64(md.MTU)
		sumIfs += uint64(len(ifs))
		sumExp += md.Expiry.Unix()
	}
	verif.Observe("sums", sumMTU, sumIfs, sumExp)
}

func vBit(b bool) uint8 {
	var r uint8
	if b {
		r = 1
	}
	return r
}

// VerifC30Local: a lookup for the local AS yields exactly one empty path.
func VerifC30Local() {
	p, _, _, res := vPather(0, 0)
	t0 := verif.Now()
	paths, err := p.GetPaths(context.Background(), p.IA, verif.NondetBool("refresh"))
	verif.Observe("local", err == nil, len(paths))
	verif.Assert("local-lookup-succeeds", err == nil)
	verif.Assert("exactly-one-path", len(paths) == 1)
	sp := paths[0]
	verif.Cover("local-path")
	verif.Assert("empty-path", sp.Dataplane() == nil && len(sp.Metadata().Interfaces) == 0)
	verif.Assert("local-endpoints", sp.Source() == p.IA && sp.Destination() == p.IA)
	verif.Assert("local-not-expired", sp.Metadata().Expiry.After(t0))
	verif.Assert("local-mtu", sp.Metadata().MTU == p.MTU)
	verif.Assert("no-segment-requests", len(res.seen) == 0)
}

// VerifC30PathsTwin must fail: a returned path does not always outlive now + 1 h.
func VerifC30PathsTwin() {
	p, dst, _, _ := vPather(0, 0)
	t0 := verif.Now()
	paths, err := p.GetPaths(context.Background(), dst, false)
	verif.Assume(err == nil && len(paths) == 1)
	verif.Assert("twin", paths[0].Metadata().Expiry.After(t0.Add(time.Hour)))
}

var _ snet.Path
