//go:build verif || !verif

package memrevcache

// C31 — the revocation cache keeps the newest live revocation per interface (DESIGN 7/C31).
//
// The real memRevCache on top of the real (interpreted) zcache. Clock: one symbolic instant per cache
// operation (verifClockFreeze: all clock readings inside one operation return the same instant — the
// "controlled clock" of the property), non-decreasing from operation to operation.
//
// Reference oracle (from the property text): per interface the cache remembers at most one revocation;
// a revocation is unexpired at instant t iff t < timestamp+TTL; Insert accepts iff the new revocation is
// unexpired and (nothing unexpired is remembered or its timestamp is newer than the remembered one's);
// Get returns the remembered revocation iff it is unexpired. The instant t == timestamp+TTL exactly is
// outside the claim (the text does not say on which side it falls) and assumed away.

import (
	"context"

	cache "zgo.at/zcache/v2"

	"github.com/scionproto/scion/pkg/addr"
	"github.com/scionproto/scion/pkg/private/ctrl/path_mgmt"
	"github.com/scionproto/scion/pkg/segment/iface"
	"github.com/scionproto/scion/private/revcache"
	"github.com/scionproto/scion/zz_verif/verif"
)

// clock control: intrinsics under the engine (engine/natives_state1.go); natively the clock values
// come from the case table through verif.Now(), which already yields equal readings inside an operation.
func verifClockFreeze(on bool) {}
func verifClockTick()          {}

func vAnd(a, b bool) bool { return a && b }
func vOr(a, b bool) bool  { return a || b }

const vIA = addr.IA(1<<48 | 0xff0000000110)

// vInstant is a clock reading split into whole seconds and the nanosecond remainder.
type vInstant struct {
	s int64
	n int
}

func vNow() vInstant {
	verifClockTick()
	t := verif.Now()
	verif.Observe("now", t.Unix(), t.Nanosecond())
	return vInstant{s: t.Unix(), n: t.Nanosecond()}
}

// vRef is the oracle's memory for one interface.
type vRef struct {
	present bool
	rev     *path_mgmt.RevInfo
	ts      uint32
	exp     int64 // timestamp + TTL, in seconds
}

func vExp(r *path_mgmt.RevInfo) int64 { return int64(r.RawTimestamp) + int64(r.RawTTL) }

// unexpired at t: t < exp (exp is a whole number of seconds).
func (m *vRef) liveAt(t vInstant) bool { return vAnd(m.present, t.s < m.exp) }

// vOffBoundary: t is not exactly the expiry instant of a revocation expiring at exp.
func vOffBoundary(exp int64, t vInstant) {
	on := vAnd(t.s == exp, t.n == 0)
	verif.Assume(!on)
}

func vRev(tag string, ifID uint64) *path_mgmt.RevInfo {
	return &path_mgmt.RevInfo{
		IfID:         iface.ID(ifID),
		RawIsdas:     vIA,
		RawTimestamp: verif.NondetU32(tag + ".ts"),
		RawTTL:       verif.NondetU32(tag + ".ttl"),
	}
}

// vLookup checks one Get against the oracle at instant t (the clock has been read for this operation).
func vLookup(clause string, c *memRevCache, ifID uint64, m *vRef, t vInstant) {
	if m.present {
		vOffBoundary(m.exp, t)
	}
	got, err := c.Get(context.Background(), revcache.NewKey(vIA, iface.ID(ifID)))
	verif.Observe("get", ifID, got == nil, err == nil)
	verif.Assert(clause+"-no-error", err == nil)
	if m.liveAt(t) {
		verif.Cover("lookup-returns-live")
		verif.Assert(clause+"-returns-the-unexpired-revocation", got == m.rev)
	} else {
		verif.Assert(clause+"-returns-nothing-when-none-is-unexpired", got == nil)
		if m.present {
			verif.Cover("lookup-hides-expired")
		}
	}
}

// vArbitrary builds an arbitrary cache state over the two interfaces 1 and 2: each one absent or holding
// a revocation with arbitrary timestamp and TTL (possibly expired and not yet cleaned up). The stored
// expiry is the revocation's own expiry — the representation invariant, re-established by every Insert
// (clause "insert-stores-the-revocations-own-expiry").
func vArbitrary() (*memRevCache, [3]vRef) {
	var ref [3]vRef
	items := map[revcache.Key]cache.Item[*path_mgmt.RevInfo]{}
	for id := uint64(1); id <= 2; id++ {
		if verif.Choose("present", 2) == 1 {
			r := vRev("stored", id)
			// a stored revocation was unexpired when it was inserted, i.e. it expires after 1970-01-01
			verif.Assume(vExp(r) > 0)
			ref[id] = vRef{present: true, rev: r, ts: r.RawTimestamp, exp: vExp(r)}
			items[revcache.NewKey(vIA, iface.ID(id))] = cache.Item[*path_mgmt.RevInfo]{Object: r, Expiration: vExp(r) * 1000000000}
		}
	}
	c := &memRevCache{c: cache.NewFrom[revcache.Key, *path_mgmt.RevInfo](cache.NoExpiration, 0, items)}
	return c, ref
}

// vInsert performs one Insert at a fresh instant and checks acceptance against the oracle; it updates the
// oracle and returns the instant.
func vInsert(c *memRevCache, ref *[3]vRef, tag string, ifs int) vInstant {
	id := uint64(verif.Choose("insert-if", ifs) + 1)
	rev := vRev(tag, id)
	t := vNow()
	m := &ref[id]
	vOffBoundary(vExp(rev), t)
	if m.present {
		vOffBoundary(m.exp, t)
	}
	ok, err := c.Insert(context.Background(), rev)
	verif.Observe("insert", id, ok, err == nil)
	verif.Assert("insert-no-error", err == nil)
	unexpired := t.s < vExp(rev)
	newer := vOr(!m.liveAt(t), rev.RawTimestamp > m.ts)
	want := vAnd(unexpired, newer)
	verif.Assert("insert-accepted-iff-unexpired-and-newer-than-live-stored", ok == want)
	if ok {
		verif.Cover("insert-accepted")
		if m.liveAt(t) {
			verif.Cover("insert-replaces-live-older")
		}
		*m = vRef{present: true, rev: rev, ts: rev.RawTimestamp, exp: vExp(rev)}
		// representation invariant of the underlying cache entry
		it, found := c.c.Items()[revcache.NewKey(vIA, iface.ID(id))]
		verif.Assert("insert-stores-the-revocations-own-expiry", vAnd(found, it.Expiration == m.exp*1000000000))
	} else {
		if !unexpired {
			verif.Cover("insert-rejects-expired")
		} else {
			verif.Cover("insert-rejects-older-than-live")
		}
	}
	return t
}

// VerifC31Step: arbitrary state, one operation (Insert / Get / DeleteExpired) at an arbitrary instant,
// then lookups of both interfaces at the same instant and again at an arbitrary later instant.
func VerifC31Step() {
	verifClockFreeze(true)
	c, ref := vArbitrary()
	var t vInstant
	switch verif.Choose("op", 3) {
	case 0:
		// the two interfaces are interchangeable in an arbitrary state: insert for interface 1, 2 is the bystander
		t = vInsert(c, &ref, "new", 1)
	case 1:
		t = vNow()
	case 2:
		t = vNow()
		for id := 1; id <= 2; id++ {
			if ref[id].present {
				vOffBoundary(ref[id].exp, t)
			}
		}
		n, err := c.DeleteExpired(context.Background())
		verif.Observe("cleanup", n, err == nil)
		verif.Cover("cleanup")
		verif.Assert("cleanup-no-error", err == nil)
	}
	// same instant (the clock is not ticked: readings repeat t)
	vLookupSame(c, &ref, t)
	// any later instant
	t2 := vNow()
	vLookup("later-lookup", c, 1, &ref[1], t2)
	vLookup("later-lookup", c, 2, &ref[2], t2)
}

func vLookupSame(c *memRevCache, ref *[3]vRef, t vInstant) {
	vLookup("lookup", c, 1, &ref[1], t)
	vLookup("lookup", c, 2, &ref[2], t)
}

// VerifC31Seq: histories from the empty cache: `ops` operations, each Insert / Get+Get / DeleteExpired,
// at non-decreasing instants.
func VerifC31Seq() {
	verifClockFreeze(true)
	c := New()
	var ref [3]vRef
	k := verif.Param("ops")
	for i := 0; i < k; i++ {
		var t vInstant
		switch verif.Choose("op", 3) {
		case 0:
			t = vInsert(c, &ref, "rev", 2)
		case 1:
			t = vNow()
		case 2:
			t = vNow()
			for id := 1; id <= 2; id++ {
				if ref[id].present {
					vOffBoundary(ref[id].exp, t)
				}
			}
			_, err := c.DeleteExpired(context.Background())
			verif.Assert("cleanup-no-error", err == nil)
		}
		vLookupSame(c, &ref, t)
	}
}

// VerifC31Twin is the reachability twin: an accepted revocation can be looked up.
func VerifC31Twin() {
	verifClockFreeze(true)
	c := New()
	rev := vRev("rev", 1)
	ok, _ := c.Insert(context.Background(), rev)
	got, _ := c.Get(context.Background(), revcache.NewKey(vIA, 1))
	verif.Assert("twin", vOr(!ok, got == nil))
}

// VerifC31FreeClockTwin documents why the one-instant-per-operation clock is assumed: with a clock that
// advances between the clock readings INSIDE Insert (time.Until reads it, zcache's SetWithExpire reads it
// again and stores now2 + (expiry - now1) > expiry) a lookup shortly after the expiry still returns the
// revocation. The window is the time Insert takes between its two clock readings. Must be violated.
func VerifC31FreeClockTwin() {
	c := New()
	rev := vRev("rev", 1)
	ok, _ := c.Insert(context.Background(), rev)
	verif.Assume(ok)
	t := verif.Now()
	expired := t.Unix() >= vExp(rev) // expired at t, hence at the (later) instant the lookup reads
	got, _ := c.Get(context.Background(), revcache.NewKey(vIA, 1))
	verif.Observe("free", got == nil)
	verif.Assert("twin-free-clock-never-returns-expired", vOr(!expired, got == nil))
}
