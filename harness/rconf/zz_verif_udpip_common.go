//go:build verif || !verif

package udpip

import (
	"net/netip"

	"github.com/scionproto/scion/private/underlay/conn"
	"github.com/scionproto/scion/router"
)

// Shared by the C11 / C15 / C17 harnesses of package udpip.
//
// No socket is ever opened: the provider's connection opener (the ConnOpener seam that uo{} /
// conn.New normally fills) is replaced by vRecOpener, which records the *conn.Config it is handed
// and returns an inert connection object.

// vNullConn is the connection object handed back by the recording opener; never used for I/O.
type vNullConn struct{}

func (vNullConn) ReadBatch(conn.Messages) (int, error)       { return 0, nil }
func (vNullConn) WriteBatch(conn.Messages, int) (int, error) { return 0, nil }
func (vNullConn) Close() error                               { return nil }

type vOpenRec struct {
	local  netip.AddrPort
	remote netip.AddrPort
	cfg    conn.Config
}

// vRecOpener implements ConnOpener.
type vRecOpener struct {
	reuse bool
	opens []vOpenRec
}

func (o *vRecOpener) Open(l netip.AddrPort, r netip.AddrPort, c *conn.Config) (router.BatchConn, error) {
	o.opens = append(o.opens, vOpenRec{local: l, remote: r, cfg: *c})
	return vNullConn{}, nil
}

func (o *vRecOpener) UDPCanReuseLocal() bool { return o.reuse }

// vAltProvider is a second registration name of the same udpip provider. The data plane
// instantiates "udpip" eagerly (makeDataPlane); links whose Provider is another registered name make
// AddExternalInterface / AddNextHop instantiate the provider themselves (two more call sites of the
// provider factory).
const vAltProvider = "udpip-verif-alt"

// vInstall registers the real newProvider behind a pass-through wrapper that only swaps the
// connection opener of the provider it returns.
func vInstall(op *vRecOpener) {
	_ = errResolveOnSiblingLink // make sure this package's own init (AddUnderlay("udpip", newProvider)) ran first
	wrap := func(batchSize, receiveBufferSize, sendBufferSize int) router.UnderlayProvider {
		p := newProvider(batchSize, receiveBufferSize, sendBufferSize)
		p.SetConnOpener(op)
		return p
	}
	router.AddUnderlay("udpip", wrap)
	router.AddUnderlay(vAltProvider, wrap)
}

func vUninstall() {
	router.AddUnderlay("udpip", newProvider)
}
