//go:build verif || !verif

package signed

// C38 — signed control-plane messages verify only when untouched.
//
// Real code: Sign, Verify, computeSignatureInput, checkPubKeyAlgo, extractHeaderAndBody,
// associatedDataLen, the algorithm table.
// Stubs: protobuf Marshal/Unmarshal (injective flattening with exact inverse, zz_verif/c38pb),
// SHA-2 (uninterpreted, collision-free), ECDSA (ideal: a signature verifies iff it is the recorded
// output of the signing oracle for the same key and digest).

import (
	"bytes"
	"crypto"
	"crypto/ecdsa"
	"hash"
	"io"
	"time"

	cryptopb "github.com/scionproto/scion/pkg/proto/crypto"
	c38ecdsa "github.com/scionproto/scion/zz_verif/c38ecdsa"
	"github.com/scionproto/scion/zz_verif/verif"
)

// ---- SHA-2 as uninterpreted functions ------------------------------------------------------

type c38Hash struct {
	name string
	size int
	buf  []byte
}

func (h *c38Hash) Write(p []byte) (int, error) { h.buf = append(h.buf, p...); return len(p), nil }
func (h *c38Hash) Sum(b []byte) []byte         { return append(b, verif.UF(h.name, h.size, h.buf)...) }
func (h *c38Hash) Reset()                      { h.buf = nil }
func (h *c38Hash) Size() int                   { return h.size }
func (h *c38Hash) BlockSize() int              { return 64 }

func verifHashAvailable(h crypto.Hash) bool {
	return h == crypto.SHA256 || h == crypto.SHA384 || h == crypto.SHA512
}

func verifHashNew(h crypto.Hash) hash.Hash {
	switch h {
	case crypto.SHA256:
		return &c38Hash{name: "c38sha256", size: 32}
	case crypto.SHA384:
		return &c38Hash{name: "c38sha384", size: 48}
	case crypto.SHA512:
		return &c38Hash{name: "c38sha512", size: 64}
	}
	panic("verif: unexpected hash")
}

// ---- ideal signatures ---------------------------------------------------------------------

type c38Key struct {
	ecdsa bool
	pub   *ecdsa.PublicKey
	id    []byte // key material (symbolic); two key objects are the same key iff the ids are equal
}

type c38Other struct{} // a public key type that is not ECDSA

type c38Query struct {
	keyID  []byte
	digest []byte
	sig    []byte
}

type c38Env struct {
	keys    []*c38Key
	queries []c38Query
}

type c38Signer struct {
	env *c38Env
	key *c38Key
}

func (s c38Signer) Public() crypto.PublicKey {
	if !s.key.ecdsa {
		return c38Other{}
	}
	return s.key.pub
}

// Sign is the signing oracle: the signature is an arbitrary value, recorded with key and digest.
func (s c38Signer) Sign(_ io.Reader, digest []byte, _ crypto.SignerOpts) ([]byte, error) {
	sig := verif.NondetBytes("sig", 8)
	d := append([]byte(nil), digest...)
	s.env.queries = append(s.env.queries, c38Query{keyID: s.key.id, digest: d, sig: sig})
	return sig, nil
}

func c38Setup() *c38Env {
	e := &c38Env{}
	verif.AssumeInjective("c38sha256", 0)
	verif.AssumeInjective("c38sha384", 0)
	verif.AssumeInjective("c38sha512", 0)
	c38ecdsa.VerifHook = func(pub *ecdsa.PublicKey, digest, sig []byte) bool {
		var k *c38Key
		for _, c := range e.keys {
			if c.pub == pub {
				k = c
			}
		}
		if k == nil {
			panic("verif: unknown key object")
		}
		ok := false
		for _, q := range e.queries {
			kEq := bytes.Equal(q.keyID, k.id)
			dEq := bytes.Equal(q.digest, digest)
			sEq := bytes.Equal(q.sig, sig)
			hit := kEq && dEq && sEq
			ok = ok || hit
		}
		return ok
	}
	return e
}

func (e *c38Env) newKey(name string) *c38Key {
	k := &c38Key{ecdsa: verif.NondetBool(name + ".is-ecdsa"), pub: &ecdsa.PublicKey{}, id: verif.NondetBytes(name+".id", 2)}
	e.keys = append(e.keys, k)
	return k
}

func c38Concat(parts [][]byte) []byte {
	var out []byte
	for _, p := range parts {
		out = append(out, p...)
	}
	return out
}

// c38Header: algoMax bounds the algorithm identifiers explored (-1..algoMax; 1..3 are the defined
// ones); ts: 0 = no timestamp, 1 = timestamp present, 2 = either.
func c38Header(nk, nm, algoMax, ts int) Header {
	hdr := Header{
		SignatureAlgorithm:   SignatureAlgorithm(verif.NondetInt("hdr.algo", -1, algoMax)),
		VerificationKeyID:    verif.NondetBytes("hdr.keyid", nk),
		Metadata:             verif.NondetBytes("hdr.meta", nm),
		AssociatedDataLength: int(int64(verif.NondetU64("hdr.adlen"))),
	}
	if ts == 1 || (ts == 2 && verif.NondetBool("hdr.has-ts")) {
		sec, nsec := verif.NondetU32("hdr.ts.sec"), verif.NondetU32("hdr.ts.nsec")
		verif.Assume(nsec < 1000000000)
		hdr.Timestamp = time.Unix(int64(sec), int64(nsec))
	}
	return hdr
}

// VerifC38Tamper: sign once, then let the verifier see an arbitrary blob, signature, associated
// data list and key of the parameterised lengths.
func VerifC38Tamper() {
	nb, nm, nk := verif.Param("body"), verif.Param("meta"), verif.Param("keyid")
	a0, a1, b0, b1 := verif.Param("a0"), verif.Param("a1"), verif.Param("b0"), verif.Param("b1")
	d := verif.Param("dlen")
	e := c38Setup()
	hdr := c38Header(nk, nm, verif.Param("algomax"), verif.Param("ts"))
	body := verif.NondetBytes("body", nb)
	ad := [][]byte{verif.NondetBytes("ad0", a0), verif.NondetBytes("ad1", a1)}
	skey := e.newKey("signer")

	signedMsg, err := Sign(hdr, body, c38Signer{e, skey}, ad...)
	algoKnown := hdr.SignatureAlgorithm == ECDSAWithSHA256 || hdr.SignatureAlgorithm == ECDSAWithSHA384 ||
		hdr.SignatureAlgorithm == ECDSAWithSHA512
	lenOK := hdr.AssociatedDataLength == a0+a1
	wantSign := algoKnown && lenOK && skey.ecdsa
	verif.Assert("sign-succeeds-iff-algorithm-key-and-length-consistent", (err == nil) == wantSign)
	verif.Observe("sign", err == nil)
	if err != nil {
		return
	}
	verif.Cover("signed")
	verif.Assert("exactly-one-signing-query", len(e.queries) == 1)
	L := len(signedMsg.HeaderAndBody)
	if L+d < 0 {
		return
	}

	// what the verifier sees: the signed blob truncated / extended by |dlen| bytes (so that bytes can
	// move between the end of the blob and the associated data), then one byte position (any; the
	// choice is enumerated) replaced by an arbitrary value
	var hb2 []byte
	if d <= 0 {
		hb2 = append(hb2, signedMsg.HeaderAndBody[:L+d]...)
	} else {
		hb2 = append(hb2, signedMsg.HeaderAndBody...)
		hb2 = append(hb2, verif.NondetBytes("seen.blob-ext", d)...)
	}
	if verif.Param("mutate") != 0 {
		if pos := verif.Choose("seen.blob-mutated-at", len(hb2)+1); pos < len(hb2) {
			hb2[pos] = verif.NondetU8("seen.blob-byte")
		}
	}
	sig2 := verif.NondetBytes("seen.sig", len(signedMsg.Signature))
	ad2 := [][]byte{verif.NondetBytes("seen.ad0", b0), verif.NondetBytes("seen.ad1", b1)}
	vkey := e.newKey("verifier")
	var pub crypto.PublicKey = vkey.pub
	if !vkey.ecdsa {
		pub = c38Other{}
	}

	msg, verr := Verify(&cryptopb.SignedMessage{HeaderAndBody: hb2, Signature: sig2}, pub, ad2...)
	verif.Observe("verify", verr == nil)

	blobEq := bytes.Equal(hb2, signedMsg.HeaderAndBody)
	sigEq := bytes.Equal(sig2, signedMsg.Signature)
	adEq := bytes.Equal(c38Concat(ad2), c38Concat(ad)) // the *concatenation* is what is covered
	keyEq := bytes.Equal(vkey.id, skey.id)
	same := blobEq && sigEq && adEq && keyEq && vkey.ecdsa
	verif.Assert("any-change-makes-verification-fail", verr != nil || same)
	verif.Assert("untouched-message-verifies", !same || verr == nil)
	if verr != nil {
		verif.Cover("rejected")
		return
	}
	verif.Cover("verified")
	h := msg.Header
	verif.Assert("returns-the-signed-header-algorithm", h.SignatureAlgorithm == hdr.SignatureAlgorithm)
	verif.Assert("returns-the-signed-header-keyid", bytes.Equal(h.VerificationKeyID, hdr.VerificationKeyID))
	verif.Assert("returns-the-signed-header-metadata", bytes.Equal(h.Metadata, hdr.Metadata))
	verif.Assert("returns-the-signed-header-adlen", h.AssociatedDataLength == hdr.AssociatedDataLength)
	verif.Assert("returns-the-signed-header-timestamp-presence", h.Timestamp.IsZero() == hdr.Timestamp.IsZero())
	verif.Assert("returns-the-signed-header-timestamp", h.Timestamp.Equal(hdr.Timestamp))
	verif.Assert("returns-the-signed-body", bytes.Equal(msg.Body, body))
	verif.Observe("body", msg.Body, h.Metadata, h.VerificationKeyID, int(h.SignatureAlgorithm))
}

// VerifC38Twin is the reachability twin: verification of an untouched message succeeds.
func VerifC38Twin() {
	e := c38Setup()
	hdr := c38Header(1, 1, 5, 2)
	body := verif.NondetBytes("body", 2)
	ad := [][]byte{verif.NondetBytes("ad0", 1)}
	skey := e.newKey("signer")
	signedMsg, err := Sign(hdr, body, c38Signer{e, skey}, ad...)
	verif.Assume(err == nil)
	_, verr := Verify(signedMsg, skey.pub, ad...)
	verif.Assert("twin", verr != nil)
}
