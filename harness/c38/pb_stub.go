// Package proto replaces google.golang.org/protobuf/proto in pkg/scrypto/signed/msg.go for check C38
// (import swapped by the spec's src_rewrite, identically for the interpreter and for native runs).
//
// Contract: Marshal is an injective, deterministic encoder of the two messages used by the signed
// package (crypto.v1.Header, crypto.v1.HeaderAndBody) and Unmarshal is its exact inverse on its
// range and fails outside of it. The protobuf wire format itself is NOT what is checked.
//
// Layout (a flattening, not protobuf):
//
//	Header:        algo(4, BE) | len(keyid)(1) keyid | hasTS(1) [secs(8) nanos(4)] | len(meta)(1) meta | adlen(4, BE)
//	HeaderAndBody: len(header)(1) header | body (rest)
//
// The body is the tail of HeaderAndBody, as in the canonical protobuf field order, so that moving bytes
// between the end of the signed blob and the associated data is a meaningful attack on the glue code.
package proto

import (
	"encoding/binary"
	"errors"

	cryptopb "github.com/scionproto/scion/pkg/proto/crypto"
	"google.golang.org/protobuf/types/known/timestamppb"
)

var errMalformed = errors.New("verif pb stub: malformed")
var errTooLong = errors.New("verif pb stub: field longer than 255 bytes")

func Marshal(m any) ([]byte, error) {
	switch v := m.(type) {
	case *cryptopb.Header:
		if len(v.VerificationKeyId) > 255 || len(v.Metadata) > 255 {
			return nil, errTooLong
		}
		var b []byte
		b = binary.BigEndian.AppendUint32(b, uint32(v.SignatureAlgorithm))
		b = append(b, byte(len(v.VerificationKeyId)))
		b = append(b, v.VerificationKeyId...)
		if v.Timestamp != nil {
			b = append(b, 1)
			b = binary.BigEndian.AppendUint64(b, uint64(v.Timestamp.Seconds))
			b = binary.BigEndian.AppendUint32(b, uint32(v.Timestamp.Nanos))
		} else {
			b = append(b, 0)
		}
		b = append(b, byte(len(v.Metadata)))
		b = append(b, v.Metadata...)
		b = binary.BigEndian.AppendUint32(b, uint32(v.AssociatedDataLength))
		return b, nil
	case *cryptopb.HeaderAndBody:
		if len(v.Header) > 255 {
			return nil, errTooLong
		}
		var b []byte
		b = append(b, byte(len(v.Header)))
		b = append(b, v.Header...)
		b = append(b, v.Body...)
		return b, nil
	}
	panic("verif pb stub: unexpected message type")
}

func Unmarshal(b []byte, m any) error {
	switch v := m.(type) {
	case *cryptopb.Header:
		if len(b) < 5 {
			return errMalformed
		}
		v.SignatureAlgorithm = cryptopb.SignatureAlgorithm(binary.BigEndian.Uint32(b))
		b = b[4:]
		n := int(b[0])
		b = b[1:]
		if n > len(b) {
			return errMalformed
		}
		v.VerificationKeyId = b[:n:n]
		b = b[n:]
		if len(b) < 1 {
			return errMalformed
		}
		hasTS := b[0]
		b = b[1:]
		if hasTS > 1 {
			return errMalformed
		}
		if hasTS == 1 {
			if len(b) < 12 {
				return errMalformed
			}
			v.Timestamp = &timestamppb.Timestamp{
				Seconds: int64(binary.BigEndian.Uint64(b)),
				Nanos:   int32(binary.BigEndian.Uint32(b[8:])),
			}
			b = b[12:]
		}
		if len(b) < 1 {
			return errMalformed
		}
		n = int(b[0])
		b = b[1:]
		if n > len(b) {
			return errMalformed
		}
		v.Metadata = b[:n:n]
		b = b[n:]
		if len(b) != 4 {
			return errMalformed
		}
		v.AssociatedDataLength = int32(binary.BigEndian.Uint32(b))
		return nil
	case *cryptopb.HeaderAndBody:
		if len(b) < 1 {
			return errMalformed
		}
		n := int(b[0])
		b = b[1:]
		if n > len(b) {
			return errMalformed
		}
		v.Header = b[:n:n]
		v.Body = b[n:]
		return nil
	}
	panic("verif pb stub: unexpected message type")
}
