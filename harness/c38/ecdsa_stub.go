// Package ecdsa replaces crypto/ecdsa in pkg/scrypto/signed/msg.go for check C38 (import swapped by
// the spec's src_rewrite). PublicKey is the real type; VerifyASN1 is the ideal signature scheme
// supplied by the harness (existential unforgeability as equality with a recorded signing query).
package ecdsa

import (
	realecdsa "crypto/ecdsa"
)

type PublicKey = realecdsa.PublicKey

// VerifHook is set by the harness.
var VerifHook func(pub *PublicKey, digest, sig []byte) bool

func VerifyASN1(pub *PublicKey, digest, sig []byte) bool {
	return VerifHook(pub, digest, sig)
}
