//go:build verif || !verif

package router

// Accessors for the C11 harness in package udpip (the data plane's fields are unexported).

// VerifInternalLink returns the link the data plane uses for delivery inside the local AS.
func VerifInternalLink(c *Connector) Link { return c.DataPlane.interfaces[0] }
