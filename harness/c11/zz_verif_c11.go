//go:build verif || !verif

package udpip

import (
	"net"
	"net/netip"

	"github.com/scionproto/scion/pkg/addr"
	"github.com/scionproto/scion/private/env"
	"github.com/scionproto/scion/router"
	"github.com/scionproto/scion/router/config"
	"github.com/scionproto/scion/zz_verif/verif"
)

// C11: "The router in the destination AS sends a packet for an IP host to the layer-4 port derived
// from the packet [...] if that port lies in the AS's configured dispatched-port range, and to the
// default end-host port 30041 otherwise. Packets for a service address go to the address and port of
// a registered instance of that service. The configured range (from the topology, possibly
// overridden by the router configuration) is honoured whatever the order in which the router is
// configured."
//
// Reference (doc/dev/design/router-port-dispatch.rst, "Processing rules"): range [min,max]
// inclusive; "-" = empty range (encoded (0,0) by topology.validatePortRange); "all" = 1-65535;
// underlay port = L4 port if inside the range, else 30041.

const vEndhostPort = 30041 // written out on purpose: the documented constant, not topology.EndhostPort

// vRangeOK: (start,end) is a value that topology.validatePortRange can produce.
func vRangeOK(start, end uint16) bool {
	return (start == 0 && end == 0) || (start >= 1 && start <= end)
}

// vHostAddr makes the destination host address: v6 = 0: IPv4 from 4 symbolic bytes, 1: IPv6 from 16.
func vHostAddr(v6 bool) (netip.Addr, []byte) {
	if v6 {
		b := verif.NondetBytes("ip6", 16)
		var a [16]byte
		copy(a[:], b)
		return netip.AddrFrom16(a), b
	}
	b := verif.NondetBytes("ip4", 4)
	var a [4]byte
	copy(a[:], b)
	return netip.AddrFrom4(a), b
}

func vBytesEq(a, b []byte) bool {
	if len(a) != len(b) {
		return false
	}
	d := byte(0)
	for i := range a {
		d |= a[i] ^ b[i]
	}
	return d == 0
}

func vIs4In6(b []byte) bool {
	if len(b) != 16 {
		return false
	}
	z := byte(0)
	for i := 0; i < 10; i++ {
		z |= b[i]
	}
	return z == 0 && b[10] == 0xff && b[11] == 0xff
}

func vAllZero(b []byte) bool {
	z := byte(0)
	for i := range b {
		z |= b[i]
	}
	return z == 0
}

// vResolveIP runs the real Resolve of link lk on an IP destination and judges the underlay
// destination left in the packet against the oracle for the range (start,end).
func vResolveIP(tag string, lk router.Link, start, end uint16, v6 bool) {
	port := verif.NondetU16("port")
	ip, raw := vHostAddr(v6)
	// outside the statement: v4-mapped-v6 and unspecified destinations are refused by the router
	verif.Assume(!vIs4In6(raw) && !vAllZero(raw))
	// "-" is the empty range although it is stored as (0,0); port 0 is never a deliverable L4 port
	verif.Assume(port != 0)

	pkt := &router.Packet{}
	err := lk.Resolve(pkt, addr.HostIP(ip), port)
	verif.Observe(tag+"-err", err == nil)
	verif.Assert(tag+"-ip-destination-resolves", err == nil && pkt.RemoteAddr != nil)
	if err != nil || pkt.RemoteAddr == nil {
		return
	}
	ua := (*net.UDPAddr)(pkt.RemoteAddr)
	inRange := start <= port && port <= end
	if inRange {
		verif.Cover(tag + "-port-in-range")
	} else {
		verif.Cover(tag + "-port-outside-range")
	}
	verif.Observe(tag+"-dst", ua.Port, []byte(ua.IP))
	verif.Assert(tag+"-underlay-address-is-destination-host", vBytesEq([]byte(ua.IP), raw) && ua.Zone == "")
	verif.Assert(tag+"-port-in-range-kept", !inRange || ua.Port == int(port))
	verif.Assert(tag+"-port-outside-range-goes-to-30041", inRange || ua.Port == vEndhostPort)
}

// vProviderWithInternal creates a provider whose dispatch ports are set through the provider API
// before the internal link is created.
func vProviderWithInternal(start, end uint16) (*provider, router.Link) {
	p := newProvider(8, 0, 0).(*provider)
	p.SetConnOpener(&vRecOpener{reuse: true})
	p.SetDispatchPorts(start, end, vEndhostPort)
	var m router.InterfaceMetrics
	lk, err := p.NewInternalLink("10.0.0.1:30042", 8, &m)
	if err != nil {
		verif.Unreachable("setup-internal")
	}
	return p, lk
}

// VerifC11ResolveIP: the underlay half. Range, port and host address are free.
func VerifC11ResolveIP() {
	start, end := verif.NondetU16("start"), verif.NondetU16("end")
	verif.Assume(vRangeOK(start, end))
	_, lk := vProviderWithInternal(start, end)
	il := lk.(*internalLink)
	verif.Assert("provider-range-reaches-internal-link",
		il.dispatchStart == start && il.dispatchEnd == end && il.dispatchRedirect == vEndhostPort)
	vResolveIP("resolve", lk, start, end, verif.Param("v6") == 1)
}

// VerifC11ResolveSVC: service destinations go to a registered instance.
func VerifC11ResolveSVC() {
	start, end := verif.NondetU16("start"), verif.NondetU16("end")
	verif.Assume(vRangeOK(start, end))
	p, lk := vProviderWithInternal(start, end)

	// two registered instances of the control service, one of the discovery service
	n := verif.Param("instances")
	var ips [3][]byte
	var ports [3]uint16
	svcs := [3]addr.SVC{addr.SvcCS, addr.SvcCS, addr.SvcDS}
	for i := 0; i < 3; i++ {
		ips[i] = verif.NondetBytes("inst-ip", 4)
		ports[i] = verif.NondetU16("inst-port")
		if i >= n && i < 2 {
			continue
		}
		var a [4]byte
		copy(a[:], ips[i])
		if err := p.AddSvc(svcs[i], addr.HostIP(netip.AddrFrom4(a)), ports[i]); err != nil {
			verif.Unreachable("setup-addsvc")
		}
	}
	if n == 2 {
		// distinct instances (AddSvc de-duplicates equal ones)
		verif.Assume(!vBytesEq(ips[0], ips[1]) || ports[0] != ports[1])
	}

	dst := addr.SVC(verif.NondetU16("svc"))
	sport := verif.NondetU16("port") // the port argument is irrelevant for services
	pkt := &router.Packet{}
	err := lk.Resolve(pkt, addr.HostSVC(dst), sport)
	verif.Observe("svc-err", err == nil)
	base := dst &^ addr.SVCMcast
	if base != addr.SvcCS {
		// DS (one instance) or an unregistered service: not the subject here
		verif.Cover("svc-other")
		return
	}
	verif.Cover("svc-registered")
	verif.Assert("registered-service-resolves", err == nil && pkt.RemoteAddr != nil)
	if err != nil || pkt.RemoteAddr == nil {
		return
	}
	ua := (*net.UDPAddr)(pkt.RemoteAddr)
	is0 := vBytesEq([]byte(ua.IP), ips[0])
	is1 := n == 2 && vBytesEq([]byte(ua.IP), ips[1])
	verif.Assert("service-goes-to-address-of-a-registered-instance", is0 || is1)
	// The statement says "address and port of a registered instance"; the port-dispatch design
	// applies the range to every underlay port. Instances listening outside the dispatched range
	// are therefore left out of the claim (ambiguous), instances inside must keep their port.
	// (The assumption covers all registered instances, not just the picked one: the pick is random
	// natively and must not steer the replay.)
	p0in := start <= ports[0] && ports[0] <= end
	p1in := n < 2 || (start <= ports[1] && ports[1] <= end)
	ok0 := is0 && ua.Port == int(ports[0])
	ok1 := is1 && ua.Port == int(ports[1])
	verif.Assume(p0in && p1in)
	verif.Cover("svc-port-judged")
	verif.Assert("service-goes-to-port-of-that-instance", ok0 || ok1)
	// which instance is picked is random natively: not observed
}

// ---- the configured range reaches the internal link, whatever the order -----------------------

func vPtr(v int) *int { return &v }

// VerifC11Config: router.NewConnector + CreateIACtx + AddInternalInterface + SetPortRange through
// the public API.
//
//	order    = 0: SetPortRange after AddInternalInterface (what control.ConfigDataplane does)
//	           1: SetPortRange before AddInternalInterface
//	override = 0: range from the topology only; 1: RouterConfig.DispatchedPortStart/End set
func VerifC11Config() {
	tStart, tEnd := verif.NondetU16("topo-start"), verif.NondetU16("topo-end")
	verif.Assume(vRangeOK(tStart, tEnd))
	start, end := tStart, tEnd
	cfg := config.RouterConfig{BatchSize: 8, BFD: config.BFD{Disable: true}}
	if verif.Param("override") == 1 {
		oStart, oEnd := verif.NondetU16("cfg-start"), verif.NondetU16("cfg-end")
		verif.Assume(vRangeOK(oStart, oEnd))
		cfg.DispatchedPortStart, cfg.DispatchedPortEnd = vPtr(int(oStart)), vPtr(int(oEnd))
		start, end = oStart, oEnd
	}
	op := &vRecOpener{reuse: true}
	vInstall(op)
	defer vUninstall()

	c := router.NewConnector(cfg, env.Features{})
	ia := addr.MustIAFrom(1, 0xff0000000110)
	if err := c.CreateIACtx(ia); err != nil {
		verif.Unreachable("setup-create-ia")
	}
	host := addr.HostIP(netip.MustParseAddr("10.0.0.1"))
	if verif.Param("order") == 1 {
		c.SetPortRange(tStart, tEnd)
	}
	if err := c.AddInternalInterface(ia, host, "udpip", "10.0.0.1:30042"); err != nil {
		verif.Unreachable("setup-internal")
	}
	if verif.Param("order") == 0 {
		c.SetPortRange(tStart, tEnd)
	}
	verif.Cover("configured")

	lk := router.VerifInternalLink(c)
	il := lk.(*internalLink)
	verif.Observe("link-range", il.dispatchStart, il.dispatchEnd, il.dispatchRedirect)
	// behaviour first: a packet for an IP host, port free
	vResolveIP("configured", lk, start, end, false)
	// then the state the property's anchors name (internalLink.dispatchStart/End)
	verif.Assert("configured-range-reaches-internal-link", il.dispatchStart == start && il.dispatchEnd == end)
	verif.Assert("default-port-30041-reaches-internal-link", il.dispatchRedirect == vEndhostPort)
}

// VerifC11Vacuity is the reachability twin: must be violated.
func VerifC11Vacuity() {
	start, end := verif.NondetU16("start"), verif.NondetU16("end")
	verif.Assume(vRangeOK(start, end))
	_, lk := vProviderWithInternal(start, end)
	port := verif.NondetU16("port")
	pkt := &router.Packet{}
	err := lk.Resolve(pkt, addr.HostIP(netip.MustParseAddr("10.0.0.9")), port)
	verif.Assume(err == nil)
	ua := (*net.UDPAddr)(pkt.RemoteAddr)
	verif.Assert("twin", ua.Port != 4242)
}
