//go:build verif || !verif

package udpip

import "github.com/scionproto/scion/router"

// Entry points of the router-package half of C11 (entries must live in the test package).

func VerifC11PortL4()        { router.VerifC11PortL4() }
func VerifC11PortSCMPInfo()  { router.VerifC11PortSCMPInfo() }
func VerifC11PortSCMPError() { router.VerifC11PortSCMPError() }
func VerifC11PortVacuity()   { router.VerifC11PortVacuity() }
func VerifC11StepExt()       { router.VerifC11StepExt() }
