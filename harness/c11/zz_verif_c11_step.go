//go:build verif || !verif

package router

import (
	"github.com/scionproto/scion/pkg/addr"
	"github.com/scionproto/scion/zz_verif/verif"
)

// VerifC11StepExt: the whole fast path (real processPkt, router-step harness) on a packet for a
// local IP host that carries one hop-by-hop or end-to-end extension header in front of UDP: the
// port handed to the internal link is the UDP destination port (the SCION destination port of
// the property), and the host is the SCION destination host.
func VerifC11StepExt() {
	u := vrStep()
	if !u.localDelivery() {
		return
	}
	if u.r.internal.resHost.Type() != addr.HostTypeIP {
		return // service destinations are resolved by the link, without a port (other C11 clauses)
	}
	verif.Cover("delivered-with-extension")
	c := u.c
	l4 := c.hdrLen + 8
	want := be16(u.orig, l4+2)
	verif.Assert("port-behind-extension-header-is-udp-destination-port", u.r.internal.resPort == want)
	ip := u.r.internal.resHost.IP().As4()
	same := true
	for k := 0; k < 4; k++ {
		same = same && ip[k] == u.orig[28+k]
	}
	verif.Assert("host-behind-extension-header-is-scion-destination", same)
}
