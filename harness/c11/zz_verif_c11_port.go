//go:build verif || !verif

package router

import (
	"github.com/scionproto/scion/pkg/addr"
	"github.com/scionproto/scion/pkg/slayers"
	"github.com/scionproto/scion/router/bfd"
	"github.com/scionproto/scion/zz_verif/verif"
)

// C11, first half: which (host, port) the router hands to the internal link for a packet that is
// delivered in the local AS: the real dataPlane.resolveLocalDst / dstScionPort / getDstPortSCMP on
// symbolic layer-4 bytes. (What the link makes of that pair is judged in package udpip.)
//
// Reference (doc/dev/design/router-port-dispatch.rst, processing rule 1):
//   UDP, TCP                      destination port   = bytes 2..3 of the L4 header
//   SCMP echo / traceroute reply  identifier         = bytes 4..5 of the SCMP message
//   SCMP echo / traceroute request                    default end-host port 30041
//   SCMP error                    quoted packet: UDP source port (bytes 0..1 of the quoted L4
//                                 header), or identifier of the quoted echo/traceroute request

const vC11EndhostPort = 30041

// vC11RecLink records what Resolve is asked for.
type vC11RecLink struct {
	host  addr.Host
	port  uint16
	calls int
}

func (l *vC11RecLink) IsUp() bool                 { return true }
func (l *vC11RecLink) IfID() uint16               { return 0 }
func (l *vC11RecLink) Metrics() *InterfaceMetrics { return nil }
func (l *vC11RecLink) Scope() LinkScope           { return Internal }
func (l *vC11RecLink) BFDSession() *bfd.Session   { return nil }
func (l *vC11RecLink) Resolve(p *Packet, host addr.Host, port uint16) error {
	l.host, l.port = host, port
	l.calls++
	return nil
}
func (l *vC11RecLink) Send(p *Packet) bool     { return true }
func (l *vC11RecLink) SendBlocking(p *Packet) {}

func vC11BE16(b []byte) uint16 { return uint16(b[0])<<8 | uint16(b[1]) }

// vC11Deliver runs resolveLocalDst for a packet to IPv4 host dst whose bytes after the SCION
// header (and extensions) are l4, with next-header value proto.
func vC11Deliver(proto slayers.L4ProtocolType, dst []byte, l4 []byte) (*vC11RecLink, error) {
	s := slayers.SCION{NextHdr: proto, DstAddrType: slayers.T4Ip, RawDstAddr: dst}
	s.Payload = l4
	lk := &vC11RecLink{}
	d := &dataPlane{}
	d.interfaces[0] = lk
	pkt := &Packet{}
	err := d.resolveLocalDst(pkt, s, &s)
	return lk, err
}

func vC11Judge(lk *vC11RecLink, err error, dst []byte, want uint16) {
	verif.Observe("handed", err == nil, lk.calls, lk.port)
	verif.Assert("well-formed-packet-is-handed-to-the-internal-link", err == nil && lk.calls == 1)
	if err != nil || lk.calls != 1 {
		return
	}
	verif.Assert("port-handed-to-link-is-the-port-derived-from-the-packet", lk.port == want)
	ip := lk.host.IP().As4()
	verif.Assert("host-handed-to-link-is-the-destination-host",
		lk.host.Type() == addr.HostTypeIP && ip[0] == dst[0] && ip[1] == dst[1] && ip[2] == dst[2] && ip[3] == dst[3])
}

// VerifC11PortL4: UDP (l4=17) and TCP (l4=6) with a complete header and len-8/len-20 further bytes.
func VerifC11PortL4() {
	proto := slayers.L4ProtocolType(verif.Param("l4"))
	n := verif.Param("len")
	dst := verif.NondetBytes("dst", 4)
	l4 := verif.NondetBytes("l4", n)
	lk, err := vC11Deliver(proto, dst, l4)
	verif.Cover("l4-delivered")
	vC11Judge(lk, err, dst, vC11BE16(l4[2:4]))
}

// VerifC11PortSCMPInfo: SCMP informational messages; type, code, checksum, identifier and all other
// bytes free, the type restricted to the four echo/traceroute types the statement names.
func VerifC11PortSCMPInfo() {
	n := verif.Param("len") // 8: echo; 24: traceroute
	dst := verif.NondetBytes("dst", 4)
	m := verif.NondetBytes("scmp", n)
	typ := m[0]
	if n >= 24 {
		verif.Assume(typ >= 128 && typ <= 131)
	} else {
		// a traceroute message needs 24 bytes; shorter ones are malformed (outside the statement)
		verif.Assume(typ == 128 || typ == 129)
	}
	lk, err := vC11Deliver(slayers.L4SCMP, dst, m)
	want := uint16(vC11EndhostPort)
	if typ == 129 || typ == 131 {
		verif.Cover("scmp-reply")
		want = vC11BE16(m[4:6])
	} else {
		verif.Cover("scmp-request")
	}
	vC11Judge(lk, err, dst, want)
}

// VerifC11PortSCMPError: SCMP DestinationUnreachable (type 1) quoting a SCION packet with an empty
// path and IPv4 host addresses that carries UDP (quote=17) or an SCMP echo request (quote=202).
// The bytes that steer parsing of the quoted packet are fixed (layout class); addresses, ports,
// identifiers, flow id, traffic class, code and checksums are free.
func VerifC11PortSCMPError() {
	quoteProto := verif.Param("quote")
	dst := verif.NondetBytes("dst", 4)
	const scionHdr = 12 + 24 // common header + address header (2 IAs, 2 IPv4 hosts), empty path
	l4len := 8
	m := verif.NondetBytes("scmp", 4+4+scionHdr+l4len)
	verif.Assume(m[0] == 1) // DestinationUnreachable
	q := m[8:]
	// quoted common header: version 0, next header, header length in 4-byte units, payload length,
	// path type 0 (empty), DT/DL/ST/SL = 0 (IPv4 hosts), reserved 0
	verif.Assume(q[0]>>4 == 0)
	verif.Assume(q[4] == byte(quoteProto))
	verif.Assume(q[5] == scionHdr/4)
	verif.Assume(q[6] == 0 && q[7] == byte(l4len))
	verif.Assume(q[8] == 0 && q[9] == 0 && q[10] == 0 && q[11] == 0)
	ql4 := q[scionHdr:]
	want := uint16(0)
	if quoteProto == 17 {
		want = vC11BE16(ql4[0:2]) // quoted UDP source port
		// the router treats source port 0 as a truncated quote and drops the message
		verif.Assume(want != 0)
		verif.Cover("scmp-error-quoting-udp")
	} else {
		verif.Assume(ql4[0] == 128) // quoted echo request
		want = vC11BE16(ql4[4:6])
		verif.Cover("scmp-error-quoting-echo-request")
	}
	lk, err := vC11Deliver(slayers.L4SCMP, dst, m)
	vC11Judge(lk, err, dst, want)
}

// VerifC11PortVacuity is the reachability twin: must be violated.
func VerifC11PortVacuity() {
	dst := verif.NondetBytes("dst", 4)
	l4 := verif.NondetBytes("l4", 8)
	lk, err := vC11Deliver(slayers.L4UDP, dst, l4)
	verif.Assume(err == nil)
	verif.Assert("twin", lk.port != 4242)
}
