//go:build verif || !verif

package dispatcher

import (
	"github.com/scionproto/scion/zz_verif/verif"
)

// SCMP type numbers (doc/protocols/scmp.rst).
const (
	c44DestUnreach = 1
	c44PktTooBig   = 2
	c44ParamProb   = 4
	c44ExtIfDown   = 5
	c44IntConnDown = 6
	c44EchoReq     = 128
	c44EchoRep     = 129
	c44TrReq       = 130
	c44TrRep       = 131
)

// c44ErrHdrLen: length of the type-specific block between the 4-byte SCMP header and the quote.
func c44ErrHdrLen(t int) int {
	switch t {
	case c44ExtIfDown:
		return 16
	case c44IntConnDown:
		return 24
	}
	return 4
}

func c44IsIPKind(k int) bool { return k == c44HostIPv4 || k == c44HostIPv6 }

// ---- reference: reversed path and expected reply -------------------------------------------------

func c44InfOf(hf int, seg [3]int) int {
	if hf < seg[0] {
		return 0
	}
	if hf < seg[0]+seg[1] {
		return 1
	}
	return 2
}

// c44RefReversedSCION writes the reversal of the SCION path p (shape seg) into exp/mask and reports
// whether the path pointers are well-formed (CurrHF inside the path, CurrINF the segment of CurrHF).
// Reserved bits are not compared (mask 0).
func c44RefReversedSCION(p []byte, seg [3]int, exp, mask []byte) (wf bool) {
	numINF, total := 0, seg[0]+seg[1]+seg[2]
	for _, s := range seg {
		if s > 0 {
			numINF++
		}
	}
	currINF, currHF := p[0]>>6, p[0]&0x3f
	wf = currHF < byte(total)
	for hf := 0; hf < total; hf++ {
		wf = wf && (currHF != byte(hf) || currINF == byte(c44InfOf(hf, seg)))
	}
	exp[0] = (byte(numINF-1)-currINF)<<6 | (byte(total-1)-currHF)&0x3f
	var rs [3]int
	for k := 0; k < numINF; k++ {
		rs[k] = seg[numINF-1-k]
	}
	line := uint32(rs[0])<<12 | uint32(rs[1])<<6 | uint32(rs[2])
	exp[1], exp[2], exp[3] = byte(line>>16), byte(line>>8), byte(line)
	mask[0], mask[1], mask[2], mask[3] = 0xff, 0xff, 0xff, 0xff
	for i := 0; i < numINF; i++ {
		src := p[4+8*(numINF-1-i):]
		o := 4 + 8*i
		exp[o] = src[0] ^ 1 // ConsDir flipped, Peer kept
		mask[o] = 0x03
		for k := 2; k < 8; k++ { // SegID, Timestamp
			exp[o+k], mask[o+k] = src[k], 0xff
		}
	}
	for i := 0; i < total; i++ {
		src := p[4+8*numINF+12*(total-1-i):]
		o := 4 + 8*numINF + 12*i
		exp[o], mask[o] = src[0], 0x03 // router alert flags travel with their hop field
		for k := 1; k < 12; k++ {
			exp[o+k], mask[o+k] = src[k], 0xff
		}
	}
	return wf
}

// c44RefReply builds the expected answer to the echo/traceroute request `in` (layout l, no
// extension headers): same first word, NextHdr SCMP, addresses swapped, path reversed (a one-hop
// or EPIC path is answered over the corresponding plain SCION path), SCMP type = reply type,
// code 0, everything after the SCMP header unchanged. mask selects the bits that are compared;
// wf is false where the statement does not define the answer (inconsistent path pointers,
// IPv4-mapped IPv6 host addresses, unassigned address types, incomplete one-hop path).
func c44RefReply(in []byte, l c44Layout, replyType byte) (exp, mask []byte, wf bool) {
	var rpt, rlen int
	switch l.pathType {
	case c44PathEmpty:
		rpt, rlen = c44PathEmpty, 0
	case c44PathSCION:
		rpt, rlen = c44PathSCION, l.pathLen
	case c44PathOneHop:
		rpt, rlen = c44PathSCION, 4+8+24
	case c44PathEPIC:
		rpt, rlen = c44PathSCION, l.pathLen-16
	}
	l4 := in[l.l4Off:]
	hdr := c44CmnLen + 16 + l.dstLen + l.srcLen + rlen
	n := hdr + len(l4)
	exp, mask = make([]byte, n), make([]byte, n)
	wf = l.dstKind != c44HostUnk8 && l.srcKind != c44HostUnk8 &&
		!c44Mapped(in[l.dstOff:l.dstOff+l.dstLen]) && !c44Mapped(in[l.srcOff:l.srcOff+l.srcLen])
	set := func(i int, v byte) { exp[i], mask[i] = v, 0xff }
	for i := 0; i < 4; i++ {
		set(i, in[i])
	}
	set(4, c44L4SCMP)
	set(5, byte(hdr/4))
	set(6, byte(len(l4)>>8))
	set(7, byte(len(l4)))
	set(8, byte(rpt))
	if l.pathType == c44PathOneHop || l.pathType == c44PathEPIC {
		mask[8] = 0 // has its own clause (answer-path-type-matches-reversed-path)
	}
	dn, _ := c44HostNibble(l.dstKind)
	sn, _ := c44HostNibble(l.srcKind)
	set(9, sn<<4|dn)
	for i := 0; i < 8; i++ {
		set(12+i, in[20+i]) // DstIA' = SrcIA
		set(20+i, in[12+i]) // SrcIA' = DstIA
	}
	for i := 0; i < l.srcLen; i++ {
		set(28+i, in[l.srcOff+i])
	}
	for i := 0; i < l.dstLen; i++ {
		set(28+l.srcLen+i, in[l.dstOff+i])
	}
	// a service address is a 16-bit number in a 4-byte field; the padding is not compared
	if l.srcKind == c44HostSVC {
		mask[28+2], mask[28+3] = 0, 0
	}
	if l.dstKind == c44HostSVC {
		mask[28+l.srcLen+2], mask[28+l.srcLen+3] = 0, 0
	}
	po := 28 + l.srcLen + l.dstLen
	switch l.pathType {
	case c44PathSCION:
		wf = c44RefReversedSCION(in[l.pathOff:l.pathOff+l.pathLen], l.seg, exp[po:po+rlen], mask[po:po+rlen]) && wf
	case c44PathEPIC:
		wf = c44RefReversedSCION(in[l.pathOff+16:l.pathOff+l.pathLen], l.seg, exp[po:po+rlen], mask[po:po+rlen]) && wf
	case c44PathOneHop:
		// info(8) hop1(12) hop2(12), travelled to its end, as a SCION path of one segment with
		// two hops in construction direction; reversed: against construction direction, at hop 0.
		p := in[l.pathOff : l.pathOff+l.pathLen]
		wf = wf && (p[8+12+2] != 0 || p[8+12+3] != 0) // second hop filled in (ConsIngress != 0)
		e, m := exp[po:po+rlen], mask[po:po+rlen]
		e[0], e[1], e[2], e[3] = 0, 0, 2<<4, 0
		m[0], m[1], m[2], m[3] = 0xff, 0xff, 0xff, 0xff
		e[4], m[4] = 0, 0x03 // ConsDir cleared, not a peering segment
		for k := 2; k < 8; k++ {
			e[4+k], m[4+k] = p[k], 0xff
		}
		for h := 0; h < 2; h++ {
			src := p[8+12*(1-h):]
			o := 12 + 12*h
			e[o], m[o] = src[0], 0x03
			for k := 1; k < 12; k++ {
				e[o+k], m[o+k] = src[k], 0xff
			}
		}
	}
	set(hdr, replyType)
	set(hdr+1, 0)
	// checksum (hdr+2, hdr+3): see VerifC44InfoRequest, clause reply-checksum-valid
	for i := 4; i < len(l4); i++ {
		set(hdr+i, l4[i])
	}
	return exp, mask, wf
}

// c44RefChecksumOK: the SCMP checksum of pkt verifies (scion-header.rst "Pseudo Header for
// Upper-Layer Checksum": DstIA, SrcIA, DstHost, SrcHost, upper-layer length (32 bit), 3 zero
// bytes, next header; 16-bit one's complement sum over it and the upper-layer bytes is 0xffff).
// addrEnd = end of the address header, l4 = offset of the SCMP header.
func c44RefChecksumOK(pkt []byte, addrEnd, l4 int) bool {
	if l4 < addrEnd || l4 > len(pkt) || addrEnd > len(pkt) {
		return false
	}
	var sum uint32
	for i := 12; i+1 < addrEnd; i += 2 {
		sum += uint32(pkt[i])<<8 | uint32(pkt[i+1])
	}
	ulen := len(pkt) - l4
	sum += uint32(ulen>>16) + uint32(ulen&0xffff) + c44L4SCMP
	for i := l4; i < len(pkt); i += 2 {
		w := uint32(pkt[i]) << 8
		if i+1 < len(pkt) {
			w |= uint32(pkt[i+1])
		}
		sum += w
	}
	sum = sum&0xffff + sum>>16
	sum = sum&0xffff + sum>>16
	return sum == 0xffff
}

func c44EqMasked(got, exp, mask []byte) bool {
	if len(got) != len(exp) {
		return false
	}
	ok := true
	for i := range exp {
		ok = ok && (got[i]^exp[i])&mask[i] == 0
	}
	return ok
}

// ---- echo / traceroute requests ------------------------------------------------------------------

// VerifC44InfoRequest: echo and traceroute requests are answered only towards the previous hop,
// with addresses swapped and the path reversed — with the dispatcher function on or off, whatever
// the SCION destination and the outer destination are.
func VerifC44InfoRequest() {
	e := c44DrawEnv()
	seg := c44Seg()
	dk, sk, pt := verif.Param("dst"), verif.Param("src"), verif.Param("path")
	kind, pay := verif.Param("kind"), verif.Param("pay")
	_, dl := c44HostNibble(dk)
	_, sl := c44HostNibble(sk)
	body := 4 + pay // identifier, sequence number, data
	reqT, repT := byte(c44EchoReq), byte(c44EchoRep)
	if kind == 1 {
		body = 4 + 16 + pay // identifier, sequence number, ISD-AS, interface
		reqT, repT = c44TrReq, c44TrRep
	}
	ext := verif.Param("ext")
	n := c44CmnLen + 16 + dl + sl + c44PathLen(pt, seg) + c44ExtLen(ext) + 4 + body
	buf := verif.NondetBytes("pkt", n)
	l := c44SCIONHdrExt(buf, dk, sk, pt, seg, ext, c44L4SCMP)
	buf[l.l4Off] = reqT
	in := append([]byte(nil), buf...)
	srv := c44Server(e.isDisp, nil)

	out, got, err := srv.processMsgNextHop(buf, e.underlay, e.prevHop)

	verif.Observe("inforeq", err == nil, got.IsValid(), got.Port(), out)
	verif.Assert("no-unrecoverable-error", err == nil)
	if !got.IsValid() {
		verif.Cover("request-dropped")
		return
	}
	verif.Cover("request-answered")
	verif.Assert("request-answered-only-towards-previous-hop", got == e.prevHop)
	verif.Assert("answer-is-a-new-buffer", !c44Alias(out, buf) && len(out) > 0)
	exp, mask, wf := c44RefReply(in, l, repT)
	if ext&2 != 0 {
		// With an end-to-end extension in the request the statement does not say what follows the
		// SCION header of the answer (the code re-serialises the extension, see notes/C44.md): only
		// the SCION header (addresses swapped, path reversed) is compared.
		hdr := len(exp) - (len(in) - l.l4Off)
		if len(out) < hdr {
			// only possible where the answer is not defined (IPv4-mapped host addresses are
			// shortened to IPv4 by the code)
			verif.Assert("answer-not-shorter-than-its-header", !wf)
			return
		}
		exp, mask, out = exp[:hdr], mask[:hdr], out[:hdr]
		mask[4], mask[6], mask[7] = 0, 0, 0
	}
	verif.Assert("answer-has-addresses-swapped-and-path-reversed", !wf || c44EqMasked(out, exp, mask))
	if ext&2 == 0 && verif.Param("cksum") == 1 {
		// expensive for the solver (two differently ordered one's complement sums): only run
		// for the instances that set cksum=1
		verif.Assert("answer-scmp-checksum-valid",
			c44RefChecksumOK(out, 28+l.srcLen+l.dstLen, len(out)-(len(in)-l.l4Off)))
	}
	if pt == c44PathOneHop || pt == c44PathEPIC {
		// the reversed path is a plain SCION path; the type field of the answer must say so
		verif.Assert("answer-path-type-matches-reversed-path", !wf || (len(out) > 8 && out[8] == c44PathSCION))
	}
}

// VerifC44InfoRequestVacuity must fail: requests are answered.
func VerifC44InfoRequestVacuity() {
	e := c44DrawEnv()
	seg := c44Seg()
	pt := verif.Param("path")
	buf := verif.NondetBytes("pkt", c44CmnLen+16+8+c44PathLen(pt, seg)+4+4)
	l := c44SCIONHdr(buf, c44HostIPv4, c44HostIPv4, pt, seg, c44L4SCMP)
	buf[l.l4Off] = c44EchoReq
	srv := c44Server(e.isDisp, nil)
	_, got, _ := srv.processMsgNextHop(buf, e.underlay, e.prevHop)
	verif.Assert("twin", !got.IsValid())
}

// ---- echo / traceroute replies -------------------------------------------------------------------

// VerifC44InfoReply: echo and traceroute replies are handed on only to (SCION destination host,
// Identifier) and only if that host is the outer IP destination.
func VerifC44InfoReply() {
	e := c44DrawEnv()
	seg := c44Seg()
	dk, sk, pt := verif.Param("dst"), verif.Param("src"), verif.Param("path")
	kind, pay := verif.Param("kind"), verif.Param("pay")
	_, dl := c44HostNibble(dk)
	_, sl := c44HostNibble(sk)
	body, t := 4+pay, byte(c44EchoRep)
	if kind == 1 {
		body, t = 4+16+pay, c44TrRep
	}
	ext := verif.Param("ext")
	n := c44CmnLen + 16 + dl + sl + c44PathLen(pt, seg) + c44ExtLen(ext) + 4 + body
	buf := verif.NondetBytes("pkt", n)
	l := c44SCIONHdrExt(buf, dk, sk, pt, seg, ext, c44L4SCMP)
	buf[l.l4Off] = t
	in := append([]byte(nil), buf...)
	srv := c44Server(e.isDisp, nil)

	out, got, err := srv.processMsgNextHop(buf, e.underlay, e.prevHop)

	verif.Observe("inforep", err == nil, got.IsValid(), got.Port(), out)
	verif.Assert("no-unrecoverable-error", err == nil)
	verif.Assert("input-not-modified", c44EqBytes(buf, in))
	if !got.IsValid() {
		verif.Cover("reply-dropped")
		return
	}
	verif.Cover("reply-forwarded")
	verif.Assert("scmp-forwarded-only-to-a-host-address", dk != c44HostUnk8)
	id := uint16(in[l.l4Off+4])<<8 | uint16(in[l.l4Off+5])
	c44Forwarded(e, buf, out, got, in[l.dstOff:l.dstOff+l.dstLen], id)
}

// ---- SCMP errors with a quoted packet ------------------------------------------------------------

// quoted L4 kinds
const (
	c44QUDP       = 0 // SCION/UDP                     -> quoted source port
	c44QEchoReq   = 1 // SCMP echo request             -> quoted identifier
	c44QTrReq     = 2 // SCMP traceroute request       -> quoted identifier
	c44QEchoRep   = 3 // SCMP echo reply (not something this host sent as a request)
	c44QError     = 4 // SCMP error (error about an error)
	c44QOtherL4   = 5 // unknown L4 protocol
	c44QTruncUDP  = 6 // quote cut inside the UDP header
	c44QTruncSCMP = 7 // quote cut inside the echo request
	c44QNoQuote   = 8 // no quoted packet at all
)

// VerifC44Error: an SCMP error is handed on only to (SCION destination host, source port or
// identifier of the quoted packet) and only if that host is the outer IP destination; errors from
// which no such port can be derived are dropped.
func VerifC44Error() {
	e := c44DrawEnv()
	seg := c44Seg()
	dk, sk, pt := verif.Param("dst"), verif.Param("src"), verif.Param("path")
	et, qk, qpay := verif.Param("etype"), verif.Param("quote"), verif.Param("qpay")
	qdk, qsk, qpt := verif.Param("qdst"), verif.Param("qsrc"), verif.Param("qpath")
	qseg := [3]int{verif.Param("q0"), 0, 0}
	_, dl := c44HostNibble(dk)
	_, sl := c44HostNibble(sk)
	_, qdl := c44HostNibble(qdk)
	_, qsl := c44HostNibble(qsk)
	ql4 := 0
	switch qk {
	case c44QUDP:
		ql4 = 8 + qpay
	case c44QEchoReq, c44QEchoRep:
		ql4 = 4 + 4 + qpay
	case c44QTrReq:
		ql4 = 4 + 20
	case c44QError:
		ql4 = 4 + 4 + qpay
	case c44QOtherL4:
		ql4 = 8 + qpay
	case c44QTruncUDP:
		ql4 = 6
	case c44QTruncSCMP:
		ql4 = 6
	}
	qlen := c44CmnLen + 16 + qdl + qsl + c44PathLen(qpt, qseg) + ql4
	if qk == c44QNoQuote {
		qlen = 0
	}
	ext, qext := verif.Param("ext"), verif.Param("qext")
	if qk != c44QNoQuote {
		qlen += c44ExtLen(qext)
	}
	n := c44CmnLen + 16 + dl + sl + c44PathLen(pt, seg) + c44ExtLen(ext) + 4 + c44ErrHdrLen(et) + qlen
	buf := verif.NondetBytes("pkt", n)
	l := c44SCIONHdrExt(buf, dk, sk, pt, seg, ext, c44L4SCMP)
	buf[l.l4Off] = byte(et)
	qo := l.l4Off + 4 + c44ErrHdrLen(et)
	var ql c44Layout
	if qk != c44QNoQuote {
		q := buf[qo:]
		next := byte(c44L4SCMP)
		switch qk {
		case c44QUDP, c44QTruncUDP:
			next = c44L4UDP
		case c44QOtherL4:
			next = 6 // TCP: not a SCION L4 this host stack knows
		}
		ql = c44SCIONHdrExt(q, qdk, qsk, qpt, qseg, qext, next)
		switch qk {
		case c44QUDP:
			q[ql.l4Off+4], q[ql.l4Off+5] = byte(ql4>>8), byte(ql4)
		case c44QEchoReq, c44QTruncSCMP:
			q[ql.l4Off] = c44EchoReq
		case c44QTrReq:
			q[ql.l4Off] = c44TrReq
		case c44QEchoRep:
			q[ql.l4Off] = c44EchoRep
		case c44QError:
			q[ql.l4Off] = c44DestUnreach
		}
	}
	in := append([]byte(nil), buf...)
	srv := c44Server(e.isDisp, nil)

	out, got, err := srv.processMsgNextHop(buf, e.underlay, e.prevHop)

	verif.Observe("error", err == nil, got.IsValid(), got.Port(), out)
	verif.Assert("no-unrecoverable-error", err == nil)
	verif.Assert("input-not-modified", c44EqBytes(buf, in))
	if !got.IsValid() {
		verif.Cover("error-dropped")
		return
	}
	verif.Cover("error-forwarded")
	verif.Assert("scmp-forwarded-only-to-a-host-address", dk != c44HostUnk8)
	verif.Assert("error-without-derivable-port-dropped",
		qk == c44QUDP || qk == c44QEchoReq || qk == c44QTrReq || qk == c44QEchoRep)
	var port uint16
	switch qk {
	case c44QUDP:
		port = uint16(in[qo+ql.l4Off])<<8 | uint16(in[qo+ql.l4Off+1])
	default:
		port = uint16(in[qo+ql.l4Off+4])<<8 | uint16(in[qo+ql.l4Off+5])
	}
	c44Forwarded(e, buf, out, got, in[l.dstOff:l.dstOff+l.dstLen], port)
}

// ---- unstructured datagrams ----------------------------------------------------------------------

// VerifC44Raw: a datagram of `len` bytes, *all* of them symbolic (no layout fixed: arbitrary
// header length, address types, path type, truncation anywhere): no panic, no unrecoverable error,
// and the reflection safeguard in its layout-independent form — whatever is handed on unchanged
// goes to the outer IP destination and only with the dispatcher function on, whatever is answered
// goes to the previous hop.
func VerifC44Raw() {
	e := c44DrawEnv()
	n := verif.Param("len")
	buf := verif.NondetBytes("pkt", n)
	in := append([]byte(nil), buf...)
	srv := c44Server(e.isDisp, nil)

	out, got, err := srv.processMsgNextHop(buf, e.underlay, e.prevHop)

	verif.Observe("raw", err == nil, got.IsValid(), got.Port(), out)
	verif.Assert("no-unrecoverable-error", err == nil)
	if !got.IsValid() {
		verif.Cover("raw-dropped")
		return
	}
	if c44Alias(out, buf) {
		verif.Cover("raw-forwarded")
		verif.Assert("forward-only-with-dispatcher-function", e.isDisp)
		verif.Assert("input-not-modified", c44EqBytes(buf, in))
		verif.Assert("forward-only-if-host-equals-outer-destination",
			c44SameHost(got.Addr().AsSlice(), e.underlayRaw))
	} else {
		verif.Cover("raw-answered")
		verif.Assert("request-answered-only-towards-previous-hop", got == e.prevHop)
	}
}

// ---- everything else -----------------------------------------------------------------------------

// VerifC44Other: datagrams that are neither SCION/UDP nor one of the SCMP messages above are
// dropped. kind 0: SCMP with any other type; kind 1: any other L4 protocol number; kind 2: SCION
// header only (no L4 bytes at all).
func VerifC44Other() {
	e := c44DrawEnv()
	seg := c44Seg()
	dk, sk, pt := verif.Param("dst"), verif.Param("src"), verif.Param("path")
	kind, pay := verif.Param("kind"), verif.Param("pay")
	_, dl := c44HostNibble(dk)
	_, sl := c44HostNibble(sk)
	if kind == 2 {
		pay = 0
	}
	n := c44CmnLen + 16 + dl + sl + c44PathLen(pt, seg) + pay
	buf := verif.NondetBytes("pkt", n)
	next := byte(c44L4SCMP)
	if kind == 1 {
		next = verif.NondetU8("nexthdr")
		verif.Assume(next != c44L4UDP && next != c44L4SCMP && next != c44L4HBH && next != c44L4E2E)
	}
	l := c44SCIONHdr(buf, dk, sk, pt, seg, next)
	if kind == 0 {
		t := buf[l.l4Off]
		verif.Assume(t != c44DestUnreach && t != c44PktTooBig && t != c44ParamProb && t != c44ExtIfDown &&
			t != c44IntConnDown && t != c44EchoReq && t != c44EchoRep && t != c44TrReq && t != c44TrRep)
	}
	srv := c44Server(e.isDisp, nil)

	out, got, err := srv.processMsgNextHop(buf, e.underlay, e.prevHop)

	verif.Observe("other", err == nil, got.IsValid(), out)
	verif.Assert("no-unrecoverable-error", err == nil)
	verif.Assert("everything-else-dropped", c44Dropped(out, got))
	verif.Cover("other-dropped")
}
