#!/usr/bin/env python3
"""Generates checks/C44.json (the layout classes are too many to maintain by hand).

usage: python3 harness/c44/gen_spec.py [--registered] > checks/C44.json

Layout parameters (all concrete per instance, i.e. *bounds*):
  disp   dispatcher function on (1) / off (0)
  ufam   family of the outer IP destination: 0 IPv4, 1 IPv6 (incl. IPv4-mapped)
  pfam   family of the previous hop
  dst/src  SCION host address kind: 0 IPv4, 1 IPv6, 2 SVC, 3 unassigned type (8 bytes)
  path   0 empty, 1 SCION (s0,s1,s2 hops per segment), 2 one-hop, 3 EPIC (s0,s1,s2)
  pay    bytes of upper-layer data
"""
import json
import sys

Q, T = ["quick", "thorough"], ["thorough"]
entries = []


def add(func, tiers, must_fail=False, **params):
    e = {"func": func, "params": params, "tiers": tiers}
    if must_fail:
        e["must_fail"] = True
    entries.append(e)


def base(disp=1, ufam=0, pfam=0, dst=0, src=0, path=0, seg=(0, 0, 0)):
    return dict(disp=disp, ufam=ufam, pfam=pfam, dst=dst, src=src, path=path,
                s0=seg[0], s1=seg[1], s2=seg[2])


PATHS_Q = [(0, (0, 0, 0)), (1, (2, 0, 0))]
PATHS_T = PATHS_Q + [(1, (1, 2, 0)), (1, (2, 1, 2)), (2, (0, 0, 0)), (3, (2, 0, 0)), (3, (1, 1, 1))]

# ---- SCION/UDP
for disp in (1, 0):
    add("VerifC44UDP", Q, pay=4, **base(disp=disp))
add("VerifC44UDP", Q, pay=4, **base(ufam=1, dst=0))           # mapped outer destination
add("VerifC44UDP", Q, pay=4, **base(ufam=1, dst=1, src=1))
add("VerifC44UDP", Q, pay=4, **base(ufam=0, dst=1))
add("VerifC44UDP", Q, pay=0, **base(path=1, seg=(2, 0, 0)))
add("VerifC44UDP", Q, pay=4, **base(dst=3))                   # unassigned address type
for (p, seg) in PATHS_T:
    for (ufam, dst) in ((0, 0), (1, 0), (0, 1), (1, 1)):
        for src in (0, 1, 2):
            add("VerifC44UDP", T, pay=8, **base(ufam=ufam, dst=dst, src=src, path=p, seg=seg))
# ---- SCION/UDP to a service address
add("VerifC44UDPSVC", Q, svcs=1, sfam=0, **base())
add("VerifC44UDPSVC", Q, svcs=2, sfam=0, **base(ufam=1))
add("VerifC44UDPSVC", Q, svcs=0, sfam=0, **base())
add("VerifC44UDPSVC", Q, svcs=1, sfam=0, **base(disp=0))
for (p, seg) in PATHS_T:
    for (ufam, sfam) in ((0, 0), (1, 0), (0, 1), (1, 1)):
        add("VerifC44UDPSVC", T, svcs=2, sfam=sfam, **base(ufam=ufam, path=p, seg=seg))
add("VerifC44UDPVacuity", Q, must_fail=True, disp=1, ufam=0, pfam=0, path=0, s0=0, s1=0, s2=0)

# ---- echo / traceroute requests
for kind in (0, 1):
    add("VerifC44InfoRequest", Q, kind=kind, pay=2, **base(disp=1 - kind))
add("VerifC44InfoRequest", Q, kind=0, pay=2, **base(path=1, seg=(2, 0, 0)))
add("VerifC44InfoRequest", Q, kind=0, pay=0, **base(dst=1, src=0, pfam=1, path=1, seg=(1, 1, 0)))
add("VerifC44InfoRequest", T, kind=0, pay=0, **base(dst=1, src=1, pfam=1, path=1, seg=(1, 2, 0)))
add("VerifC44InfoRequest", Q, kind=1, pay=0, **base(dst=2, src=0, path=3, seg=(2, 0, 0)))
add("VerifC44InfoRequest", Q, kind=0, pay=0, **base(path=2))
add("VerifC44InfoRequest", Q, kind=0, pay=0, **base(src=3))
for (p, seg) in PATHS_T:
    for kind in (0, 1):
        for (dst, src) in ((0, 0), (1, 1), (0, 1), (2, 0), (0, 2)):
            add("VerifC44InfoRequest", T, kind=kind, pay=4,
                **base(disp=kind, dst=dst, src=src, pfam=dst & 1, path=p, seg=seg))
add("VerifC44InfoRequestVacuity", Q, must_fail=True, disp=1, ufam=0, pfam=0, path=0, s0=0, s1=0, s2=0)

# ---- echo / traceroute replies
for kind in (0, 1):
    add("VerifC44InfoReply", Q, kind=kind, pay=2, **base())
add("VerifC44InfoReply", Q, kind=0, pay=2, **base(disp=0))
add("VerifC44InfoReply", Q, kind=0, pay=0, **base(ufam=1, dst=1, src=1, path=1, seg=(2, 0, 0)))
add("VerifC44InfoReply", Q, kind=0, pay=0, **base(ufam=1, dst=0))
add("VerifC44InfoReply", Q, kind=1, pay=0, **base(dst=2))
add("VerifC44InfoReply", Q, kind=0, pay=0, **base(dst=3))
for (p, seg) in PATHS_T:
    for kind in (0, 1):
        for (ufam, dst) in ((0, 0), (1, 0), (0, 1), (1, 1), (0, 2)):
            add("VerifC44InfoReply", T, kind=kind, pay=4, **base(ufam=ufam, dst=dst, path=p, seg=seg))

# ---- SCMP errors with quote
def err(tiers, etype, quote, qpay=4, qdst=0, qsrc=0, qpath=0, q0=0, **kw):
    add("VerifC44Error", tiers, etype=etype, quote=quote, qpay=qpay, qdst=qdst, qsrc=qsrc,
        qpath=qpath, q0=q0, **base(**kw))


for quote in range(9):
    err(Q, 1, quote)
err(Q, 4, 0, disp=0)
err(Q, 5, 0, ufam=1, dst=1)
err(Q, 6, 1, qpath=1, q0=2)
err(Q, 2, 2, ufam=1, dst=0, path=1, seg=(2, 0, 0))
for etype in (1, 2, 4, 5, 6):
    for quote in range(9):
        for (ufam, dst) in ((0, 0), (1, 0), (0, 1), (1, 1)):
            err(T, etype, quote, ufam=ufam, dst=dst, qdst=dst, qsrc=dst)
    for (p, seg) in PATHS_T[1:]:
        err(T, etype, 0, path=p, seg=seg, qpath=1, q0=2)
        err(T, etype, 1, path=p, seg=seg, qpath=2)

# ---- everything else
for kind in (0, 1, 2):
    add("VerifC44Other", Q, kind=kind, pay=8, **base())
add("VerifC44Other", Q, kind=0, pay=8, **base(disp=0))
for (p, seg) in PATHS_T:
    for kind in (0, 1, 2):
        for disp in (0, 1):
            add("VerifC44Other", T, kind=kind, pay=12, **base(disp=disp, path=p, seg=seg))

# quick entries also run in the thorough tier
for e in entries:
    if e["tiers"] == Q:
        e["tiers"] = ["quick", "thorough"]

spec = {
    "property": "C44",
    "registered": "--registered" in sys.argv,
    "packages": ["./dispatcher"],
    "harness": {
        "dispatcher/zz_verif_c44.go": "harness/c44/zz_verif_c44.go",
        "dispatcher/zz_verif_c44_scmp.go": "harness/c44/zz_verif_c44_scmp.go",
    },
    "test_pkg": "./dispatcher",
    "entries": entries,
    "tiers": {
        "quick": {"max_paths": 60000, "selfcheck_max": 32},
        "thorough": {"max_paths": 600000, "selfcheck_max": 64, "query_timeout_s": 300},
    },
    "covers": [
        "udp-forwarded", "udp-dropped", "svc-forwarded", "svc-dropped",
        "request-answered", "request-dropped",
        "reply-forwarded", "reply-dropped",
        "error-forwarded", "error-dropped",
        "other-dropped",
    ],
    "assumptions": [],
    "not_covered": [],
    "stubs": [],
    "noop_pkgs": ["github.com/scionproto/scion/pkg/log"],
    "level_text": "",
    "level_note": "",
    "design_ref": "DESIGN.md 7/C44",
}
json.dump(spec, sys.stdout, indent=1)
print()
