#!/usr/bin/env python3
"""Generates checks/C44.json (the layout classes are too many to maintain by hand).

usage: python3 harness/c44/gen_spec.py [--registered] > checks/C44.json

Layout parameters (all concrete per instance, i.e. *bounds*):
  disp   dispatcher function on (1) / off (0)
  ufam   family of the outer IP destination: 0 IPv4, 1 IPv6 (incl. IPv4-mapped)
  pfam   family of the previous hop
  dst/src  SCION host address kind: 0 IPv4, 1 IPv6, 2 SVC, 3 unassigned type (8 bytes)
  path   0 empty, 1 SCION (s0,s1,s2 hops per segment), 2 one-hop, 3 EPIC (s0,s1,s2)
  pay    bytes of upper-layer data
"""
import json
import sys

Q, T = ["quick", "thorough"], ["thorough"]
entries = []


def add(func, tiers, must_fail=False, **params):
    if func == "VerifC44InfoRequest":
        params.setdefault("cksum", 0)
    e = {"func": func, "params": params, "tiers": tiers}
    if must_fail:
        e["must_fail"] = True
    entries.append(e)


def base(disp=1, ufam=0, pfam=0, dst=0, src=0, path=0, seg=(0, 0, 0), ext=0):
    return dict(disp=disp, ufam=ufam, pfam=pfam, dst=dst, src=src, path=path,
                s0=seg[0], s1=seg[1], s2=seg[2], ext=ext)


RAW_Q = [12, 36, 40]
RAW_T = [0, 8, 16, 24, 28, 32, 36, 40]
PATHS_Q = [(0, (0, 0, 0)), (1, (2, 0, 0))]
PATHS_T = PATHS_Q + [(1, (1, 2, 0)), (1, (2, 1, 2)), (2, (0, 0, 0)), (3, (2, 0, 0)), (3, (1, 1, 1))]

# ---- SCION/UDP
for disp in (1, 0):
    add("VerifC44UDP", Q, pay=4, ulen=0, **base(disp=disp))
add("VerifC44UDP", Q, pay=4, ulen=0, **base(ufam=1, dst=0))           # mapped outer destination
add("VerifC44UDP", Q, pay=4, ulen=0, **base(ufam=1, dst=1, src=1))
add("VerifC44UDP", Q, pay=4, ulen=0, **base(ufam=0, dst=1))
add("VerifC44UDP", Q, pay=0, ulen=0, **base(path=1, seg=(2, 0, 0)))
add("VerifC44UDP", Q, pay=4, ulen=0, **base(dst=3))                   # unassigned address type
add("VerifC44UDP", Q, pay=4, ulen=1, **base(ext=1))
add("VerifC44UDP", Q, pay=4, ulen=3, **base(ext=2))
add("VerifC44UDP", Q, pay=4, ulen=2, **base())
for (i, (p, seg)) in enumerate(PATHS_T):
    for (ufam, dst) in ((0, 0), (1, 1)):
        add("VerifC44UDP", T, pay=8, ulen=0, **base(ufam=ufam, dst=dst, src=(i + dst) % 3, path=p, seg=seg))
for (ufam, dst) in ((1, 0), (0, 1)):
    add("VerifC44UDP", T, pay=8, ulen=0, **base(ufam=ufam, dst=dst, src=1, path=1, seg=(1, 2, 0)))
for ext in (1, 2, 3):
    for ulen in (0, 1, 2, 3):
        if ext == 3 or ulen == ext:
            add("VerifC44UDP", T, pay=8, ulen=ulen, **base(ext=ext))
    add("VerifC44UDP", T, pay=8, ulen=0, **base(ext=ext, ufam=1, dst=1, path=1, seg=(2, 0, 0)))
add("VerifC44UDP", T, pay=32, ulen=0, **base(path=1, seg=(2, 1, 2)))
# ---- SCION/UDP to a service address
add("VerifC44UDPSVC", Q, svcs=1, sfam=0, **base())
add("VerifC44UDPSVC", Q, svcs=2, sfam=0, **base(ufam=1))
add("VerifC44UDPSVC", Q, svcs=0, sfam=0, **base())
add("VerifC44UDPSVC", Q, svcs=1, sfam=0, **base(disp=0))
for (i, (p, seg)) in enumerate(PATHS_T):
    for (ufam, sfam) in (((0, 0), (1, 1)) if i % 2 == 0 else ((1, 0), (0, 1))):
        add("VerifC44UDPSVC", T, svcs=2, sfam=sfam, **base(ufam=ufam, path=p, seg=seg))
add("VerifC44UDPVacuity", Q, must_fail=True, disp=1, ufam=0, pfam=0, path=0, s0=0, s1=0, s2=0)

# ---- echo / traceroute requests
for kind in (0, 1):
    add("VerifC44InfoRequest", Q, kind=kind, pay=2, **base(disp=1 - kind))
add("VerifC44InfoRequest", Q, kind=0, pay=2, **base(path=1, seg=(2, 0, 0)))
add("VerifC44InfoRequest", Q, kind=0, pay=0, **base(dst=1, src=0, pfam=1, path=1, seg=(1, 1, 0)))
add("VerifC44InfoRequest", T, kind=0, pay=0, **base(dst=1, src=1, pfam=1, path=1, seg=(1, 2, 0)))
add("VerifC44InfoRequest", Q, kind=1, pay=0, **base(dst=2, src=0, path=3, seg=(2, 0, 0)))
add("VerifC44InfoRequest", Q, kind=0, pay=0, **base(path=2))
add("VerifC44InfoRequest", Q, kind=0, pay=0, **base(src=3))
for (i, (p, seg)) in enumerate(PATHS_T):
    for (k, (dst, src)) in enumerate(((0, 0), (1, 1))):
        if k == 1 and sum(seg) > 3:
            continue  # the long shapes only with IPv4 hosts (cost)
        add("VerifC44InfoRequest", T, kind=(i + k) % 2, pay=4,
            **base(disp=(i + k) % 2, dst=dst, src=src, pfam=dst & 1, path=p, seg=seg))
for (dst, src) in ((0, 1), (2, 0), (0, 2)):
    add("VerifC44InfoRequest", T, kind=dst % 2, pay=4, **base(dst=dst, src=src, path=1, seg=(2, 0, 0)))
    add("VerifC44InfoRequest", T, kind=1 - dst % 2, pay=4, **base(dst=dst, src=src, path=2))
add("VerifC44InfoRequest", Q, kind=0, pay=2, **base(ext=1))
add("VerifC44InfoRequest", Q, kind=1, pay=0, **base(ext=2))
for ext in (1, 2, 3):
    add("VerifC44InfoRequest", T, kind=ext % 2, pay=4, **base(ext=ext, path=1, seg=(2, 0, 0)))
    add("VerifC44InfoRequest", T, kind=1 - ext % 2, pay=4, **base(ext=ext, dst=1, src=1, pfam=1))
add("VerifC44InfoRequest", T, kind=0, pay=32, **base(path=1, seg=(2, 0, 0)))
# (cksum=1, clause answer-scmp-checksum-valid, is not part of a registered tier: single z3 queries
#  of that clause run into the 300 s timeout; run it by hand with -params cksum=1)
add("VerifC44InfoRequestVacuity", Q, must_fail=True, disp=1, ufam=0, pfam=0, path=0, s0=0, s1=0, s2=0)

# ---- echo / traceroute replies
for kind in (0, 1):
    add("VerifC44InfoReply", Q, kind=kind, pay=2, **base())
add("VerifC44InfoReply", Q, kind=0, pay=2, **base(disp=0))
add("VerifC44InfoReply", Q, kind=0, pay=0, **base(ufam=1, dst=1, src=1, path=1, seg=(2, 0, 0)))
add("VerifC44InfoReply", Q, kind=0, pay=0, **base(ufam=1, dst=0))
add("VerifC44InfoReply", Q, kind=1, pay=0, **base(dst=2))
add("VerifC44InfoReply", Q, kind=0, pay=0, **base(dst=3))
for (i, (p, seg)) in enumerate(PATHS_T):
    for (k, (ufam, dst)) in enumerate(((0, 0), (1, 1))):
        add("VerifC44InfoReply", T, kind=(i + k) % 2, pay=4, **base(ufam=ufam, dst=dst, path=p, seg=seg))
for (ufam, dst) in ((1, 0), (0, 1), (0, 2)):
    add("VerifC44InfoReply", T, kind=dst % 2, pay=4, **base(ufam=ufam, dst=dst, path=1, seg=(1, 2, 0)))
add("VerifC44InfoReply", Q, kind=0, pay=2, **base(ext=3))
for ext in (1, 2, 3):
    add("VerifC44InfoReply", T, kind=ext % 2, pay=4, **base(ext=ext, ufam=1, dst=1, path=1, seg=(2, 0, 0)))

# ---- SCMP errors with quote
def err(tiers, etype, quote, qpay=4, qdst=0, qsrc=0, qpath=0, q0=0, qext=0, **kw):
    add("VerifC44Error", tiers, etype=etype, quote=quote, qpay=qpay, qdst=qdst, qsrc=qsrc,
        qpath=qpath, q0=q0, qext=qext, **base(**kw))


for quote in range(9):
    err(Q, 1, quote)
err(Q, 4, 0, disp=0)
err(Q, 5, 0, ufam=1, dst=1)
err(Q, 6, 1, qpath=1, q0=2)
err(Q, 2, 2, ufam=1, dst=0, path=1, seg=(2, 0, 0))
err(Q, 1, 0, qext=1)
err(Q, 4, 1, qext=2, ext=1)
for qext in (1, 2, 3):
    for quote in (0, 1, 2, 3, 4, 6):
        if (quote + qext) % 2 == 0:
            err(T, 4, quote, qext=qext)
        else:
            err(T, 1, quote, qext=qext, ext=qext, ufam=1, dst=1)
for etype in (1, 2, 4, 5, 6):
    for quote in range(9):
        err(T, etype, quote)
        if etype == 1:
            (ufam, dst) = ((1, 0), (0, 1), (1, 1))[(etype + quote) % 3]
            err(T, etype, quote, ufam=ufam, dst=dst, qdst=dst, qsrc=dst)
    (p, seg) = PATHS_T[1 + etype % 6]
    err(T, etype, 0, path=p, seg=seg, qpath=1, q0=2)
    err(T, etype, 1, path=p, seg=seg, qpath=2)

# ---- everything else
for kind in (0, 1, 2):
    add("VerifC44Other", Q, kind=kind, pay=8, **base())
add("VerifC44Other", Q, kind=0, pay=8, **base(disp=0))
for (i, (p, seg)) in enumerate(PATHS_T):
    for kind in (0, 1, 2):
        add("VerifC44Other", T, kind=kind, pay=12, **base(disp=(i + kind) % 2, path=p, seg=seg))

# ---- unstructured datagrams (all bytes symbolic)
for n in RAW_Q:
    add("VerifC44Raw", Q, len=n, disp=1, ufam=0, pfam=0)
for n in RAW_T:
    add("VerifC44Raw", T, len=n, disp=1, ufam=0, pfam=0)
add("VerifC44Raw", T, len=40, disp=0, ufam=1, pfam=1)

# quick entries also run in the thorough tier
for e in entries:
    if e["tiers"] == Q:
        e["tiers"] = ["quick", "thorough"]

spec = {
    "property": "C44",
    "registered": "--registered" in sys.argv,
    "packages": ["./dispatcher"],
    "harness": {
        "dispatcher/zz_verif_c44.go": "harness/c44/zz_verif_c44.go",
        "dispatcher/zz_verif_c44_scmp.go": "harness/c44/zz_verif_c44_scmp.go",
    },
    "test_pkg": "./dispatcher",
    "entries": entries,
    "tiers": {
        "quick": {"max_paths": 60000, "selfcheck_max": 32},
        "thorough": {"max_paths": 600000, "selfcheck_max": 64, "query_timeout_s": 300},
    },
    "covers": [
        "udp-forwarded", "udp-dropped", "svc-forwarded", "svc-dropped",
        "request-answered", "request-dropped",
        "reply-forwarded", "reply-dropped",
        "error-forwarded", "error-dropped",
        "other-dropped", "raw-dropped", "raw-answered",
    ],
    "assumptions": [
        "'dropped' = the returned address is invalid (Serve then sends nothing; the returned buffer is not looked at)",
        "only the 'only to / only if' direction is asserted for forwarding and answering (as the statement says); that well-formed packets are forwarded/answered is shown by cover marks",
        "the content of an answer is asserted where the statement defines it: consistent path pointers (CurrHF inside the path, CurrINF the segment of CurrHF), second hop of a one-hop path filled in, no IPv4-mapped IPv6 SCION host addresses, assigned address types; reserved bits and the padding of 4-byte service addresses are not compared",
        "request with an end-to-end extension: only the SCION header of the answer (addresses, path) is compared - the statement is silent about what follows it (the code re-serialises the extension with NextHdr=SCMP, see notes/C44.md)",
        "SCMP reply/error to a service-typed SCION destination: only the outer-destination safeguard is asserted (the code reads the raw bytes as an IP address)",
        "error quoting an echo/traceroute reply: if forwarded at all, then to (destination host, quoted identifier) with the safeguard",
        "the server object is built by the real NewServer without a socket; the dispatcher flag is set afterwards",
    ],
    "not_covered": [
        "layout bounds: the next-header chain, HdrLen, address types/lengths, path type and SegLens, SCMP type, UDP Length field and extension length (one line) are enumerated per instance (see harness/c44/gen_spec.py); quick: paths empty / 2 / 1+1 hops / one-hop / EPIC 2, payload <= 4, each quoted-L4 class once; thorough: up to 2+1+2 hops, EPIC 1+1+1, payload <= 32, 5 error types x 9 quote classes, extension chains on outer and quoted packet",
        "unstructured datagrams (all bytes symbolic) only up to 40 bytes",
        "Serve / parseUnderlayAddr / IP_PKTINFO control-message parsing (real sockets)",
        "the SCMP checksum of answers is not asserted in the registered tiers (clause answer-scmp-checksum-valid exists behind -params cksum=1, but its z3 queries run into the query timeout); checksum computation is C20",
    ],
    "stubs": [
        "pkg/log: no-op",
        "(net/netip.Addr).String and (net/netip.AddrPort).String on a symbolic address: fixed placeholder (feeds log context only)",
    ],
    "noop_pkgs": ["github.com/scionproto/scion/pkg/log"],
    "level_text": "Bounded symbolic model checking of the real Server.processMsgNextHop with gopacket's DecodingLayerParser/NewPacket, the slayers decoders and serialisers, path reversal and net/netip interpreted: per enumerated packet layout every non-steering bit of the datagram (addresses, ISD-AS, ports, identifiers, path fields, option bytes, payload, the whole quoted packet), the outer IP destination, the previous hop and the service map are solver variables; datagrams up to 40 bytes are checked with all bytes symbolic. z3 decides every assertion over all symbolic values; witnesses of sampled paths are re-run natively and compared.",
    "level_note": "Trusted: go/ssa front end and the symgo interpreter (validated per run by the native differential self-check on solver witnesses), z3 4.8.12, the reference (expected answer bytes, port offsets, same-host relation) in harness/c44 transcribed from scion-header.rst, scmp.rst, router-port-dispatch.rst and the statement. One open finding (known_findings.json): one-hop-path requests are answered with a mismatching PathType.",
    "design_ref": "DESIGN.md 7/C44",
}
json.dump(spec, sys.stdout, indent=1)
print()
