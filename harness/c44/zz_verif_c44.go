//go:build verif || !verif

package dispatcher

import (
	"net/netip"

	"github.com/scionproto/scion/pkg/addr"
	"github.com/scionproto/scion/zz_verif/verif"
)

// C44 — the shim dispatcher never reflects traffic to unintended hosts.
//
// Real code: Server.processMsgNextHop and everything below it (gopacket's DecodingLayerParser and
// NewPacket, the slayers decoders/serialisers, path reversal, netip). The server object is built by
// the real NewServer (without a socket; the dispatcher flag is set afterwards because
// NewServer(isDispatcher=true) configures IP_PKTINFO on a real socket).
//
// Packets are drawn per *layout* (entry parameters): the bytes that steer parsing are concrete
// (next-header chain, header length, address types/lengths, path type and segment lengths, SCMP
// type, UDP length field), every other bit of the datagram is a solver variable. The reference
// (c44Ref*) is written from doc/protocols/scion-header.rst, scmp.rst and the property statement.

// ---- header constants (scion-header.rst) ---------------------------------------------------------

const (
	c44CmnLen = 12
	c44L4UDP  = 17
	c44L4HBH  = 200
	c44L4E2E  = 201
	c44L4SCMP = 202

	c44PathEmpty  = 0
	c44PathSCION  = 1
	c44PathOneHop = 2
	c44PathEPIC   = 3

	// host address kinds of the layout (DT/DL resp. ST/SL nibble)
	c44HostIPv4 = 0 // type 0, length 4   -> nibble 0x0
	c44HostIPv6 = 1 // type 0, length 16  -> nibble 0x3
	c44HostSVC  = 2 // type 1, length 4   -> nibble 0x4
	c44HostUnk8 = 3 // type 0, length 8   -> nibble 0x1 (not assigned)
)

func c44HostNibble(kind int) (nib byte, n int) {
	switch kind {
	case c44HostIPv4:
		return 0x0, 4
	case c44HostIPv6:
		return 0x3, 16
	case c44HostSVC:
		return 0x4, 4
	default:
		return 0x1, 8
	}
}

// c44Layout describes where the fields of one datagram are.
type c44Layout struct {
	dstKind, srcKind int
	dstOff, dstLen   int
	srcOff, srcLen   int
	pathType         int
	seg              [3]int
	pathOff, pathLen int
	hdrLen           int // SCION header length in bytes
	l4Off            int // offset of the L4 header (after extension headers)
	l4               int // L4 protocol number of the last header
	total            int
}

func c44PathLen(pt int, seg [3]int) int {
	numINF := 0
	for _, s := range seg {
		if s > 0 {
			numINF++
		}
	}
	sc := 4 + 8*numINF + 12*(seg[0]+seg[1]+seg[2])
	switch pt {
	case c44PathEmpty:
		return 0
	case c44PathSCION:
		return sc
	case c44PathOneHop:
		return 8 + 2*12
	case c44PathEPIC:
		return 16 + sc
	}
	return 0
}

// c44ExtLen: bytes taken by the extension headers of chain kind ext (0 none, 1 hop-by-hop,
// 2 end-to-end, 3 both; each one line long: NextHdr, ExtLen=0, two option bytes).
func c44ExtLen(ext int) int {
	return 4 * ((ext & 1) + (ext >> 1 & 1))
}

// c44SCIONHdrExt is c44SCIONHdr with an extension header chain between the SCION header and the
// L4 header `l4`. The option bytes stay symbolic.
func c44SCIONHdrExt(b []byte, dstKind, srcKind, pt int, seg [3]int, ext int, l4 byte) c44Layout {
	first := l4
	if ext&2 != 0 {
		first = c44L4E2E
	}
	if ext&1 != 0 {
		first = c44L4HBH
	}
	l := c44SCIONHdr(b, dstKind, srcKind, pt, seg, first)
	o := l.hdrLen
	if ext&1 != 0 {
		b[o], b[o+1] = l4, 0
		if ext&2 != 0 {
			b[o] = c44L4E2E
		}
		o += 4
	}
	if ext&2 != 0 {
		b[o], b[o+1] = l4, 0
		o += 4
	}
	l.l4Off, l.l4 = o, int(l4)
	return l
}

// c44SCIONHdr fixes the steering bytes of the SCION common/address/path headers in b (whose other
// bytes stay symbolic) and returns the layout. next is the NextHdr value of the common header.
func c44SCIONHdr(b []byte, dstKind, srcKind, pt int, seg [3]int, next byte) c44Layout {
	var l c44Layout
	l.dstKind, l.srcKind, l.pathType, l.seg = dstKind, srcKind, pt, seg
	dn, dl := c44HostNibble(dstKind)
	sn, sl := c44HostNibble(srcKind)
	l.dstOff, l.dstLen = c44CmnLen+16, dl
	l.srcOff, l.srcLen = l.dstOff+dl, sl
	l.pathOff = l.srcOff + sl
	l.pathLen = c44PathLen(pt, seg)
	l.hdrLen = l.pathOff + l.pathLen
	b[4] = next
	b[5] = byte(l.hdrLen / 4)
	b[8] = byte(pt)
	b[9] = dn<<4 | sn
	sp := l.pathOff
	if pt == c44PathEPIC {
		sp += 16
	}
	if pt == c44PathSCION || pt == c44PathEPIC {
		// PathMeta: CurrINF(2) CurrHF(6) | RSV(6) Seg0(6) Seg1(6) Seg2(6); the pointers stay symbolic
		line := uint32(seg[0])<<12 | uint32(seg[1])<<6 | uint32(seg[2])
		b[sp+1] = byte(line >> 16)
		b[sp+2] = byte(line >> 8)
		b[sp+3] = byte(line)
	}
	l.l4Off = l.hdrLen
	l.l4 = int(next)
	return l
}

func c44Seg() [3]int {
	return [3]int{verif.Param("s0"), verif.Param("s1"), verif.Param("s2")}
}

// ---- environment ---------------------------------------------------------------------------------

// c44Addr draws an IP address of the given family (0: IPv4, 1: IPv6 incl. IPv4-mapped) together
// with its raw bytes.
func c44Addr(name string, fam int) (netip.Addr, []byte) {
	if fam == 0 {
		raw := verif.NondetBytes(name, 4)
		return netip.AddrFrom4([4]byte(raw)), raw
	}
	raw := verif.NondetBytes(name, 16)
	return netip.AddrFrom16([16]byte(raw)), raw
}

// c44Canon: reference for "the same IP host": an IPv4 address and its IPv4-mapped IPv6 form denote
// the same host (RFC 4291 2.5.5.2), everything else is compared bytewise.
func c44SameHost(a, b []byte) bool {
	a4, av := c44Unmap(a)
	b4, bv := c44Unmap(b)
	same := a4 == b4
	for i := 0; i < 16; i++ {
		same = same && av[i] == bv[i]
	}
	return same
}

func c44Unmap(a []byte) (is4 bool, v [16]byte) {
	if len(a) == 4 {
		copy(v[12:], a)
		return true, v
	}
	mapped := a[10] == 0xff && a[11] == 0xff
	for i := 0; i < 10; i++ {
		mapped = mapped && a[i] == 0
	}
	for i := 0; i < 12; i++ {
		if !mapped {
			v[i] = a[i]
		}
	}
	copy(v[12:], a[12:16])
	return mapped, v
}

func c44Mapped(a []byte) bool {
	if len(a) != 16 {
		return false
	}
	m, _ := c44Unmap(a)
	return m
}

func c44Server(isDisp bool, svc map[addr.Addr]netip.AddrPort) *Server {
	s := NewServer(false, svc, nil)
	s.isDispatcher = isDisp
	return s
}

func c44EqBytes(a, b []byte) bool {
	if len(a) != len(b) {
		return false
	}
	ok := true
	for i := range a {
		ok = ok && a[i] == b[i]
	}
	return ok
}

// c44Alias reports whether out is the very input buffer (forwarded unchanged).
func c44Alias(out, in []byte) bool {
	return len(out) == len(in) && len(in) > 0 && &out[0] == &in[0]
}

// c44Env is the symbolic environment of one processMsgNextHop call.
type c44Env struct {
	isDisp      bool
	underlay    netip.Addr
	underlayRaw []byte
	prevHop     netip.AddrPort
}

func c44DrawEnv() c44Env {
	var e c44Env
	e.isDisp = verif.Param("disp") == 1
	e.underlay, e.underlayRaw = c44Addr("underlay", verif.Param("ufam"))
	prev, _ := c44Addr("prevhop", verif.Param("pfam"))
	e.prevHop = netip.AddrPortFrom(prev, verif.NondetU16("prevhop.port"))
	return e
}

// c44Forwarded asserts the reflection safeguard for a packet that was handed on unchanged: the
// dispatcher function is on, the target is (host, port) and host is the outer IP destination.
func c44Forwarded(e c44Env, in, out []byte, got netip.AddrPort, host []byte, port uint16) {
	verif.Assert("forward-only-with-dispatcher-function", e.isDisp)
	verif.Assert("forwarded-bytes-unchanged", c44Alias(out, in))
	verif.Assert("forward-target-is-scion-destination-host-and-derived-port",
		c44EqBytes(got.Addr().AsSlice(), host) && got.Port() == port)
	verif.Assert("forward-only-if-host-equals-outer-destination", c44SameHost(host, e.underlayRaw))
}

// c44Dropped: Serve sends nothing iff the returned address is invalid (the returned buffer is
// not looked at in that case).
func c44Dropped(out []byte, got netip.AddrPort) bool {
	return !got.IsValid()
}

// ---- UDP -----------------------------------------------------------------------------------------

// VerifC44UDP: a SCION/UDP datagram is forwarded only to (SCION destination host, UDP destination
// port) and only if that host is the outer IP destination; never with the dispatcher function off.
func VerifC44UDP() {
	e := c44DrawEnv()
	seg := c44Seg()
	dk, sk, pt := verif.Param("dst"), verif.Param("src"), verif.Param("path")
	pay, ext := verif.Param("pay"), verif.Param("ext")
	_, dl := c44HostNibble(dk)
	_, sl := c44HostNibble(sk)
	n := c44CmnLen + 16 + dl + sl + c44PathLen(pt, seg) + c44ExtLen(ext) + 8 + pay
	buf := verif.NondetBytes("pkt", n)
	l := c44SCIONHdrExt(buf, dk, sk, pt, seg, ext, c44L4UDP)
	// UDP length field (steers slicing of the payload): ulen 0 the real length, 1 zero
	// ("jumbogram"), 2 smaller than the UDP header, 3 larger than the datagram
	ulen := 8 + pay
	switch verif.Param("ulen") {
	case 1:
		ulen = 0
	case 2:
		ulen = 7
	case 3:
		ulen = 8 + pay + 5
	}
	buf[l.l4Off+4] = byte(ulen >> 8)
	buf[l.l4Off+5] = byte(ulen)
	in := append([]byte(nil), buf...)
	srv := c44Server(e.isDisp, nil)

	out, got, err := srv.processMsgNextHop(buf, e.underlay, e.prevHop)

	verif.Observe("udp", err == nil, got.IsValid(), got.Port(), out)
	verif.Assert("no-unrecoverable-error", err == nil)
	verif.Assert("input-not-modified", c44EqBytes(buf, in))
	if !got.IsValid() {
		verif.Cover("udp-dropped")
		return
	}
	verif.Cover("udp-forwarded")
	verif.Assert("udp-forwarded-only-to-ip-host", dk == c44HostIPv4 || dk == c44HostIPv6)
	port := uint16(in[l.l4Off+2])<<8 | uint16(in[l.l4Off+3])
	c44Forwarded(e, buf, out, got, in[l.dstOff:l.dstOff+l.dstLen], port)
}

// VerifC44UDPSVC: a SCION/UDP datagram to a service address is forwarded only to the address
// registered for exactly (destination ISD-AS, service) and only if the host of that address is the
// outer IP destination.
func VerifC44UDPSVC() {
	e := c44DrawEnv()
	seg := c44Seg()
	sk, pt := verif.Param("src"), verif.Param("path")
	nsvc := verif.Param("svcs")
	_, sl := c44HostNibble(sk)
	n := c44CmnLen + 16 + 4 + sl + c44PathLen(pt, seg) + 8 + 4
	buf := verif.NondetBytes("pkt", n)
	l := c44SCIONHdr(buf, c44HostSVC, sk, pt, seg, c44L4UDP)
	buf[l.l4Off+4], buf[l.l4Off+5] = 0, 12
	in := append([]byte(nil), buf...)

	type reg struct {
		ia   uint64
		svc  uint16
		ap   netip.AddrPort
		host []byte
	}
	regs := make([]reg, nsvc)
	svcMap := map[addr.Addr]netip.AddrPort{}
	for i := range regs {
		r := &regs[i]
		r.ia, r.svc = verif.NondetU64("svc.ia"), verif.NondetU16("svc.id")
		for k := 0; k < i; k++ {
			verif.Assume(regs[k].ia != r.ia || regs[k].svc != r.svc)
		}
		var a netip.Addr
		a, r.host = c44Addr("svc.host", verif.Param("sfam"))
		r.ap = netip.AddrPortFrom(a, verif.NondetU16("svc.port"))
		svcMap[addr.Addr{IA: addr.IA(r.ia), Host: addr.HostSVC(addr.SVC(r.svc))}] = r.ap
	}
	srv := c44Server(e.isDisp, svcMap)

	out, got, err := srv.processMsgNextHop(buf, e.underlay, e.prevHop)

	verif.Observe("udpsvc", err == nil, got.IsValid(), got.Port(), out)
	verif.Assert("no-unrecoverable-error", err == nil)
	if !got.IsValid() {
		verif.Cover("svc-dropped")
		return
	}
	verif.Cover("svc-forwarded")
	var dstIA uint64
	for i := 0; i < 8; i++ {
		dstIA = dstIA<<8 | uint64(in[12+i])
	}
	dstSVC := uint16(in[l.dstOff])<<8 | uint16(in[l.dstOff+1])
	verif.Assert("forward-only-with-dispatcher-function", e.isDisp)
	verif.Assert("forwarded-bytes-unchanged", c44Alias(out, buf) && c44EqBytes(buf, in))
	registered, safe := false, false
	for _, r := range regs {
		hit := r.ia == dstIA && r.svc == dstSVC && got == r.ap
		registered = registered || hit
		safe = safe || (hit && c44SameHost(r.host, e.underlayRaw))
	}
	verif.Assert("svc-forward-target-is-the-registered-address-of-destination-ia-and-service", registered)
	verif.Assert("forward-only-if-host-equals-outer-destination", safe)
}

// VerifC44UDPVacuity must fail: UDP datagrams are forwarded.
func VerifC44UDPVacuity() {
	e := c44DrawEnv()
	seg := c44Seg()
	buf := verif.NondetBytes("pkt", c44CmnLen+16+8+c44PathLen(verif.Param("path"), seg)+8+4)
	l := c44SCIONHdr(buf, c44HostIPv4, c44HostIPv4, verif.Param("path"), seg, c44L4UDP)
	buf[l.l4Off+4], buf[l.l4Off+5] = 0, 12
	srv := c44Server(e.isDisp, nil)
	_, got, _ := srv.processMsgNextHop(buf, e.underlay, e.prevHop)
	verif.Assert("twin", !got.IsValid())
}
