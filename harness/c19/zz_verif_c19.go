//go:build verif || !verif

package scion

import (
	"encoding/binary"

	"github.com/scionproto/scion/zz_verif/verif"
)

// refInf is the reference "segment containing hop hf" from scion-header.rst: segment k holds the
// hops with index in [sum(SegLen[:k]), sum(SegLen[:k+1])).
func refInf(hf, s0, s1 uint32) uint8 {
	if hf < s0 {
		return 0
	}
	if hf < s0+s1 {
		return 1
	}
	return 2
}

// VerifC19Meta: the whole 32-bit path meta header is one symbolic word.
func VerifC19Meta() {
	line := verif.NondetU32("meta")
	var raw [4]byte
	binary.BigEndian.PutUint32(raw[:], line)
	var b Base
	err := b.DecodeFromBytes(raw[:])

	currINF := uint8(line >> 30)
	currHF := uint8((line >> 24) & 63)
	s0, s1, s2 := (line>>12)&63, (line>>6)&63, line&63
	// the 6 reserved bits (18..23) are ignored by the decoder
	contiguous := (s1 == 0 || s0 > 0) && (s2 == 0 || s1 > 0)
	total := s0 + s1 + s2
	wantOK := contiguous && total <= 64
	// the property speaks about non-empty segments; the all-empty shape is outside the claim
	verif.Assume(total > 0)
	verif.Assert("decode-accepts-iff-contiguous-and-at-most-64-hops", (err == nil) == wantOK)
	verif.Observe("decode", err == nil)
	if err != nil {
		return
	}
	verif.Cover("accepted")
	numINF := 1
	if s1 > 0 {
		numINF = 2
	}
	if s2 > 0 {
		numINF = 3
	}
	verif.Assert("decoded-fields", b.PathMeta.CurrINF == currINF && b.PathMeta.CurrHF == currHF &&
		uint32(b.PathMeta.SegLen[0]) == s0 && uint32(b.PathMeta.SegLen[1]) == s1 && uint32(b.PathMeta.SegLen[2]) == s2)
	verif.Assert("num-inf-num-hops", b.NumINF == numINF && b.NumHops == int(total))

	// pointer predicates are specified for in-range pointers that agree with each other
	verif.Assume(uint32(currHF) < total)
	hf := uint32(currHF)
	verif.Assert("inf-index-for-hf", b.infIndexForHF(currHF) == refInf(hf, s0, s1))
	verif.Assume(currINF == refInf(hf, s0, s1))
	verif.Cover("consistent-pointers")

	// cross-over: the next hop exists and lies in another segment
	wantXover := hf+1 < total && refInf(hf+1, s0, s1) != currINF
	verif.Assert("xover-exactly-at-segment-end", b.IsXover() == wantXover)
	// first hop after a cross-over: the previous hop exists and lies in the previous segment
	wantFirst := hf > 0 && refInf(hf-1, s0, s1) != currINF
	verif.Assert("first-hop-after-xover-exactly-at-segment-start", b.IsFirstHopAfterXover() == wantFirst)
	verif.Observe("preds", b.IsXover(), b.IsFirstHopAfterXover())

	// advancing
	isLast := hf == total-1
	err = b.IncPath()
	verif.Observe("inc", err == nil, b.PathMeta.CurrHF, b.PathMeta.CurrINF)
	if isLast {
		verif.Cover("inc-at-last-hop")
		verif.Assert("inc-fails-at-last-hop", err != nil)
		verif.Assert("inc-at-last-hop-keeps-pointer", uint32(b.PathMeta.CurrHF) == total-1)
	} else {
		verif.Cover("inc-advances")
		verif.Assert("inc-succeeds-before-last-hop", err == nil)
		verif.Assert("inc-moves-to-next-hop", uint32(b.PathMeta.CurrHF) == hf+1)
		verif.Assert("inc-moves-to-segment-of-next-hop", b.PathMeta.CurrINF == refInf(hf+1, s0, s1))
	}
}

// VerifC19MetaVacuity is the reachability twin: its assertion must be violated.
func VerifC19MetaVacuity() {
	line := verif.NondetU32("meta")
	var raw [4]byte
	binary.BigEndian.PutUint32(raw[:], line)
	var b Base
	err := b.DecodeFromBytes(raw[:])
	verif.Assume(err == nil && b.NumHops > 0)
	verif.Assume(int(b.PathMeta.CurrHF) < b.NumHops)
	verif.Assert("twin", b.IsXover() == false)
}
