package scion

import (
	"github.com/scionproto/scion/pkg/slayers/path"
	"github.com/scionproto/scion/zz_verif/verif"
)

// c19Buf builds the raw bytes of a path with the concrete shape (s0,s1,s2) given by the entry
// parameters; every other bit is symbolic. Reserved bits are assumed zero (scion-header.rst:
// "RSV"/"r" bits), CurrHF is in range and CurrINF is the segment containing it.
func c19Buf() (raw []byte, s [3]int, numINF, total int) {
	s = [3]int{verif.Param("s0"), verif.Param("s1"), verif.Param("s2")}
	total = s[0] + s[1] + s[2]
	numINF = 1
	if s[1] > 0 {
		numINF = 2
	}
	if s[2] > 0 {
		numINF = 3
	}
	n := MetaLen + numINF*path.InfoLen + total*path.HopLen
	raw = verif.NondetBytes("p", n)
	// meta header: CurrINF(2) CurrHF(6) RSV(6) Seg0(6) Seg1(6) Seg2(6)
	line := uint32(raw[0])<<24 | uint32(raw[1])<<16 | uint32(raw[2])<<8 | uint32(raw[3])
	verif.Assume((line>>12)&63 == uint32(s[0]) && (line>>6)&63 == uint32(s[1]) && line&63 == uint32(s[2]))
	verif.Assume((line>>18)&63 == 0)
	currHF := (line >> 24) & 63
	verif.Assume(currHF < uint32(total))
	verif.Assume(uint8(line>>30) == refInf(currHF, uint32(s[0]), uint32(s[1])))
	for i := 0; i < numINF; i++ {
		o := MetaLen + i*path.InfoLen
		verif.Assume(raw[o]&0xfc == 0 && raw[o+1] == 0)
	}
	for i := 0; i < total; i++ {
		o := MetaLen + numINF*path.InfoLen + i*path.HopLen
		verif.Assume(raw[o]&0xfc == 0)
	}
	return
}

func eqBytes(a, b []byte) bool {
	if len(a) != len(b) {
		return false
	}
	ok := true
	for i := range a {
		ok = ok && a[i] == b[i]
	}
	return ok
}

// refHop / refInfo: reference field extraction at the offsets of scion-header.rst.
func refHopOff(numINF, i int) int { return MetaLen + numINF*path.InfoLen + i*path.HopLen }

// VerifC19Reverse: one reversal has the documented effect, two restore the path; raw and decoded
// representations agree.
func VerifC19Reverse() {
	raw, s, numINF, total := c19Buf()
	orig := append([]byte(nil), raw...)

	// decoded and raw view of the same bytes agree
	var d Decoded
	errD := d.DecodeFromBytes(append([]byte(nil), raw...))
	var r Raw
	errR := r.DecodeFromBytes(raw)
	verif.Assert("shape-accepted", errD == nil && errR == nil)
	if errD != nil || errR != nil {
		return
	}
	agree := d.NumINF == r.NumINF && d.NumHops == r.NumHops && d.PathMeta == r.PathMeta &&
		r.NumINF == numINF && r.NumHops == total
	for i := 0; i < total; i++ {
		h, err := r.GetHopField(i)
		o := refHopOff(numINF, i)
		agree = agree && err == nil && h == d.HopFields[i] &&
			h.ExpTime == orig[o+1] && h.ConsIngress == uint16(orig[o+2])<<8|uint16(orig[o+3]) &&
			h.ConsEgress == uint16(orig[o+4])<<8|uint16(orig[o+5]) &&
			h.EgressRouterAlert == (orig[o]&1 == 1) && h.IngressRouterAlert == (orig[o]&2 == 2) &&
			eqBytes(h.Mac[:], orig[o+6:o+12])
	}
	for i := 0; i < numINF; i++ {
		inf, err := r.GetInfoField(i)
		o := MetaLen + i*path.InfoLen
		agree = agree && err == nil && inf == d.InfoFields[i] &&
			inf.ConsDir == (orig[o]&1 == 1) && inf.Peer == (orig[o]&2 == 2) &&
			inf.SegID == uint16(orig[o+2])<<8|uint16(orig[o+3]) &&
			inf.Timestamp == uint32(orig[o+4])<<24|uint32(orig[o+5])<<16|uint32(orig[o+6])<<8|uint32(orig[o+7])
	}
	verif.Assert("raw-and-decoded-agree-with-reference-offsets", agree)
	_, errOOB := r.GetHopField(total)
	_, errOOB2 := r.GetInfoField(numINF)
	verif.Assert("out-of-range-index-rejected", errOOB != nil && errOOB2 != nil)
	verif.Assert("last-hop-predicate", r.IsLastHop() == (int(r.PathMeta.CurrHF) == total-1) &&
		r.IsFirstHop() == (r.PathMeta.CurrHF == 0) && r.IsPenultimateHop() == (int(r.PathMeta.CurrHF) == total-2) &&
		r.CurrINFMatchesCurrHF())

	// decoded -> bytes reproduces the input (reserved bits are zero by assumption)
	back := make([]byte, len(orig))
	verif.Assert("decoded-serialize-ok", d.SerializeTo(back) == nil)
	verif.Assert("decoded-roundtrip-bytes", eqBytes(back, orig))

	currHF, currINF := int(r.PathMeta.CurrHF), int(r.PathMeta.CurrINF)

	// single reversal
	rp, err := r.Reverse()
	verif.Assert("reverse-ok", err == nil && rp != nil)
	if err != nil {
		return
	}
	rr := rp.(*Raw)
	one := rr.NumINF == numINF && rr.NumHops == total &&
		int(rr.PathMeta.CurrHF) == total-1-currHF && int(rr.PathMeta.CurrINF) == numINF-1-currINF
	for k := 0; k < numINF; k++ {
		one = one && int(rr.PathMeta.SegLen[k]) == s[numINF-1-k]
	}
	for i := 0; i < total; i++ {
		h, e := rr.GetHopField(i)
		o := refHopOff(numINF, total-1-i)
		one = one && e == nil && h.ExpTime == orig[o+1] && eqBytes(h.Mac[:], orig[o+6:o+12]) &&
			h.ConsIngress == uint16(orig[o+2])<<8|uint16(orig[o+3]) && h.ConsEgress == uint16(orig[o+4])<<8|uint16(orig[o+5]) &&
			h.EgressRouterAlert == (orig[o]&1 == 1) && h.IngressRouterAlert == (orig[o]&2 == 2)
	}
	for i := 0; i < numINF; i++ {
		inf, e := rr.GetInfoField(i)
		o := MetaLen + (numINF-1-i)*path.InfoLen
		one = one && e == nil && inf.ConsDir == (orig[o]&1 == 0) && inf.Peer == (orig[o]&2 == 2) &&
			inf.SegID == uint16(orig[o+2])<<8|uint16(orig[o+3]) &&
			inf.Timestamp == uint32(orig[o+4])<<24|uint32(orig[o+5])<<16|uint32(orig[o+6])<<8|uint32(orig[o+7])
	}
	verif.Assert("reverse-mirrors-segments-hops-and-pointers", one)
	verif.Assert("reversed-pointers-consistent", rr.CurrINFMatchesCurrHF())

	// decoded reversal agrees with raw reversal
	dp, err := d.Reverse()
	verif.Assert("decoded-reverse-ok", err == nil)
	if err != nil {
		return
	}
	db := make([]byte, len(orig))
	verif.Assert("decoded-reverse-serialize-ok", dp.SerializeTo(db) == nil)
	verif.Assert("raw-and-decoded-reverse-agree", eqBytes(db, rr.Raw))
	verif.Observe("rev1", rr.Raw)

	// second reversal restores the path
	rp2, err := rr.Reverse()
	verif.Assert("second-reverse-ok", err == nil)
	if err != nil {
		return
	}
	verif.Assert("reverse-twice-restores", eqBytes(rp2.(*Raw).Raw, orig))
	verif.Cover("reverse-twice")
}

// VerifC19SetGet: Set{Hop,Info}Field write exactly the addressed field; Get reads it back.
func VerifC19SetGet() {
	raw, _, numINF, total := c19Buf()
	orig := append([]byte(nil), raw...)
	var r Raw
	if r.DecodeFromBytes(raw) != nil {
		verif.Unreachable("shape-accepted")
		return
	}
	idx := verif.Choose("hop", total)
	var hop path.HopField
	hop.EgressRouterAlert = verif.NondetBool("h.era")
	hop.IngressRouterAlert = verif.NondetBool("h.ira")
	hop.ExpTime = verif.NondetU8("h.exp")
	hop.ConsIngress = verif.NondetU16("h.in")
	hop.ConsEgress = verif.NondetU16("h.eg")
	copy(hop.Mac[:], verif.NondetBytes("h.mac", 6))
	verif.Assert("set-hop-ok", r.SetHopField(hop, idx) == nil)
	got, err := r.GetHopField(idx)
	verif.Assert("get-after-set-hop", err == nil && got == hop)
	o := refHopOff(numINF, idx)
	frame := true
	for i := range orig {
		if i < o || i >= o+path.HopLen {
			frame = frame && r.Raw[i] == orig[i]
		}
	}
	verif.Assert("set-hop-touches-only-that-hop", frame)
	verif.Assert("set-hop-out-of-range-rejected", r.SetHopField(hop, total) != nil)

	jdx := verif.Choose("inf", numINF)
	var inf path.InfoField
	inf.ConsDir = verif.NondetBool("i.c")
	inf.Peer = verif.NondetBool("i.p")
	inf.SegID = verif.NondetU16("i.seg")
	inf.Timestamp = verif.NondetU32("i.ts")
	mid := append([]byte(nil), r.Raw...)
	verif.Assert("set-info-ok", r.SetInfoField(inf, jdx) == nil)
	gi, err := r.GetInfoField(jdx)
	verif.Assert("get-after-set-info", err == nil && gi == inf)
	oi := MetaLen + jdx*path.InfoLen
	frame = true
	for i := range mid {
		if i < oi || i >= oi+path.InfoLen {
			frame = frame && r.Raw[i] == mid[i]
		}
	}
	verif.Assert("set-info-touches-only-that-info", frame)
	verif.Assert("set-info-out-of-range-rejected", r.SetInfoField(inf, numINF) != nil)
	verif.Observe("after", r.Raw)
	verif.Cover("setget")
}

// VerifC19IncWalk: advancing from the first hop visits every hop once, in order, with the
// segment pointer following, and stops at the last hop.
func VerifC19IncWalk() {
	raw, s, _, total := c19Buf()
	verif.Assume(raw[0]&0x3f == 0) // start at hop 0
	var r Raw
	if r.DecodeFromBytes(raw) != nil {
		verif.Unreachable("shape-accepted")
		return
	}
	for k := 0; k < total-1; k++ {
		wantX := refInf(uint32(k+1), uint32(s[0]), uint32(s[1])) != refInf(uint32(k), uint32(s[0]), uint32(s[1]))
		verif.Assert("walk-xover-at-boundaries", r.IsXover() == wantX)
		verif.Assert("walk-inc-ok", r.IncPath() == nil)
		verif.Assert("walk-pointers", int(r.PathMeta.CurrHF) == k+1 &&
			r.PathMeta.CurrINF == refInf(uint32(k+1), uint32(s[0]), uint32(s[1])) &&
			r.IsFirstHopAfterXover() == wantX)
		// the pointers are written through to the buffer
		verif.Assert("walk-buffer-updated", r.Raw[0] == uint8(r.PathMeta.CurrINF)<<6|uint8(k+1))
	}
	verif.Assert("walk-ends-at-last-hop", r.IsLastHop() && !r.IsXover())
	verif.Assert("walk-inc-fails-at-end", r.IncPath() != nil)
	verif.Cover("walk")
}
