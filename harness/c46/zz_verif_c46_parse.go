package addr

import (
	"github.com/scionproto/scion/zz_verif/verif"
)

// C46, part 2: "Parsing rejects out-of-range numbers and malformed text instead of returning a
// different value": for every string of the given length, if a parser accepts it then the string
// is in the reference grammar and the returned value is the one the text denotes.
//
// Reference grammar (property statement; /repo/doc/control-plane.rst "ISD and AS numbering" wiki
// formats): ISD = decimal numeral <= 65535; AS = decimal numeral <= 2^32-1, or three ':'-separated
// hex numerals <= 0xffff (either letter case), most significant group first; ISD-AS =
// ISD "-" AS; SVC = DS | CS | Wildcard, optionally followed by _A (anycast) or _M (multicast).

// c46Len: the string length, an enumerated bound minlen..maxlen (one fork per length).
func c46Len() int {
	lo, hi := verif.Param("minlen"), verif.Param("maxlen")
	return lo + verif.Choose("len", hi-lo+1)
}

// c46Dec: value of a decimal numeral; ok=false when empty or a non-digit occurs. Exact for
// len(b) <= 18 (no wrap-around in 64 bits).
func c46Dec(b []byte) (v uint64, ok bool) {
	ok = len(b) > 0 && len(b) <= 18
	for _, c := range b {
		d := c - '0'
		if d > 9 {
			ok = false
		}
		v = v*10 + uint64(d)
	}
	return v, ok
}

// c46HexGroup: value of a group of hex digits denoting a 16-bit number (leading zeros are not
// excluded by the property statement, as for decimal numerals). Exact for len(b) <= 15.
func c46HexGroup(b []byte) (v uint64, ok bool) {
	ok = len(b) >= 1 && len(b) <= 15
	for _, c := range b {
		d := c - '0'
		l := (c | 0x20) - 'a'
		h := l + 10
		isHex := l <= 5
		if d <= 9 {
			h = d
			isHex = true
		}
		if !isHex {
			ok = false
		}
		v = v<<4 | uint64(h&0xf)
	}
	if v > 0xffff {
		ok = false
	}
	return v, ok
}

// c46Layout case-splits on which positions of b hold the byte sep, so that the layout is concrete
// on every path (the number of layouts is part of the stated bound: 2^len).
func c46Layout(b []byte, sep byte) []bool {
	at := make([]bool, len(b))
	for i := range b {
		var is uint64
		if b[i] == sep {
			is = 1
		}
		at[i] = verif.Concrete(is) == 1
	}
	return at
}

// c46RefAS reads AS text under a concrete ':' layout.
func c46RefAS(b []byte, colon []bool) (val uint64, ok bool) {
	var cut []int
	for i, c := range colon {
		if c {
			cut = append(cut, i)
		}
	}
	switch len(cut) {
	case 0:
		v, ok := c46Dec(b)
		if v > 0xffffffff {
			ok = false
		}
		return v, ok
	case 2:
		g0, ok0 := c46HexGroup(b[:cut[0]])
		g1, ok1 := c46HexGroup(b[cut[0]+1 : cut[1]])
		g2, ok2 := c46HexGroup(b[cut[1]+1:])
		ok := ok0
		if !ok1 {
			ok = false
		}
		if !ok2 {
			ok = false
		}
		return g0<<32 | g1<<16 | g2, ok
	}
	return 0, false
}

// VerifC46ParseISD: ParseISD on an arbitrary string of the given length.
func VerifC46ParseISD() {
	n := c46Len()
	b := verif.NondetBytes("s", n)
	isd, err := ParseISD(string(b))
	verif.Observe("parse", err == nil, uint16(isd))
	v, ok := c46Dec(b)
	if v > 65535 {
		ok = false
	}
	if err == nil {
		verif.Assert("parse-isd-rejects-malformed-and-out-of-range", ok)
		verif.Assert("parse-isd-value", uint64(isd) == v)
		verif.Cover("isd-accepted")
	} else {
		verif.Cover("isd-rejected")
	}
}

// VerifC46ParseAS: ParseAS on an arbitrary string of the given length. Parameter nocolon=1
// restricts the strings to those without ':' (used to reach the 10-digit decimal boundary without
// enumerating 2^10 colon layouts).
func VerifC46ParseAS() {
	n := c46Len()
	b := verif.NondetBytes("s", n)
	if verif.Param("nocolon") == 1 {
		for _, c := range b {
			verif.Assume(c != ':')
		}
	}
	colon := c46Layout(b, ':')
	as, err := ParseAS(string(b))
	verif.Observe("parse", err == nil, uint64(as))
	val, ok := c46RefAS(b, colon)
	if err == nil {
		verif.Assert("parse-as-rejects-malformed-and-out-of-range", ok)
		verif.Assert("parse-as-value", uint64(as) == val)
		if as > MaxBGPAS {
			verif.Cover("as-accepted-hex")
		} else {
			verif.Cover("as-accepted")
		}
	} else {
		verif.Cover("as-rejected")
	}
}

// VerifC46ParseASGroups: strings of the shape G0:G1:G2 with the group lengths given by parameters
// g0,g1,g2 (group bytes arbitrary except ':'), to reach over-long groups beyond the length sweep.
func VerifC46ParseASGroups() {
	var b []byte
	for k, pn := range []string{"g0", "g1", "g2"} {
		if k > 0 {
			b = append(b, ':')
		}
		g := verif.NondetBytes(pn, verif.Param(pn))
		for _, c := range g {
			verif.Assume(c != ':')
		}
		b = append(b, g...)
	}
	colon := c46Layout(b, ':')
	as, err := ParseAS(string(b))
	verif.Observe("parse", err == nil, uint64(as))
	val, ok := c46RefAS(b, colon)
	if err == nil {
		verif.Assert("parse-as-rejects-malformed-and-out-of-range", ok)
		verif.Assert("parse-as-value", uint64(as) == val)
		verif.Cover("as-groups-accepted")
	} else {
		verif.Cover("as-groups-rejected")
	}
}

// VerifC46ParseIA: ParseIA on an arbitrary string of the given length.
func VerifC46ParseIA() {
	n := c46Len()
	b := verif.NondetBytes("s", n)
	dash := c46Layout(b, '-')
	colon := c46Layout(b, ':')
	ia, err := ParseIA(string(b))
	verif.Observe("parse", err == nil, uint64(ia))
	var cut []int
	for i, d := range dash {
		if d {
			cut = append(cut, i)
		}
	}
	var val uint64
	ok := false
	if len(cut) == 1 {
		isd, okI := c46Dec(b[:cut[0]])
		if isd > 65535 {
			okI = false
		}
		as, okA := c46RefAS(b[cut[0]+1:], colon[cut[0]+1:])
		ok = okI
		if !okA {
			ok = false
		}
		val = isd<<48 | as
	}
	if err == nil {
		verif.Assert("parse-ia-rejects-malformed-and-out-of-range", ok)
		verif.Assert("parse-ia-value", uint64(ia) == val)
		verif.Cover("ia-accepted")
	} else {
		verif.Cover("ia-rejected")
	}
}

var c46SVCNames = []struct {
	s string
	v SVC
}{
	{"DS", SvcDS}, {"CS", SvcCS}, {"Wildcard", SvcWildcard},
	{"DS_A", SvcDS}, {"CS_A", SvcCS}, {"Wildcard_A", SvcWildcard},
	{"DS_M", SvcDS | SVCMcast}, {"CS_M", SvcCS | SVCMcast}, {"Wildcard_M", SvcWildcard | SVCMcast},
}

// VerifC46ParseSVC: ParseSVC on an arbitrary string of the given length.
func VerifC46ParseSVC() {
	n := c46Len()
	b := verif.NondetBytes("s", n)
	svc, err := ParseSVC(string(b))
	verif.Observe("parse", err == nil, uint16(svc))
	ok := false
	var val SVC
	for _, c := range c46SVCNames {
		if len(c.s) == n {
			if string(b) == c.s {
				ok = true
				val = c.v
			}
		}
	}
	if err == nil {
		verif.Assert("parse-svc-rejects-malformed", ok)
		verif.Assert("parse-svc-value", svc == val)
		verif.Cover("svc-accepted")
	} else {
		verif.Cover("svc-rejected")
	}
}

// VerifC46TwinParse: reachability twin ("every string is rejected" must be violated).
func VerifC46TwinParse() {
	b := verif.NondetBytes("s", 3)
	_, err := ParseAS(string(b))
	verif.Assert("twin-parse", err != nil)
}
