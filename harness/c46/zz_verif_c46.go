package addr

import (
	"github.com/scionproto/scion/zz_verif/verif"
)

// C46, part 1: format -> parse round trips for all values.

// c46Opts returns the format options selected by the entry parameters:
// prefix: 0/1 (WithDefaultPrefix); sep: 0 = default, 1 = ":", 2 = "_" (WithFileSeparator),
// 4 = "--" (a custom multi-byte separator). The empty separator has its own entries below.
func c46Opts() []FormatOption {
	var opts []FormatOption
	if verif.Param("prefix") == 1 {
		opts = append(opts, WithDefaultPrefix())
	}
	switch verif.Param("sep") {
	case 1:
		opts = append(opts, WithSeparator(":"))
	case 2:
		opts = append(opts, WithFileSeparator())
	case 4:
		opts = append(opts, WithSeparator("--"))
	}
	return opts
}

// c46AS draws an AS number of the class selected by parameter bgp: 1 = decimal class
// (0..2^32-1), 0 = hex class (2^32..2^48-1).
func c46AS() AS {
	if verif.Param("bgp") == 1 {
		return AS(verif.NondetU32("as"))
	}
	as := AS(verif.NondetU64("as"))
	verif.Assume(as > MaxBGPAS)
	verif.Assume(as <= MaxAS)
	return as
}

// VerifC46ISD: every ISD number formats to text that parses back to itself.
func VerifC46ISD() {
	isd := ISD(verif.NondetU16("isd"))
	opts := c46Opts()
	s := FormatISD(isd, opts...)
	back, err := ParseFormattedISD(s, opts...)
	verif.Observe("fmt", s, err == nil, uint16(back))
	verif.Assert("isd-roundtrip", err == nil && back == isd)
	s2 := isd.String()
	b2, err := ParseISD(s2)
	verif.Assert("isd-string-roundtrip", err == nil && b2 == isd)
	verif.Cover("isd")
}

// VerifC46AS: every AS number (decimal up to 2^32-1, grouped hex above) formats to text that
// parses back to itself under the same options.
func VerifC46AS() {
	as := c46AS()
	opts := c46Opts()
	s := FormatAS(as, opts...)
	back, err := ParseFormattedAS(s, opts...)
	verif.Observe("fmt", s, err == nil, uint64(back))
	verif.Assert("as-roundtrip", err == nil && back == as)
	if verif.Param("sep") == 0 && verif.Param("prefix") == 0 {
		b2, err := ParseAS(as.String())
		verif.Assert("as-string-roundtrip", err == nil && b2 == as)
		txt, err := as.MarshalText()
		var b3 AS
		verif.Assert("as-text-roundtrip", err == nil && b3.UnmarshalText(txt) == nil && b3 == as)
	}
	verif.Cover("as")
}

// VerifC46ASEmptySep: "any custom separator, where an empty separator falls back to ':' as
// documented" (doc comment of WithSeparator: "In case of the empty string, the ':' is used").
func VerifC46ASEmptySep() {
	as := c46AS()
	s := FormatAS(as, WithSeparator(""))
	ref := FormatAS(as, WithSeparator(":"))
	back, err := ParseFormattedAS(s, WithSeparator(""))
	verif.Observe("fmt", s, ref, err == nil, uint64(back))
	verif.Cover("empty-sep")
	verif.Assert("empty-separator-falls-back-to-colon", s == ref)
	verif.Assert("as-roundtrip-empty-separator", err == nil && back == as)
}

// VerifC46IAEmptySep: the same for ISD-AS pairs.
func VerifC46IAEmptySep() {
	ia := c46IA()
	s := FormatIA(ia, WithSeparator(""))
	ref := FormatIA(ia, WithSeparator(":"))
	back, err := ParseFormattedIA(s, WithSeparator(""))
	verif.Observe("fmt", s, ref, err == nil, uint64(back))
	verif.Assert("ia-empty-separator-falls-back-to-colon", s == ref)
	verif.Assert("ia-roundtrip-empty-separator", err == nil && back == ia)
}

func c46IA() IA {
	if verif.Param("bgp") == 1 {
		return IA(uint64(verif.NondetU16("isd"))<<ASBits | uint64(verif.NondetU32("as")))
	}
	ia := IA(verif.NondetU64("ia"))
	verif.Assume(ia.AS() > MaxBGPAS)
	return ia
}

// VerifC46IA: ISD-AS pairs.
func VerifC46IA() {
	ia := c46IA()
	opts := c46Opts()
	s := FormatIA(ia, opts...)
	back, err := ParseFormattedIA(s, opts...)
	verif.Observe("fmt", s, err == nil, uint64(back))
	verif.Assert("ia-roundtrip", err == nil && back == ia)
	if verif.Param("sep") == 0 && verif.Param("prefix") == 0 {
		b2, err := ParseIA(ia.String())
		verif.Assert("ia-string-roundtrip", err == nil && b2 == ia)
	}
	if verif.Param("sep") == 0 && verif.Param("prefix") == 0 && verif.Param("bgp") == 1 {
		// the wrappers around ParseIA/String (same code for both AS classes)
		txt, err := ia.MarshalText()
		var b3 IA
		verif.Assert("ia-text-roundtrip", err == nil && b3.UnmarshalText(txt) == nil && b3 == ia)
		var b4 IA
		verif.Assert("ia-set-roundtrip", b4.Set(ia.String()) == nil && b4 == ia)
	}
	verif.Cover("ia")
}

// c46ValidSVC: the service addresses the text format has names for (DS, CS, Wildcard, each
// anycast or multicast). Other 16-bit values print as a diagnostic "<SVC:0x....>" and are
// outside the claim.
func c46ValidSVC(svc SVC) bool {
	base := svc &^ SVCMcast
	ok := base == SvcDS
	if base == SvcCS {
		ok = true
	}
	if base == SvcWildcard {
		ok = true
	}
	return ok
}

// VerifC46SVC: service addresses and SVC host addresses.
func VerifC46SVC() {
	svc := SVC(verif.NondetU16("svc"))
	verif.Assume(c46ValidSVC(svc))
	s := svc.String()
	back, err := ParseSVC(s)
	verif.Observe("svc", s, err == nil, uint16(back))
	verif.Assert("svc-roundtrip", err == nil && back == svc)
	h := HostSVC(svc)
	hb, err := ParseHost(h.String())
	verif.Assert("host-svc-roundtrip", err == nil && hb.Type() == HostTypeSVC && hb.SVC() == svc && hb == h)
	var h2 Host
	verif.Assert("host-svc-set-roundtrip", h2.Set(h.String()) == nil && h2 == h)
	if svc&SVCMcast != 0 {
		verif.Cover("svc-mcast")
	}
	verif.Cover("svc")
}

// VerifC46AddrSVC: full SCION address "isd-as,host" with a service host.
func VerifC46AddrSVC() {
	ia := c46IA()
	svc := SVC(verif.Param("svc"))
	a := Addr{IA: ia, Host: HostSVC(svc)}
	s := a.String()
	back, err := ParseAddr(s)
	verif.Observe("addr", s, err == nil, uint64(back.IA))
	verif.Assert("addr-roundtrip", err == nil && back == a)
	txt, err := a.MarshalText()
	var b2 Addr
	verif.Assert("addr-text-roundtrip", err == nil && b2.UnmarshalText(txt) == nil && b2 == a)
	verif.Cover("addr")
}

// ---- reachability twins: the assertions below must be violated ---------------------------------

func VerifC46TwinRoundtrip() {
	as := c46AS()
	back, err := ParseAS(FormatAS(as))
	verif.Assert("twin-roundtrip", err != nil || back != as)
}

func VerifC46TwinIA() {
	ia := c46IA()
	back, err := ParseIA(ia.String())
	verif.Assert("twin-ia", err == nil && back.AS() != ia.AS())
}
