package addr

import (
	"github.com/scionproto/scion/zz_verif/verif"
)

// c46Opts returns the format options selected by the entry parameters:
// prefix: 0/1; sep: 0 = default, 1 = ":", 2 = "_" (WithFileSeparator), 3 = "" (documented to
// fall back to ':'), 4 = "--" (custom multi-byte separator).
func c46Opts() []FormatOption {
	var opts []FormatOption
	if verif.Param("prefix") == 1 {
		opts = append(opts, WithDefaultPrefix())
	}
	switch verif.Param("sep") {
	case 1:
		opts = append(opts, WithSeparator(":"))
	case 2:
		opts = append(opts, WithFileSeparator())
	case 3:
		opts = append(opts, WithSeparator(""))
	case 4:
		opts = append(opts, WithSeparator("--"))
	}
	return opts
}

// VerifC46ISD: every ISD number formats to text that parses back to itself.
func VerifC46ISD() {
	isd := ISD(verif.NondetU16("isd"))
	opts := c46Opts()
	s := FormatISD(isd, opts...)
	back, err := ParseFormattedISD(s, opts...)
	verif.Observe("fmt", s, err == nil, uint16(back))
	verif.Assert("isd-roundtrip", err == nil && back == isd)
	s2 := isd.String()
	b2, err := ParseISD(s2)
	verif.Assert("isd-string-roundtrip", err == nil && b2 == isd)
	verif.Cover("isd")
}

// VerifC46AS: every AS number (decimal up to 2^32-1, grouped hex above) formats to text that
// parses back to itself under the same options.
func VerifC46AS() {
	as := AS(verif.NondetU64("as"))
	verif.Assume(as <= MaxAS)
	if verif.Param("bgp") == 1 {
		verif.Assume(as <= MaxBGPAS)
	} else {
		verif.Assume(as > MaxBGPAS)
	}
	opts := c46Opts()
	s := FormatAS(as, opts...)
	back, err := ParseFormattedAS(s, opts...)
	verif.Observe("fmt", s, err == nil, uint64(back))
	verif.Assert("as-roundtrip", err == nil && back == as)
	if verif.Param("sep") == 0 && verif.Param("prefix") == 0 {
		b2, err := ParseAS(as.String())
		verif.Assert("as-string-roundtrip", err == nil && b2 == as)
		txt, err := as.MarshalText()
		var b3 AS
		verif.Assert("as-text-roundtrip", err == nil && b3.UnmarshalText(txt) == nil && b3 == as)
	}
	verif.Cover("as")
}

// VerifC46IA: ISD-AS pairs.
func VerifC46IA() {
	ia := IA(verif.NondetU64("ia"))
	if verif.Param("bgp") == 1 {
		verif.Assume(ia.AS() <= MaxBGPAS)
	} else {
		verif.Assume(ia.AS() > MaxBGPAS)
	}
	opts := c46Opts()
	s := FormatIA(ia, opts...)
	back, err := ParseFormattedIA(s, opts...)
	verif.Observe("fmt", s, err == nil, uint64(back))
	verif.Assert("ia-roundtrip", err == nil && back == ia)
	if verif.Param("sep") == 0 && verif.Param("prefix") == 0 {
		b2, err := ParseIA(ia.String())
		verif.Assert("ia-string-roundtrip", err == nil && b2 == ia)
		txt, err := ia.MarshalText()
		var b3 IA
		verif.Assert("ia-text-roundtrip", err == nil && b3.UnmarshalText(txt) == nil && b3 == ia)
		var b4 IA
		verif.Assert("ia-set-roundtrip", b4.Set(ia.String()) == nil && b4 == ia)
	}
	verif.Cover("ia")
}

// ---- rejection: accepted text denotes the returned value -------------------------------------

func isDec(c byte) bool { return '0' <= c && c <= '9' }

func hexVal(c byte) (uint64, bool) {
	switch {
	case '0' <= c && c <= '9':
		return uint64(c - '0'), true
	case 'a' <= c && c <= 'f':
		return uint64(c-'a') + 10, true
	case 'A' <= c && c <= 'F':
		return uint64(c-'A') + 10, true
	}
	return 0, false
}

// refDec: reference value of a non-empty all-decimal string (saturating well above any limit).
func refDec(b []byte) (v uint64, ok bool) {
	if len(b) == 0 {
		return 0, false
	}
	ok = true
	for _, c := range b {
		ok = ok && isDec(c)
		if v < 1<<40 {
			v = v*10 + uint64(c-'0')
		}
	}
	return v, ok
}

// VerifC46ParseISD: ParseISD on an arbitrary string of the given length accepts exactly the
// decimal numerals <= 65535 and returns the denoted number.
func VerifC46ParseISD() {
	n := verif.Param("len")
	b := verif.NondetBytes("s", n)
	isd, err := ParseISD(string(b))
	v, ok := refDec(b)
	want := ok && v <= 65535
	verif.Observe("parse", err == nil, uint16(isd))
	verif.Assert("parse-isd-accepts-exactly-numerals-in-range", (err == nil) == want)
	if err == nil {
		verif.Assert("parse-isd-value", uint64(isd) == v)
		verif.Cover("isd-accepted")
	}
}

// VerifC46ParseAS: ParseAS accepts exactly decimal numerals <= 2^32-1 or three ':'-separated
// hex groups of 1..4 digits, and returns the denoted number.
func VerifC46ParseAS() {
	n := verif.Param("len")
	b := verif.NondetBytes("s", n)
	as, err := ParseAS(string(b))
	verif.Observe("parse", err == nil, uint64(as))
	// reference grammar
	colons := 0
	for _, c := range b {
		if c == ':' {
			colons++
		}
	}
	var want bool
	var val uint64
	if colons == 0 {
		v, ok := refDec(b)
		want, val = ok && v <= 0xffffffff, v
	} else if colons == 2 {
		want = true
		var grp uint64
		digits := 0
		for _, c := range b {
			if c == ':' {
				want = want && digits >= 1 && digits <= 4
				val = val<<16 | grp
				grp, digits = 0, 0
				continue
			}
			h, ok := hexVal(c)
			want = want && ok
			grp = (grp<<4 | h) & 0xfffff
			digits++
		}
		want = want && digits >= 1 && digits <= 4
		val = val<<16 | grp
	}
	verif.Assert("parse-as-accepts-exactly-the-grammar", (err == nil) == want)
	if err == nil {
		verif.Assert("parse-as-value", uint64(as) == val)
		verif.Cover("as-accepted")
	}
}
