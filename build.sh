#!/bin/sh
# Builds the symbolic engine offline from /verif/engine.
set -e
cd "$(dirname "$0")/engine"
export PATH=/opt/veriftools/go1.26.8/bin:$PATH GOTOOLCHAIN=local GOFLAGS=-mod=mod GOPROXY=off GOSUMDB=off CGO_ENABLED=0
mkdir -p ../bin
go build -o ../bin/symgo .
