import json
entries=[]
def E(func, params, tiers=None, must_fail=False):
    e={"func":func}
    if params: e["params"]=params
    if tiers: e["tiers"]=tiers
    if must_fail: e["must_fail"]=True
    entries.append(e)
both=["quick","thorough"]; th=["thorough"]
for v6 in (0,1):
    t = both if v6==0 else th
    for reuse in (1,0):
        E("VerifC17Provider", {"reuse":reuse,"v6":v6}, t)
    for (kind,alt,reuse) in [(0,0,1),(1,0,1),(1,1,1),(2,0,1),(2,1,1),(2,0,0),(3,0,1),(3,1,1),(3,0,0)]:
        tt = t
        if (kind,alt,reuse)==(3,0,0): tt = th
        E("VerifC17Connector", {"kind":kind,"alt":alt,"reuse":reuse,"v6":v6}, tt)
E("VerifC17Vacuity", None, None, True)
spec={
 "property":"C17","registered":True,
 "packages":["./router/underlayproviders/udpip"],
 "harness":{"router/underlayproviders/udpip/zz_verif_common.go":"harness/rconf/zz_verif_udpip_common.go","router/underlayproviders/udpip/zz_verif_c17.go":"harness/c17/zz_verif_c17.go"},
 "test_pkg":"./router/underlayproviders/udpip",
 "entries":entries,
 "tiers":{"quick":{"selfcheck_max":24},"thorough":{"selfcheck_max":64}},
 "covers":["internal-opened","external-opened","sibling-opened","sibling-detached","all-links-opened","provider-links-opened","provider-sibling-opened"],
 "assumptions":[
  "BFD is disabled in the router configuration used (config.BFD.Disable=true), so no BFD session (and no MAC key) is needed to add links; BFD does not take part in opening sockets",
  "link addresses are concrete IP literals (one IPv4 and one IPv6 address plan); buffer sizes are two free 64-bit values"
 ],
 "not_covered":[
  "the last step from conn.Config to the SO_RCVBUF/SO_SNDBUF socket options inside private/underlay/conn (initConnUDP: SetReadBuffer/SetWriteBuffer on a real *net.UDPConn) - it needs an open socket, which is never done here; the claim ends at the conn.Config handed to the connection opener (the observation point named by the property)",
  "underlay providers other than udpip (none exist in the tree)",
  "host names instead of IP literals in link addresses (resolution is the operating system's)"
 ],
 "stubs":[
  "udpip ConnOpener (uo{} -> conn.New) replaced through the provider's own SetConnOpener seam by a recorder that stores the *conn.Config it receives and returns an inert BatchConn; the provider factory registered with router.AddUnderlay is wrapped by a pass-through closure that only installs that opener",
  "a second registration name for the same udpip factory (router.AddUnderlay) so that the lazily-instantiating branches of AddExternalInterface/AddNextHop are reached",
  "crypto/rand.Read: fresh unconstrained bytes (hash seed), never fails",
  "prometheus/log packages are no-ops (metrics objects are inert)"
 ],
 "level_text":"Bounded symbolic model checking of the real router.Connector / dataPlane configuration code and the real udpip provider: receive and send buffer size are two free 64-bit solver variables; for every link kind (internal, external, connected sibling, detached sibling), both provider-instantiation routes and two address families the conn.Config recorded at the connection-opener seam is compared with the configured pair. z3 decides each assertion for all size pairs; witnesses are re-run natively and compared.",
 "level_note":"Trusted: go/ssa front end and the symgo interpreter (validated per run by the native differential self-check), z3 4.8.12, the recording ConnOpener. The sequence of configuration calls is the one of control.ConfigDataplane (internal interface first); link counts/addresses are concrete.",
 "design_ref":"DESIGN.md 7/C17"
}
json.dump(spec, open('/tmp/vw/rconf/checks/C17.json','w'), indent=1)
print(len(entries))
