#!/usr/bin/env python3
# usage: mut.py <ID> <mutfile.json> [base.diff]   -- runs each mutation on /tmp/rw/rconf, logs to /tmp/rconf-scratch/mut-<ID>.log
import json, subprocess, sys, os
ID, mf = sys.argv[1], sys.argv[2]
base = sys.argv[3] if len(sys.argv) > 3 else None
RW = os.environ.get("MUT_RW", "/tmp/rw/rconf")
log = open(f'/tmp/rconf-scratch/mut-{ID}.log', 'a')
def sh(cmd, **kw): return subprocess.run(cmd, shell=True, capture_output=True, text=True, **kw)
muts = json.load(open(mf))
for m in muts:
    sh(f'git -C {RW} checkout -- .')
    if base: 
        r = sh(f'git -C {RW} apply {base}')
        assert r.returncode == 0, r.stderr
    p = os.path.join(RW, m['file'])
    s = open(p).read()
    if s.count(m['old']) != 1:
        log.write(f"## {m['name']}: pattern count {s.count(m['old'])} != 1 -- SKIPPED\n"); log.flush(); continue
    open(p, 'w').write(s.replace(m['old'], m['new']))
    env = dict(os.environ, VERIF_REPO=RW)
    if m.get('no_known'): env['VERIF_NO_KNOWN'] = '1'
    extra = m.get('flags', '')
    r = sh(f'cd /tmp/vw/rconf && {os.environ.get("MUT_CHECK", "./check")} {ID} quick -no-evidence -no-selfcheck -workers 3 {extra}', env=env)
    lines = [l for l in r.stdout.splitlines() if l.startswith(('VIOLATION', '  clause=', 'INCONCLUSIVE', 'OK ', 'KNOWN', 'property='))]
    verdict = 'CAUGHT' if r.returncode == 1 else ('MISSED' if r.returncode == 0 else 'INCONCLUSIVE')
    log.write(f"## {m['name']}: exit={r.returncode} {verdict}\n" + '\n'.join(l[:300] for l in lines[:14]) + '\n'); log.flush()
sh(f'git -C {RW} checkout -- .')
log.write('## done\n'); log.close()
