import json
entries=[]
for kind in (0,1,2,3):
    for b in (1,0):
        if kind==3 and b==0: continue
        entries.append({"func":"VerifC15Link","params":{"kind":kind,"bfd":b}})
entries.append({"func":"VerifC15Vacuity","must_fail":True})
spec={
 "property":"C15","registered":True,
 "packages":["./router/underlayproviders/udpip"],
 "harness":{
  "router/underlayproviders/udpip/zz_verif_common.go":"harness/rconf/zz_verif_udpip_common.go",
  "router/underlayproviders/udpip/zz_verif_c15.go":"harness/c15/zz_verif_c15.go",
  "router/zz_verif_c15_router.go":"harness/c15/zz_verif_c15_router.go",
  "router/bfd/zz_verif_c15_bfd.go":"harness/c15/zz_verif_c15_bfd.go"},
 "test_pkg":"./router/underlayproviders/udpip",
 "entries":entries,
 "tiers":{"quick":{"selfcheck_max":24},"thorough":{"selfcheck_max":64}},
 "covers":["first-usable","first-down","second-usable","second-down","state-changed"],
 "assumptions":[],"not_covered":[],"stubs":[],"level_text":"","level_note":"","design_ref":"DESIGN.md 7/C15"}
json.dump(spec,open('/tmp/vw/rconf/checks/C15.json','w'),indent=1)

spec["assumptions"]=[
 "the BFD session's local state is one of the four RFC 5880 states (AdminDown, Down, Init, Up); the session object is created in that state by a harness constructor in package bfd and is never Run (how the state evolves is C16)",
 "the interface id under which the link is filed is one of 1, 5, 65535 (the interface table is indexed concretely per path)"
]
spec["not_covered"]=[
 "whole-packet part, left to the router packet-step harness: that every packet the router forwards (all path types, fast and slow path) passes scionPacketProcessor.validateEgressUp for its egress link before Link.Send; contents of the SCMP ExternalInterfaceDown / InternalConnectivityDown message (local ISD-AS, interface ids) built by the slow path from the slowPathRequest decided here",
 "processOHP (one-hop paths leaving the AS) sets pkt.egress and returns pForward without calling validateEgressUp: to be judged by the router-step harness (see notes/C15.md)",
 "Link.Send of all three link types does not consult the BFD state (recorded by an Observe, not asserted): BFD control packets must pass while the session is down",
 "histories: the decision is shown to depend on the session state at decision time only (two consecutive decisions with independent states); the state sequence itself is C16"
]
spec["stubs"]=[
 "bfd.VerifSession / VerifSetState (harness file in package bfd): &Session{localState: st} and the session's own setLocalState",
 "router.VerifEgressUpStep (harness file in package router): builds &dataPlane{} with interfaces[ifID] = the real udpip link and a scionPacketProcessor{d, pkt} and calls the real validateEgressUp",
 "udpip ConnOpener replaced by a recorder (no sockets); crypto/rand.Read = unconstrained bytes; prometheus/log no-ops"
]
spec["level_text"]="Bounded symbolic model checking of the real udpip link objects (connectedLink as external and sibling link, detachedLink, internalLink) created through the provider API with a real bfd.Session in a symbolic local state, composed with the router's real validateEgressUp: IsUp/Scope/BFDSession and the resulting disposition + SCMP type are decided for all four session states, with and without session, twice in a row with independent states."
spec["level_note"]="Link-level part of C15 only; the packet-level part is the router-step harness's. Trusted: go/ssa front end, symgo interpreter (native differential self-check per run), z3 4.8.12."
json.dump(spec,open('/tmp/vw/rconf/checks/C15.json','w'),indent=1)
