import json, sys
with_port = len(sys.argv) < 2 or sys.argv[1] != "noport"
both=["quick","thorough"]; th=["thorough"]
entries=[
  {"func":"VerifC11ResolveIP","params":{"v6":0}},
  {"func":"VerifC11ResolveIP","params":{"v6":1}},
  {"func":"VerifC11ResolveSVC","params":{"instances":1}},
  {"func":"VerifC11ResolveSVC","params":{"instances":2}},
  {"func":"VerifC11Config","params":{"order":0,"override":0}},
  {"func":"VerifC11Config","params":{"order":1,"override":0}},
  {"func":"VerifC11Config","params":{"order":0,"override":1}},
  {"func":"VerifC11Config","params":{"order":1,"override":1}},
  {"func":"VerifC11Vacuity","must_fail":True},
]
covers=["resolve-port-in-range","resolve-port-outside-range","svc-registered","svc-other","svc-port-judged","configured",
  "configured-port-in-range","configured-port-outside-range"]
harness={
  "router/underlayproviders/udpip/zz_verif_common.go":"harness/rconf/zz_verif_udpip_common.go",
  "router/underlayproviders/udpip/zz_verif_c11.go":"harness/c11/zz_verif_c11.go",
  "router/zz_verif_c11_router.go":"harness/c11/zz_verif_c11_router.go"}
if with_port:
    harness["router/zz_verif_c11_port.go"]="harness/c11/zz_verif_c11_port.go"
    harness["router/underlayproviders/udpip/zz_verif_c11_port_entries.go"]="harness/c11/zz_verif_c11_port_entries.go"
    entries += [
      {"func":"VerifC11PortL4","params":{"l4":17,"len":8}},
      {"func":"VerifC11PortL4","params":{"l4":17,"len":12},"tiers":th},
      {"func":"VerifC11PortL4","params":{"l4":6,"len":20}},
      {"func":"VerifC11PortL4","params":{"l4":6,"len":24},"tiers":th},
      {"func":"VerifC11PortSCMPInfo","params":{"len":8}},
      {"func":"VerifC11PortSCMPInfo","params":{"len":24}},
      {"func":"VerifC11PortSCMPInfo","params":{"len":32},"tiers":th},
      {"func":"VerifC11PortSCMPError","params":{"quote":17}},
      {"func":"VerifC11PortSCMPError","params":{"quote":202}},
      {"func":"VerifC11PortVacuity","must_fail":True},
    ]
    covers += ["l4-delivered","scmp-reply","scmp-request","scmp-error-quoting-udp","scmp-error-quoting-echo-request"]
spec={
 "property":"C11","registered":True,
 "packages":["./router/underlayproviders/udpip"],
 "harness":harness,
 "test_pkg":"./router/underlayproviders/udpip",
 "entries":entries,
 "tiers":{"quick":{"selfcheck_max":24},"thorough":{"selfcheck_max":64}},
 "covers":covers,
 "assumptions":[
  "(start,end) is a value topology.validatePortRange can produce: (0,0) for '-'/unset, (1,65535) for 'all', or 1 <= start <= end; router-config overrides likewise",
  "L4 port 0 is outside the claim ('-' is the empty range although stored as (0,0))",
  "destination hosts that the router refuses (IPv4-mapped IPv6, unspecified address) are outside the statement",
  "service instances listening on a port outside the dispatched range are outside the claim: the statement says 'address and port of a registered instance', the port-dispatch design applies the range to every underlay port (upstream redirects such instances to 30041) - ambiguous, assumed away; instances inside the range must keep their port",
  "which of several registered instances is picked (math/rand/v2.IntN) is arbitrary: claims hold for every pick"
 ],
 "not_covered":[
  "parsing of the topology string ('-', 'all', 'a-b') by topology.validatePortRange (strconv/strings on concrete configuration text): the range enters as the (start,end) pair it produces",
  "SCMP error messages other than DestinationUnreachable, quoted packets with a non-empty path or IPv6 hosts, quoted traceroute requests; hop-by-hop/end-to-end extension headers between SCION header and L4 (the port half hands lastLayer = the SCION layer itself)",
  "that processPkt reaches resolveLocalDst for exactly the packets addressed to the local AS (router packet-step harness)",
  "underlay providers other than udpip"
 ],
 "stubs":[
  "udpip ConnOpener replaced through SetConnOpener by a recorder (no sockets); provider factory re-registered through router.AddUnderlay with a pass-through wrapper that installs it",
  "router.VerifInternalLink (harness file in package router): returns Connector.DataPlane.interfaces[0]",
  "port half: a recording router.Link as interfaces[0] of a &dataPlane{}; the SCION layer is a struct literal (DstAddrType T4Ip, RawDstAddr, NextHdr, Payload)",
  "crypto/rand.Read = unconstrained bytes; math/rand/v2.IntN = any value in range; prometheus/log no-ops"
 ],
 "level_text":"Bounded symbolic model checking of the real code in three composed parts: (1) router.resolveLocalDst/dstScionPort/getDstPortSCMP on symbolic UDP/TCP/SCMP bytes -> (host, port) handed to the internal link; (2) udpip internalLink.Resolve with symbolic range, port, host address (IPv4/IPv6) and service instances -> underlay address left in the packet, against the oracle 'port in [start,end] ? port : 30041'; (3) router.Connector configured through its public API in both orders of SetPortRange/AddInternalInterface, with and without router-config override -> effective range of the internal link. z3 decides every assertion over all values; witnesses are replayed natively.",
 "level_note":"Trusted: go/ssa front end, symgo interpreter (native differential self-check per run), z3 4.8.12, the oracle transcribed from doc/dev/design/router-port-dispatch.rst. Open findings are listed in known_findings.json.",
 "design_ref":"DESIGN.md 7/C11"
}
json.dump(spec,open('/tmp/vw/rconf/checks/C11.json','w'),indent=1)
