package main

// Intrinsics added for the router-configuration properties (C11, C15, C17).

import (
	"fmt"
	"strings"
)

func init() {
	extraNatives = append(extraNatives, func(e *Engine) {
		n := e.natives

		// crypto/rand.Read fills the buffer with fresh unconstrained bytes (hash seeds etc.);
		// never fails. Natively the real generator runs; harnesses must not observe the bytes.
		n["crypto/rand.Read"] = func(x *Exec, fr *frame, a []Value) Value {
			b := a[0].([]Value)
			for i := range b {
				x.write(&b[i], x.nondet(fmt.Sprintf("crypto/rand[%d]", i), 8, "u8"), nil)
			}
			return Tuple{uint64(len(b)), Iface{}}
		}
	})
}

// isNoopPkg reports whether path lies in one of the no-op (logging/metrics) packages.
func (e *Engine) isNoopPkg(path string) bool {
	for _, pre := range e.noopPkgs {
		if path == pre || strings.HasPrefix(path, pre+"/") {
			return true
		}
	}
	return false
}
