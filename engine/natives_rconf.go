package main

// Intrinsics added for the router-configuration properties (C11, C15, C17).

import (
	"fmt"
	"strings"
)

func init() {
	extraNatives = append(extraNatives, func(e *Engine) {
		n := e.natives

		// crypto/rand.Read fills the buffer with fresh unconstrained bytes (hash seeds etc.);
		// never fails. Natively the real generator runs; harnesses must not observe the bytes.
		n["crypto/rand.Read"] = func(x *Exec, fr *frame, a []Value) Value {
			b := a[0].([]Value)
			for i := range b {
				x.write(&b[i], x.nondet(fmt.Sprintf("crypto/rand[%d]", i), 8, "u8"), nil)
			}
			return Tuple{uint64(len(b)), Iface{}}
		}

		// math/rand/v2.IntN(n): any value in [0,n). Natively the real generator runs; harnesses
		// must state their claims for every possible pick and not observe the pick itself.
		n["math/rand/v2.IntN"] = func(x *Exec, fr *frame, a []Value) Value {
			k, ok := a[0].(uint64)
			if !ok {
				x.unsupported("rand.IntN with a symbolic bound")
			}
			if int64(k) <= 0 {
				x.tpanic("invalid argument to IntN")
			}
			if k == 1 {
				return uint64(0)
			}
			t := x.nondet("math/rand.IntN", 64, "u64")
			x.addPC(x.st.Cmp(OpUlt, t, x.st.Const(64, k)))
			return t
		}
	})
}

// isNoopPkg reports whether path lies in one of the no-op (logging/metrics) packages.
func (e *Engine) isNoopPkg(path string) bool {
	for _, pre := range e.noopPkgs {
		if path == pre || strings.HasPrefix(path, pre+"/") {
			return true
		}
	}
	return false
}
