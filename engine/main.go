package main

import (
	"encoding/json"
	"flag"
	"fmt"
	"os"
	"os/exec"
	"path/filepath"
	"runtime/pprof"
	"sort"
	"strings"
	"sync"
	"time"

	"golang.org/x/tools/go/packages"
	"golang.org/x/tools/go/ssa"
	"golang.org/x/tools/go/ssa/ssautil"
)

// repoDir is the tree under check. VERIF_REPO overrides it for development only (running a check
// against a scratch worktree carrying a seeded change); registered commands never set it.
var repoDir = "/repo"

var verifDir = "/verif"

// stopOnViolation (env SYMGO_STOP_ON_VIOLATION=1) ends the exploration at the first violation of a
// non-twin entry. Development aid for trying breaking changes; registered commands never set it.
var stopOnViolation = os.Getenv("SYMGO_STOP_ON_VIOLATION") != ""

// ---- check specification ------------------------------------------------------------------------

type EntrySpec struct {
	Func   string           `json:"func"`
	Params map[string]int64 `json:"params"`
	Tiers  []string         `json:"tiers"` // empty = all tiers
	// Sweep: parameter name -> [lo, hi] per tier; expands into one instance per value combination.
	Sweep map[string]map[string][2]int64 `json:"sweep"`
	// ExpectViolation marks entries that are reachability/vacuity twins: they must be violated.
	MustFail bool `json:"must_fail"`
}

type TierSpec struct {
	MaxSteps      int `json:"max_steps"`
	MaxDecisions  int `json:"max_decisions"`
	MaxPaths      int `json:"max_paths"`
	MaxValuesSite int `json:"max_values_site"`
	QueryTimeoutS int `json:"query_timeout_s"`
	SelfCheckMax  int `json:"selfcheck_max"`
}

type Spec struct {
	Property      string              `json:"property"`
	Packages      []string            `json:"packages"`
	Harness       map[string]string   `json:"harness"` // repo-relative path -> /verif-relative source
	TestPkg       string              `json:"test_pkg"`
	Entries       []EntrySpec         `json:"entries"`
	Tiers         map[string]TierSpec `json:"tiers"`
	Covers        []string            `json:"covers"`
	ReplayRewrite []string            `json:"replay_rewrite"`
	// SourceRewrite: repo file -> list of [old, new] textual replacements applied to the file's current
	// content, for the symbolic run (overlay) and the native runs alike (e.g. redirecting time.NewTimer
	// to a harness-level timer). Every pattern must occur, otherwise the check is inconclusive.
	SourceRewrite map[string][][2]string `json:"source_rewrite"`
	Assumptions   []string            `json:"assumptions"`
	NotCovered    []string            `json:"not_covered"`
	Stubs         []string            `json:"stubs"`
	NoopPkgs      []string            `json:"noop_pkgs"`
	FuncStubs     []FuncStub          `json:"func_stubs"` // see natives_trust1.go
	MergeFuncs    []string            `json:"merge_funcs"` // see merge.go
	TermOpts      []string            `json:"term_opts"` // optional term rewrites: linsum, boundlemmas
	Level         string              `json:"level"`
	// SrcRewrite: call-site stubs. Textual substitutions applied to the *current* repo source of the
	// listed files, used identically by the interpreter and by native runs (so both sides see the same
	// stub). Every pattern must occur in the file, otherwise the check is inconclusive (stale stub).
	SrcRewrite []SrcRewrite `json:"src_rewrite"`
}

type SrcRewrite struct {
	File  string      `json:"file"`
	Subst [][2]string `json:"subst"`
}

// rewrittenSources returns repo-relative file -> rewritten source for the spec's src_rewrite entries.
// foldRewrites merges the src_rewrite form into source_rewrite (same semantics, two spellings).
func (spec *Spec) foldRewrites() {
	for _, rw := range spec.SrcRewrite {
		if spec.SourceRewrite == nil {
			spec.SourceRewrite = map[string][][2]string{}
		}
		spec.SourceRewrite[rw.File] = append(spec.SourceRewrite[rw.File], rw.Subst...)
	}
	spec.SrcRewrite = nil
}

func rewrittenSources(spec *Spec) (map[string]string, error) {
	out := map[string]string{}
	for _, rw := range spec.SrcRewrite {
		src, ok := out[rw.File]
		if !ok {
			raw, err := os.ReadFile(filepath.Join(repoDir, rw.File))
			if err != nil {
				return nil, err
			}
			src = string(raw)
		}
		for _, s := range rw.Subst {
			if !strings.Contains(src, s[0]) {
				return nil, fmt.Errorf("src_rewrite %s: pattern not found (stale stub): %q", rw.File, s[0])
			}
			src = strings.ReplaceAll(src, s[0], s[1])
		}
		out[rw.File] = src
	}
	return out, nil
}

type KnownFinding struct {
	Property string            `json:"property"`
	Clause   string            `json:"clause"`
	Entry    string            `json:"entry,omitempty"`
	Params   map[string]int64  `json:"params,omitempty"`
	Where    map[string]string `json:"where,omitempty"` // input name -> required value ("*" = any)
	What     string            `json:"what"`
	Status   string            `json:"status"` // "open" | "fixed"
	Commit   string            `json:"commit,omitempty"`
}

func goEnv() []string {
	env := os.Environ()
	env = append(env, "GOFLAGS=-mod=mod", "GOPROXY=off", "GOSUMDB=off", "GOTOOLCHAIN=local",
		"PATH=/opt/veriftools/go1.26.8/bin:"+os.Getenv("PATH"), "CGO_ENABLED=0")
	return env
}

func fatal(code int, format string, args ...any) {
	fmt.Fprintf(os.Stderr, format+"\n", args...)
	os.Exit(code)
}

func main() {
	os.Setenv("PATH", "/opt/veriftools/go1.26.8/bin:"+os.Getenv("PATH"))
	os.Setenv("GOTOOLCHAIN", "local")
	os.Setenv("GOFLAGS", "-mod=mod")
	os.Setenv("GOPROXY", "off")
	os.Setenv("GOSUMDB", "off")
	if v := os.Getenv("VERIF_DIR"); v != "" {
		verifDir = v
	}
	if v := os.Getenv("VERIF_REPO"); v != "" {
		repoDir = v
	}
	if len(os.Args) < 2 {
		fatal(2, "usage: symgo check <spec.json> [flags]")
	}
	switch os.Args[1] {
	case "check":
		if pf := os.Getenv("SYMGO_CPUPROFILE"); pf != "" {
			f, _ := os.Create(pf)
			pprof.StartCPUProfile(f)
			code := cmdCheck(os.Args[2:])
			pprof.StopCPUProfile()
			f.Close()
			os.Exit(code)
		}
		os.Exit(cmdCheck(os.Args[2:]))
	case "replay":
		os.Exit(cmdReplay(os.Args[2:]))
	default:
		fatal(2, "unknown command %s", os.Args[1])
	}
}

// cmdReplay re-runs the counterexample stored in a replay file natively against /repo's current tree.
// exit 1: the violation reproduces; 0: it does not (the property clause holds on that input); 2: error.
func cmdReplay(args []string) int {
	if len(args) < 1 {
		fatal(2, "usage: symgo replay <replay.json>")
	}
	raw, err := os.ReadFile(args[0])
	if err != nil {
		fatal(2, "cannot read replay file: %v", err)
	}
	var rp struct {
		Property string     `json:"property"`
		Spec     string     `json:"spec"`
		Clause   string     `json:"clause"`
		Kind     string     `json:"kind"`
		Case     nativeCase `json:"case"`
	}
	if err := json.Unmarshal(raw, &rp); err != nil {
		fatal(2, "bad replay file: %v", err)
	}
	sraw, err := os.ReadFile(filepath.Join(verifDir, rp.Spec))
	if err != nil {
		fatal(2, "cannot read spec %s: %v", rp.Spec, err)
	}
	var spec Spec
	if err := json.Unmarshal(sraw, &spec); err != nil {
		fatal(2, "bad spec: %v", err)
	}
	spec.foldRewrites()
	res, err := runNative(&spec, []nativeCase{rp.Case})
	if err != nil {
		fmt.Printf("INCONCLUSIVE property=%s: native replay failed: %v\n", rp.Property, err)
		return 2
	}
	fmt.Printf("replay property=%s entry=%s clause=%s native_end=%s\n", rp.Property, rp.Case.Entry, rp.Clause, res[0].End)
	for _, o := range res[0].Observed {
		fmt.Println("  observed", o)
	}
	if (rp.Kind == "panic" && strings.HasPrefix(res[0].End, "panic:")) || res[0].End == "assert:"+rp.Clause {
		fmt.Printf("VIOLATION property=%s replay=%s\n", rp.Property, args[0])
		return 1
	}
	fmt.Println("not reproduced on the current tree")
	return 0
}

type instance struct {
	entry  EntrySpec
	params map[string]int64
}

func expandEntries(spec *Spec, tier string, only string) []instance {
	var out []instance
	for _, e := range spec.Entries {
		if only != "" && e.Func != only {
			continue
		}
		if len(e.Tiers) > 0 {
			ok := false
			for _, t := range e.Tiers {
				if t == tier {
					ok = true
				}
			}
			if !ok {
				continue
			}
		}
		base := map[string]int64{}
		for k, v := range e.Params {
			base[k] = v
		}
		combos := []map[string]int64{base}
		names := make([]string, 0, len(e.Sweep))
		for n := range e.Sweep {
			names = append(names, n)
		}
		sort.Strings(names)
		for _, n := range names {
			rng, ok := e.Sweep[n][tier]
			if !ok {
				rng, ok = e.Sweep[n]["quick"]
				if !ok {
					continue
				}
			}
			var next []map[string]int64
			for _, c := range combos {
				for v := rng[0]; v <= rng[1]; v++ {
					m := map[string]int64{}
					for k, x := range c {
						m[k] = x
					}
					m[n] = v
					next = append(next, m)
				}
			}
			combos = next
		}
		for _, c := range combos {
			out = append(out, instance{e, c})
		}
	}
	return out
}

func paramString(p map[string]int64) string {
	keys := make([]string, 0, len(p))
	for k := range p {
		keys = append(keys, k)
	}
	sort.Strings(keys)
	var sb strings.Builder
	for i, k := range keys {
		if i > 0 {
			sb.WriteString(",")
		}
		fmt.Fprintf(&sb, "%s=%d", k, p[k])
	}
	return sb.String()
}

type instResult struct {
	inst       instance
	paths      int
	nodes      int
	edges      int
	steps      int
	ends       map[string]int
	asserts    map[string]map[string]int // clause -> status -> count
	violations []*Violation
	covers     map[string]bool
	witnesses  []*Witness
	ifconv     int
	inconcl    []string
	queries    int
	solveTime  time.Duration
	wall       time.Duration
}

func cmdCheck(args []string) int {
	fs := flag.NewFlagSet("check", flag.ExitOnError)
	tier := fs.String("tier", "quick", "quick|thorough")
	only := fs.String("entry", "", "run only this entry function")
	trace := fs.Bool("trace", false, "trace interpreted instructions")
	noSelf := fs.Bool("no-selfcheck", false, "skip native differential self-check")
	workers := fs.Int("workers", 16, "parallel workers")
	verbose := fs.Bool("v", false, "verbose")
	smtlog := fs.String("smtlog", "", "write solver input of worker 0 to this file")
	paramOverride := fs.String("params", "", "k=v,k=v overrides (debugging)")
	noEvidence := fs.Bool("no-evidence", false, "do not write evidence file")
	noIfConv := fs.Bool("no-ifconv", false, "disable if-conversion (debugging)")
	if len(args) < 1 {
		fatal(2, "usage: symgo check <spec.json> [flags]")
	}
	specPath := args[0]
	fs.Parse(args[1:])
	if env := os.Getenv("VERIF_TIER"); env != "" && !flagSet(fs, "tier") {
		*tier = env
	}
	seed := int64(1)
	if s := os.Getenv("VERIF_SEED"); s != "" {
		fmt.Sscan(s, &seed)
	}
	t0 := time.Now()
	raw, err := os.ReadFile(specPath)
	if err != nil {
		fatal(2, "cannot read spec: %v", err)
	}
	var spec Spec
	if err := json.Unmarshal(raw, &spec); err != nil {
		fatal(2, "bad spec %s: %v", specPath, err)
	}
	spec.foldRewrites()
	ts, ok := spec.Tiers[*tier]
	if !ok {
		fatal(2, "spec has no tier %s", *tier)
	}
	setTermOpts(append(defaultTermOpts(spec.Property), spec.TermOpts...))
	fillDefaults(&ts)

	eng, err := loadEngine(&spec)
	if err != nil {
		fmt.Printf("INCONCLUSIVE property=%s: cannot load /repo: %v\n", spec.Property, err)
		return 2
	}
	loadT := time.Since(t0)
	if *verbose {
		fmt.Fprintf(os.Stderr, "loaded in %.1fs\n", loadT.Seconds())
	}

	insts := expandEntries(&spec, *tier, *only)
	if len(insts) == 0 {
		fatal(2, "no entries for tier %s", *tier)
	}
	if *paramOverride != "" {
		for _, kv := range strings.Split(*paramOverride, ",") {
			var k string
			var v int64
			parts := strings.SplitN(kv, "=", 2)
			k = parts[0]
			fmt.Sscan(parts[1], &v)
			for i := range insts {
				insts[i].params[k] = v
			}
		}
	}
	{
		seen := map[string]bool{}
		var uniq []instance
		for _, in := range insts {
			k := in.entry.Func + "(" + paramString(in.params) + ")"
			if !seen[k] {
				seen[k] = true
				uniq = append(uniq, in)
			}
		}
		insts = uniq
	}
	var results []*instResult
	inconclusive := []string{}
	for _, in := range insts {
		cfg := Config{MaxSteps: ts.MaxSteps, MaxDecisions: ts.MaxDecisions, MaxPaths: ts.MaxPaths,
			MaxValuesSite: ts.MaxValuesSite, QueryTimeout: time.Duration(ts.QueryTimeoutS) * time.Second,
			Workers: *workers, Params: in.params, Trace: *trace, Seed: seed, NoIfConv: *noIfConv}
		r := explore(eng, cfg, in, ts.SelfCheckMax, *smtlog)
		results = append(results, r)
		if *verbose {
			fmt.Fprintf(os.Stderr, "%s(%s): paths=%d ends=%v violations=%d ifconv=%d queries=%d solve=%.1fs wall=%.1fs\n",
				in.entry.Func, paramString(in.params), r.paths, r.ends, len(r.violations), r.ifconv, r.queries, r.solveTime.Seconds(), r.wall.Seconds())
		}
		for _, m := range r.inconcl {
			inconclusive = append(inconclusive, fmt.Sprintf("%s(%s): %s", in.entry.Func, paramString(in.params), m))
		}
		if stopOnViolation && !in.entry.MustFail && len(r.violations) > 0 {
			break
		}
	}
	return report(&spec, *tier, seed, eng, results, inconclusive, *noSelf, *noEvidence, t0, *verbose)
}

func flagSet(fs *flag.FlagSet, name string) bool {
	found := false
	fs.Visit(func(f *flag.Flag) {
		if f.Name == name {
			found = true
		}
	})
	return found
}

func fillDefaults(ts *TierSpec) {
	if ts.MaxSteps == 0 {
		ts.MaxSteps = 2000000
	}
	if ts.MaxDecisions == 0 {
		ts.MaxDecisions = 400
	}
	if ts.MaxPaths == 0 {
		ts.MaxPaths = 20000
	}
	if ts.MaxValuesSite == 0 {
		ts.MaxValuesSite = 64
	}
	if ts.QueryTimeoutS == 0 {
		ts.QueryTimeoutS = 60
	}
	if ts.SelfCheckMax == 0 {
		ts.SelfCheckMax = 32
	}
}

// ---- loading ------------------------------------------------------------------------------------

func overlayFor(spec *Spec) (map[string][]byte, error) {
	ov := map[string][]byte{}
	vsrc, err := os.ReadFile(filepath.Join(verifDir, "harness/verif/verif.go"))
	if err != nil {
		return nil, err
	}
	ov[filepath.Join(repoDir, "zz_verif/verif/verif.go")] = vsrc
	for virt, real := range spec.Harness {
		src, err := os.ReadFile(filepath.Join(verifDir, real))
		if err != nil {
			return nil, err
		}
		ov[filepath.Join(repoDir, virt)] = src
	}
	for f := range spec.SourceRewrite {
		out, err := rewrittenSource(spec, f)
		if err != nil {
			return nil, err
		}
		ov[filepath.Join(repoDir, f)] = []byte(out)
	}
	return ov, nil
}

// rewrittenSource applies the spec's source_rewrite entries for repo file f to its current content.
func rewrittenSource(spec *Spec, f string) (string, error) {
	raw, err := os.ReadFile(filepath.Join(repoDir, f))
	if err != nil {
		return "", err
	}
	src := string(raw)
	for _, r := range spec.SourceRewrite[f] {
		if !strings.Contains(src, r[0]) {
			return "", fmt.Errorf("source_rewrite: pattern %q does not occur in %s", r[0], f)
		}
		src = strings.ReplaceAll(src, r[0], r[1])
	}
	return src, nil
}

func loadEngine(spec *Spec) (*Engine, error) {
	ov, err := overlayFor(spec)
	if err != nil {
		return nil, err
	}
	cfg := &packages.Config{
		Mode:    packages.LoadAllSyntax,
		Dir:     repoDir,
		Env:     goEnv(),
		Overlay: ov,
		Tests:   false,
	}
	patterns := append([]string{"./zz_verif/verif", "errors", "fmt"}, spec.Packages...)
	pkgs, err := packages.Load(cfg, patterns...)
	if err != nil {
		return nil, err
	}
	var errs []string
	packages.Visit(pkgs, nil, func(p *packages.Package) {
		for _, e := range p.Errors {
			errs = append(errs, e.Error())
		}
	})
	if len(errs) > 0 {
		if len(errs) > 10 {
			errs = errs[:10]
		}
		return nil, fmt.Errorf("package errors:\n%s", strings.Join(errs, "\n"))
	}
	prog, _ := ssautil.AllPackages(pkgs, ssa.InstantiateGenerics)
	e := &Engine{prog: prog, pkgs: map[string]*ssa.Package{}, natives: map[string]NativeFn{}, pkgInitHook: map[string]func(*Exec, *ssa.Package){}}
	for _, p := range prog.AllPackages() {
		e.pkgs[p.Pkg.Path()] = p
	}
	e.noopPkgs = append([]string{
		"github.com/scionproto/scion/pkg/log",
		"github.com/scionproto/scion/pkg/metrics",
		"github.com/scionproto/scion/pkg/metrics/v2",
		"github.com/scionproto/scion/pkg/private/prom",
		"github.com/prometheus/client_golang",
		"github.com/opentracing/opentracing-go",
		"go.uber.org/zap",
	}, spec.NoopPkgs...)
	e.mergeFns = map[string]bool{}
	for _, f := range spec.MergeFuncs {
		e.mergeFns[f] = true
	}
	e.errString = prog.ImportedPackage("errors").Type("errorString").Type()
	registerNatives(e)
	registerFuncStubs(e, spec)
	// harness packages are built eagerly (cheap) so that entry lookup works
	for _, p := range pkgs {
		if sp := prog.Package(p.Types); sp != nil {
			sp.Build()
		}
	}
	return e, nil
}

func (e *Engine) findEntry(name string) *ssa.Function {
	for _, p := range e.prog.AllPackages() {
		if strings.HasPrefix(p.Pkg.Path(), "github.com/scionproto/scion") {
			if f := p.Func(name); f != nil {
				return f
			}
		}
	}
	return nil
}

// ---- exploration ----------------------------------------------------------------------------------

func explore(eng0 *Engine, cfg Config, in instance, selfMax int, smtlog string) *instResult {
	t0 := time.Now()
	// instances run one after the other, so the configuration can live in the engine
	e := eng0
	e.cfg = cfg
	res := &instResult{inst: in, ends: map[string]int{}, asserts: map[string]map[string]int{}, covers: map[string]bool{}}
	entry := e.findEntry(in.entry.Func)
	if entry == nil {
		res.inconcl = append(res.inconcl, "entry function not found: "+in.entry.Func)
		return res
	}
	var mu sync.Mutex
	violPerClause := map[string]int{}
	cond := sync.NewCond(&mu)
	queue := [][]Decision{nil}
	active := 0
	stopped := false
	var wg sync.WaitGroup
	nw := cfg.Workers
	if nw < 1 {
		nw = 1
	}
	for w := 0; w < nw; w++ {
		wg.Add(1)
		go func(w int) {
			defer wg.Done()
			solver, err := NewSolver(primarySolverKind(), cfg.QueryTimeout)
			if err != nil {
				mu.Lock()
				res.inconcl = append(res.inconcl, "cannot start solver: "+err.Error())
				stopped = true
				cond.Broadcast()
				mu.Unlock()
				return
			}
			defer solver.Close()
			if w == 0 && smtlog != "" {
				f, _ := os.Create(smtlog)
				defer f.Close()
				solver.log = f
			}
			for {
				mu.Lock()
				for len(queue) == 0 && active > 0 && !stopped {
					cond.Wait()
				}
				if stopped || (len(queue) == 0 && active == 0) {
					cond.Broadcast()
					mu.Unlock()
					break
				}
				prefix := queue[len(queue)-1]
				queue = queue[:len(queue)-1]
				active++
				wantW := len(res.witnesses) < selfMax*4
				mu.Unlock()

				pr := e.RunPath(solver, entry, prefix, wantW)

				mu.Lock()
				if os.Getenv("SYMGO_PATHS") != "" {
					fmt.Fprintf(os.Stderr, "path %s -> %s %s steps=%d covers=%v asserts=%v\n", traceString(pr.Trace), pr.End, firstLine(pr.Msg, 300), pr.Steps, pr.Covers, pr.Asserts)
				}
				active--
				res.paths++
				res.steps += pr.Steps
				res.nodes += len(pr.Trace) - len(prefix) + 1
				res.edges += len(pr.Trace) - len(prefix) + len(pr.Pending)
				res.ends[pr.End.String()]++
				res.ifconv += pr.IfConv
				for _, a := range pr.Asserts {
					m := res.asserts[a.Clause]
					if m == nil {
						m = map[string]int{}
						res.asserts[a.Clause] = m
					}
					m[a.Status]++
				}
				for _, c := range pr.Covers {
					res.covers[c] = true
				}
				// keep a few violations per clause (a global cap would let the many instances of one
				// clause, e.g. a known finding, crowd out a violation of another clause)
				for _, v := range pr.Violations {
					if violPerClause[v.Clause] < 4 {
						violPerClause[v.Clause]++
						res.violations = append(res.violations, v)
					}
				}
				if stopOnViolation && !in.entry.MustFail && len(res.violations) > 0 {
					stopped = true // development aid (mutation runs): the verdict is VIOLATION anyway
				}
				if pr.Witness != nil {
					res.witnesses = append(res.witnesses, pr.Witness)
				}
				for _, m := range pr.Inconcl {
					res.inconcl = append(res.inconcl, m)
				}
				switch pr.End {
				case endUnsupported, endBudget, endBlocked:
					if len(res.inconcl) < 20 {
						res.inconcl = append(res.inconcl, fmt.Sprintf("path %s ended %s: %s", traceString(pr.Trace), pr.End, firstLine(pr.Msg, 600)))
					}
				}
				queue = append(queue, pr.Pending...)
				if mw := os.Getenv("SYMGO_MAXWALL"); mw != "" {
					var secs float64
					fmt.Sscan(mw, &secs)
					if time.Since(t0).Seconds() > secs && !stopped {
						res.inconcl = append(res.inconcl, "wall budget SYMGO_MAXWALL exceeded")
						stopped = true
					}
				}
				if res.paths+len(queue) > cfg.MaxPaths {
					res.inconcl = append(res.inconcl, fmt.Sprintf("path budget %d exceeded", cfg.MaxPaths))
					stopped = true
				}
				if len(res.inconcl) >= 20 {
					stopped = true
				}
				cond.Broadcast()
				mu.Unlock()
			}
			mu.Lock()
			res.queries += solver.Queries
			res.solveTime += solver.SolveTime
			mu.Unlock()
		}(w)
	}
	wg.Wait()
	res.wall = time.Since(t0)
	return res
}

func firstLine(s string, max int) string {
	if len(s) > max {
		s = s[:max] + "…"
	}
	return s
}

// ---- native runs --------------------------------------------------------------------------------

type nativeResult struct {
	Observed []string `json:"observed"`
	End      string   `json:"end"`
	UFMiss   int      `json:"uf_miss"`
	Missing  []string `json:"missing_inputs"`
}

type nativeCase struct {
	Entry  string            `json:"entry"`
	Params map[string]int64  `json:"params"`
	Inputs map[string]string `json:"inputs"`
	UF     []ufPoint         `json:"uf"`
}

// runNative compiles the harness into the real package (go test -overlay) and runs the cases.
func runNative(spec *Spec, cases []nativeCase) ([]nativeResult, error) {
	tmp, err := os.MkdirTemp("", "symgo-native-")
	if err != nil {
		return nil, err
	}
	defer os.RemoveAll(tmp)
	replace := map[string]string{}
	replace[filepath.Join(repoDir, "zz_verif/verif/verif.go")] = filepath.Join(verifDir, "harness/verif/verif.go")
	entrySet := map[string]bool{}
	for _, e := range spec.Entries {
		entrySet[e.Func] = true
	}
	var pkgName string
	for virt, real := range spec.Harness {
		replace[filepath.Join(repoDir, virt)] = filepath.Join(verifDir, real)
		if pkgName == "" && filepath.Dir(virt) == strings.TrimPrefix(spec.TestPkg, "./") {
			src, _ := os.ReadFile(filepath.Join(verifDir, real))
			pkgName = packageClause(string(src))
		}
	}
	if pkgName == "" {
		return nil, fmt.Errorf("no harness file in test package %s", spec.TestPkg)
	}
	var sb strings.Builder
	fmt.Fprintf(&sb, "package %s\n\nimport (\n\t\"testing\"\n\t\"github.com/scionproto/scion/zz_verif/verif\"\n)\n\n", pkgName)
	sb.WriteString("func TestVerifReplay(t *testing.T) {\n\tverif.RunCases(t, map[string]func(){\n")
	names := make([]string, 0, len(entrySet))
	for n := range entrySet {
		names = append(names, n)
	}
	sort.Strings(names)
	for _, n := range names {
		fmt.Fprintf(&sb, "\t\t%q: %s,\n", n, n)
	}
	sb.WriteString("\t})\n}\n")
	testFile := filepath.Join(tmp, "zz_verif_replay_test.go")
	os.WriteFile(testFile, []byte(sb.String()), 0o644)
	replace[filepath.Join(repoDir, strings.TrimPrefix(spec.TestPkg, "./"), "zz_verif_replay_test.go")] = testFile
	srcRewritten := map[string]string{}
	srcFiles := make([]string, 0, len(spec.SourceRewrite))
	for f := range spec.SourceRewrite {
		srcFiles = append(srcFiles, f)
	}
	sort.Strings(srcFiles)
	for i, f := range srcFiles {
		out, err := rewrittenSource(spec, f)
		if err != nil {
			return nil, err
		}
		srcRewritten[f] = out
		p := filepath.Join(tmp, fmt.Sprintf("srcrewrite%d.go", i))
		os.WriteFile(p, []byte(out), 0o644)
		replace[filepath.Join(repoDir, f)] = p
	}
	// time.Now() -> verif.Now() in the listed files (native runs only)
	var modArgs []string
	for i, f := range spec.ReplayRewrite {
		if strings.HasPrefix(f, "$GOMODCACHE/") {
			// a file of a dependency module: the go command refuses overlays below GOMODCACHE, so the
			// module is copied, rewritten and substituted with a replace directive (-modfile)
			args, err := rewriteModuleFile(f, tmp)
			if err != nil {
				return nil, err
			}
			modArgs = args
			continue
		}
		src, err := os.ReadFile(rewritePath(f))
		if err != nil {
			return nil, err
		}
		if s, ok := srcRewritten[f]; ok {
			src = []byte(s)
		}
		out, err := rewriteTimeNow(rewriteTimeCalls(string(src)))
		if err != nil {
			return nil, fmt.Errorf("%s: %v", f, err)
		}
		p := filepath.Join(tmp, fmt.Sprintf("rewrite%d.go", i))
		os.WriteFile(p, []byte(out), 0o644)
		replace[rewritePath(f)] = p
	}
	if err := rewriteFuncStubs(spec, tmp, replace); err != nil {
		return nil, err
	}
	ovJSON, _ := json.Marshal(map[string]any{"Replace": replace})
	ovPath := filepath.Join(tmp, "overlay.json")
	os.WriteFile(ovPath, ovJSON, 0o644)
	cj, _ := json.Marshal(cases)
	casesPath := filepath.Join(tmp, "cases.json")
	os.WriteFile(casesPath, cj, 0o644)
	outPath := filepath.Join(tmp, "out.json")
	cmd := exec.Command("go", append(append([]string{"test", "-overlay", ovPath}, modArgs...), "-vet=off", "-count=1", "-run", "^TestVerifReplay$", spec.TestPkg)...)
	cmd.Dir = repoDir
	cmd.Env = append(goEnv(), "VERIF_CASES="+casesPath, "VERIF_OUT="+outPath, "GOCACHE="+nativeCache())
	outb, err := cmd.CombinedOutput()
	raw, rerr := os.ReadFile(outPath)
	if rerr != nil {
		return nil, fmt.Errorf("native run failed: %v\n%s", err, firstLine(string(outb), 4000))
	}
	var res []nativeResult
	if err := json.Unmarshal(raw, &res); err != nil {
		return nil, err
	}
	if len(res) != len(cases) {
		return nil, fmt.Errorf("native run returned %d results for %d cases", len(res), len(cases))
	}
	return res, nil
}

func nativeCache() string {
	if c := os.Getenv("GOCACHE"); c != "" {
		return c
	}
	home, _ := os.UserHomeDir()
	return filepath.Join(home, ".cache", "go-build")
}

func packageClause(src string) string {
	for _, line := range strings.Split(src, "\n") {
		line = strings.TrimSpace(line)
		if strings.HasPrefix(line, "package ") {
			return strings.Fields(line)[1]
		}
	}
	return ""
}

// rewriteTimeNow replaces time.Now() by verif.Now() and adds the import.
func rewriteTimeNow(src string) (string, error) {
	if !strings.Contains(src, "time.Now()") && !strings.Contains(src, "sha256.New()") {
		return src, nil
	}
	out := strings.ReplaceAll(src, "time.Now()", "verif.Now()")
	// idealised SHA-256 (the engine models crypto/sha256.New as verif.NewSHA256, see natives_paths.go)
	out = strings.ReplaceAll(out, "sha256.New()", "verif.NewSHA256()")
	if !strings.Contains(out, "sha256.") {
		out = strings.Replace(out, "\t\"crypto/sha256\"\n", "", 1)
	}
	i := strings.Index(out, "import (")
	if i < 0 {
		return "", fmt.Errorf("no import block")
	}
	out = out[:i+len("import (")] + "\n\t\"github.com/scionproto/scion/zz_verif/verif\"" + out[i+len("import ("):]
	if !strings.Contains(out, "time.") {
		out = strings.Replace(out, "\t\"time\"\n", "", 1)
	}
	return out, nil
}
