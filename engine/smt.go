package main

// SMT-LIB2 back end: one long-lived solver process per worker.

import (
	"os"
	"bufio"
	"fmt"
	"io"
	"os/exec"
	"strconv"
	"strings"
	"time"
)

type SatResult int

const (
	Unsat SatResult = iota
	Sat
	Unknown
)

func (r SatResult) String() string { return [...]string{"unsat", "sat", "unknown"}[r] }

type SolverKind int

const (
	Z3 SolverKind = iota
	Z3New
	CVC5
	CVC5Int
)

func (k SolverKind) String() string { return [...]string{"z3", "z3-new", "cvc5", "cvc5-bv-as-int"}[k] }

type Solver struct {
	kind    SolverKind
	cmd     *exec.Cmd
	in      io.WriteCloser
	out     *bufio.Reader
	timeout time.Duration
	// per-session (reset per path)
	store    *Store
	defined  map[int]bool
	declared map[string]bool
	asserted int // number of pc conjuncts asserted
	inPush   bool
	pushDefs []int
	pushDecl []string
	base     strings.Builder // transcript of base-level declarations, definitions and assertions
	Fallbacks int
	AbsQueries, AbsUnsat int // sum abstraction (sumabs.go)
	// stats
	Queries   int
	fbTimeout time.Duration
	SolveTime time.Duration
	log       io.Writer
}

func NewSolver(kind SolverKind, timeout time.Duration) (*Solver, error) {
	var cmd *exec.Cmd
	fb := timeout
	if kind == Z3 && timeout > 15*time.Second {
		timeout = 15 * time.Second // the rest of the budget goes to the fall-back solvers
	}
	if kind == Z3 && optPathsTime2 && timeout > 5*time.Second {
		// C28-C30: the incremental core is weak on min/max selection queries that a one-shot run
		// decides in seconds (fallback tries one-shot z3 first)
		timeout = 5 * time.Second
	}
	ms := strconv.Itoa(int(timeout / time.Millisecond))
	switch kind {
	case Z3:
		cmd = exec.Command("z3", "-in", "-t:"+ms)
	case Z3New:
		cmd = exec.Command("z3-new", "-in", "-t:"+ms)
	case CVC5:
		cmd = exec.Command("cvc5", "--incremental", "--lang=smt2", "--produce-models", "--tlimit-per="+ms)
	case CVC5Int:
		cmd = exec.Command("cvc5", "--incremental", "--lang=smt2", "--produce-models", "--solve-bv-as-int=sum", "--tlimit-per="+ms)
	}
	in, err := cmd.StdinPipe()
	if err != nil {
		return nil, err
	}
	out, err := cmd.StdoutPipe()
	if err != nil {
		return nil, err
	}
	cmd.Stderr = cmd.Stdout
	if err := cmd.Start(); err != nil {
		return nil, err
	}
	s := &Solver{kind: kind, cmd: cmd, in: in, out: bufio.NewReaderSize(out, 1<<16), timeout: timeout, fbTimeout: fb}
	return s, nil
}

func (s *Solver) Close() {
	if s.cmd != nil {
		s.in.Close()
		s.cmd.Process.Kill()
		s.cmd.Wait()
		s.cmd = nil
	}
}

func (s *Solver) send(str string) {
	if s.log != nil {
		io.WriteString(s.log, str)
	}
	io.WriteString(s.in, str)
}

// Begin starts a fresh session for a path.
func (s *Solver) Begin(st *Store) {
	s.store = st
	s.defined = map[int]bool{}
	s.declared = map[string]bool{}
	s.asserted = 0
	s.inPush = false
	s.pushDefs, s.pushDecl = nil, nil
	s.base.Reset()
	s.send("(reset)\n")
	if s.kind == CVC5 || s.kind == CVC5Int {
		s.send("(set-logic QF_UFBV)\n")
	}
	s.send("(set-option :produce-models true)\n")
}

// define emits declarations/definitions for t and its sub-terms (iteratively).
func (s *Solver) define(t *Term) {
	if t.op == OpConst || s.defined[t.id] {
		return
	}
	var sb strings.Builder
	type fr struct {
		t *Term
		i int
	}
	stack := []fr{{t, 0}}
	for len(stack) > 0 {
		top := &stack[len(stack)-1]
		x := top.t
		if x.op == OpConst || s.defined[x.id] {
			stack = stack[:len(stack)-1]
			continue
		}
		if top.i < len(x.args) {
			a := x.args[top.i]
			top.i++
			if a.op != OpConst && !s.defined[a.id] {
				stack = append(stack, fr{a, 0})
			}
			continue
		}
		s.defined[x.id] = true
		if s.inPush {
			s.pushDefs = append(s.pushDefs, x.id)
		}
		switch x.op {
		case OpVar:
			fmt.Fprintf(&sb, "(declare-fun |v!%s| () %s)\n", x.name, sortStr(x.w))
		case OpUF:
			if !s.declared[x.name] {
				s.declared[x.name] = true
				if s.inPush {
					s.pushDecl = append(s.pushDecl, x.name)
				}
				d := s.store.ufs[x.name]
				sb.WriteString("(declare-fun |" + x.name + "| (")
				for _, w := range d.argw {
					sb.WriteString(sortStr(w) + " ")
				}
				sb.WriteString(") " + sortStr(d.w) + ")\n")
			}
			fmt.Fprintf(&sb, "(define-fun t%d () %s %s)\n", x.id, sortStr(x.w), x.body())
		default:
			fmt.Fprintf(&sb, "(define-fun t%d () %s %s)\n", x.id, sortStr(x.w), x.body())
			sb.WriteString(s.store.boundLemma(x)) // redundant range lemma (bounds.go)
		}
		stack = stack[:len(stack)-1]
	}
	if !s.inPush {
		s.base.WriteString(sb.String())
	}
	s.send(sb.String())
}

// AssertPC makes sure pc[0:len(pc)] is asserted at the session's base level.
func (s *Solver) AssertPC(pc []*Term) {
	for ; s.asserted < len(pc); s.asserted++ {
		t := pc[s.asserted]
		s.define(t)
		s.send("(assert " + t.ref() + ")\n")
		s.base.WriteString("(assert " + t.ref() + ")\n")
	}
}

func (s *Solver) readLine() (string, error) {
	line, err := s.out.ReadString('\n')
	return strings.TrimSpace(line), err
}

// Check decides pc ∧ extra (extra may be nil). With keep=true and result Sat the solver state
// stays inside the push so that GetValues can be called; the caller must then call Pop.
func (s *Solver) Check(pc []*Term, extra *Term, keep bool) (SatResult, error) {
	if optSumAbs {
		// sumabs.go: unsat under abstraction is unsat; a model of the abstraction is tried as a hint
		if r, _ := s.abstractQuery(pc, extra); r == Unsat {
			return Unsat, nil
		}
	}
	return s.checkRaw(pc, extra, keep, "")
}

func (s *Solver) checkRaw(pc []*Term, extra *Term, keep bool, hints string) (SatResult, error) {
	s.AssertPC(pc)
	if extra != nil {
		s.define(extra)
	}
	s.send("(push 1)\n")
	s.inPush = true
	if extra != nil {
		s.send("(assert " + extra.ref() + ")\n")
	}
	s.send(hints)
	t0 := time.Now()
	s.send("(check-sat)\n")
	s.Queries++
	var res SatResult
	for {
		line, err := s.readLine()
		if err != nil {
			return Unknown, fmt.Errorf("solver %s died: %v", s.kind, err)
		}
		if line == "" {
			continue
		}
		switch {
		case line == "sat":
			res = Sat
		case line == "unsat":
			res = Unsat
		case line == "unknown" || line == "timeout":
			res = Unknown
		case strings.HasPrefix(line, "(error"):
			s.SolveTime += time.Since(t0)
			s.Pop()
			return Unknown, fmt.Errorf("solver %s: %s", s.kind, line)
		default:
			// cvc5 may print interrupt notices etc.
			if strings.Contains(line, "interrupted") || strings.Contains(line, "timeout") {
				res = Unknown
				break
			}
			continue
		}
		break
	}
	s.SolveTime += time.Since(t0)
	slowQuery(t0, res, extra)
	if s.log != nil {
		fmt.Fprintf(s.log, "; -> %v in %.2fs\n", res, time.Since(t0).Seconds())
	}
	if res == Unknown {
		s.Pop()
		if hints != "" {
			return Unknown, nil
		}
		t1 := time.Now()
		r2, _, err := s.fallback(extra, nil)
		s.SolveTime += time.Since(t1)
		if err != nil || r2 == Unknown {
			return Unknown, err
		}
		if keep && r2 == Sat {
			// the caller wants a model from the primary solver state: not available
			return Unknown, fmt.Errorf("primary solver timed out on a model query (use CheckModel)")
		}
		return r2, nil
	}
	if !(keep && res == Sat) {
		s.Pop()
	}
	return res, nil
}

// CheckModel decides pc ∧ extra and, when satisfiable, returns the model values of ts.
func (s *Solver) CheckModel(pc []*Term, extra *Term, ts []*Term) (SatResult, []ModelVal, error) {
	if optSumAbs {
		if r, _ := s.abstractQuery(pc, extra); r == Unsat {
			return Unsat, nil, nil
		}
	}
	return s.checkModelRaw(pc, extra, ts, "")
}

func (s *Solver) checkModelRaw(pc []*Term, extra *Term, ts []*Term, hints string) (SatResult, []ModelVal, error) {
	s.AssertPC(pc)
	if extra != nil {
		s.define(extra)
	}
	s.send("(push 1)\n")
	s.inPush = true
	if extra != nil {
		s.send("(assert " + extra.ref() + ")\n")
	}
	s.send(hints)
	t0 := time.Now()
	s.send("(check-sat)\n")
	s.Queries++
	res, err := s.readResult()
	s.SolveTime += time.Since(t0)
	slowQuery(t0, res, extra)
	if err != nil {
		s.Pop()
		return Unknown, nil, err
	}
	switch res {
	case Sat:
		mv, err := s.GetValues(ts)
		s.Pop()
		if err != nil {
			return Unknown, nil, err
		}
		return Sat, mv, nil
	case Unsat:
		s.Pop()
		return Unsat, nil, nil
	}
	s.Pop()
	if hints != "" {
		return Unknown, nil, nil
	}
	t1 := time.Now()
	r2, mv, err := s.fallback(extra, ts)
	s.SolveTime += time.Since(t1)
	return r2, mv, err
}

func (s *Solver) readResult() (SatResult, error) {
	for {
		line, err := s.readLine()
		if err != nil {
			return Unknown, fmt.Errorf("solver %s died: %v", s.kind, err)
		}
		switch {
		case line == "":
			continue
		case line == "sat":
			return Sat, nil
		case line == "unsat":
			return Unsat, nil
		case line == "unknown" || line == "timeout":
			return Unknown, nil
		case strings.HasPrefix(line, "(error"):
			return Unknown, fmt.Errorf("solver %s: %s", s.kind, line)
		case strings.Contains(line, "interrupted") || strings.Contains(line, "timeout"):
			return Unknown, nil
		}
	}
}

// fallback re-decides the current session's base assertions ∧ extra with one-shot runs of the
// other solvers (cvc5 bit-blasting, z3 5.1, cvc5 integer encoding). Any "(error" is inconclusive.
func (s *Solver) fallback(extra *Term, ts []*Term) (SatResult, []ModelVal, error) {
	s.Fallbacks++
	var sb strings.Builder
	sb.WriteString("(set-option :produce-models true)\n(set-logic QF_UFBV)\n")
	sb.WriteString(s.base.String())
	// definitions needed for extra / ts that are not at base level
	saved := s.inPush
	s.inPush = true // keep define() from recording into the base transcript
	var extraDefs strings.Builder
	capture := s.log
	_ = capture
	defs := s.captureDefs(append(append([]*Term{}, ts...), extra))
	s.inPush = saved
	extraDefs.WriteString(defs)
	sb.WriteString(extraDefs.String())
	if extra != nil {
		sb.WriteString("(assert " + extra.ref() + ")\n")
	}
	sb.WriteString("(check-sat)\n")
	var idx []int
	if len(ts) > 0 {
		sb.WriteString("(get-value (")
		for i, t := range ts {
			if t.op == OpConst {
				continue
			}
			sb.WriteString(t.ref() + " ")
			idx = append(idx, i)
		}
		sb.WriteString("))\n")
	}
	script := sb.String()
	ms := strconv.Itoa(int(s.fallbackTimeout() / time.Millisecond))
	try := [][]string{
		{"cvc5", "--lang=smt2", "--produce-models", "--tlimit=" + ms},
		{"z3-new", "-in", "-T:" + strconv.Itoa(int(s.fallbackTimeout()/time.Second))},
		{"cvc5", "--lang=smt2", "--produce-models", "--solve-bv-as-int=sum", "--tlimit=" + ms},
	}
	if strings.Contains(script, "(bvmul ") || strings.Contains(script, "(bvudiv ") || strings.Contains(script, "(bvurem ") {
		// multiply/divide kernels (decimal conversion): the integer encoding first (DESIGN 3.3)
		try = [][]string{try[2], try[0], try[1]}
	}
	if optPathsTime2 {
		try = append([][]string{{"z3", "-in", "-T:" + strconv.Itoa(int(s.fallbackTimeout()/time.Second))}}, try...)
	}
	for _, argv := range try {
		cmd := exec.Command(argv[0], argv[1:]...)
		cmd.Stdin = strings.NewReader(script)
		out, _ := cmd.CombinedOutput()
		txt := strings.TrimSpace(string(out))
		if strings.Contains(txt, "(error") {
			continue
		}
		switch {
		case strings.HasPrefix(txt, "unsat"):
			return Unsat, nil, nil
		case strings.HasPrefix(txt, "sat"):
			res := make([]ModelVal, len(ts))
			for i, t := range ts {
				if t.op == OpConst {
					res[i] = ModelVal{w: t.w, lo: t.c}
				}
			}
			if len(idx) > 0 {
				rest := strings.TrimSpace(txt[3:])
				vals, err := parseValues(rest)
				if err != nil || len(vals) != len(idx) {
					continue
				}
				for k, i := range idx {
					vals[k].w = ts[i].w
					res[i] = vals[k]
				}
			}
			return Sat, res, nil
		}
	}
	return Unknown, nil, nil
}

func (s *Solver) fallbackTimeout() time.Duration {
	if s.fbTimeout > 0 {
		return s.fbTimeout
	}
	return 60 * time.Second
}

// captureDefs returns the definitions of the given terms that are missing at base level,
// without sending them to the primary solver.
func (s *Solver) captureDefs(ts []*Term) string {
	defined := map[int]bool{}
	for k, v := range s.defined {
		defined[k] = v
	}
	declared := map[string]bool{}
	for k, v := range s.declared {
		declared[k] = v
	}
	var sb strings.Builder
	var emit func(x *Term)
	emit = func(x *Term) {
		if x == nil || x.op == OpConst || defined[x.id] {
			return
		}
		for _, a := range x.args {
			emit(a)
		}
		defined[x.id] = true
		switch x.op {
		case OpVar:
			fmt.Fprintf(&sb, "(declare-fun |v!%s| () %s)\n", x.name, sortStr(x.w))
		case OpUF:
			if !declared[x.name] {
				declared[x.name] = true
				d := s.store.ufs[x.name]
				sb.WriteString("(declare-fun |" + x.name + "| (")
				for _, w := range d.argw {
					sb.WriteString(sortStr(w) + " ")
				}
				sb.WriteString(") " + sortStr(d.w) + ")\n")
			}
			fmt.Fprintf(&sb, "(define-fun t%d () %s %s)\n", x.id, sortStr(x.w), x.body())
		default:
			fmt.Fprintf(&sb, "(define-fun t%d () %s %s)\n", x.id, sortStr(x.w), x.body())
			sb.WriteString(s.store.boundLemma(x))
		}
	}
	for _, t := range ts {
		emit(t)
	}
	return sb.String()
}

func (s *Solver) Pop() {
	s.send("(pop 1)\n")
	s.inPush = false
	for _, id := range s.pushDefs {
		delete(s.defined, id)
	}
	for _, n := range s.pushDecl {
		delete(s.declared, n)
	}
	s.pushDefs, s.pushDecl = s.pushDefs[:0], s.pushDecl[:0]
}

// GetValues returns the model values (low 64 bits and full bytes) of the given terms; must be
// called after a Sat Check with keep=true.
func (s *Solver) GetValues(ts []*Term) ([]ModelVal, error) {
	res := make([]ModelVal, len(ts))
	const chunk = 200
	for base := 0; base < len(ts); base += chunk {
		end := base + chunk
		if end > len(ts) {
			end = len(ts)
		}
		var sb strings.Builder
		sb.WriteString("(get-value (")
		n := 0
		idx := []int{}
		for i := base; i < end; i++ {
			t := ts[i]
			if t.op == OpConst {
				res[i] = ModelVal{w: t.w, lo: t.c}
				continue
			}
			s.define(t) // inside the push: recorded in pushDefs and forgotten on Pop
			sb.WriteString(t.ref() + " ")
			idx = append(idx, i)
			n++
		}
		sb.WriteString("))\n")
		if n == 0 {
			continue
		}
		s.send(sb.String())
		txt, err := s.readSexp()
		if err != nil {
			return nil, err
		}
		if strings.HasPrefix(txt, "(error") {
			return nil, fmt.Errorf("solver %s: %s", s.kind, txt)
		}
		vals, err := parseValues(txt)
		if err != nil {
			return nil, fmt.Errorf("%v in %q", err, txt)
		}
		if len(vals) != n {
			return nil, fmt.Errorf("get-value: expected %d values, got %d: %s", n, len(vals), txt)
		}
		for k, i := range idx {
			vals[k].w = ts[i].w
			res[i] = vals[k]
		}
	}
	return res, nil
}

type ModelVal struct {
	w  uint16
	lo uint64
	b  []byte // big-endian full value for w > 64
	bl bool
}

func (m ModelVal) Bytes() []byte {
	n := int(m.w+7) / 8
	if m.b != nil {
		return m.b
	}
	out := make([]byte, n)
	v := m.lo
	for i := n - 1; i >= 0; i-- {
		out[i] = byte(v)
		v >>= 8
	}
	return out
}

func (s *Solver) readSexp() (string, error) {
	var sb strings.Builder
	depth := 0
	started := false
	for {
		c, err := s.out.ReadByte()
		if err != nil {
			return sb.String(), err
		}
		if !started {
			if c == '(' {
				started = true
			} else if c == ' ' || c == '\n' || c == '\r' || c == '\t' {
				continue
			} else {
				// atom line
				rest, _ := s.out.ReadString('\n')
				return string(c) + strings.TrimSpace(rest), nil
			}
		}
		sb.WriteByte(c)
		if c == '(' {
			depth++
		} else if c == ')' {
			depth--
			if depth == 0 {
				return sb.String(), nil
			}
		} else if c == '|' {
			for {
				d, err := s.out.ReadByte()
				if err != nil {
					return sb.String(), err
				}
				sb.WriteByte(d)
				if d == '|' {
					break
				}
			}
		} else if c == '"' {
			for {
				d, err := s.out.ReadByte()
				if err != nil {
					return sb.String(), err
				}
				sb.WriteByte(d)
				if d == '"' {
					break
				}
			}
		}
	}
}

// parseValues parses "((name val) (name val) ...)".
func parseValues(txt string) ([]ModelVal, error) {
	var out []ModelVal
	i := 0
	n := len(txt)
	skip := func() {
		for i < n && (txt[i] == ' ' || txt[i] == '\n' || txt[i] == '\t' || txt[i] == '\r') {
			i++
		}
	}
	skip()
	if i >= n || txt[i] != '(' {
		return nil, fmt.Errorf("parse: expected (")
	}
	i++
	for {
		skip()
		if i < n && txt[i] == ')' {
			return out, nil
		}
		if i >= n || txt[i] != '(' {
			return nil, fmt.Errorf("parse: expected ( at %d", i)
		}
		i++
		skip()
		// name: symbol, |quoted| or a parenthesised term
		if txt[i] == '|' {
			i++
			for i < n && txt[i] != '|' {
				i++
			}
			i++
		} else if txt[i] == '(' {
			d := 0
			for i < n {
				if txt[i] == '(' {
					d++
				} else if txt[i] == ')' {
					d--
					if d == 0 {
						i++
						break
					}
				}
				i++
			}
		} else {
			for i < n && txt[i] != ' ' && txt[i] != '\n' {
				i++
			}
		}
		skip()
		// value
		st := i
		if txt[i] == '(' {
			d := 0
			for i < n {
				if txt[i] == '(' {
					d++
				} else if txt[i] == ')' {
					d--
					if d == 0 {
						i++
						break
					}
				}
				i++
			}
		} else {
			for i < n && txt[i] != ')' && txt[i] != ' ' && txt[i] != '\n' {
				i++
			}
		}
		v := strings.TrimSpace(txt[st:i])
		mv, err := parseVal(v)
		if err != nil {
			return nil, err
		}
		out = append(out, mv)
		skip()
		if i >= n || txt[i] != ')' {
			return nil, fmt.Errorf("parse: expected ) at %d", i)
		}
		i++
	}
}

func parseVal(v string) (ModelVal, error) {
	switch {
	case v == "true":
		return ModelVal{lo: 1, bl: true}, nil
	case v == "false":
		return ModelVal{lo: 0, bl: true}, nil
	case strings.HasPrefix(v, "#x"):
		h := v[2:]
		if len(h) <= 16 {
			x, err := strconv.ParseUint(h, 16, 64)
			return ModelVal{lo: x}, err
		}
		if len(h)%2 == 1 {
			h = "0" + h
		}
		b := make([]byte, len(h)/2)
		for k := range b {
			x, err := strconv.ParseUint(h[2*k:2*k+2], 16, 8)
			if err != nil {
				return ModelVal{}, err
			}
			b[k] = byte(x)
		}
		var lo uint64
		for _, x := range b[len(b)-8:] {
			lo = lo<<8 | uint64(x)
		}
		return ModelVal{lo: lo, b: b}, nil
	case strings.HasPrefix(v, "#b"):
		h := v[2:]
		if len(h) <= 64 {
			x, err := strconv.ParseUint(h, 2, 64)
			return ModelVal{lo: x}, err
		}
		for len(h)%8 != 0 {
			h = "0" + h
		}
		b := make([]byte, len(h)/8)
		for k := range b {
			x, err := strconv.ParseUint(h[8*k:8*k+8], 2, 8)
			if err != nil {
				return ModelVal{}, err
			}
			b[k] = byte(x)
		}
		var lo uint64
		for _, x := range b[len(b)-8:] {
			lo = lo<<8 | uint64(x)
		}
		return ModelVal{lo: lo, b: b}, nil
	case strings.HasPrefix(v, "(_ bv"):
		f := strings.Fields(strings.Trim(v, "()"))
		if len(f) == 3 {
			x, err := strconv.ParseUint(f[1][2:], 10, 64)
			return ModelVal{lo: x}, err
		}
	}
	return ModelVal{}, fmt.Errorf("cannot parse model value %q", v)
}

var slowQms = func() float64 {
	var v float64
	fmt.Sscan(os.Getenv("SYMGO_SLOWQ"), &v)
	return v
}()

// slowQuery logs queries slower than $SYMGO_SLOWQ milliseconds (debugging aid).
func slowQuery(t0 time.Time, res SatResult, extra *Term) {
	if slowQms <= 0 {
		return
	}
	if d := time.Since(t0); d.Seconds()*1000 > slowQms {
		e := "<pc only>"
		if extra != nil {
			e = extra.String()
			if len(e) > 300 {
				e = e[:300] + "…"
			}
		}
		fmt.Fprintf(os.Stderr, "slow query %.2fs %s: %s\n", d.Seconds(), res, e)
	}
}
