package main

import (
	"fmt"
	"go/constant"
	"go/token"
	"go/types"
	"math"
	"os"
	"strings"
	"unicode/utf8"

	"golang.org/x/tools/go/ssa"
)

func constValue(c *ssa.Const) Value {
	if c.Value == nil {
		return zero(c.Type()) // typed nil or zero aggregate
	}
	t := c.Type()
	if tp, ok := t.(*types.TypeParam); ok {
		_ = tp
		panic("constant of type parameter")
	}
	if b, ok := t.Underlying().(*types.Basic); ok {
		switch {
		case b.Info()&types.IsBoolean != 0:
			return constant.BoolVal(c.Value)
		case b.Info()&types.IsInteger != 0:
			w, _, _ := intInfo(t)
			if c.Value.Kind() == constant.Float || c.Value.Kind() == constant.Complex {
				f, _ := constant.Float64Val(c.Value)
				return norm(uint64(int64(f)), w)
			}
			if v, exact := constant.Int64Val(constant.ToInt(c.Value)); exact {
				return norm(uint64(v), w)
			}
			v, _ := constant.Uint64Val(constant.ToInt(c.Value))
			return norm(v, w)
		case b.Info()&types.IsFloat != 0:
			f, _ := constant.Float64Val(c.Value)
			if b.Kind() == types.Float32 {
				return float64(float32(f))
			}
			return f
		case b.Info()&types.IsComplex != 0:
			re, _ := constant.Float64Val(constant.Real(c.Value))
			im, _ := constant.Float64Val(constant.Imag(c.Value))
			return complex(re, im)
		case b.Info()&types.IsString != 0:
			if c.Value.Kind() == constant.String {
				return constant.StringVal(c.Value)
			}
			return string(rune(c.Int64()))
		}
	}
	panic(fmt.Sprintf("constValue: unexpected constant %v of type %v", c, t))
}

// ---- unary ----------------------------------------------------------------------------------

func (x *Exec) unop(fr *frame, instr *ssa.UnOp, v Value) Value {
	switch instr.Op {
	case token.MUL:
		return x.load(deref(instr.X.Type()), v)
	case token.NOT:
		switch b := v.(type) {
		case bool:
			return !b
		case *Term:
			return fromTerm(x.st.Not(b))
		}
	case token.SUB:
		switch n := v.(type) {
		case uint64:
			w, _, _ := intInfo(instr.Type())
			return norm(-n, w)
		case *Term:
			return fromTerm(x.st.BvNeg(n))
		case float64:
			return -n
		case complex128:
			return -n
		}
	case token.XOR:
		switch n := v.(type) {
		case uint64:
			w, _, _ := intInfo(instr.Type())
			return norm(^n, w)
		case *Term:
			return fromTerm(x.st.BvNot(n))
		}
	case token.ARROW:
		x.noSpec("receive")
		val, ok := x.chanRecv(v.(*Chan), instr.X.Type().Underlying().(*types.Chan).Elem())
		if instr.CommaOk {
			return Tuple{val, ok}
		}
		return val
	}
	panic(fmt.Sprintf("invalid unary op %s %T", instr.Op, v))
}

// ---- binary ---------------------------------------------------------------------------------

func (x *Exec) binop(op token.Token, tx, ty types.Type, a, b Value) Value {
	// integer operands
	if w, signed, ok := intInfo(tx); ok {
		switch op {
		case token.SHL, token.SHR:
			return x.shift(op, w, signed, ty, a, b)
		}
		ca, okA := a.(uint64)
		cb, okB := b.(uint64)
		if okA && okB {
			return x.intBinConcrete(op, w, signed, ca, cb)
		}
		if x.nano != nil && w == 64 && signed {
			// comparison of nanosecond counts with a known (seconds, nanoseconds) decomposition
			if r, done := x.nanoCompare(op, a, b); done {
				return r
			}
		}
		return x.intBinSym(op, w, signed, x.toTerm(a, w), x.toTerm(b, w))
	}
	switch av := a.(type) {
	case float64:
		bv := b.(float64)
		f32 := false
		if bits, _ := isFloat(tx); bits == 32 {
			f32 = true
		}
		r := func(v float64) Value {
			if f32 {
				return float64(float32(v))
			}
			return v
		}
		switch op {
		case token.ADD:
			return r(av + bv)
		case token.SUB:
			return r(av - bv)
		case token.MUL:
			return r(av * bv)
		case token.QUO:
			return r(av / bv)
		case token.EQL:
			return av == bv
		case token.NEQ:
			return av != bv
		case token.LSS:
			return av < bv
		case token.LEQ:
			return av <= bv
		case token.GTR:
			return av > bv
		case token.GEQ:
			return av >= bv
		}
	case complex128:
		bv := b.(complex128)
		switch op {
		case token.ADD:
			return av + bv
		case token.SUB:
			return av - bv
		case token.MUL:
			return av * bv
		case token.QUO:
			return av / bv
		case token.EQL:
			return av == bv
		case token.NEQ:
			return av != bv
		}
	}
	if isStringT(tx) {
		return x.strBinop(op, a, b)
	}
	switch op {
	case token.EQL:
		return x.equalsMaybeNil(tx, ty, a, b)
	case token.NEQ:
		return x.not(x.equalsMaybeNil(tx, ty, a, b))
	case token.AND, token.OR, token.XOR, token.AND_NOT:
		// bool operands? (not produced by go/ssa, but be tolerant)
	}
	panic(fmt.Sprintf("invalid binary op: %T %s %T (types %s, %s)", a, op, b, tx, ty))
}

func (x *Exec) not(v Value) Value {
	switch b := v.(type) {
	case bool:
		return !b
	case *Term:
		return fromTerm(x.st.Not(b))
	}
	panic("not: not a bool")
}

func (x *Exec) and(a, b Value) Value {
	if ab, ok := a.(bool); ok {
		if !ab {
			return false
		}
		return b
	}
	if bb, ok := b.(bool); ok {
		if !bb {
			return false
		}
		return a
	}
	return fromTerm(x.st.And(a.(*Term), b.(*Term)))
}

func (x *Exec) or(a, b Value) Value {
	return x.not(x.and(x.not(a), x.not(b)))
}

func (x *Exec) intBinConcrete(op token.Token, w uint16, signed bool, a, b uint64) Value {
	sa, sb := sext64(a, w), sext64(b, w)
	switch op {
	case token.ADD:
		return norm(a+b, w)
	case token.SUB:
		return norm(a-b, w)
	case token.MUL:
		return norm(a*b, w)
	case token.QUO:
		if b == 0 {
			x.tpanic("integer divide by zero")
		}
		if signed {
			if sb == -1 {
				return norm(uint64(-sa), w)
			}
			return norm(uint64(sa/sb), w)
		}
		return a / b
	case token.REM:
		if b == 0 {
			x.tpanic("integer divide by zero")
		}
		if signed {
			if sb == -1 {
				return uint64(0)
			}
			return norm(uint64(sa%sb), w)
		}
		return a % b
	case token.AND:
		return a & b
	case token.OR:
		return a | b
	case token.XOR:
		return a ^ b
	case token.AND_NOT:
		return a &^ b
	case token.EQL:
		return a == b
	case token.NEQ:
		return a != b
	case token.LSS:
		if signed {
			return sa < sb
		}
		return a < b
	case token.LEQ:
		if signed {
			return sa <= sb
		}
		return a <= b
	case token.GTR:
		if signed {
			return sa > sb
		}
		return a > b
	case token.GEQ:
		if signed {
			return sa >= sb
		}
		return a >= b
	}
	panic("intBinConcrete: bad op " + op.String())
}

func (x *Exec) intBinSym(op token.Token, w uint16, signed bool, a, b *Term) Value {
	st := x.st
	switch op {
	case token.ADD:
		return fromTerm(st.Bin(OpBvAdd, a, b))
	case token.SUB:
		return fromTerm(st.Bin(OpBvSub, a, b))
	case token.MUL:
		return fromTerm(st.Bin(OpBvMul, a, b))
	case token.QUO, token.REM:
		if b.op != OpConst {
			if x.branch(st.Eq(b, st.Const(w, 0))) {
				x.tpanic("integer divide by zero")
			}
		} else if b.c == 0 {
			x.tpanic("integer divide by zero")
		}
		if r := x.quotVar(op == token.QUO, signed, a, b); r != nil {
			return fromTerm(r) // fresh quotient / remainder variables (natives_epic.go, term_opts quotvar)
		}
		if r := x.divByConst(op == token.QUO, signed, a, b); r != nil {
			return fromTerm(r) // common factor of dividend and divisor cancelled (affine.go)
		}
		if op == token.QUO {
			if signed {
				return fromTerm(st.Bin(OpBvSDiv, a, b))
			}
			return fromTerm(st.Bin(OpBvUDiv, a, b))
		}
		if signed {
			return fromTerm(st.Bin(OpBvSRem, a, b))
		}
		return fromTerm(st.Bin(OpBvURem, a, b))
	case token.AND:
		return fromTerm(st.Bin(OpBvAnd, a, b))
	case token.OR:
		return fromTerm(st.Bin(OpBvOr, a, b))
	case token.XOR:
		return fromTerm(st.Bin(OpBvXor, a, b))
	case token.AND_NOT:
		return fromTerm(st.Bin(OpBvAnd, a, st.BvNot(b)))
	case token.EQL:
		return fromTerm(st.Eq(a, b))
	case token.NEQ:
		return fromTerm(st.Not(st.Eq(a, b)))
	case token.LSS:
		if signed {
			if r := x.cmpAffineConst(OpSlt, a, b); r != nil {
				return fromTerm(r) // threshold on the variable of a linear term (affine.go)
			}
			return fromTerm(st.Cmp(OpSlt, a, b))
		}
		return fromTerm(st.Cmp(OpUlt, a, b))
	case token.LEQ:
		if signed {
			if r := x.cmpAffineConst(OpSle, a, b); r != nil {
				return fromTerm(r)
			}
			return fromTerm(st.Cmp(OpSle, a, b))
		}
		return fromTerm(st.Cmp(OpUle, a, b))
	case token.GTR:
		if signed {
			if r := x.cmpAffineConst(OpSlt, b, a); r != nil {
				return fromTerm(r)
			}
			return fromTerm(st.Cmp(OpSlt, b, a))
		}
		return fromTerm(st.Cmp(OpUlt, b, a))
	case token.GEQ:
		if signed {
			if r := x.cmpAffineConst(OpSle, b, a); r != nil {
				return fromTerm(r)
			}
			return fromTerm(st.Cmp(OpSle, b, a))
		}
		return fromTerm(st.Cmp(OpUle, b, a))
	}
	panic("intBinSym: bad op " + op.String())
}

func (x *Exec) shift(op token.Token, w uint16, signed bool, ty types.Type, a, b Value) Value {
	wy, sy, ok := intInfo(ty)
	if !ok {
		panic("shift count of non-integer type")
	}
	// negative shift count panics
	if sy {
		switch c := b.(type) {
		case uint64:
			if sext64(c, wy) < 0 {
				x.tpanic("negative shift amount")
			}
		case *Term:
			if x.branch(x.st.Cmp(OpSlt, c, x.st.Const(wy, 0))) {
				x.tpanic("negative shift amount")
			}
		}
	}
	ca, okA := a.(uint64)
	cb, okB := b.(uint64)
	if okA && okB {
		if op == token.SHL {
			if cb >= uint64(w) {
				return uint64(0)
			}
			return norm(ca<<cb, w)
		}
		if signed {
			if cb >= uint64(w) {
				cb = uint64(w) - 1
			}
			return norm(uint64(sext64(ca, w)>>cb), w)
		}
		if cb >= uint64(w) {
			return uint64(0)
		}
		return ca >> cb
	}
	st := x.st
	ta := x.toTerm(a, w)
	if okB {
		// constant count
		var o Op
		switch {
		case op == token.SHL:
			o = OpBvShl
		case signed:
			o = OpBvAShr
		default:
			o = OpBvLShr
		}
		if cb >= uint64(w) {
			if o == OpBvAShr {
				cb = uint64(w) - 1
			} else {
				return uint64(0)
			}
		}
		return fromTerm(st.Bin(o, ta, st.Const(w, cb)))
	}
	// symbolic count: bring to width w with saturation
	tb := b.(*Term)
	var cnt *Term
	if wy > w {
		big := st.Cmp(OpUle, st.Const(wy, uint64(w)), tb)
		cnt = st.Ite(big, st.Const(w, uint64(w)), st.Extract(tb, w-1, 0))
	} else {
		cnt = st.ZExt(tb, w-wy)
	}
	switch {
	case op == token.SHL:
		return fromTerm(st.Bin(OpBvShl, ta, cnt))
	case signed:
		return fromTerm(st.Bin(OpBvAShr, ta, cnt))
	default:
		return fromTerm(st.Bin(OpBvLShr, ta, cnt))
	}
}

// ---- strings ------------------------------------------------------------------------------------

func (x *Exec) strBinop(op token.Token, a, b Value) Value {
	sa, okA := a.(string)
	sb, okB := b.(string)
	if okA && okB {
		switch op {
		case token.ADD:
			return sa + sb
		case token.EQL:
			return sa == sb
		case token.NEQ:
			return sa != sb
		case token.LSS:
			return sa < sb
		case token.LEQ:
			return sa <= sb
		case token.GTR:
			return sa > sb
		case token.GEQ:
			return sa >= sb
		}
	}
	ba, bb := strBytes(a), strBytes(b)
	switch op {
	case token.ADD:
		return mkStr(append(append([]Value{}, ba...), bb...))
	case token.EQL:
		return x.bytesEq(ba, bb)
	case token.NEQ:
		return x.not(x.bytesEq(ba, bb))
	case token.LSS:
		return x.bytesLess(ba, bb, false)
	case token.LEQ:
		return x.bytesLess(ba, bb, true)
	case token.GTR:
		return x.bytesLess(bb, ba, false)
	case token.GEQ:
		return x.bytesLess(bb, ba, true)
	}
	panic("strBinop: bad op")
}

func (x *Exec) bytesEq(a, b []Value) Value {
	if len(a) != len(b) {
		return false
	}
	var res Value = true
	for i := range a {
		res = x.and(res, x.scalarEq(a[i], b[i], 8))
		if r, ok := res.(bool); ok && !r {
			return false
		}
	}
	return res
}

// bytesLess: lexicographic a < b (or <= when orEq).
func (x *Exec) bytesLess(a, b []Value, orEq bool) Value {
	st := x.st
	n := len(a)
	if len(b) < n {
		n = len(b)
	}
	// result if all first n bytes are equal
	var tail bool
	if orEq {
		tail = len(a) <= len(b)
	} else {
		tail = len(a) < len(b)
	}
	res := st.Bool(tail)
	for i := n - 1; i >= 0; i-- {
		ta, tb := x.toTerm(a[i], 8), x.toTerm(b[i], 8)
		res = st.Ite(st.Eq(ta, tb), res, st.Cmp(OpUlt, ta, tb))
	}
	return fromTerm(res)
}

func (x *Exec) scalarEq(a, b Value, w uint16) Value {
	ca, okA := a.(uint64)
	cb, okB := b.(uint64)
	if okA && okB {
		return ca == cb
	}
	ba, okA := a.(bool)
	bb, okB := b.(bool)
	if okA && okB {
		return ba == bb
	}
	return fromTerm(x.st.Eq(x.toTerm(a, w), x.toTerm(b, w)))
}

// ---- equality -----------------------------------------------------------------------------------

func isNilValue(v Value) (bool, bool) {
	switch v := v.(type) {
	case *Value:
		return v == nil, true
	case []Value:
		return v == nil, true
	case *Map:
		return v == nil, true
	case *Chan:
		return v == nil, true
	case *ssa.Function:
		return v == nil, true
	case *Closure:
		return false, true
	case NativeFn:
		return v == nil, true
	case *ssa.Builtin:
		return false, true
	case Iface:
		return v.t == nil, true
	case *SymPtr:
		return false, true
	}
	return false, false
}

// equalsMaybeNil handles comparisons where one side is the nil constant of slice/map/func type.
func (x *Exec) equalsMaybeNil(tx, ty types.Type, a, b Value) Value {
	switch tx.Underlying().(type) {
	case *types.Slice, *types.Map, *types.Signature:
		na, _ := isNilValue(a)
		nb, _ := isNilValue(b)
		if na || nb {
			return na == nb
		}
		// func/map/slice can only be compared with nil
		return false
	}
	return x.equals(tx, a, b)
}

// equals implements Go's == for values of static type t; the result is bool or *Term.
func (x *Exec) equals(t types.Type, a, b Value) Value {
	switch av := a.(type) {
	case bool:
		if bv, ok := b.(bool); ok {
			return av == bv
		}
		return fromTerm(x.st.Eq(x.st.Bool(av), b.(*Term)))
	case uint64:
		if bv, ok := b.(uint64); ok {
			return av == bv
		}
		bt := b.(*Term)
		return fromTerm(x.st.Eq(x.st.Const(bt.w, av), bt))
	case *Term:
		return fromTerm(x.st.Eq(av, x.toTerm(b, av.w)))
	case float64:
		return av == b.(float64)
	case complex128:
		return av == b.(complex128)
	case string:
		return x.strBinop(token.EQL, a, b)
	case *SymStr:
		return x.strBinop(token.EQL, a, b)
	case *Value:
		bv, ok := b.(*Value)
		if !ok {
			return false
		}
		return av == bv
	case *SymPtr:
		x.unsupported("comparison of symbolic element address")
	case *Chan:
		return av == b.(*Chan)
	case *Map:
		return av == b.(*Map)
	case Struct:
		bv := b.(Struct)
		st := t.Underlying().(*types.Struct)
		var res Value = true
		for i := range av {
			f := st.Field(i)
			if f.Name() == "_" {
				continue
			}
			res = x.and(res, x.equals(f.Type(), av[i], bv[i]))
			if r, ok := res.(bool); ok && !r {
				return false
			}
		}
		return res
	case Array:
		bv := b.(Array)
		et := t.Underlying().(*types.Array).Elem()
		var res Value = true
		for i := range av {
			res = x.and(res, x.equals(et, av[i], bv[i]))
			if r, ok := res.(bool); ok && !r {
				return false
			}
		}
		return res
	case Iface:
		bv := b.(Iface)
		if av.t == nil || bv.t == nil {
			return av.t == nil && bv.t == nil
		}
		if !types.Identical(av.t, bv.t) {
			return false
		}
		if !types.Comparable(av.t) {
			x.tpanic("comparing uncomparable type " + av.t.String())
		}
		return x.equals(av.t, av.v, bv.v)
	case *ssa.Function, *Closure, NativeFn, *ssa.Builtin:
		na, _ := isNilValue(a)
		nb, _ := isNilValue(b)
		return na && nb
	case []Value:
		na, _ := isNilValue(a)
		nb, _ := isNilValue(b)
		return na && nb
	}
	panic(fmt.Sprintf("equals: unexpected %T (type %s)", a, t))
}

// ---- conversions --------------------------------------------------------------------------------

func (x *Exec) conv(tdst, tsrc types.Type, v Value) Value {
	ud, us := tdst.Underlying(), tsrc.Underlying()
	// pointers / unsafe.Pointer: identity on our representation
	switch ud.(type) {
	case *types.Pointer:
		switch us.(type) {
		case *types.Pointer:
			return v
		case *types.Basic: // unsafe.Pointer -> *T
			if sp, ok := v.(*Value); ok {
				return sp
			}
			x.unsupported("conversion of %T to pointer", v)
		}
	case *types.Slice:
		// string -> []byte / []rune ; slice -> slice of identical underlying elem
		switch us.(type) {
		case *types.Slice:
			return v
		}
		if isStringT(tsrc) {
			et := ud.(*types.Slice).Elem().Underlying().(*types.Basic)
			if et.Kind() == types.Uint8 {
				b := strBytes(v)
				out := make([]Value, len(b))
				copy(out, b)
				return out
			}
			s, ok := v.(string)
			if !ok {
				x.unsupported("[]rune(symbolic string)")
			}
			rs := []rune(s)
			out := make([]Value, len(rs))
			for i, r := range rs {
				out[i] = uint64(uint32(r))
			}
			return out
		}
	case *types.Array, *types.Struct, *types.Map, *types.Chan, *types.Signature, *types.Interface:
		return v
	}
	bd, okd := ud.(*types.Basic)
	if !okd {
		panic(fmt.Sprintf("conv: unsupported %s -> %s", tsrc, tdst))
	}
	if bd.Kind() == types.UnsafePointer {
		switch p := v.(type) {
		case *Value:
			return p
		case uint64:
			if p == 0 {
				return (*Value)(nil)
			}
		}
		x.unsupported("conversion of %T to unsafe.Pointer", v)
	}
	if bd.Info()&types.IsString != 0 {
		// from string, []byte, []rune, integer
		switch sv := v.(type) {
		case string, *SymStr:
			return sv
		case []Value:
			et := us.(*types.Slice).Elem().Underlying().(*types.Basic)
			if et.Kind() == types.Uint8 {
				return mkStr(sv)
			}
			var sb strings.Builder
			for _, r := range sv {
				c, ok := r.(uint64)
				if !ok {
					x.unsupported("string([]rune) with symbolic runes")
				}
				sb.WriteRune(rune(int32(uint32(c))))
			}
			return sb.String()
		case uint64:
			w, signed, _ := intInfo(tsrc)
			var r rune
			if signed {
				sv2 := sext64(sv, w)
				if sv2 < 0 || sv2 > utf8.MaxRune {
					r = utf8.RuneError
				} else {
					r = rune(sv2)
				}
			} else if sv > utf8.MaxRune {
				r = utf8.RuneError
			} else {
				r = rune(sv)
			}
			return string(r)
		case *Term:
			x.unsupported("string(symbolic integer)")
		}
	}
	if wd, _, ok := intInfo(tdst); ok {
		if ws, ss, ok2 := intInfo(tsrc); ok2 {
			switch n := v.(type) {
			case uint64:
				if ss {
					return norm(uint64(sext64(n, ws)), wd)
				}
				return norm(n, wd)
			case *Term:
				return fromTerm(x.st.Resize(n, wd, ss))
			}
		}
		if _, ok2 := isFloat(tsrc); ok2 {
			f := v.(float64)
			_, sd, _ := intInfo(tdst)
			if sd {
				return norm(uint64(int64(f)), wd)
			}
			if f < 0 {
				return norm(uint64(int64(f)), wd)
			}
			return norm(uint64(f), wd)
		}
		if bs, ok2 := us.(*types.Basic); ok2 && bs.Kind() == types.UnsafePointer {
			if p, ok := v.(*Value); ok && p == nil {
				return uint64(0)
			}
			x.unsupported("uintptr(unsafe.Pointer)")
		}
	}
	if bitsD, ok := isFloat(tdst); ok {
		var f float64
		if ws, ss, ok2 := intInfo(tsrc); ok2 {
			n, isC := v.(uint64)
			if !isC {
				// an opaque float: may be passed around (metrics calls) but any use of it is an engine error
				return opaqueFloat{}
			}
			if ss {
				f = float64(sext64(n, ws))
			} else {
				f = float64(n)
			}
		} else if _, ok2 := isFloat(tsrc); ok2 {
			f = v.(float64)
		} else {
			panic("conv to float from " + tsrc.String())
		}
		if bitsD == 32 {
			return float64(float32(f))
		}
		return f
	}
	if bd.Info()&types.IsComplex != 0 {
		return v
	}
	if bd.Info()&types.IsBoolean != 0 {
		return v
	}
	panic(fmt.Sprintf("conv: unsupported %s -> %s (%T)", tsrc, tdst, v))
}

// ---- builtins -----------------------------------------------------------------------------------

func (x *Exec) callBuiltin(caller *frame, fn *ssa.Builtin, args []Value) Value {
	switch fn.Name() {
	case "append":
		if len(args) == 1 {
			return args[0]
		}
		dst := args[0].([]Value)
		var src []Value
		switch s := args[1].(type) {
		case []Value:
			src = s
		case string, *SymStr:
			src = strBytes(s)
		}
		if len(src) == 0 {
			return dst
		}
		n := len(dst) + len(src)
		if n <= cap(dst) {
			res := dst[:n]
			for i, v := range src {
				x.write(&res[len(dst)+i], copyVal(v), nil)
			}
			return res
		}
		nc := 2 * cap(dst)
		if nc < n {
			nc = n
		}
		res := make([]Value, n, nc)
		copy(res, dst)
		for i, v := range src {
			res[len(dst)+i] = copyVal(v)
		}
		// zero the spare capacity lazily: elements beyond len are only reachable via reslice
		if nc > n {
			et := fn.Type().(*types.Signature).Params().At(0).Type().Underlying().(*types.Slice).Elem()
			full := res[:nc]
			for i := n; i < nc; i++ {
				full[i] = zero(et)
			}
		}
		return res

	case "copy":
		dst := args[0].([]Value)
		var src []Value
		switch s := args[1].(type) {
		case []Value:
			src = s
		case string, *SymStr:
			src = strBytes(s)
		}
		n := len(dst)
		if len(src) < n {
			n = len(src)
		}
		if n == 0 {
			return uint64(0)
		}
		// handle overlap like memmove
		tmp := make([]Value, n)
		for i := 0; i < n; i++ {
			tmp[i] = copyVal(src[i])
		}
		for i := 0; i < n; i++ {
			x.write(&dst[i], tmp[i], nil)
		}
		return uint64(n)

	case "close":
		x.noSpec("close")
		c := args[0].(*Chan)
		if c == nil {
			x.tpanic("close of nil channel")
		}
		if c.closed {
			x.tpanic("close of closed channel")
		}
		c.closed = true
		return nil

	case "delete":
		x.noSpec("delete")
		m := args[0].(*Map)
		if m == nil {
			return nil
		}
		if e := x.findEntry(m, args[1]); e != nil {
			m.deleteEntry(e)
		}
		return nil

	case "clear":
		x.noSpec("clear")
		switch c := args[0].(type) {
		case *Map:
			if c != nil {
				for _, e := range c.live() {
					c.deleteEntry(e)
				}
			}
		case []Value:
			et := fn.Type().(*types.Signature).Params().At(0).Type().Underlying().(*types.Slice).Elem()
			for i := range c {
				c[i] = zero(et)
			}
		}
		return nil

	case "print", "println":
		if x.eng.cfg.Trace {
			for _, a := range args {
				fmt.Fprint(os.Stderr, valString(a), " ")
			}
			fmt.Fprintln(os.Stderr)
		}
		return nil

	case "len":
		switch v := args[0].(type) {
		case string:
			return uint64(len(v))
		case *SymStr:
			return uint64(len(v.b))
		case Array:
			return uint64(len(v))
		case *Value:
			if v == nil {
				// len of nil *array is the array length; need the type
				t := fn.Type().(*types.Signature).Params().At(0).Type()
				return uint64(deref(t).Underlying().(*types.Array).Len())
			}
			return uint64(len((*v).(Array)))
		case []Value:
			return uint64(len(v))
		case *Map:
			return uint64(v.Len())
		case *Chan:
			if v == nil {
				return uint64(0)
			}
			return uint64(len(v.buf))
		}
		panic(fmt.Sprintf("len: illegal operand %T", args[0]))

	case "cap":
		switch v := args[0].(type) {
		case Array:
			return uint64(len(v))
		case *Value:
			if v == nil {
				t := fn.Type().(*types.Signature).Params().At(0).Type()
				return uint64(deref(t).Underlying().(*types.Array).Len())
			}
			return uint64(len((*v).(Array)))
		case []Value:
			return uint64(cap(v))
		case *Chan:
			if v == nil {
				return uint64(0)
			}
			return uint64(v.cap)
		}
		panic(fmt.Sprintf("cap: illegal operand %T", args[0]))

	case "min", "max":
		t := fn.Type().(*types.Signature).Params().At(0).Type()
		res := args[0]
		for _, a := range args[1:] {
			var lt Value
			if fn.Name() == "min" {
				lt = x.binop(token.LSS, t, t, a, res)
			} else {
				lt = x.binop(token.GTR, t, t, a, res)
			}
			switch c := lt.(type) {
			case bool:
				if c {
					res = a
				}
			case *Term:
				w, _, _ := intInfo(t)
				res = fromTerm(x.st.Ite(c, x.toTerm(a, w), x.toTerm(res, w)))
			}
		}
		return res

	case "real":
		return real(args[0].(complex128))
	case "imag":
		return imag(args[0].(complex128))
	case "complex":
		return complex(args[0].(float64), args[1].(float64))

	case "panic":
		if x.spec != nil {
			panic(specAbort{"panic"})
		}
		panic(targetPanic{v: args[0]})

	case "recover":
		return x.doRecover(caller)

	case "ssa:wrapnilchk":
		recv := args[0]
		if p, ok := recv.(*Value); !ok || p != nil {
			return recv
		}
		x.tpanic(fmt.Sprintf("value method %s.%s called using nil pointer", valString(args[1]), valString(args[2])))

	case "ssa:deferstack":
		return &caller.defers
	}
	x.unsupported("builtin %s", fn.Name())
	return nil
}

// ---- If, speculation (if-conversion) -----------------------------------------------------------

type undoRec struct {
	addr *Value
	old  Value
	t    types.Type
}

type specState struct {
	log    []undoRec
	parent *specState
	fresh  map[*Value]bool // cells allocated inside this speculation (merge.go)
}

type diamond struct {
	ok         bool
	armT, armF *ssa.BasicBlock // nil = empty arm (direct edge to join)
	join       *ssa.BasicBlock
}

var diamondCache = map[*ssa.If]*diamond{}
var diamondMu = make(chan struct{}, 1)

func singleBlockArm(b, from *ssa.BasicBlock) (*ssa.BasicBlock, bool) {
	if len(b.Preds) != 1 || b.Preds[0] != from || len(b.Succs) != 1 {
		return nil, false
	}
	if _, ok := b.Instrs[len(b.Instrs)-1].(*ssa.Jump); !ok {
		return nil, false
	}
	for _, in := range b.Instrs {
		if _, isPhi := in.(*ssa.Phi); isPhi {
			return nil, false
		}
	}
	return b.Succs[0], true
}

func analyseDiamond(instr *ssa.If) *diamond {
	diamondMu <- struct{}{}
	defer func() { <-diamondMu }()
	if d, ok := diamondCache[instr]; ok {
		return d
	}
	d := &diamond{}
	diamondCache[instr] = d
	blk := instr.Block()
	t, f := blk.Succs[0], blk.Succs[1]
	jt, okT := singleBlockArm(t, blk)
	jf, okF := singleBlockArm(f, blk)
	switch {
	case okT && okF && jt == jf && jt != blk:
		d.ok, d.armT, d.armF, d.join = true, t, f, jt
	case okT && jt == f:
		d.ok, d.armT, d.armF, d.join = true, t, nil, f
	case okF && jf == t:
		d.ok, d.armT, d.armF, d.join = true, nil, f, t
	}
	return d
}

func (x *Exec) visitIf(fr *frame, instr *ssa.If) continuation {
	c := fr.get(instr.Cond)
	var taken bool
	switch cv := c.(type) {
	case bool:
		taken = cv
	case *Term:
		if !x.eng.cfg.NoIfConv {
			if d := analyseDiamond(instr); d.ok {
				if x.ifConvert(fr, instr, d, cv) {
					return kJump
				}
			} else if isReturnArm(instr.Block().Succs[0]) && isReturnArm(instr.Block().Succs[1]) {
				if x.retConvert(fr, instr, cv) {
					return kReturn
				}
			}
			if x.eng.mergeFns[fr.fn.String()] && x.mergeReturns(fr, instr, cv) {
				return kReturn
			}
		}
		taken = x.branch(cv)
	default:
		panic(fmt.Sprintf("if: condition is %T", c))
	}
	succ := 1
	if taken {
		succ = 0
	}
	fr.prevBlock, fr.block = fr.block, fr.block.Succs[succ]
	return kJump
}

// runArm executes the instructions of a single-block arm speculatively. It returns the final
// values of all written cells; the writes themselves are rolled back.
func (x *Exec) runArm(fr *frame, arm *ssa.BasicBlock) (final map[*Value]Value, order []undoRec, ok bool) {
	sp := &specState{parent: x.spec}
	x.spec = sp
	depth := x.depth
	defer func() {
		x.spec = sp.parent
		x.depth = depth
		x.cstack = x.cstack[:depth]
		r := recover()
		// roll back
		if r != nil || true {
			if r == nil {
				final = map[*Value]Value{}
				for _, u := range sp.log {
					final[u.addr] = *u.addr
				}
				order = sp.log
				ok = true
			}
			for i := len(sp.log) - 1; i >= 0; i-- {
				*sp.log[i].addr = sp.log[i].old
			}
		}
		if r != nil {
			if _, is := r.(specAbort); is {
				ok = false
				return
			}
			panic(r)
		}
	}()
	if arm != nil {
		for _, in := range arm.Instrs[:len(arm.Instrs)-1] {
			switch in.(type) {
			case *ssa.Return, *ssa.If, *ssa.RunDefers:
				panic(specAbort{"control flow in arm"})
			}
			x.visitInstr(fr, in)
		}
	}
	return
}

func (x *Exec) mergeScalar(c *Term, vt, vf Value, t types.Type) (Value, bool) {
	if t != nil {
		if w, _, ok := intInfo(t); ok {
			return fromTerm(x.st.Ite(c, x.toTerm(vt, w), x.toTerm(vf, w))), true
		}
		if isBoolT(t) {
			return fromTerm(x.st.Ite(c, x.toTerm(vt, 0), x.toTerm(vf, 0))), true
		}
	}
	// unknown type: mergeable when identical, or when a width can be inferred from a term
	switch a := vt.(type) {
	case *Term:
		switch b := vf.(type) {
		case *Term:
			if a.w == b.w {
				return fromTerm(x.st.Ite(c, a, b)), true
			}
		case uint64:
			return fromTerm(x.st.Ite(c, a, x.st.Const(a.w, b))), true
		case bool:
			if a.w == 0 {
				return fromTerm(x.st.Ite(c, a, x.st.Bool(b))), true
			}
		}
	case uint64:
		switch b := vf.(type) {
		case *Term:
			if b.w > 0 {
				return fromTerm(x.st.Ite(c, x.st.Const(b.w, a), b)), true
			}
		case uint64:
			if a == b {
				return a, true
			}
		}
	case bool:
		switch b := vf.(type) {
		case *Term:
			if b.w == 0 {
				return fromTerm(x.st.Ite(c, x.st.Bool(a), b)), true
			}
		case bool:
			return fromTerm(x.st.Ite(c, x.st.Bool(a), x.st.Bool(b))), true
		}
	case string:
		if b, ok := vf.(string); ok && a == b {
			return a, true
		}
	case *Value:
		if b, ok := vf.(*Value); ok && a == b {
			return a, true
		}
	}
	return nil, false
}

// isReturnArm: a block without phis that ends in a Return (`if c { return X }; return Y`).
func isReturnArm(b *ssa.BasicBlock) bool {
	if len(b.Instrs) == 0 || len(b.Instrs) > 24 {
		return false
	}
	if _, ok := b.Instrs[len(b.Instrs)-1].(*ssa.Return); !ok {
		return false
	}
	if _, isPhi := b.Instrs[0].(*ssa.Phi); isPhi {
		return false
	}
	return true
}

// retConvert if-converts `if c { return X } return Y` when both arms are pure: the results (and
// the memory written by the arms) are merged under c and the function returns once.
func (x *Exec) retConvert(fr *frame, instr *ssa.If, c *Term) bool {
	blk := instr.Block()
	armT, armF := blk.Succs[0], blk.Succs[1]
	if armT == armF {
		return false
	}
	rets := fr.fn.Signature.Results()
	for i := 0; i < rets.Len(); i++ {
		if !mergeableType(rets.At(i).Type(), 0) {
			return false
		}
	}
	steps := x.steps
	results := func(b *ssa.BasicBlock) []Value {
		r := b.Instrs[len(b.Instrs)-1].(*ssa.Return)
		out := make([]Value, len(r.Results))
		for i, v := range r.Results {
			out[i] = fr.get(v)
		}
		return out
	}
	finT, logT, ok := x.runArm(fr, armT)
	if !ok {
		x.steps = steps
		return false
	}
	resT := results(armT)
	finF, logF, ok := x.runArm(fr, armF)
	if !ok {
		x.steps = steps
		return false
	}
	resF := results(armF)
	type upd struct {
		addr *Value
		v    Value
		t    types.Type
	}
	var upds []upd
	seen := map[*Value]bool{}
	for _, lg := range [][]undoRec{logT, logF} {
		for _, u := range lg {
			if seen[u.addr] {
				continue
			}
			seen[u.addr] = true
			vt, okT := finT[u.addr]
			if !okT {
				vt = *u.addr
			}
			vf, okF := finF[u.addr]
			if !okF {
				vf = *u.addr
			}
			m, ok := x.mergeValue(c, vt, vf, u.t)
			if !ok {
				x.steps = steps
				return false
			}
			upds = append(upds, upd{u.addr, m, u.t})
		}
	}
	merged := make([]Value, len(resT))
	for i := range resT {
		m, ok := x.mergeValue(c, resT[i], resF[i], rets.At(i).Type())
		if !ok {
			x.steps = steps
			return false
		}
		merged[i] = m
	}
	for _, u := range upds {
		x.write(u.addr, u.v, u.t)
	}
	switch len(merged) {
	case 0:
		fr.result = nil
	case 1:
		fr.result = merged[0]
	default:
		fr.result = Tuple(merged)
	}
	x.ifconv++
	fr.block = nil
	return true
}

// mergeableType: values of this type can be merged under a condition (scalars, and structs/arrays
// of such; pointers only when both arms carry the same pointer, checked at merge time).
func mergeableType(t types.Type, depth int) bool {
	if depth > 4 {
		return false
	}
	if _, _, isInt := intInfo(t); isInt || isBoolT(t) {
		return true
	}
	switch u := t.Underlying().(type) {
	case *types.Struct:
		for i := 0; i < u.NumFields(); i++ {
			if !mergeableType(u.Field(i).Type(), depth+1) {
				return false
			}
		}
		return true
	case *types.Array:
		return u.Len() <= 16 && mergeableType(u.Elem(), depth+1)
	case *types.Pointer:
		return depth > 0 // only as a field (e.g. time.Time.loc); must be identical in both arms
	}
	return false
}

// mergeValue is mergeScalar extended to structs and small arrays (field-wise).
func (x *Exec) mergeValue(c *Term, vt, vf Value, t types.Type) (Value, bool) {
	if t != nil {
		switch u := t.Underlying().(type) {
		case *types.Struct:
			st, ok1 := vt.(Struct)
			sf, ok2 := vf.(Struct)
			if !ok1 || !ok2 || len(st) != len(sf) || len(st) != u.NumFields() {
				return nil, false
			}
			out := make(Struct, len(st))
			for i := range st {
				m, ok := x.mergeValue(c, st[i], sf[i], u.Field(i).Type())
				if !ok {
					return nil, false
				}
				out[i] = m
			}
			return out, true
		case *types.Array:
			at, ok1 := vt.(Array)
			af, ok2 := vf.(Array)
			if !ok1 || !ok2 || len(at) != len(af) {
				return nil, false
			}
			out := make(Array, len(at))
			for i := range at {
				m, ok := x.mergeValue(c, at[i], af[i], u.Elem())
				if !ok {
					return nil, false
				}
				out[i] = m
			}
			return out, true
		case *types.Pointer:
			pt, ok1 := vt.(*Value)
			pf, ok2 := vf.(*Value)
			if ok1 && ok2 && pt == pf {
				return pt, true
			}
			return nil, false
		}
	}
	return x.mergeScalar(c, vt, vf, t)
}

func (x *Exec) ifConvert(fr *frame, instr *ssa.If, d *diamond, c *Term) bool {
	// phis at the join must be scalar-typed (or structs/arrays of scalars)
	var phis []*ssa.Phi
	for _, in := range d.join.Instrs {
		p, ok := in.(*ssa.Phi)
		if !ok {
			break
		}
		if !mergeableType(p.Type(), 0) {
			return false
		}
		phis = append(phis, p)
	}
	blk := instr.Block()
	predT, predF := d.armT, d.armF
	if predT == nil {
		predT = blk
	}
	if predF == nil {
		predF = blk
	}
	idxT, idxF := -1, -1
	for i, p := range d.join.Preds {
		if p == predT && idxT < 0 {
			idxT = i
		} else if p == predF {
			idxF = i
		}
	}
	if predT == predF {
		// both edges come from blk (cannot distinguish) - not a diamond we handle
		return false
	}
	if idxT < 0 || idxF < 0 {
		return false
	}
	steps := x.steps
	finT, logT, ok := x.runArm(fr, d.armT)
	if !ok {
		x.steps = steps
		return false
	}
	phiT := make([]Value, len(phis))
	for i, p := range phis {
		phiT[i] = fr.get(p.Edges[idxT])
	}
	finF, logF, ok := x.runArm(fr, d.armF)
	if !ok {
		x.steps = steps
		return false
	}
	phiF := make([]Value, len(phis))
	for i, p := range phis {
		phiF[i] = fr.get(p.Edges[idxF])
	}
	// merge memory
	type upd struct {
		addr *Value
		v    Value
		t    types.Type
	}
	var upds []upd
	seen := map[*Value]bool{}
	for _, lg := range [][]undoRec{logT, logF} {
		for _, u := range lg {
			if seen[u.addr] {
				continue
			}
			seen[u.addr] = true
			vt, okT := finT[u.addr]
			if !okT {
				vt = *u.addr
			}
			vf, okF := finF[u.addr]
			if !okF {
				vf = *u.addr
			}
			m, ok := x.mergeValue(c, vt, vf, u.t)
			if !ok {
				x.steps = steps
				return false
			}
			upds = append(upds, upd{u.addr, m, u.t})
		}
	}
	phiM := make([]Value, len(phis))
	for i, p := range phis {
		m, ok := x.mergeValue(c, phiT[i], phiF[i], p.Type())
		if !ok {
			// e.g. different pointers inside a struct: fork instead
			x.steps = steps
			return false
		}
		phiM[i] = m
	}
	for _, u := range upds {
		x.write(u.addr, u.v, u.t)
	}
	for i, p := range phis {
		fr.env[p] = phiM[i]
	}
	x.ifconv++
	// continue at the join; its phis are already assigned
	fr.prevBlock = predT
	fr.block = d.join
	fr.skipPhis = true
	return true
}

// ---- channels, select, go (minimal; environment-driven channels are set up by harness natives) --

func (x *Exec) chanSend(c *Chan, v Value) {
	if c == nil {
		x.end(endBlocked, "send on nil channel blocks forever")
	}
	if c.closed {
		x.tpanic("send on closed channel")
	}
	if c.env {
		// environment consumes or not: blocking send to environment always succeeds eventually
		c.buf = append(c.buf, v)
		return
	}
	if len(c.buf) < c.cap {
		c.buf = append(c.buf, v)
		return
	}
	x.end(endBlocked, "send on full channel %s blocks (no scheduler modelled)", c.name)
}

func (x *Exec) chanRecv(c *Chan, et types.Type) (Value, bool) {
	if c == nil {
		x.end(endBlocked, "receive on nil channel blocks forever")
	}
	if len(c.buf) > 0 {
		v := c.buf[0]
		c.buf = c.buf[1:]
		return v, true
	}
	if c.closed {
		return zero(et), false
	}
	x.end(endBlocked, "receive on empty channel %s blocks (no scheduler modelled)", c.name)
	return nil, false
}

func (x *Exec) selectStmt(fr *frame, instr *ssa.Select) Value {
	// collect ready cases
	type rc struct {
		idx int
	}
	var ready []int
	for i, st := range instr.States {
		c := fr.get(st.Chan).(*Chan)
		if c == nil {
			continue
		}
		if st.Dir == types.RecvOnly {
			if len(c.buf) > 0 || c.closed {
				ready = append(ready, i)
			}
		} else {
			if c.closed {
				ready = append(ready, i) // will panic
			} else if c.env {
				ready = append(ready, i)
				ready = append(ready, -(i + 2)) // environment may also refuse (queue full)
			} else if len(c.buf) < c.cap {
				ready = append(ready, i)
			}
		}
	}
	// environment-refused sends are only meaningful with a default / other ready cases
	var alts []int
	for _, r := range ready {
		if r >= 0 {
			alts = append(alts, r)
		}
	}
	envRefuse := false
	for _, r := range ready {
		if r < -1 {
			envRefuse = true
		}
	}
	if !instr.Blocking {
		if len(alts) == 0 || envRefuse {
			alts = append(alts, -1)
		}
	}
	if len(alts) == 0 {
		x.end(endBlocked, "select blocks forever (no ready case, no scheduler modelled)")
	}
	chosen := alts[0]
	if len(alts) > 1 {
		chosen = alts[x.choose(len(alts), "select")]
	}
	res := Tuple{uint64(norm(uint64(int64(chosen)), 64)), false}
	for i, st := range instr.States {
		if st.Dir == types.RecvOnly {
			et := st.Chan.Type().Underlying().(*types.Chan).Elem()
			if i == chosen {
				c := fr.get(st.Chan).(*Chan)
				v, ok := x.chanRecv(c, et)
				res[1] = ok
				res = append(res, v)
			} else {
				res = append(res, zero(et))
			}
		} else if i == chosen {
			x.chanSend(fr.get(st.Chan).(*Chan), fr.get(st.Send))
		}
	}
	return res
}

func (x *Exec) goStmt(fr *frame, instr *ssa.Go, fn Value, args []Value) {
	x.eng.stubsUsed.LoadOrStore("go statement (not executed): "+fr.where(instr), struct{}{})
}

var _ = math.Ceil
