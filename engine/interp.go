package main

// SSA interpreter (structure follows golang.org/x/tools/go/ssa/interp, rewritten for symbolic
// scalar values, decision points, speculation/if-conversion and lazy package initialisation).

import (
	"fmt"
	"go/token"
	"go/types"
	"os"
	"runtime/debug"
	"strings"
	"sync"

	"golang.org/x/tools/go/ssa"
)

type deferred struct {
	fn    Value
	args  []Value
	instr *ssa.Defer
	tail  *deferred
}

type frame struct {
	x                *Exec
	caller           *frame
	fn               *ssa.Function
	block, prevBlock *ssa.BasicBlock
	env              map[ssa.Value]Value
	locals           []Value
	defers           *deferred
	result           Value
	panicking        bool
	panicVal         targetPanic
	phitemps         []Value
	skipPhis         bool
	depth            int
}

type engineErr struct {
	r     any
	stack string
	fn    string
}

type NativeFn func(x *Exec, fr *frame, args []Value) Value

func deref(t types.Type) types.Type {
	if p, ok := t.Underlying().(*types.Pointer); ok {
		return p.Elem()
	}
	panic("deref: not a pointer: " + t.String())
}

func (fr *frame) get(key ssa.Value) Value {
	switch key := key.(type) {
	case nil:
		return nil
	case *ssa.Function, *ssa.Builtin:
		return key
	case *ssa.Const:
		return constValue(key)
	case *ssa.Global:
		return fr.x.globalAddr(key)
	}
	if r, ok := fr.env[key]; ok {
		return r
	}
	panic(fmt.Sprintf("get: no value for %T: %v in %s", key, key.Name(), fr.fn))
}

func (x *Exec) globalAddr(g *ssa.Global) *Value {
	if a, ok := x.globals[g]; ok {
		return a
	}
	x.ensureInit(g.Pkg)
	if a, ok := x.globals[g]; ok {
		return a
	}
	// global of a package whose members were not enumerated (should not happen)
	cell := zero(deref(g.Type()))
	x.globals[g] = &cell
	return &cell
}

func initSkipped(path string) bool {
	switch path {
	case "os", "errors", "runtime", "syscall", "net", "reflect", "testing", "log", "os/signal", "os/exec", "os/user",
		"net/http", "crypto/x509", "crypto/tls", "database/sql", "flag", "expvar", "net/http/pprof",
		"runtime/pprof", "runtime/trace", "runtime/debug", "mime", "html", "html/template", "text/template",
		"go/build", "go/token", "plugin", "internal/poll", "internal/godebug", "internal/cpu", "encoding/asn1":
		return true
	case "crypto/x509/pkix": // plain tables (attributeTypeNames, well-known OIDs) needed by pkix.Name methods
		return false
	}
	for _, p := range []string{"internal/", "runtime/", "vendor/", "go.uber.org/", "google.golang.org/", "github.com/prometheus/",
		"golang.org/x/sys", "golang.org/x/net", "golang.org/x/crypto", "github.com/opentracing", "github.com/uber/",
		"github.com/mattn/", "modernc.org/", "github.com/grpc-ecosystem", "github.com/quic-go", "crypto/", "github.com/spf13",
		"github.com/pelletier", "gopkg.in/", "github.com/antlr", "golang.org/x/text", "github.com/golang/", "github.com/beorn7",
		"github.com/cespare", "encoding/json", "github.com/hashicorp", "github.com/fatih", "github.com/dchest"} {
		if strings.HasPrefix(path, p) {
			return true
		}
	}
	return false
}

// ensureInit allocates pkg's globals and runs its initialiser (without the initialisers of
// its imports, which run lazily when first touched).
func (x *Exec) ensureInit(pkg *ssa.Package) {
	if pkg == nil || x.inited[pkg] {
		return
	}
	x.inited[pkg] = true
	x.eng.build(pkg)
	for _, m := range pkg.Members {
		if g, ok := m.(*ssa.Global); ok {
			cell := zero(deref(g.Type()))
			x.globals[g] = &cell
		}
	}
	if initSkipped(pkg.Pkg.Path()) {
		if f := x.eng.pkgInitHook[pkg.Pkg.Path()]; f != nil {
			f(x, pkg)
		}
		return
	}
	if init := pkg.Func("init"); init != nil {
		saved := x.spec
		x.spec = nil // initialisation is not part of any speculation
		x.call(nil, init, nil)
		x.spec = saved
	}
}

func (e *Engine) build(pkg *ssa.Package) {
	e.buildMu.Lock()
	pkg.Build()
	e.buildMu.Unlock()
}

func loc(fset *token.FileSet, pos token.Pos) string {
	if pos == token.NoPos {
		return "?"
	}
	p := fset.Position(pos)
	return fmt.Sprintf("%s:%d", p.Filename, p.Line)
}

func (fr *frame) where(instr ssa.Instruction) string {
	// cached: called on every index operation (hot path)
	if s, ok := whereCache.Load(instr); ok {
		return s.(string)
	}
	s := fr.fn.String() + " at " + loc(fr.fn.Prog.Fset, instr.Pos())
	whereCache.Store(instr, s)
	return s
}

var whereCache sync.Map

// runDefer runs a deferred call d. It always returns normally but may set or clear fr.panicking.
func (fr *frame) runDefer(d *deferred) {
	var ok bool
	defer func() {
		if !ok {
			r := recover()
			if tp, is := r.(targetPanic); is {
				fr.panicking = true
				fr.panicVal = tp
			} else {
				panic(r)
			}
		}
	}()
	fr.x.callValue(fr, d.instr.Pos(), d.fn, d.args)
	ok = true
}

func (fr *frame) runDefers() {
	for d := fr.defers; d != nil; d = d.tail {
		fr.runDefer(d)
	}
	fr.defers = nil
	if fr.panicking {
		panic(fr.panicVal)
	}
}

func (x *Exec) step(fr *frame, instr ssa.Instruction) {
	x.steps++
	if x.steps > x.eng.cfg.MaxSteps {
		x.end(endBudget, "more than %d interpreted instructions on one path", x.eng.cfg.MaxSteps)
	}
	if x.eng.cfg.Trace {
		if v, ok := instr.(ssa.Value); ok {
			fmt.Fprintf(os.Stderr, "%*s%s = %s\n", x.depth, "", v.Name(), instr)
		} else {
			fmt.Fprintf(os.Stderr, "%*s%s\n", x.depth, "", instr)
		}
	}
}

type continuation int

const (
	kNext continuation = iota
	kReturn
	kJump
)

func (x *Exec) visitInstr(fr *frame, instr ssa.Instruction) continuation {
	x.step(fr, instr)
	switch instr := instr.(type) {
	case *ssa.DebugRef:

	case *ssa.UnOp:
		fr.env[instr] = x.unop(fr, instr, fr.get(instr.X))

	case *ssa.BinOp:
		fr.env[instr] = x.binop(instr.Op, instr.X.Type(), instr.Y.Type(), fr.get(instr.X), fr.get(instr.Y))

	case *ssa.Call:
		fn, args := x.prepareCall(fr, &instr.Call)
		fr.env[instr] = x.callValue(fr, instr.Pos(), fn, args)

	case *ssa.ChangeInterface:
		fr.env[instr] = fr.get(instr.X)

	case *ssa.ChangeType:
		fr.env[instr] = fr.get(instr.X)

	case *ssa.Convert:
		fr.env[instr] = x.conv(instr.Type(), instr.X.Type(), fr.get(instr.X))

	case *ssa.MultiConvert:
		fr.env[instr] = x.conv(instr.Type(), instr.X.Type(), fr.get(instr.X))

	case *ssa.SliceToArrayPointer:
		v := fr.get(instr.X).([]Value)
		n := int(deref(instr.Type()).Underlying().(*types.Array).Len())
		if len(v) < n {
			x.tpanic(fmt.Sprintf("cannot convert slice with length %d to array or pointer to array with length %d", len(v), n))
		}
		if v == nil {
			fr.env[instr] = (*Value)(nil)
		} else {
			// the pointer must alias the slice's backing array
			var cell Value = Array(v[:n:n])
			fr.env[instr] = &cell
		}

	case *ssa.MakeInterface:
		fr.env[instr] = Iface{t: instr.X.Type(), v: fr.get(instr.X)}

	case *ssa.Extract:
		fr.env[instr] = fr.get(instr.Tuple).(Tuple)[instr.Index]

	case *ssa.Slice:
		fr.env[instr] = x.slice(instr, fr.get(instr.X), fr.get(instr.Low), fr.get(instr.High), fr.get(instr.Max))

	case *ssa.Return:
		switch len(instr.Results) {
		case 0:
		case 1:
			fr.result = fr.get(instr.Results[0])
		default:
			res := make(Tuple, 0, len(instr.Results))
			for _, r := range instr.Results {
				res = append(res, fr.get(r))
			}
			fr.result = res
		}
		fr.block = nil
		return kReturn

	case *ssa.RunDefers:
		fr.runDefers()

	case *ssa.Panic:
		if x.spec != nil {
			panic(specAbort{"panic"})
		}
		panic(targetPanic{v: fr.get(instr.X), where: fr.where(instr)})

	case *ssa.Send:
		x.noSpec("send")
		x.chanSend(fr.get(instr.Chan).(*Chan), fr.get(instr.X))

	case *ssa.Store:
		addr := fr.get(instr.Addr)
		x.storeAt(deref(instr.Addr.Type()), addr, fr.get(instr.Val))

	case *ssa.If:
		return x.visitIf(fr, instr)

	case *ssa.Jump:
		fr.prevBlock, fr.block = fr.block, fr.block.Succs[0]
		return kJump

	case *ssa.Defer:
		x.noSpec("defer")
		fn, args := x.prepareCall(fr, &instr.Call)
		defers := &fr.defers
		if instr.DeferStack != nil {
			if into := fr.get(instr.DeferStack); into != nil {
				defers = into.(**deferred)
			}
		}
		*defers = &deferred{fn: fn, args: args, instr: instr, tail: *defers}

	case *ssa.Go:
		x.noSpec("go")
		fn, args := x.prepareCall(fr, &instr.Call)
		x.goStmt(fr, instr, fn, args)

	case *ssa.MakeChan:
		n := int(x.concreteInt(fr.get(instr.Size), "chan size"))
		fr.env[instr] = &Chan{cap: n}

	case *ssa.Alloc:
		var addr *Value
		if instr.Heap {
			addr = new(Value)
			fr.env[instr] = addr
			*addr = zero(deref(instr.Type()))
			if x.spec != nil {
				x.spec.noteFresh(addr)
			}
		} else {
			addr = fr.env[instr].(*Value)
			x.write(addr, zero(deref(instr.Type())), nil)
			if x.spec != nil && x.spec.fresh[addr] {
				x.spec.noteFresh(addr) // the cells of the new zero value
			}
		}

	case *ssa.MakeSlice:
		ln := x.concreteInt(fr.get(instr.Len), "make len")
		cp := x.concreteInt(fr.get(instr.Cap), "make cap")
		if int64(ln) < 0 || int64(cp) < 0 || ln > cp || cp > 1<<26 {
			x.tpanic("makeslice: len out of range")
		}
		sl := make([]Value, cp)
		tElt := instr.Type().Underlying().(*types.Slice).Elem()
		z := zero(tElt)
		switch z.(type) {
		case Struct, Array:
			for i := range sl {
				sl[i] = zero(tElt)
			}
		default:
			for i := range sl {
				sl[i] = z
			}
		}
		fr.env[instr] = sl[:ln]

	case *ssa.MakeMap:
		fr.env[instr] = newMap(instr.Type().Underlying().(*types.Map).Key())

	case *ssa.Range:
		fr.env[instr] = x.rangeIter(fr.get(instr.X))

	case *ssa.Next:
		fr.env[instr] = x.next(instr, fr.get(instr.Iter).(*rangeIter))

	case *ssa.FieldAddr:
		if sp, ok := fr.get(instr.X).(*SymPtr); ok {
			st := sp.et.Underlying().(*types.Struct)
			fr.env[instr] = &SymPtr{base: sp.base, idx: sp.idx, et: st.Field(instr.Field).Type(),
				path: append(append([]int(nil), sp.path...), instr.Field)}
			break
		}
		p := fr.get(instr.X).(*Value)
		if p == nil {
			x.tpanic("invalid memory address or nil pointer dereference (field of nil) in " + fr.where(instr))
		}
		fr.env[instr] = &(*p).(Struct)[instr.Field]

	case *ssa.Field:
		fr.env[instr] = fr.get(instr.X).(Struct)[instr.Field]

	case *ssa.IndexAddr:
		fr.env[instr] = x.indexAddr(fr, instr, fr.get(instr.X), fr.get(instr.Index))

	case *ssa.Index:
		fr.env[instr] = x.index(fr, instr, fr.get(instr.X), fr.get(instr.Index))

	case *ssa.Lookup:
		fr.env[instr] = x.lookup(instr, fr.get(instr.X), fr.get(instr.Index))

	case *ssa.MapUpdate:
		x.noSpec("map update")
		m := fr.get(instr.Map).(*Map)
		if m == nil {
			x.tpanic("assignment to entry in nil map")
		}
		x.mapUpdate(m, fr.get(instr.Key), fr.get(instr.Value))

	case *ssa.TypeAssert:
		fr.env[instr] = x.typeAssert(instr, fr.get(instr.X).(Iface))

	case *ssa.MakeClosure:
		var bindings []Value
		for _, b := range instr.Bindings {
			bindings = append(bindings, fr.get(b))
		}
		fr.env[instr] = &Closure{instr.Fn.(*ssa.Function), bindings}

	case *ssa.Phi:
		panic("unreachable: phi")

	case *ssa.Select:
		x.noSpec("select")
		fr.env[instr] = x.selectStmt(fr, instr)

	default:
		panic(fmt.Sprintf("unexpected instruction: %T", instr))
	}
	return kNext
}

func (x *Exec) noSpec(what string) {
	if x.spec != nil {
		panic(specAbort{what})
	}
}

func (x *Exec) prepareCall(fr *frame, call *ssa.CallCommon) (fn Value, args []Value) {
	v := fr.get(call.Value)
	if call.Method == nil {
		fn = v
	} else {
		recv := v.(Iface)
		if recv.t == nil && call.Method.Pkg() != nil && x.eng.isNoopPkg(call.Method.Pkg().Path()) {
			// nil interface of a type declared in a no-op package (metrics/logging): such values are
			// what the no-op constructors of that package return; their methods are no-ops as well.
			sig := call.Method.Type().(*types.Signature)
			return NativeFn(func(x *Exec, fr *frame, a []Value) Value {
				if sig.Results().Len() == 0 {
					return nil
				}
				if sig.Results().Len() == 1 {
					return zero(sig.Results().At(0).Type())
				}
				return zero(sig.Results())
			}), nil
		}
		if recv.t == nil {
			x.tpanic("invalid memory address or nil pointer dereference (method call on nil interface " + call.Method.Name() + ") in " + fr.fn.String())
		}
		f := x.eng.lookupMethod(recv.t, call.Method)
		if f == nil {
			panic(fmt.Sprintf("method set for dynamic type %v does not contain %s", recv.t, call.Method))
		}
		fn = f
		args = append(args, recv.v)
	}
	for _, a := range call.Args {
		args = append(args, fr.get(a))
	}
	return
}

func (e *Engine) lookupMethod(t types.Type, meth *types.Func) *ssa.Function {
	e.buildMu.Lock()
	defer e.buildMu.Unlock()
	return e.prog.LookupMethod(t, meth.Pkg(), meth.Name())
}

func (x *Exec) callValue(caller *frame, pos token.Pos, fn Value, args []Value) Value {
	switch fn := fn.(type) {
	case *ssa.Function:
		if fn == nil {
			x.tpanic("call of nil function at " + x.stackString())
		}
		return x.callSSA(caller, fn, args, nil)
	case *Closure:
		return x.callSSA(caller, fn.fn, args, fn.env)
	case *ssa.Builtin:
		return x.callBuiltin(caller, fn, args)
	case NativeFn:
		return fn(x, caller, args)
	}
	panic(fmt.Sprintf("cannot call %T", fn))
}

func (x *Exec) call(caller *frame, fn *ssa.Function, args []Value) Value {
	return x.callSSA(caller, fn, args, nil)
}

func (x *Exec) callSSA(caller *frame, fn *ssa.Function, args []Value, env []Value) Value {
	if nat := x.eng.findNative(fn); nat != nil {
		x.eng.stubsUsed.LoadOrStore(fn.String(), struct{}{})
		fr := &frame{x: x, caller: caller, fn: fn}
		if r := nat(x, fr, args); r != Value(declineNative) {
			return r
		}
	}
	name := fn.String()
	if fn.Blocks == nil {
		if fn.Pkg != nil {
			x.eng.build(fn.Pkg)
		} else if o := fn.Origin(); o != nil && o.Pkg != nil {
			x.eng.build(o.Pkg)
		}
		if fn.Blocks == nil {
			x.unsupported("no code for function %s (external/assembly without intrinsic)", name)
		}
	}
	if fn.Synthetic == "package initializer" {
		// an import's initialiser called from another initialiser: run lazily instead
		if caller != nil && caller.fn.Pkg != fn.Pkg {
			return nil
		}
	} else if fn.Pkg != nil && !x.inited[fn.Pkg] {
		x.ensureInit(fn.Pkg)
	}
	if fn.TypeParams().Len() > 0 && len(fn.TypeArgs()) == 0 {
		x.unsupported("call of uninstantiated generic function %s", name)
	}
	x.eng.fnUsed.LoadOrStore(fn, struct{}{})
	x.depth++
	x.cstack = append(x.cstack, fn)
	if x.depth > 400 {
		x.end(endBudget, "call depth > 400 in %s", name)
	}
	fr := &frame{x: x, caller: caller, fn: fn, depth: x.depth}
	fr.env = make(map[ssa.Value]Value, 16)
	fr.block = fn.Blocks[0]
	fr.locals = make([]Value, len(fn.Locals))
	for i, l := range fn.Locals {
		fr.locals[i] = zero(deref(l.Type()))
		fr.env[l] = &fr.locals[i]
		if x.spec != nil {
			x.spec.noteFresh(&fr.locals[i]) // callee locals created inside a speculation (merge.go)
		}
	}
	for i, p := range fn.Params {
		fr.env[p] = args[i]
	}
	for i, fv := range fn.FreeVars {
		fr.env[fv] = env[i]
	}
	for fr.block != nil {
		x.runFrame(fr)
	}
	x.depth--
	x.cstack = x.cstack[:len(x.cstack)-1]
	return fr.result
}

func (x *Exec) runFrame(fr *frame) {
	defer func() {
		if fr.block == nil {
			return // normal return
		}
		r := recover()
		tp, ok := r.(targetPanic)
		if !ok {
			// pathEnd, specAbort, engine error: not visible to the target program
			switch r.(type) {
			case pathEnd, specAbort, engineErr:
				panic(r)
			}
			panic(engineErr{r, string(debug.Stack()), fr.fn.String()})
		}
		fr.panicking = true
		fr.panicVal = tp
		x.depth = fr.depth
		x.cstack = x.cstack[:fr.depth]
		fr.runDefers() // re-panics unless recovered
		x.depth = fr.depth
		x.cstack = x.cstack[:fr.depth]
		fr.block = fr.fn.Recover
		if fr.block == nil {
			// recovered, no named results: return zero values
			fr.result = zero(fr.fn.Signature.Results())
			if fr.fn.Signature.Results().Len() == 0 {
				fr.result = nil
			}
		}
	}()
	for {
		nonPhis := x.executePhis(fr)
		for _, instr := range nonPhis {
			if x.visitInstr(fr, instr) == kReturn {
				return
			}
		}
	}
}

func (x *Exec) executePhis(fr *frame) []ssa.Instruction {
	firstNonPhi := -1
	for i, instr := range fr.block.Instrs {
		if _, ok := instr.(*ssa.Phi); !ok {
			firstNonPhi = i
			break
		}
	}
	nonPhis := fr.block.Instrs[firstNonPhi:]
	if fr.skipPhis {
		fr.skipPhis = false
		return nonPhis
	}
	if firstNonPhi > 0 {
		phis := fr.block.Instrs[:firstNonPhi]
		predIndex := -1
		for i, p := range fr.block.Preds {
			if p == fr.prevBlock {
				predIndex = i
				break
			}
		}
		fr.phitemps = fr.phitemps[:0]
		for _, phi := range phis {
			fr.phitemps = append(fr.phitemps, fr.get(phi.(*ssa.Phi).Edges[predIndex]))
		}
		for i, phi := range phis {
			fr.env[phi.(*ssa.Phi)] = fr.phitemps[i]
		}
	}
	return nonPhis
}

func (x *Exec) doRecover(caller *frame) Value {
	if caller != nil && !caller.panicking && caller.caller != nil && caller.caller.panicking {
		caller.caller.panicking = false
		p := caller.caller.panicVal
		caller.caller.panicVal = targetPanic{}
		return p.v
	}
	return Iface{}
}

// ---- memory -----------------------------------------------------------------------------------

// SymPtr is the address of slice/array element base[idx] with a symbolic in-range index.
type SymPtr struct {
	base []Value
	idx  *Term // width 64
	et   types.Type
	path []int // field path inside the (struct) element; et is the type of the addressed field
}

// cell returns the address of the addressed field of element i.
func (a *SymPtr) cell(i int) *Value {
	p := &a.base[i]
	for _, f := range a.path {
		p = &(*p).(Struct)[f]
	}
	return p
}

// load returns a copy of the value stored at addr.
func (x *Exec) load(t types.Type, addr Value) Value {
	switch a := addr.(type) {
	case *Value:
		if a == nil {
			x.tpanic("invalid memory address or nil pointer dereference")
		}
		if x.watch != nil && x.watch[a] {
			x.watchHit(a, "read")
		}
		return copyVal(*a)
	case *SymPtr:
		if len(a.path) == 0 {
			return x.selectElem(a.base, a.idx, a.et)
		}
		cells := make([]Value, len(a.base))
		for i := range cells {
			cells[i] = *a.cell(i)
		}
		return x.selectElem(cells, a.idx, a.et)
	}
	panic(fmt.Sprintf("load: bad address %T", addr))
}

// selectElem builds ite(idx==0, base[0], ite(idx==1, ...)) for scalar element types.
func (x *Exec) selectElem(base []Value, idx *Term, et types.Type) Value {
	w, _, isInt := intInfo(et)
	if !isInt && !isBoolT(et) {
		if k, ok := x.selectByClass(base, idx); ok {
			return copyVal(base[k])
		}
		k := x.concretize(idx, "index of non-scalar element")
		return copyVal(base[k])
	}
	if isBoolT(et) {
		w = 0
	}
	n := len(base)
	res := x.toTerm(base[n-1], w)
	for i := n - 2; i >= 0; i-- {
		res = x.st.Ite(x.st.Eq(idx, x.st.Const(idx.w, uint64(i))), x.toTerm(base[i], w), res)
	}
	return fromTerm(res)
}

// write is the single point through which memory cells are modified (undo log for speculation).
func (x *Exec) write(addr *Value, v Value, t types.Type) {
	if x.watch != nil && x.watch[addr] {
		x.watchHit(addr, "write")
	}
	if x.spec != nil {
		x.spec.log = append(x.spec.log, undoRec{addr, *addr, t})
	}
	*addr = v
}

// storeAt stores v (of type t) at addr, recursing through aggregates.
func (x *Exec) storeAt(t types.Type, addr Value, v Value) {
	switch a := addr.(type) {
	case *Value:
		if a == nil {
			x.tpanic("invalid memory address or nil pointer dereference (store)")
		}
		x.store(t, a, v)
	case *SymPtr:
		w, _, isInt := intInfo(a.et)
		if !isInt && !isBoolT(a.et) {
			k := x.concretize(a.idx, "store index of non-scalar element")
			x.store(t, a.cell(int(k)), v)
			return
		}
		if isBoolT(a.et) {
			w = 0
		}
		nv := x.toTerm(v, w)
		for i := range a.base {
			c := x.st.Eq(a.idx, x.st.Const(a.idx.w, uint64(i)))
			cell := a.cell(i)
			x.write(cell, fromTerm(x.st.Ite(c, nv, x.toTerm(*cell, w))), a.et)
		}
	default:
		panic(fmt.Sprintf("store: bad address %T", addr))
	}
}

func (x *Exec) store(t types.Type, addr *Value, v Value) {
	switch tt := t.Underlying().(type) {
	case *types.Struct:
		lhs := (*addr).(Struct)
		rhs := v.(Struct)
		for i := range lhs {
			x.store(tt.Field(i).Type(), &lhs[i], rhs[i])
		}
	case *types.Array:
		lhs := (*addr).(Array)
		rhs := v.(Array)
		et := tt.Elem()
		switch et.Underlying().(type) {
		case *types.Struct, *types.Array:
			for i := range lhs {
				x.store(et, &lhs[i], rhs[i])
			}
		default:
			if x.spec == nil {
				copy(lhs, rhs)
			} else {
				for i := range lhs {
					x.write(&lhs[i], rhs[i], et)
				}
			}
		}
	default:
		x.write(addr, v, t)
	}
}

// ---- indexing -----------------------------------------------------------------------------------

const iteIndexLimit = 300

// boundsCheck decides idx < n (unsigned) for a possibly symbolic idx; panics (target) otherwise.
func (x *Exec) inBounds(idx Value, n int, what string) {
	switch i := idx.(type) {
	case uint64:
		if i >= uint64(n) {
			x.tpanic(fmt.Sprintf("index out of range [%d] with length %d (%s)", int64(i), n, what))
		}
	case *Term:
		if termUB(i) < uint64(n) {
			return // structurally in range (masked / reduced index): no decision
		}
		ok := x.st.Cmp(OpUlt, i, x.st.Const(i.w, uint64(n)))
		// ask for the out-of-range case first: the common "always in range" outcome then costs one query
		if x.branch(x.st.Not(ok)) {
			x.tpanic(fmt.Sprintf("index out of range [symbolic] with length %d (%s)", n, what))
		}
	default:
		panic(fmt.Sprintf("index is %T", idx))
	}
}

// widen index values of narrower integer types to 64 bits.
func (x *Exec) idx64(v Value, t types.Type) Value {
	w, signed, ok := intInfo(t)
	if !ok {
		panic("index of non-integer type " + t.String())
	}
	switch v := v.(type) {
	case uint64:
		if signed {
			return uint64(sext64(v, w))
		}
		return v
	case *Term:
		return fromTerm(x.st.Resize(v, 64, signed))
	}
	panic("idx64")
}

func (x *Exec) indexAddr(fr *frame, instr *ssa.IndexAddr, xv, idx Value) Value {
	idx = x.idx64(idx, instr.Index.Type())
	var base []Value
	var et types.Type
	switch v := xv.(type) {
	case []Value:
		base = v
		et = instr.X.Type().Underlying().(*types.Slice).Elem()
	case *Value:
		if v == nil {
			x.tpanic("nil pointer dereference (index of nil array pointer)")
		}
		base = (*v).(Array)
		et = deref(instr.X.Type()).Underlying().(*types.Array).Elem()
	default:
		panic(fmt.Sprintf("indexAddr: unexpected %T", xv))
	}
	x.inBounds(idx, len(base), fr.where(instr))
	switch i := idx.(type) {
	case uint64:
		return &base[i]
	case *Term:
		if len(base) <= iteIndexLimit {
			_, _, isInt := intInfo(et)
			if isInt || isBoolT(et) {
				return &SymPtr{base: base, idx: i, et: et}
			}
			if _, isStruct := et.Underlying().(*types.Struct); isStruct {
				// element address only used through FieldAddr / whole-element load (which concretises)
				return &SymPtr{base: base, idx: i, et: et}
			}
		}
		if len(base) > iteIndexLimit && onlyLoaded(instr) {
			return x.sparseAddr(base, i, et)
		}
		k := x.concretize(i, "index at "+fr.where(instr))
		return &base[k]
	}
	panic("unreachable")
}

// onlyLoaded reports whether the address computed by instr is used for loads only.
func onlyLoaded(instr *ssa.IndexAddr) bool {
	refs := instr.Referrers()
	if refs == nil {
		return false
	}
	for _, r := range *refs {
		u, ok := r.(*ssa.UnOp)
		if !ok || u.Op != token.MUL {
			if _, dbg := r.(*ssa.DebugRef); dbg {
				continue
			}
			return false
		}
	}
	return true
}

// sparseAddr resolves a read-only element address of a large array under a symbolic index:
// the populated (non-zero) cells are the alternatives, all other cells are one class (their
// content is the zero value, so which of them is read does not matter).
func (x *Exec) sparseAddr(base []Value, idx *Term, et types.Type) Value {
	var keys []int
	for k := range base {
		if !isZeroCell(base[k]) {
			keys = append(keys, k)
			if len(keys) > 256 {
				return &base[x.concretize(idx, "index of densely populated large array")]
			}
		}
	}
	_, _, isInt := intInfo(et)
	if isInt || isBoolT(et) {
		// scalar cells: ite over the populated cells, default zero
		sub := make([]Value, len(keys)+1)
		var sel *Term = x.st.Const(idx.w, uint64(len(keys)))
		for j := len(keys) - 1; j >= 0; j-- {
			sub[j] = base[keys[j]]
			sel = x.st.Ite(x.st.Eq(idx, x.st.Const(idx.w, uint64(keys[j]))), x.st.Const(idx.w, uint64(j)), sel)
		}
		sub[len(keys)] = zero(et)
		return &SymPtr{base: sub, idx: sel, et: et}
	}
	for _, k := range keys {
		if x.branch(x.st.Eq(idx, x.st.Const(idx.w, uint64(k)))) {
			return &base[k]
		}
	}
	cell := zero(et)
	return &cell
}

func isZeroCell(v Value) bool {
	switch c := v.(type) {
	case uint64:
		return c == 0
	case bool:
		return !c
	case Iface:
		return c.t == nil
	case *Value:
		return c == nil
	case string:
		return c == ""
	case nil:
		return true
	}
	return false
}

func (x *Exec) index(fr *frame, instr *ssa.Index, xv, idx Value) Value {
	idx = x.idx64(idx, instr.Index.Type())
	switch v := xv.(type) {
	case Array:
		x.inBounds(idx, len(v), fr.where(instr))
		if i, ok := idx.(uint64); ok {
			return copyVal(v[i])
		}
		et := instr.X.Type().Underlying().(*types.Array).Elem()
		if len(v) <= iteIndexLimit {
			return x.selectElem(v, idx.(*Term), et)
		}
		return copyVal(v[x.concretize(idx.(*Term), "array index")])
	case string:
		x.inBounds(idx, len(v), fr.where(instr))
		if i, ok := idx.(uint64); ok {
			return uint64(v[i])
		}
		if len(v) <= iteIndexLimit {
			base := make([]Value, len(v))
			for k := range base {
				base[k] = uint64(v[k])
			}
			return x.selectElem(base, idx.(*Term), types.Typ[types.Uint8])
		}
		return uint64(v[x.concretize(idx.(*Term), "string index")])
	case *SymStr:
		x.inBounds(idx, len(v.b), fr.where(instr))
		if i, ok := idx.(uint64); ok {
			return v.b[i]
		}
		if len(v.b) <= iteIndexLimit {
			return x.selectElem(v.b, idx.(*Term), types.Typ[types.Uint8])
		}
		return v.b[x.concretize(idx.(*Term), "string index")]
	}
	panic(fmt.Sprintf("index: unexpected %T", xv))
}

// slice implements x[lo:hi:max].
func (x *Exec) slice(instr *ssa.Slice, xv, lo, hi, max Value) Value {
	var ln, cp int
	switch v := xv.(type) {
	case []Value:
		ln, cp = len(v), cap(v)
	case string:
		ln, cp = len(v), len(v)
	case *SymStr:
		ln, cp = len(v.b), len(v.b)
	case *Value:
		if v == nil {
			x.tpanic("slice of nil array pointer")
		}
		a := (*v).(Array)
		ln, cp = len(a), len(a)
	default:
		panic(fmt.Sprintf("slice: unexpected %T", xv))
	}
	var l, h, m Value = uint64(0), uint64(ln), uint64(cp)
	if lo != nil {
		l = x.idx64(lo, instr.Low.Type())
	}
	if hi != nil {
		h = x.idx64(hi, instr.High.Type())
	}
	if max != nil {
		m = x.idx64(max, instr.Max.Type())
	}
	_, symL := l.(*Term)
	_, symH := h.(*Term)
	_, symM := m.(*Term)
	if symL || symH || symM {
		// decide in-bounds vs. panic first, then enumerate the (bounded) feasible values
		tl, th, tm := x.toTerm(l, 64), x.toTerm(h, 64), x.toTerm(m, 64)
		ok := x.st.And(x.st.Cmp(OpUle, tl, th), x.st.And(x.st.Cmp(OpUle, th, tm), x.st.Cmp(OpUle, tm, x.st.Const(64, uint64(cp)))))
		if !x.branch(ok) {
			x.tpanic("slice bounds out of range [symbolic]")
		}
		l = x.concreteInt(l, "slice low")
		h = x.concreteInt(h, "slice high")
		m = x.concreteInt(m, "slice max")
	}
	li, hi2, mi := l.(uint64), h.(uint64), m.(uint64)
	if !(li <= hi2 && hi2 <= mi && mi <= uint64(cp)) {
		x.tpanic(fmt.Sprintf("slice bounds out of range [%d:%d:%d] with capacity %d", int64(li), int64(hi2), int64(mi), cp))
	}
	switch v := xv.(type) {
	case []Value:
		if v == nil {
			return []Value(nil)
		}
		return v[li:hi2:mi]
	case string:
		return v[li:hi2]
	case *SymStr:
		return mkStr(v.b[li:hi2])
	case *Value:
		a := (*v).(Array)
		return []Value(a)[li:hi2:mi]
	}
	panic("unreachable")
}

// mkStr builds a string value from byte values (concrete string if all bytes are concrete).
func mkStr(b []Value) Value {
	conc := true
	for _, v := range b {
		if _, ok := v.(uint64); !ok {
			conc = false
			break
		}
	}
	if conc {
		bs := make([]byte, len(b))
		for i, v := range b {
			bs[i] = byte(v.(uint64))
		}
		return string(bs)
	}
	c := make([]Value, len(b))
	copy(c, b)
	return &SymStr{b: c}
}

func strBytes(v Value) []Value {
	switch s := v.(type) {
	case string:
		out := make([]Value, len(s))
		for i := 0; i < len(s); i++ {
			out[i] = uint64(s[i])
		}
		return out
	case *SymStr:
		return s.b
	}
	panic(fmt.Sprintf("strBytes: %T", v))
}

func strLen(v Value) int {
	switch s := v.(type) {
	case string:
		return len(s)
	case *SymStr:
		return len(s.b)
	}
	panic(fmt.Sprintf("strLen: %T", v))
}

// ---- maps ---------------------------------------------------------------------------------------

// findEntry locates key in m, forking on symbolic key equalities.
func (x *Exec) findEntry(m *Map, key Value) *mapEntry {
	if m == nil {
		return nil
	}
	hk, conc := hashKey(key)
	if conc && !m.hasSymKeys() {
		return m.getConcrete(hk)
	}
	x.noSpec("symbolic map key")
	for _, e := range m.live() {
		eq := x.equals(m.kt, key, e.key)
		if x.truth(eq) {
			return e
		}
	}
	return nil
}

func (x *Exec) lookup(instr *ssa.Lookup, xv, key Value) Value {
	switch m := xv.(type) {
	case *Map:
		e := x.findEntry(m, key)
		var v Value
		ok := e != nil
		if ok {
			v = copyVal(e.val)
		} else {
			v = zero(instr.X.Type().Underlying().(*types.Map).Elem())
		}
		if instr.CommaOk {
			return Tuple{v, ok}
		}
		return v
	case string, *SymStr:
		// string index as Lookup (x[i] on string)
		idx := x.idx64(key, instr.Index.Type())
		b := strBytes(xv)
		x.inBounds(idx, len(b), "string index")
		if i, ok := idx.(uint64); ok {
			return b[i]
		}
		if len(b) <= iteIndexLimit {
			return x.selectElem(b, idx.(*Term), types.Typ[types.Uint8])
		}
		return b[x.concretize(idx.(*Term), "string index")]
	}
	panic(fmt.Sprintf("lookup: unexpected %T", xv))
}

func (x *Exec) mapUpdate(m *Map, key, val Value) {
	if e := x.findEntry(m, key); e != nil {
		e.val = val
		return
	}
	if hk, ok := hashKey(key); ok {
		m.putConcrete(hk, key, val)
	} else {
		m.putSymbolic(key, val)
	}
}

func (x *Exec) rangeIter(v Value) *rangeIter {
	switch v := v.(type) {
	case *Map:
		it := &rangeIter{m: &Map{}}
		if v != nil {
			it.m = &Map{entries: v.live()}
		}
		return it
	case string, *SymStr:
		return &rangeIter{s: v}
	}
	panic(fmt.Sprintf("range over %T", v))
}

func (x *Exec) next(instr *ssa.Next, it *rangeIter) Value {
	if instr.IsString {
		b := strBytes(it.s)
		if it.pos >= len(b) {
			return Tuple{false, uint64(0), uint64(0)}
		}
		i := it.pos
		switch c := b[i].(type) {
		case uint64:
			if c < 0x80 {
				it.pos++
				return Tuple{true, uint64(i), c}
			}
			// decode concretely if the following bytes are concrete
			var tmp []byte
			for k := i; k < len(b) && k < i+4; k++ {
				cb, ok := b[k].(uint64)
				if !ok {
					x.unsupported("range over string with symbolic non-ASCII bytes")
				}
				tmp = append(tmp, byte(cb))
			}
			r, n := decodeRune(tmp)
			it.pos += n
			return Tuple{true, uint64(i), uint64(uint32(r))}
		case *Term:
			if !x.branch(x.st.Cmp(OpUlt, c, x.st.Const(8, 0x80))) {
				x.unsupported("range over string with symbolic non-ASCII bytes")
			}
			it.pos++
			return Tuple{true, uint64(i), fromTerm(x.st.ZExt(c, 24))}
		}
		panic("bad string byte")
	}
	for it.idx < len(it.m.entries) {
		e := it.m.entries[it.idx]
		it.idx++
		if e.deleted {
			continue
		}
		return Tuple{true, copyVal(e.key), copyVal(e.val)}
	}
	return Tuple{false, nil, nil}
}

func decodeRune(b []byte) (rune, int) {
	s := string(b)
	for _, r := range s {
		n := len(string(r))
		if r == 0xFFFD {
			n = 1
		}
		return r, n
	}
	return 0xFFFD, 1
}

// ---- type assertions --------------------------------------------------------------------------

func (x *Exec) typeAssert(instr *ssa.TypeAssert, itf Iface) Value {
	var v Value
	err := ""
	if itf.t == nil {
		err = fmt.Sprintf("interface conversion: interface is nil, not %s", instr.AssertedType)
	} else if idst, ok := instr.AssertedType.Underlying().(*types.Interface); ok {
		v = itf
		if meth, _ := types.MissingMethod(itf.t, idst, true); meth != nil {
			err = fmt.Sprintf("interface conversion: %v is not %v: missing method %s", itf.t, idst, meth.Name())
		}
	} else if types.Identical(itf.t, instr.AssertedType) {
		v = itf.v
	} else {
		err = fmt.Sprintf("interface conversion: interface is %s, not %s", itf.t, instr.AssertedType)
	}
	if err != "" {
		if !instr.CommaOk {
			x.tpanic(err)
		}
		return Tuple{zero(instr.AssertedType), false}
	}
	if instr.CommaOk {
		return Tuple{v, true}
	}
	return v
}
