package main

// Hash-consed SMT terms (QF_UFBV) with local simplification.

import (
	"fmt"
	"math/bits"
	"strings"
)

type Op uint8

const (
	OpConst Op = iota // BV const (w>0) or Bool const (w==0), value in c
	OpVar             // name
	// bool
	OpNot
	OpAnd
	OpOr
	OpBXor
	OpIte // args: cond, a, b (result sort = a's)
	OpEq  // bv = bv or bool = bool -> Bool
	OpUlt
	OpUle
	OpSlt
	OpSle
	// bv
	OpBvAdd
	OpBvSub
	OpBvMul
	OpBvUDiv
	OpBvURem
	OpBvSDiv
	OpBvSRem
	OpBvAnd
	OpBvOr
	OpBvXor
	OpBvShl
	OpBvLShr
	OpBvAShr
	OpBvNot
	OpBvNeg
	OpConcat  // args: hi, lo
	OpExtract // c = hi<<16|lo ; one arg
	OpSExt    // c = extra bits
	OpUF      // name, args (BV), result width w
)

var opNames = map[Op]string{
	OpNot: "not", OpAnd: "and", OpOr: "or", OpBXor: "xor", OpIte: "ite", OpEq: "=",
	OpUlt: "bvult", OpUle: "bvule", OpSlt: "bvslt", OpSle: "bvsle",
	OpBvAdd: "bvadd", OpBvSub: "bvsub", OpBvMul: "bvmul", OpBvUDiv: "bvudiv", OpBvURem: "bvurem",
	OpBvSDiv: "bvsdiv", OpBvSRem: "bvsrem", OpBvAnd: "bvand", OpBvOr: "bvor", OpBvXor: "bvxor",
	OpBvShl: "bvshl", OpBvLShr: "bvlshr", OpBvAShr: "bvashr", OpBvNot: "bvnot", OpBvNeg: "bvneg",
	OpConcat: "concat",
}

// Term is an immutable SMT term. w==0 means sort Bool, otherwise (_ BitVec w), w<=128 for
// UF results / concats; arithmetic is only done for w<=64.
type Term struct {
	op   Op
	w    uint16
	c    uint64
	name string
	args []*Term
	id   int
}

func (t *Term) IsConst() bool { return t.op == OpConst }
func (t *Term) IsBool() bool  { return t.w == 0 }

type termKey struct {
	op         Op
	w          uint16
	c          uint64
	name       string
	a0, a1, a2 int
	extra      string
}

// Store hash-conses terms for one path.
type Store struct {
	tab   map[termKey]*Term
	terms []*Term
	vars  []*Term
	ufs   map[string]*ufDecl
	// UF applications in creation order (for injectivity axioms and replay tables).
	ufApps map[string][]*Term
	tru    *Term
	fls    *Term
	ub     map[int]uint64 // memo of ubound (bounds.go)
}

type ufDecl struct {
	name string
	argw []uint16
	w    uint16
}

func NewStore() *Store {
	s := &Store{tab: map[termKey]*Term{}, ufs: map[string]*ufDecl{}, ufApps: map[string][]*Term{}}
	s.tru = s.mk(OpConst, 0, 1, "", nil)
	s.fls = s.mk(OpConst, 0, 0, "", nil)
	return s
}

func (s *Store) mk(op Op, w uint16, c uint64, name string, args []*Term) *Term {
	k := termKey{op: op, w: w, c: c, name: name, a0: -1, a1: -1, a2: -1}
	switch len(args) {
	case 0:
	case 1:
		k.a0 = args[0].id
	case 2:
		k.a0, k.a1 = args[0].id, args[1].id
	case 3:
		k.a0, k.a1, k.a2 = args[0].id, args[1].id, args[2].id
	default:
		var sb strings.Builder
		for _, a := range args {
			fmt.Fprintf(&sb, "%d,", a.id)
		}
		k.extra = sb.String()
	}
	if t, ok := s.tab[k]; ok {
		return t
	}
	t := &Term{op: op, w: w, c: c, name: name, args: args, id: len(s.terms)}
	s.terms = append(s.terms, t)
	s.tab[k] = t
	return t
}

func mask(w uint16) uint64 {
	if w >= 64 {
		return ^uint64(0)
	}
	return (uint64(1) << w) - 1
}

func (s *Store) Bool(b bool) *Term {
	if b {
		return s.tru
	}
	return s.fls
}

func (s *Store) Const(w uint16, v uint64) *Term {
	if w == 0 {
		return s.Bool(v != 0)
	}
	if w > 64 {
		panic("Const: width > 64; use ConstWide")
	}
	return s.mk(OpConst, w, v&mask(w), "", nil)
}

// ConstBytes builds a constant of 8*len(b) bits (big-endian), possibly > 64 bits (as concat).
func (s *Store) ConstBytes(b []byte) *Term {
	var t *Term
	for i := 0; i < len(b); {
		n := len(b) - i
		if n > 8 {
			n = 8
		}
		var v uint64
		for j := 0; j < n; j++ {
			v = v<<8 | uint64(b[i+j])
		}
		c := s.Const(uint16(8*n), v)
		if t == nil {
			t = c
		} else {
			t = s.Concat(t, c)
		}
		i += n
	}
	return t
}

func (s *Store) Var(name string, w uint16) *Term {
	k := termKey{op: OpVar, w: w, name: name, a0: -1, a1: -1, a2: -1}
	if t, ok := s.tab[k]; ok {
		return t
	}
	t := s.mk(OpVar, w, 0, name, nil)
	s.vars = append(s.vars, t)
	return t
}

func (s *Store) UF(name string, w uint16, args ...*Term) *Term {
	d := s.ufs[name]
	if d == nil {
		d = &ufDecl{name: name, w: w}
		for _, a := range args {
			d.argw = append(d.argw, a.w)
		}
		s.ufs[name] = d
	} else {
		if d.w != w || len(d.argw) != len(args) {
			panic("UF " + name + ": inconsistent signature")
		}
		for i, a := range args {
			if d.argw[i] != a.w {
				panic("UF " + name + ": inconsistent argument width")
			}
		}
	}
	n := len(s.terms)
	t := s.mk(OpUF, w, 0, name, args)
	if t.id == n {
		s.ufApps[name] = append(s.ufApps[name], t)
	}
	return t
}

// ---- bool ----

func (s *Store) Not(a *Term) *Term {
	if a.op == OpConst {
		return s.Bool(a.c == 0)
	}
	if a.op == OpNot {
		return a.args[0]
	}
	return s.mk(OpNot, 0, 0, "", []*Term{a})
}

func (s *Store) And(a, b *Term) *Term {
	if a.op == OpConst {
		if a.c == 0 {
			return s.fls
		}
		return b
	}
	if b.op == OpConst {
		if b.c == 0 {
			return s.fls
		}
		return a
	}
	if a == b {
		return a
	}
	if a.id > b.id {
		a, b = b, a
	}
	return s.mk(OpAnd, 0, 0, "", []*Term{a, b})
}

func (s *Store) Or(a, b *Term) *Term {
	if a.op == OpConst {
		if a.c != 0 {
			return s.tru
		}
		return b
	}
	if b.op == OpConst {
		if b.c != 0 {
			return s.tru
		}
		return a
	}
	if a == b {
		return a
	}
	if a.id > b.id {
		a, b = b, a
	}
	return s.mk(OpOr, 0, 0, "", []*Term{a, b})
}

func (s *Store) BXor(a, b *Term) *Term { return s.Not(s.Eq(a, b)) }

func (s *Store) Implies(a, b *Term) *Term { return s.Or(s.Not(a), b) }

func (s *Store) Ite(c, a, b *Term) *Term {
	if c.op == OpConst {
		if c.c != 0 {
			return a
		}
		return b
	}
	if a == b {
		return a
	}
	if a.w != b.w {
		panic(fmt.Sprintf("Ite: width mismatch %d %d", a.w, b.w))
	}
	if a.w == 0 {
		if a.op == OpConst && b.op == OpConst {
			if a.c != 0 {
				return c
			}
			return s.Not(c)
		}
		if a.op == OpConst {
			if a.c != 0 {
				return s.Or(c, b)
			}
			return s.And(s.Not(c), b)
		}
		if b.op == OpConst {
			if b.c != 0 {
				return s.Or(s.Not(c), a)
			}
			return s.And(c, a)
		}
	}
	if c.op == OpNot {
		return s.Ite(c.args[0], b, a)
	}
	return s.mk(OpIte, a.w, 0, "", []*Term{c, a, b})
}

func (s *Store) Eq(a, b *Term) *Term {
	if a == b {
		return s.tru
	}
	if a.w != b.w {
		panic(fmt.Sprintf("Eq: width mismatch %d %d", a.w, b.w))
	}
	if a.op == OpConst && b.op == OpConst {
		return s.Bool(a.c == b.c)
	}
	if a.w == 0 {
		if a.op == OpConst {
			if a.c != 0 {
				return b
			}
			return s.Not(b)
		}
		if b.op == OpConst {
			if b.c != 0 {
				return a
			}
			return s.Not(a)
		}
	}
	// ite(c, k1, k2) == k  with constants
	if b.op == OpConst && a.op == OpIte && a.args[1].op == OpConst && a.args[2].op == OpConst {
		e1 := a.args[1].c == b.c
		e2 := a.args[2].c == b.c
		switch {
		case e1 && e2:
			return s.tru
		case e1:
			return a.args[0]
		case e2:
			return s.Not(a.args[0])
		default:
			return s.fls
		}
	}
	if a.op == OpConst && b.op == OpIte {
		return s.Eq(b, a)
	}
	// concat(0.., x) == const  -> x == const' (when the high part of const is zero)
	if b.op == OpConst && a.op == OpConcat && a.args[0].op == OpConst && a.args[0].c == 0 && a.w <= 64 {
		lw := a.args[1].w
		if b.c>>lw != 0 {
			return s.fls
		}
		return s.Eq(a.args[1], s.Const(lw, b.c))
	}
	if a.op == OpConst && b.op == OpConcat {
		return s.Eq(b, a)
	}
	if a.id > b.id {
		a, b = b, a
	}
	return s.mk(OpEq, 0, 0, "", []*Term{a, b})
}

func sext64(v uint64, w uint16) int64 {
	if w >= 64 {
		return int64(v)
	}
	sh := 64 - w
	return int64(v<<sh) >> sh
}

func (s *Store) Cmp(op Op, a, b *Term) *Term {
	if a.w != b.w {
		panic("Cmp: width mismatch")
	}
	if a.op == OpConst && b.op == OpConst {
		switch op {
		case OpUlt:
			return s.Bool(a.c < b.c)
		case OpUle:
			return s.Bool(a.c <= b.c)
		case OpSlt:
			return s.Bool(sext64(a.c, a.w) < sext64(b.c, a.w))
		case OpSle:
			return s.Bool(sext64(a.c, a.w) <= sext64(b.c, a.w))
		}
	}
	if a == b {
		return s.Bool(op == OpUle || op == OpSle)
	}
	switch op {
	case OpUlt:
		if b.op == OpConst && b.c == 0 {
			return s.fls
		}
		if a.op == OpConst && a.c == mask(a.w) {
			return s.fls
		}
	case OpUle:
		if a.op == OpConst && a.c == 0 {
			return s.tru
		}
		if b.op == OpConst && b.c == mask(a.w) {
			return s.tru
		}
	}
	// zero-extended small value compared with a constant that exceeds its range
	if op == OpUlt || op == OpUle {
		if hi, ok := s.maxU(a); ok && b.op == OpConst {
			if op == OpUlt && hi < b.c {
				return s.tru
			}
			if op == OpUle && hi <= b.c {
				return s.tru
			}
		}
		if hi, ok := s.maxU(b); ok && a.op == OpConst {
			if op == OpUlt && a.c >= hi {
				return s.fls
			}
			if op == OpUle && a.c > hi {
				return s.fls
			}
		}
	}
	if op == OpUlt || op == OpUle {
		// comparisons of non-wrapping products with a constant factor (term_div.go)
		if optTermDiv {
			if t := s.cmpMulConst(op, a, b); t != nil {
				return t
			}
		}
	}
	if op == OpSlt || op == OpSle {
		// both known non-negative -> unsigned compare
		ha, oka := s.maxU(a)
		hb, okb := s.maxU(b)
		if oka && okb && ha>>(a.w-1) == 0 && hb>>(a.w-1) == 0 {
			if op == OpSlt {
				return s.Cmp(OpUlt, a, b)
			}
			return s.Cmp(OpUle, a, b)
		}
	}
	return s.mk(op, 0, 0, "", []*Term{a, b})
}

// maxU returns a cheap upper bound for the unsigned value of t (w<=64).
func (s *Store) maxU(t *Term) (uint64, bool) {
	if t.w > 64 || t.w == 0 {
		return 0, false
	}
	if t.op != OpConst {
		return s.ubound(t), true // interval reasoning, bounds.go
	}
	switch t.op {
	case OpConst:
		return t.c, true
	case OpBvAdd, OpBvMul:
		return s.boundU(t, 0) // term_div.go: sum / product of the operand bounds when it cannot wrap
	case OpExtract:
		// low bits of a value that already fits
		if lo := uint16(t.c & 0xffff); lo == 0 && t.args[0].w <= 64 {
			if m, ok := s.maxU(t.args[0]); ok && m <= mask(t.w) {
				return m, true
			}
		}
	case OpConcat:
		if t.args[0].op == OpConst && t.args[0].c == 0 {
			if m, ok := s.maxU(t.args[1]); ok {
				return m, true
			}
			return mask(t.args[1].w), true
		}
	case OpBvAnd:
		if t.args[1].op == OpConst {
			return t.args[1].c, true
		}
		if t.args[0].op == OpConst {
			return t.args[0].c, true
		}
	case OpIte:
		a, oka := s.maxU(t.args[1])
		b, okb := s.maxU(t.args[2])
		if oka && okb {
			if a > b {
				return a, true
			}
			return b, true
		}
	}
	return mask(t.w), true
}

// ---- bit-vector ----

func (s *Store) binConst(op Op, w uint16, x, y uint64) (uint64, bool) {
	m := mask(w)
	switch op {
	case OpBvAdd:
		return (x + y) & m, true
	case OpBvSub:
		return (x - y) & m, true
	case OpBvMul:
		return (x * y) & m, true
	case OpBvAnd:
		return x & y, true
	case OpBvOr:
		return x | y, true
	case OpBvXor:
		return x ^ y, true
	case OpBvShl:
		if y >= uint64(w) {
			return 0, true
		}
		return (x << y) & m, true
	case OpBvLShr:
		if y >= uint64(w) {
			return 0, true
		}
		return x >> y, true
	case OpBvAShr:
		sx := sext64(x, w)
		if y >= uint64(w) {
			y = uint64(w) - 1
		}
		return uint64(sx>>y) & m, true
	case OpBvUDiv:
		if y == 0 {
			return m, true
		}
		return x / y, true
	case OpBvURem:
		if y == 0 {
			return x, true
		}
		return x % y, true
	case OpBvSDiv:
		if y == 0 {
			return 0, false
		}
		sx, sy := sext64(x, w), sext64(y, w)
		if sy == -1 {
			return uint64(-sx) & m, true
		}
		return uint64(sx/sy) & m, true
	case OpBvSRem:
		if y == 0 {
			return 0, false
		}
		sx, sy := sext64(x, w), sext64(y, w)
		if sy == -1 {
			return 0, true
		}
		return uint64(sx%sy) & m, true
	}
	return 0, false
}

func (s *Store) Bin(op Op, a, b *Term) *Term {
	if a.w != b.w || a.w == 0 {
		panic(fmt.Sprintf("Bin %s: width mismatch %d %d", opNames[op], a.w, b.w))
	}
	w := a.w
	if w > 64 {
		// only bitwise ops on wide vectors
		switch op {
		case OpBvAnd, OpBvOr, OpBvXor:
			return s.mk(op, w, 0, "", []*Term{a, b})
		}
		panic("Bin: wide arithmetic unsupported")
	}
	if a.op == OpConst && b.op == OpConst {
		if v, ok := s.binConst(op, w, a.c, b.c); ok {
			return s.Const(w, v)
		}
	}
	switch op {
	case OpBvAdd:
		if a.op == OpConst && a.c == 0 {
			return b
		}
		if b.op == OpConst && b.c == 0 {
			return a
		}
		if optLinSum {
			return s.linAdd(a, b) // sorted-chain normal form, linsum.go
		}
		// (x + c1) + c2
		if b.op == OpConst && a.op == OpBvAdd && a.args[1].op == OpConst {
			return s.Bin(OpBvAdd, a.args[0], s.Const(w, a.args[1].c+b.c))
		}
		if a.op == OpConst {
			a, b = b, a
		}
	case OpBvSub:
		if b.op == OpConst {
			if b.c == 0 {
				return a
			}
			return s.Bin(OpBvAdd, a, s.Const(w, -b.c))
		}
		if a == b {
			return s.Const(w, 0)
		}
		// (x + c1) - (y + c2)  ->  (x - y) + (c1 - c2)   (time.Time.Sub: both operands carry unixToInternal)
		if a.op == OpBvAdd && a.args[1].op == OpConst && b.op == OpBvAdd && b.args[1].op == OpConst {
			return s.Bin(OpBvAdd, s.Bin(OpBvSub, a.args[0], b.args[0]), s.Const(w, a.args[1].c-b.args[1].c))
		}
	case OpBvMul:
		if a.op == OpConst {
			a, b = b, a
		}
		if b.op == OpConst {
			if b.c == 0 {
				return b
			}
			if b.c == 1 {
				return a
			}
			if bits.OnesCount64(b.c) == 1 {
				return s.Bin(OpBvShl, a, s.Const(w, uint64(bits.TrailingZeros64(b.c))))
			}
		}
	case OpBvUDiv:
		if b.op == OpConst && b.c != 0 && bits.OnesCount64(b.c) == 1 {
			return s.Bin(OpBvLShr, a, s.Const(w, uint64(bits.TrailingZeros64(b.c))))
		}
	case OpBvURem:
		if b.op == OpConst && b.c != 0 && bits.OnesCount64(b.c) == 1 {
			return s.Bin(OpBvAnd, a, s.Const(w, b.c-1))
		}
	}
	switch op {
	case OpBvUDiv, OpBvURem, OpBvSDiv, OpBvSRem:
		// (x*A) div/rem B for constants A, B with B/gcd(A,B) a power of two (term_div.go)
		if optTermDiv && b.op == OpConst && w == 64 {
			if t := s.divRemConst(op, a, b.c, 0); t != nil {
				return t
			}
		}
	}
	switch op {
	case OpBvAnd:
		if a.op == OpConst {
			a, b = b, a
		}
		if b.op == OpConst {
			if b.c == 0 {
				return b
			}
			if b.c == mask(w) {
				return a
			}
			// contiguous mask -> extract + pad
			if t := s.andMask(a, b.c); t != nil {
				return t
			}
		}
		if a == b {
			return a
		}
	case OpBvOr:
		if a.op == OpConst {
			a, b = b, a
		}
		if b.op == OpConst {
			if b.c == 0 {
				return a
			}
			if b.c == mask(w) {
				return b
			}
		}
		if a == b {
			return a
		}
		if t := s.orDisjoint(a, b); t != nil {
			return t
		}
	case OpBvXor:
		if a.op == OpConst {
			a, b = b, a
		}
		if b.op == OpConst && b.c == 0 {
			return a
		}
		if a == b {
			return s.Const(w, 0)
		}
		// x ^ y ^ y
		if a.op == OpBvXor {
			if a.args[0] == b {
				return a.args[1]
			}
			if a.args[1] == b {
				return a.args[0]
			}
		}
		if b.op == OpBvXor {
			if b.args[0] == a {
				return b.args[1]
			}
			if b.args[1] == a {
				return b.args[0]
			}
		}
	case OpBvShl:
		if b.op == OpConst {
			k := b.c
			if k == 0 {
				return a
			}
			if k >= uint64(w) {
				return s.Const(w, 0)
			}
			return s.Concat(s.Extract(a, w-uint16(k)-1, 0), s.Const(uint16(k), 0))
		}
	case OpBvLShr:
		if b.op == OpConst {
			k := b.c
			if k == 0 {
				return a
			}
			if k >= uint64(w) {
				return s.Const(w, 0)
			}
			return s.Concat(s.Const(uint16(k), 0), s.Extract(a, w-1, uint16(k)))
		}
	case OpBvAShr:
		if b.op == OpConst {
			k := b.c
			if k == 0 {
				return a
			}
			if k >= uint64(w) {
				k = uint64(w) - 1
			}
			return s.SExt(s.Extract(a, w-1, uint16(k)), uint16(k))
		}
	}
	// hard arithmetic over a tiny support becomes an exact lookup table (eval.go)
	switch op {
	case OpBvUDiv, OpBvURem, OpBvSDiv, OpBvSRem:
		if t := s.tabulate(op, a, b); t != nil {
			return t
		}
	case OpBvMul:
		if a.op != OpConst && b.op != OpConst {
			if t := s.tabulate(op, a, b); t != nil {
				return t
			}
		}
	}
	// canonical order for commutative ops
	switch op {
	case OpBvAdd, OpBvMul, OpBvAnd, OpBvOr, OpBvXor:
		if b.op != OpConst && a.id > b.id {
			a, b = b, a
		}
	}
	return s.mk(op, w, 0, "", []*Term{a, b})
}

// andMask rewrites x & m for a contiguous mask m into concat(0, extract, 0).
func (s *Store) andMask(a *Term, m uint64) *Term {
	lo := uint16(bits.TrailingZeros64(m))
	sh := m >> lo
	if sh&(sh+1) != 0 {
		return nil
	}
	n := uint16(bits.Len64(sh))
	hi := lo + n - 1
	t := s.Extract(a, hi, lo)
	if lo > 0 {
		t = s.Concat(t, s.Const(lo, 0))
	}
	if hi+1 < a.w {
		t = s.Concat(s.Const(a.w-hi-1, 0), t)
	}
	return t
}

type seg struct {
	t *Term // nil => zero
	w uint16
}

func (s *Store) segments(t *Term, out []seg) []seg {
	if t.op == OpConcat {
		out = s.segments(t.args[0], out)
		return s.segments(t.args[1], out)
	}
	if t.op == OpConst && t.c == 0 {
		return append(out, seg{nil, t.w})
	}
	return append(out, seg{t, t.w})
}

// orDisjoint merges or(concat(..), concat(..)) when at every bit position at most one side is
// non-zero (after aligning segment boundaries).
func (s *Store) orDisjoint(a, b *Term) *Term {
	if a.op != OpConcat && b.op != OpConcat {
		return nil
	}
	sa := s.segments(a, nil)
	sb := s.segments(b, nil)
	hasZero := false
	for _, x := range sa {
		if x.t == nil {
			hasZero = true
		}
	}
	for _, x := range sb {
		if x.t == nil {
			hasZero = true
		}
	}
	if !hasZero {
		return nil
	}
	var res *Term
	i, j := 0, 0
	var ra, rb seg // remaining parts
	if len(sa) > 0 {
		ra = sa[0]
	}
	if len(sb) > 0 {
		rb = sb[0]
	}
	for i < len(sa) && j < len(sb) {
		n := ra.w
		if rb.w < n {
			n = rb.w
		}
		pa, pb := s.takeHigh(ra, n), s.takeHigh(rb, n)
		var piece *Term
		switch {
		case pa == nil && pb == nil:
			piece = s.Const(n, 0)
		case pa == nil:
			piece = pb
		case pb == nil:
			piece = pa
		default:
			return nil // overlapping non-zero bits: leave to the solver
		}
		if res == nil {
			res = piece
		} else {
			res = s.Concat(res, piece)
		}
		ra = s.dropHigh(ra, n)
		rb = s.dropHigh(rb, n)
		if ra.w == 0 {
			i++
			if i < len(sa) {
				ra = sa[i]
			}
		}
		if rb.w == 0 {
			j++
			if j < len(sb) {
				rb = sb[j]
			}
		}
	}
	return res
}

func (s *Store) takeHigh(x seg, n uint16) *Term {
	if x.t == nil {
		return nil
	}
	if n == x.w {
		return x.t
	}
	return s.Extract(x.t, x.w-1, x.w-n)
}

func (s *Store) dropHigh(x seg, n uint16) seg {
	if n == x.w {
		return seg{nil, 0}
	}
	if x.t == nil {
		return seg{nil, x.w - n}
	}
	return seg{s.Extract(x.t, x.w-n-1, 0), x.w - n}
}

func (s *Store) BvNot(a *Term) *Term {
	if a.op == OpConst {
		return s.Const(a.w, ^a.c)
	}
	if a.op == OpBvNot {
		return a.args[0]
	}
	return s.mk(OpBvNot, a.w, 0, "", []*Term{a})
}

func (s *Store) BvNeg(a *Term) *Term {
	if a.op == OpConst {
		return s.Const(a.w, -a.c)
	}
	return s.mk(OpBvNeg, a.w, 0, "", []*Term{a})
}

func (s *Store) Concat(hi, lo *Term) *Term {
	w := hi.w + lo.w
	if hi.op == OpConst && lo.op == OpConst && w <= 64 {
		return s.Const(w, hi.c<<lo.w|lo.c)
	}
	// adjacent extracts of the same term
	if hi.op == OpExtract && lo.op == OpExtract && hi.args[0] == lo.args[0] {
		hlo := exLo(hi)
		lhi := exHi(lo)
		if hlo == lhi+1 {
			return s.Extract(hi.args[0], exHi(hi), exLo(lo))
		}
	}
	// right-associate: concat(concat(a,b),c) -> concat(a, concat(b,c)) so equal byte strings are equal terms
	if hi.op == OpConcat {
		return s.Concat(hi.args[0], s.Concat(hi.args[1], lo))
	}
	// merge constants: concat(c1, concat(c2, x))
	if hi.op == OpConst && lo.op == OpConcat && lo.args[0].op == OpConst && hi.w+lo.args[0].w <= 64 {
		return s.Concat(s.Const(hi.w+lo.args[0].w, hi.c<<lo.args[0].w|lo.args[0].c), lo.args[1])
	}
	// merge adjacent extracts across right-assoc: concat(ext(x), concat(ext(x), y))
	if hi.op == OpExtract && lo.op == OpConcat && lo.args[0].op == OpExtract && hi.args[0] == lo.args[0].args[0] {
		hlo := exLo(hi)
		lhi := exHi(lo.args[0])
		if hlo == lhi+1 {
			return s.Concat(s.Extract(hi.args[0], exHi(hi), exLo(lo.args[0])), lo.args[1])
		}
	}
	return s.mk(OpConcat, w, 0, "", []*Term{hi, lo})
}

func (s *Store) Extract(a *Term, hi, lo uint16) *Term {
	if hi < lo || hi >= a.w {
		panic(fmt.Sprintf("Extract: bad range [%d:%d] of width %d", hi, lo, a.w))
	}
	if lo == 0 && hi == a.w-1 {
		return a
	}
	w := hi - lo + 1
	switch a.op {
	case OpConst:
		return s.Const(w, a.c>>lo)
	case OpExtract:
		base := exLo(a)
		return s.Extract(a.args[0], base+hi, base+lo)
	case OpConcat:
		lw := a.args[1].w
		if hi < lw {
			return s.Extract(a.args[1], hi, lo)
		}
		if lo >= lw {
			return s.Extract(a.args[0], hi-lw, lo-lw)
		}
		return s.Concat(s.Extract(a.args[0], hi-lw, 0), s.Extract(a.args[1], lw-1, lo))
	case OpSExt:
		iw := a.args[0].w
		if hi < iw {
			return s.Extract(a.args[0], hi, lo)
		}
	case OpBvAnd, OpBvOr, OpBvXor:
		return s.Bin(a.op, s.Extract(a.args[0], hi, lo), s.Extract(a.args[1], hi, lo))
	case OpBvNot:
		return s.BvNot(s.Extract(a.args[0], hi, lo))
	case OpIte:
		if a.args[1].op == OpConst || a.args[2].op == OpConst {
			return s.Ite(a.args[0], s.Extract(a.args[1], hi, lo), s.Extract(a.args[2], hi, lo))
		}
	case OpBvAdd, OpBvSub, OpBvMul:
		// low bits of modular arithmetic depend only on low bits of the operands
		if lo == 0 && !(optLinSum && a.op == OpBvAdd) { // linsum keeps one chain per sum
			return s.Bin(a.op, s.Extract(a.args[0], hi, 0), s.Extract(a.args[1], hi, 0))
		}
	}
	return s.mk(OpExtract, w, uint64(hi)<<16|uint64(lo), "", []*Term{a})
}

func (s *Store) ZExt(a *Term, extra uint16) *Term {
	if extra == 0 {
		return a
	}
	return s.Concat(s.Const(extra, 0), a)
}

func (s *Store) SExt(a *Term, extra uint16) *Term {
	if extra == 0 {
		return a
	}
	if a.op == OpConst {
		return s.Const(a.w+extra, uint64(sext64(a.c, a.w)))
	}
	// known non-negative
	if a.op == OpConcat && a.args[0].op == OpConst && a.args[0].c>>(a.args[0].w-1) == 0 {
		return s.ZExt(a, extra)
	}
	if hi, ok := s.maxU(a); ok && a.w <= 64 && hi>>(a.w-1) == 0 {
		return s.ZExt(a, extra)
	}
	return s.mk(OpSExt, a.w+extra, uint64(extra), "", []*Term{a})
}

// Resize converts a to width w, sign- or zero-extending / truncating.
func (s *Store) Resize(a *Term, w uint16, signed bool) *Term {
	switch {
	case a.w == w:
		return a
	case a.w > w:
		return s.Extract(a, w-1, 0)
	case signed:
		return s.SExt(a, w-a.w)
	default:
		return s.ZExt(a, w-a.w)
	}
}

func (s *Store) BoolToBV(b *Term, w uint16) *Term {
	return s.Ite(b, s.Const(w, 1), s.Const(w, 0))
}

// ---- printing ----

func sortStr(w uint16) string {
	if w == 0 {
		return "Bool"
	}
	return fmt.Sprintf("(_ BitVec %d)", w)
}

func constStr(w uint16, c uint64) string {
	if w == 0 {
		if c != 0 {
			return "true"
		}
		return "false"
	}
	if w%4 == 0 {
		return fmt.Sprintf("#x%0*x", int(w/4), c)
	}
	return fmt.Sprintf("#b%0*b", int(w), c)
}

func (t *Term) ref() string {
	switch t.op {
	case OpConst:
		return constStr(t.w, t.c)
	case OpVar:
		return "|v!" + t.name + "|"
	}
	return fmt.Sprintf("t%d", t.id)
}

func (t *Term) body() string {
	var sb strings.Builder
	switch t.op {
	case OpExtract:
		fmt.Fprintf(&sb, "((_ extract %d %d) %s)", exHi(t), exLo(t), t.args[0].ref())
	case OpSExt:
		fmt.Fprintf(&sb, "((_ sign_extend %d) %s)", t.c, t.args[0].ref())
	case OpUF:
		sb.WriteString("(|" + t.name + "|")
		for _, a := range t.args {
			sb.WriteString(" " + a.ref())
		}
		sb.WriteString(")")
	default:
		sb.WriteString("(" + opNames[t.op])
		for _, a := range t.args {
			sb.WriteString(" " + a.ref())
		}
		sb.WriteString(")")
	}
	return sb.String()
}

// String renders a term fully inlined (debugging / evidence samples); truncated.
func (t *Term) String() string {
	var sb strings.Builder
	t.write(&sb, 0)
	return sb.String()
}

func (t *Term) write(sb *strings.Builder, depth int) {
	if sb.Len() > 400 || depth > 12 {
		sb.WriteString("…")
		return
	}
	switch t.op {
	case OpConst, OpVar:
		sb.WriteString(t.ref())
		return
	case OpExtract:
		fmt.Fprintf(sb, "((_ extract %d %d) ", exHi(t), exLo(t))
	case OpSExt:
		fmt.Fprintf(sb, "((_ sign_extend %d) ", t.c)
	case OpUF:
		sb.WriteString("(" + t.name + " ")
	default:
		sb.WriteString("(" + opNames[t.op] + " ")
	}
	for i, a := range t.args {
		if i > 0 {
			sb.WriteString(" ")
		}
		a.write(sb, depth+1)
	}
	sb.WriteString(")")
}


func exHi(t *Term) uint16 { return uint16(t.c >> 16) }
func exLo(t *Term) uint16 { return uint16(t.c & 0xffff) }
