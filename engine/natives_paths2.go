package main

// Intrinsics added while finishing the path-combination / path-lookup checks (C28, C29, C30).
// All of them are active only with the "pathstime" feature set (default for C28-C30 only).
//
//   (time.Time).Add          for a wall-clock time (no monotonic reading) with a structurally bounded
//                            non-negative second count and a structurally bounded non-negative duration:
//                            the result of the library code *when none of its saturation / carry branches
//                            can be taken*, which is established from sound upper bounds of the operand
//                            terms (p2Bound); otherwise the intrinsic declines and the library code runs.
//                            Spares the solver the overflow tests of Time.addSec and the nsec carry logic.
//   (time.Time).Unix,        for a time without monotonic reading (bounded wall word): ext - unixToInternal,
//   (time.Time).Nanosecond   wall & nsecMask, without the branch on the monotonic bit.

import (
	"fmt"
	"math/bits"
	"os"
)

var p2Debug = os.Getenv("SYMGO_P2DEBUG") != ""

const (
	p2UnixToInternal = uint64((1969*365 + 1969/4 - 1969/100 + 1969/400) * 86400)
	p2NsPerSec       = uint64(1000000000)
)

// p2Bound is a sound upper bound of the unsigned value of t (w <= 64): boundU/ubound plus the cases
// those do not cover (shift right by a constant, multiplication below an and/shift).
func (s *Store) p2Bound(t *Term, depth int) uint64 {
	if t.w == 0 || t.w > 64 {
		return ^uint64(0)
	}
	m := mask(t.w)
	if t.op == OpConst {
		return t.c
	}
	if depth > 10 {
		return m
	}
	v := m
	switch t.op {
	case OpBvLShr:
		if t.args[1].op == OpConst && t.args[1].c < 64 {
			v = s.p2Bound(t.args[0], depth+1) >> t.args[1].c
		} else {
			v = s.p2Bound(t.args[0], depth+1)
		}
	case OpBvAnd:
		a, b := s.p2Bound(t.args[0], depth+1), s.p2Bound(t.args[1], depth+1)
		v = min(a, b)
	case OpBvAdd:
		a, b := s.p2Bound(t.args[0], depth+1), s.p2Bound(t.args[1], depth+1)
		if sum, carry := bits.Add64(a, b, 0); carry == 0 && sum <= m {
			v = sum
		}
	case OpBvMul:
		a, b := s.p2Bound(t.args[0], depth+1), s.p2Bound(t.args[1], depth+1)
		if hi, lo := bits.Mul64(a, b); hi == 0 && lo <= m {
			v = lo
		}
	case OpIte:
		v = max(s.p2Bound(t.args[1], depth+1), s.p2Bound(t.args[2], depth+1))
	case OpConcat:
		hi, lo := t.args[0], t.args[1]
		if hi.w <= 64 && lo.w < 64 {
			if h := s.p2Bound(hi, depth+1); h <= mask(hi.w) && h <= m>>lo.w {
				v = h<<lo.w | min(s.p2Bound(lo, depth+1), mask(lo.w))
			}
		}
	case OpExtract:
		if a := t.args[0]; a.w <= 64 {
			hi, lo := exHi(t), exLo(t)
			ma := s.p2Bound(a, depth+1)
			if hi == a.w-1 || (hi < 63 && ma < uint64(1)<<(hi+1)) {
				v = min(v, ma>>lo)
			}
		}
	}
	if b, ok := s.boundU(t, 0); ok && b < v {
		v = b
	}
	return v
}

// p2AddLeaves builds base + t with the addition pushed to the leaves of an ite-tree t.
func (s *Store) p2AddLeaves(base, t *Term, depth int) *Term {
	if t.op == OpIte && depth < 8 {
		return s.Ite(t.args[0], s.p2AddLeaves(base, t.args[1], depth+1), s.p2AddLeaves(base, t.args[2], depth+1))
	}
	return s.Bin(OpBvAdd, base, t)
}

func init() {
	extraNatives = append(extraNatives, func(e *Engine) {
		if !optPathsTime2 {
			return
		}
		n := e.natives
		// parts of a time.Time without monotonic reading whose wall word is provably < 2^30
		wallTime := func(x *Exec, v Value) (wall, ext *Term, loc Value, ok bool) {
			ts, isS := v.(Struct)
			if !isS || len(ts) != pTimeStructSize {
				return nil, nil, nil, false
			}
			_, okW := ts[0].(uint64)
			_, okWT := ts[0].(*Term)
			_, okE := ts[1].(uint64)
			_, okET := ts[1].(*Term)
			if !(okW || okWT) || !(okE || okET) {
				return nil, nil, nil, false
			}
			wall, ext = x.toTerm(ts[0], 64), x.toTerm(ts[1], 64)
			if x.st.p2Bound(wall, 0) > pTNsecMask {
				return nil, nil, nil, false
			}
			return wall, ext, ts[2], true
		}
		n["(time.Time).Add"] = func(x *Exec, fr *frame, a []Value) Value {
			wall, ext, loc, ok := wallTime(x, a[0])
			if !ok {
				return declineNative
			}
			var d *Term
			switch dv := a[1].(type) {
			case uint64:
				d = x.st.Const(64, dv)
			case *Term:
				d = dv
			default:
				return declineNative
			}
			if wall.op == OpConst && ext.op == OpConst && d.op == OpConst {
				return declineNative // fully concrete: the interpreted library code is as good
			}
			st := x.st
			bd := st.p2Bound(d, 0)
			be := st.p2Bound(ext, 0)
			if p2Debug {
				fmt.Fprintf(os.Stderr, "p2 Add: bd=%d be=%d d=%s\n", bd, be, d.String())
			}
			if bd >= 1<<62 || be >= 1<<62 {
				return declineNative
			}
			dsec := st.Bin(OpBvSDiv, d, st.Const(64, p2NsPerSec))
			dn := st.Bin(OpBvSRem, d, st.Const(64, p2NsPerSec))
			if p2Debug {
				fmt.Fprintf(os.Stderr, "p2 Add: dsec=%s bound %d\n   dn=%s bound %d\n", dsec.String(), st.p2Bound(dsec, 0), dn.String(), st.p2Bound(dn, 0))
			}
			// no nanosecond carry, no saturation of the second count
			if st.p2Bound(wall, 0)+st.p2Bound(dn, 0) >= p2NsPerSec {
				return declineNative
			}
			if st.p2Bound(dsec, 0) >= 1<<62 {
				return declineNative
			}
			// t + ite(c, x, y) is built as ite(c, t+x, t+y): the leaves are then the same terms as the
			// sums a reference computes hop by hop
			return Struct{fromTerm(st.p2AddLeaves(wall, dn, 0)), fromTerm(st.p2AddLeaves(ext, dsec, 0)), loc}
		}
		n["(time.Time).Unix"] = func(x *Exec, fr *frame, a []Value) Value {
			_, ext, _, ok := wallTime(x, a[0])
			if !ok || ext.op == OpConst {
				return declineNative
			}
			return fromTerm(x.st.Bin(OpBvSub, ext, x.st.Const(64, p2UnixToInternal)))
		}
		n["(time.Time).Nanosecond"] = func(x *Exec, fr *frame, a []Value) Value {
			wall, _, _, ok := wallTime(x, a[0])
			if !ok || wall.op == OpConst {
				return declineNative
			}
			return fromTerm(wall) // int: 64 bits; wall < 2^30 is the nanosecond field
		}
	})
}
