package main

// Intrinsics added for the path-combination / path-lookup checks (C28, C29, C30).
//
//   crypto/sha256.New, Sum256   idealised hash: the interpreted verif.UFHash collects the written bytes and
//                               Sum() is the uninterpreted function "sha256" over them (DESIGN 5.1)
//   encoding/binary.Write       integer-kinded data only (the reflect-based general encoder is not interpreted)
//   (time.Time).After/Before/   branch-free term versions of the stdlib comparisons (same semantics incl. the
//   Equal/Compare               monotonic-clock case); avoids 3-way forks per comparison of symbolic times

import (
	"go/types"
	"strings"
)


func init() {
	extraNatives = append(extraNatives, func(e *Engine) {
		n := e.natives
		n["crypto/sha256.New"] = func(x *Exec, fr *frame, a []Value) Value {
			return x.call(nil, x.eng.fn(verifPkg, "NewSHA256"), nil)
		}
		n["crypto/sha256.Sum256"] = func(x *Exec, fr *frame, a []Value) Value {
			return Array(x.applyUF("sha256", 32, a[0].([]Value)).([]Value))
		}
		n["encoding/binary.Write"] = func(x *Exec, fr *frame, a []Value) Value {
			w, order, data := a[0].(Iface), a[1].(Iface), a[2].(Iface)
			if w.t == nil || order.t == nil || data.t == nil {
				x.unsupported("binary.Write with nil writer/order/data")
			}
			width, _, ok := intInfo(data.t)
			isBool := isBoolT(data.t)
			if !ok && !isBool {
				x.unsupported("binary.Write of non-integer data %s", data.t)
			}
			var bs []Value
			if isBool {
				bs = []Value{fromTerm(x.st.BoolToBV(x.toTerm(data.v, 0), 8))}
			} else {
				nb := int(width / 8)
				bs = make([]Value, nb)
				t := x.toTerm(data.v, width)
				for i := 0; i < nb; i++ { // i = 0 is the most significant byte
					hi := width - 1 - uint16(8*i)
					bs[i] = fromTerm(x.st.Extract(t, hi, hi-7))
				}
				on := order.t.String()
				switch {
				case strings.Contains(on, "bigEndian"):
				case strings.Contains(on, "littleEndian"):
					for i, j := 0, nb-1; i < j; i, j = i+1, j-1 {
						bs[i], bs[j] = bs[j], bs[i]
					}
				default:
					x.unsupported("binary.Write with byte order %s", on)
				}
			}
			m := x.eng.methodByName(w.t, "Write")
			if m == nil {
				x.unsupported("binary.Write: writer %s has no Write method", w.t)
			}
			r := x.call(nil, m, []Value{w.v, bs})
			if tup, ok := r.(Tuple); ok && len(tup) == 2 {
				return tup[1]
			}
			return Iface{}
		}

		if optPathsTime {
		// time comparisons as terms
		n["(time.Time).After"] = func(x *Exec, fr *frame, a []Value) Value {
			return x.timeCmp(a[0], a[1], OpSlt, OpUlt, true)
		}
		n["(time.Time).Before"] = func(x *Exec, fr *frame, a []Value) Value {
			return x.timeCmp(a[0], a[1], OpSlt, OpUlt, false)
		}
		n["(time.Time).Equal"] = func(x *Exec, fr *frame, a []Value) Value {
			t, u, ok := x.pTimeParts(a[0], a[1])
			if !ok {
				return declineNative
			}
			st := x.st
			wall := st.And(st.Eq(t.sec, u.sec), st.Eq(t.nsec, u.nsec))
			return fromTerm(st.Ite(st.And(t.mono, u.mono), st.Eq(t.ext, u.ext), wall))
		}
		}
	})
}

type pTimeParts struct {
	mono           *Term // Bool: hasMonotonic
	ext, sec, nsec *Term // 64, 64, 32 bits
}

const (
	pTHasMonotonic  = uint64(1) << 63
	pTNsecShift     = 30
	pTWallToInt     = (1884*365 + 1884/4 - 1884/100 + 1884/400) * 86400
	pTNsecMask      = uint64(1)<<30 - 1
	pTimeStructSize = 3
)

// pTimeParts decomposes two time.Time values (wall uint64, ext int64, loc *Location). It returns
// ok=false when both are fully concrete (then the interpreted stdlib body is just as good).
func (x *Exec) pTimeParts(tv, uv Value) (t, u pTimeParts, ok bool) {
	ts, ok1 := tv.(Struct)
	us, ok2 := uv.(Struct)
	if !ok1 || !ok2 || len(ts) != pTimeStructSize || len(us) != pTimeStructSize {
		return t, u, false
	}
	_, c1 := ts[0].(uint64)
	_, c2 := ts[1].(uint64)
	_, c3 := us[0].(uint64)
	_, c4 := us[1].(uint64)
	if c1 && c2 && c3 && c4 {
		return t, u, false
	}
	mk := func(s Struct) pTimeParts {
		st := x.st
		wall := x.toTerm(s[0], 64)
		ext := x.toTerm(s[1], 64)
		if st.p2Bound(wall, 0) <= pTNsecMask {
			// no monotonic reading, no wall seconds: (ext, nsec) is the time
			return pTimeParts{mono: st.fls, ext: ext, sec: ext, nsec: st.Extract(wall, pTNsecShift-1, 0)}
		}
		mono := st.Eq(st.Extract(wall, 63, 63), st.Const(1, 1))
		// wall seconds: wall<<1>>(nsecShift+1) = bits 62..30
		wsec := st.Bin(OpBvAdd, st.ZExt(st.Extract(wall, 62, pTNsecShift), 64-33), st.Const(64, pTWallToInt))
		return pTimeParts{mono: mono, ext: ext, sec: st.Ite(mono, wsec, ext), nsec: st.Extract(wall, pTNsecShift-1, 0)}
	}
	return mk(ts), mk(us), true
}

// timeCmp implements After (after=true: t > u) and Before (t < u).
func (x *Exec) timeCmp(tv, uv Value, slt, ult Op, after bool) Value {
	t, u, ok := x.pTimeParts(tv, uv)
	if !ok {
		return declineNative
	}
	if after {
		t, u = u, t
	}
	// now decide t < u
	st := x.st
	wall := st.Or(st.Cmp(slt, t.sec, u.sec), st.And(st.Eq(t.sec, u.sec), st.Cmp(ult, t.nsec, u.nsec)))
	return fromTerm(st.Ite(st.And(t.mono, u.mono), st.Cmp(slt, t.ext, u.ext), wall))
}

var _ = types.Typ

func init() {
	extraNatives = append(extraNatives, func(e *Engine) {
		// log.FromCtx / log.Root: pkg/log is a no-op package (zero results), but callers invoke methods
		// on the returned Logger; give them the package's own DiscardLogger.
		const logPkg = "github.com/scionproto/scion/pkg/log"
		discard := func(x *Exec, fr *frame, a []Value) Value {
			p := x.eng.pkgs[logPkg]
			if p == nil || p.Type("DiscardLogger") == nil {
				x.unsupported("log.FromCtx: pkg/log.DiscardLogger not loaded")
			}
			return Iface{t: p.Type("DiscardLogger").Type(), v: Struct{}}
		}
		if e.natives[logPkg+".FromCtx"] == nil {
			e.natives[logPkg+".FromCtx"] = discard
		}
		if e.natives[logPkg+".Root"] == nil {
			e.natives[logPkg+".Root"] = discard
		}
	})
}
