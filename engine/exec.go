package main

// Exec: one symbolic execution of a harness along one decision trace.

import (
	"fmt"
	"go/types"
	"os"
	"runtime/debug"
	"sort"
	"strings"
	"sync"
	"time"

	"golang.org/x/tools/go/ssa"
)

type DecKind uint8

const (
	DecBranch DecKind = iota // val: 1 = condition true, 0 = false
	DecValue                 // val: concrete value chosen for a symbolic integer
	DecChoose                // val: alternative index of an n-ary choice
)

type Decision struct {
	Kind DecKind
	Val  uint64
}

type endKind int

const (
	endDone        endKind = iota // harness returned
	endAssumeFalse                // verif.Assume(false) or infeasible
	endPanic                      // Go panic escaped the harness
	endUnsupported                // engine cannot continue (=> inconclusive)
	endBudget                     // budget exhausted (=> inconclusive)
	endBlocked                    // blocked forever on a channel op
	endAssertStop                 // path stopped after a failed assertion
)

func (k endKind) String() string {
	return [...]string{"done", "assume-false", "panic", "unsupported", "budget", "blocked", "assert-stop"}[k]
}

type pathEnd struct {
	kind endKind
	msg  string
}

type targetPanic struct {
	v     Value
	where string
}

type specAbort struct{ why string }

// Engine is the state shared by all executions of one check.
type Engine struct {
	prog      *ssa.Program
	pkgs      map[string]*ssa.Package
	natives   map[string]NativeFn
	buildMu   sync.Mutex
	cfg       Config
	fnUsed    sync.Map // *ssa.Function -> struct{}
	stubsUsed sync.Map // name -> struct{}
	errString types.Type
	pkgInitHook map[string]func(*Exec, *ssa.Package)
	nativeCache sync.Map
	noopPkgs    []string
	mergeFns    map[string]bool // spec "merge_funcs": functions whose symbolic tests are merged into the return value (merge.go)
}

type Config struct {
	MaxSteps      int
	MaxDecisions  int
	MaxPaths      int
	MaxValuesSite int
	QueryTimeout  time.Duration
	Workers       int
	Params        map[string]int64
	Trace         bool
	NoIfConv      bool
	Seed          int64
	SampleEvery   int
}

type inputVar struct {
	Name string
	T    *Term
	Kind string // u8,u16,u32,u64,bool,bytes
}

type obsRec struct {
	Label string
	Vals  []obsVal
}

type obsVal struct {
	Kind string // "int","uint","bool","bytes","string","nil","nonnil"
	W    uint16
	Sgn  bool
	Sc   Value   // scalar
	Bs   []Value // bytes
}

type assertRec struct {
	Clause string
	Status string // "trivial","unsat","VIOLATED","unknown"
}

type Violation struct {
	Clause   string
	Kind     string // "assert" | "panic"
	Msg      string
	Inputs   map[string]string // name -> hex/decimal
	UF       []ufPoint
	Trace    []Decision
	Observed []string
	Entry    string
	Params   map[string]int64
}

type ufPoint struct {
	Name string
	In   string // hex of concatenated args
	Out  string // hex
}

type Exec struct {
	eng     *Engine
	st      *Store
	solver  *Solver
	pc      []*Term
	prefix  []Decision
	pos     int
	trace   []Decision
	pending [][]Decision

	globals map[*ssa.Global]*Value
	inited  map[*ssa.Package]bool

	steps     int
	depth     int
	seq       map[string]int
	inputs    []inputVar
	observes  []obsRec
	asserts   []assertRec
	covers    map[string]bool
	violation []*Violation
	ifconv    int
	spec      *specState
	injective map[string]int // UF name -> truncation bits (0 = full)
	injDone   map[string]int // number of applications already axiomatised
	now       *Term
	nowCount  int
	condLog   []string
	chooseLog []string
	ghost     map[string]Value
	entry     string
	inconclusive []string
	syncLog      []syncEv
	lastNow      *nowRec
	cstack       []*ssa.Function
	pcSet        map[int]bool
	fmtDepth     int
	// model: an assignment of the input variables known to satisfy the current path condition
	// (nil: none). Used to avoid solver calls: a condition that evaluates to v under the model is
	// feasible with outcome v, only the opposite outcome needs a query.
	model     map[int]uint64
	modelHits int
	nano         map[int]nanoInfo // natives_state1_time.go: terms known to be s*1e9+n
	watch        map[*Value]bool  // natives_state1.go: cells that may only be accessed while the watched mutex is held
}

func (x *Exec) end(kind endKind, format string, args ...any) {
	panic(pathEnd{kind, fmt.Sprintf(format, args...)})
}

func (x *Exec) unsupported(format string, args ...any) {
	if x.spec != nil {
		panic(specAbort{"unsupported in speculation"})
	}
	panic(pathEnd{endUnsupported, fmt.Sprintf(format, args...)})
}

func (x *Exec) tpanic(msg string) {
	if x.spec != nil {
		panic(specAbort{"panic in speculation"})
	}
	panic(targetPanic{v: Iface{t: x.eng.errString, v: "runtime error: " + msg}, where: msg})
}

// ---- solver interaction ---------------------------------------------------------------

// slowQueryLog (SYMGO_SLOWQ=1) reports branch/assert queries that take more than 2 s (debugging aid).
var slowQueryLog = os.Getenv("SYMGO_SLOWQ") != ""

func (x *Exec) check(extra *Term, keep bool) SatResult {
	if len(x.injective) > 0 {
		x.flushInjectivity()
	}
	t0 := time.Now()
	fb0 := x.solver.Fallbacks
	r, err := x.solver.Check(x.pc, extra, keep)
	if slowQueryLog && time.Since(t0) > 2*time.Second {
		fmt.Fprintf(os.Stderr, "slow query %.1fs (%s, fallbacks %d) trace=%s at %s\n", time.Since(t0).Seconds(), r, x.solver.Fallbacks-fb0, traceString(x.trace), x.stackString())
	}
	if err != nil {
		x.end(endUnsupported, "solver error: %v", err)
	}
	return r
}

func (x *Exec) addPC(c *Term) {
	if c.op == OpConst {
		if c.c == 0 {
			x.end(endAssumeFalse, "constraint false")
		}
		return
	}
	if x.model != nil {
		if v, ok := x.evalModel(c); !ok || v == 0 {
			x.model = nil
		}
	}
	x.pc = append(x.pc, c)
	if x.pcSet == nil {
		x.pcSet = map[int]bool{}
	}
	x.pcSet[c.id] = true
	// conjunctions contribute their conjuncts
	if c.op == OpAnd {
		x.pcSet[c.args[0].id] = true
		x.pcSet[c.args[1].id] = true
	}
}

// branch decides a symbolic condition; returns the chosen truth value.
func (x *Exec) branch(c *Term) bool {
	if c.op == OpConst {
		return c.c != 0
	}
	if x.spec != nil {
		panic(specAbort{"decision in speculation"})
	}
	if x.pos < len(x.prefix) {
		d := x.prefix[x.pos]
		x.pos++
		if d.Kind != DecBranch {
			x.end(endUnsupported, "replay divergence: expected branch decision, trace has kind %d", d.Kind)
		}
		x.trace = append(x.trace, d)
		if d.Val == 1 {
			x.addPC(c)
			return true
		}
		x.addPC(x.st.Not(c))
		return false
	}
	if len(x.trace) >= x.eng.cfg.MaxDecisions {
		x.end(endBudget, "more than %d decisions on one path", x.eng.cfg.MaxDecisions)
	}
	if x.pcSet[c.id] {
		x.trace = append(x.trace, Decision{DecBranch, 1})
		return true
	}
	if x.pcSet[x.st.Not(c).id] {
		x.trace = append(x.trace, Decision{DecBranch, 0})
		return false
	}
	if len(x.injective) > 0 {
		// pending collision-freeness axioms belong to the path condition: add them before the cached
		// model is consulted (they invalidate it)
		x.flushInjectivity()
	}
	if v, ok := x.evalModel(c); ok {
		// the model decides one outcome; only the other one needs the solver
		x.modelHits++
		side := v != 0
		sideT, otherT := c, x.st.Not(c)
		if !side {
			sideT, otherT = otherT, sideT
		}
		ro := x.check(otherT, false)
		if ro == Unknown {
			x.end(endUnsupported, "solver returned unknown on a branch condition")
		}
		sv := uint64(0)
		if side {
			sv = 1
		}
		if ro == Sat {
			sib := append(append([]Decision{}, x.trace...), Decision{DecBranch, 1 - sv})
			x.pending = append(x.pending, sib)
		}
		x.trace = append(x.trace, Decision{DecBranch, sv})
		x.addPC(sideT)
		return side
	}
	rt := x.checkModel(c)
	if rt == Unknown {
		x.end(endUnsupported, "solver returned unknown on a branch condition")
	}
	if rt == Unsat {
		// pc is satisfiable by construction, so the negation holds on every model; the forced
		// outcome is recorded so that replay stays positional
		x.trace = append(x.trace, Decision{DecBranch, 0})
		x.addPC(x.st.Not(c))
		return false
	}
	rf := x.check(x.st.Not(c), false)
	if rf == Unknown {
		x.end(endUnsupported, "solver returned unknown on a branch condition")
	}
	if rf == Unsat {
		x.trace = append(x.trace, Decision{DecBranch, 1})
		x.addPC(c)
		return true
	}
	// both feasible: take true, queue false
	if debugForkSites && len(x.cstack) > 0 {
		fmt.Fprintf(os.Stderr, "fork-site %s\n", x.cstack[len(x.cstack)-1])
	}
	if debugForks {
		fmt.Fprintf(os.Stderr, "fork@%d: %s\n", len(x.trace), x.stackString())
	}
	sib := append(append([]Decision{}, x.trace...), Decision{DecBranch, 0})
	x.pending = append(x.pending, sib)
	x.trace = append(x.trace, Decision{DecBranch, 1})
	x.addPC(c)
	return true
}

// evalModel evaluates c under the cached model (variables that the solver has not seen yet are
// unconstrained and default to zero).
func (x *Exec) evalModel(c *Term) (uint64, bool) {
	if x.model == nil || noModelCache {
		return 0, false
	}
	return x.st.evalTermDefault(c, x.model)
}

// checkModel decides pc ∧ extra like check and, when satisfiable, caches the solver's model of the
// input variables (it satisfies pc ∧ extra).
func (x *Exec) checkModel(extra *Term) SatResult {
	if noModelCache {
		return x.check(extra, false)
	}
	if len(x.injective) > 0 {
		x.flushInjectivity()
	}
	x.solver.AssertPC(x.pc)
	if extra != nil {
		x.solver.define(extra)
	}
	var vars []*Term
	for _, v := range x.st.vars {
		if v.w <= 64 && (x.solver.defined[v.id]) {
			vars = append(vars, v)
		}
	}
	r, mv, err := x.solver.CheckModel(x.pc, extra, vars)
	if err != nil {
		x.end(endUnsupported, "solver error: %v", err)
	}
	x.model = nil
	if r == Unknown {
		// the model request can fail where the plain decision succeeds (fall-back solvers whose
		// model output cannot be read back): decide without a model
		return x.check(extra, false)
	}
	if r == Sat && len(mv) == len(vars) {
		m := make(map[int]uint64, len(vars))
		for i, v := range vars {
			m[v.id] = mv[i].lo
		}
		x.model = m
	}
	return r
}

var noModelCache = os.Getenv("SYMGO_NOMODELCACHE") != ""

// concretize enumerates the feasible values of a symbolic integer (decision point).
func (x *Exec) concretize(t *Term, what string) uint64 {
	if t.op == OpConst {
		return t.c
	}
	if x.spec != nil {
		panic(specAbort{"concretisation in speculation"})
	}
	if x.pos < len(x.prefix) {
		d := x.prefix[x.pos]
		x.pos++
		if d.Kind != DecValue {
			x.end(endUnsupported, "replay divergence: expected value decision for %s", what)
		}
		x.trace = append(x.trace, d)
		x.addPC(x.st.Eq(t, x.st.Const(t.w, d.Val)))
		return d.Val
	}
	if len(x.trace) >= x.eng.cfg.MaxDecisions {
		x.end(endBudget, "more than %d decisions on one path", x.eng.cfg.MaxDecisions)
	}
	var vals []uint64
	excl := x.st.Bool(true)
	for {
		if len(x.injective) > 0 {
			x.flushInjectivity()
		}
		t0 := time.Now()
		r, mv, err := x.solver.CheckModel(x.pc, excl, []*Term{t})
		if slowQueryLog && time.Since(t0) > 2*time.Second {
			fmt.Fprintf(os.Stderr, "slow value query %.1fs (%s) %s trace=%s at %s\n", time.Since(t0).Seconds(), r, what, traceString(x.trace), x.stackString())
		}
		if err != nil {
			x.end(endUnsupported, "solver error while enumerating values of %s: %v", what, err)
		}
		if r == Unknown {
			x.end(endUnsupported, "solver returned unknown while enumerating values of %s", what)
		}
		if r == Unsat {
			break
		}
		v := mv[0].lo
		vals = append(vals, v)
		if len(vals) > x.eng.cfg.MaxValuesSite {
			x.end(endBudget, "symbolic integer %s has more than %d feasible values (%s)", what, x.eng.cfg.MaxValuesSite, t.String())
		}
		excl = x.st.And(excl, x.st.Not(x.st.Eq(t, x.st.Const(t.w, v))))
	}
	if len(vals) == 0 {
		x.end(endUnsupported, "path condition became unsatisfiable (%s)", what)
	}
	sort.Slice(vals, func(i, j int) bool { return vals[i] < vals[j] })
	for _, v := range vals[1:] {
		sib := append(append([]Decision{}, x.trace...), Decision{DecValue, v})
		x.pending = append(x.pending, sib)
	}
	x.trace = append(x.trace, Decision{DecValue, vals[0]})
	x.addPC(x.st.Eq(t, x.st.Const(t.w, vals[0])))
	return vals[0]
}

// choose is an n-ary decision all of whose alternatives are taken (environment choice).
func (x *Exec) choose(n int, what string) int {
	if n <= 0 {
		x.end(endUnsupported, "choose with no alternatives (%s)", what)
	}
	if n == 1 {
		return 0
	}
	if x.spec != nil {
		panic(specAbort{"choice in speculation"})
	}
	if x.pos < len(x.prefix) {
		d := x.prefix[x.pos]
		x.pos++
		if d.Kind != DecChoose {
			x.end(endUnsupported, "replay divergence: expected choice for %s", what)
		}
		x.trace = append(x.trace, d)
		return int(d.Val)
	}
	if len(x.trace) >= x.eng.cfg.MaxDecisions {
		x.end(endBudget, "more than %d decisions on one path", x.eng.cfg.MaxDecisions)
	}
	for i := 1; i < n; i++ {
		sib := append(append([]Decision{}, x.trace...), Decision{DecChoose, uint64(i)})
		x.pending = append(x.pending, sib)
	}
	x.trace = append(x.trace, Decision{DecChoose, 0})
	return 0
}

// truth turns a bool Value into a Go bool, deciding symbolic conditions.
func (x *Exec) truth(v Value) bool {
	switch v := v.(type) {
	case bool:
		return v
	case *Term:
		return x.branch(v)
	}
	panic(fmt.Sprintf("truth: not a bool: %T", v))
}

// toTerm lifts a scalar value to a term of width w (w==0: bool).
func (x *Exec) toTerm(v Value, w uint16) *Term {
	switch v := v.(type) {
	case *Term:
		if v.w != w {
			panic(fmt.Sprintf("toTerm: width mismatch: have %d want %d", v.w, w))
		}
		return v
	case uint64:
		return x.st.Const(w, v)
	case bool:
		if w != 0 {
			panic("toTerm: bool given for bit-vector")
		}
		return x.st.Bool(v)
	}
	panic(fmt.Sprintf("toTerm: not a scalar: %T", v))
}

// fromTerm returns a concrete Value when t is constant.
func fromTerm(t *Term) Value {
	if t.op == OpConst {
		if t.w == 0 {
			return t.c != 0
		}
		return t.c
	}
	return t
}

// concreteInt forces an integer value to be concrete (decision point if symbolic).
func (x *Exec) concreteInt(v Value, what string) uint64 {
	switch v := v.(type) {
	case uint64:
		return v
	case *Term:
		return x.concretize(v, what)
	}
	panic(fmt.Sprintf("concreteInt(%s): not an integer: %T", what, v))
}

// ---- running one path -------------------------------------------------------------------

type PathResult struct {
	Trace      []Decision
	End        endKind
	Msg        string
	Pending    [][]Decision
	Steps      int
	Asserts    []assertRec
	Violations []*Violation
	Covers     []string
	IfConv     int
	Witness    *Witness // model of the path (for self-check), may be nil
	PanicMsg   string
	Inconcl    []string
}

// Witness: a concrete input assignment for one explored path with the observations the
// interpreter predicts for it.
type Witness struct {
	Entry    string            `json:"entry"`
	Params   map[string]int64  `json:"params"`
	Inputs   map[string]string `json:"inputs"`
	UF       []ufPoint         `json:"uf"`
	Observed []string          `json:"observed"`
	End      string            `json:"end"`
	Trace    string            `json:"trace"`
}

func traceString(tr []Decision) string {
	var sb strings.Builder
	for _, d := range tr {
		switch d.Kind {
		case DecBranch:
			if d.Val == 1 {
				sb.WriteByte('T')
			} else {
				sb.WriteByte('F')
			}
		case DecValue:
			fmt.Fprintf(&sb, "v%d.", d.Val)
		case DecChoose:
			fmt.Fprintf(&sb, "c%d.", d.Val)
		}
	}
	return sb.String()
}

func (e *Engine) RunPath(solver *Solver, entry *ssa.Function, prefix []Decision, wantWitness bool) (res PathResult) {
	x := &Exec{
		eng: e, st: NewStore(), solver: solver, prefix: prefix,
		globals: map[*ssa.Global]*Value{}, inited: map[*ssa.Package]bool{},
		seq: map[string]int{}, covers: map[string]bool{},
		injective: map[string]int{}, injDone: map[string]int{}, ghost: map[string]Value{},
		entry: entry.Name(),
	}
	solver.Begin(x.st)
	defer func() {
		if r := recover(); r != nil {
			switch p := r.(type) {
			case pathEnd:
				res.End, res.Msg = p.kind, p.msg
			case targetPanic:
				res.End = endPanic
				res.Msg = "panic: " + valString(p.v)
				res.PanicMsg = res.Msg
			case specAbort:
				res.End, res.Msg = endUnsupported, "speculation abort escaped: "+p.why
			case engineErr:
				res.End = endUnsupported
				res.Msg = fmt.Sprintf("engine error in %s: %v\ncall stack: %s\n%s", p.fn, p.r, x.stackString(), trimStack(p.stack))
			default:
				res.End = endUnsupported
				res.Msg = fmt.Sprintf("engine error: %v\n%s", r, debug.Stack())
			}
		}
		// an uncaught Go panic of the harness is a violation of the implicit "no panic" clause
		if res.End == endPanic {
			if v := x.buildViolation("no-panic", "panic", res.Msg, nil); v != nil {
				x.violation = append(x.violation, v)
			}
		}
		if wantWitness && (res.End == endDone || res.End == endAssertStop) {
			res.Witness = x.buildWitness(res.End)
		}
		res.Trace = x.trace
		res.Pending = x.pending
		res.Steps = x.steps
		res.Asserts = x.asserts
		res.Violations = x.violation
		res.IfConv = x.ifconv
		res.Inconcl = x.inconclusive
		for c := range x.covers {
			res.Covers = append(res.Covers, c)
		}
		sort.Strings(res.Covers)
	}()
	x.call(nil, entry, nil)
	res.End = endDone
	return
}

// modelOf asks for a model of pc ∧ extra and returns values of the given terms.
func (x *Exec) modelOf(extra *Term, ts []*Term) ([]ModelVal, bool) {
	if len(x.injective) > 0 {
		x.flushInjectivity()
	}
	t0 := time.Now()
	fb0 := x.solver.Fallbacks
	r, mv, err := x.solver.CheckModel(x.pc, extra, ts)
	if slowQueryLog && time.Since(t0) > 2*time.Second {
		fmt.Fprintf(os.Stderr, "slow model query %.1fs (%s, fallbacks %d) trace=%s\n", time.Since(t0).Seconds(), r, x.solver.Fallbacks-fb0, traceString(x.trace))
	}
	if err != nil {
		fmt.Fprintln(os.Stderr, "model query failed:", err)
		return nil, false
	}
	if r != Sat {
		return nil, false
	}
	return mv, true
}

func hexBytes(b []byte) string { return fmt.Sprintf("%x", b) }

// collectModel evaluates inputs, UF points and observations under a model of pc ∧ extra.
func (x *Exec) collectModel(extra *Term) (inputs map[string]string, uf []ufPoint, observed []string, ok bool) {
	var ts []*Term
	for _, in := range x.inputs {
		ts = append(ts, in.T)
	}
	nIn := len(ts)
	type ufref struct {
		name string
		args []int
		out  int
	}
	var ufrefs []ufref
	names := make([]string, 0, len(x.st.ufApps))
	for n := range x.st.ufApps {
		names = append(names, n)
	}
	sort.Strings(names)
	for _, n := range names {
		for _, app := range x.st.ufApps[n] {
			r := ufref{name: n}
			for _, a := range app.args {
				r.args = append(r.args, len(ts))
				ts = append(ts, a)
			}
			r.out = len(ts)
			ts = append(ts, app)
			ufrefs = append(ufrefs, r)
		}
	}
	type oref struct{ rec, val, idx, n int }
	var orefs []oref
	for ri, o := range x.observes {
		for vi, v := range o.Vals {
			switch v.Kind {
			case "bytes":
				st := len(ts)
				for _, b := range v.Bs {
					ts = append(ts, x.toTerm(b, 8))
				}
				orefs = append(orefs, oref{ri, vi, st, len(v.Bs)})
			case "int", "uint", "bool":
				orefs = append(orefs, oref{ri, vi, len(ts), 1})
				ts = append(ts, x.toTerm(v.Sc, v.W))
			}
		}
	}
	mv, good := x.modelOf(extra, ts)
	if !good {
		return nil, nil, nil, false
	}
	inputs = map[string]string{}
	for i, in := range x.inputs {
		inputs[in.Name] = fmt.Sprintf("%d", mv[i].lo)
	}
	_ = nIn
	for _, r := range ufrefs {
		var in []byte
		for _, a := range r.args {
			in = append(in, mv[a].Bytes()...)
		}
		uf = append(uf, ufPoint{Name: r.name, In: hexBytes(in), Out: hexBytes(mv[r.out].Bytes())})
	}
	oi := 0
	for ri, o := range x.observes {
		var sb strings.Builder
		sb.WriteString(o.Label + ":")
		for vi, v := range o.Vals {
			sb.WriteString(" ")
			switch v.Kind {
			case "bytes":
				r := orefs[oi]
				oi++
				_ = r.rec
				b := make([]byte, r.n)
				for k := 0; k < r.n; k++ {
					b[k] = byte(mv[r.idx+k].lo)
				}
				sb.WriteString("x" + hexBytes(b))
			case "int":
				r := orefs[oi]
				oi++
				sb.WriteString(fmt.Sprintf("%d", sext64(mv[r.idx].lo, v.W)))
			case "uint":
				r := orefs[oi]
				oi++
				sb.WriteString(fmt.Sprintf("%d", mv[r.idx].lo))
			case "bool":
				r := orefs[oi]
				oi++
				sb.WriteString(fmt.Sprintf("%v", mv[r.idx].lo != 0))
			case "string":
				sb.WriteString(fmt.Sprintf("%q", v.Sc.(string)))
			default:
				sb.WriteString(v.Kind)
			}
			_ = vi
		}
		_ = ri
		observed = append(observed, sb.String())
	}
	return inputs, uf, observed, true
}

func (x *Exec) buildWitness(end endKind) *Witness {
	defer func() {
		if r := recover(); r != nil {
			// model construction failed (e.g. solver unknown): no witness
		}
	}()
	in, uf, obs, ok := x.collectModel(nil)
	if !ok {
		return nil
	}
	return &Witness{Entry: x.entry, Params: x.eng.cfg.Params, Inputs: in, UF: uf, Observed: obs, End: end.String(), Trace: traceString(x.trace)}
}

func (x *Exec) buildViolation(clause, kind, msg string, extra *Term) *Violation {
	var in map[string]string
	var uf []ufPoint
	var obs []string
	func() {
		defer func() { recover() }()
		in, uf, obs, _ = x.collectModel(extra)
	}()
	if in == nil {
		x.inconclusive = append(x.inconclusive, "no model for violation of "+clause)
		return nil
	}
	return &Violation{Clause: clause, Kind: kind, Msg: msg, Inputs: in, UF: uf, Observed: obs,
		Trace: append([]Decision{}, x.trace...), Entry: x.entry, Params: x.eng.cfg.Params}
}

func trimStack(s string) string {
	lines := strings.Split(s, "\n")
	var out []string
	for i := 0; i < len(lines); i++ {
		l := lines[i]
		if strings.Contains(l, "runtime/debug.Stack") || strings.Contains(l, "runtime/panic.go") || strings.HasPrefix(l, "panic(") || strings.Contains(l, "runFrame.func1") {
			i++
			continue
		}
		out = append(out, l)
		if len(out) > 14 {
			break
		}
	}
	return strings.Join(out, "\n")
}

func (x *Exec) stackString() string {
	var sb strings.Builder
	n := len(x.cstack)
	for i := n - 1; i >= 0 && i >= n-10; i-- {
		sb.WriteString(x.cstack[i].String())
		sb.WriteString(" <- ")
	}
	return sb.String()
}
