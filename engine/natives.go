package main

// Intrinsics: functions implemented by the engine instead of being interpreted.

import (
	"fmt"
	"go/types"
	"math"
	"strings"

	"golang.org/x/tools/go/ssa"
)

const verifPkg = "github.com/scionproto/scion/zz_verif/verif"

func (e *Engine) findNative(fn *ssa.Function) NativeFn {
	if v, ok := e.nativeCache.Load(fn); ok {
		if v == nil {
			return nil
		}
		return v.(NativeFn)
	}
	name := fn.String()
	nat := e.natives[name]
	if nat == nil {
		if i := strings.IndexByte(name, '['); i > 0 {
			// generic instance: try the name without type arguments
			j := strings.LastIndexByte(name, ']')
			nat = e.natives[name[:i]+name[j+1:]]
		}
	}
	if nat == nil && fn.Pkg != nil {
		p := fn.Pkg.Pkg.Path()
		for _, pre := range e.noopPkgs {
			if p == pre || strings.HasPrefix(p, pre+"/") {
				nat = nativeNoop
				break
			}
		}
	}
	if nat == nil {
		e.nativeCache.Store(fn, nil)
		return nil
	}
	e.nativeCache.Store(fn, nat)
	return nat
}

// nativeNoop returns the zero value of the function's result type.
func nativeNoop(x *Exec, fr *frame, args []Value) Value {
	res := fr.fn.Signature.Results()
	if res.Len() == 0 {
		return nil
	}
	return zero(res)
}

func (x *Exec) goString(v Value, what string) string {
	s, ok := v.(string)
	if !ok {
		x.unsupported("%s must be a concrete string", what)
	}
	return s
}

func (x *Exec) goInt(v Value, what string) int {
	n, ok := v.(uint64)
	if !ok {
		x.unsupported("%s must be a concrete integer", what)
	}
	return int(int64(n))
}

func (x *Exec) nondet(name string, w uint16, kind string) *Term {
	k := x.seq[name]
	x.seq[name] = k + 1
	full := name
	if k > 0 {
		full = fmt.Sprintf("%s#%d", name, k)
	}
	t := x.st.Var(full, w)
	x.inputs = append(x.inputs, inputVar{Name: full, T: t, Kind: kind})
	return t
}

func boolToBV1(x *Exec, t *Term) *Term { return t }

func registerNatives(e *Engine) {
	n := e.natives
	V := func(name string, f NativeFn) { n[verifPkg+"."+name] = f }

	// ---- verif: inputs
	V("NondetBool", func(x *Exec, fr *frame, a []Value) Value {
		t := x.nondet(x.goString(a[0], "nondet name"), 1, "bool")
		return fromTerm(x.st.Eq(t, x.st.Const(1, 1)))
	})
	V("NondetU8", func(x *Exec, fr *frame, a []Value) Value { return x.nondet(x.goString(a[0], "name"), 8, "u8") })
	V("NondetU16", func(x *Exec, fr *frame, a []Value) Value { return x.nondet(x.goString(a[0], "name"), 16, "u16") })
	V("NondetU32", func(x *Exec, fr *frame, a []Value) Value { return x.nondet(x.goString(a[0], "name"), 32, "u32") })
	V("NondetU64", func(x *Exec, fr *frame, a []Value) Value { return x.nondet(x.goString(a[0], "name"), 64, "u64") })
	V("NondetInt", func(x *Exec, fr *frame, a []Value) Value {
		t := x.nondet(x.goString(a[0], "name"), 64, "u64")
		lo, hi := a[1].(uint64), a[2].(uint64)
		x.addPC(x.st.And(x.st.Cmp(OpSle, x.st.Const(64, lo), t), x.st.Cmp(OpSle, t, x.st.Const(64, hi))))
		return t
	})
	V("NondetBytes", func(x *Exec, fr *frame, a []Value) Value {
		name := x.goString(a[0], "name")
		cnt := x.goInt(a[1], "NondetBytes length")
		out := make([]Value, cnt)
		for i := range out {
			out[i] = x.nondet(fmt.Sprintf("%s[%d]", name, i), 8, "u8")
		}
		return out
	})
	V("Choose", func(x *Exec, fr *frame, a []Value) Value {
		name := x.goString(a[0], "name")
		cnt := x.goInt(a[1], "Choose n")
		k := x.choose(cnt, name)
		// recorded as an input so that the native replay takes the same alternative
		seq := x.seq["choose:"+name]
		x.seq["choose:"+name] = seq + 1
		full := "choose:" + name
		if seq > 0 {
			full = fmt.Sprintf("%s#%d", full, seq)
		}
		x.inputs = append(x.inputs, inputVar{Name: full, T: x.st.Const(64, uint64(k)), Kind: "u64"})
		return uint64(k)
	})
	V("HasParam", func(x *Exec, fr *frame, a []Value) Value {
		_, ok := x.eng.cfg.Params[x.goString(a[0], "param name")]
		return ok
	})
	V("Param", func(x *Exec, fr *frame, a []Value) Value {
		name := x.goString(a[0], "param name")
		v, ok := x.eng.cfg.Params[name]
		if !ok {
			x.unsupported("harness parameter %q not set", name)
		}
		return uint64(v)
	})

	// ---- verif: bounds and properties
	V("Assume", func(x *Exec, fr *frame, a []Value) Value {
		switch c := a[0].(type) {
		case bool:
			if !c {
				x.end(endAssumeFalse, "assume(false)")
			}
		case *Term:
			x.noSpec("assume")
			if len(x.injective) > 0 {
				x.flushInjectivity()
			}
			if v, ok := x.evalModel(c); ok && v != 0 {
				x.addPC(c)
				return nil
			}
			// keep the path only if the assumption is satisfiable
			r := x.checkModel(c)
			if r == Unknown {
				x.end(endUnsupported, "solver returned unknown on an assumption")
			}
			if r == Unsat {
				x.end(endAssumeFalse, "assumption infeasible")
			}
			x.addPC(c)
		}
		return nil
	})
	V("Assert", func(x *Exec, fr *frame, a []Value) Value {
		x.noSpec("assert")
		clause := x.goString(a[0], "clause")
		x.assert(clause, a[1])
		return nil
	})
	V("Unreachable", func(x *Exec, fr *frame, a []Value) Value {
		x.noSpec("assert")
		x.assert(x.goString(a[0], "clause"), false)
		return nil
	})
	V("Cover", func(x *Exec, fr *frame, a []Value) Value {
		x.noSpec("cover")
		x.covers[x.goString(a[0], "label")] = true
		return nil
	})
	V("Observe", func(x *Exec, fr *frame, a []Value) Value {
		x.noSpec("observe")
		label := x.goString(a[0], "label")
		rec := obsRec{Label: label}
		for _, v := range a[1].([]Value) {
			rec.Vals = append(rec.Vals, x.obsValue(v.(Iface)))
		}
		x.observes = append(x.observes, rec)
		return nil
	})
	V("UF", func(x *Exec, fr *frame, a []Value) Value {
		name := x.goString(a[0], "UF name")
		outN := x.goInt(a[1], "UF output size")
		var in []Value
		for _, part := range a[2].([]Value) {
			in = append(in, part.([]Value)...)
		}
		return x.applyUF(name, outN, in)
	})
	V("AssumeInjective", func(x *Exec, fr *frame, a []Value) Value {
		name := x.goString(a[0], "UF name")
		x.injective[name] = x.goInt(a[1], "truncation")
		return nil
	})
	V("Concrete", func(x *Exec, fr *frame, a []Value) Value {
		// Concrete(v uint64) uint64: forces a case split over the feasible values
		return x.concreteInt(a[0], "verif.Concrete")
	})
	V("Tabulate", func(x *Exec, fr *frame, a []Value) Value {
		// Tabulate(v uint64) uint64: same value, represented as a lookup table over the (few) input
		// bits it depends on; identity when the support is not tiny
		if t, ok := a[0].(*Term); ok {
			if tt := x.st.tabulateTerm(t); tt != nil {
				return fromTerm(tt)
			}
		}
		return a[0]
	})
	V("IsSymbolic", func(x *Exec, fr *frame, a []Value) Value { return true })

	// ---- errors
	n["errors.Is"] = func(x *Exec, fr *frame, a []Value) Value { return x.errorsIs(a[0].(Iface), a[1].(Iface), 0) }
	n["errors.As"] = func(x *Exec, fr *frame, a []Value) Value { return x.errorsAs(a[0].(Iface), a[1].(Iface), 0) }

	// ---- fmt
	sprintf := func(x *Exec, fr *frame, a []Value) Value { return x.format(a[0], a[1].([]Value)) }
	n["fmt.Sprintf"] = sprintf
	n["fmt.Sprint"] = func(x *Exec, fr *frame, a []Value) Value { return x.format("%v", a[0].([]Value)) }
	n["fmt.Sprintln"] = func(x *Exec, fr *frame, a []Value) Value { return x.format("%v\n", a[0].([]Value)) }
	n["fmt.Errorf"] = func(x *Exec, fr *frame, a []Value) Value {
		msg := x.format(a[0], a[1].([]Value))
		f, _ := a[0].(string)
		if strings.Contains(f, "%w") {
			for _, arg := range a[1].([]Value) {
				if it, ok := arg.(Iface); ok && it.t != nil && types.Implements(it.t, errorIface) {
					return x.mkWrapError(msg, it)
				}
			}
		}
		return x.mkError(msg)
	}
	for _, nm := range []string{"fmt.Fprintf", "fmt.Fprint", "fmt.Fprintln", "fmt.Printf", "fmt.Println", "fmt.Print"} {
		n[nm] = func(x *Exec, fr *frame, a []Value) Value { return Tuple{uint64(0), Iface{}} }
	}

	// ---- serrors
	n["github.com/scionproto/scion/pkg/private/serrors.mkErrorInfo"] = func(x *Exec, fr *frame, a []Value) Value {
		var ctx Value = []Value{}
		return Struct{&ctx, a[0], (*Value)(nil)}
	}

	// ---- sync
	for _, nm := range []string{"(*sync.Mutex).Lock", "(*sync.Mutex).Unlock", "(*sync.RWMutex).Lock", "(*sync.RWMutex).Unlock",
		"(*sync.RWMutex).RLock", "(*sync.RWMutex).RUnlock", "(*sync.WaitGroup).Add", "(*sync.WaitGroup).Done", "(*sync.WaitGroup).Wait"} {
		nm := nm
		n[nm] = func(x *Exec, fr *frame, a []Value) Value {
			x.syncEvent(nm, a[0])
			return nil
		}
	}
	n["(*sync.Mutex).TryLock"] = func(x *Exec, fr *frame, a []Value) Value { return true }
	n["(*sync.Cond).Wait"] = func(x *Exec, fr *frame, a []Value) Value { x.syncEvent("(*sync.Cond).Wait", a[0]); return nil }
	n["(*sync.Cond).Signal"] = func(x *Exec, fr *frame, a []Value) Value { x.syncEvent("(*sync.Cond).Signal", a[0]); return nil }
	n["(*sync.Cond).Broadcast"] = func(x *Exec, fr *frame, a []Value) Value {
		x.syncEvent("(*sync.Cond).Broadcast", a[0])
		return nil
	}
	n["sync.NewCond"] = nil // interpreted
	delete(n, "sync.NewCond")
	n["sync.runtime_registerPoolCleanup"] = nativeNoop
	n["sync.runtime_notifyListCheck"] = nativeNoop
	n["(*sync.Pool).Get"] = func(x *Exec, fr *frame, a []Value) Value {
		// no pooling: always call New
		p := a[0].(*Value)
		newFn := (*p).(Struct)[len((*p).(Struct))-1]
		if isNil, _ := isNilValue(newFn); isNil {
			return Iface{}
		}
		return x.callValue(fr, 0, newFn, nil)
	}
	n["(*sync.Pool).Put"] = nativeNoop

	// ---- sync/atomic (sequential semantics)
	for _, ty := range []string{"Int32", "Int64", "Uint32", "Uint64", "Uintptr", "Pointer"} {
		n["sync/atomic.Load"+ty] = func(x *Exec, fr *frame, a []Value) Value { return x.load(nil, a[0]) }
		n["sync/atomic.Store"+ty] = func(x *Exec, fr *frame, a []Value) Value {
			x.write(a[0].(*Value), a[1], nil)
			return nil
		}
		n["sync/atomic.Swap"+ty] = func(x *Exec, fr *frame, a []Value) Value {
			old := x.load(nil, a[0])
			x.write(a[0].(*Value), a[1], nil)
			return old
		}
	}
	for _, ty := range []struct {
		n string
		w uint16
	}{{"Int32", 32}, {"Int64", 64}, {"Uint32", 32}, {"Uint64", 64}, {"Uintptr", 64}} {
		w := ty.w
		n["sync/atomic.Add"+ty.n] = func(x *Exec, fr *frame, a []Value) Value {
			p := a[0].(*Value)
			var nv Value
			ca, okA := (*p).(uint64)
			cb, okB := a[1].(uint64)
			if okA && okB {
				nv = norm(ca+cb, w)
			} else {
				nv = fromTerm(x.st.Bin(OpBvAdd, x.toTerm(*p, w), x.toTerm(a[1], w)))
			}
			x.write(p, nv, nil)
			return nv
		}
		n["sync/atomic.CompareAndSwap"+ty.n] = func(x *Exec, fr *frame, a []Value) Value {
			p := a[0].(*Value)
			eq := x.scalarEq(*p, a[1], w)
			if x.truth(eq) {
				x.write(p, a[2], nil)
				return true
			}
			return false
		}
		n["sync/atomic.And"+ty.n] = func(x *Exec, fr *frame, a []Value) Value {
			p := a[0].(*Value)
			old := *p
			x.write(p, fromTerm(x.st.Bin(OpBvAnd, x.toTerm(*p, w), x.toTerm(a[1], w))), nil)
			return old
		}
		n["sync/atomic.Or"+ty.n] = func(x *Exec, fr *frame, a []Value) Value {
			p := a[0].(*Value)
			old := *p
			x.write(p, fromTerm(x.st.Bin(OpBvOr, x.toTerm(*p, w), x.toTerm(a[1], w))), nil)
			return old
		}
	}
	n["sync/atomic.CompareAndSwapPointer"] = func(x *Exec, fr *frame, a []Value) Value {
		p := a[0].(*Value)
		if (*p).(*Value) == a[1].(*Value) {
			x.write(p, a[2], nil)
			return true
		}
		return false
	}
	n["(*sync/atomic.Value).Load"] = func(x *Exec, fr *frame, a []Value) Value {
		p := a[0].(*Value)
		v := (*p).(Struct)[0]
		if it, ok := v.(Iface); ok {
			return it
		}
		return Iface{}
	}
	n["(*sync/atomic.Value).Store"] = func(x *Exec, fr *frame, a []Value) Value {
		p := a[0].(*Value)
		(*p).(Struct)[0] = a[1]
		return nil
	}

	// ---- internal/bytealg
	n["internal/bytealg.IndexByte"] = func(x *Exec, fr *frame, a []Value) Value { return x.indexByte(a[0].([]Value), a[1]) }
	n["internal/bytealg.IndexByteString"] = func(x *Exec, fr *frame, a []Value) Value { return x.indexByte(strBytes(a[0]), a[1]) }
	n["internal/bytealg.Equal"] = func(x *Exec, fr *frame, a []Value) Value { return x.bytesEq(a[0].([]Value), a[1].([]Value)) }
	n["internal/bytealg.Compare"] = func(x *Exec, fr *frame, a []Value) Value {
		aa, bb := a[0].([]Value), a[1].([]Value)
		if x.truth(x.bytesEq(aa, bb)) {
			return uint64(0)
		}
		if x.truth(x.bytesLess(aa, bb, false)) {
			return norm(uint64(0xffffffffffffffff), 64)
		}
		return uint64(1)
	}
	n["internal/bytealg.Count"] = func(x *Exec, fr *frame, a []Value) Value { return x.countByte(a[0].([]Value), a[1]) }
	n["internal/bytealg.CountString"] = func(x *Exec, fr *frame, a []Value) Value { return x.countByte(strBytes(a[0]), a[1]) }
	n["internal/bytealg.MakeNoZero"] = func(x *Exec, fr *frame, a []Value) Value {
		k := x.goInt(a[0], "MakeNoZero len")
		out := make([]Value, k)
		for i := range out {
			out[i] = uint64(0)
		}
		return out
	}
	n["internal/bytealg.LastIndexByteString"] = func(x *Exec, fr *frame, a []Value) Value {
		b := strBytes(a[0])
		for i := len(b) - 1; i >= 0; i-- {
			if x.truth(x.scalarEq(b[i], a[1], 8)) {
				return uint64(i)
			}
		}
		return norm(^uint64(0), 64)
	}
	n["internal/bytealg.IndexString"] = func(x *Exec, fr *frame, a []Value) Value {
		s, sep := strBytes(a[0]), strBytes(a[1])
		for i := 0; i+len(sep) <= len(s); i++ {
			if x.truth(x.bytesEq(s[i:i+len(sep)], sep)) {
				return uint64(i)
			}
		}
		return norm(^uint64(0), 64)
	}
	n["internal/bytealg.Index"] = func(x *Exec, fr *frame, a []Value) Value {
		s, sep := a[0].([]Value), a[1].([]Value)
		for i := 0; i+len(sep) <= len(s); i++ {
			if x.truth(x.bytesEq(s[i:i+len(sep)], sep)) {
				return uint64(i)
			}
		}
		return norm(^uint64(0), 64)
	}
	n["internal/stringslite.Index"] = n["internal/bytealg.IndexString"]
	n["strings.Index"] = n["internal/bytealg.IndexString"]
	n["strings.IndexByte"] = n["internal/bytealg.IndexByteString"]
	n["bytes.IndexByte"] = n["internal/bytealg.IndexByte"]
	n["internal/abi.NoEscape"] = func(x *Exec, fr *frame, a []Value) Value { return a[0] }
	n["internal/abi.Escape"] = func(x *Exec, fr *frame, a []Value) Value { return a[0] }
	n["runtime.KeepAlive"] = nativeNoop
	n["internal/race.Acquire"] = nativeNoop
	n["internal/race.Release"] = nativeNoop
	n["internal/race.ReleaseMerge"] = nativeNoop
	n["internal/race.Disable"] = nativeNoop
	n["internal/race.Enable"] = nativeNoop
	n["internal/race.Read"] = nativeNoop
	n["internal/race.Write"] = nativeNoop
	n["internal/race.ReadRange"] = nativeNoop
	n["internal/race.WriteRange"] = nativeNoop

	// ---- unique
	n["unique.Make"] = func(x *Exec, fr *frame, a []Value) Value {
		hk, ok := hashKey(a[0])
		if !ok {
			x.unsupported("unique.Make of a symbolic value")
		}
		key := fmt.Sprintf("unique:%s:%v", fr.fn.String(), hk)
		if p, ok := x.ghost[key]; ok {
			return Struct{p}
		}
		cell := new(Value)
		*cell = copyVal(a[0])
		x.ghost[key] = cell
		return Struct{cell}
	}

	// ---- math
	n["math.archCeil"] = func(x *Exec, fr *frame, a []Value) Value { return math.Ceil(a[0].(float64)) }
	n["math.archFloor"] = func(x *Exec, fr *frame, a []Value) Value { return math.Floor(a[0].(float64)) }
	n["math.archTrunc"] = func(x *Exec, fr *frame, a []Value) Value { return math.Trunc(a[0].(float64)) }
	n["math.archSqrt"] = func(x *Exec, fr *frame, a []Value) Value { return math.Sqrt(a[0].(float64)) }
	n["math.Ceil"] = n["math.archCeil"]
	n["math.Floor"] = n["math.archFloor"]
	n["math.Float64bits"] = func(x *Exec, fr *frame, a []Value) Value { return math.Float64bits(a[0].(float64)) }
	n["math.Float64frombits"] = func(x *Exec, fr *frame, a []Value) Value {
		return math.Float64frombits(x.concreteInt(a[0], "Float64frombits"))
	}
	n["math.Float32bits"] = func(x *Exec, fr *frame, a []Value) Value {
		return uint64(math.Float32bits(float32(a[0].(float64))))
	}

	// ---- runtime/debug, runtime
	n["runtime/debug.Stack"] = func(x *Exec, fr *frame, a []Value) Value { return []Value{} }
	n["runtime.Callers"] = func(x *Exec, fr *frame, a []Value) Value { return uint64(0) }
	n["runtime.Gosched"] = nativeNoop
	n["runtime.GOMAXPROCS"] = func(x *Exec, fr *frame, a []Value) Value { return uint64(1) }
	n["runtime.NumCPU"] = func(x *Exec, fr *frame, a []Value) Value { return uint64(1) }

	registerTimeNatives(e)
	registerStringNatives(e)
	for _, f := range extraNatives {
		f(e)
	}
}

var errorIface = types.Universe.Lookup("error").Type().Underlying().(*types.Interface)

// ---- assertions ---------------------------------------------------------------------------------

func (x *Exec) assert(clause string, cond Value) {
	switch c := cond.(type) {
	case bool:
		if c {
			x.asserts = append(x.asserts, assertRec{clause, "trivial"})
			return
		}
		x.asserts = append(x.asserts, assertRec{clause, "VIOLATED"})
		if v := x.buildViolation(clause, "assert", "assertion is false on this path", nil); v != nil {
			x.violation = append(x.violation, v)
		}
		x.end(endAssertStop, "assertion %s failed", clause)
	case *Term:
		neg := x.st.Not(c)
		r := x.check(neg, false)
		switch r {
		case Unsat:
			x.asserts = append(x.asserts, assertRec{clause, "unsat"})
			return
		case Unknown:
			x.asserts = append(x.asserts, assertRec{clause, "unknown"})
			x.inconclusive = append(x.inconclusive, "solver returned unknown for assertion "+clause)
			return
		}
		x.asserts = append(x.asserts, assertRec{clause, "VIOLATED"})
		if v := x.buildViolation(clause, "assert", "assertion can be false", neg); v != nil {
			x.violation = append(x.violation, v)
		}
		// continue on the part of the path where the assertion holds, if any
		if x.check(c, false) != Sat {
			x.end(endAssertStop, "assertion %s fails on the whole path", clause)
		}
		x.addPC(c)
	default:
		panic("assert: condition is not a bool")
	}
}

// ---- observation --------------------------------------------------------------------------------

func (x *Exec) obsValue(it Iface) obsVal {
	if it.t == nil {
		return obsVal{Kind: "nil"}
	}
	t := it.t
	if w, signed, ok := intInfo(t); ok {
		k := "uint"
		if signed {
			k = "int"
		}
		return obsVal{Kind: k, W: w, Sgn: signed, Sc: it.v}
	}
	if isBoolT(t) {
		return obsVal{Kind: "bool", W: 0, Sc: it.v}
	}
	if isStringT(t) {
		return obsVal{Kind: "bytes", Bs: strBytes(it.v)}
	}
	switch u := t.Underlying().(type) {
	case *types.Slice:
		if b, ok := u.Elem().Underlying().(*types.Basic); ok && b.Kind() == types.Uint8 {
			return obsVal{Kind: "bytes", Bs: append([]Value{}, it.v.([]Value)...)}
		}
	case *types.Array:
		if b, ok := u.Elem().Underlying().(*types.Basic); ok && b.Kind() == types.Uint8 {
			return obsVal{Kind: "bytes", Bs: append([]Value{}, []Value(it.v.(Array))...)}
		}
	case *types.Pointer, *types.Interface, *types.Map, *types.Signature, *types.Chan:
		isNil, _ := isNilValue(it.v)
		if isNil {
			return obsVal{Kind: "nil"}
		}
		return obsVal{Kind: "nonnil"}
	}
	if types.Implements(t, errorIface) {
		return obsVal{Kind: "nonnil"}
	}
	x.unsupported("verif.Observe of a value of type %s", t)
	return obsVal{}
}

// ---- uninterpreted functions --------------------------------------------------------------------

func (x *Exec) applyUF(name string, outN int, in []Value) Value {
	if outN <= 0 || outN > 64 {
		x.unsupported("UF output size %d", outN)
	}
	var arg *Term
	for _, b := range in {
		t := x.toTerm(b, 8)
		if arg == nil {
			arg = t
		} else {
			arg = x.st.Concat(arg, t)
		}
	}
	full := fmt.Sprintf("%s_len%d", name, len(in))
	var res *Term
	if arg == nil {
		res = x.st.UF(full, uint16(8*outN))
	} else {
		res = x.st.UF(full, uint16(8*outN), arg)
	}
	out := make([]Value, outN)
	for i := 0; i < outN; i++ {
		hi := uint16(8*(outN-i) - 1)
		out[i] = fromTerm(x.st.Extract(res, hi, hi-7))
	}
	return out
}

// flushInjectivity adds the collision-freeness instances for UF families declared injective.
func (x *Exec) flushInjectivity() {
	for fam, trunc := range x.injective {
		// all applications of all UFs of the family (any input length)
		var apps []*Term
		names := []string{}
		for name := range x.st.ufApps {
			if strings.HasPrefix(name, fam+"_len") {
				names = append(names, name)
			}
		}
		sortStrings(names)
		for _, name := range names {
			apps = append(apps, x.st.ufApps[name]...)
		}
		done := x.injDone[fam]
		if len(apps) == done {
			continue
		}
		// pairs (i,j) with j >= done
		sortTermsByID(apps)
		for j := 0; j < len(apps); j++ {
			for i := 0; i < j; i++ {
				if i < done && j < done {
					continue
				}
				a, b := apps[i], apps[j]
				oa, ob := a, b
				if trunc > 0 && uint16(8*trunc) < a.w {
					oa = x.st.Extract(a, a.w-1, a.w-uint16(8*trunc))
					ob = x.st.Extract(b, b.w-1, b.w-uint16(8*trunc))
				}
				eqOut := x.st.Eq(oa, ob)
				var eqIn *Term
				if a.name != b.name || len(a.args) != len(b.args) {
					eqIn = x.st.Bool(false)
				} else {
					eqIn = x.st.Bool(true)
					for k := range a.args {
						eqIn = x.st.And(eqIn, x.st.Eq(a.args[k], b.args[k]))
					}
				}
				ax := x.st.Implies(eqOut, eqIn)
				if ax.op != OpConst {
					x.pc = append(x.pc, ax)
					x.model = nil
				}
			}
		}
		x.injDone[fam] = len(apps)
	}
}

func sortStrings(s []string) {
	for i := 1; i < len(s); i++ {
		for j := i; j > 0 && s[j] < s[j-1]; j-- {
			s[j], s[j-1] = s[j-1], s[j]
		}
	}
}

func sortTermsByID(s []*Term) {
	for i := 1; i < len(s); i++ {
		for j := i; j > 0 && s[j].id < s[j-1].id; j-- {
			s[j], s[j-1] = s[j-1], s[j]
		}
	}
}

// ---- errors -------------------------------------------------------------------------------------

func (x *Exec) mkError(msg Value) Value {
	f := x.eng.fn("errors", "New")
	return x.call(nil, f, []Value{msg})
}

func (x *Exec) mkWrapError(msg Value, inner Iface) Value {
	pkg := x.eng.pkgs["fmt"]
	tn := pkg.Type("wrapError")
	var cell Value = Struct{msg, inner}
	return Iface{t: types.NewPointer(tn.Type()), v: &cell}
}

func (e *Engine) fn(pkg, name string) *ssa.Function {
	p := e.pkgs[pkg]
	if p == nil {
		panic("package not loaded: " + pkg)
	}
	f := p.Func(name)
	if f == nil {
		panic("function not found: " + pkg + "." + name)
	}
	return f
}

func (e *Engine) methodByName(t types.Type, name string) *ssa.Function {
	e.buildMu.Lock()
	defer e.buildMu.Unlock()
	ms := e.prog.MethodSets.MethodSet(t)
	for i := 0; i < ms.Len(); i++ {
		sel := ms.At(i)
		if sel.Obj().Name() == name {
			return e.prog.MethodValue(sel)
		}
	}
	return nil
}

func (x *Exec) errorsIs(err, target Iface, depth int) Value {
	if depth > 50 {
		x.unsupported("errors.Is: chain too deep")
	}
	if err.t == nil || target.t == nil {
		return err.t == nil && target.t == nil
	}
	if types.Comparable(target.t) && types.Identical(err.t, target.t) {
		if x.truth(x.equals(err.t, err.v, target.v)) {
			return true
		}
	}
	if m := x.eng.methodByName(err.t, "Is"); m != nil && m.Signature.Params().Len() == 1 {
		if r := x.call(nil, m, []Value{err.v, target}); x.truth(r) {
			return true
		}
	}
	if m := x.eng.methodByName(err.t, "Unwrap"); m != nil && m.Signature.Results().Len() == 1 {
		r := x.call(nil, m, []Value{err.v})
		switch rv := r.(type) {
		case Iface:
			if rv.t == nil {
				return false
			}
			return x.errorsIs(rv, target, depth+1)
		case []Value:
			for _, e := range rv {
				ei := e.(Iface)
				if ei.t == nil {
					continue
				}
				if x.truth(x.errorsIs(ei, target, depth+1)) {
					return true
				}
			}
		}
	}
	return false
}

func (x *Exec) errorsAs(err, target Iface, depth int) Value {
	if depth > 50 {
		x.unsupported("errors.As: chain too deep")
	}
	if target.t == nil {
		x.tpanic("errors: target cannot be nil")
	}
	pt, ok := target.t.Underlying().(*types.Pointer)
	if !ok {
		x.tpanic("errors: target must be a non-nil pointer")
	}
	if err.t == nil {
		return false
	}
	tt := pt.Elem()
	if it, isI := tt.Underlying().(*types.Interface); isI {
		if types.Implements(err.t, it) {
			x.store(tt, target.v.(*Value), err)
			return true
		}
	} else if types.Identical(err.t, tt) {
		x.store(tt, target.v.(*Value), err.v)
		return true
	}
	if m := x.eng.methodByName(err.t, "Unwrap"); m != nil && m.Signature.Results().Len() == 1 {
		r := x.call(nil, m, []Value{err.v})
		switch rv := r.(type) {
		case Iface:
			if rv.t == nil {
				return false
			}
			return x.errorsAs(rv, target, depth+1)
		case []Value:
			for _, e := range rv {
				ei := e.(Iface)
				if ei.t == nil {
					continue
				}
				if x.truth(x.errorsAs(ei, target, depth+1)) {
					return true
				}
			}
		}
	}
	return false
}

// ---- fmt ----------------------------------------------------------------------------------------

func (x *Exec) fmtValue(it Iface) string {
	if it.t == nil {
		return "<nil>"
	}
	switch v := it.v.(type) {
	case string:
		return v
	case uint64:
		if w, signed, ok := intInfo(it.t); ok && signed {
			return fmt.Sprintf("%d", sext64(v, w))
		}
		return fmt.Sprintf("%d", v)
	case bool, float64:
		return fmt.Sprintf("%v", v)
	case *Term, *SymStr:
		return "<sym>"
	}
	return "<" + it.t.String() + ">"
}

// ---- bytealg helpers ----------------------------------------------------------------------------

func (x *Exec) indexByte(b []Value, c Value) Value {
	for i := range b {
		if x.truth(x.scalarEq(b[i], c, 8)) {
			return uint64(i)
		}
	}
	return norm(^uint64(0), 64)
}

func (x *Exec) countByte(b []Value, c Value) Value {
	var cnt Value = uint64(0)
	for i := range b {
		eq := x.scalarEq(b[i], c, 8)
		switch e := eq.(type) {
		case bool:
			if e {
				cnt = x.binop(tokenADD, types.Typ[types.Int], types.Typ[types.Int], cnt, uint64(1))
			}
		case *Term:
			cnt = x.binop(tokenADD, types.Typ[types.Int], types.Typ[types.Int], cnt, fromTerm(x.st.BoolToBV(e, 64)))
		}
	}
	return cnt
}

// ---- sync events (lock tracking for the lockset argument) -----------------------------------------

type syncEv struct {
	Op  string
	Obj *Value
}

func (x *Exec) syncEvent(op string, recv Value) {
	p, _ := recv.(*Value)
	x.syncLog = append(x.syncLog, syncEv{op, p})
}
