package main

// Normal form for sums (spec option "term_opts": ["linsum"]).
//
// A sum is kept as a left-nested chain ((x1 + x2) + x3) + ... + xn [+ const] whose addends
// ("atoms": any non-add, non-constant term) are ordered by term id, the constant last. Two sums
// over the same atoms therefore become the same hash-consed term whatever order and association
// the program used (C20: the code under test adds the pseudo-header fields in another order than
// the reference). In addition a 64-bit sum whose value provably fits in 32 bits (ubound) is
// computed in 32 bits and zero-extended, so that a reference accumulating in uint64 meets code
// accumulating in uint32. Both rewrites are semantics-preserving; they are optional only to keep
// the query shapes of other checks unchanged.

var optLinSum, optBoundLemmas bool

// Optional feature sets. Each was developed and validated for particular checks; they are opt-in per
// spec ("term_opts") so that one check's rewrites cannot change another check's solver behaviour.
var (
	optAffine     bool // affine.go: division/comparison rewrites of k*x+c (C22, C23)
	optTermDiv    bool // term_div.go: (x*A) div/rem B and product comparisons (C28-C30)
	optState1Time bool // natives_state1_time.go: (time.Time).Add/Sub/UnixNano in the sec/nsec domain (C31, C48)
	optTrust2Time bool // natives_trust2.go: division-free (time.Time).Sub (C34-C36, C38)
	optPathsTime  bool // natives_paths.go: branch-free (time.Time).After/Before/Equal (C28-C30, walk checks)
	optPathsTime2 bool // natives_paths2.go Add/Unix/Nanosecond intrinsics and the smt.go timeout/fall-back order (C28-C30 only)
)

// defaultTermOpts: the feature sets each property's check was built with.
func defaultTermOpts(property string) []string {
	switch property {
	case "C22", "C23":
		return []string{"affine"}
	case "C28", "C29", "C30":
		return []string{"termdiv", "pathstime", "pathstime2"}
	case "C31", "C48":
		return []string{"state1time"}
	case "C34", "C35", "C36", "C38":
		return []string{"trust2time"}
	}
	return nil
}

func setTermOpts(opts []string) {
	optLinSum, optBoundLemmas, optSumAbs = false, false, false
	optAffine, optTermDiv, optState1Time, optTrust2Time, optPathsTime, optPathsTime2 = false, false, false, false, false, false
	optQuotVar, optZ3New = false, false // natives_epic.go
	for _, o := range opts {
		switch o {
		case "affine":
			optAffine = true
		case "termdiv":
			optTermDiv = true
		case "state1time":
			optState1Time = true
		case "trust2time":
			optTrust2Time = true
		case "pathstime":
			optPathsTime = true
		case "pathstime2":
			optPathsTime2 = true
		case "linsum":
			optLinSum = true
		case "boundlemmas":
			optBoundLemmas = true
		case "sumabs":
			optSumAbs = true
		case "quotvar":
			optQuotVar = true
		case "z3new":
			optZ3New = true
		}
	}
}

func (s *Store) mkAdd(a, b *Term) *Term {
	return s.mk(OpBvAdd, a.w, 0, "", []*Term{a, b})
}

// splitConst separates a trailing constant addend.
func splitConst(t *Term) (*Term, uint64) {
	if t.op == OpConst {
		return nil, t.c
	}
	if t.op == OpBvAdd && t.args[1].op == OpConst {
		return t.args[0], t.args[1].c
	}
	return t, 0
}

// insAtom inserts the atom x into the constant-free chain t.
func (s *Store) insAtom(t, x *Term) *Term {
	if t.op != OpBvAdd {
		if t.id <= x.id {
			return s.mkAdd(t, x)
		}
		return s.mkAdd(x, t)
	}
	last := t.args[1]
	if last.op == OpBvAdd || last.op == OpConst {
		// not in normal form (built before the option was set): flatten it
		return s.insAtom(s.addChains(t.args[0], last), x)
	}
	if last.id <= x.id {
		return s.mkAdd(t, x)
	}
	return s.mkAdd(s.insAtom(t.args[0], x), last)
}

// addChains adds two constant-free chains (either may be nil = empty).
func (s *Store) addChains(a, b *Term) *Term {
	if a == nil {
		return b
	}
	if b == nil {
		return a
	}
	for b.op == OpBvAdd {
		// peel b's atoms from the right (largest first keeps insertions cheap on average)
		var atoms []*Term
		for b.op == OpBvAdd {
			atoms = append(atoms, b.args[1])
			b = b.args[0]
		}
		atoms = append(atoms, b)
		for i := len(atoms) - 1; i >= 0; i-- {
			x := atoms[i]
			if x.op == OpBvAdd {
				a = s.addChains(a, x)
			} else {
				a = s.insAtom(a, x)
			}
		}
		return a
	}
	return s.insAtom(a, b)
}

// linAdd is called by Bin for OpBvAdd when the option is on (a, b not both constant).
func (s *Store) linAdd(a, b *Term) *Term {
	w := a.w
	if w == 64 {
		ua, ub := s.ubound(a), s.ubound(b)
		if ua <= 0xffffffff && ub <= 0xffffffff && ua+ub <= 0xffffffff {
			return s.Concat(s.Const(32, 0), s.Bin(OpBvAdd, s.Extract(a, 31, 0), s.Extract(b, 31, 0)))
		}
	}
	ca, x := splitConst(a)
	cb, y := splitConst(b)
	k := (x + y) & mask(w)
	// constants inside the chains (non-normal input) are rare; addChains flattens what it meets
	t := s.addChains(ca, cb)
	if t == nil {
		return s.Const(w, k)
	}
	if k == 0 {
		return t
	}
	return s.mkAdd(t, s.Const(w, k))
}
