package main

// Sum abstraction (spec option "term_opts": ["sumabs"]).
//
// Before a query is sent to the incremental solver, an over-approximation of it is tried in a
// one-shot z3 run: every long adder chain that is shared (used by more than one term, or by a
// non-add term) is replaced by a fresh bit-vector variable constrained only by the chain's
// interval bound (bounds.go). If the abstract query is unsat, the concrete one is unsat as well
// (the abstraction only adds models), and the result is returned. Otherwise the concrete query is
// decided as usual, so satisfiable answers and models always come from the exact formula.
//
// Purpose (C20): "sum + complement of the folded sum folds to 0xFFFF" is a fact about the value of
// the sum, not about how it was put together; a SAT solver that sees the 40..4500 adders behind the
// value wanders off into them.

import (
	"fmt"
	"os"
	"os/exec"
	"regexp"
	"strconv"
	"strings"
	"time"
)

var optSumAbs bool

const sumAbsMinChain = 4

var absValRe = regexp.MustCompile(`\(t(\d+) (#x[0-9a-fA-F]+|#b[01]+)\)`)

// abstractQuery decides pc ∧ extra under sum abstraction. Unsat is definitive. For Sat the
// second result holds assertions fixing the abstracted sums to the values of the abstract
// model: a hint for the exact query (which is still what decides satisfiability).
func (s *Solver) abstractQuery(pc []*Term, extra *Term) (SatResult, string) {
	roots := append([]*Term{}, pc...)
	if extra != nil {
		roots = append(roots, extra)
	}
	// reachable terms in post-order, parent bookkeeping
	type info struct {
		parents    int
		nonAddPar  bool
		chain      int
		abstracted bool
		hasAbs     bool
	}
	inf := map[int]*info{}
	var order []*Term
	var visit func(t *Term)
	visit = func(t *Term) {
		if t.op == OpConst {
			return
		}
		if _, ok := inf[t.id]; ok {
			return
		}
		inf[t.id] = &info{}
		for _, a := range t.args {
			visit(a)
		}
		order = append(order, t)
	}
	for _, r := range roots {
		visit(r)
	}
	for _, t := range order {
		seen := map[int]bool{}
		for _, a := range t.args {
			if a.op == OpConst || seen[a.id] {
				continue
			}
			seen[a.id] = true
			ia := inf[a.id]
			ia.parents++
			if t.op != OpBvAdd {
				ia.nonAddPar = true
			}
		}
	}
	for _, r := range roots {
		if r.op != OpConst {
			inf[r.id].nonAddPar = true
		}
	}
	any := false
	for _, t := range order { // post-order: arguments first
		i := inf[t.id]
		i.chain = 1
		if t.op == OpBvAdd && t.w <= 64 {
			n := 0
			for _, a := range t.args {
				if a.op == OpConst {
					n++
				} else if ia := inf[a.id]; a.op == OpBvAdd && !ia.abstracted {
					n += ia.chain
					i.hasAbs = i.hasAbs || ia.hasAbs
				} else {
					n++
					i.hasAbs = i.hasAbs || ia.abstracted
				}
			}
			i.chain = n
			// a chain that continues an abstracted one stays concrete: its relation to the
			// abstracted value (sum + a few more addends) is what the query is about
			if n >= sumAbsMinChain && !i.hasAbs && (i.parents >= 2 || i.nonAddPar) {
				i.abstracted = true
				any = true
			}
		}
	}
	if !any {
		return Unknown, ""
	}
	// only what is still reachable below the abstracted nodes is printed
	live := map[int]bool{}
	var mark func(t *Term)
	mark = func(t *Term) {
		if t.op == OpConst || live[t.id] {
			return
		}
		live[t.id] = true
		if inf[t.id].abstracted {
			return
		}
		for _, a := range t.args {
			mark(a)
		}
	}
	for _, r := range roots {
		mark(r)
	}
	var sb strings.Builder
	sb.WriteString("(set-logic QF_UFBV)\n")
	declared := map[string]bool{}
	for _, x := range order {
		if !live[x.id] {
			continue
		}
		switch {
		case x.op == OpVar:
			fmt.Fprintf(&sb, "(declare-fun |v!%s| () %s)\n", x.name, sortStr(x.w))
		case inf[x.id].abstracted:
			fmt.Fprintf(&sb, "(declare-fun t%d () %s)\n", x.id, sortStr(x.w))
			if v := s.store.ubound(x); v < mask(x.w) {
				fmt.Fprintf(&sb, "(assert (bvule t%d %s))\n", x.id, constStr(x.w, v))
			}
		case x.op == OpUF:
			if !declared[x.name] {
				declared[x.name] = true
				d := s.store.ufs[x.name]
				sb.WriteString("(declare-fun |" + x.name + "| (")
				for _, w := range d.argw {
					sb.WriteString(sortStr(w) + " ")
				}
				sb.WriteString(") " + sortStr(d.w) + ")\n")
			}
			fmt.Fprintf(&sb, "(define-fun t%d () %s %s)\n", x.id, sortStr(x.w), x.body())
		default:
			fmt.Fprintf(&sb, "(define-fun t%d () %s %s)\n", x.id, sortStr(x.w), x.body())
			sb.WriteString(s.store.boundLemma(x))
		}
	}
	for _, r := range roots {
		if r.op == OpConst {
			if r.c == 0 {
				return Unsat, ""
			}
			continue
		}
		sb.WriteString("(assert " + r.ref() + ")\n")
	}
	sb.WriteString("(check-sat)\n(get-value (")
	for _, x := range order {
		if live[x.id] && inf[x.id].abstracted {
			sb.WriteString(x.ref() + " ")
		}
	}
	sb.WriteString("))\n")
	to := s.timeout
	if to <= 0 || to > 20*time.Second {
		to = 20 * time.Second
	}
	if d := os.Getenv("SYMGO_ABSDUMP"); d != "" {
		os.WriteFile(fmt.Sprintf("%s/abs_%d.smt2", d, s.AbsQueries), []byte(sb.String()), 0o644)
	}
	t0 := time.Now()
	cmd := exec.Command("z3", "-in", "-T:"+strconv.Itoa(int(to/time.Second)+1))
	cmd.Stdin = strings.NewReader(sb.String())
	outB, _ := cmd.CombinedOutput()
	out := strings.TrimSpace(string(outB))
	s.SolveTime += time.Since(t0)
	s.AbsQueries++
	if s.log != nil {
		fmt.Fprintf(s.log, "; ---- sum-abstracted query -> %s (%.2fs)\n", firstLine(strings.ReplaceAll(out, "\n", " "), 200), time.Since(t0).Seconds())
	}
	switch {
	case strings.HasPrefix(out, "unsat"):
		s.AbsUnsat++
		return Unsat, ""
	case strings.HasPrefix(out, "sat"):
		var hb strings.Builder
		for _, m := range absValRe.FindAllStringSubmatch(out, -1) {
			fmt.Fprintf(&hb, "(assert (= t%s %s))\n", m[1], m[2])
		}
		return Sat, hb.String()
	}
	return Unknown, ""
}
