package main

// Intrinsics added for the dispatcher (C44) and hidden-path (C45) checks.

// hasSym reports whether v contains a symbolic scalar (shallow walk through aggregates).
func hasSym(v Value) bool {
	switch v := v.(type) {
	case *Term, *SymStr:
		return true
	case Struct:
		for _, f := range v {
			if hasSym(f) {
				return true
			}
		}
	case Array:
		for _, f := range v {
			if hasSym(f) {
				return true
			}
		}
	case Tuple:
		for _, f := range v {
			if hasSym(f) {
				return true
			}
		}
	}
	return false
}

func init() {
	extraNatives = append(extraNatives, func(e *Engine) {
		// Text renderings of addresses only feed log/error context here. Formatting a symbolic
		// address digit by digit forks on every digit; with a symbolic receiver the rendering is
		// replaced by a fixed placeholder (a concrete receiver is interpreted normally).
		for _, nm := range []string{
			"(net/netip.Addr).String",
			"(net/netip.AddrPort).String",
			"(net/netip.Addr).StringExpanded",
		} {
			e.natives[nm] = func(x *Exec, fr *frame, a []Value) Value {
				if hasSym(a[0]) {
					return "<symbolic-address>"
				}
				return declineNative
			}
		}
	})
}
