package main

// Intrinsics of the "state" group (C48 ring buffer, C31 revocation cache).
//
// Condition variables. No scheduler is modelled (DESIGN 5.4). The model used here:
//   - (*sync.Cond).Wait: the caller releases the lock, the *environment* (other goroutines) runs, the
//     caller re-acquires the lock. The environment step is a harness closure registered with the harness
//     level function verifOnWait(hook); it typically havocs the shared state subject to the representation
//     invariant. Without a registered hook the path ends as "blocked".
//   - Broadcast / Signal release the goroutines the harness has "parked" on the condition variable
//     (verifPark / verifStillParked): Broadcast releases all of them, Signal one.
// Natively the same harness functions use real goroutines and the real sync.Cond (see harness/c48).
//
// Clock. verifClockFreeze(true) makes every following time.Now() return the instant of the last reading
// (one cache operation = one instant); the frozen readings are still recorded as inputs now.sec#k so that
// the native replay (verif.Now) sees the same values.

import (
	"fmt"
	"os"
	"os/exec"
	"path/filepath"
	"strings"
)

const (
	ghostWaitHook  = "state1.waitHook"
	ghostWaitCount = "state1.waitCount"
	ghostFrozen    = "state1.clockFrozen"
	ghostTick      = "state1.clockTick"
	ghostHeld      = "state1.held:"
	ghostParked    = "state1.parked:"
)

// opaqueFloat is the result of converting a symbolic integer to a floating-point type (ops.go conv):
// floats are concrete-only in this engine, but code such as metrics.Set(float64(n)) merely passes the
// value on. Any operation on it fails the path as an engine error (=> inconclusive), never silently.
type opaqueFloat struct{}

// termUB is a conservative structural upper bound (unsigned) of a bit-vector term; used by the bounds
// check of symbolic indices to skip the solver when the index is masked / reduced into range.
func termUB(t *Term) uint64 {
	full := mask(t.w)
	if t.w == 0 || t.w > 64 {
		return ^uint64(0)
	}
	switch t.op {
	case OpConst:
		return t.c
	case OpBvAnd:
		a, b := termUB(t.args[0]), termUB(t.args[1])
		if b < a {
			return b
		}
		return a
	case OpIte:
		a, b := termUB(t.args[1]), termUB(t.args[2])
		if b > a {
			return b
		}
		return a
	case OpConcat:
		if hi := t.args[0]; hi.op == OpConst && hi.c == 0 && t.args[1].w <= 64 {
			return termUB(t.args[1])
		}
	case OpBvAdd:
		a, b := termUB(t.args[0]), termUB(t.args[1])
		if s := a + b; s >= a && s <= full {
			return s
		}
	case OpBvURem:
		if d := t.args[1]; d.op == OpConst && d.c > 0 {
			return d.c - 1
		}
	case OpBvLShr:
		if k := t.args[1]; k.op == OpConst && k.c < 64 {
			return termUB(t.args[0]) >> k.c
		}
	}
	return full
}

// watchHit: a watched cell is accessed; the watched mutex must be held (lockset discipline, checked on
// every explored path). Engine-only clause: it cannot be replayed natively, so it is reported as an
// inconclusive verdict (exit 2) naming the function, never as a pass.
func (x *Exec) watchHit(addr *Value, kind string) {
	if held, _ := x.ghost[heldKey(x.ghost["state1.watchMutex"])].(bool); held {
		k, _ := x.ghost["state1.watchHits"].(uint64)
		x.ghost["state1.watchHits"] = k + 1
		return
	}
	where := "?"
	if n := len(x.cstack); n > 0 {
		where = x.cstack[n-1].String()
	}
	msg := "lock-discipline: " + kind + " of a field of the watched object in " + where + " while its mutex is not held"
	for _, m := range x.inconclusive {
		if m == msg {
			return
		}
	}
	x.inconclusive = append(x.inconclusive, msg)
}

func parkKey(p Value) string {
	c, _ := p.(*Value)
	return fmt.Sprintf("%s%p", ghostParked, c)
}

func heldKey(p Value) string {
	c, _ := p.(*Value)
	return fmt.Sprintf("%s%p", ghostHeld, c)
}

// harnessPkgs are the packages whose harness files may use the verifXxx helper functions below.
var state1HarnessPkgs = []string{
	"github.com/scionproto/scion/private/ringbuf",
	"github.com/scionproto/scion/gateway/dataplane",
	"github.com/scionproto/scion/private/revcache/memrevcache",
}

func init() {
	extraNatives = append(extraNatives, func(e *Engine) {
		n := e.natives
		H := func(name string, f NativeFn) {
			for _, p := range state1HarnessPkgs {
				n[p+"."+name] = f
			}
		}

		// ---- condition variables
		n["(*sync.Cond).Wait"] = func(x *Exec, fr *frame, a []Value) Value {
			x.noSpec("cond wait")
			x.syncEvent("(*sync.Cond).Wait", a[0])
			hook := x.ghost[ghostWaitHook]
			if hook == nil {
				x.end(endBlocked, "sync.Cond.Wait blocks (no environment hook registered, no scheduler modelled)")
			}
			cnt, _ := x.ghost[ghostWaitCount].(uint64)
			x.ghost[ghostWaitCount] = cnt + 1
			if cnt > 64 {
				x.end(endBudget, "more than 64 sync.Cond.Wait calls on one path")
			}
			// the environment (other goroutines, holding the lock themselves) runs: not watched
			saved := x.watch
			x.watch = nil
			x.callValue(fr, 0, hook, nil)
			x.watch = saved
			return nil
		}
		n["(*sync.Cond).Broadcast"] = func(x *Exec, fr *frame, a []Value) Value {
			x.syncEvent("(*sync.Cond).Broadcast", a[0])
			if _, ok := x.ghost[parkKey(a[0])]; ok {
				x.ghost[parkKey(a[0])] = uint64(0)
			}
			return nil
		}
		n["(*sync.Cond).Signal"] = func(x *Exec, fr *frame, a []Value) Value {
			x.syncEvent("(*sync.Cond).Signal", a[0])
			if k, ok := x.ghost[parkKey(a[0])].(uint64); ok && k > 0 {
				x.ghost[parkKey(a[0])] = k - 1
			}
			return nil
		}
		// ---- lock discipline (engine-only clause): verifWatch(obj, mu, on) watches every field cell of the
		// struct *obj except the mutex/cond/metrics plumbing; an access while *mu is not held is reported.
		for _, nm := range []string{"(*sync.Mutex).Lock", "(*sync.Mutex).Unlock"} {
			nm := nm
			n[nm] = func(x *Exec, fr *frame, a []Value) Value {
				x.syncEvent(nm, a[0])
				x.ghost[heldKey(a[0])] = strings.HasSuffix(nm, ".Lock")
				return nil
			}
		}
		H("verifWatch", func(x *Exec, fr *frame, a []Value) Value {
			x.noSpec("verifWatch")
			on, _ := a[2].(bool)
			if !on {
				x.watch = nil
				return nil
			}
			obj, _ := a[0].(*Value)
			st, ok := (*obj).(Struct)
			if !ok {
				x.unsupported("verifWatch: not a struct pointer")
			}
			x.watch = map[*Value]bool{}
			for i := range st {
				switch st[i].(type) {
				case uint64, *Term, bool, []Value:
					x.watch[&st[i]] = true
				}
			}
			x.ghost["state1.watchMutex"] = a[1]
			return nil
		})

		// verifWatchHits() int: number of watched accesses seen so far with the mutex held (vacuity guard).
		H("verifWatchHits", func(x *Exec, fr *frame, a []Value) Value {
			k, _ := x.ghost["state1.watchHits"].(uint64)
			return k
		})

		// verifOnWait(hook func()): registers the environment step run by every following Cond.Wait.
		H("verifOnWait", func(x *Exec, fr *frame, a []Value) Value {
			x.noSpec("verifOnWait")
			x.ghost[ghostWaitHook] = a[len(a)-1]
			x.ghost[ghostWaitCount] = uint64(0)
			return nil
		})
		// verifWaitDone(): the operation under test returned; unregisters the hook.
		H("verifWaitDone", func(x *Exec, fr *frame, a []Value) Value {
			delete(x.ghost, ghostWaitHook)
			return nil
		})
		// verifPark(c *sync.Cond, k int): k goroutines are blocked in c.Wait().
		H("verifPark", func(x *Exec, fr *frame, a []Value) Value {
			x.noSpec("verifPark")
			x.ghost[parkKey(a[0])] = uint64(x.goInt(a[1], "verifPark count"))
			return nil
		})
		// verifStillParked(c *sync.Cond) int: how many of them have not been released yet.
		H("verifStillParked", func(x *Exec, fr *frame, a []Value) Value {
			k, _ := x.ghost[parkKey(a[0])].(uint64)
			return k
		})
		// verifUnpark(c): releases what is left (native goroutine hygiene); no-op for the model.
		H("verifUnpark", func(x *Exec, fr *frame, a []Value) Value {
			delete(x.ghost, parkKey(a[0]))
			return nil
		})

		// ---- ringbuf metrics: the prometheus objects are replaced by the harness' inert stub types
		// (vCounter / vGauge / vObserver of harness/c48), exactly what the harness installs itself.
		n["github.com/scionproto/scion/private/ringbuf/internal/metrics.NewRingbuf"] = func(x *Exec, fr *frame, a []Value) Value {
			hp := x.eng.pkgs["github.com/scionproto/scion/private/ringbuf"]
			if hp == nil || hp.Type("vCounter") == nil || hp.Type("vGauge") == nil || hp.Type("vObserver") == nil {
				// not the C48 harness: the real constructor is interpreted (prometheus is a no-op package)
				return declineNative
			}
			cnt := func() Value { return Iface{t: hp.Type("vCounter").Type(), v: Struct{Iface{}}} }
			gau := func() Value { return Iface{t: hp.Type("vGauge").Type(), v: Struct{Iface{}}} }
			obs := func() Value { return Iface{t: hp.Type("vObserver").Type(), v: Struct{}} }
			return Struct{cnt(), cnt(), cnt(), cnt(), obs(), obs(), gau(), gau()}
		}

		// ---- clock
		n["time.Now"] = func(x *Exec, fr *frame, a []Value) Value {
			x.noSpec("time.Now") // a clock reading is an input: never inside a speculated (if-converted) arm
			fz, _ := x.ghost[ghostFrozen].(bool)
			tick, _ := x.ghost[ghostTick].(bool)
			x.ghost[ghostTick] = false
			if fz && !tick && x.lastNow != nil {
				k := x.nowCount
				x.nowCount++
				suffix := ""
				if k > 0 {
					suffix = fmt.Sprintf("#%d", k)
				}
				x.inputs = append(x.inputs, inputVar{Name: "now.sec" + suffix, T: x.lastNow.sec, Kind: "u64"})
				x.inputs = append(x.inputs, inputVar{Name: "now.nsec" + suffix, T: x.lastNow.nsec, Kind: "u64"})
				ext := x.st.Bin(OpBvAdd, x.lastNow.sec, x.st.Const(64, unixToInternal))
				return Struct{fromTerm(x.lastNow.nsec), fromTerm(ext), (*Value)(nil)}
			}
			return x.nowTime()
		}
		n[verifPkg+".Now"] = n["time.Now"]
		// verifClockFreeze(on bool): while on, time does not advance between clock readings.
		H("verifClockFreeze", func(x *Exec, fr *frame, a []Value) Value {
			x.noSpec("verifClockFreeze")
			on, ok := a[0].(bool)
			if !ok {
				x.unsupported("verifClockFreeze: argument must be concrete")
			}
			x.ghost[ghostFrozen] = on
			return nil
		})
		// verifClockTick(): the next reading is a fresh (later or equal) instant even if the clock is frozen
		// (start of the next operation).
		H("verifClockTick", func(x *Exec, fr *frame, a []Value) Value {
			x.noSpec("verifClockTick")
			x.ghost[ghostTick] = true
			return nil
		})
	})
}

// rewritePath resolves an entry of the spec's replay_rewrite list: repo-relative by default; a leading
// "$GOMODCACHE/" names a file of a dependency module (e.g. zgo.at/zcache), absolute paths are kept.
func rewritePath(f string) string {
	const pre = "$GOMODCACHE/"
	if strings.HasPrefix(f, pre) {
		mc := os.Getenv("GOMODCACHE")
		if mc == "" {
			cmd := exec.Command("go", "env", "GOMODCACHE")
			cmd.Env = goEnv()
			if out, err := cmd.Output(); err == nil {
				mc = strings.TrimSpace(string(out))
			}
		}
		return filepath.Join(mc, strings.TrimPrefix(f, pre))
	}
	if filepath.IsAbs(f) {
		return f
	}
	return filepath.Join(repoDir, f)
}

// rewriteModuleFile handles a replay_rewrite entry "$GOMODCACHE/<module>@<version>/<file>": the module
// directory is copied to tmp, time.Now() in <file> is replaced by verif.Now(), and a go.mod (+go.sum)
// copy with a replace directive is written; the returned arguments (-modfile=...) go to `go test`.
func rewriteModuleFile(f, tmp string) ([]string, error) {
	rel := strings.TrimPrefix(f, "$GOMODCACHE/")
	at := strings.Index(rel, "@")
	if at < 0 {
		return nil, fmt.Errorf("replay_rewrite %s: want $GOMODCACHE/<module>@<version>/<file>", f)
	}
	modPath := rel[:at]
	rest := rel[at+1:]
	sl := strings.Index(rest, "/")
	if sl < 0 {
		return nil, fmt.Errorf("replay_rewrite %s: no file", f)
	}
	version, file := rest[:sl], rest[sl+1:]
	srcDir := rewritePath("$GOMODCACHE/" + modPath + "@" + version)
	dstDir := filepath.Join(tmp, "mod-"+sanitize(modPath))
	err := filepath.Walk(srcDir, func(p string, info os.FileInfo, err error) error {
		if err != nil {
			return err
		}
		r, _ := filepath.Rel(srcDir, p)
		dst := filepath.Join(dstDir, r)
		if info.IsDir() {
			return os.MkdirAll(dst, 0o755)
		}
		if strings.HasSuffix(p, "_test.go") {
			return nil
		}
		b, err := os.ReadFile(p)
		if err != nil {
			return err
		}
		if r == file {
			out, err := rewriteTimeNow(rewriteTimeCalls(string(b)))
			if err != nil {
				return fmt.Errorf("%s: %v", f, err)
			}
			b = []byte(out)
		}
		return os.WriteFile(dst, b, 0o644)
	})
	if err != nil {
		return nil, err
	}
	gomod, err := os.ReadFile(filepath.Join(repoDir, "go.mod"))
	if err != nil {
		return nil, err
	}
	modfile := filepath.Join(tmp, "go.mod")
	if err := os.WriteFile(modfile, append(gomod, []byte("\nreplace "+modPath+" => "+dstDir+"\n")...), 0o644); err != nil {
		return nil, err
	}
	if gosum, err := os.ReadFile(filepath.Join(repoDir, "go.sum")); err == nil {
		os.WriteFile(filepath.Join(tmp, "go.sum"), gosum, 0o644)
	}
	return []string{"-modfile=" + modfile}, nil
}

// rewriteTimeCalls rewrites time.Until(X) / time.Since(X) into expressions over time.Now() so that the
// textual time.Now() -> verif.Now() replacement of the native replay (rewriteTimeNow) covers them too.
func rewriteTimeCalls(src string) string {
	for _, fn := range []string{"time.Until(", "time.Since("} {
		for {
			i := strings.Index(src, fn)
			if i < 0 {
				break
			}
			// find the matching parenthesis
			depth, j := 1, i+len(fn)
			for ; j < len(src) && depth > 0; j++ {
				switch src[j] {
				case '(':
					depth++
				case ')':
					depth--
				}
			}
			if depth != 0 {
				return src
			}
			arg := src[i+len(fn) : j-1]
			var repl string
			if fn == "time.Until(" {
				repl = "(" + arg + ").Sub(time.Now())"
			} else {
				repl = "time.Now().Sub(" + arg + ")"
			}
			src = src[:i] + repl + src[j:]
		}
	}
	return src
}
