package main

// Unsigned upper bounds of bit-vector terms (interval reasoning, upper end only).
//
// Used in two places: (1) Store.maxU consults ubound so that comparisons whose outcome follows
// from value ranges (sums of zero-extended bytes, folded checksums, masked values) are decided
// without a solver query; (2) the solver interface asserts the bound of every bvadd node with a
// non-trivial bound as a redundant lemma, which spares the SAT solver from re-deriving the range
// of a long adder chain by bit-level reasoning (C20: fold loop of the checksum).
//
// Every bound is implied by the term's semantics, so both uses are sound.

import "math/bits"

func (s *Store) ubound(t *Term) uint64 {
	if t.w == 0 || t.w > 64 {
		return ^uint64(0)
	}
	if t.op == OpConst {
		return t.c
	}
	if s.ub == nil {
		s.ub = map[int]uint64{}
	}
	if v, ok := s.ub[t.id]; ok {
		return v
	}
	m := mask(t.w)
	v := m
	switch t.op {
	case OpConcat:
		hi, lo := t.args[0], t.args[1]
		if hi.w <= 64 && lo.w < 64 {
			h := s.ubound(hi)
			l := s.ubound(lo)
			if h <= mask(hi.w) {
				v = h<<lo.w | l // value = hi*2^lw + lo <= h*2^lw + l, and l < 2^lw
			}
		}
	case OpExtract:
		a := t.args[0]
		if a.w <= 64 {
			hi, lo := exHi(t), exLo(t)
			ma := s.ubound(a)
			if hi == a.w-1 || (hi < 63 && ma < uint64(1)<<(hi+1)) {
				if x := ma >> lo; x < v {
					v = x
				}
			}
		}
	case OpBvAdd:
		a, b := s.ubound(t.args[0]), s.ubound(t.args[1])
		if sum, carry := bits.Add64(a, b, 0); carry == 0 && sum <= m {
			v = sum
		}
	case OpBvAnd:
		a, b := s.ubound(t.args[0]), s.ubound(t.args[1])
		if a < b {
			v = a
		} else {
			v = b
		}
	case OpBvOr, OpBvXor:
		a, b := s.ubound(t.args[0]), s.ubound(t.args[1])
		if b > a {
			a = b
		}
		if n := bits.Len64(a); n < 64 {
			v = uint64(1)<<uint(n) - 1
		}
	case OpIte:
		a, b := s.ubound(t.args[1]), s.ubound(t.args[2])
		if b > a {
			a = b
		}
		v = a
	case OpBvURem:
		if b := s.ubound(t.args[1]); b > 0 && t.args[1].op == OpConst {
			v = b - 1
		}
		if a := s.ubound(t.args[0]); a < v {
			v = a
		}
	case OpBvUDiv:
		if t.args[1].op == OpConst && t.args[1].c != 0 {
			v = s.ubound(t.args[0]) / t.args[1].c
		}
	case OpBvLShr:
		v = s.ubound(t.args[0])
	case OpBvMul:
		// product of the operand bounds when it cannot wrap (only with the "termdiv" feature set, so
		// that other checks keep the query shapes they were validated with)
		if optTermDiv {
			a, b := s.ubound(t.args[0]), s.ubound(t.args[1])
			if hi, lo := bits.Mul64(a, b); hi == 0 && lo <= m {
				v = lo
			}
		}
	}
	if v > m {
		v = m
	}
	s.ub[t.id] = v
	return v
}

// boundLemma returns an assertion "t <= ubound(t)" for adder nodes with a non-trivial bound
// (empty string otherwise).
func (s *Store) boundLemma(t *Term) string {
	if !optBoundLemmas || t.op != OpBvAdd || t.w == 0 || t.w > 64 {
		return ""
	}
	v := s.ubound(t)
	if v >= mask(t.w) {
		return ""
	}
	return "(assert (bvule " + t.ref() + " " + constStr(t.w, v) + "))\n"
}
