package main

import "math/bits"

// Division / remainder of a 64-bit term by a constant B without a divider circuit, for dividends of
// the shape x*A (A constant, x small enough that the product stays below 2^63) or ite-trees over such
// terms and constants, when B/gcd(A,B) is a power of two:
//
//	x*A div B = (x*A') >> k          A' = A/g, B/g = 2^k, g = gcd(A,B)
//	x*A rem B = ((x*A') & (2^k-1)) * g
//
// This is exactly the arithmetic of time.Time.Add(ExpTimeToDuration(e)): (e+1)*337.5e9 ns split into
// seconds and nanoseconds. Signed and unsigned operators agree because all values are in [0, 2^63).

func pGcd64(a, b uint64) uint64 {
	for b != 0 {
		a, b = b, a%b
	}
	return a
}

// boundU is an upper bound of the unsigned value of t (more cases than maxU: add, mul).
func (s *Store) boundU(t *Term, depth int) (uint64, bool) {
	if t.w > 64 || t.w == 0 {
		return 0, false
	}
	if depth > 8 {
		return mask(t.w), true
	}
	switch t.op {
	case OpBvAdd:
		a, oka := s.boundU(t.args[0], depth+1)
		b, okb := s.boundU(t.args[1], depth+1)
		if oka && okb {
			if sum, carry := bits.Add64(a, b, 0); carry == 0 && sum <= mask(t.w) {
				return sum, true
			}
		}
		return mask(t.w), true
	case OpBvMul:
		a, oka := s.boundU(t.args[0], depth+1)
		b, okb := s.boundU(t.args[1], depth+1)
		if oka && okb {
			if hi, lo := bits.Mul64(a, b); hi == 0 && lo <= mask(t.w) {
				return lo, true
			}
		}
		return mask(t.w), true
	case OpIte:
		a, oka := s.boundU(t.args[1], depth+1)
		b, okb := s.boundU(t.args[2], depth+1)
		if oka && okb {
			if a > b {
				return a, true
			}
			return b, true
		}
		return mask(t.w), true
	}
	return s.maxU(t)
}

func (s *Store) divRemConst(op Op, a *Term, B uint64, depth int) *Term {
	if B == 0 || B >= 1<<63 || depth > 12 {
		return nil
	}
	rem := op == OpBvURem || op == OpBvSRem
	switch a.op {
	case OpConst:
		if a.c >= 1<<63 {
			return nil
		}
		if rem {
			return s.Const(64, a.c%B)
		}
		return s.Const(64, a.c/B)
	case OpIte:
		if depth == 0 {
			// only worth distributing when the leaves simplify
		}
		x := s.divRemConst(op, a.args[1], B, depth+1)
		if x == nil {
			return nil
		}
		y := s.divRemConst(op, a.args[2], B, depth+1)
		if y == nil {
			return nil
		}
		return s.Ite(a.args[0], x, y)
	case OpBvMul:
		x, c := a.args[0], a.args[1]
		if c.op != OpConst {
			x, c = c, x
		}
		if c.op != OpConst || c.c == 0 {
			return nil
		}
		A := c.c
		bx, ok := s.boundU(x, 0)
		if !ok {
			return nil
		}
		if hi, lo := bits.Mul64(bx, A); hi != 0 || lo >= 1<<63 {
			return nil
		}
		g := pGcd64(A, B)
		A2, B2 := A/g, B/g
		if bits.OnesCount64(B2) != 1 {
			return nil
		}
		k := uint64(bits.TrailingZeros64(B2))
		y := s.Bin(OpBvMul, x, s.Const(64, A2))
		if rem {
			return s.Bin(OpBvMul, s.Bin(OpBvAnd, y, s.Const(64, B2-1)), s.Const(64, g))
		}
		return s.Bin(OpBvLShr, y, s.Const(64, k))
	}
	return nil
}

// mulConst recognises x*A with a positive constant A whose product provably does not wrap.
func (s *Store) mulConst(t *Term) (x *Term, A uint64, ok bool) {
	if t.op != OpBvMul || t.w > 64 {
		return nil, 0, false
	}
	x, c := t.args[0], t.args[1]
	if c.op != OpConst {
		x, c = c, x
	}
	if c.op != OpConst || c.c == 0 {
		return nil, 0, false
	}
	bx, okb := s.boundU(x, 0)
	if !okb {
		return nil, 0, false
	}
	if hi, lo := bits.Mul64(bx, c.c); hi != 0 || lo > mask(t.w) {
		return nil, 0, false
	}
	return x, c.c, true
}

// cmpMulConst simplifies unsigned comparisons x*A ~ y*A and x*A ~ C (A, C constants, no wrap).
func (s *Store) cmpMulConst(op Op, a, b *Term) *Term {
	if a.op == OpIte || b.op == OpIte {
		return s.cmpIteLeaves(op, a, b, 0)
	}
	xa, A, okA := s.mulConst(a)
	xb, B, okB := s.mulConst(b)
	w := a.w
	ceilDiv := func(c, d uint64) uint64 {
		q := c / d
		if c%d != 0 {
			q++
		}
		return q
	}
	switch {
	case okA && okB && A == B:
		return s.Cmp(op, xa, xb)
	case okA && b.op == OpConst:
		// x*A < C  <=>  x < ceil(C/A);  x*A <= C  <=>  x <= floor(C/A)
		if op == OpUlt {
			return s.Cmp(OpUlt, xa, s.Const(w, ceilDiv(b.c, A)))
		}
		return s.Cmp(OpUle, xa, s.Const(w, b.c/A))
	case okB && a.op == OpConst:
		// C < x*B  <=>  floor(C/B) < x;  C <= x*B  <=>  ceil(C/B) <= x
		if op == OpUlt {
			return s.Cmp(OpUlt, s.Const(w, a.c/B), xb)
		}
		return s.Cmp(OpUle, s.Const(w, ceilDiv(a.c, B)), xb)
	}
	return nil
}

// cmpIteLeaves distributes an unsigned comparison over ite-trees whose leaves are constants or
// non-wrapping constant multiples (min/max chains of such values), when every leaf comparison
// simplifies.
func (s *Store) cmpIteLeaves(op Op, a, b *Term, depth int) *Term {
	if depth > 6 {
		return nil
	}
	leaf := func(t *Term) bool {
		if t.op == OpConst {
			return true
		}
		_, _, ok := s.mulConst(t)
		return ok
	}
	switch {
	case a.op == OpIte:
		l := s.cmpIteLeaves(op, a.args[1], b, depth+1)
		if l == nil {
			return nil
		}
		r := s.cmpIteLeaves(op, a.args[2], b, depth+1)
		if r == nil {
			return nil
		}
		return s.Ite(a.args[0], l, r)
	case b.op == OpIte:
		l := s.cmpIteLeaves(op, a, b.args[1], depth+1)
		if l == nil {
			return nil
		}
		r := s.cmpIteLeaves(op, a, b.args[2], depth+1)
		if r == nil {
			return nil
		}
		return s.Ite(b.args[0], l, r)
	case leaf(a) && leaf(b):
		if a.op == OpConst && b.op == OpConst {
			return s.Cmp(op, a, b)
		}
		return s.cmpMulConst(op, a, b)
	}
	return nil
}
