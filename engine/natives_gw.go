package main

import (
	"hash/crc64"
	"os"
	"runtime/pprof"
	"strconv"
	"strings"
	"time"
)

// Intrinsics and helpers added for the gateway group (C41, C14).



func init() {
	// development aid: SYMGO_CPUPROFILE=file[,seconds] profiles the engine for the given time
	if v := os.Getenv("SYMGO_CPUPROFILE"); v != "" {
		parts := strings.SplitN(v, ",", 3)
		secs, start := 60, 0
		if len(parts) >= 2 {
			secs, _ = strconv.Atoi(parts[1])
		}
		if len(parts) == 3 {
			start, _ = strconv.Atoi(parts[2])
		}
		if f, err := os.Create(parts[0]); err == nil {
			go func() {
				time.Sleep(time.Duration(start) * time.Second)
				pprof.StartCPUProfile(f)
				time.Sleep(time.Duration(secs) * time.Second)
				pprof.StopCPUProfile()
				f.Close()
			}()
		}
	}
	extraNatives = append(extraNatives, func(e *Engine) {
		// hash/crc64.MakeTable: computed natively (exact); interpreting it costs ~90k steps in the
		// package initialiser of gateway/dataplane on every path.
		e.natives["hash/crc64.MakeTable"] = func(x *Exec, fr *frame, a []Value) Value {
			poly, ok := a[0].(uint64)
			if !ok {
				return declineNative
			}
			t := crc64.MakeTable(poly)
			arr := make(Array, 256)
			for i := range arr {
				arr[i] = t[i]
			}
			var cell Value = arr
			return &cell
		}
	})
}
