package main

// Return-value merging for side-effect-free functions (opt-in per check: spec field "merge_funcs").
//
// Predicates such as `if a != 0 && b != a { return false } ... return true` are not diamonds, so
// visitIf would fork at every test and a caller that applies the predicate n times explores
// k^n paths for what is one boolean. For a function named in merge_funcs, a symbolic `If` is
// handled by running BOTH successors speculatively up to the function's return and returning
// ite(cond, resultT, resultF). This is only done when neither run needs a decision, can panic,
// reaches something unsupported (all of these abort a speculation) or writes memory; otherwise
// everything is rolled back and the ordinary fork happens. Nested symbolic tests inside the runs
// are handled the same way (or by diamond if-conversion).

import (
	"fmt"
	"go/types"
	"os"

	"golang.org/x/tools/go/ssa"
)

// mergeLog (SYMGO_MERGELOG=1) reports why a merge was abandoned (debugging aid).
var mergeLog = os.Getenv("SYMGO_MERGELOG") != ""

func (x *Exec) mergeReturns(fr *frame, instr *ssa.If, c *Term) bool {
	if fr.defers != nil || fr.fn.Recover != nil {
		return false
	}
	res := fr.fn.Signature.Results()
	if res.Len() == 0 {
		return false
	}
	blk := instr.Block()
	envSnap := make(map[ssa.Value]Value, len(fr.env))
	for k, v := range fr.env {
		envSnap[k] = v
	}
	steps := x.steps
	depth := fr.depth
	restore := func() {
		for k := range fr.env {
			delete(fr.env, k)
		}
		for k, v := range envSnap {
			fr.env[k] = v
		}
		fr.block, fr.prevBlock = blk, nil
		fr.result = nil
		fr.skipPhis = false
		x.depth = depth
		x.cstack = x.cstack[:depth]
	}
	prevBlock := fr.prevBlock
	runArm := func(succ int) (result Value, ok bool) {
		sp := &specState{parent: x.spec}
		x.spec = sp
		defer func() {
			x.spec = sp.parent
			r := recover()
			for i := len(sp.log) - 1; i >= 0; i-- {
				*sp.log[i].addr = sp.log[i].old
			}
			if r != nil {
				if sa, is := r.(specAbort); is {
					if mergeLog {
						fmt.Fprintf(os.Stderr, "merge of %s abandoned: %s\n", fr.fn, sa.why)
					}
					ok = false
					return
				}
				panic(r)
			}
			for _, u := range sp.log {
				if !sp.fresh[u.addr] {
					// the run wrote memory that outlives it: not a pure function tail
					if mergeLog {
						fmt.Fprintf(os.Stderr, "merge of %s abandoned: write to non-local memory (type %v, old %s)\n", fr.fn, u.t, valString(u.old))
					}
					ok = false
					break
				}
			}
		}()
		fr.prevBlock, fr.block = blk, blk.Succs[succ]
		for fr.block != nil {
			x.runFrame(fr)
		}
		return fr.result, true
	}
	rT, ok := runArm(0)
	if !ok {
		restore()
		fr.prevBlock = prevBlock
		x.steps = steps
		return false
	}
	restore()
	rF, ok := runArm(1)
	if !ok {
		restore()
		fr.prevBlock = prevBlock
		x.steps = steps
		return false
	}
	var merged Value
	if res.Len() == 1 {
		m, ok := x.mergeResult(c, rT, rF, res.At(0).Type())
		if !ok {
			restore()
			fr.prevBlock = prevBlock
			x.steps = steps
			return false
		}
		merged = m
	} else {
		tT, okT := rT.(Tuple)
		tF, okF := rF.(Tuple)
		if !okT || !okF || len(tT) != res.Len() || len(tF) != res.Len() {
			restore()
			fr.prevBlock = prevBlock
			x.steps = steps
			return false
		}
		out := make(Tuple, res.Len())
		for i := range out {
			m, ok := x.mergeResult(c, tT[i], tF[i], res.At(i).Type())
			if !ok {
				restore()
				fr.prevBlock = prevBlock
				x.steps = steps
				return false
			}
			out[i] = m
		}
		merged = out
	}
	x.depth = depth
	x.cstack = x.cstack[:depth]
	fr.result = merged
	fr.block = nil
	x.ifconv++
	return true
}

// noteFresh records a cell (and the cells of the aggregate stored in it) as allocated inside this
// speculation: writes to such cells (locals of callees, fresh heap objects) do not outlive the run.
func (sp *specState) noteFresh(cell *Value) {
	if sp.fresh == nil {
		sp.fresh = map[*Value]bool{}
	}
	if len(sp.fresh) > 1<<14 {
		return
	}
	sp.fresh[cell] = true
	switch v := (*cell).(type) {
	case Struct:
		for i := range v {
			sp.noteFresh(&v[i])
		}
	case Array:
		if len(v) <= 256 {
			for i := range v {
				sp.noteFresh(&v[i])
			}
		}
	}
}

func (x *Exec) mergeResult(c *Term, vt, vf Value, t types.Type) (Value, bool) {
	if _, _, isInt := intInfo(t); isInt || isBoolT(t) {
		return x.mergeScalar(c, vt, vf, t)
	}
	// other types only when both runs return the identical value
	return x.mergeScalar(c, vt, vf, nil)
}
