package main

// Intrinsics and helpers added for the trust checks (C34, C35, C36, C38).

import (
	"strings"
)

func (e *Engine) isNoopPkg(p string) bool {
	for _, pre := range e.noopPkgs {
		if p == pre || strings.HasPrefix(p, pre+"/") {
			return true
		}
	}
	return false
}
