package main

// Intrinsics and helpers added for the trust checks (C34, C35, C36, C38).



func init() {
	extraNatives = append(extraNatives, func(e *Engine) {
		if optTrust2Time {
			e.natives["(time.Time).Sub"] = nativeTimeSub
		}
	})
}

// nativeTimeSub is (time.Time).Sub with a division-free symbolic formulation. The library body
// validates its result with u.Add(d).Equal(t), i.e. divides a symbolic 64-bit value by 10^9, which
// z3 does not decide in reasonable time. Semantics (time/time.go): if both operands carry a monotonic
// reading the result is the difference of the readings; otherwise it is the exact difference if that
// is representable as a Duration and minDuration / maxDuration (by direction) if not.
// With two concrete operands the library body is interpreted instead.
func nativeTimeSub(x *Exec, fr *frame, a []Value) Value {
	t, ok1 := a[0].(Struct)
	u, ok2 := a[1].(Struct)
	if !ok1 || !ok2 {
		return declineNative
	}
	_, tw := t[0].(*Term)
	_, te := t[1].(*Term)
	_, uw := u[0].(*Term)
	_, ue := u[1].(*Term)
	if !tw && !te && !uw && !ue {
		return declineNative
	}
	st := x.st
	c := func(v uint64) *Term { return st.Const(64, v) }
	const hasMono = uint64(1) << 63
	const wallToInternal = uint64((1884*365 + 1884/4 - 1884/100 + 1884/400) * 86400)
	secNsec := func(s Struct) (mono, sec, nsec *Term) {
		wall, ext := x.toTerm(s[0], 64), x.toTerm(s[1], 64)
		mono = st.Not(st.Eq(st.Bin(OpBvAnd, wall, c(hasMono)), c(0)))
		// wall<<1>>(nsecShift+1): the 33 seconds bits
		wsec := st.Bin(OpBvLShr, st.Bin(OpBvShl, wall, c(1)), c(31))
		sec = st.Ite(mono, st.Bin(OpBvAdd, c(wallToInternal), wsec), ext)
		nsec = st.Bin(OpBvAnd, wall, c(1<<30-1))
		return
	}
	tm, tsec, tnsec := secNsec(t)
	um, usec, unsec := secNsec(u)
	bothMono := st.And(tm, um)
	monoDiff := st.Bin(OpBvSub, x.toTerm(t[1], 64), x.toTerm(u[1], 64))

	dsec := st.Bin(OpBvSub, tsec, usec)
	dn := st.Bin(OpBvSub, tnsec, unsec) // in (-10^9, 10^9) as a signed value
	// the subtraction of the seconds did not overflow
	tNeg := st.Cmp(OpSlt, tsec, c(0))
	uNeg := st.Cmp(OpSlt, usec, c(0))
	dNeg := st.Cmp(OpSlt, dsec, c(0))
	ovf := st.And(st.BXor(tNeg, uNeg), st.BXor(dNeg, tNeg))
	const maxSec = 9223372036 // maxDuration = 9223372036.854775807 s
	sle := func(a, b *Term) *Term { return st.Cmp(OpSle, a, b) }
	neg := func(v uint64) *Term { return c(-v) }
	inner := st.And(sle(neg(maxSec-1), dsec), sle(dsec, c(maxSec-1)))
	edgeHi := st.And(st.Eq(dsec, c(maxSec)), sle(dn, c(854775807)))
	edgeHi2 := st.And(st.Eq(dsec, c(maxSec+1)), sle(dn, neg(145224193)))
	edgeLo := st.And(st.Eq(dsec, neg(maxSec)), sle(neg(854775808), dn))
	edgeLo2 := st.And(st.Eq(dsec, neg(maxSec+1)), sle(c(145224192), dn))
	exact := st.And(st.Not(ovf), st.Or(inner, st.Or(st.Or(edgeHi, edgeHi2), st.Or(edgeLo, edgeLo2))))
	d := st.Bin(OpBvAdd, st.Bin(OpBvMul, dsec, c(1000000000)), dn)
	before := st.Or(st.Cmp(OpSlt, tsec, usec), st.And(st.Eq(tsec, usec), st.Cmp(OpSlt, tnsec, unsec)))
	// redundant lemma (a theorem of the arithmetic above, so adding it to the path condition is sound):
	// an exact difference is negative iff t is before u. It spares the solver a proof about bvmul.
	x.addPC(st.Implies(exact, st.Eq(st.Cmp(OpSlt, d, c(0)), before)))
	sat := st.Ite(before, c(1<<63), c(1<<63-1))
	return fromTerm(st.Ite(bothMono, monoDiff, st.Ite(exact, d, sat)))
}
