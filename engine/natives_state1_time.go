package main

// (seconds, nanoseconds)-domain handling of time.Time / time.Duration / UnixNano arithmetic.
//
// The library computes with int64 nanosecond counts (Duration, UnixNano): products by 10^9, divisions and
// remainders by 10^9, comparisons of sums of such products. These are hard kernels for bit-blasting
// solvers (DESIGN 3.3), so the engine keeps, for every such term it creates itself, the decomposition
//
//	term == s*1e9 + n   with   0 <= n < 1e9   and   |s| <= tSafeSec     (exact: no wrap-around)
//
// in a per-path side table (Exec.nano). The facts in the table are *proved* by the solver on the current
// path when an entry is made (path conditions only grow, so they stay valid). They are used for:
//   - (time.Time).Sub: returns d = ds*1e9 + dn and records its canonical decomposition;
//   - (time.Time).Add(d): a time.Time is canonical (seconds, 0 <= nsec < 1e9), hence t.Add(d) is the
//     canonical form of t.sec*1e9 + t.nsec + d for ANY exact decomposition of d — the recorded one is
//     used instead of d/1e9 and d%1e9;
//   - (time.Time).UnixNano: records (unix seconds, nsec);
//   - comparisons (==, !=, <, <=, >, >=) of two decomposable int64 values (ops.go binop hook):
//     lexicographic on (s, n) instead of comparing the products.
// Constants and x*1e9 with a structurally small x are decomposed on the fly.
// Whenever a needed fact cannot be proved (monotonic clock reading present, values near the saturation
// range of the library code) the intrinsic declines and the real library code is interpreted.

import "go/token"

const (
	tNsecMask     = uint64(1)<<30 - 1
	tHasMonotonic = uint64(1) << 63
	tNsPerSec     = int64(1000000000)
	tSafeSec      = int64(9223372034) // |s| <= tSafeSec  =>  s*1e9 + n fits in int64 for 0 <= n < 2e9
)

type nanoInfo struct{ s, n *Term }

func (x *Exec) c64(v int64) *Term { return x.st.Const(64, uint64(v)) }

// sIn: lo <= t <= hi (signed).
func (x *Exec) sIn(t *Term, lo, hi int64) *Term {
	st := x.st
	return st.And(st.Cmp(OpSle, x.c64(lo), t), st.Cmp(OpSle, t, x.c64(hi)))
}

func (x *Exec) proved(c *Term) bool {
	if c.op == OpConst {
		return c.c != 0
	}
	// facts proved once stay valid on the path (the path condition only grows)
	cache, _ := x.ghost["state1.proved"].(map[int]bool)
	if cache == nil {
		cache = map[int]bool{}
		x.ghost["state1.proved"] = cache
	}
	if cache[c.id] {
		return true
	}
	var known func(t *Term) bool
	known = func(t *Term) bool {
		if cache[t.id] || x.pcSet[t.id] {
			return true
		}
		return t.op == OpAnd && known(t.args[0]) && known(t.args[1])
	}
	if known(c) {
		return true
	}
	ok := x.check(x.st.Not(c), false) == Unsat
	if ok {
		var mark func(t *Term)
		mark = func(t *Term) {
			cache[t.id] = true
			if t.op == OpAnd {
				mark(t.args[0])
				mark(t.args[1])
			}
		}
		mark(c)
		// make the fact available to later branch decisions without a query
		x.addPC(c)
	}
	return ok
}

func isConcreteScalar(v Value) bool {
	_, ok := v.(uint64)
	return ok
}

// nanoOf returns the decomposition of v if known.
func (x *Exec) nanoOf(v Value) (nanoInfo, bool) {
	switch t := v.(type) {
	case uint64:
		sv := int64(t)
		s, n := sv/tNsPerSec, sv%tNsPerSec
		if n < 0 {
			s, n = s-1, n+tNsPerSec
		}
		return nanoInfo{x.c64(s), x.c64(n)}, true
	case *Term:
		if t.w != 64 {
			return nanoInfo{}, false
		}
		if ni, ok := x.nano[t.id]; ok {
			return ni, true
		}
		if t.op == OpIte {
			// merge of two decomposable values (if-converted "if d == 0 { d = -1 }")
			na, okA := x.nanoOf(fromTerm(t.args[1]))
			nb, okB := x.nanoOf(fromTerm(t.args[2]))
			if okA && okB {
				ni := nanoInfo{x.st.Ite(t.args[0], na.s, nb.s), x.st.Ite(t.args[0], na.n, nb.n)}
				x.nanoRecord(t, ni.s, ni.n)
				return ni, true
			}
			return nanoInfo{}, false
		}
		if t.op == OpBvMul {
			a, b := t.args[0], t.args[1]
			if a.op == OpConst {
				a, b = b, a
			}
			if b.op == OpConst && b.c == uint64(tNsPerSec) && termUB(a) <= uint64(tSafeSec) {
				return nanoInfo{a, x.c64(0)}, true
			}
		}
	}
	return nanoInfo{}, false
}

func (x *Exec) nanoRecord(t *Term, s, n *Term) {
	if t.op == OpConst {
		return
	}
	if x.nano == nil {
		x.nano = map[int]nanoInfo{}
	}
	x.nano[t.id] = nanoInfo{s, n}
}

// nanoCompare implements a comparison of two decomposable values; done=false if not applicable.
func (x *Exec) nanoCompare(op token.Token, a, b Value) (Value, bool) {
	switch op {
	case token.EQL, token.NEQ, token.LSS, token.LEQ, token.GTR, token.GEQ:
	default:
		return nil, false
	}
	// at least one side must be a recorded term (do not touch unrelated arithmetic)
	rec := false
	for _, v := range []Value{a, b} {
		if t, ok := v.(*Term); ok {
			if _, in := x.nano[t.id]; in {
				rec = true
			} else if t.op == OpIte {
				if _, ok := x.nanoOf(t); ok {
					rec = true
				}
			}
		}
	}
	if !rec {
		return nil, false
	}
	na, okA := x.nanoOf(a)
	nb, okB := x.nanoOf(b)
	if !okA || !okB {
		return nil, false
	}
	st := x.st
	eqS := st.Eq(na.s, nb.s)
	lt := st.Or(st.Cmp(OpSlt, na.s, nb.s), st.And(eqS, st.Cmp(OpSlt, na.n, nb.n)))
	eq := st.And(eqS, st.Eq(na.n, nb.n))
	var r *Term
	switch op {
	case token.EQL:
		r = eq
	case token.NEQ:
		r = st.Not(eq)
	case token.LSS:
		r = lt
	case token.LEQ:
		r = st.Or(lt, eq)
	case token.GTR:
		r = st.Not(st.Or(lt, eq))
	case token.GEQ:
		r = st.Not(lt)
	}
	return fromTerm(r), true
}

// timeParts splits a time.Time value; ok=false if the monotonic bit cannot be excluded or the nanosecond
// field is not provably < 1e9.
func (x *Exec) timeParts(v Value) (wall, ext, nsec *Term, ok bool) {
	s, isS := v.(Struct)
	if !isS || len(s) != 3 {
		return nil, nil, nil, false
	}
	st := x.st
	wall, ext = x.toTerm(s[0], 64), x.toTerm(s[1], 64)
	nsec = st.Bin(OpBvAnd, wall, st.Const(64, tNsecMask))
	if wall.op == OpConst {
		return wall, ext, nsec, wall.c&tHasMonotonic == 0 && int64(wall.c&tNsecMask) < tNsPerSec
	}
	noMono := st.Eq(st.Bin(OpBvAnd, wall, st.Const(64, tHasMonotonic)), st.Const(64, 0))
	inRange := st.Cmp(OpUlt, nsec, x.c64(tNsPerSec))
	return wall, ext, nsec, x.proved(st.And(noMono, inRange))
}

const unixToInternalC = int64(62135596800)

func init() {
	extraNatives = append(extraNatives, func(e *Engine) {
		if !optState1Time {
			return
		}
		n := e.natives
		const big = int64(1) << 61

		n["(time.Time).Sub"] = func(x *Exec, fr *frame, a []Value) Value {
			t, okT := a[0].(Struct)
			u, okU := a[1].(Struct)
			if !okT || !okU || x.spec != nil {
				return declineNative
			}
			if isConcreteScalar(t[0]) && isConcreteScalar(t[1]) && isConcreteScalar(u[0]) && isConcreteScalar(u[1]) {
				return declineNative
			}
			_, te, tn, ok1 := x.timeParts(a[0])
			_, ue, un, ok2 := x.timeParts(a[1])
			if !ok1 || !ok2 {
				return declineNative
			}
			st := x.st
			ds := st.Bin(OpBvSub, te, ue)
			safe := st.And(st.And(x.sIn(te, -big, big), x.sIn(ue, -big, big)), x.sIn(ds, -tSafeSec+1, tSafeSec-1))
			if !x.proved(safe) {
				return declineNative
			}
			dn := st.Bin(OpBvSub, tn, un) // in (-1e9, 1e9)
			d := st.Bin(OpBvAdd, st.Bin(OpBvMul, ds, x.c64(tNsPerSec)), dn)
			neg := st.Cmp(OpSlt, dn, x.c64(0))
			x.nanoRecord(d, st.Bin(OpBvAdd, ds, st.Ite(neg, x.c64(-1), x.c64(0))), st.Ite(neg, st.Bin(OpBvAdd, dn, x.c64(tNsPerSec)), dn))
			return fromTerm(d)
		}

		n["(time.Time).Add"] = func(x *Exec, fr *frame, a []Value) Value {
			t, okT := a[0].(Struct)
			if !okT || x.spec != nil {
				return declineNative
			}
			if isConcreteScalar(t[0]) && isConcreteScalar(t[1]) && isConcreteScalar(a[1]) {
				return declineNative
			}
			d, okD := x.nanoOf(a[1])
			if !okD {
				return declineNative
			}
			wall, ext, tn, ok := x.timeParts(a[0])
			if !ok {
				return declineNative
			}
			st := x.st
			if !x.proved(st.And(x.sIn(ext, -big, big), x.sIn(d.s, -tSafeSec, tSafeSec))) {
				return declineNative
			}
			n1 := st.Bin(OpBvAdd, tn, d.n) // in [0, 2e9)
			up := st.Cmp(OpSle, x.c64(tNsPerSec), n1)
			nsec := st.Ite(up, st.Bin(OpBvSub, n1, x.c64(tNsPerSec)), n1)
			dsec := st.Bin(OpBvAdd, d.s, st.Ite(up, x.c64(1), x.c64(0)))
			nwall := st.Bin(OpBvOr, st.Bin(OpBvAnd, wall, st.Const(64, ^tNsecMask)), nsec)
			return Struct{fromTerm(nwall), fromTerm(st.Bin(OpBvAdd, ext, dsec)), t[2]}
		}

		n["(time.Time).UnixNano"] = func(x *Exec, fr *frame, a []Value) Value {
			t, okT := a[0].(Struct)
			if !okT || x.spec != nil {
				return declineNative
			}
			if isConcreteScalar(t[0]) && isConcreteScalar(t[1]) {
				return declineNative
			}
			_, ext, tn, ok := x.timeParts(a[0])
			if !ok {
				return declineNative
			}
			st := x.st
			us := st.Bin(OpBvSub, ext, x.c64(unixToInternalC))
			if !x.proved(st.And(x.sIn(ext, -big, big), x.sIn(us, -tSafeSec, tSafeSec))) {
				return declineNative
			}
			v := st.Bin(OpBvAdd, st.Bin(OpBvMul, us, x.c64(tNsPerSec)), tn)
			x.nanoRecord(v, us, tn)
			return fromTerm(v)
		}
	})
}
