package main

// Intrinsics added for C24/C25 (group beacon2).
//
// proto.Marshal / proto.Unmarshal are replaced by an *idealised injective encoder* (DESIGN 5.1,
// "pbenc"): the exported fields of the message struct are written in declaration order with a
// fixed, self-delimiting layout (integers big-endian at their Go width, bool one byte, string/bytes
// with a 4-byte length, message pointers with a presence byte, repeated fields with a 4-byte
// count). Unmarshal is its inverse on its range and fails on anything else. The protobuf wire
// format itself is not checked; what the callers rely on — equal messages encode equally, different
// messages differently, decoding returns the encoded message — holds by construction.

import (
	"fmt"
	"go/types"
	"math"
	"os"
)

var debugForks = os.Getenv("SYMGO_FORKS") != ""

func init() {
	extraNatives = append(extraNatives, func(e *Engine) {
		e.natives["google.golang.org/protobuf/proto.Marshal"] = func(x *Exec, fr *frame, a []Value) Value {
			x.noSpec("proto.Marshal")
			m := a[0].(Iface)
			if m.t == nil {
				return Tuple{[]Value(nil), Iface{}}
			}
			out := []Value{}
			pt, ok := m.t.Underlying().(*types.Pointer)
			if !ok {
				x.unsupported("proto.Marshal: message is %s", m.t)
			}
			p := m.v.(*Value)
			if p == nil {
				// a nil message pointer marshals to the empty encoding, as in the real library
				return Tuple{out, Iface{}}
			}
			x.pbEncode(pt.Elem(), *p, &out)
			return Tuple{out, Iface{}}
		}
		e.natives["google.golang.org/protobuf/proto.Unmarshal"] = func(x *Exec, fr *frame, a []Value) Value {
			x.noSpec("proto.Unmarshal")
			m := a[1].(Iface)
			if m.t == nil {
				x.unsupported("proto.Unmarshal into nil message")
			}
			pt, ok := m.t.Underlying().(*types.Pointer)
			if !ok {
				x.unsupported("proto.Unmarshal: message is %s", m.t)
			}
			p := m.v.(*Value)
			if p == nil {
				x.tpanic("proto.Unmarshal into nil pointer")
			}
			d := &pbDecoder{x: x, b: a[0].([]Value)}
			v := d.decode(pt.Elem())
			if d.bad || d.pos != len(d.b) {
				return x.mkError("proto: cannot parse invalid wire-format data")
			}
			x.store(pt.Elem(), p, v)
			return Iface{}
		}
	})
}

func (x *Exec) pbPutInt(out *[]Value, v Value, w uint16) {
	switch v := v.(type) {
	case uint64:
		for i := int(w) - 8; i >= 0; i -= 8 {
			*out = append(*out, (v>>uint(i))&0xff)
		}
	case *Term:
		if v.w != w {
			panic(fmt.Sprintf("pbPutInt: width %d, want %d", v.w, w))
		}
		for i := int(w) - 8; i >= 0; i -= 8 {
			*out = append(*out, fromTerm(x.st.Extract(v, uint16(i+7), uint16(i))))
		}
	default:
		panic(fmt.Sprintf("pbPutInt: %T", v))
	}
}

func pbIsByte(t types.Type) bool {
	b, ok := t.Underlying().(*types.Basic)
	return ok && b.Kind() == types.Uint8
}

func (x *Exec) pbEncode(t types.Type, v Value, out *[]Value) {
	switch tt := t.Underlying().(type) {
	case *types.Basic:
		if w, _, ok := intInfo(tt); ok {
			x.pbPutInt(out, v, w)
			return
		}
		if isBoolT(tt) {
			switch b := v.(type) {
			case bool:
				if b {
					*out = append(*out, uint64(1))
				} else {
					*out = append(*out, uint64(0))
				}
			case *Term:
				*out = append(*out, fromTerm(x.st.Ite(b, x.st.Const(8, 1), x.st.Const(8, 0))))
			}
			return
		}
		if isStringT(tt) {
			bs := strBytes(v)
			x.pbPutInt(out, uint64(len(bs)), 32)
			*out = append(*out, bs...)
			return
		}
		if _, ok := isFloat(tt); ok {
			f, isF := v.(float64)
			if !isF {
				x.unsupported("proto.Marshal: symbolic float")
			}
			x.pbPutInt(out, math.Float64bits(f), 64)
			return
		}
	case *types.Slice:
		s := v.([]Value)
		x.pbPutInt(out, uint64(len(s)), 32)
		if pbIsByte(tt.Elem()) {
			*out = append(*out, s...)
			return
		}
		for _, el := range s {
			x.pbEncode(tt.Elem(), el, out)
		}
		return
	case *types.Pointer:
		p := v.(*Value)
		if p == nil {
			*out = append(*out, uint64(0))
			return
		}
		*out = append(*out, uint64(1))
		x.pbEncode(tt.Elem(), *p, out)
		return
	case *types.Struct:
		s := v.(Struct)
		for i := 0; i < tt.NumFields(); i++ {
			if !tt.Field(i).Exported() {
				continue
			}
			x.pbEncode(tt.Field(i).Type(), s[i], out)
		}
		return
	case *types.Interface:
		it := v.(Iface)
		if it.t == nil {
			*out = append(*out, uint64(0))
			return
		}
		x.unsupported("proto.Marshal: oneof field set (%s)", it.t)
	case *types.Map:
		m := v.(*Map)
		if m.Len() == 0 {
			x.pbPutInt(out, 0, 32)
			return
		}
		x.unsupported("proto.Marshal: non-empty map field")
	}
	x.unsupported("proto.Marshal: field type %s", t)
}

type pbDecoder struct {
	x   *Exec
	b   []Value
	pos int
	bad bool
}

func (d *pbDecoder) take(n int) []Value {
	if d.bad || n < 0 || d.pos+n > len(d.b) {
		d.bad = true
		return nil
	}
	r := d.b[d.pos : d.pos+n]
	d.pos += n
	return r
}

func (d *pbDecoder) getInt(w uint16) Value {
	bs := d.take(int(w / 8))
	if bs == nil {
		return uint64(0)
	}
	sym := false
	for _, b := range bs {
		if _, ok := b.(*Term); ok {
			sym = true
		}
	}
	if !sym {
		var v uint64
		for _, b := range bs {
			v = v<<8 | b.(uint64)
		}
		return v
	}
	var t *Term
	for _, b := range bs {
		bt := d.x.toTerm(b, 8)
		if t == nil {
			t = bt
		} else {
			t = d.x.st.Concat(t, bt)
		}
	}
	return fromTerm(t)
}

// getLen reads a 4-byte length/count; a symbolic one is a decision point.
func (d *pbDecoder) getLen() int {
	v := d.getInt(32)
	if d.bad {
		return 0
	}
	var n uint64
	switch v := v.(type) {
	case uint64:
		n = v
	case *Term:
		n = d.x.concretize(v, "length field of an encoded message")
	}
	if n > uint64(len(d.b)) {
		d.bad = true
		return 0
	}
	return int(n)
}

func (d *pbDecoder) decode(t types.Type) Value {
	x := d.x
	if d.bad {
		return zero(t)
	}
	switch tt := t.Underlying().(type) {
	case *types.Basic:
		if w, _, ok := intInfo(tt); ok {
			return d.getInt(w)
		}
		if isBoolT(tt) {
			v := d.getInt(8)
			switch b := v.(type) {
			case uint64:
				if b > 1 {
					d.bad = true
				}
				return b == 1
			case *Term:
				// only 0/1 are in the encoder's range
				if !x.branch(x.st.Cmp(OpUle, b, x.st.Const(8, 1))) {
					d.bad = true
					return false
				}
				return fromTerm(x.st.Eq(b, x.st.Const(8, 1)))
			}
		}
		if isStringT(tt) {
			n := d.getLen()
			return mkStr(d.take(n))
		}
		if _, ok := isFloat(tt); ok {
			v, isC := d.getInt(64).(uint64)
			if !isC {
				x.unsupported("proto.Unmarshal: symbolic float")
			}
			return math.Float64frombits(v)
		}
	case *types.Slice:
		n := d.getLen()
		if pbIsByte(tt.Elem()) {
			bs := d.take(n)
			if n == 0 || bs == nil {
				return []Value(nil)
			}
			// the real Unmarshal copies; aliasing the input would be observably different
			c := make([]Value, n)
			copy(c, bs)
			return c
		}
		if n == 0 {
			return []Value(nil)
		}
		out := make([]Value, 0, n)
		for i := 0; i < n && !d.bad; i++ {
			out = append(out, d.decode(tt.Elem()))
		}
		return out
	case *types.Pointer:
		pres := d.getInt(8)
		var set bool
		switch p := pres.(type) {
		case uint64:
			if p > 1 {
				d.bad = true
			}
			set = p == 1
		case *Term:
			if !x.branch(x.st.Cmp(OpUle, p, x.st.Const(8, 1))) {
				d.bad = true
				return (*Value)(nil)
			}
			set = x.branch(x.st.Eq(p, x.st.Const(8, 1)))
		}
		if !set || d.bad {
			return (*Value)(nil)
		}
		cell := new(Value)
		*cell = d.decode(tt.Elem())
		return cell
	case *types.Struct:
		s := zero(tt).(Struct)
		for i := 0; i < tt.NumFields(); i++ {
			if !tt.Field(i).Exported() {
				continue
			}
			s[i] = d.decode(tt.Field(i).Type())
		}
		return s
	case *types.Interface:
		tag := d.getInt(8)
		if c, ok := tag.(uint64); ok && c == 0 {
			return Iface{}
		}
		if tt, ok := tag.(*Term); ok {
			if x.branch(x.st.Eq(tt, x.st.Const(8, 0))) {
				return Iface{}
			}
		}
		d.bad = true
		return Iface{}
	case *types.Map:
		n := d.getLen()
		if n != 0 {
			d.bad = true
		}
		return (*Map)(nil)
	}
	x.unsupported("proto.Unmarshal: field type %s", t)
	return nil
}

