package main

// Engine additions for C13 (EPIC): spec option "term_opts": ["quotvar"].
//
// Division / remainder of a symbolic value by a constant (time.Time.Add computes d/1e9 and d%1e9
// of the EPIC offset d = (EpicTS+1)*21000 ns) is what the bit-blasting back ends do not decide in
// reasonable time (a 64-bit divider circuit). quotVar replaces both results by *definitional
// extension*: for a dividend a with a structural unsigned bound hi < 2^62 and a constant divisor
// c > 1 it introduces two fresh variables q (just wide enough for hi/c) and r (just wide enough
// for c-1) together with the path constraints
//
//	a[w-1:0] == zext(q)*c + zext(r)      (at a width w in which the right side cannot wrap)
//	r < c
//
// and returns zext(q) for a/c, zext(r) for a%c. Over the integers q and r are uniquely determined
// (Euclidean division), and for every value of a within its bound a solution exists in the chosen
// widths, so the extension neither removes nor adds behaviours; the solver only ever sees one
// narrow multiplication by a constant. The same (dividend term, divisor) pair gets the same pair
// of variables on a path, so a reference oracle that divides the same quantity meets the same
// terms. Signed division coincides with unsigned division because the dividend is non-negative.
// Declines (plain bvudiv/bvsdiv as before) inside speculated (if-converted) regions and whenever
// the bound is not structural.

import (
	"fmt"
	"math/bits"
)

var optQuotVar bool

// optZ3New (term_opts "z3new"): z3 5.1 instead of z3 4.8.12 as the primary back end of the check.
// The freshness obligations of C13 (lexicographic (sec, nsec) comparisons through time.Time's
// wall/ext encoding, next to the uninterpreted MACs) take z3 4.8.12 100 s and more each, z3 5.1
// 2-3 s; the fall-back chain is unchanged.
var optZ3New bool

func primarySolverKind() SolverKind {
	if optZ3New {
		return Z3New
	}
	return Z3
}

func primarySolverVersion() string {
	if optZ3New {
		return "z3 5.1.0 (z3-new -in, incremental push/pop)"
	}
	return "z3 4.8.12 (-in, incremental push/pop)"
}

type quotRec struct{ q, r *Term }

func (x *Exec) quotVar(quo, signed bool, a, b *Term) *Term {
	if !optQuotVar || x.spec != nil || a.w != 64 || b.op != OpConst || a.op == OpConst {
		return nil
	}
	c := b.c
	if c <= 1 || c >= 1<<40 || c&(c-1) == 0 {
		return nil // powers of two are shifts
	}
	st := x.st
	hi, ok := st.boundU(a, 0)
	if !ok || hi >= 1<<62 {
		return nil
	}
	if _, small := st.smallSupport(a, 9); small {
		return nil // few input bits: the exact lookup table of eval.go is the better encoding
	}
	if hi < c {
		if quo {
			return st.Const(64, 0)
		}
		return a
	}
	cache, _ := x.ghost["epic.quotvar"].(map[string]quotRec)
	if cache == nil {
		cache = map[string]quotRec{}
		x.ghost["epic.quotvar"] = cache
	}
	key := fmt.Sprintf("%d/%d", a.id, c)
	rec, have := cache[key]
	if !have {
		wq := uint16(bits.Len64(hi / c))
		wr := uint16(bits.Len64(c - 1))
		w := wq + uint16(bits.Len64(c)) + 1 // (2^wq-1)*c + 2^wr-1 < 2^w
		if w < uint16(bits.Len64(hi)) {
			w = uint16(bits.Len64(hi))
		}
		if w > 64 {
			return nil
		}
		n := len(cache)
		q := st.Var(fmt.Sprintf("quot#%d", n), wq)
		r := st.Var(fmt.Sprintf("rem#%d", n), wr)
		lhs := a
		if w < 64 {
			lhs = st.Extract(a, w-1, 0) // a < 2^w by its structural bound
		}
		rhs := st.Bin(OpBvAdd, st.Bin(OpBvMul, st.ZExt(q, w-wq), st.Const(w, c)), st.ZExt(r, w-wr))
		x.addPC(st.Eq(lhs, rhs))
		x.addPC(st.Cmp(OpUlt, r, st.Const(wr, c)))
		rec = quotRec{st.ZExt(q, 64-wq), st.ZExt(r, 64-wr)}
		cache[key] = rec
	}
	if quo {
		return rec.q
	}
	return rec.r
}
