package main

import (
	"encoding/json"
	"fmt"
	"os"
	"path/filepath"
	"sort"
	"strings"
	"time"

	"golang.org/x/tools/go/ssa"
)

func loadKnown() []KnownFinding {
	if os.Getenv("VERIF_NO_KNOWN") != "" {
		// development aid: mutation runs against a repaired scratch tree must not be masked
		return nil
	}
	raw, err := os.ReadFile(filepath.Join(verifDir, "known_findings.json"))
	if err != nil {
		return nil
	}
	var k []KnownFinding
	if err := json.Unmarshal(raw, &k); err != nil {
		fmt.Fprintln(os.Stderr, "warning: bad known_findings.json:", err)
	}
	return k
}

func (k *KnownFinding) matches(prop string, v *Violation) bool {
	if k.Status == "fixed" || k.Property != prop || k.Clause != v.Clause {
		return false
	}
	if k.Entry != "" && k.Entry != v.Entry {
		return false
	}
	for p, want := range k.Params {
		if got, ok := v.Params[p]; !ok || got != want {
			return false
		}
	}
	for in, want := range k.Where {
		got, ok := v.Inputs[in]
		if !ok || (want != "*" && got != want) {
			return false
		}
	}
	return true
}

func toCase(entry string, params map[string]int64, inputs map[string]string, uf []ufPoint) nativeCase {
	return nativeCase{Entry: entry, Params: params, Inputs: inputs, UF: uf}
}

func sameObs(a, b []string) bool {
	if len(a) != len(b) {
		return false
	}
	for i := range a {
		if a[i] != b[i] {
			return false
		}
	}
	return true
}

func report(spec *Spec, tier string, seed int64, eng *Engine, results []*instResult, inconclusive []string,
	noSelf, noEvidence bool, t0 time.Time, verbose bool) int {

	prop := spec.Property
	known := loadKnown()

	// ---- collect
	var paths, nodes, edges, steps, queries, ifconv int
	var solve time.Duration
	ends := map[string]int{}
	clauseStats := map[string]map[string]int{}
	covers := map[string]bool{}
	var violations []*Violation
	var witnesses []*Witness
	mustFailMissing := []string{}
	for _, r := range results {
		paths += r.paths
		nodes += r.nodes
		edges += r.edges
		steps += r.steps
		queries += r.queries
		solve += r.solveTime
		ifconv += r.ifconv
		for k, v := range r.ends {
			ends[k] += v
		}
		for c, m := range r.asserts {
			if clauseStats[c] == nil {
				clauseStats[c] = map[string]int{}
			}
			for s, n := range m {
				clauseStats[c][s] += n
			}
		}
		for c := range r.covers {
			covers[c] = true
		}
		if r.inst.entry.MustFail {
			// reachability twin: a violation is required, none is reported
			if len(r.violations) == 0 {
				mustFailMissing = append(mustFailMissing, r.inst.entry.Func+"("+paramString(r.inst.params)+")")
			}
		} else {
			violations = append(violations, r.violations...)
		}
		witnesses = append(witnesses, r.witnesses...)
	}
	for _, m := range mustFailMissing {
		inconclusive = append(inconclusive, "vacuity: reachability twin "+m+" was not violated")
	}
	for _, c := range spec.Covers {
		if !covers[c] {
			inconclusive = append(inconclusive, "vacuity: cover mark "+c+" not reached")
		}
	}
	// every assert clause must have been reached at least once (checked via clauseStats non-empty)
	if len(clauseStats) == 0 && len(violations) == 0 {
		inconclusive = append(inconclusive, "vacuity: no assertion was reached")
	}

	// ---- differential self-check on solver witnesses
	validated := 0
	mismatches := []string{}
	ts := spec.Tiers[tier]
	fillDefaults(&ts)
	if !noSelf && len(witnesses) > 0 {
		sort.Slice(witnesses, func(i, j int) bool {
			if witnesses[i].Entry != witnesses[j].Entry {
				return witnesses[i].Entry < witnesses[j].Entry
			}
			return witnesses[i].Trace < witnesses[j].Trace
		})
		sel := witnesses
		if len(sel) > ts.SelfCheckMax {
			// deterministic seeded sample
			step := len(sel) / ts.SelfCheckMax
			var s2 []*Witness
			off := int(seed) % step
			if off < 0 {
				off = 0
			}
			for i := off; i < len(sel) && len(s2) < ts.SelfCheckMax; i += step {
				s2 = append(s2, sel[i])
			}
			sel = s2
		}
		cases := make([]nativeCase, len(sel))
		for i, w := range sel {
			cases[i] = toCase(w.Entry, w.Params, w.Inputs, w.UF)
		}
		nres, err := runNative(spec, cases)
		if err != nil {
			inconclusive = append(inconclusive, "self-check: "+err.Error())
		} else {
			for i, w := range sel {
				nr := nres[i]
				okEnd := nr.End == "done" || (w.End == "assert-stop" && strings.HasPrefix(nr.End, "assert:"))
				if !okEnd || !sameObs(w.Observed, nr.Observed) {
					mismatches = append(mismatches, fmt.Sprintf("entry %s(%s) trace %s: interpreter end=%s obs=%v ; native end=%s obs=%v missing=%v",
						w.Entry, paramString(w.Params), w.Trace, w.End, w.Observed, nr.End, nr.Observed, nr.Missing))
				} else {
					validated++
				}
			}
		}
		for _, m := range mismatches {
			inconclusive = append(inconclusive, "engine/native mismatch: "+m)
		}
	}

	// ---- violations: native replay, known findings
	exit := 0
	var lines []string
	confirmed := 0
	knownHit := map[int]bool{}
	if len(violations) > 0 {
		cases := make([]nativeCase, len(violations))
		for i, v := range violations {
			cases[i] = toCase(v.Entry, v.Params, v.Inputs, v.UF)
		}
		nres, err := runNative(spec, cases)
		if err != nil {
			inconclusive = append(inconclusive, "violation replay: "+err.Error())
		} else {
			seenNew := map[string]bool{}
			for i, v := range violations {
				nr := nres[i]
				reproduced := false
				if v.Kind == "panic" {
					reproduced = strings.HasPrefix(nr.End, "panic:")
				} else {
					reproduced = nr.End == "assert:"+v.Clause
				}
				if !reproduced {
					inconclusive = append(inconclusive, fmt.Sprintf("counterexample for clause %s of %s(%s) did not reproduce natively (native end=%s, missing=%v, uf_miss=%d): engine or stub error",
						v.Clause, v.Entry, paramString(v.Params), nr.End, nr.Missing, nr.UFMiss))
					continue
				}
				confirmed++
				matched := false
				for ki := range known {
					if known[ki].matches(prop, v) {
						matched = true
						if !knownHit[ki] {
							knownHit[ki] = true
							lines = append(lines, fmt.Sprintf("KNOWN-FINDING: property=%s %s", prop, known[ki].What))
						}
						break
					}
				}
				if matched {
					continue
				}
				key := v.Entry + "/" + v.Clause
				if seenNew[key] {
					continue
				}
				seenNew[key] = true
				os.MkdirAll(filepath.Join(verifDir, "replays"), 0o755)
				rp := filepath.Join(verifDir, "replays", fmt.Sprintf("%s-%s-%s.json", prop, v.Entry, sanitize(v.Clause)))
				rj, _ := json.MarshalIndent(map[string]any{"property": prop, "spec": "checks/" + prop + ".json", "clause": v.Clause, "kind": v.Kind, "message": v.Msg,
					"case": cases[i], "native_end": nr.End, "native_observed": nr.Observed, "trace": traceString(v.Trace)}, "", " ")
				os.WriteFile(rp, rj, 0o644)
				lines = append(lines, fmt.Sprintf("VIOLATION property=%s replay=%s", prop, rp))
				lines = append(lines, fmt.Sprintf("  clause=%s entry=%s(%s) %s", v.Clause, v.Entry, paramString(v.Params), v.Msg))
				exit = 1
			}
		}
	}
	if exit == 0 && len(inconclusive) > 0 {
		exit = 2
	}

	// ---- evidence
	wall := time.Since(t0).Seconds()
	if !noEvidence {
		writeEvidence(spec, tier, seed, eng, results, clauseStats, covers, ends, paths, nodes, edges, steps, queries, ifconv, solve,
			validated, len(mismatches), confirmed, len(violations), inconclusive, lines, wall, exit)
	}

	// ---- output
	fmt.Printf("property=%s tier=%s paths=%d decisions=%d queries=%d solver_time=%.1fs ifconv=%d selfcheck=%d/%d wall=%.1fs\n",
		prop, tier, paths, nodes, queries, solve.Seconds(), ifconv, validated, validated+len(mismatches), wall)
	cl := make([]string, 0, len(clauseStats))
	for c := range clauseStats {
		cl = append(cl, c)
	}
	sort.Strings(cl)
	for _, c := range cl {
		fmt.Printf("  clause %-40s %v\n", c, clauseStats[c])
	}
	for _, l := range lines {
		fmt.Println(l)
	}
	for _, m := range inconclusive {
		fmt.Printf("INCONCLUSIVE property=%s: %s\n", prop, firstLine(m, 1500))
	}
	if exit == 0 {
		fmt.Printf("OK property=%s held on everything explored\n", prop)
	}
	return exit
}

func sanitize(s string) string {
	var sb strings.Builder
	for _, r := range s {
		if r >= 'a' && r <= 'z' || r >= 'A' && r <= 'Z' || r >= '0' && r <= '9' || r == '-' || r == '_' {
			sb.WriteRune(r)
		} else {
			sb.WriteRune('_')
		}
	}
	return sb.String()
}

func writeEvidence(spec *Spec, tier string, seed int64, eng *Engine, results []*instResult, clauseStats map[string]map[string]int,
	covers map[string]bool, ends map[string]int, paths, nodes, edges, steps, queries, ifconv int, solve time.Duration,
	validated, mismatches, confirmed, nviol int, inconclusive, lines []string, wall float64, exit int) {

	var fns []string
	eng.fnUsed.Range(func(k, v any) bool {
		f := k.(*ssa.Function)
		name := f.String()
		if strings.Contains(name, "scionproto/scion") && !strings.Contains(name, "zz_verif") {
			fns = append(fns, name+" @ "+loc(eng.prog.Fset, f.Pos()))
		}
		return true
	})
	sort.Strings(fns)
	nLib := 0
	eng.fnUsed.Range(func(k, v any) bool { nLib++; return true })
	var stubs []string
	eng.stubsUsed.Range(func(k, v any) bool { stubs = append(stubs, k.(string)); return true })
	sort.Strings(stubs)
	var samples []any
	for _, r := range results {
		for i, w := range r.witnesses {
			if i >= 2 {
				break
			}
			samples = append(samples, map[string]any{"entry": w.Entry, "params": w.Params, "decisions": w.Trace, "witness_inputs": trimInputs(w.Inputs), "observed": trimList(w.Observed), "end": w.End})
		}
		if len(samples) >= 12 {
			break
		}
	}
	if len(samples) == 0 {
		for _, r := range results {
			samples = append(samples, map[string]any{"entry": r.inst.entry.Func, "params": r.inst.params, "paths": r.paths, "ends": r.ends})
		}
	}
	var instances []any
	obl, disch := 0, 0
	for _, r := range results {
		instances = append(instances, map[string]any{"entry": r.inst.entry.Func, "params": r.inst.params, "paths": r.paths, "ends": r.ends,
			"decision_nodes": r.nodes, "queries": r.queries, "solver_time_s": round2(r.solveTime.Seconds()), "wall_s": round2(r.wall.Seconds()), "must_fail": r.inst.entry.MustFail})
	}
	for _, m := range clauseStats {
		for s, n := range m {
			obl += n
			if s == "unsat" || s == "trivial" {
				disch += n
			}
		}
	}
	var coverList []string
	for c := range covers {
		coverList = append(coverList, c)
	}
	sort.Strings(coverList)
	tsp := spec.Tiers[tier]
	fillDefaults(&tsp)
	ev := map[string]any{
		"property_id": spec.Property,
		"tier":        tier,
		"seed":        seed,
		"level":       "model_checking",
		"coverage": map[string]any{
			"states":                        max1(nodes),
			"transitions":                   max1(edges),
			"traces_validated_against_impl": validated,
			"samples":                       samples,
			"rule":                          "states = decision-tree nodes of the bounded symbolic execution (one per decision point per path prefix); transitions = decision edges; every path's assertions are decided by the SMT solver over all values of the symbolic inputs",
			"paths":                         paths,
			"path_ends":                     ends,
			"interpreted_instructions":      steps,
			"obligations":                   obl,
			"discharged":                    disch,
			"clauses":                       clauseStats,
			"queries":                       queries,
			"solver_time_s":                 round2(solve.Seconds()),
			"solver_versions":               []string{primarySolverVersion()},
			"if_converted_branches":         ifconv,
			"covers_reached":                coverList,
			"instances":                     instances,
			"functions_encoded":             fns,
			"functions_encoded_total":       nLib,
			"intrinsics_and_stubs_hit":      stubs,
			"bounds":                        map[string]any{"max_steps_per_path": tsp.MaxSteps, "max_decisions_per_path": tsp.MaxDecisions, "max_paths": tsp.MaxPaths, "max_values_per_site": tsp.MaxValuesSite, "query_timeout_s": tsp.QueryTimeoutS},
			"selfcheck_mismatches":          mismatches,
			"violations_found":              nviol,
			"violations_confirmed_natively": confirmed,
			"not_covered":                   spec.NotCovered,
			"verdict_lines":                 lines,
			"inconclusive":                  trimList(inconclusive),
			"exit":                          exit,
		},
		"assumptions": append(append([]string{}, spec.Assumptions...), stubNotes(spec)...),
		"wall_s":      round2(wall),
		"violations":  nviol,
	}
	os.MkdirAll(filepath.Join(verifDir, "evidence"), 0o755)
	raw, _ := json.MarshalIndent(ev, "", " ")
	os.WriteFile(filepath.Join(verifDir, "evidence", spec.Property+".json"), raw, 0o644)
}

func stubNotes(spec *Spec) []string {
	var out []string
	for _, s := range spec.Stubs {
		out = append(out, "stub: "+s)
	}
	return out
}

func max1(n int) int {
	if n < 1 {
		return 1
	}
	return n
}

func round2(f float64) float64 { return float64(int(f*100+0.5)) / 100 }

func trimList(l []string) []string {
	if len(l) > 12 {
		l = append(append([]string{}, l[:12]...), fmt.Sprintf("… %d more", len(l)-12))
	}
	out := make([]string, len(l))
	for i, s := range l {
		out[i] = firstLine(s, 400)
	}
	return out
}

func trimInputs(m map[string]string) map[string]string {
	if len(m) <= 24 {
		return m
	}
	keys := make([]string, 0, len(m))
	for k := range m {
		keys = append(keys, k)
	}
	sort.Strings(keys)
	out := map[string]string{}
	for _, k := range keys[:24] {
		out[k] = m[k]
	}
	out["…"] = fmt.Sprintf("%d more inputs", len(m)-24)
	return out
}
