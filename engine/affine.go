package main

// Division / remainder of a symbolic value by a constant is the one arithmetic kernel the SMT back
// ends cannot bit-blast in reasonable time at 64 bit (DESIGN 3.3: "64-bit multiply/divide by 10^9 in
// time arithmetic"). The standard library's time.Time.Add/Sub and path.ExpTimeFromDuration do exactly
// that: (secs*1e9)/1e9, (secs*1e9)%1e9, (d*256)/MaxTTL.
//
// divByConst recognises a dividend of the form  k*x + c  (x one 64-bit sub-term, k and c integer
// constants, obtained through add/sub/mul-by-constant/shift/extract/zero- and sign-extension) and
// cancels the common factor g = gcd(k, c, divisor):
//
//	(k*x + c) / d  =  ((k/g)*x + c/g) / (d/g)          (k*x + c) % d  =  g * (((k/g)*x + c/g) % (d/g))
//
// which is an identity over the integers (for Go's truncated division as well as for the unsigned
// one). It carries over to the 64-bit machine values iff no wrap-around happens in k*x+c and in the
// extensions passed on the way; that side condition is an interval  lo <= x <= hi  which is *decided
// by the solver under the current path condition* before the rewrite is applied. If it cannot be
// shown the plain bvsdiv/bvsrem term is produced as before.

import (
	"math"
	"math/big"
)

type affineForm struct {
	x        *Term // nil: constant
	k, c     int64 // value == k*x + c  (mod 2^w of the analysed term)
	lo, hi   int64 // ... and exactly (over the integers, for every extension passed) when lo <= x <= hi
	slo, shi int64 // bounds of x that hold by construction (need no proof)
}

func addOvf(a, b int64) (int64, bool) {
	r := a + b
	if (a >= 0) == (b >= 0) && (r >= 0) != (a >= 0) {
		return 0, false
	}
	return r, true
}

func mulOvf(a, b int64) (int64, bool) {
	r := new(big.Int).Mul(big.NewInt(a), big.NewInt(b))
	if !r.IsInt64() {
		return 0, false
	}
	return r.Int64(), true
}

// restrict intersects [f.lo, f.hi] with { x | A <= k*x + c <= B }.
func (f *affineForm) restrict(A, B *big.Int) bool {
	if f.x == nil || f.k == 0 {
		v := big.NewInt(f.c)
		return v.Cmp(A) >= 0 && v.Cmp(B) <= 0
	}
	k, c := big.NewInt(f.k), big.NewInt(f.c)
	lo := new(big.Int).Sub(A, c)
	hi := new(big.Int).Sub(B, c)
	if f.k < 0 {
		lo, hi = new(big.Int).Neg(hi), new(big.Int).Neg(lo)
		k = new(big.Int).Neg(k)
	}
	// ceil(lo/k) <= x <= floor(hi/k), k > 0 (big.Int Div is Euclidean: floor for positive divisor)
	l := new(big.Int).Div(new(big.Int).Add(lo, new(big.Int).Sub(k, big.NewInt(1))), k)
	h := new(big.Int).Div(hi, k)
	if l.Cmp(big.NewInt(f.lo)) > 0 {
		if !l.IsInt64() {
			return false
		}
		f.lo = l.Int64()
	}
	if h.Cmp(big.NewInt(f.hi)) < 0 {
		if !h.IsInt64() {
			return false
		}
		f.hi = h.Int64()
	}
	return f.lo <= f.hi
}

func pow2(n uint16) *big.Int { return new(big.Int).Lsh(big.NewInt(1), uint(n)) }

func (s *Store) affineOf(t *Term, depth int) (affineForm, bool) {
	atom := func() (affineForm, bool) {
		if t.w < 64 {
			// narrow atom: its zero extension, whose (signed 64-bit) value is the unsigned value of t
			m := int64(1)<<t.w - 1
			return affineForm{x: s.ZExt(t, 64-t.w), k: 1, lo: 0, hi: m, slo: 0, shi: m}, true
		}
		return affineForm{x: t, k: 1, lo: math.MinInt64, hi: math.MaxInt64, slo: math.MinInt64, shi: math.MaxInt64}, true
	}
	if t.w == 0 || t.w > 64 {
		return affineForm{}, false
	}
	if depth > 24 {
		return atom()
	}
	constRep := func(c *Term) int64 {
		if c.w == 64 {
			return int64(c.c)
		}
		return int64(c.c) // w < 64: the unsigned representative fits
	}
	combine := func(a, b affineForm, sign int64) (affineForm, bool) {
		if a.x != nil && b.x != nil && a.x != b.x {
			return affineForm{}, false
		}
		bk, ok1 := mulOvf(b.k, sign)
		bc, ok2 := mulOvf(b.c, sign)
		k, ok3 := addOvf(a.k, bk)
		c, ok4 := addOvf(a.c, bc)
		if !(ok1 && ok2 && ok3 && ok4) {
			return affineForm{}, false
		}
		// constants carry the full interval, so the intersection is right in every case
		r := affineForm{x: a.x, k: k, c: c, lo: max(a.lo, b.lo), hi: min(a.hi, b.hi), slo: a.slo, shi: a.shi}
		if r.x == nil {
			r.x, r.slo, r.shi = b.x, b.slo, b.shi
		}
		return r, r.lo <= r.hi
	}
	switch t.op {
	case OpConst:
		return affineForm{c: constRep(t), lo: math.MinInt64, hi: math.MaxInt64}, true
	case OpBvAdd, OpBvSub:
		a, ok := s.affineOf(t.args[0], depth+1)
		if !ok {
			return atom()
		}
		b, ok := s.affineOf(t.args[1], depth+1)
		if !ok {
			return atom()
		}
		sign := int64(1)
		if t.op == OpBvSub {
			sign = -1
		}
		if r, ok := combine(a, b, sign); ok {
			return r, true
		}
		return atom()
	case OpBvMul:
		var ct, other *Term
		if t.args[1].op == OpConst {
			ct, other = t.args[1], t.args[0]
		} else if t.args[0].op == OpConst {
			ct, other = t.args[0], t.args[1]
		} else {
			return atom()
		}
		a, ok := s.affineOf(other, depth+1)
		if !ok {
			return atom()
		}
		m := constRep(ct)
		k, ok1 := mulOvf(a.k, m)
		c, ok2 := mulOvf(a.c, m)
		if !(ok1 && ok2) {
			return atom()
		}
		a.k, a.c = k, c
		return a, true
	case OpExtract:
		hi, lo := uint16(t.c>>16), uint16(t.c&0xffff)
		_ = hi
		if lo != 0 {
			return atom()
		}
		a, ok := s.affineOf(t.args[0], depth+1)
		if !ok {
			return atom()
		}
		return a, true // low bits: the congruence holds modulo the smaller power of two as well
	case OpConcat:
		hi, lo := t.args[0], t.args[1]
		if lo.op == OpConst && lo.c == 0 {
			// hi << lo.w
			a, ok := s.affineOf(hi, depth+1)
			if !ok || lo.w >= 63 {
				return atom()
			}
			m := int64(1) << lo.w
			k, ok1 := mulOvf(a.k, m)
			c, ok2 := mulOvf(a.c, m)
			if !(ok1 && ok2) {
				return atom()
			}
			a.k, a.c = k, c
			return a, true
		}
		if hi.op == OpConst && hi.c == 0 && lo.w < 64 {
			// zero extension: exact iff 0 <= value < 2^lo.w
			a, ok := s.affineOf(lo, depth+1)
			if !ok {
				return atom()
			}
			if !a.restrict(big.NewInt(0), new(big.Int).Sub(pow2(lo.w), big.NewInt(1))) {
				return atom()
			}
			return a, true
		}
		return atom()
	case OpSExt:
		in := t.args[0]
		a, ok := s.affineOf(in, depth+1)
		if !ok || in.w >= 64 {
			return atom()
		}
		half := pow2(in.w - 1)
		if !a.restrict(new(big.Int).Neg(half), new(big.Int).Sub(half, big.NewInt(1))) {
			return atom()
		}
		return a, true
	}
	return atom()
}

func gcd64(a, b int64) int64 {
	if a < 0 {
		a = -a
	}
	if b < 0 {
		b = -b
	}
	for b != 0 {
		a, b = b, a%b
	}
	return a
}

// divByConst returns the simplified quotient (quo=true) or remainder of a by the constant b, or nil
// when the rewrite does not apply / its side condition cannot be established.
func (x *Exec) divByConst(quo, signed bool, a, b *Term) *Term {
	if !optAffine || a.w != 64 || b.op != OpConst || x.spec != nil {
		return nil
	}
	d := int64(b.c)
	if d <= 1 {
		return nil
	}
	st := x.st
	f, ok := st.affineOf(a, 0)
	if !ok || f.x == nil || f.k == 0 || (f.x == a && f.k == 1) {
		return nil
	}
	g := gcd64(gcd64(f.k, d), f.c)
	if f.c == 0 {
		g = gcd64(f.k, d)
	}
	if g <= 1 {
		return nil
	}
	// no wrap-around in k*x + c; for the unsigned operations the dividend must be non-negative too
	lo := big.NewInt(math.MinInt64)
	if !signed {
		lo = big.NewInt(0)
	}
	if !f.restrict(lo, big.NewInt(math.MaxInt64)) {
		return nil
	}
	proveRange := func(h affineForm) bool {
		if h.lo <= h.slo && h.hi >= h.shi {
			return true
		}
		inRange := st.And(st.Cmp(OpSle, st.Const(64, uint64(h.lo)), h.x), st.Cmp(OpSle, h.x, st.Const(64, uint64(h.hi))))
		if inRange.op == OpConst {
			return inRange.c != 0
		}
		return x.check(st.Not(inRange), false) == Unsat
	}
	if !proveRange(f) {
		return nil
	}
	inner := st.Bin(OpBvAdd, st.Bin(OpBvMul, f.x, st.Const(64, uint64(f.k/g))), st.Const(64, uint64(f.c/g)))
	dq := d / g
	if dq == 1 {
		if quo {
			return inner
		}
		return st.Const(64, 0)
	}
	// Non-negative dividend: unsigned operations, at the smallest width that holds the dividend (a
	// divider circuit of that width is all the solver has to look at).
	fi := f
	fi.k, fi.c = f.k/g, f.c/g
	nonNeg := fi
	if nonNeg.restrict(big.NewInt(0), big.NewInt(math.MaxInt64)) {
		// the proven interval of x may already imply inner >= 0; otherwise ask
		nonNeg.slo, nonNeg.shi = max(f.lo, f.slo), min(f.hi, f.shi)
		if proveRange(nonNeg) {
			top := new(big.Int).Mul(big.NewInt(fi.k), big.NewInt(nonNeg.hi))
			if fi.k < 0 {
				top = new(big.Int).Mul(big.NewInt(fi.k), big.NewInt(nonNeg.lo))
			}
			top.Add(top, big.NewInt(fi.c))
			w := uint16(max(top.BitLen(), big.NewInt(dq).BitLen()))
			if w < 1 {
				w = 1
			}
			if w < 64 {
				n := st.Extract(inner, w-1, 0)
				dc := st.Const(w, uint64(dq))
				if quo {
					return st.ZExt(st.Bin(OpBvUDiv, n, dc), 64-w)
				}
				return st.Bin(OpBvMul, st.ZExt(st.Bin(OpBvURem, n, dc), 64-w), st.Const(64, uint64(g)))
			}
		}
	}
	dd := st.Const(64, uint64(dq))
	opDiv, opRem := OpBvUDiv, OpBvURem
	if signed {
		opDiv, opRem = OpBvSDiv, OpBvSRem
	}
	if quo {
		return st.Bin(opDiv, inner, dd)
	}
	return st.Bin(OpBvMul, st.Bin(opRem, inner, dd), st.Const(64, uint64(g)))
}

// cmpAffineConst rewrites a signed 64-bit comparison between k*x + c (|k| > 1) and a constant into a
// comparison of x with the exact integer threshold, after the solver has shown that k*x + c does not
// wrap around on this path. Returns nil when not applicable. op is one of OpSlt, OpSle with operands
// (a, b) in that order.
func (x *Exec) cmpAffineConst(op Op, a, b *Term) *Term {
	if !optAffine || a.w != 64 || x.spec != nil || (a.op == OpConst) == (b.op == OpConst) {
		return nil
	}
	st := x.st
	// normalise to  N <= C  or  N >= C  over the integers
	var n *Term
	var C *big.Int
	var le bool
	if b.op == OpConst { // N op C
		n, C, le = a, big.NewInt(int64(b.c)), true
		if op == OpSlt {
			C.Sub(C, big.NewInt(1))
		}
	} else { // C op N
		n, C, le = b, big.NewInt(int64(a.c)), false
		if op == OpSlt {
			C.Add(C, big.NewInt(1))
		}
	}
	f, ok := st.affineOf(n, 0)
	if !ok || f.x == nil || f.k == 0 || f.k == 1 || f.k == -1 {
		return nil
	}
	if !f.restrict(big.NewInt(math.MinInt64), big.NewInt(math.MaxInt64)) {
		return nil
	}
	if !(f.lo <= f.slo && f.hi >= f.shi) {
		inRange := st.And(st.Cmp(OpSle, st.Const(64, uint64(f.lo)), f.x), st.Cmp(OpSle, f.x, st.Const(64, uint64(f.hi))))
		if inRange.op == OpConst {
			if inRange.c == 0 {
				return nil
			}
		} else if x.check(st.Not(inRange), false) != Unsat {
			return nil
		}
	}
	// k*x + c <= C  <=>  x <= floor((C-c)/k)   (k > 0)     x >= ceil((C-c)/k)  (k < 0)
	// k*x + c >= C  <=>  x >= ceil((C-c)/k)    (k > 0)     x <= floor((C-c)/k) (k < 0)
	num := new(big.Int).Sub(C, big.NewInt(f.c))
	k := big.NewInt(f.k)
	if k.Sign() < 0 { // same rational with a positive denominator
		num.Neg(num)
		k.Neg(k)
	}
	fl, rem := new(big.Int).DivMod(num, k, new(big.Int)) // Euclidean, k > 0: fl = floor(num/k)
	ce := new(big.Int).Set(fl)
	if rem.Sign() != 0 {
		ce.Add(ce, big.NewInt(1))
	}
	upper := le == (f.k > 0) // the result is an upper bound on x
	bound := func(t *big.Int, isUpper bool) *Term {
		if isUpper { // x <= t
			if t.Cmp(big.NewInt(math.MaxInt64)) >= 0 {
				return st.Bool(true)
			}
			if t.Cmp(big.NewInt(math.MinInt64)) < 0 {
				return st.Bool(false)
			}
			return st.Cmp(OpSle, f.x, st.Const(64, uint64(t.Int64())))
		}
		if t.Cmp(big.NewInt(math.MinInt64)) <= 0 {
			return st.Bool(true)
		}
		if t.Cmp(big.NewInt(math.MaxInt64)) > 0 {
			return st.Bool(false)
		}
		return st.Cmp(OpSle, st.Const(64, uint64(t.Int64())), f.x)
	}
	if upper {
		return bound(fl, true)
	}
	return bound(ce, false)
}
