package main

import (
	"fmt"
	"go/token"
)

const tokenADD = token.ADD

// Clock model: time.Now() returns a wall-clock-only Time (no monotonic reading, location UTC)
// with symbolic seconds in [clockMin, clockMax] and nanoseconds < 1e9; successive calls are
// non-decreasing. Everything else in package time is interpreted from the standard library.
// The native replay substitutes time.Now() by verif.Now() = time.Unix(sec, nsec), i.e. the same
// clock model.
const (
	clockMin       = 1500000000 // 2017-07-14
	clockMax       = 4000000000 // 2096-10-02
	unixToInternal = 62135596800
)

type nowRec struct{ sec, nsec *Term }

func (x *Exec) nowTime() Value {
	k := x.nowCount
	x.nowCount++
	suffix := ""
	if k > 0 {
		suffix = fmt.Sprintf("#%d", k)
	}
	st := x.st
	sec := st.Var("now.sec"+suffix, 64)
	nsec := st.Var("now.nsec"+suffix, 64)
	x.inputs = append(x.inputs, inputVar{Name: "now.sec" + suffix, T: sec, Kind: "u64"})
	x.inputs = append(x.inputs, inputVar{Name: "now.nsec" + suffix, T: nsec, Kind: "u64"})
	x.addPC(st.And(st.Cmp(OpUle, st.Const(64, clockMin), sec), st.Cmp(OpUle, sec, st.Const(64, clockMax))))
	x.addPC(st.Cmp(OpUlt, nsec, st.Const(64, 1000000000)))
	if p := x.lastNow; p != nil && x.eng.cfg.Params["frozenclock"] == 1 {
		// instance parameter frozenclock=1 (C13 differential): the clock does not advance during the
		// run. Later readings are inputs constrained equal to the first one (the native replay reads
		// them one by one); the value handed to the program is the first reading itself.
		x.addPC(st.And(st.Eq(p.sec, sec), st.Eq(p.nsec, nsec)))
		ext := st.Bin(OpBvAdd, p.sec, st.Const(64, unixToInternal))
		return Struct{fromTerm(p.nsec), fromTerm(ext), (*Value)(nil)}
	}
	if p := x.lastNow; p != nil {
		later := st.Or(st.Cmp(OpUlt, p.sec, sec), st.And(st.Eq(p.sec, sec), st.Cmp(OpUle, p.nsec, nsec)))
		x.addPC(later)
	}
	x.lastNow = &nowRec{sec, nsec}
	ext := st.Bin(OpBvAdd, sec, st.Const(64, unixToInternal))
	return Struct{fromTerm(nsec), fromTerm(ext), (*Value)(nil)}
}

func registerTimeNatives(e *Engine) {
	n := e.natives
	n["time.Now"] = func(x *Exec, fr *frame, a []Value) Value { return x.nowTime() }
	n[verifPkg+".Now"] = n["time.Now"]
	n["time.runtimeNano"] = func(x *Exec, fr *frame, a []Value) Value { return uint64(1 << 30) }
	n["time.Sleep"] = nativeNoop
}
