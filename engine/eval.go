package main

// Concrete evaluation of terms and tabulation of hard arithmetic over tiny supports.
//
// 64-bit multiply / divide / remainder by constants such as 10^9 (package time) defeat the
// bit-blasting back ends. When such an operation depends on very few input bits (e.g. the 8-bit
// ExpTime of a hop field) it is replaced by an exact lookup table: an ite chain over the values of
// the input variable, each entry computed with evalTerm. The table is a function of the same
// variable, so the rewrite is an equivalence, not an abstraction.

const tabulateMaxBits = 9

// evalTerm evaluates t (w<=64 or Bool) under env (variable id -> value). ok=false when the term
// contains an uninterpreted function, a wide vector or an unbound variable.
func (s *Store) evalTerm(t *Term, env map[int]uint64, memo map[int]uint64) (uint64, bool) {
	if t.op == OpConst {
		if t.w > 64 {
			return 0, false
		}
		return t.c, true
	}
	if v, ok := memo[t.id]; ok {
		return v, true
	}
	if t.w > 64 {
		return 0, false
	}
	var args [3]uint64
	if t.op != OpVar && t.op != OpUF {
		if len(t.args) > 3 {
			return 0, false
		}
		for i, a := range t.args {
			v, ok := s.evalTerm(a, env, memo)
			if !ok {
				return 0, false
			}
			args[i] = v
		}
	}
	var r uint64
	b2u := func(b bool) uint64 {
		if b {
			return 1
		}
		return 0
	}
	switch t.op {
	case OpVar:
		v, ok := env[t.id]
		if !ok {
			return 0, false
		}
		r = v
	case OpUF:
		return 0, false
	case OpNot:
		r = args[0] ^ 1
	case OpAnd:
		r = args[0] & args[1]
	case OpOr:
		r = args[0] | args[1]
	case OpBXor:
		r = args[0] ^ args[1]
	case OpIte:
		if args[0] != 0 {
			r = args[1]
		} else {
			r = args[2]
		}
	case OpEq:
		r = b2u(args[0] == args[1])
	case OpUlt:
		r = b2u(args[0] < args[1])
	case OpUle:
		r = b2u(args[0] <= args[1])
	case OpSlt:
		w := t.args[0].w
		r = b2u(sext64(args[0], w) < sext64(args[1], w))
	case OpSle:
		w := t.args[0].w
		r = b2u(sext64(args[0], w) <= sext64(args[1], w))
	case OpBvAdd, OpBvSub, OpBvMul, OpBvUDiv, OpBvURem, OpBvSDiv, OpBvSRem, OpBvAnd, OpBvOr, OpBvXor, OpBvShl, OpBvLShr, OpBvAShr:
		if (t.op == OpBvSDiv || t.op == OpBvSRem) && args[1] == 0 {
			// SMT-LIB semantics of signed division by zero
			w := t.w
			if t.op == OpBvSRem {
				r = args[0]
			} else if sext64(args[0], w) < 0 {
				r = 1
			} else {
				r = mask(w)
			}
			break
		}
		v, ok := s.binConst(t.op, t.w, args[0], args[1])
		if !ok {
			return 0, false
		}
		r = v
	case OpBvNot:
		r = ^args[0] & mask(t.w)
	case OpBvNeg:
		r = (-args[0]) & mask(t.w)
	case OpConcat:
		r = args[0]<<t.args[1].w | args[1]
	case OpExtract:
		hi, lo := uint16(t.c>>16), uint16(t.c&0xffff)
		r = (args[0] >> lo) & mask(hi-lo+1)
	case OpSExt:
		r = uint64(sext64(args[0], t.args[0].w)) & mask(t.w)
	default:
		return 0, false
	}
	memo[t.id] = r
	return r, true
}

// smallSupport collects the variables t depends on; ok=false if there are too many bits, a UF or a
// wide sub-term.
func (s *Store) smallSupport(t *Term, limit int) (vars []*Term, ok bool) {
	seen := map[int]bool{}
	bits := 0
	nodes := 0
	var walk func(x *Term) bool
	walk = func(x *Term) bool {
		if x.op == OpConst || seen[x.id] {
			return true
		}
		seen[x.id] = true
		nodes++
		if nodes > 400 || x.w > 64 {
			return false
		}
		switch x.op {
		case OpUF:
			return false
		case OpVar:
			w := int(x.w)
			if w == 0 {
				w = 1
			}
			bits += w
			if bits > limit {
				return false
			}
			vars = append(vars, x)
			return true
		}
		for _, a := range x.args {
			if !walk(a) {
				return false
			}
		}
		return true
	}
	if !walk(t) {
		return nil, false
	}
	return vars, len(vars) > 0
}

// tabulate returns an ite chain equal to op(a, b) when the operation depends on at most
// tabulateMaxBits input bits; nil otherwise.
func (s *Store) tabulate(op Op, a, b *Term) *Term {
	return s.tabulateTerm(s.mk(op, a.w, 0, "", []*Term{a, b}))
}

// tabulateTerm returns the lookup-table form of raw (nil if its support is not tiny).
func (s *Store) tabulateTerm(raw *Term) *Term {
	a := raw
	vars, ok := s.smallSupport(raw, tabulateMaxBits)
	if !ok {
		return nil
	}
	total := 0
	for _, v := range vars {
		w := int(v.w)
		if w == 0 {
			w = 1
		}
		total += w
	}
	n := 1 << total
	vals := make([]uint64, n)
	env := map[int]uint64{}
	for k := 0; k < n; k++ {
		rest := uint64(k)
		for _, v := range vars {
			w := v.w
			if w == 0 {
				w = 1
			}
			env[v.id] = rest & mask(w)
			rest >>= w
		}
		val, ok := s.evalTerm(raw, env, map[int]uint64{})
		if !ok {
			return nil
		}
		vals[k] = val
	}
	// key term: concatenation of the variables (first variable in the low bits)
	var key *Term
	for _, v := range vars {
		vt := v
		if v.w == 0 {
			vt = s.BoolToBV(v, 1)
		}
		if key == nil {
			key = vt
		} else {
			key = s.Concat(vt, key)
		}
	}
	// balanced multiplexer tree over the key bits (most significant first): depth = number of
	// input bits, equal sub-tables collapse, and equal tables become the same hash-consed term
	var build func(lo, hi int, bit int) *Term
	build = func(lo, hi int, bit int) *Term {
		same := true
		for k := lo + 1; k < hi; k++ {
			if vals[k] != vals[lo] {
				same = false
				break
			}
		}
		if same || bit < 0 {
			return s.Const(a.w, vals[lo])
		}
		mid := lo + (hi-lo)/2
		c := s.Eq(s.Extract(key, uint16(bit), uint16(bit)), s.Const(1, 1))
		return s.Ite(c, build(mid, hi, bit-1), build(lo, mid, bit-1))
	}
	return build(0, n, total-1)
}

// evalTermDefault evaluates t under env; variables missing from env are set to zero in env (they
// are unconstrained when env is a solver model of everything asserted so far).
func (s *Store) evalTermDefault(t *Term, env map[int]uint64) (uint64, bool) {
	vars, ok := s.supportVars(t)
	if !ok {
		return 0, false
	}
	for _, v := range vars {
		if _, ok := env[v.id]; !ok {
			env[v.id] = 0
		}
	}
	return s.evalTerm(t, env, map[int]uint64{})
}

// supportVars lists the variables of t; ok=false if t contains a UF or a wide sub-term.
func (s *Store) supportVars(t *Term) ([]*Term, bool) {
	seen := map[int]bool{}
	var vars []*Term
	stack := []*Term{t}
	for len(stack) > 0 {
		x := stack[len(stack)-1]
		stack = stack[:len(stack)-1]
		if x.op == OpConst || seen[x.id] {
			continue
		}
		seen[x.id] = true
		if x.w > 64 || x.op == OpUF || len(seen) > 20000 {
			return nil, false
		}
		if x.op == OpVar {
			vars = append(vars, x)
			continue
		}
		stack = append(stack, x.args...)
	}
	return vars, true
}
