package main

// Intrinsics for text-processing library functions on strings with symbolic bytes (C46, C47).

func init() {
	extraNatives = append(extraNatives, func(e *Engine) {
		// strings.genSplit(s, sep, sepSave, n): the library version computes Count(s, sep)+1 first and
		// allocates that many parts, which for a symbolic s makes the length of the allocation a
		// value-enumeration decision (model queries over the whole path condition). This summary
		// searches the separators left to right with one branch decision per position instead
		// (same result: non-overlapping occurrences, leftmost first, at most n parts).
		e.natives["strings.genSplit"] = func(x *Exec, fr *frame, a []Value) Value {
			s, sym := a[0].(*SymStr)
			if !sym {
				return declineNative
			}
			sepS, ok := a[1].(string)
			if !ok || sepS == "" {
				return declineNative
			}
			sepSave := x.goInt(a[2], "genSplit sepSave")
			n := x.goInt(a[3], "genSplit n")
			if n == 0 {
				return []Value(nil)
			}
			sep := strBytes(sepS)
			b := s.b
			var parts []Value
			start := 0
			for i := 0; i+len(sep) <= len(b) && (n < 0 || len(parts) < n-1); {
				if x.truth(x.bytesEq(b[i:i+len(sep)], sep)) {
					parts = append(parts, mkStr(b[start:i+sepSave]))
					i += len(sep)
					start = i
				} else {
					i++
				}
			}
			parts = append(parts, mkStr(b[start:]))
			return parts
		}
	})
}
