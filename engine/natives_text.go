package main

// Intrinsics for text-processing library functions on strings with symbolic bytes (C46, C47).

func init() {
	extraNatives = append(extraNatives, func(e *Engine) {
		// sort.Slice(x any, less func(i, j int) bool): insertion sort over the slice cells calling the
		// interpreted less (the library version goes through reflect). Not stable, like the original;
		// callers whose result depends on the order of equal elements must not rely on it.
		e.natives["sort.Slice"] = func(x *Exec, fr *frame, a []Value) Value {
			it, ok := a[0].(Iface)
			if !ok {
				x.unsupported("sort.Slice: argument is %T", a[0])
			}
			sl, ok := it.v.([]Value)
			if !ok {
				x.unsupported("sort.Slice of %T", it.v)
			}
			less := func(i, j int) bool {
				return x.truth(x.callValue(fr, 0, a[1], []Value{uint64(i), uint64(j)}))
			}
			for i := 1; i < len(sl); i++ {
				for j := i; j > 0 && less(j, j-1); j-- {
					vi, vj := sl[j], sl[j-1]
					x.write(&sl[j], vj, nil)
					x.write(&sl[j-1], vi, nil)
				}
			}
			return nil
		}
		// strings.genSplit(s, sep, sepSave, n): the library version computes Count(s, sep)+1 first and
		// allocates that many parts, which for a symbolic s makes the length of the allocation a
		// value-enumeration decision (model queries over the whole path condition). This summary
		// searches the separators left to right with one branch decision per position instead
		// (same result: non-overlapping occurrences, leftmost first, at most n parts).
		e.natives["strings.genSplit"] = func(x *Exec, fr *frame, a []Value) Value {
			s, sym := a[0].(*SymStr)
			if !sym {
				return declineNative
			}
			sepS, ok := a[1].(string)
			if !ok || sepS == "" {
				return declineNative
			}
			sepSave := x.goInt(a[2], "genSplit sepSave")
			n := x.goInt(a[3], "genSplit n")
			if n == 0 {
				return []Value(nil)
			}
			sep := strBytes(sepS)
			b := s.b
			var parts []Value
			start := 0
			for i := 0; i+len(sep) <= len(b) && (n < 0 || len(parts) < n-1); {
				if x.truth(x.bytesEq(b[i:i+len(sep)], sep)) {
					parts = append(parts, mkStr(b[start:i+sepSave]))
					i += len(sep)
					start = i
				} else {
					i++
				}
			}
			parts = append(parts, mkStr(b[start:]))
			return parts
		}
	})
}
