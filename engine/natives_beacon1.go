package main

// Intrinsics added for the beaconing checks (C22, C23).

import (
	"go/types"
	"math"
)

// pbFlatten appends a deterministic, injective (per message type) flattening of the exported fields
// of a protobuf message value: fixed-width big-endian integers, length-prefixed byte strings,
// count-prefixed repeated fields, presence byte for sub-messages. This is the `pbenc` stub of
// DESIGN 5.1: "same fields <=> same bytes" is all that is used; the wire format is not modelled.
func (x *Exec) pbFlatten(out []Value, t types.Type, v Value, depth int) []Value {
	if depth > 12 {
		x.unsupported("proto.Marshal stub: message nesting too deep")
	}
	u32 := func(n int) {
		out = append(out, uint64(byte(n>>24)), uint64(byte(n>>16)), uint64(byte(n>>8)), uint64(byte(n)))
	}
	switch tt := t.Underlying().(type) {
	case *types.Basic:
		if w, _, ok := intInfo(tt); ok {
			switch n := v.(type) {
			case uint64:
				for i := int(w) - 8; i >= 0; i -= 8 {
					out = append(out, (n>>uint(i))&0xff)
				}
			case *Term:
				for i := int(w) - 8; i >= 0; i -= 8 {
					out = append(out, fromTerm(x.st.Extract(n, uint16(i+7), uint16(i))))
				}
			default:
				x.unsupported("proto.Marshal stub: integer value %T", v)
			}
			return out
		}
		if isBoolT(tt) {
			switch b := v.(type) {
			case bool:
				if b {
					return append(out, uint64(1))
				}
				return append(out, uint64(0))
			case *Term:
				return append(out, fromTerm(x.st.BoolToBV(b, 8)))
			}
		}
		if isStringT(tt) {
			b := strBytes(v)
			u32(len(b))
			return append(out, b...)
		}
		if _, ok := isFloat(tt); ok {
			if f, ok := v.(float64); ok {
				bits := math.Float64bits(f)
				for i := 56; i >= 0; i -= 8 {
					out = append(out, (bits>>uint(i))&0xff)
				}
				return out
			}
		}
		x.unsupported("proto.Marshal stub: field of type %s", t)
	case *types.Slice:
		s, _ := v.([]Value)
		u32(len(s))
		if w, _, ok := intInfo(tt.Elem()); ok && w == 8 {
			return append(out, s...)
		}
		for _, e := range s {
			out = x.pbFlatten(out, tt.Elem(), e, depth+1)
		}
		return out
	case *types.Pointer:
		p, _ := v.(*Value)
		if p == nil {
			return append(out, uint64(0))
		}
		out = append(out, uint64(1))
		return x.pbFlatten(out, tt.Elem(), *p, depth+1)
	case *types.Struct:
		s := v.(Struct)
		for i := 0; i < tt.NumFields(); i++ {
			if !tt.Field(i).Exported() {
				continue // MessageState, sizeCache, unknownFields
			}
			out = x.pbFlatten(out, tt.Field(i).Type(), s[i], depth+1)
		}
		return out
	case *types.Interface:
		if itf, ok := v.(Iface); ok && itf.t == nil {
			return append(out, uint64(0))
		}
		x.unsupported("proto.Marshal stub: non-nil oneof field")
	case *types.Map:
		if m, _ := v.(*Map); m.Len() == 0 {
			return append(out, uint64(0))
		}
		x.unsupported("proto.Marshal stub: non-empty map field (ordering not modelled)")
	}
	x.unsupported("proto.Marshal stub: field of type %s", t)
	return out
}

func init() {
	extraNatives = append(extraNatives, func(e *Engine) {
		marshal := func(x *Exec, fr *frame, a []Value) Value {
			m := a[0].(Iface)
			if m.t == nil {
				return Tuple{[]Value(nil), Iface{}}
			}
			out := x.pbFlatten([]Value{}, m.t, m.v, 0)
			return Tuple{out, Iface{}}
		}
		e.natives["google.golang.org/protobuf/proto.Marshal"] = marshal
	})
}
