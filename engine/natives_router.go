package main

// Intrinsics needed by the router-step harnesses.

func init() {
	extraNatives = append(extraNatives, func(e *Engine) {
		n := e.natives
		// process environment: unset (the defaults of the code under test apply)
		n["os.Getenv"] = func(x *Exec, fr *frame, a []Value) Value { return "" }
		n["os.LookupEnv"] = func(x *Exec, fr *frame, a []Value) Value { return Tuple{"", false} }
		// compiler intrinsic without a Go body
		n["crypto/internal/constanttime.boolToUint8"] = func(x *Exec, fr *frame, a []Value) Value {
			switch b := a[0].(type) {
			case bool:
				if b {
					return uint64(1)
				}
				return uint64(0)
			case *Term:
				return fromTerm(x.st.BoolToBV(b, 8))
			}
			panic("boolToUint8: not a bool")
		}
	})
}
