package main

// String-producing intrinsics: fmt verbs, strconv.Format* of symbolic integers (summarised by the
// defining relation value = Σ digit_i·base^i, no leading zero), strings.Builder.

import (
	"fmt"
	"go/types"
	"math/bits"
	"strings"
)

type declineT struct{}

// declineNative is returned by an intrinsic that wants the real body to be interpreted.
var declineNative = &declineT{}

func constBytes(s string) []Value {
	out := make([]Value, len(s))
	for i := 0; i < len(s); i++ {
		out[i] = uint64(s[i])
	}
	return out
}

func digitChar(x *Exec, d *Term) Value {
	// d: 8-bit digit value 0..35
	st := x.st
	lt10 := st.Cmp(OpUlt, d, st.Const(8, 10))
	c := st.Ite(lt10, st.Bin(OpBvAdd, d, st.Const(8, '0')), st.Bin(OpBvAdd, d, st.Const(8, 'a'-10)))
	if c.op != OpConst {
		// remembered so that digitOfChar(digitChar(d)) is d syntactically (valid because every caller
		// has d < base <= 36 on the path)
		x.ghost[fmt.Sprintf("$digitof:%d", c.id)] = d
	}
	return fromTerm(c)
}

// hornerWidth returns the bit width (>= 8) that holds every value of an L-digit numeral in the given
// base, and base^L - 1; ok=false when that needs more than 63 bits.
func hornerWidth(base uint64, L int) (w uint16, maxNum uint64, ok bool) {
	p := uint64(1)
	for i := 0; i < L; i++ {
		if p > (uint64(1)<<63)/base {
			return 0, 0, false
		}
		p *= base
	}
	w = uint16(bits.Len64(p - 1))
	if w < 8 {
		w = 8
	}
	return w, p - 1, true
}

// hornerStep is acc·base + d at the accumulator's width (d: 8-bit digit).
func hornerStep(st *Store, acc *Term, base uint64, d *Term) *Term {
	return st.Bin(OpBvAdd, st.Bin(OpBvMul, acc, st.Const(acc.w, base)), st.ZExt(d, acc.w-8))
}

// symFormatUint renders the unsigned value v (width w<=64) in the given base. The number of
// digits is a decision point; for bases that are powers of two the digits are bit slices, for other
// bases they are fresh variables tied to v by the Horner relation.
func (x *Exec) symFormatUint(v *Term, base uint64) []Value {
	// formatting is a function: the same term in the same base yields the same characters (and no
	// second set of digit variables); the digit-count decisions are replayed from the path condition
	ckey := fmt.Sprintf("$fmtuint:%d:%d", v.id, base)
	if c, ok := x.ghost[ckey]; ok {
		return append([]Value(nil), c.([]Value)...)
	}
	out := x.symFormatUint1(v, base)
	x.ghost[ckey] = append([]Value(nil), out...)
	return out
}

func (x *Exec) symFormatUint1(v *Term, base uint64) []Value {
	st := x.st
	w := v.w
	maxv := mask(w)
	if hi, ok := st.maxU(v); ok {
		maxv = hi
	}
	// number of digits L: base^(L-1) <= v < base^L  (L=1 for v=0)
	maxL := 1
	for p := base; p <= maxv && p != 0; p *= base {
		maxL++
		if p > maxv/base {
			break
		}
	}
	L := 1
	pow := base // base^L
	for ; L < maxL; L++ {
		if x.branch(st.Cmp(OpUlt, v, st.Const(w, pow))) {
			break
		}
		pow *= base
	}
	out := make([]Value, L)
	if base&(base-1) == 0 {
		sh := uint16(0)
		for b := base; b > 1; b >>= 1 {
			sh++
		}
		for i := 0; i < L; i++ { // digit i counts from the least significant
			lo := uint16(i) * sh
			var d *Term
			if lo >= w {
				d = st.Const(8, 0)
			} else {
				hi := lo + sh - 1
				if hi >= w {
					hi = w - 1
				}
				d = st.ZExt(st.Extract(v, hi, lo), 8-(hi-lo+1))
			}
			out[L-1-i] = digitChar(x, d)
		}
		return out
	}
	// Fresh digits, most significant first; the characters are digitChar(digit). The value relation
	// is stated with exactly the Horner shape (and width) that the ParseUint summary builds for a
	// numeral of L characters, so that parse(format(v)) is syntactically the term equated with v.
	k := x.seq["$fmtdigits"]
	x.seq["$fmtdigits"] = k + 1
	v64 := st.ZExt(v, 64-w)
	hw, _, narrow := hornerWidth(base, L)
	if !narrow {
		hw = 64 // only L = 20 decimal digits of a 64-bit value and the like
	}
	acc := st.Const(hw, 0)
	for i := 0; i < L; i++ {
		d := st.Var(fmt.Sprintf("$digit%d.%d", k, i), 8)
		x.addPC(st.Cmp(OpUlt, d, st.Const(8, base)))
		if i == 0 && L > 1 {
			x.addPC(st.Not(st.Eq(d, st.Const(8, 0))))
		}
		if !narrow {
			// exact integer arithmetic: neither the multiplication nor the addition wraps
			x.addPC(st.Cmp(OpUle, acc, st.Const(64, ^uint64(0)/base)))
			next := hornerStep(st, acc, base, d)
			x.addPC(st.Cmp(OpUle, st.Bin(OpBvMul, acc, st.Const(64, base)), next))
			acc = next
		} else {
			acc = hornerStep(st, acc, base, d)
		}
		out[i] = digitChar(x, d)
	}
	x.addPC(st.Eq(st.ZExt(acc, 64-hw), v64))
	return out
}

// digitOfChar is the digit value of a character as strconv.ParseUint computes it (255 = invalid).
func (x *Exec) digitOfChar(c *Term) *Term {
	st := x.st
	if d, ok := x.ghost[fmt.Sprintf("$digitof:%d", c.id)]; ok {
		return d.(*Term)
	}
	isDig := st.And(st.Cmp(OpUle, st.Const(8, '0'), c), st.Cmp(OpUle, c, st.Const(8, '9')))
	lower := st.Bin(OpBvOr, c, st.Const(8, 0x20))
	isLet := st.And(st.Cmp(OpUle, st.Const(8, 'a'), lower), st.Cmp(OpUle, lower, st.Const(8, 'z')))
	return st.Ite(isDig, st.Bin(OpBvSub, c, st.Const(8, '0')),
		st.Ite(isLet, st.Bin(OpBvAdd, st.Bin(OpBvSub, lower, st.Const(8, 'a')), st.Const(8, 10)), st.Const(8, 255)))
}

func (x *Exec) fmtInt(v Value, t types.Type, base uint64) []Value {
	w, signed, ok := intInfo(t)
	if !ok {
		x.unsupported("integer formatting of %s", t)
	}
	switch n := v.(type) {
	case uint64:
		if signed {
			return constBytes(fmtInt64(sext64(n, w), base))
		}
		return constBytes(fmtUint64(n, base))
	case *Term:
		if signed {
			neg := x.branch(x.st.Cmp(OpSlt, n, x.st.Const(w, 0)))
			if neg {
				return append(constBytes("-"), x.symFormatUint(x.st.BvNeg(n), base)...)
			}
		}
		return x.symFormatUint(n, base)
	}
	x.unsupported("integer formatting of %T", v)
	return nil
}

func fmtInt64(v int64, base uint64) string {
	if v < 0 {
		return "-" + fmtUint64(uint64(-v), base)
	}
	return fmtUint64(uint64(v), base)
}

func fmtUint64(v uint64, base uint64) string {
	if v == 0 {
		return "0"
	}
	var b []byte
	for v > 0 {
		d := v % base
		if d < 10 {
			b = append([]byte{byte('0' + d)}, b...)
		} else {
			b = append([]byte{byte('a' + d - 10)}, b...)
		}
		v /= base
	}
	return string(b)
}

// fmtArg renders one operand for the verbs %v %s %d %x.
func (x *Exec) fmtArg(verb byte, a Value) []Value {
	it, ok := a.(Iface)
	if !ok {
		return constBytes(valString(a))
	}
	if it.t == nil {
		return constBytes("<nil>")
	}
	if verb == 'd' || verb == 'x' {
		if _, _, isInt := intInfo(it.t); isInt {
			base := uint64(10)
			if verb == 'x' {
				base = 16
			}
			return x.fmtInt(it.v, it.t, base)
		}
	}
	if verb == 's' || verb == 'v' || verb == 'q' {
		// error / Stringer
		if m := x.eng.methodByName(it.t, "Error"); m != nil && m.Signature.Params().Len() == 0 && types.Implements(it.t, errorIface) {
			if x.fmtDepth > 3 {
				return constBytes("<error>")
			}
			x.fmtDepth++
			r := x.call(nil, m, []Value{it.v})
			x.fmtDepth--
			return strBytes(r)
		}
		if m := x.eng.methodByName(it.t, "String"); m != nil && m.Signature.Params().Len() == 0 && m.Signature.Results().Len() == 1 && isStringT(m.Signature.Results().At(0).Type()) {
			if x.fmtDepth > 3 {
				return constBytes("<stringer>")
			}
			x.fmtDepth++
			r := x.call(nil, m, []Value{it.v})
			x.fmtDepth--
			return strBytes(r)
		}
	}
	switch v := it.v.(type) {
	case string, *SymStr:
		return strBytes(v)
	case uint64, *Term:
		if _, _, isInt := intInfo(it.t); isInt {
			return x.fmtInt(v, it.t, 10)
		}
		if b, isB := v.(*Term); isB && b.w == 0 {
			if x.branch(b) {
				return constBytes("true")
			}
			return constBytes("false")
		}
	case bool:
		return constBytes(fmt.Sprint(v))
	case float64:
		return constBytes(fmt.Sprint(v))
	case []Value:
		if sl, isS := it.t.Underlying().(*types.Slice); isS {
			if b, isB := sl.Elem().Underlying().(*types.Basic); isB && b.Kind() == types.Uint8 && verb == 's' {
				return v
			}
		}
	}
	return constBytes("<" + it.t.String() + ">")
}

// format implements the subset of fmt verbs used on value-carrying paths (%v %s %d %x %q %%,
// without flags); anything else is rendered as an opaque placeholder.
func (x *Exec) format(f Value, args []Value) Value {
	fs, ok := f.(string)
	if !ok {
		return "<symbolic format>"
	}
	var out []Value
	ai := 0
	for i := 0; i < len(fs); i++ {
		c := fs[i]
		if c != '%' || i+1 >= len(fs) {
			out = append(out, uint64(c))
			continue
		}
		i++
		verb := fs[i]
		if verb == '%' {
			out = append(out, uint64('%'))
			continue
		}
		// skip flags / width (rendered without them)
		for (verb == '+' || verb == '-' || verb == '#' || verb == ' ' || verb == '.' || (verb >= '0' && verb <= '9')) && i+1 < len(fs) {
			i++
			verb = fs[i]
		}
		if ai >= len(args) {
			out = append(out, constBytes("%!"+string(verb)+"(MISSING)")...)
			continue
		}
		out = append(out, x.fmtArg(verb, args[ai])...)
		ai++
	}
	return mkStr(out)
}

func registerStringNatives(e *Engine) {
	n := e.natives
	n["strconv.FormatUint"] = func(x *Exec, fr *frame, a []Value) Value {
		v, sym := a[0].(*Term)
		if !sym {
			return declineNative
		}
		base := x.goInt(a[1], "FormatUint base")
		return mkStr(x.symFormatUint(v, uint64(base)))
	}
	n["strconv.FormatInt"] = func(x *Exec, fr *frame, a []Value) Value {
		if _, sym := a[0].(*Term); !sym {
			return declineNative
		}
		base := x.goInt(a[1], "FormatInt base")
		return mkStr(x.fmtInt(a[0], types.Typ[types.Int64], uint64(base)))
	}
	n["strconv.Itoa"] = func(x *Exec, fr *frame, a []Value) Value {
		if _, sym := a[0].(*Term); !sym {
			return declineNative
		}
		return mkStr(x.fmtInt(a[0], types.Typ[types.Int], 10))
	}
	// strings.Builder: {addr *Builder; buf []byte}
	bufOf := func(x *Exec, recv Value) *Value {
		p := recv.(*Value)
		if p == nil {
			x.tpanic("nil *strings.Builder")
		}
		return &(*p).(Struct)[1]
	}
	n["(*strings.Builder).String"] = func(x *Exec, fr *frame, a []Value) Value {
		return mkStr((*bufOf(x, a[0])).([]Value))
	}
	n["(*strings.Builder).Len"] = func(x *Exec, fr *frame, a []Value) Value {
		return uint64(len((*bufOf(x, a[0])).([]Value)))
	}
	n["(*strings.Builder).Cap"] = func(x *Exec, fr *frame, a []Value) Value {
		return uint64(cap((*bufOf(x, a[0])).([]Value)))
	}
	n["(*strings.Builder).Reset"] = func(x *Exec, fr *frame, a []Value) Value {
		x.write(bufOf(x, a[0]), []Value(nil), nil)
		return nil
	}
	n["(*strings.Builder).Grow"] = func(x *Exec, fr *frame, a []Value) Value { return nil }
	appendTo := func(x *Exec, recv Value, bs []Value) {
		b := bufOf(x, recv)
		cur := (*b).([]Value)
		nb := make([]Value, 0, len(cur)+len(bs))
		nb = append(append(nb, cur...), bs...)
		x.write(b, nb, nil)
	}
	n["(*strings.Builder).WriteString"] = func(x *Exec, fr *frame, a []Value) Value {
		bs := strBytes(a[1])
		appendTo(x, a[0], bs)
		return Tuple{uint64(len(bs)), Iface{}}
	}
	n["(*strings.Builder).Write"] = func(x *Exec, fr *frame, a []Value) Value {
		bs := a[1].([]Value)
		appendTo(x, a[0], bs)
		return Tuple{uint64(len(bs)), Iface{}}
	}
	n["(*strings.Builder).WriteByte"] = func(x *Exec, fr *frame, a []Value) Value {
		appendTo(x, a[0], []Value{a[1]})
		return Iface{}
	}
	n["(*strings.Builder).WriteRune"] = func(x *Exec, fr *frame, a []Value) Value {
		r, ok := a[1].(uint64)
		if !ok {
			x.unsupported("WriteRune of a symbolic rune")
		}
		s := string(rune(int32(uint32(r))))
		appendTo(x, a[0], constBytes(s))
		return Tuple{uint64(len(s)), Iface{}}
	}
	n["strings.Clone"] = func(x *Exec, fr *frame, a []Value) Value { return a[0] }
	_ = strings.Builder{}
}

// strconv.ParseUint on a string with symbolic bytes, summarised by its documented behaviour for an
// explicit base (2..36; no prefixes, no underscores): one three-way decision (ok / syntax error /
// range error) instead of one fork per character class.
func (x *Exec) symParseUint(fr *frame, s *SymStr, base int, bitSize int) Value {
	st := x.st
	numErr := func(errName string, val Value) Value {
		pkg := x.eng.pkgs["strconv"]
		x.ensureInit(pkg)
		g := pkg.Var(errName)
		errV := *x.globalAddr(g)
		tn := pkg.Type("NumError")
		var cell Value = Struct{"ParseUint", Value(s), errV}
		return Tuple{val, Iface{t: types.NewPointer(tn.Type()), v: &cell}}
	}
	if len(s.b) == 0 {
		return numErr("ErrSyntax", uint64(0))
	}
	if bitSize == 0 {
		bitSize = 64
	}
	if base < 2 || base > 36 || bitSize < 1 || bitSize > 64 {
		x.unsupported("strconv.ParseUint summary: base %d bitSize %d", base, bitSize)
	}
	maxVal := mask(uint16(bitSize))
	ub := uint64(base)
	allValid := st.Bool(true)    // every character is a digit of the base
	over := st.Bool(false)       // the value read so far exceeds maxVal (or wrapped)
	rangeFirst := st.Bool(false) // an overflow is detected before the first invalid character
	var n *Term
	hw, maxNum, narrow := hornerWidth(ub, len(s.b))
	if narrow {
		// numerals of this length cannot wrap at width hw: plain Horner form, overflow = "> maxVal"
		n = st.Const(hw, 0)
	} else {
		n = st.Const(64, 0)
	}
	cutoff := ^uint64(0)/ub + 1
	for _, cv := range s.b {
		c := x.toTerm(cv, 8)
		d := x.digitOfChar(c)
		valid := st.Cmp(OpUlt, d, st.Const(8, ub))
		if !x.pcSet[valid.id] { // digits produced by the Format summary are known to be valid
			allValid = st.And(allValid, valid)
		}
		if narrow {
			n = hornerStep(st, n, ub, d)
			if maxVal < maxNum {
				over = st.Cmp(OpUlt, st.Const(hw, maxVal), n) // monotone: the last comparison subsumes the earlier ones
			}
		} else {
			over = st.Or(over, st.Cmp(OpUle, st.Const(64, cutoff), n))
			prod := st.Bin(OpBvMul, n, st.Const(64, ub))
			n1 := st.Bin(OpBvAdd, prod, st.ZExt(d, 56))
			over = st.Or(over, st.Or(st.Cmp(OpUlt, n1, prod), st.Cmp(OpUlt, st.Const(64, maxVal), n1)))
			n = n1
		}
		rangeFirst = st.Or(rangeFirst, st.And(allValid, over))
	}
	if x.branch(st.Not(allValid)) {
		// strconv reports whichever comes first in the string
		if x.branch(rangeFirst) {
			return numErr("ErrRange", maxVal)
		}
		return numErr("ErrSyntax", uint64(0))
	}
	if x.branch(over) {
		return numErr("ErrRange", maxVal)
	}
	return Tuple{fromTerm(st.ZExt(n, 64-n.w)), Iface{}}
}

func init() {
	extraNatives = append(extraNatives, func(e *Engine) {
		e.natives["strconv.ParseUint"] = func(x *Exec, fr *frame, a []Value) Value {
			s, sym := a[0].(*SymStr)
			if !sym {
				return declineNative
			}
			return x.symParseUint(fr, s, x.goInt(a[1], "ParseUint base"), x.goInt(a[2], "ParseUint bitSize"))
		}
	})
}

var extraNatives []func(*Engine)
