package main

// Intrinsics for the SPAO / DRKey checks (C21, C39, C40).
//
//   - crypto entry points of the code under test are redirected to harness-level stubs (types
//     implementing hash.Hash / cipher.BlockMode on top of verif.UF) when the harness defines them:
//     spao.initCMAC -> spao.verifInitCMAC, drkey.initAESCBC -> drkey.verifInitAESCBC.
//     Natively (self-check, replay) the real AES code runs; harnesses therefore only observe and
//     assert (in)equalities of keys / MACs, under verif.AssumeInjective.
//   - pbkdf2.Key is an uninterpreted function of (password, salt).
//   - the generated protobuf registration (file_*_proto_init) is skipped; enum name maps and
//     message structs are plain Go values and keep working.

import (
	"strings"

	"golang.org/x/tools/go/ssa"
)

func init() {
	extraNatives = append(extraNatives, func(e *Engine) {
		redirect := func(pkg, from, to string) {
			p := e.pkgs[pkg]
			if p == nil {
				return
			}
			target := p.Func(to)
			if target == nil || p.Func(from) == nil {
				return
			}
			e.natives[pkg+"."+from] = func(x *Exec, fr *frame, a []Value) Value {
				x.eng.stubsUsed.Store(pkg+"."+from+" -> "+to, struct{}{})
				return x.call(fr, target, a)
			}
		}
		redirect("github.com/scionproto/scion/pkg/spao", "initCMAC", "verifInitCMAC")
		redirect("github.com/scionproto/scion/pkg/drkey", "initAESCBC", "verifInitAESCBC")

		e.natives["golang.org/x/crypto/pbkdf2.Key"] = func(x *Exec, fr *frame, a []Value) Value {
			// Key(password, salt []byte, iter, keyLen int, h func() hash.Hash) []byte
			n := x.goInt(a[3], "pbkdf2 key length")
			in := append(append([]Value{}, a[0].([]Value)...), a[1].([]Value)...)
			return x.applyUF("pbkdf2", n, in)
		}

		for path, p := range e.pkgs {
			if !strings.HasPrefix(path, "github.com/scionproto/scion/pkg/proto/") {
				continue
			}
			for name, m := range p.Members {
				if _, ok := m.(*ssa.Function); ok && strings.HasPrefix(name, "file_") && strings.HasSuffix(name, "_proto_init") {
					e.natives[path+"."+name] = nativeNoop
				}
			}
		}
	})
}
