package main

// Intrinsics for the SPAO / DRKey checks (C21, C39, C40).
//
//   - crypto entry points of the code under test are redirected to harness-level stubs (types
//     implementing hash.Hash / cipher.BlockMode on top of verif.UF) when the harness defines them:
//     spao.initCMAC -> spao.verifInitCMAC, drkey.initAESCBC -> drkey.verifInitAESCBC.
//     Natively (self-check, replay) the real AES code runs; harnesses therefore only observe and
//     assert (in)equalities of keys / MACs, under verif.AssumeInjective.
//   - pbkdf2.Key is an uninterpreted function of (password, salt).
//   - the generated protobuf registration (file_*_proto_init) is skipped; enum name maps and
//     message structs are plain Go values and keep working.

import (
	"go/types"
	"strings"

	"golang.org/x/tools/go/ssa"
)

func init() {
	extraNatives = append(extraNatives, func(e *Engine) {
		redirect := func(pkg, from, to string) {
			p := e.pkgs[pkg]
			if p == nil {
				return
			}
			target := p.Func(to)
			if target == nil || p.Func(from) == nil {
				return
			}
			e.natives[pkg+"."+from] = func(x *Exec, fr *frame, a []Value) Value {
				x.eng.stubsUsed.Store(pkg+"."+from+" -> "+to, struct{}{})
				return x.call(fr, target, a)
			}
		}
		redirect("github.com/scionproto/scion/pkg/spao", "initCMAC", "verifInitCMAC")
		redirect("github.com/scionproto/scion/pkg/drkey", "initAESCBC", "verifInitAESCBC")

		e.natives["golang.org/x/crypto/pbkdf2.Key"] = func(x *Exec, fr *frame, a []Value) Value {
			// Key(password, salt []byte, iter, keyLen int, h func() hash.Hash) []byte
			n := x.goInt(a[3], "pbkdf2 key length")
			in := append(append([]Value{}, a[0].([]Value)...), a[1].([]Value)...)
			return x.applyUF("pbkdf2", n, in)
		}

		// context.WithValue checks reflectlite.TypeOf(key).Comparable(); build the valueCtx directly
		// (keys used by the code under test are comparable struct / pointer keys).
		if cp := e.pkgs["context"]; cp != nil && cp.Type("valueCtx") != nil {
			vt := types.NewPointer(cp.Type("valueCtx").Type())
			e.natives["context.WithValue"] = func(x *Exec, fr *frame, a []Value) Value {
				if parent, ok := a[0].(Iface); !ok || parent.t == nil {
					x.tpanic("cannot create context from nil parent")
				}
				if key, ok := a[1].(Iface); !ok || key.t == nil {
					x.tpanic("nil key")
				}
				var cell Value = Struct{a[0], a[1], a[2]}
				return Iface{t: vt, v: &cell}
			}
		}

		// package net is not initialised (initSkipped); net.IP.Equal / To4 need v4InV6Prefix.
		prevNetHook := e.pkgInitHook["net"]
		e.pkgInitHook["net"] = func(x *Exec, pkg *ssa.Package) {
			if prevNetHook != nil {
				prevNetHook(x, pkg)
			}
			if g := pkg.Var("v4InV6Prefix"); g != nil {
				pre := make([]Value, 12)
				for i := range pre {
					pre[i] = uint64(0)
				}
				pre[10], pre[11] = uint64(0xff), uint64(0xff)
				*x.globals[g] = pre
			}
		}

		// Text forms of addresses with symbolic bytes only ever feed error / log messages here; a
		// concrete address is formatted by the real code.
		symAddrString := func(x *Exec, fr *frame, a []Value) Value {
			if hasSymbolic(a[0]) {
				return "<symbolic-address>"
			}
			return declineNative
		}
		e.natives["(net/netip.Addr).String"] = symAddrString
		e.natives["(net.IP).String"] = symAddrString

		for path, p := range e.pkgs {
			if !strings.HasPrefix(path, "github.com/scionproto/scion/pkg/proto/") {
				continue
			}
			for name, m := range p.Members {
				if _, ok := m.(*ssa.Function); ok && strings.HasPrefix(name, "file_") && strings.HasSuffix(name, "_proto_init") {
					e.natives[path+"."+name] = nativeNoop
				}
			}
		}
	})
}

// hasSymbolic reports whether a scalar / aggregate value contains a solver term (pointers are not
// followed, except the backing elements of slices).
func hasSymbolic(v Value) bool {
	switch v := v.(type) {
	case *Term, *SymStr:
		return true
	case Struct:
		for _, f := range v {
			if hasSymbolic(f) {
				return true
			}
		}
	case Array:
		for _, f := range v {
			if hasSymbolic(f) {
				return true
			}
		}
	case []Value:
		for _, f := range v {
			if hasSymbolic(f) {
				return true
			}
		}
	case Iface:
		return v.t != nil && hasSymbolic(v.v)
	}
	return false
}
