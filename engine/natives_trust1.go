package main

// Intrinsics and spec extensions added for the trust group (C32, C33):
//   - reflect.DeepEqual on interface values of basic dynamic type (pkix attribute values),
//   - "func_stubs": replacing one function/method of the code under test by a harness-level stub, both
//     in the interpreter (call redirection) and in native runs (source rewrite through the overlay),
//     so that engine and native replay execute the same thing.

import (
	"fmt"
	"go/ast"
	"go/parser"
	"go/token"
	"go/types"
	"os"
	"path/filepath"
	"strings"
)

func init() {
	extraNatives = append(extraNatives, func(e *Engine) {
		e.natives["reflect.DeepEqual"] = func(x *Exec, fr *frame, a []Value) Value {
			av, bv := a[0].(Iface), a[1].(Iface)
			if av.t == nil || bv.t == nil {
				return av.t == nil && bv.t == nil
			}
			if !types.Identical(av.t, bv.t) {
				return false
			}
			if _, ok := av.t.Underlying().(*types.Basic); !ok {
				x.unsupported("reflect.DeepEqual on values of type %s (only basic kinds are modelled)", av.t)
			}
			return x.equals(av.t, av.v, bv.v)
		}
	})
}

// FuncStub names a function of the code under test whose body is replaced by a call to a
// harness-level function with the same parameters (receiver first).
type FuncStub struct {
	File string `json:"file"` // repo-relative source file containing the function
	Recv string `json:"recv"` // receiver type name without '*' ("" for plain functions)
	Func string `json:"func"` // function / method name
	Stub string `json:"stub"` // package-level harness function taking (receiver, params...)
}

// registerFuncStubs redirects interpreter calls of the stubbed functions to the harness stubs.
func registerFuncStubs(e *Engine, spec *Spec) {
	for _, fs := range spec.FuncStubs {
		fs := fs
		pkgPath := "github.com/scionproto/scion/" + filepath.ToSlash(filepath.Dir(fs.File))
		var names []string
		if fs.Recv == "" {
			names = []string{pkgPath + "." + fs.Func}
		} else {
			names = []string{"(*" + pkgPath + "." + fs.Recv + ")." + fs.Func, "(" + pkgPath + "." + fs.Recv + ")." + fs.Func}
		}
		nat := func(x *Exec, fr *frame, a []Value) Value {
			pkg := x.eng.pkgs[pkgPath]
			if pkg == nil {
				x.unsupported("func_stubs: package %s not loaded", pkgPath)
			}
			x.eng.build(pkg)
			f := pkg.Func(fs.Stub)
			if f == nil {
				x.unsupported("func_stubs: harness function %s.%s not found", pkgPath, fs.Stub)
			}
			return x.call(fr.caller, f, a)
		}
		for _, n := range names {
			e.natives[n] = nat
		}
	}
}

// rewriteFuncStubs produces, for native runs, copies of the listed repo files in which each stubbed
// function keeps its original body under the name <func>VerifOrig and a new function of the original
// name forwards to the harness stub. The rest of the file is the current repo text.
func rewriteFuncStubs(spec *Spec, tmp string, replace map[string]string) error {
	byFile := map[string][]FuncStub{}
	for _, fs := range spec.FuncStubs {
		byFile[fs.File] = append(byFile[fs.File], fs)
	}
	k := 0
	for file, stubs := range byFile {
		path := filepath.Join(repoDir, file)
		if prev, ok := replace[path]; ok {
			path = prev // already rewritten (e.g. time.Now): stack on top
		}
		srcB, err := os.ReadFile(path)
		if err != nil {
			return err
		}
		src := string(srcB)
		fset := token.NewFileSet()
		af, err := parser.ParseFile(fset, file, src, parser.ParseComments)
		if err != nil {
			return err
		}
		type edit struct {
			off  int
			text string
		}
		var renames []edit
		var tail strings.Builder
		for _, fs := range stubs {
			var fd *ast.FuncDecl
			for _, d := range af.Decls {
				f, ok := d.(*ast.FuncDecl)
				if !ok || f.Name.Name != fs.Func {
					continue
				}
				recv := ""
				if f.Recv != nil && len(f.Recv.List) == 1 {
					t := f.Recv.List[0].Type
					if st, ok := t.(*ast.StarExpr); ok {
						t = st.X
					}
					if id, ok := t.(*ast.Ident); ok {
						recv = id.Name
					}
				}
				if recv == fs.Recv {
					fd = f
				}
			}
			if fd == nil || fd.Body == nil {
				return fmt.Errorf("func_stubs: %s.%s not found in %s", fs.Recv, fs.Func, file)
			}
			var args []string
			if fd.Recv != nil {
				if len(fd.Recv.List[0].Names) == 0 {
					return fmt.Errorf("func_stubs: %s.%s has an unnamed receiver", fs.Recv, fs.Func)
				}
				args = append(args, fd.Recv.List[0].Names[0].Name)
			}
			for _, p := range fd.Type.Params.List {
				if len(p.Names) == 0 {
					return fmt.Errorf("func_stubs: %s.%s has unnamed parameters", fs.Recv, fs.Func)
				}
				for _, n := range p.Names {
					a := n.Name
					if _, ok := p.Type.(*ast.Ellipsis); ok {
						a += "..."
					}
					args = append(args, a)
				}
			}
			nameOff := fset.Position(fd.Name.End()).Offset
			renames = append(renames, edit{nameOff, "VerifOrig"})
			header := src[fset.Position(fd.Pos()).Offset:fset.Position(fd.Body.Lbrace).Offset]
			ret := "return "
			if fd.Type.Results == nil || len(fd.Type.Results.List) == 0 {
				ret = ""
			}
			fmt.Fprintf(&tail, "\n%s{\n\t%s%s(%s)\n}\n", header, ret, fs.Stub, strings.Join(args, ", "))
		}
		// apply renames back to front
		for i := 0; i < len(renames); i++ {
			for j := i + 1; j < len(renames); j++ {
				if renames[j].off > renames[i].off {
					renames[i], renames[j] = renames[j], renames[i]
				}
			}
		}
		out := src
		for _, e := range renames {
			out = out[:e.off] + e.text + out[e.off:]
		}
		out += tail.String()
		p := filepath.Join(tmp, fmt.Sprintf("funcstub%d.go", k))
		k++
		if err := os.WriteFile(p, []byte(out), 0o644); err != nil {
			return err
		}
		replace[filepath.Join(repoDir, file)] = p
	}
	return nil
}

// debugForkSites (env SYMGO_FORKSITES=1): print the function in which every two-way fork happens.
var debugForkSites = os.Getenv("SYMGO_FORKSITES") != ""
