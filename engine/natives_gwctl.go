package main

// Additions of the gateway-control group (C42, C43).

import (
	"fmt"
	"go/types"
	"sort"
	"strings"

	"golang.org/x/tools/go/ssa"
)

func init() {
	extraNatives = append(extraNatives, func(e *Engine) {
		// sort.Slice / SliceStable: stable insertion sort calling the interpreted less (the library
		// versions go through reflectlite.Swapper). Elements that compare equal keep their order,
		// which is one of the orders the library may produce.
		sortSlice := func(x *Exec, fr *frame, a []Value) Value {
			x.noSpec("sort.Slice")
			it, ok := a[0].(Iface)
			if !ok || it.t == nil {
				x.tpanic("sort.Slice of nil interface")
			}
			sl, ok := it.v.([]Value)
			if !ok {
				x.unsupported("sort.Slice of non-slice %T", it.v)
			}
			less := a[1]
			for i := 1; i < len(sl); i++ {
				for j := i; j > 0; j-- {
					r := x.callValue(fr, 0, less, []Value{uint64(j), uint64(j - 1)})
					if !x.truth(r) {
						break
					}
					sl[j], sl[j-1] = sl[j-1], sl[j]
				}
			}
			return nil
		}
		e.natives["sort.Slice"] = sortSlice
		e.natives["sort.SliceStable"] = sortSlice

		// fmt.Fprintf / Fprintln into an in-memory writer (tabwriter, bytes.Buffer, strings.Builder,
		// bufio.Writer): format with the engine's formatter and call the interpreted Write. Any
		// other writer keeps the default behaviour (output discarded).
		memWriter := func(t types.Type) bool {
			switch t.String() {
			case "*text/tabwriter.Writer", "*bytes.Buffer", "*strings.Builder", "*bufio.Writer":
				return true
			}
			return false
		}
		fwrite := func(x *Exec, w Iface, s Value) Value {
			m := x.eng.methodByName(w.t, "Write")
			if m == nil {
				x.unsupported("fmt.Fprint*: %s has no Write method", w.t)
			}
			bs := strBytes(s)
			buf := make([]Value, len(bs))
			copy(buf, bs)
			return x.call(nil, m, []Value{w.v, buf})
		}
		e.natives["fmt.Fprintf"] = func(x *Exec, fr *frame, a []Value) Value {
			w, ok := a[0].(Iface)
			if !ok || w.t == nil || !memWriter(w.t) {
				return Tuple{uint64(0), Iface{}}
			}
			return fwrite(x, w, x.format(a[1], a[2].([]Value)))
		}
		e.natives["fmt.Fprintln"] = func(x *Exec, fr *frame, a []Value) Value {
			w, ok := a[0].(Iface)
			if !ok || w.t == nil || !memWriter(w.t) {
				return Tuple{uint64(0), Iface{}}
			}
			args := a[1].([]Value)
			f := ""
			for i := range args {
				if i > 0 {
					f += " "
				}
				f += "%v"
			}
			return fwrite(x, w, x.format(f+"\n", args))
		}

		// log.FromCtx: the logger is never the subject of a property; return the repo's own
		// log.DiscardLogger{} (non-nil, all methods are no-ops and are interpreted).
		e.natives["github.com/scionproto/scion/pkg/log.FromCtx"] = func(x *Exec, fr *frame, a []Value) Value {
			obj := fr.fn.Pkg.Pkg.Scope().Lookup("DiscardLogger")
			if obj == nil {
				x.unsupported("pkg/log.DiscardLogger not found")
			}
			return Iface{t: obj.Type(), v: Struct{}}
		}
	})
}

// classKey returns a canonical string for a fully concrete value (pointers by identity);
// ok=false when the value has symbolic or un-keyable parts.
func classKey(v Value) (string, bool) {
	switch v := v.(type) {
	case nil:
		return "<nil>", true
	case bool, uint64, float64, complex128, string:
		return fmt.Sprintf("%T:%v", v, v), true
	case *Value:
		return fmt.Sprintf("p%p", v), true
	case *Chan:
		return fmt.Sprintf("c%p", v), true
	case *Map:
		return fmt.Sprintf("m%p", v), true
	case *ssa.Function:
		return fmt.Sprintf("f%p", v), true
	case []Value:
		if v == nil {
			return "[]nil", true
		}
		return "", false
	case Struct:
		var sb strings.Builder
		sb.WriteString("S{")
		for _, f := range v {
			k, ok := classKey(f)
			if !ok {
				return "", false
			}
			sb.WriteString(k)
			sb.WriteByte(';')
		}
		sb.WriteByte('}')
		return sb.String(), true
	case Array:
		var sb strings.Builder
		sb.WriteString("A[")
		for _, f := range v {
			k, ok := classKey(f)
			if !ok {
				return "", false
			}
			sb.WriteString(k)
			sb.WriteByte(';')
		}
		sb.WriteByte(']')
		return sb.String(), true
	case Iface:
		if v.t == nil {
			return "I<nil>", true
		}
		k, ok := classKey(v.v)
		if !ok {
			return "", false
		}
		return "I(" + v.t.String() + ")" + k, true
	}
	return "", false
}

// selectByClass handles a load of a non-scalar element base[idx] with symbolic idx when the
// elements are concrete: the indices are partitioned into classes of equal elements and the
// path forks over the classes (not over the indices). Returns the representative index.
func (x *Exec) selectByClass(base []Value, idx *Term) (int, bool) {
	type class struct {
		first int
		idxs  []int
	}
	byKey := map[string]*class{}
	var classes []*class
	for i, v := range base {
		k, ok := classKey(v)
		if !ok {
			return 0, false
		}
		c := byKey[k]
		if c == nil {
			c = &class{first: i}
			byKey[k] = c
			classes = append(classes, c)
		}
		c.idxs = append(c.idxs, i)
	}
	if len(classes) > x.eng.cfg.MaxValuesSite {
		return 0, false
	}
	sort.SliceStable(classes, func(a, b int) bool { return len(classes[a].idxs) < len(classes[b].idxs) })
	if len(classes) == 1 {
		return classes[0].first, true
	}
	// the same index term into the same table was already classified on this path
	memo := fmt.Sprintf("classmemo:%p:%d", &base[0], idx.id)
	if k, ok := x.ghost[memo]; ok {
		return classes[k.(uint64)].first, true
	}
	// index already forced to a single value by the path condition? (2 queries instead of a fork;
	// deterministic, hence the same on replay)
	if x.spec != nil {
		panic(specAbort{"element class decision in speculation"})
	}
	if len(x.injective) > 0 {
		x.flushInjectivity()
	}
	if r, mv, err := x.solver.CheckModel(x.pc, x.st.Bool(true), []*Term{idx}); err == nil && r == Sat {
		v := mv[0].lo
		if x.check(x.st.Not(x.st.Eq(idx, x.st.Const(idx.w, v))), false) == Unsat && v < uint64(len(base)) {
			x.addPC(x.st.Eq(idx, x.st.Const(idx.w, v)))
			for k, c := range classes {
				for _, i := range c.idxs {
					if uint64(i) == v {
						x.ghost[memo] = uint64(k)
						return c.first, true
					}
				}
			}
		}
	}
	// one n-ary decision (all alternatives start in parallel); infeasible classes end at once
	replayed := x.pos < len(x.prefix)
	k := x.choose(len(classes), "element class of symbolic index")
	c := classes[k]
	cond := x.st.Bool(false)
	for _, i := range c.idxs {
		cond = x.st.Or(cond, x.st.Eq(idx, x.st.Const(idx.w, uint64(i))))
	}
	if !replayed || x.pos == len(x.prefix) {
		// (the last decision of a prefix is a queued sibling whose feasibility is still open)
		switch x.check(cond, false) {
		case Unknown:
			x.end(endUnsupported, "solver returned unknown on an element class condition")
		case Unsat:
			x.end(endAssumeFalse, "element class infeasible")
		}
	}
	x.addPC(cond)
	x.ghost[memo] = uint64(k)
	return c.first, true
}
