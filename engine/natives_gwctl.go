package main

// Additions of the gateway-control group (C42, C43).

import (
	"fmt"
	"sort"
	"strings"

	"golang.org/x/tools/go/ssa"
)

// classKey returns a canonical string for a fully concrete value (pointers by identity);
// ok=false when the value has symbolic or un-keyable parts.
func classKey(v Value) (string, bool) {
	switch v := v.(type) {
	case nil:
		return "<nil>", true
	case bool, uint64, float64, complex128, string:
		return fmt.Sprintf("%T:%v", v, v), true
	case *Value:
		return fmt.Sprintf("p%p", v), true
	case *Chan:
		return fmt.Sprintf("c%p", v), true
	case *Map:
		return fmt.Sprintf("m%p", v), true
	case *ssa.Function:
		return fmt.Sprintf("f%p", v), true
	case []Value:
		if v == nil {
			return "[]nil", true
		}
		return "", false
	case Struct:
		var sb strings.Builder
		sb.WriteString("S{")
		for _, f := range v {
			k, ok := classKey(f)
			if !ok {
				return "", false
			}
			sb.WriteString(k)
			sb.WriteByte(';')
		}
		sb.WriteByte('}')
		return sb.String(), true
	case Array:
		var sb strings.Builder
		sb.WriteString("A[")
		for _, f := range v {
			k, ok := classKey(f)
			if !ok {
				return "", false
			}
			sb.WriteString(k)
			sb.WriteByte(';')
		}
		sb.WriteByte(']')
		return sb.String(), true
	case Iface:
		if v.t == nil {
			return "I<nil>", true
		}
		k, ok := classKey(v.v)
		if !ok {
			return "", false
		}
		return "I(" + v.t.String() + ")" + k, true
	}
	return "", false
}

// selectByClass handles a load of a non-scalar element base[idx] with symbolic idx when the
// elements are concrete: the indices are partitioned into classes of equal elements and the
// path forks over the classes (not over the indices). Returns the representative index.
func (x *Exec) selectByClass(base []Value, idx *Term) (int, bool) {
	type class struct {
		first int
		idxs  []int
	}
	byKey := map[string]*class{}
	var classes []*class
	for i, v := range base {
		k, ok := classKey(v)
		if !ok {
			return 0, false
		}
		c := byKey[k]
		if c == nil {
			c = &class{first: i}
			byKey[k] = c
			classes = append(classes, c)
		}
		c.idxs = append(c.idxs, i)
	}
	if len(classes) > x.eng.cfg.MaxValuesSite {
		return 0, false
	}
	sort.SliceStable(classes, func(a, b int) bool { return len(classes[a].idxs) < len(classes[b].idxs) })
	if len(classes) == 1 {
		return classes[0].first, true
	}
	// the same index term into the same table was already classified on this path
	memo := fmt.Sprintf("classmemo:%p:%d", &base[0], idx.id)
	if k, ok := x.ghost[memo]; ok {
		return classes[k.(uint64)].first, true
	}
	// one n-ary decision (all alternatives start in parallel); infeasible classes end at once
	replayed := x.pos < len(x.prefix)
	k := x.choose(len(classes), "element class of symbolic index")
	c := classes[k]
	cond := x.st.Bool(false)
	for _, i := range c.idxs {
		cond = x.st.Or(cond, x.st.Eq(idx, x.st.Const(idx.w, uint64(i))))
	}
	if !replayed || x.pos == len(x.prefix) {
		// (the last decision of a prefix is a queued sibling whose feasibility is still open)
		switch x.check(cond, false) {
		case Unknown:
			x.end(endUnsupported, "solver returned unknown on an element class condition")
		case Unsat:
			x.end(endAssumeFalse, "element class infeasible")
		}
	}
	x.addPC(cond)
	x.ghost[memo] = uint64(k)
	return c.first, true
}
