package main

// Intrinsics added for C16 (router/bfd) and C26 (control/beacon).

import "go/types"

func init() {
	extraNatives = append(extraNatives, func(e *Engine) {
		// log.FromCtx: pkg/log is a no-op package (zero results), but callers invoke methods on the
		// returned Logger; give them the package's own DiscardLogger.
		e.natives["github.com/scionproto/scion/pkg/log.FromCtx"] = func(x *Exec, fr *frame, a []Value) Value {
			p := x.eng.pkgs["github.com/scionproto/scion/pkg/log"]
			if p == nil || p.Type("DiscardLogger") == nil {
				x.unsupported("log.FromCtx: pkg/log.DiscardLogger not loaded")
			}
			return Iface{t: p.Type("DiscardLogger").Type(), v: Struct{}}
		}
		e.natives["github.com/scionproto/scion/pkg/log.Root"] = e.natives["github.com/scionproto/scion/pkg/log.FromCtx"]
		// math/rand/v2.IntN(n): nondeterministic value in [0, n)
		intn := func(x *Exec, fr *frame, a []Value) Value {
			n := x.toTerm(a[0], 64)
			if x.truth(fromTerm(x.st.Cmp(OpSle, n, x.st.Const(64, 0)))) {
				x.tpanic("invalid argument to IntN")
			}
			t := x.nondet("rand.IntN", 64, "u64")
			x.addPC(x.st.Cmp(OpUlt, t, n))
			return t
		}
		e.natives["math/rand/v2.IntN"] = intn
		e.natives["math/rand.Intn"] = intn
		_ = types.Typ
	})
}
