package main

// Value representation of the symbolic interpreter.
//
//   bool                       bool | *Term (sort Bool)
//   all integer kinds          uint64 (bit pattern, zero-extended to the type's width) | *Term (BitVec w)
//   float32/64                 float64
//   complex                    complex128
//   string                     string | *SymStr
//   pointer, unsafe.Pointer    *Value (Go pointer to the slot)         nil: (*Value)(nil)
//   slice                      []Value                                  nil: []Value(nil)
//   array                      Array
//   struct                     Struct
//   map                        *Map                                     nil: (*Map)(nil)
//   chan                       *Chan                                    nil: (*Chan)(nil)
//   interface                  Iface{t,v}                               nil: Iface{}
//   func                       *ssa.Function | *Closure | *ssa.Builtin | *Native  nil: (*ssa.Function)(nil)
//   tuple                      Tuple

import (
	"fmt"
	"go/types"
	"strings"

	"golang.org/x/tools/go/ssa"
)

type Value = any

type Struct []Value
type Array []Value
type Tuple []Value

type Iface struct {
	t types.Type
	v Value
}

type Closure struct {
	fn  *ssa.Function
	env []Value
}

// SymStr is a string with concrete length whose bytes may be symbolic.
type SymStr struct {
	b []Value // each uint64 or *Term(w=8)
}

type mapEntry struct {
	key     Value
	val     Value
	deleted bool
}

// Map is an insertion-ordered map. Keys are canonicalised to a Go-comparable "hash key"
// when fully concrete; symbolic keys are handled by the interpreter (forking on equality).
type Map struct {
	kt      types.Type
	entries []*mapEntry
	index   map[any]*mapEntry
	n       int
}

type Chan struct {
	buf    []Value
	cap    int
	closed bool
	env    bool // driven by the environment (harness)
	name   string
}

type rangeIter struct {
	// string
	s   Value
	pos int
	// map
	m   *Map
	idx int
}

// Type helpers ---------------------------------------------------------------------------

func intInfo(t types.Type) (w uint16, signed bool, ok bool) {
	b, isB := t.Underlying().(*types.Basic)
	if !isB {
		return 0, false, false
	}
	switch b.Kind() {
	case types.Int8:
		return 8, true, true
	case types.Int16:
		return 16, true, true
	case types.Int32, types.UntypedRune:
		return 32, true, true
	case types.Int64, types.Int, types.UntypedInt:
		return 64, true, true
	case types.Uint8:
		return 8, false, true
	case types.Uint16:
		return 16, false, true
	case types.Uint32:
		return 32, false, true
	case types.Uint64, types.Uint, types.Uintptr:
		return 64, false, true
	}
	return 0, false, false
}

func isFloat(t types.Type) (bits int, ok bool) {
	b, isB := t.Underlying().(*types.Basic)
	if !isB {
		return 0, false
	}
	switch b.Kind() {
	case types.Float32:
		return 32, true
	case types.Float64, types.UntypedFloat:
		return 64, true
	}
	return 0, false
}

func isBoolT(t types.Type) bool {
	b, ok := t.Underlying().(*types.Basic)
	return ok && b.Info()&types.IsBoolean != 0
}

func isStringT(t types.Type) bool {
	b, ok := t.Underlying().(*types.Basic)
	return ok && b.Info()&types.IsString != 0
}

func norm(v uint64, w uint16) uint64 { return v & mask(w) }

func zero(t types.Type) Value {
	switch t := t.(type) {
	case *types.Basic:
		if t.Kind() == types.UntypedNil {
			panic("untyped nil has no zero value")
		}
		if t.Info()&types.IsBoolean != 0 {
			return false
		}
		if t.Info()&types.IsInteger != 0 {
			return uint64(0)
		}
		if t.Info()&types.IsFloat != 0 {
			return float64(0)
		}
		if t.Info()&types.IsComplex != 0 {
			return complex128(0)
		}
		if t.Info()&types.IsString != 0 {
			return ""
		}
		if t.Kind() == types.UnsafePointer {
			return (*Value)(nil)
		}
	case *types.Pointer:
		return (*Value)(nil)
	case *types.Array:
		n := int(t.Len())
		a := make(Array, n)
		et := t.Elem()
		if n > 0 {
			// fast path for scalar element types
			z := zero(et)
			switch z.(type) {
			case uint64, bool, string, float64, *Value:
				for i := range a {
					a[i] = z
				}
			default:
				a[0] = z
				for i := 1; i < n; i++ {
					a[i] = zero(et)
				}
			}
		}
		return a
	case *types.Named:
		return zero(t.Underlying())
	case *types.Alias:
		return zero(types.Unalias(t))
	case *types.Interface:
		return Iface{}
	case *types.Slice:
		return []Value(nil)
	case *types.Struct:
		s := make(Struct, t.NumFields())
		for i := range s {
			s[i] = zero(t.Field(i).Type())
		}
		return s
	case *types.Tuple:
		if t.Len() == 1 {
			return zero(t.At(0).Type())
		}
		s := make(Tuple, t.Len())
		for i := range s {
			s[i] = zero(t.At(i).Type())
		}
		return s
	case *types.Chan:
		return (*Chan)(nil)
	case *types.Map:
		return (*Map)(nil)
	case *types.Signature:
		return (*ssa.Function)(nil)
	case *types.TypeParam:
		panic("zero of type parameter (generic function not instantiated)")
	}
	panic(fmt.Sprint("zero: unexpected ", t))
}

// copyVal deep-copies aggregates (struct/array values have value semantics).
func copyVal(v Value) Value {
	switch v := v.(type) {
	case Struct:
		c := make(Struct, len(v))
		for i, x := range v {
			c[i] = copyVal(x)
		}
		return c
	case Array:
		c := make(Array, len(v))
		scalar := true
		for i, x := range v {
			switch x.(type) {
			case Struct, Array:
				scalar = false
				c[i] = copyVal(x)
			default:
				c[i] = x
			}
		}
		_ = scalar
		return c
	}
	return v
}

// Map implementation -----------------------------------------------------------------------

// hashKey returns a Go-comparable canonical form of a fully concrete key; ok=false when the key
// contains symbolic parts.
func hashKey(v Value) (any, bool) {
	switch v := v.(type) {
	case bool, uint64, float64, complex128, string, *Value, *Chan:
		return v, true
	case *Term, *SymStr:
		return nil, false
	case Struct:
		var sb strings.Builder
		sb.WriteString("S{")
		for _, f := range v {
			k, ok := hashKey(f)
			if !ok {
				return nil, false
			}
			fmt.Fprintf(&sb, "%T:%v;", k, k)
		}
		sb.WriteString("}")
		return sb.String(), true
	case Array:
		var sb strings.Builder
		sb.WriteString("A[")
		for _, f := range v {
			k, ok := hashKey(f)
			if !ok {
				return nil, false
			}
			fmt.Fprintf(&sb, "%T:%v;", k, k)
		}
		sb.WriteString("]")
		return sb.String(), true
	case Iface:
		if v.t == nil {
			return "I<nil>", true
		}
		k, ok := hashKey(v.v)
		if !ok {
			return nil, false
		}
		return fmt.Sprintf("I(%s)%T:%v", v.t.String(), k, k), true
	}
	panic(fmt.Sprintf("unhashable map key %T", v))
}

func newMap(kt types.Type) *Map {
	return &Map{kt: kt, index: map[any]*mapEntry{}}
}

func (m *Map) live() []*mapEntry {
	out := make([]*mapEntry, 0, len(m.entries))
	for _, e := range m.entries {
		if !e.deleted {
			out = append(out, e)
		}
	}
	return out
}

func (m *Map) Len() int {
	if m == nil {
		return 0
	}
	return m.n
}

// hasSymKeys reports whether some live entry has a symbolic key.
func (m *Map) hasSymKeys() bool {
	for _, e := range m.entries {
		if !e.deleted {
			if _, ok := hashKey(e.key); !ok {
				return true
			}
		}
	}
	return false
}

func (m *Map) getConcrete(hk any) *mapEntry {
	if m == nil {
		return nil
	}
	return m.index[hk]
}

func (m *Map) putConcrete(hk any, key, val Value) {
	if e := m.index[hk]; e != nil {
		e.val = val
		return
	}
	e := &mapEntry{key: key, val: val}
	m.entries = append(m.entries, e)
	m.index[hk] = e
	m.n++
}

func (m *Map) putSymbolic(key, val Value) {
	e := &mapEntry{key: key, val: val}
	m.entries = append(m.entries, e)
	m.n++
}

func (m *Map) deleteEntry(e *mapEntry) {
	if e.deleted {
		return
	}
	e.deleted = true
	m.n--
	if hk, ok := hashKey(e.key); ok {
		delete(m.index, hk)
	}
}

// Debug printing ------------------------------------------------------------------------------

func valString(v Value) string {
	switch v := v.(type) {
	case nil:
		return "<nil-value>"
	case bool, uint64, float64, string, complex128:
		return fmt.Sprintf("%v", v)
	case *Term:
		return v.String()
	case *SymStr:
		return fmt.Sprintf("symstr(len=%d)", len(v.b))
	case *Value:
		if v == nil {
			return "nil"
		}
		return fmt.Sprintf("ptr(%p)", v)
	case []Value:
		if v == nil {
			return "nil-slice"
		}
		if len(v) > 16 {
			return fmt.Sprintf("slice(len=%d)", len(v))
		}
		var sb strings.Builder
		sb.WriteString("[")
		for i, x := range v {
			if i > 0 {
				sb.WriteString(" ")
			}
			sb.WriteString(valString(x))
		}
		sb.WriteString("]")
		return sb.String()
	case Array:
		return "array" + valString([]Value(v))
	case Struct:
		return "struct" + valString([]Value(v))
	case Tuple:
		return "tuple" + valString([]Value(v))
	case Iface:
		if v.t == nil {
			return "nil-iface"
		}
		return fmt.Sprintf("iface(%s, %s)", v.t, valString(v.v))
	case *Map:
		return fmt.Sprintf("map(len=%d)", v.Len())
	case *ssa.Function:
		if v == nil {
			return "nil-func"
		}
		return v.String()
	case *Closure:
		return "closure " + v.fn.String()
	}
	return fmt.Sprintf("<%T>", v)
}
