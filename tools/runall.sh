#!/bin/sh
# usage: tools/runall.sh [tier] [ids...]  -- runs the registered checks one after the other, logs to /tmp/runall/
TIER="${1:-quick}"; [ $# -gt 0 ] && shift
cd "$(dirname "$0")/.."
mkdir -p /tmp/runall
IDS="$*"
[ -z "$IDS" ] && IDS=$(python3 -c "import json;print(' '.join(c['property_id'] for c in json.load(open('MANIFEST.json'))['checks']))")
for id in $IDS; do
  s=$(date +%s)
  ./check $id $TIER ${RUNALL_FLAGS} > /tmp/runall/$id.$TIER.log 2>&1
  rc=$?
  e=$(date +%s)
  echo "$id $TIER exit=$rc wall=$((e-s))s $(grep -c '^KNOWN-FINDING' /tmp/runall/$id.$TIER.log) known, $(grep -c '^INCONCLUSIVE' /tmp/runall/$id.$TIER.log) inconcl, $(grep -c '^VIOLATION' /tmp/runall/$id.$TIER.log) viol" >> /tmp/runall/summary.$TIER.txt
done
echo done >> /tmp/runall/summary.$TIER.txt
