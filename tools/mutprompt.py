#!/usr/bin/env python3
"""Prints the prompt given to an independent mutation sub-agent for one property (property text only)."""
import json, sys
pid = sys.argv[1]
variant = sys.argv[2] if len(sys.argv) > 2 else ""
wt = "/tmp/mut/" + pid + variant
for l in open('/verif/properties.jsonl'):
    p = json.loads(l)
    if p['id'] == pid:
        break
print(f"""You are working on a scratch git worktree of the scionproto/scion repository (Go) at {wt}. Work ONLY inside {wt}; never read or modify /repo, /verif or any other directory outside {wt} (the Go module cache and toolchain are fine to read).

Every shell command needs this environment first (no network is available):
  export PATH=/opt/veriftools/go1.26.8/bin:$PATH GOTOOLCHAIN=local GOFLAGS=-mod=mod GOPROXY=off GOSUMDB=off

Here is a semantic property that the code base is supposed to satisfy:

  Title: {p['title']}
  Statement: {p['statement']}
  Quantified over: {p['quantifier']['text']}
  Main files: {', '.join(p['anchors']['files'])}

Your task: produce ONE realistic change to the non-test source code of the repository (the kind of slip a maintainer could make in a refactoring, an optimisation or a bug fix: an off-by-one, a wrong mask or operator, a check skipped for one shape of input, a swapped argument, a missing update, two sites that each look fine alone ...) that BREAKS this property while
  (a) the repository still compiles (go build ./... for the touched packages and their dependents), and
  (b) the EXISTING tests still pass (run go test -vet=off -count=1 for every package you touch and for the packages that import it and plausibly exercise it, e.g. ./router/... ./pkg/slayers/... as relevant), and
  (c0) never use `git stash` (the stash is shared between worktrees; use `git diff > p.diff; git apply -R p.diff` instead), and
  (c) the breakage needs something specific to manifest: an unusual input, a boundary value, a particular shape/combination, a multi-step sequence, a particular interleaving or fault. It must NOT be something ordinary use or the existing tests expose at once. Prefer subtle over blatant. Do not edit, delete or weaken any existing test, and do not change test data.

Also write a demonstration: a NEW Go test file (give it a name starting with zz_demo_ and ending in _test.go, placed in the package it needs) that FAILS with your change applied and PASSES on the unchanged tree. Verify both directions yourself (save the patch with `git diff > p.diff`, revert with `git apply -R p.diff`, re-apply with `git apply p.diff`; never `git stash`).

Deliver, in the directory {wt}/OUT (create it):
  - patch.diff   : output of `git diff` for the source change ONLY (not the demo test, not OUT); it must apply with `git apply` at the repository root of an unchanged tree
  - the demo test file, plus a file demo_path.txt containing its intended repository-relative path
  - meta.json    : {{"property": "{pid}", "summary": "...what was changed...", "needs": "...what is needed for the breakage to manifest...", "demo_cmd": "go test ... (command that runs the demo)", "tests_run": ["...packages whose existing tests you ran and that passed..."]}}
Leave the worktree with your change reverted or applied as you like; only OUT matters. In your final answer, summarise the change in 3-4 lines and confirm the three verification results (compiles, existing tests pass, demo fails with / passes without).""")
